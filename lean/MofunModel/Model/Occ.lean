/-
  Occ.lean — SPECIFICATION-level notions for C02 / C03 (nothing here is executed by the driver):
  what an occurrence of the pattern in the periodic structure is, independently of how the search works.

  * `DistOccurrence`  : atoms `g k`, integer image vectors `n k` (first atom in the home image), right elements, and
                        ALL pairwise image distances agree with the pattern's in the code's own sense of
                        `math.isclose(…, abs_tol=atol)` (model: `iscloseSqrt`).  This is what the candidate
                        enumeration must be complete for.
  * `RigidOccurrence` : the same data, but fitted by a proper rotation + translation with every atom within `ε`
                        (squared: `epsSq`).  `Occ` is the set of its keys (sorted atom indices).
  Only squared distances are used; no square root.  Core Lean only.
-/
import MofunModel.Model.Find

namespace Mofun

/-- position of the periodic image `n` (integer multipliers of the three cell vectors) of atom `g` -/
def imagePos (inp : FindInput) (g : Nat) (n : Int × Int × Int) : Vec3 :=
  Vec3.add (inp.pos.getD g Vec3.zero) (inp.cell.lattice n.1 n.2.1 n.2.2)

/-- the key under which an atom group is counted: its sorted atom indices -/
def occKey (len : Nat) (g : Nat → Nat) : List Nat := sortNat ((List.range len).map g)

/-- an occurrence in the sense of the distance filter -/
structure DistOccurrence (inp : FindInput) (g : Nat → Nat) (n : Nat → Int × Int × Int) : Prop where
  idx_lt : ∀ k, k < inp.ppos.length → g k < inp.pos.length
  /-- DISTINCT atoms: one structure atom stands for one pattern atom only -/
  inj : ∀ i j, j < i → i < inp.ppos.length → g j ≠ g i
  home : n 0 = (0, 0, 0)
  elem : ∀ k, k < inp.ppos.length → inp.elems.getD (g k) "" = inp.pelems.getD k ""
  dist : ∀ i j, j < i → i < inp.ppos.length →
    iscloseSqrt (distSq (inp.ppos.getD i Vec3.zero) (inp.ppos.getD j Vec3.zero))
      (distSq (imagePos inp (g j) (n j)) (imagePos inp (g i) (n i))) inp.atol = true

/-- matrix (rows `a b c`) times vector -/
def Mat3.mulVec (r : Mat3) (v : Vec3) : Vec3 := ⟨Vec3.dot r.a v, Vec3.dot r.b v, Vec3.dot r.c v⟩

/-- a proper rotation: `RᵀR = 1` (orthonormal columns — this is what makes `v ↦ R v` an isometry) and `det R = 1` -/
def Mat3.IsProperRotation (r : Mat3) : Prop :=
  r.a.x * r.a.x + r.b.x * r.b.x + r.c.x * r.c.x = 1 ∧
  r.a.y * r.a.y + r.b.y * r.b.y + r.c.y * r.c.y = 1 ∧
  r.a.z * r.a.z + r.b.z * r.b.z + r.c.z * r.c.z = 1 ∧
  r.a.x * r.a.y + r.b.x * r.b.y + r.c.x * r.c.y = 0 ∧
  r.a.x * r.a.z + r.b.x * r.b.z + r.c.x * r.c.z = 0 ∧
  r.a.y * r.a.z + r.b.y * r.b.z + r.c.y * r.c.z = 0 ∧
  r.det = 1

/-- an occurrence in the sense of the property: a proper rotation `R` and a translation `t` carry every pattern
    atom to within `ε` (`epsSq = ε²`) of the chosen image of the chosen structure atom, elements agree, the first
    atom is taken in the home image -/
structure RigidOccurrence (inp : FindInput) (epsSq : Rat) (g : Nat → Nat) (n : Nat → Int × Int × Int) : Prop where
  idx_lt : ∀ k, k < inp.ppos.length → g k < inp.pos.length
  home : n 0 = (0, 0, 0)
  elem : ∀ k, k < inp.ppos.length → inp.elems.getD (g k) "" = inp.pelems.getD k ""
  fit : ∃ (R : Mat3) (t : Vec3), R.IsProperRotation ∧ ∀ k, k < inp.ppos.length →
    distSq (Vec3.add (R.mulVec (inp.ppos.getD k Vec3.zero)) t) (imagePos inp (g k) (n k)) ≤ epsSq

/-- `Occ(S, P, ε)`: the keys of the occurrences -/
def Occ (inp : FindInput) (epsSq : Rat) (key : List Nat) : Prop :=
  ∃ g n, RigidOccurrence inp epsSq g n ∧ key = occKey inp.ppos.length g

end Mofun
