/-
  ExtendApi.lean — the public spellings `Atoms.extend` accepts around the core algorithm of Model/Topo.lean:

  * `offsets` is any sequence of type-id offsets; it is read as (atom, bond, angle, dihedral, improper) and a shorter
    one is padded with zeros (`tuple(offsets) + (0,) * (5 - len(offsets))`: the four-entry tuples from before impropers
    had an offset of their own, e.g. the documented `(0,0,0,0)`); entries beyond the fifth are never read;
  * the identity map is a python dict over integers; numpy reads a negative index from the end, so the map is first
    brought to plain indices (`k % len(other)`, `v % len(self)`), an index outside `[-n, n)` raises IndexError BEFORE
    anything is modified; the normalised map is again a dict (two spellings of the same key collapse: the later
    binding's value at the earlier binding's place).

  Core Lean only.  Nothing of Model/Topo.lean is changed: `Atoms.extendApi` normalises and then calls `Atoms.extend`.
-/
import MofunModel.Model.Topo

namespace Mofun

/-- numpy's reading of an index into an axis of length `n`: `-n ≤ i < n` ↦ `i % n`, anything else is an IndexError -/
def plainIdx (n : Nat) (i : Int) : Option Nat :=
  if -(n : Int) ≤ i ∧ i < (n : Int) then some (i % (n : Int)).toNat else none

/-- `d[k] = v` on an insertion-ordered dict given as an association list -/
def dictInsert : List (Nat × Nat) → Nat → Nat → List (Nat × Nat)
  | [], k, v => [(k, v)]
  | (k', v') :: rest, k, v => if k' = k then (k, v) :: rest else (k', v') :: dictInsert rest k v

/-- one binding of the comprehension below -/
def normStep (nOther nSelf : Nat) (acc : Except Err (List (Nat × Nat))) (kv : Int × Int) :
    Except Err (List (Nat × Nat)) :=
  match acc with
  | .error e => .error e
  | .ok m =>
    match plainIdx nOther kv.1, plainIdx nSelf kv.2 with
    | some k, some v => .ok (dictInsert m k v)
    | _, _ => .error .index

/-- `{plain_index(k, len(other)): plain_index(v, len(self)) for k, v in map.items()}` -/
def normMap (nOther nSelf : Nat) (map : List (Int × Int)) : Except Err (List (Nat × Nat)) :=
  map.foldl (normStep nOther nSelf) (.ok [])

/-- offsets as the code reads them: the first five entries, missing ones are 0 -/
def padOffsets (l : List Nat) : Offsets :=
  ⟨l.getD 0 0, l.getD 1 0, l.getD 2 0, l.getD 3 0, l.getD 4 0⟩

/-- `a.extend(b, offsets, structure_index_map)` for every sequence of offsets and every dict over integers -/
def Atoms.extendApi (a b : Atoms) (off : Option (List Nat)) (map : List (Int × Int)) : Except Err Atoms :=
  match normMap b.atoms.length a.atoms.length map with
  | .error e => .error e
  | .ok m => a.extend b (off.map padOffsets) m

end Mofun
