/-
  CliRun.lean — what a run of the command line COMPUTES (property C20, stretch): an interpreter of the call list of
  Model/Cli.lean over the models of the library operations, and the same computation written as a user of the API
  would write it.  Core Lean only.

  * `runCalls env cs`  — executes a list of `Call`s one after the other on a state (current structure, loaded
    patterns, reported matches, written file).  `runPlan env o` = probe the cell, build `plan o c`, execute it.
  * `apiPipeline env o` — load; overrides; `replicate`; minimum-image replication computed from the structure's own
    cell; pair parameters; find or replace; save — each line "if the option is given, call the operation".

  Operations come from the existing models: `Atoms.replicate` (Model/Topo.lean, C12), `replaceCore` (Model/Replace.lean,
  C04–C08) on the matches of the search, `Mat3.isOrtho` (Model/Lattice.lean), the minimum-image factors `micDims`
  (Model/Cli.lean, exact `Rat`), `Lmp.resolveType` (Model/Lmp.lean: which reader / writer a path reaches), the UFF
  table (Generated/Uff.lean, regenerated from the sources on every run).

  What is an INPUT (environment `Env`), because another property owns it or because it is random:
  the parsed content of every file (C13 lmpdat, C15 cif, C16 cml, ASE), the numbers in the charge and dump files, the
  matches the search reports for a structure / pattern / tolerance / hints (C01–C03; `Find.find` is one such
  function), the positions `random.sample` picks for a replacement fraction below 1, and the text of one
  pair-coefficient line (`'%10.6f %10.6f # %s'` of a float product, C18).
-/
import MofunModel.Model.Cli
import MofunModel.Model.Lattice
import MofunModel.Model.Replace
import MofunModel.Model.Lmp
import MofunModel.Generated.Uff

namespace Mofun.Cli

/-! ## environment -/

structure Env where
  loadLmpdat : String → Except Err Atoms       -- `Atoms.load_lmpdat(open(path))`
  loadCml : String → Except Err Atoms          -- `Atoms.load_cml(path)`
  loadCif : String → Except Err Atoms          -- `Atoms.load_p1_cif(open(path))`
  aseRead : String → Except Err Atoms          -- `Atoms.from_ase_atoms(ase.io.read(path))`
  dumpPositions : String → Except Err (List Vec3)   -- `ase.io.read(path, format="lammps-dump-text").positions`
  chargeValues : String → Except Err (List Rat)     -- the non-blank lines of the charge file as numbers
  /-- `find_pattern_in_structure(structure, pattern, atol=, axisp1_idx=, axisp2_idx=, opoint_idx=)`: the matches with
      their image positions and rotations -/
  search : Atoms → Atoms → Rat → Hints → List PlacedMatch
  /-- `random.sample(range(n), k = round(f·n))` for `n` found matches and fraction `f` -/
  sample : Nat → Rat → List Nat
  /-- `'%10.6f %10.6f # %s' % (*pair_coeffs(key), key)` -/
  pairText : String → String

/-! ## format dispatch of `Atoms.load` / `Atoms.save` -/

/-- `os.path.splitext(path)[1][1:]` (for the paths considered here: the `pathlib` suffix without its dot) -/
def extOf (path : String) : String := String.ofList ((suffixChars path.toList).drop 1)

/-- `Atoms.load(path)`: reader chosen by the file type (`Lmp.resolveType`), anything else is refused -/
def Env.load (env : Env) (path : String) : Except Err Atoms :=
  match Lmp.resolveType (.path (extOf path)) none with
  | .error e => .error e
  | .ok ft =>
    if ft = "lmpdat" then env.loadLmpdat path
    else if ft = "cml" then env.loadCml path
    else if ft = "cif" then env.loadCif path
    else .error (.reject "filetype")

inductive Format where
  | lmpdat | mol | cif
deriving DecidableEq, Repr, Inhabited

/-- what ends up on disk: the structure handed to one of the three writers, or to ASE (elements, positions, cell) -/
inductive Written where
  | native (path : String) (fmt : Format) (a : Atoms)
  | ase (path : String) (elems : List String) (pos : List Vec3) (cell : Option Mat3)
deriving DecidableEq, Repr, Inhabited

/-- `atoms.save(path)` -/
def saveNative (path : String) (a : Atoms) : Except Err Written :=
  match Lmp.resolveType (.path (extOf path)) none with
  | .error e => .error e
  | .ok ft =>
    if ft = "lmpdat" then .ok (.native path .lmpdat a)
    else if ft = "mol" then .ok (.native path .mol a)
    else if ft = "cif" then .ok (.native path .cif a)
    else .error (.reject "filetype")

/-- `aseatoms = atoms.to_ase(); aseatoms.set_pbc(True); aseatoms.write(path)` -/
def saveAse (path : String) (a : Atoms) : Except Err Written :=
  .ok (.ase path (a.atoms.map (fun r => a.typeElems.getD r.ty "")) (a.atoms.map (·.pos)) a.cell)

/-! ## the operations -/

/-- `atoms.cell = Atoms.load(path).cell` -/
def setCellFrom (env : Env) (a : Atoms) (path : String) : Except Err Atoms :=
  match env.load path with
  | .error e => .error e
  | .ok u => .ok { a with cell := u.cell }

def zipPos : List AtomRow → List Vec3 → List AtomRow
  | r :: rs, p :: ps => { r with pos := p } :: zipPos rs ps
  | _, _ => []

def zipCharge : List AtomRow → List Rat → List AtomRow
  | r :: rs, q :: qs => { r with charge := q } :: zipCharge rs qs
  | _, _ => []

/-- `assert len(dump.positions) == len(atoms.positions); atoms.positions = dump.positions` -/
def setPositionsFrom (env : Env) (a : Atoms) (path : String) : Except Err Atoms :=
  match env.dumpPositions path with
  | .error e => .error e
  | .ok ps => if ps.length = a.atoms.length then .ok { a with atoms := zipPos a.atoms ps } else .error (.reject "assert")

/-- `assert len(charges) == len(atoms.positions); atoms.charges = charges` -/
def setChargesFrom (env : Env) (a : Atoms) (file : String) : Except Err Atoms :=
  match env.chargeValues file with
  | .error e => .error e
  | .ok qs => if qs.length = a.atoms.length then .ok { a with atoms := zipCharge a.atoms qs } else .error (.reject "assert")

/-- `atoms.replicate(dims)`; factors below 1 are outside the modelled domain (numpy builds empty ranges and scales
    the cell by the non-positive factor) -/
def replicateNat (a : Atoms) (d : Nat × Nat × Nat) : Except Err Atoms :=
  if 1 ≤ d.1 ∧ 1 ≤ d.2.1 ∧ 1 ≤ d.2.2 then a.replicate d.1 d.2.1 d.2.2 else .error .domain

def replicateInt (a : Atoms) (d : Int × Int × Int) : Except Err Atoms :=
  if 1 ≤ d.1 ∧ 1 ≤ d.2.1 ∧ 1 ≤ d.2.2 then a.replicate d.1.toNat d.2.1.toNat d.2.2.toNat else .error .domain

/-- diagonal of the cell matrix, `np.diag(cell)` -/
def diagOf (m : Mat3) : Rat × Rat × Rat := (m.a.x, m.b.y, m.c.z)

/-- what `plan` needs to know about a structure's cell -/
def cellInfoOf (a : Atoms) : Option CellInfo := a.cell.map (fun m => ⟨diagOf m, m.isOrtho⟩)

/-- the minimum-image step of the entry point, computed from the structure itself:
    `if atoms.cell_is_orthorhombic(): atoms = atoms.replicate(ceil(2*mic / diag(cell))) else: warning` -/
def micStep (a : Atoms) (mic : Rat) : Except Err Atoms :=
  match a.cell with
  | none => .error .nocell
  | some m =>
    if m.isOrtho then
      if 0 < m.a.x ∧ 0 < m.b.y ∧ 0 < m.c.z then replicateInt a (micDims mic (diagOf m)) else .error .domain
    else .ok a

def startsWith (pre s : List Char) : Bool :=
  match pre, s with
  | [], _ => true
  | _ :: _, [] => false
  | p :: ps, c :: cs => p == c && startsWith ps cs

/-- `el.ljust(2, "_")` -/
def ljust2 (el : String) : List Char :=
  match el.toList with
  | [] => ['_', '_']
  | [c] => [c, '_']
  | l => l

/-- `uff_key_starts_with(el.ljust(2, "_"))[0]`: the first key of the UFF table, in source order, that starts with
    the padded symbol; an element without a key raises (IndexError) -/
def uffKeyOf (tbl : List (String × List Dec)) (el : String) : Except Err String :=
  match tbl.find? (fun kv => startsWith (ljust2 el) kv.1.toList) with
  | some kv => .ok kv.1
  | none => .error .index

def mapExc {α β} (f : α → Except Err β) : List α → Except Err (List β)
  | [] => .ok []
  | x :: xs =>
    match f x with
    | .error e => .error e
    | .ok y =>
      match mapExc f xs with
      | .error e => .error e
      | .ok ys => .ok (y :: ys)

/-- `assign_pair_params_to_structure(atoms)`: every atom type gets the UFF key of its element as label and that
    key's pair-coefficient line -/
def assignPair (env : Env) (a : Atoms) : Except Err Atoms :=
  match mapExc (uffKeyOf Generated.uff4mof) a.typeElems with
  | .error e => .error e
  | .ok keys => .ok { a with pairCoeffs := keys.map env.pairText, typeLabels := keys }

/-- `find_pattern_in_structure(atoms, pattern, atol=, hints)` as the entry point uses it: the index tuples; needs a
    unit cell -/
def findOp (env : Env) (a p : Atoms) (atol : Rat) (h : Hints) : Except Err (List (List Nat)) :=
  match a.cell with
  | none => .error .nocell
  | some _ => .ok ((env.search a p atol h).map (·.idx))

/-- `replace_pattern_in_structure(atoms, search, repl, atol=, hints, replace_fraction=)`: both patterns moved so that
    the first search atom is at the origin, search, a fraction below 1 keeps the sampled matches, `replaceCore` -/
def replaceOp (env : Env) (a p r : Atoms) (atol : Rat) (h : Hints) (f : Rat) : Except Err Atoms :=
  match a.cell with
  | none => .error .nocell
  | some _ =>
    let p0 := match p.atoms[0]? with
      | some row => row.pos
      | none => Vec3.zero
    let d := Vec3.sub Vec3.zero p0
    let p' := p.translate d
    let r' := r.translate d
    let found := env.search a p' atol h
    -- `random.sample(range(n), k = round(f·n))` refuses a negative count (`f·n < −1/2`)
    if f < 1 ∧ f * (found.length : Rat) < -1 / 2 then .error (.reject "sample") else
    let used := if f < 1 then (env.sample found.length f).filterMap (fun i => found[i]?) else found
    replaceCore a p' r' used false false

/-! ## the interpreter of a call list -/

structure RunState where
  atoms : Atoms
  pats : List Atoms                          -- loaded patterns not yet used by a search, oldest first
  found : Option (List (List Nat))          -- matches printed by a find-only run
  out : Option Written
deriving Repr, Inhabited

def RunState.init : RunState := ⟨Atoms.empty, [], none, none⟩

def withAtoms (st : RunState) (r : Except Err Atoms) : Except Err RunState :=
  match r with
  | .error e => .error e
  | .ok a => .ok { st with atoms := a }

/-- one call, executed -/
def stepCall (env : Env) (st : RunState) : Call → Except Err RunState
  | .load p => withAtoms st (env.load p)
  | .loadAse p => withAtoms st (env.aseRead p)
  | .setCellFrom p => withAtoms st (setCellFrom env st.atoms p)
  | .setPositionsFromDump p => withAtoms st (setPositionsFrom env st.atoms p)
  | .setCharges f => withAtoms st (setChargesFrom env st.atoms f)
  | .replicate d => withAtoms st (replicateNat st.atoms d)
  | .micReplicate d => withAtoms st (replicateInt st.atoms d)
  | .micSkippedNotOrtho => .ok st
  | .assignPair => withAtoms st (assignPair env st.atoms)
  | .loadPattern p =>
    match env.load p with
    | .error e => .error e
    | .ok a => .ok { st with pats := st.pats ++ [a] }
  | .find atol h =>
    match st.pats with
    | [p] =>
      match findOp env st.atoms p atol h with
      | .error e => .error e
      | .ok ms => .ok { st with found := some ms, pats := [] }
    | _ => .error .domain
  | .replace atol h f =>
    match st.pats with
    | [p, r] => withAtoms { st with pats := [] } (replaceOp env st.atoms p r atol h f)
    | _ => .error .domain
  | .warnReplaceWithoutFind => .ok st
  /- `atoms.symbols[atoms.atom_groups == 0] = e`: no such attribute — the real code raises here (known finding
     C20-framework-element); there is no API operation it could stand for -/
  | .setFrameworkElement _ => .error (.reject "atom_groups")
  | .save p =>
    match saveNative p st.atoms with
    | .error e => .error e
    | .ok w => .ok { st with out := some w }
  | .saveAse p =>
    match saveAse p st.atoms with
    | .error e => .error e
    | .ok w => .ok { st with out := some w }

/-- the calls of a list, in order; the first failure ends the run -/
def runFrom (env : Env) : RunState → List Call → Except Err RunState
  | st, [] => .ok st
  | st, c :: cs =>
    match stepCall env st c with
    | .error e => .error e
    | .ok st' => runFrom env st' cs

/-- the observable result of a run: the file written and the matches reported -/
structure Output where
  written : Written
  reported : Option (List (List Nat))
deriving DecidableEq, Repr, Inhabited

def finish (st : RunState) : Except Err Output :=
  match st.out with
  | some w => .ok ⟨w, st.found⟩
  | none => .error .domain

def runCalls (env : Env) (cs : List Call) : Except Err Output :=
  match runFrom env RunState.init cs with
  | .error e => .error e
  | .ok st => finish st

/-! ## the API pipeline, as a user of the library writes it -/

def apiLoad (env : Env) (o : Options) : Except Err Atoms :=
  if o.inputNative then env.load o.input else env.aseRead o.input

def apiExtractUc (env : Env) (o : Options) (a : Atoms) : Except Err Atoms :=
  match o.extractUc with
  | some p => setCellFrom env a p
  | none => .ok a

def apiDump (env : Env) (o : Options) (a : Atoms) : Except Err Atoms :=
  match o.dumpPath with
  | some p => setPositionsFrom env a p
  | none => .ok a

def apiCharges (env : Env) (o : Options) (a : Atoms) : Except Err Atoms :=
  match o.chargefile with
  | some f => setChargesFrom env a f
  | none => .ok a

def apiReplicate (o : Options) (a : Atoms) : Except Err Atoms :=
  match o.replicate with
  | some d => replicateNat a d
  | none => .ok a

def apiMic (o : Options) (a : Atoms) : Except Err Atoms :=
  match o.mic with
  | some m => micStep a m
  | none => .ok a

def apiPp (env : Env) (o : Options) (a : Atoms) : Except Err Atoms :=
  if o.pp then assignPair env a else .ok a

/-- find (matches reported, structure untouched) or replace (structure replaced, nothing reported) -/
def apiSearch (env : Env) (o : Options) (a : Atoms) : Except Err (Atoms × Option (List (List Nat))) :=
  match o.findPath, o.replacePath with
  | none, _ => .ok (a, none)
  | some f, none =>
    match env.load f with
    | .error e => .error e
    | .ok p =>
      match findOp env a p o.atol o.hints with
      | .error e => .error e
      | .ok ms => .ok (a, some ms)
  | some f, some r =>
    match env.load f with
    | .error e => .error e
    | .ok p =>
      match env.load r with
      | .error e => .error e
      | .ok rp =>
        match replaceOp env a p rp o.atol o.hints o.replaceFraction with
        | .error e => .error e
        | .ok a' => .ok (a', none)

def apiFramework (o : Options) (a : Atoms) : Except Err Atoms :=
  match o.frameworkElement with
  | some _ => .error (.reject "atom_groups")
  | none => .ok a

def apiSave (o : Options) (a : Atoms) : Except Err Written :=
  if o.outputNative then saveNative o.output a else saveAse o.output a

/-- **the API pipeline**: load the same files, overrides, replicate first, minimum image, pair parameters, find or
    replace with the same options, save -/
def apiPipeline (env : Env) (o : Options) : Except Err Output := do
  let a ← apiLoad env o
  let a ← apiExtractUc env o a
  let a ← apiDump env o a
  let a ← apiCharges env o a
  let a ← apiReplicate o a
  let a ← apiMic o a
  let a ← apiPp env o a
  let (a, found) ← apiSearch env o a
  let a ← apiFramework o a
  let w ← apiSave o a
  pure ⟨w, found⟩

/-- the same pipeline with the minimum-image factors taken from the plan (computed from the probed cell `c` and the
    `--replicate` option) instead of from the structure at that point: what executing `planCalls o c` amounts to -/
def micFromPlan (o : Options) (c : Option CellInfo) (a : Atoms) : Except Err Atoms :=
  match o.mic, c with
  | some m, some ci =>
    if ci.ortho then replicateInt a (micDims m (scaleDiag ci.diag o.replicate)) else .ok a
  | _, _ => .ok a

def planPipeline (env : Env) (o : Options) (c : Option CellInfo) : Except Err Output := do
  let a ← apiLoad env o
  let a ← apiExtractUc env o a
  let a ← apiDump env o a
  let a ← apiCharges env o a
  let a ← apiReplicate o a
  let a ← micFromPlan o c a
  let a ← apiPp env o a
  let (a, found) ← apiSearch env o a
  let a ← apiFramework o a
  let w ← apiSave o a
  pure ⟨w, found⟩

/-! ## a run of the command line -/

/-- the cell the entry point will see before `--replicate`: of the input, or of the `--extract-uc` file -/
def probeCell (env : Env) (o : Options) : Except Err (Option CellInfo) := do
  let a ← apiLoad env o
  let a ← apiExtractUc env o a
  pure (cellInfoOf a)

/-- **runPlan**: the call sequence of the model (`plan`), executed -/
def runPlan (env : Env) (o : Options) : Except Err Output := do
  let c ← probeCell env o
  let cs ← plan o c
  runCalls env cs

end Mofun.Cli
