/-
  CliArgs.lean — the command line TEXT of `mofun`: argv ↦ `Options` (property C20, stretch).  Core Lean only.

  Models what click does with the parameters declared on `mofun_cli` (mofun/cli/mofun_cli.py):
  two positional paths, options with short / long names, `--replicate` taking three values, the flag `--pp`,
  defaults, `--name=value`, `-fVALUE`, `--` ending the options, repeated options (the last one wins), options between
  and after the positionals, and the error classes: unknown option, missing option value, value given to a flag,
  value that is not a number, missing / surplus positional argument, `--help`.

  The order in which click reports problems is kept: scanning errors (unknown option, missing value) in argv order
  first; then `--help`; then value conversion, option by option in order of first appearance; then missing
  positionals; then surplus positionals.
-/
import MofunModel.Model.Cli
import MofunModel.Model.Cif
import MofunModel.Model.Lmp

namespace Mofun.Cli

inductive OptId where
  | find | replace | fraction | atol | ap1 | ap2 | op | dump | extractUc | charge | replicate | mic | fw | pp | help
deriving DecidableEq, Repr, Inhabited

/-- names with more than one character after their prefix (click's "long" options, `-ap1` included) -/
def longNames : List (String × OptId) :=
  [("--find", .find), ("--replace", .replace), ("--replace-fraction", .fraction), ("--atol", .atol),
   ("-ap1", .ap1), ("--axisp1-idx", .ap1), ("-ap2", .ap2), ("--axisp2-idx", .ap2), ("-op", .op), ("--opoint-idx", .op),
   ("--dumppath", .dump), ("--extract-uc", .extractUc), ("--chargefile", .charge), ("--replicate", .replicate),
   ("--mic", .mic), ("--framework-element", .fw), ("--pp", .pp), ("--help", .help)]

/-- one-character names -/
def shortNames : List (Char × OptId) := [('f', .find), ('r', .replace), ('p', .fraction), ('q', .charge)]

/-- number of values an option consumes -/
def OptId.nargs : OptId → Nat
  | .pp | .help => 0
  | .replicate => 3
  | _ => 1

inductive ArgErr where
  | noSuchOption        -- click.NoSuchOption
  | missingValue        -- click.BadOptionUsage "requires an argument / 3 arguments"
  | noValueAllowed      -- click.BadOptionUsage "does not take a value" (`--pp=1`)
  | badValue            -- click.BadParameter: not a float / not an integer
  | missingArgument     -- click.MissingParameter: fewer than two positional paths
  | extraArgument       -- click.UsageError "Got unexpected extra argument"
  | help                -- `--help`: prints the usage and exits
  | outOfModel          -- accepted by click, not representable in `Options` (negative `--replicate` factor)
deriving DecidableEq, Repr, Inhabited

/-- result of the scan: option occurrences in order of appearance (each with its raw values) and the positionals -/
structure Scan where
  opts : List (OptId × List String)
  pos : List String
deriving DecidableEq, Repr, Inhabited

def lookupLong (name : String) : Option OptId := (longNames.find? (·.1 = name)).map (·.2)
def lookupShort (c : Char) : Option OptId := (shortNames.find? (·.1 = c)).map (·.2)

/-- `arg.split("=", 1)` when there is an `=` -/
def splitEq (l : List Char) : List Char × Option (List Char) :=
  match l.dropWhile (· != '=') with
  | [] => (l, none)
  | _ :: v => (l.takeWhile (· != '='), some v)

/-- the values of an option: an attached value counts as the first of the following arguments -/
def takeValues (n : Nat) (attached : Option String) (rest : List String) : Option (List String × List String) :=
  let pool := match attached with
    | some v => v :: rest
    | none => rest
  if pool.length < n then none else some (pool.take n, pool.drop n)

/-- one argument that looks like an option (`-x…`, at least two characters), followed by `rest` -/
def processOpt (arg : String) (rest : List String) : Except ArgErr ((OptId × List String) × List String) :=
  let cs := arg.toList
  let (nameL, attached) := splitEq cs
  match lookupLong (String.ofList nameL) with
  | some id =>
    if id.nargs = 0 then
      match attached with
      | some _ => .error .noValueAllowed
      | none => .ok ((id, []), rest)
    else
      match takeValues id.nargs (attached.map String.ofList) rest with
      | none => .error .missingValue
      | some (vs, rest') => .ok ((id, vs), rest')
  | none =>
    -- a two-character prefix (`--…`) never falls back to the one-letter names
    match cs with
    | '-' :: '-' :: _ => .error .noSuchOption
    | _ :: c :: tail =>
      match lookupShort c with
      | none => .error .noSuchOption
      | some id =>
        -- every one-letter option takes a value: what is left of the argument, else the next argument
        let att := if tail.isEmpty then none else some (String.ofList tail)
        match takeValues id.nargs att rest with
        | none => .error .missingValue
        | some (vs, rest') => .ok ((id, vs), rest')
    | _ => .error .noSuchOption

def isOptLike (arg : String) : Bool :=
  match arg.toList with
  | '-' :: _ :: _ => true
  | _ => false

/-- click's `_process_args_for_options` (interspersed arguments allowed); `fuel` ≥ number of arguments -/
def scanGo : Nat → List String → Scan → Except ArgErr Scan
  | 0, _, acc => .ok acc
  | _ + 1, [], acc => .ok acc
  | fuel + 1, arg :: rest, acc =>
    if arg = "--" then .ok { acc with pos := acc.pos ++ rest }
    else if isOptLike arg then
      match processOpt arg rest with
      | .error e => .error e
      | .ok (occ, rest') => scanGo fuel rest' { acc with opts := acc.opts ++ [occ] }
    else scanGo fuel rest { acc with pos := acc.pos ++ [arg] }

def scan (argv : List String) : Except ArgErr Scan := scanGo (argv.length + 1) argv ⟨[], []⟩

/-! ### value conversion -/

/-- single underscores between two digits are dropped (python numeric literals in `float()` / `int()`); an underscore
    anywhere else makes the text invalid.  `prevDigit` = the previous character was a digit. -/
def dropUnderscores (prevDigit : Bool) : List Char → Option (List Char)
  | [] => some []
  | c :: rest =>
    if c = '_' then
      match rest with
      | n :: _ => if prevDigit && n.isDigit then dropUnderscores false rest else none
      | [] => none
    else (dropUnderscores c.isDigit rest).map (c :: ·)

/-- what python's `float()` / `int()` do to the text before reading the number: surrounding blanks are ignored,
    digit-separating underscores are dropped -/
def normNum (l : List Char) : Option (List Char) := dropUnderscores false (Lmp.strip l)

/-- click `FLOAT`: python `float(text)` — blanks around it, `_` between digits, then the plain decimal grammar -/
def convFloat (s : String) : Option Rat := (normNum s.toList).bind Cif.parseFloatL
/-- click `INT`: python `int(text)` (blanks around it, `_` between digits, optional sign, decimal digits) -/
def convInt (s : String) : Option Int := (normNum s.toList).bind (Lmp.signed Lmp.readDigits)

/-- raw values of the LAST occurrence of an option -/
def lastOf (opts : List (OptId × List String)) (id : OptId) : Option (List String) :=
  (opts.reverse.find? (·.1 = id)).map (·.2)

def firstSeen (opts : List (OptId × List String)) : List OptId := dedup (opts.map (·.1))

/-- does the final value of option `id` convert? -/
def convertible (opts : List (OptId × List String)) (id : OptId) : Bool :=
  match id, lastOf opts id with
  | .fraction, some [v] | .atol, some [v] | .mic, some [v] => (convFloat v).isSome
  | .ap1, some [v] | .ap2, some [v] | .op, some [v] => (convInt v).isSome
  | .replicate, some [a, b, c] => (convInt a).isSome && (convInt b).isSome && (convInt c).isSome
  | _, _ => true

def strOf (opts : List (OptId × List String)) (id : OptId) : Option String :=
  match lastOf opts id with
  | some [v] => some v
  | _ => none

def floatOf (opts : List (OptId × List String)) (id : OptId) : Option Rat := (strOf opts id).bind convFloat
def intOf (opts : List (OptId × List String)) (id : OptId) : Option Int := (strOf opts id).bind convInt

/-- `--replicate a b c` as three integers -/
def dimsOf (opts : List (OptId × List String)) : Option (Int × Int × Int) :=
  match lastOf opts .replicate with
  | some [a, b, c] =>
    match convInt a, convInt b, convInt c with
    | some x, some y, some z => some (x, y, z)
    | _, _, _ => none
  | _ => none

/-- **parseArgs**: the argument vector (without the program name) ↦ the option record the function body receives -/
def parseArgs (argv : List String) : Except ArgErr Options :=
  match scan argv with
  | .error e => .error e
  | .ok sc =>
    if (sc.opts.map (·.1)).contains .help then .error .help
    else if !(firstSeen sc.opts).all (convertible sc.opts) then .error .badValue
    else
      match sc.pos with
      | [] | [_] => .error .missingArgument
      | [inp, out] =>
        match dimsOf sc.opts with
        | some (x, y, z) =>
          if x < 0 ∨ y < 0 ∨ z < 0 then .error .outOfModel
          else .ok (build sc.opts inp out (some (x.toNat, y.toNat, z.toNat)))
        | none => .ok (build sc.opts inp out none)
      | _ => .error .extraArgument
where
  build (opts : List (OptId × List String)) (inp out : String) (repl : Option (Nat × Nat × Nat)) : Options :=
    { input := inp, inputNative := inputIsNative inp, output := out, outputNative := outputIsNative out,
      findPath := strOf opts .find, replacePath := strOf opts .replace,
      replaceFraction := (floatOf opts .fraction).getD 1, atol := (floatOf opts .atol).getD (1 / 20),
      hints := ⟨intOf opts .ap1, intOf opts .ap2, intOf opts .op⟩,
      dumpPath := strOf opts .dump, extractUc := strOf opts .extractUc, chargefile := strOf opts .charge,
      replicate := repl, mic := floatOf opts .mic, frameworkElement := strOf opts .fw,
      pp := (opts.map (·.1)).contains .pp }

/-! ### canonical rendering -/

/-- an option record as it is typed: numbers as decimal literals `m·10^(-e)` -/
structure TypedOptions where
  input : String
  output : String
  findPath : Option String := none
  replacePath : Option String := none
  replaceFraction : Option Dec := none
  atol : Option Dec := none
  ap1 : Option Int := none
  ap2 : Option Int := none
  op : Option Int := none
  dumpPath : Option String := none
  extractUc : Option String := none
  chargefile : Option String := none
  replicate : Option (Nat × Nat × Nat) := none
  mic : Option Dec := none
  frameworkElement : Option String := none
  pp : Bool := false
deriving DecidableEq, Repr, Inhabited

/-- the record the function body receives for it (defaults filled in) -/
def TypedOptions.toOptions (t : TypedOptions) : Options :=
  { input := t.input, inputNative := inputIsNative t.input, output := t.output, outputNative := outputIsNative t.output,
    findPath := t.findPath, replacePath := t.replacePath,
    replaceFraction := (t.replaceFraction.map Dec.toRat).getD 1, atol := (t.atol.map Dec.toRat).getD (1 / 20),
    hints := ⟨t.ap1, t.ap2, t.op⟩, dumpPath := t.dumpPath, extractUc := t.extractUc, chargefile := t.chargefile,
    replicate := t.replicate, mic := t.mic.map Dec.toRat, frameworkElement := t.frameworkElement, pp := t.pp }

/-- `m·10^(-e)` as a float literal: `<m>e-<e>` -/
def showDec (d : Dec) : String := Lmp.showInt d.m ++ "e-" ++ Lmp.showNat d.e

/-- one option of the canonical command line: its long name, and its value arguments when it is given -/
structure Given where
  name : String
  id : OptId
  vals : Option (List String)
deriving DecidableEq, Repr, Inhabited

/-- the arguments it contributes -/
def Given.tokens (g : Given) : List String :=
  match g.vals with
  | some vs => g.name :: vs
  | none => []

/-- the occurrence the scan records for it -/
def Given.occ (g : Given) : List (OptId × List String) :=
  match g.vals with
  | some vs => [(g.id, vs)]
  | none => []

/-- every documented option, in the order of the documentation, with the text of its value(s) -/
def givenOf (t : TypedOptions) : List Given :=
  [⟨"--find", .find, t.findPath.map (fun v => [v])⟩,
   ⟨"--replace", .replace, t.replacePath.map (fun v => [v])⟩,
   ⟨"--replace-fraction", .fraction, t.replaceFraction.map (fun d => [showDec d])⟩,
   ⟨"--atol", .atol, t.atol.map (fun d => [showDec d])⟩,
   ⟨"--axisp1-idx", .ap1, t.ap1.map (fun i => [Lmp.showInt i])⟩,
   ⟨"--axisp2-idx", .ap2, t.ap2.map (fun i => [Lmp.showInt i])⟩,
   ⟨"--opoint-idx", .op, t.op.map (fun i => [Lmp.showInt i])⟩,
   ⟨"--dumppath", .dump, t.dumpPath.map (fun v => [v])⟩,
   ⟨"--extract-uc", .extractUc, t.extractUc.map (fun v => [v])⟩,
   ⟨"--chargefile", .charge, t.chargefile.map (fun v => [v])⟩,
   ⟨"--replicate", .replicate, t.replicate.map (fun d => [Lmp.showNat d.1, Lmp.showNat d.2.1, Lmp.showNat d.2.2])⟩,
   ⟨"--mic", .mic, t.mic.map (fun d => [showDec d])⟩,
   ⟨"--framework-element", .fw, t.frameworkElement.map (fun v => [v])⟩,
   ⟨"--pp", .pp, if t.pp then some [] else none⟩]

/-- the canonical command line of a record: the two paths, then every given option once, long names, values as
    separate arguments, in the order of the documentation -/
def render (t : TypedOptions) : List String :=
  [t.input, t.output] ++ (givenOf t).flatMap Given.tokens

end Mofun.Cli
