/-
  TopoWide.lean — the index conventions the real code accepts beyond "a list of distinct indices in [0, n)":
  negative indices, duplicates, unsorted lists, boolean masks (`__delitem__`, `__getitem__`) and an object extended
  with itself (`a.extend(a, …)`).  Everything is modelled the way mofun/atoms.py BEHAVES at these points (each one
  was run against the real code first, see harness/props/c10.py stream "wide"), not the way one might wish:

  * `np.delete(arr, indices, axis=0)` wraps negative indices (−k ↦ n−k), removes a repeated index once and raises
    IndexError outside [−n, n) — so the per-atom arrays are always shortened correctly;
  * the term code of `__delitem__` now works on the normalised SET of indices: `Atoms.deleteNorm` is the model of
    `del a[idx]` for every list of integers;
  * BEFORE that fix (kept as `Atoms.deleteRaw` / `Atoms.deleteMask`, to document the defect and for the seeded
    revert) `__delitem__` handed the RAW index list to `_delete_and_reindex_atom_index_array`: the membership test
    `a in sorted_deleted_indices` and the loop `np.subtract(arr, 1, where=arr > i)` see the raw (possibly negative,
    possibly repeated) integers.  A negative index therefore never removes a term and decrements EVERY entry; a
    repeated index decrements twice.  Term entries can become negative: the result of a raw deletion has `Int`
    entries (`TermI`, `DeleteRaw`);
  * a boolean mask is honoured by `np.delete`, while the term code reads `True/False` as the integers 1/0;
  * `__getitem__` uses `np.take`, which wraps negative indices and allows repeats: `getitemI` is simply correct;
  * in `a.extend(a, map)` the other object IS self: everything is read before it is overwritten except the atom
    types, which the identity-map loop rewrites in place and later reads again (`extendSelf`).

  Core Lean only.  Nothing of Model/Topo.lean is changed.
-/
import MofunModel.Model.Topo

namespace Mofun

/-! ### index normalisation (numpy) -/

/-- numpy's reading of an index into an axis of length `n`: `0 ≤ i < n` is itself, `−n ≤ i < 0` is `n + i`,
    anything else is an IndexError (`none`) -/
def normIdx (n : Nat) (i : Int) : Option Nat :=
  if 0 ≤ i ∧ i < (n : Int) then some i.toNat
  else if -(n : Int) ≤ i ∧ i < 0 then some (i + (n : Int)).toNat
  else none

/-! ### raw deletion: what `__delitem__` does with any list of integers -/

/-- a term whose atom entries may have left the naturals -/
structure TermI where
  atoms : List Int
  ty : Nat
  extra : List String
deriving DecidableEq, Repr, Inhabited

def shiftAboveI (i x : Int) : Int := if x > i then x - 1 else x

def reindexI (sortedDesc : List Int) (x : Int) : Int :=
  sortedDesc.foldl (fun x i => shiftAboveI i x) x

/-- python `sorted(indices, reverse=True)` on integers -/
def insertDescI (x : Int) : List Int → List Int
  | [] => [x]
  | y :: ys => if x ≥ y then x :: y :: ys else y :: insertDescI x ys

def sortDescI (idx : List Int) : List Int := idx.foldr insertDescI []

/-- `_delete_and_reindex_atom_index_array` with the RAW index list (+ the parallel deletes on types / extras) -/
def deleteTermsRaw (ts : List Term) (idx : List Int) : List TermI :=
  let sd := sortDescI idx
  (ts.filter (fun t => !(t.atoms.any (fun (a : Nat) => idx.contains (Int.ofNat a))))).map
    (fun t => { atoms := t.atoms.map (fun (a : Nat) => reindexI sd (Int.ofNat a)), ty := t.ty, extra := t.extra })

/-- the object after `del a[idx]`: the atom rows and the four term lists (type tables, labels, cell are untouched) -/
structure DeleteRaw where
  atoms : List AtomRow
  bonds : List TermI
  angles : List TermI
  dihedrals : List TermI
  impropers : List TermI
deriving Repr

/-- `del a[idx]` for ANY list of python integers -/
def Atoms.deleteRaw (a : Atoms) (idx : List Int) : Except Err DeleteRaw :=
  let n := a.atoms.length
  if idx.any (fun i => (normIdx n i).isNone) then .error .index
  else .ok {
    atoms := deleteIdx a.atoms (idx.filterMap (normIdx n))
    bonds := deleteTermsRaw a.bonds.terms idx
    angles := deleteTermsRaw a.angles.terms idx
    dihedrals := deleteTermsRaw a.dihedrals.terms idx
    impropers := deleteTermsRaw a.impropers.terms idx }

/-- `del a[mask]` for a boolean mask: `np.delete` removes the rows where the mask is true (and raises when the mask
    has the wrong length); the term code iterates over the mask and reads its entries as the integers 1 / 0 -/
def Atoms.deleteMask (a : Atoms) (mask : List Bool) : Except Err DeleteRaw :=
  if mask.length ≠ a.atoms.length then .error .index
  else
    let raw : List Int := mask.map (fun b => if b then 1 else 0)
    let pos : List Nat := (List.range mask.length).filter (fun i => mask.getD i false)
    .ok {
      atoms := deleteIdx a.atoms pos
      bonds := deleteTermsRaw a.bonds.terms raw
      angles := deleteTermsRaw a.angles.terms raw
      dihedrals := deleteTermsRaw a.dihedrals.terms raw
      impropers := deleteTermsRaw a.impropers.terms raw }

/-- the embedding of an ordinary term -/
def Term.toI (t : Term) : TermI := { atoms := t.atoms.map (fun (a : Nat) => Int.ofNat a), ty := t.ty, extra := t.extra }

/-- an ordinary deletion result seen as a raw one -/
def Atoms.toDeleteRaw (r : Atoms) : DeleteRaw :=
  { atoms := r.atoms, bonds := r.bonds.terms.map Term.toI, angles := r.angles.terms.map Term.toI,
    dihedrals := r.dihedrals.terms.map Term.toI, impropers := r.impropers.terms.map Term.toI }

/-- `del a[idx]` for any list of python integers — what `__delitem__` does since the fix "negative valid indices":
    `np.delete` shortens the per-atom arrays (wrapping negative integers, removing a repeated one once, IndexError
    outside `[−n, n)` before anything is assigned), and the term code works on the NORMALISED SET
    `sorted({i % n for i in indices}, reverse=True)`: repeated indices collapse, negative ones denote `n + i`. -/
def Atoms.deleteNorm (a : Atoms) (idx : List Int) : Except Err Atoms :=
  if idx.any (fun i => (normIdx a.atoms.length i).isNone) then .error .index
  else a.delete (dedup (idx.filterMap (normIdx a.atoms.length)))

/-! ### subset with any integers (`np.take`) -/

/-- `a[idx]` for any list of python integers (a scalar `a[i]` is `a[[i]]`: `np.array(i, ndmin=1)`).  The EMPTY
    selection `a[[]]` / `a[()]` is the atom-less subset that keeps the atom type tables and the cell (since the fix of
    the empty-selection TypeError; an atom-less `Atoms` keeps its tables since 84d3f69). -/
def Atoms.getitemI (a : Atoms) (idx : List Int) : Except Err Atoms :=
  if idx.any (fun i => (normIdx a.atoms.length i).isNone) then .error .index
  else .ok { Atoms.empty with
    atoms := idx.filterMap (fun i => (normIdx a.atoms.length i).bind (fun j =>
      (a.atoms[j]?).map (fun r => { r with extra := [] })))
    typeElems := a.typeElems
    typeLabels := a.typeLabels
    typeMasses := a.typeMasses
    cell := a.cell }

/-! ### an object extended with itself -/

/-- the atom-type array while `a.extend(a, map)` runs: the identity-map loop writes `types[v] := types[k] + off`
    entry after entry, READING the array it is writing (the other object is self) -/
def liveTypes (tys : List Nat) (off : Nat) (map : List (Nat × Nat)) : List Nat :=
  map.foldl (fun tys kv => match tys[kv.1]? with
    | some t => tys.set kv.2 (t + off)
    | none => tys) tys

/-- the type ids `a.extend(a, map)` ends with: the first `n` atoms carry the live array, the appended atoms
    (`toAdd` = keys not in the map, in order) carry the LIVE type of their original, plus the offset -/
def selfTypes (a : Atoms) (off : Nat) (map : List (Nat × Nat)) : List Nat :=
  let live := liveTypes (a.atoms.map (·.ty)) off map
  let keys := map.map (·.1)
  let toAdd := (List.range a.atoms.length).filter (fun i => !keys.contains i)
  live ++ toAdd.map (fun i => live.getD i 0 + off)

/-- `a.extend(a, offsets, map)`: everything is what extending with a copy gives, except the atom types -/
def Atoms.extendSelf (a : Atoms) (off : Option Offsets) (map : List (Nat × Nat)) : Except Err Atoms := do
  let r ← a.extend a off map
  let o := match off with
    | some o => o.atom
    | none => numAtomTypes a
  let tys := selfTypes a o map
  pure { r with atoms := (r.atoms.zipIdx).map (fun p => { p.1 with ty := tys.getD p.2 p.1.ty }) }

end Mofun
