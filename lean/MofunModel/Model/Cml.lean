/-
  Cml.lean — loading a CML molecule (mofun/atoms.py: Atoms.load_cml + the `elements=` branch of Atoms.__init__).

  ElementTree is not modelled: a document is what `root.findall('.//atom')` / `root.findall('.//bond')` deliver, in
  document order — per atom the attributes id, elementType, x3, y3, z3 (the coordinates already parsed by `float`),
  per bond the two tokens of `atomRefs2` and the order.  Core Lean only.

      atom_tuples = [(a['id'], a['elementType'], float(a['x3']), float(a['y3']), float(a['z3'])) for a in atom_dicts]
      ids, elements, x, y, z = zip(*atom_tuples)              # ValueError when there is no atom
      id_to_idx = {id:i for i, id in enumerate(ids)}          # a repeated id: the LAST atom wins
      bond_tuples = [(a['atomRefs2'].split(), float(a['order'])) for a in bond_dicts]
      bonds_by_ids = [b for b, _ in bond_tuples]
      bonds = [(id_to_idx[b1], id_to_idx[b2]) for (b1,b2) in bonds_by_ids]     # KeyError for an unknown reference
      bond_types = [0 for b in bonds]
      return cls(elements=elements, positions=positions, bonds=bonds, bond_types=bond_types)

  and in the constructor

      self.atom_type_elements = list(dict.fromkeys(elements).keys())
      self.atom_types = np.array([self.atom_type_elements.index(s) for s in elements])
      self.atom_type_masses = [ATOMIC_MASSES[s] for s in self.atom_type_elements]   # KeyError for an unknown element
      self.atom_type_labels = self.atom_type_elements
      charges, groups = zeros
-/
import MofunModel.Model.Topo
import MofunModel.Model.Mass

namespace Mofun

structure CmlAtom where
  id : String
  elem : String
  pos : Vec3
deriving DecidableEq, Repr, Inhabited

structure CmlBond where
  ref1 : String
  ref2 : String
  order : Rat          -- parsed by the code, never used
deriving DecidableEq, Repr, Inhabited

/-- `list(dict.fromkeys(elements).keys())`: the distinct elements in the order of their first occurrence -/
def typesFirstOccurrence (elems : List String) : List String := dedup elems

/-- lookup in `{id:i for i, id in enumerate(ids)}`: the position of the LAST atom carrying that id -/
def lastIndexOf? (ids : List String) (r : String) : Option Nat :=
  match ids with
  | [] => none
  | y :: ys =>
    match lastIndexOf? ys r with
    | some i => some (i + 1)
    | none => if y = r then some 0 else none

/-- one bond entry resolved through the id table -/
def resolveBond (ids : List String) (b : CmlBond) : Option Nat × Option Nat :=
  (lastIndexOf? ids b.ref1, lastIndexOf? ids b.ref2)

/-- `load_cml` over an arbitrary mass table -/
def loadCmlWith (table : MassTable) (atoms : List CmlAtom) (bonds : List CmlBond) : Except Err Atoms :=
  if atoms.isEmpty then .error (.reject "value")            -- zip(*[]) cannot be unpacked
  else
    let ids := atoms.map (·.id)
    let elems := atoms.map (·.elem)
    let res := bonds.map (resolveBond ids)
    if res.any (fun p => p.1.isNone || p.2.isNone) then .error (.reject "key")
    else
      let tys := typesFirstOccurrence elems
      let masses := tys.map (lookup table)
      if masses.any (·.isNone) then .error (.reject "key")
      else .ok { Atoms.empty with
        atoms := atoms.map (fun a =>
          ({ ty := (indexOf? tys a.elem).getD 0, pos := a.pos, charge := 0, group := 0, extra := [] } : AtomRow))
        bonds := { terms := res.map (fun p => ({ atoms := [p.1.getD 0, p.2.getD 0], ty := 0, extra := [] } : Term)),
                   coeffs := [], xlabels := [] }
        typeElems := tys
        typeLabels := tys
        typeMasses := masses.map (·.getD 0) }

/-- `Atoms.load_cml` with the mass table of /repo -/
def loadCml (atoms : List CmlAtom) (bonds : List CmlBond) : Except Err Atoms := loadCmlWith massTable atoms bonds

/-- the same document with every id and every reference renamed -/
def renameAtoms (f : String → String) (atoms : List CmlAtom) : List CmlAtom :=
  atoms.map (fun a => { a with id := f a.id })

def renameBonds (f : String → String) (bonds : List CmlBond) : List CmlBond :=
  bonds.map (fun b => { b with ref1 := f b.ref1, ref2 := f b.ref2 })

end Mofun
