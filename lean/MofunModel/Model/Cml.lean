/-
  Cml.lean — loading a CML molecule (mofun/atoms.py: Atoms.load_cml + the `elements=` branch of Atoms.__init__).

  ElementTree is not modelled: a document is what `root.findall('.//atom')` / `root.findall('.//bond')` deliver, in
  document order — per atom the attributes id, elementType, x3, y3, z3 (the coordinates already parsed by `float`),
  per bond the two tokens of `atomRefs2` and the order.  Core Lean only.

      atom_tuples = [(a['id'], a['elementType'], float(a['x3']), float(a['y3']), float(a['z3'])) for a in atom_dicts]
      ids, elements, x, y, z = zip(*atom_tuples)              # ValueError when there is no atom
      id_to_idx = {id:i for i, id in enumerate(ids)}          # a repeated id: the LAST atom wins
      bond_tuples = [(a['atomRefs2'].split(), float(a['order'])) for a in bond_dicts]
      bonds_by_ids = [b for b, _ in bond_tuples]
      bonds = [(id_to_idx[b1], id_to_idx[b2]) for (b1,b2) in bonds_by_ids]     # KeyError for an unknown reference
      bond_types = [0 for b in bonds]
      return cls(elements=elements, positions=positions, bonds=bonds, bond_types=bond_types)

  and in the constructor

      self.atom_type_elements = list(dict.fromkeys(elements).keys())
      self.atom_types = np.array([self.atom_type_elements.index(s) for s in elements])
      self.atom_type_masses = [ATOMIC_MASSES[s] for s in self.atom_type_elements]   # KeyError for an unknown element
      self.atom_type_labels = self.atom_type_elements
      charges, groups = zeros
-/
import MofunModel.Model.Topo
import MofunModel.Model.Mass

namespace Mofun

structure CmlAtom where
  id : String
  elem : String
  pos : Vec3
deriving DecidableEq, Repr, Inhabited

structure CmlBond where
  ref1 : String
  ref2 : String
  order : Rat          -- parsed by the code, never used
deriving DecidableEq, Repr, Inhabited

/-- `list(dict.fromkeys(elements).keys())`: the distinct elements in the order of their first occurrence -/
def typesFirstOccurrence (elems : List String) : List String := dedup elems

/-- lookup in `{id:i for i, id in enumerate(ids)}`: the position of the LAST atom carrying that id -/
def lastIndexOf? (ids : List String) (r : String) : Option Nat :=
  match ids with
  | [] => none
  | y :: ys =>
    match lastIndexOf? ys r with
    | some i => some (i + 1)
    | none => if y = r then some 0 else none

/-- one bond entry resolved through the id table -/
def resolveBond (ids : List String) (b : CmlBond) : Option Nat × Option Nat :=
  (lastIndexOf? ids b.ref1, lastIndexOf? ids b.ref2)

/-- `load_cml` over an arbitrary mass table -/
def loadCmlWith (table : MassTable) (atoms : List CmlAtom) (bonds : List CmlBond) : Except Err Atoms :=
  if atoms.isEmpty then .error (.reject "value")            -- zip(*[]) cannot be unpacked
  else
    let ids := atoms.map (·.id)
    let elems := atoms.map (·.elem)
    let res := bonds.map (resolveBond ids)
    if res.any (fun p => p.1.isNone || p.2.isNone) then .error (.reject "key")
    else
      let tys := typesFirstOccurrence elems
      let masses := tys.map (lookup table)
      if masses.any (·.isNone) then .error (.reject "key")
      else .ok { Atoms.empty with
        atoms := atoms.map (fun a =>
          ({ ty := (indexOf? tys a.elem).getD 0, pos := a.pos, charge := 0, group := 0, extra := [] } : AtomRow))
        bonds := { terms := res.map (fun p => ({ atoms := [p.1.getD 0, p.2.getD 0], ty := 0, extra := [] } : Term)),
                   coeffs := [], xlabels := [] }
        typeElems := tys
        typeLabels := tys
        typeMasses := masses.map (·.getD 0) }

/-- `Atoms.load_cml` with the mass table of /repo -/
def loadCml (atoms : List CmlAtom) (bonds : List CmlBond) : Except Err Atoms := loadCmlWith massTable atoms bonds

/-! ### the element layer: which elements of the XML document are atom / bond entries

  `root.findall('.//{*}atom')` / `root.findall('.//{*}bond')` (since the namespace repair): every DESCENDANT of the root
  (never the root itself) whose LOCAL name is `atom` / `bond`, in document order, whatever namespace the element name is
  in (none, a default `xmlns="…"` inherited from an ancestor, or a prefix such as `cml:`).  ElementTree resolves
  prefixes to namespace URIs, so an element name is (namespace URI or none, local name).  Attribute names stay
  unqualified.  A document is the list of its non-root elements in document order (the tree shape is irrelevant to a
  descendant search); an element carries the attributes the loader reads, each possibly absent. -/

structure XmlName where
  ns : Option String        -- namespace URI; `none` = the name is in no namespace
  loc : String              -- local name
deriving DecidableEq, Repr, Inhabited

/-- the attributes `load_cml` reads (`a.attrib[...]`); coordinates and order already parsed by `float` -/
structure CmlElem where
  name : XmlName
  id : Option String := none
  elementType : Option String := none
  x3 : Option Rat := none
  y3 : Option Rat := none
  z3 : Option Rat := none
  atomRefs2 : Option (List String) := none       -- `a['atomRefs2'].split()`
  order : Option Rat := none
deriving DecidableEq, Repr, Inhabited

/-- `root.findall('.//{*}<loc>')` over the non-root elements in document order -/
def selectLocal (loc : String) (elems : List CmlElem) : List CmlElem :=
  elems.filter (fun e => e.name.loc = loc)

/-- the lookup BEFORE the repair, `root.findall('.//<loc>')`: only names in NO namespace match
    (kept for the machine-checked counterexample) -/
def selectUnqualified (loc : String) (elems : List CmlElem) : List CmlElem :=
  elems.filter (fun e => e.name = ⟨none, loc⟩)

/-- `(a['id'], a['elementType'], float(a['x3']), float(a['y3']), float(a['z3']))`: KeyError for a missing attribute -/
def atomOf (e : CmlElem) : Except Err CmlAtom :=
  match e.id, e.elementType, e.x3, e.y3, e.z3 with
  | some i, some el, some x, some y, some z => .ok { id := i, elem := el, pos := ⟨x, y, z⟩ }
  | _, _, _, _, _ => .error (.reject "key")

/-- `(a['atomRefs2'].split(), float(a['order']))`: KeyError for a missing attribute -/
def bondRawOf (e : CmlElem) : Except Err (List String × Rat) :=
  match e.atomRefs2, e.order with
  | some refs, some o => .ok (refs, o)
  | _, _ => .error (.reject "key")

/-- `mapM` in `Except`, written out (first error wins, as in a list comprehension) -/
def mapExcept {α β} (f : α → Except Err β) : List α → Except Err (List β)
  | [] => .ok []
  | x :: xs =>
    match f x with
    | .error e => .error e
    | .ok y =>
      match mapExcept f xs with
      | .error e => .error e
      | .ok ys => .ok (y :: ys)

/-- `[(id_to_idx[b1], id_to_idx[b2]) for (b1,b2) in bonds_by_ids]`, bond by bond in order: unpacking a reference list
    that has not exactly two entries is a ValueError, an unknown reference a KeyError -/
def bondOf (ids : List String) (raw : List String × Rat) : Except Err CmlBond :=
  match raw.1 with
  | [r1, r2] =>
    if (lastIndexOf? ids r1).isNone || (lastIndexOf? ids r2).isNone then .error (.reject "key")
    else .ok { ref1 := r1, ref2 := r2, order := raw.2 }
  | _ => .error (.reject "value")

/-- `load_cml` from the element layer with a given element selection -/
def loadCmlElemsWith (select : String → List CmlElem → List CmlElem) (table : MassTable) (elems : List CmlElem) :
    Except Err Atoms :=
  match mapExcept atomOf (select "atom" elems) with
  | .error e => .error e
  | .ok atoms =>
    if atoms.isEmpty then .error (.reject "value")
    else
      match mapExcept bondRawOf (select "bond" elems) with
      | .error e => .error e
      | .ok raws =>
        match mapExcept (bondOf (atoms.map (·.id))) raws with
        | .error e => .error e
        | .ok bonds => loadCmlWith table atoms bonds

/-- `Atoms.load_cml` on a document given by its non-root elements (the code as it is now: any namespace) -/
def loadCmlDoc (elems : List CmlElem) : Except Err Atoms := loadCmlElemsWith selectLocal massTable elems

/-- the same document with every element name moved to other namespaces (local names kept) -/
def renamespace (f : CmlElem → Option String) (elems : List CmlElem) : List CmlElem :=
  elems.map (fun e => { e with name := ⟨f e, e.name.loc⟩ })

/-- the same document with every id and every reference renamed -/
def renameAtoms (f : String → String) (atoms : List CmlAtom) : List CmlAtom :=
  atoms.map (fun a => { a with id := f a.id })

def renameBonds (f : String → String) (bonds : List CmlBond) : List CmlBond :=
  bonds.map (fun b => { b with ref1 := f b.ref1, ref2 := f b.ref2 })

end Mofun
