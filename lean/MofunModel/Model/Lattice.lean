/-
  Lattice.lean — periodic images, fractional coordinates, wrapping, sqrt-free comparisons.
  (mofun/mofun.py: uc_neighbor_offsets, the image list of _get_positions_from_all_adjacent_unit_cells;
   the fractional wrap of replace_pattern_in_structure; Atoms.cell_is_orthorhombic.)   Core Lean only.
-/
import MofunModel.Model.Basic

namespace Mofun

/-- `[-1, 0, 1]` -/
def pm1 : List Int := [-1, 0, 1]

/-- the 27 image multipliers in the order numpy produces them:
    `np.array(np.meshgrid([-1,0,1],[-1,0,1],[-1,0,1])).T.reshape(-1, 1, 3)` — z slowest, then x, then y -/
def ucMultipliers : List (Int × Int × Int) :=
  pm1.flatMap (fun k => pm1.flatMap (fun i => pm1.map (fun j => (i, j, k))))

/-- `uc_neighbor_offsets(cell)`: `cell.T @ mult = i·A + j·B + k·C` for each multiplier -/
def ucOffsets (cell : Mat3) : List Vec3 :=
  ucMultipliers.map (fun m => cell.lattice m.1 m.2.1 m.2.2)

/-- the image list used by the search: the zero offset is moved to the front, and the slot it came from
    receives what was first (`uc_offsets[zero] = uc_offsets[0]; uc_offsets[0] = 0`) -/
def searchMultipliers : List (Int × Int × Int) :=
  match ucMultipliers with
  | [] => []
  | first :: rest => (0, 0, 0) :: rest.map (fun m => if m = (0, 0, 0) then first else m)

def searchOffsets (cell : Mat3) : List Vec3 :=
  searchMultipliers.map (fun m => cell.lattice m.1 m.2.1 m.2.2)

/-- `cell_is_orthorhombic`: `(np.diag(cell) * np.identity(3) == cell).all()` -/
def Mat3.isOrtho (m : Mat3) : Bool :=
  m.a.y == 0 && m.a.z == 0 && m.b.x == 0 && m.b.z == 0 && m.c.x == 0 && m.c.y == 0

/-- fractional coordinates of `v` (so that `v = f.x·A + f.y·B + f.z·C`), by Cramer's rule; `det ≠ 0` assumed -/
def Mat3.frac (m : Mat3) (v : Vec3) : Vec3 :=
  let d := m.det
  ⟨Vec3.dot v (Vec3.cross m.b m.c) / d, Vec3.dot v (Vec3.cross m.c m.a) / d, Vec3.dot v (Vec3.cross m.a m.b) / d⟩

/-- Cartesian point of fractional coordinates -/
def Mat3.cart (m : Mat3) (f : Vec3) : Vec3 := m.lattice f.x f.y f.z

/-- `x mod 1` in `[0, 1)` -/
def fracPart (x : Rat) : Rat := x - (x.floor : Rat)

/-- wrap a point into the cell by a lattice translation: `(pos · cell⁻¹ mod 1) · cell` -/
def Mat3.wrap (m : Mat3) (v : Vec3) : Vec3 :=
  let f := m.frac v
  m.cart ⟨fracPart f.x, fracPart f.y, fracPart f.z⟩

/-- squared distance -/
def distSq (a b : Vec3) : Rat := Vec3.normSq (Vec3.sub a b)

/-! ### sqrt-free encodings of the comparisons the code makes with square roots (DESIGN.md §4) -/

/-- `|√a − √b| ≤ t` for `a, b, t ≥ 0` -/
def sqrtDiffLe (a b t : Rat) : Bool :=
  let s := a + b - t * t
  decide (s ≤ 0) || decide (s * s ≤ 4 * a * b)

/-- `x ≤ d·√n` for `d, n ≥ 0` -/
def leMulSqrt (x d n : Rat) : Bool := decide (x ≤ 0) || decide (x * x ≤ d * d * n)

/-- `u ≤ √a + √b` for `a, b ≥ 0` -/
def leSqrtAdd (u a b : Rat) : Bool :=
  decide (u ≤ 0) || decide (u * u - a - b ≤ 0) || decide ((u * u - a - b) * (u * u - a - b) ≤ 4 * a * b)

end Mofun
