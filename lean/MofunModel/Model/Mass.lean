/-
  Mass.lean — elements inferred from masses (mofun/helpers.py: guess_elements_from_masses;
  mofun/atoms.py: the element / label inference of load_lmpdat).

  The model follows the code step by step.  Core Lean only.

      def find_element(elmass):
          sym, mass = min(ATOMIC_MASSES.items(), key=lambda kv: abs(kv[1] - elmass))
          if abs(mass - elmass) < max_delta:
              return sym
          raise Exception(...)
      return [find_element(m) for m in masses]
-/
import MofunModel.Model.Basic
import MofunModel.Generated.Masses

namespace Mofun

/-- `abs` on rationals -/
def absQ (x : Rat) : Rat := if x < 0 then -x else x

/-- a mass table: (symbol, mass) in source order (python dict order) -/
abbrev MassTable := List (String × Rat)

/-- the key of `min(..., key=lambda kv: abs(kv[1] - elmass))` -/
def massDist (m : Rat) (e : String × Rat) : Rat := absQ (e.2 - m)

/-- python `min(iterable, key=…)` after the first item has been taken: the running best is replaced only by a
    STRICTLY smaller key, so the first item among equal keys wins -/
def argminAux (m : Rat) : (String × Rat) → List (String × Rat) → (String × Rat)
  | best, [] => best
  | best, e :: es => if massDist m e < massDist m best then argminAux m e es else argminAux m best es

/-- `min(ATOMIC_MASSES.items(), key=…)`; `none` = ValueError on an empty table -/
def nearest (table : MassTable) (m : Rat) : Option (String × Rat) :=
  match table with
  | [] => none
  | e :: es => some (argminAux m e es)

/-- `find_element`: the nearest element, accepted only if strictly within `tol`; `none` = the call raises -/
def guess (table : MassTable) (tol m : Rat) : Option String :=
  match nearest table m with
  | none => none
  | some e => if absQ (e.2 - m) < tol then some e.1 else none

/-- `guess_elements_from_masses(masses, max_delta=tol)`: a list comprehension, so the first failing mass raises
    and nothing is returned -/
def guessAll (table : MassTable) (tol : Rat) : List Rat → Except Err (List String)
  | [] => .ok []
  | m :: ms =>
    match guess table tol m with
    | none => .error (.reject "mass")
    | some s =>
      match guessAll table tol ms with
      | .error e => .error e
      | .ok ss => .ok (s :: ss)

/-- `[str(i + 1) for i in range(n)]` -/
def typeNumbers (n : Nat) : List String := (List.range n).map (fun i => toString (i + 1))

/-- the element inference of `load_lmpdat`: `try: guess_elements_from_masses(...) except Exception:` type numbers
    for ALL types -/
def loadElements (table : MassTable) (tol : Rat) (masses : List Rat) : List String :=
  match guessAll table tol masses with
  | .ok els => els
  | .error _ => typeNumbers masses.length

/-- the label inference of `load_lmpdat`: the Masses-section comments if every line has one
    (`atom_type_labels.count(None) == 0`), else a copy of the elements -/
def loadLabels (comments : List (Option String)) (elements : List String) : List String :=
  if comments.all (·.isSome) then comments.filterMap id else elements

/-- one line of the Masses section: `<type id> <mass>   # <label>` -/
structure MassLine where
  id : Nat
  mass : Rat
  comment : Option String
deriving DecidableEq, Repr, Inhabited

/-- `masses.sort(key=lambda m: m[0])` (since commit 375e8ae): the lines ordered by their integer type id.  Python's sort
    is stable; so is `List.mergeSort` — and a stable sort has exactly one result -/
def orderLines (lines : List MassLine) : List MassLine := lines.mergeSort (fun a b => decide (a.id ≤ b.id))

/-- the type tables `load_lmpdat` derives from the Masses section: (elements, labels) in type order -/
def loadMasses (table : MassTable) (tol : Rat) (lines : List MassLine) : List String × List String :=
  let s := orderLines lines
  let els := loadElements table tol (s.map (·.mass))
  (els, loadLabels (s.map (·.comment)) els)

/-- BEFORE commit 375e8ae masses and labels were bound by LINE POSITION (kept only for the counterexample) -/
def loadMassesByPosition (table : MassTable) (tol : Rat) (lines : List MassLine) : List String × List String :=
  let els := loadElements table tol (lines.map (·.mass))
  (els, loadLabels (lines.map (·.comment)) els)

/-- ORIGINAL, defective scan (before commit 8dd645d), kept only for the machine-checked counterexample:

        for sym, mass in ATOMIC_MASSES.items():
            if elmass - mass < max_delta:
                return sym
        raise Exception(...)                                                                          -/
def guessOneSided (table : MassTable) (tol m : Rat) : Option String :=
  match table with
  | [] => none
  | (sym, mass) :: rest => if m - mass < tol then some sym else guessOneSided rest tol m

/-- a table with exact decimal masses as a table of rationals -/
def MassTable.ofDec (t : List (String × Dec)) : MassTable := t.map (fun p => (p.1, p.2.toRat))

/-- `ATOMIC_MASSES` of mofun/atomic_masses.py as it is in the source NOW (regenerated on every run) -/
def massTable : MassTable := MassTable.ofDec Generated.atomicMasses

/-- `guess_elements_from_masses(masses, max_delta=tol)` on the real table -/
def guessElements (tol : Rat) (masses : List Rat) : Except Err (List String) := guessAll massTable tol masses

end Mofun
