/-
  Bonds.lean — model of mofun/detect_bonds.py (`max_bond_length`, `detect_bonds`).  Core Lean only.

  The radii / non-metal tables are the GENERATED ones (Generated/Radii.lean, rewritten from the python source on
  every run); every decimal is the exact rational of the source text.  The one square root of the code
  (`cdist(..., "euclidean") < cutoff`) is replaced by `0 < cutoff ∧ dist² < cutoff²` (DESIGN.md §4).
-/
import MofunModel.Model.Lattice
import MofunModel.Generated.Radii

namespace Mofun

/-- the `+ 0.45` of `max_bond_length` (source literal `0.45` = 9/20) -/
def nonMetalAllowance : Rat := 9 / 20

/-- `max_bond_length` over explicit tables: `R[el1] + R[el2] (+ 0.45 if el1 in NM or el2 in NM)`;
    `none` = `KeyError` (an element without a radius). -/
def maxBondLengthIn (radii : List (String × Dec)) (nonMetals : List String) (el1 el2 : String) : Option Rat :=
  match lookup radii el1, lookup radii el2 with
  | some r1, some r2 =>
    if nonMetals.contains el1 || nonMetals.contains el2 then some (r1.toRat + r2.toRat + nonMetalAllowance)
    else some (r1.toRat + r2.toRat)
  | _, _ => none

/-- `max_bond_length(el1, el2)` over the tables of the repository -/
def maxBondLength (el1 el2 : String) : Option Rat :=
  maxBondLengthIn Generated.covalentRadii Generated.nonMetals el1 el2

/-- the image offsets `detect_bonds` adds to atom 1: the 27 `uc_neighbor_offsets(cell)`, or only the zero vector
    when there is no cell -/
def bondOffsets : Option Mat3 → List Vec3
  | some cell => ucOffsets cell
  | none => [Vec3.zero]

/-- `np.any(cdist(atom1 + uc_offsets, [atom2]) < cutoff)`: some image of atom 1 is strictly closer to atom 2 than the
    cutoff.  `‖v‖ < c ⟺ 0 < c ∧ ‖v‖² < c²`. -/
def withinCutoff (offs : List Vec3) (p1 p2 : Vec3) (c : Rat) : Bool :=
  decide (0 < c) && offs.any (fun o => decide (distSq (p1 + o) p2 < c * c))

/-- an atom as the loops see it: its element and its position -/
abbrev BAtom := String × Vec3

/-- the test of one pair, in the order of the code: the cutoff lookup (may raise `KeyError`), then the comparison -/
def bondTest (offs : List Vec3) (a1 a2 : BAtom) : Except Err Bool :=
  match maxBondLength a1.1 a2.1 with
  | none => .error (.reject "KeyError")
  | some c => .ok (withinCutoff offs a1.2 a2.2 c)

/-- inner loop `for i, atom2 in enumerate(positions[idx1+1:])` with `idx2 = i + idx1 + 1` carried as `j` -/
def bondRow {α} (test : α → α → Except Err Bool) (i : Nat) (a1 : α) : Nat → List α → Except Err (List (Nat × Nat))
  | _, [] => .ok []
  | j, a2 :: rest =>
    match test a1 a2 with
    | .error e => .error e
    | .ok hit =>
      match bondRow test i a1 (j + 1) rest with
      | .error e => .error e
      | .ok tl => .ok (if hit then (i, j) :: tl else tl)

/-- outer loop `for idx1, atom1 in enumerate(positions)`; `bonds.append([idx1, idx2])` in loop order -/
def bondPairs {α} (test : α → α → Except Err Bool) : Nat → List α → Except Err (List (Nat × Nat))
  | _, [] => .ok []
  | i, a1 :: rest =>
    match bondRow test i a1 (i + 1) rest with
    | .error e => .error e
    | .ok row =>
      match bondPairs test (i + 1) rest with
      | .error e => .error e
      | .ok tl => .ok (row ++ tl)

/-- `detect_bonds(structure)`: `elems = structure.elements`, `pos = structure.positions`, `cell = structure.cell`.
    One element per atom is an invariant of `Atoms`; other inputs are outside the domain. -/
def detectBonds (elems : List String) (pos : List Vec3) (cell : Option Mat3) : Except Err (List (Nat × Nat)) :=
  if elems.length ≠ pos.length then .error .domain
  else bondPairs (bondTest (bondOffsets cell)) 0 (elems.zip pos)

/-! ### guards of the minimum-image theorem (decidable; the driver evaluates them on every generated case) -/

/-- fractional coordinates in `[0, 1)` -/
def Mat3.inside (L : Mat3) (p : Vec3) : Prop :=
  let f := L.frac p
  (0 ≤ f.x ∧ f.x < 1) ∧ (0 ≤ f.y ∧ f.y < 1) ∧ (0 ≤ f.z ∧ f.z < 1)

instance (L : Mat3) (p : Vec3) : Decidable (L.inside p) := by unfold Mat3.inside; infer_instance

/-- every perpendicular width of the cell is at least `c` (for `c ≥ 0`), in squared, division-free form:
    `width_k = |det| / ‖A_i × A_j‖`, so `c ≤ width_k ⟺ c²·‖A_i × A_j‖² ≤ det²`. -/
def Mat3.widthsGe (L : Mat3) (c : Rat) : Prop :=
  c * c * Vec3.normSq (Vec3.cross L.b L.c) ≤ L.det * L.det
  ∧ c * c * Vec3.normSq (Vec3.cross L.c L.a) ≤ L.det * L.det
  ∧ c * c * Vec3.normSq (Vec3.cross L.a L.b) ≤ L.det * L.det

instance (L : Mat3) (c : Rat) : Decidable (L.widthsGe c) := by unfold Mat3.widthsGe; infer_instance

/-- all guards of the minimum-image theorem for one structure, as one executable `Bool`: non-degenerate cell, every
    atom inside the cell, every perpendicular width at least every cutoff in use -/
def bondGuards (elems : List String) (pos : List Vec3) (L : Mat3) : Bool :=
  decide (L.det ≠ 0) && pos.all (fun p => decide (L.inside p))
    && elems.all (fun e1 => elems.all (fun e2 =>
        match maxBondLength e1 e2 with
        | some c => decide (L.widthsGe c)
        | none => true))

/-! ### decision slack (for the harness: float-ambiguous cases are skipped) -/

def ratAbs (x : Rat) : Rat := if x < 0 then -x else x

/-- minimum over all (pair, image) comparisons of `|dist² − cutoff²| / cutoff²`; `none` when no comparison was made -/
def bondSlack (offs : List Vec3) (atoms : List BAtom) : Option Rat :=
  let rec row (a1 : BAtom) (rest : List BAtom) (acc : Option Rat) : Option Rat :=
    match rest with
    | [] => acc
    | a2 :: more =>
      match maxBondLength a1.1 a2.1 with
      | none => row a1 more acc
      | some c =>
        let acc' := offs.foldl (fun (m : Option Rat) o =>
          let s := ratAbs (distSq (a1.2 + o) a2.2 - c * c) / (c * c)
          match m with
          | none => some s
          | some v => some (if s < v then s else v)) acc
        row a1 more acc'
  let rec go (l : List BAtom) (acc : Option Rat) : Option Rat :=
    match l with
    | [] => acc
    | a1 :: rest => go rest (row a1 rest acc)
  go atoms none

/-! ### the scanned minimum and a cutoff-independent guard (used by Props/C17Min.lean) -/

/-- minimum of `f` over the non-empty list `x :: l` -/
def minOver {α} (f : α → Rat) : α → List α → Rat
  | x, [] => f x
  | x, y :: l => let m := minOver f y l; if f x ≤ m then f x else m

/-- the smallest squared distance among the 27 images `detect_bonds` scans -/
def scanMinDist2 (L : Mat3) (p q : Vec3) : Rat :=
  match ucMultipliers with
  | [] => distSq p q
  | m :: ms => minOver (fun m => distSq (p + L.lattice m.1 m.2.1 m.2.2) q) m ms

/-- one row of the guard below: `Σ_j |w·w_j| · ‖A_j‖²` for the reciprocal directions `w_j = A_{j+1} × A_{j+2}` -/
def Mat3.scanRow (L : Mat3) (w : Vec3) : Rat :=
  ratAbs (Vec3.dot w (Vec3.cross L.b L.c)) * Vec3.normSq L.a
  + ratAbs (Vec3.dot w (Vec3.cross L.c L.a)) * Vec3.normSq L.b
  + ratAbs (Vec3.dot w (Vec3.cross L.a L.b)) * Vec3.normSq L.c

/-- a cutoff-INDEPENDENT guard on the shape of the cell under which the 27 scanned images always contain a nearest
    image of every in-cell pair: `det ≠ 0` and for each `k`, `Σ_j |(G⁻¹)_kj| · G_jj ≤ 2` (`G` the Gram matrix), written
    division-free as `Σ_j |w_k·w_j| · ‖A_j‖² ≤ 2·det²`.  Every orthorhombic cell satisfies it (the sum is `det²`);
    so do moderately tilted cells (e.g. tilt factors up to half an edge of a cube). -/
def Mat3.scanReduced (L : Mat3) : Prop :=
  L.det ≠ 0
  ∧ L.scanRow (Vec3.cross L.b L.c) ≤ 2 * (L.det * L.det)
  ∧ L.scanRow (Vec3.cross L.c L.a) ≤ 2 * (L.det * L.det)
  ∧ L.scanRow (Vec3.cross L.a L.b) ≤ 2 * (L.det * L.det)

instance (L : Mat3) : Decidable L.scanReduced := by unfold Mat3.scanReduced; infer_instance

/-- guards of the cutoff-independent theorem for one structure: reduced cell, every atom inside the cell -/
def bondGuardsReduced (pos : List Vec3) (L : Mat3) : Bool :=
  decide L.scanReduced && pos.all (fun p => decide (L.inside p))

/-! ### the width guard with a margin: atoms on the faces of the cell, or slightly outside it -/

/-- fractional coordinates in the CLOSED interval `[-δ, 1 + δ]` (δ = 0: inside the cell or on one of its faces) -/
def Mat3.insideMargin (L : Mat3) (δ : Rat) (p : Vec3) : Prop :=
  let f := L.frac p
  (-δ ≤ f.x ∧ f.x ≤ 1 + δ) ∧ (-δ ≤ f.y ∧ f.y ≤ 1 + δ) ∧ (-δ ≤ f.z ∧ f.z ≤ 1 + δ)

instance (L : Mat3) (δ : Rat) (p : Vec3) : Decidable (L.insideMargin δ p) := by
  unfold Mat3.insideMargin; infer_instance

/-- every perpendicular width, shrunk by the factor `s`, is still at least `c`: `c ≤ s·width_k`, squared and
    division-free (`s = 1 - 2δ` pays for atoms up to `δ` cell lengths outside the cell) -/
def Mat3.widthsGeScaled (L : Mat3) (c s : Rat) : Prop :=
  c * c * Vec3.normSq (Vec3.cross L.b L.c) ≤ s * s * (L.det * L.det)
  ∧ c * c * Vec3.normSq (Vec3.cross L.c L.a) ≤ s * s * (L.det * L.det)
  ∧ c * c * Vec3.normSq (Vec3.cross L.a L.b) ≤ s * s * (L.det * L.det)

instance (L : Mat3) (c s : Rat) : Decidable (L.widthsGeScaled c s) := by unfold Mat3.widthsGeScaled; infer_instance

/-- the guards of `bonds_eq_minimage_margin` as one executable `Bool`: `0 ≤ δ < 1/2`, non-degenerate cell, every atom
    within `δ` (in fractional coordinates) of the closed cell, every perpendicular width times `1 - 2δ` at least every
    cutoff in use.  `δ = 0` is `bondGuards` with the faces of the cell included. -/
def bondGuardsMargin (elems : List String) (pos : List Vec3) (L : Mat3) (δ : Rat) : Bool :=
  decide (0 ≤ δ) && decide (2 * δ < 1) && decide (L.det ≠ 0) && pos.all (fun p => decide (L.insideMargin δ p))
    && elems.all (fun e1 => elems.all (fun e2 =>
        match maxBondLength e1 e2 with
        | some c => decide (L.widthsGeScaled c (1 - 2 * δ))
        | none => true))

end Mofun
