/-
  HistWide.lean — operation histories with the widened index conventions (property C09, stretch):
  besides the ops of Model/Hist.lean (`base`), a subset taken with arbitrary python integers (negative, repeated)
  and an object extended with ITSELF (the code reads self while it writes it: `Atoms.extendSelf`).
  `deleteI` is `del slot[idx]` for any list of python integers (negative, repeated, unsorted): the code normalises
  the indices to a set (`Atoms.deleteNorm`).
  Core Lean only; Model/Hist.lean is unchanged.
-/
import MofunModel.Model.Hist
import MofunModel.Model.TopoWide
import MofunModel.Model.ExtendApi

namespace Mofun.Hist

inductive OpW where
  | base (op : Op)
  | deleteI (slot : Nat) (idx : List Int)
  | getitemI (src dst : Nat) (idx : List Int)
  | extendSelf (slot : Nat) (off : Option Offsets) (map : List (Nat × Nat))
  /-- `dst.extend(src, offsets, structure_index_map)` in the public spelling (Model/ExtendApi.lean): offsets of any
      length (a shorter one is padded with zeros), map keys / values as python integers (negative = from the end; out
      of range → IndexError before anything changes); `dst = src` is the object extended with itself -/
  | extendA (dst src : Nat) (off : Option (List Nat)) (map : List (Int × Int))
deriving Repr

def stepW (s : State) : OpW → Except Err State
  | .base op => step s op
  | .deleteI slot idx => do
      let a ← getSlot s slot
      let r ← a.deleteNorm idx
      putSlot s slot r
  | .getitemI src dst idx => do
      let a ← getSlot s src
      let r ← a.getitemI idx
      putSlot s dst r
  | .extendSelf slot off map => do
      let a ← getSlot s slot
      let r ← a.extendSelf off map
      putSlot s slot r
  | .extendA dst src off map => do
      let a ← getSlot s dst
      let b ← getSlot s src
      let r ← if dst = src then
          (match normMap a.atoms.length a.atoms.length map with
           | .error e => .error e
           | .ok m => a.extendSelf (off.map padOffsets) m)
        else a.extendApi b off map
      putSlot s dst r

def runW (s : State) : List OpW → Except Err State
  | [] => .ok s
  | op :: rest =>
    match stepW s op with
    | .error e => .error e
    | .ok s' => runW s' rest

def traceW (s : State) : List OpW → List (Option (Except Err State))
  | [] => []
  | op :: rest =>
    match stepW s op with
    | .error e => some (.error e) :: rest.map (fun _ => none)
    | .ok s' => some (.ok s') :: traceW s' rest

end Mofun.Hist
