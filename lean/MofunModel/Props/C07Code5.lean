/-
  C07Code5.lean — the bookkeeping lines of the loop over the matches in `replace_pattern_in_structure` (mofun/mofun.py),
  re-translated from the python source text on every run by harness/gen_code.py (Generated/Code.lean, fifth batch) and tied to the
  named pieces of the model's loop (Proofs/ReplaceOverlap.lean: `mapOf`, `delSet`, `delStep`, `replaceState`, which
  `replaceCore_eq` / `fold_ok_del` / `fold_link` tie to `replaceCore` of Model/Replace.lean):

    structure_index_map = {} ; if not replace_all: structure_index_map = {k: match_indices[m_i][v] for k, v in r2s.items()}   = mapOf
    to_delete_linker = set(match_indices[m_i]) - set(structure_index_map.values())                                          = delSet (toDeleteOf)
    if to_delete.isdisjoint(to_delete_linker) or ignore…: to_delete |= set(to_delete_linker)  else: raise                  = delStep
    if len(replace_pattern) == 0: to_delete |= set([idx for match in match_indices for idx in match])                      = the empty branch of replaceState

  Python sets are lists in the generated code; the model keeps the duplicate-free representative, so the statements read
  `dedup (generated) = model`.
-/
import MofunModel.Proofs.Code5Replace

namespace Mofun.C07Code5
open Mofun Mofun.Generated Mofun.C07 Mofun.Code5Replace
set_option linter.unusedSimpArgs false

/-! ### structure_index_map (item 3) -/

/-- for ALL match lists, ALL maps with distinct keys whose values index the match: the translated `structure_index_map` of match
    `m_i` is the model's `mapOf` — empty with `replace_all`, else replacement atom ↦ matched structure atom, in the order of the pairs -/
theorem replaceIndexMap_eq (ra : Bool) (idxs : List (List Nat)) (i : Nat) (pairs : List (Nat × Nat)) (m : PlacedMatch)
    (hi : idxs[i]? = some m.idx) (hnd : (pairs.map (·.1)).Nodup) (hv : ∀ kv ∈ pairs, kv.2 < m.idx.length) :
    Code.replaceIndexMap ra idxs i pairs = some (mapOf pairs ra m) := by
  unfold Code.replaceIndexMap mapOf
  cases ra
  · simp only [Bool.not_false, if_true, bind, pure, Option.bind_eq_bind, hi, Option.bind_some]
    rw [dictCompM_map pairs (fun p => m.idx[p.2]?) (fun p => m.idx.getD p.2 0) hnd]
    · simp
    · intro p hp
      have := hv p hp
      simp [List.getD_eq_getElem?_getD, this]
  · simp [pure]

/-- in the model's setting (`pairs = unchangedPairs r p`, every match lists `|p|` atoms) the guards hold: no hypothesis on the pairs -/
theorem replaceIndexMap_model (p r : Atoms) (ra : Bool) (ms : List PlacedMatch) (i : Nat) (m : PlacedMatch)
    (hi : ms[i]? = some m) (hlen : m.idx.length = p.atoms.length) :
    Code.replaceIndexMap ra (ms.map (·.idx)) i (unchangedPairs r p) = some (mapOf (unchangedPairs r p) ra m) := by
  apply replaceIndexMap_eq
  · simp [hi]
  · exact unchangedPairs_keys_nodup r p
  · intro kv hkv; rw [hlen]; exact (unchangedPairs_valid r p kv hkv).2

/-! ### to_delete_linker and the overlap test (item 2) -/

/-- for ALL inputs: the atoms match `m_i` wants deleted (as a set) are the model's `toDeleteOf` -/
theorem replaceDeleteLinker_eq (idxs : List (List Nat)) (i : Nat) (map : List (Nat × Nat)) (m : PlacedMatch) (hi : idxs[i]? = some m.idx) :
    (Code.replaceDeleteLinker idxs i map).map dedup = some (toDeleteOf m (map.map (·.2))) := by
  unfold Code.replaceDeleteLinker toDeleteOf Py.setDiff Py.dictValues
  simp only [hi, bind, pure, Option.bind_eq_bind, Option.bind_some, Option.map_some, dedup_filter]

/-- for ALL inputs: the `if` statement merges (python set union = concatenation of the lists) exactly when no atom of the linker set is
    already marked, or the caller opted out; otherwise it raises -/
theorem replaceMergeDelete_eq (ig : Bool) (del td : List Nat) :
    Code.replaceMergeDelete ig del td = if (td.all (fun i => !del.contains i) || ig) = true then some (del ++ td) else none := by
  unfold Code.replaceMergeDelete Py.setUnion
  first
    | rw [setDisjoint_comm del td]
    | rw [show Py.setDisjoint td del = td.all (fun i => !del.contains i) from rfl]
  cases ig <;> cases hd : td.all (fun i => !del.contains i) <;> simp [hd, pure]

/-- the exception, spelled out: without the opt-out it is raised iff some atom would be deleted twice -/
theorem replaceMergeDelete_raises (del td : List Nat) :
    Code.replaceMergeDelete false del td = none ↔ ∃ x ∈ td, x ∈ del := by
  rw [replaceMergeDelete_eq]
  simp only [Bool.or_false]
  constructor
  · intro h
    by_contra hne
    have : td.all (fun i => !del.contains i) = true := by
      simp only [List.all_eq_true, Bool.not_eq_true', List.contains_eq_mem, decide_eq_false_iff_not]
      intro x hx hd; exact hne ⟨x, hx, hd⟩
    simp [this] at h
    exact hne h
  · rintro ⟨x, hx, hd⟩
    have : ¬ td.all (fun i => !del.contains i) = true := by
      simp only [List.all_eq_true, Bool.not_eq_true', List.contains_eq_mem, decide_eq_false_iff_not]
      intro h; exact h x hx hd
    simp [this]
    exact ⟨x, hx, hd⟩

/-- … and with the opt-out it never is -/
theorem replaceMergeDelete_ignore (del td : List Nat) : Code.replaceMergeDelete true del td = some (del ++ td) := by
  rw [replaceMergeDelete_eq]; simp

/-- for ALL duplicate-free running sets: the translated statement is the model's `delStep` on the duplicate-free representatives -/
theorem replaceMergeDelete_delStep (ig : Bool) (del td : List Nat) (hnd : del.Nodup) :
    (Code.replaceMergeDelete ig del td).map dedup = delStep ig (some del) (dedup td) := by
  rw [replaceMergeDelete_eq]
  unfold delStep
  simp only [all_dedup]
  by_cases h : (td.all (fun i => !del.contains i) || ig) = true
  · simp only [h, if_true, Option.map_some, dedup_append, dedup_of_nodup del hnd]
  · simp only [h, if_false, Option.map_none]; rfl

/-- **the loop body, composed as in the code** (index map → linker set → overlap test), equals one `delStep` of the model on the model's
    `delSet` — the function the C07 theorems fold over the matches (`fold_ok_del`, `fold_link`, `replace_raises_iff`) -/
theorem replaceStep_del (p r : Atoms) (ra ig : Bool) (ms : List PlacedMatch) (i : Nat) (m : PlacedMatch) (del : List Nat)
    (hi : ms[i]? = some m) (hlen : m.idx.length = p.atoms.length) (hnd : del.Nodup) :
    ((Code.replaceIndexMap ra (ms.map (·.idx)) i (unchangedPairs r p)).bind (fun map =>
      (Code.replaceDeleteLinker (ms.map (·.idx)) i map).bind (fun td => Code.replaceMergeDelete ig del td))).map dedup
      = delStep ig (some del) (delSet p r ra m) := by
  rw [replaceIndexMap_model p r ra ms i m hi hlen]
  have hl := replaceDeleteLinker_eq (ms.map (·.idx)) i (mapOf (unchangedPairs r p) ra m) m (by simp [hi])
  cases htd : Code.replaceDeleteLinker (ms.map (·.idx)) i (mapOf (unchangedPairs r p) ra m) with
  | none => rw [htd] at hl; cases hl
  | some td =>
    rw [htd] at hl
    simp only [Option.map_some, Option.some.injEq] at hl
    simp only [htd, Option.bind_some]
    rw [replaceMergeDelete_delStep ig del td hnd, hl]
    rfl

/-! ### the empty replacement (item 4) -/

/-- for ALL replacements: the pure-deletion branch is taken iff the replacement has no atoms — the guard of the model -/
theorem replaceEmptyBranch_eq (r : Atoms) : Code.replaceEmptyBranch r.atoms.length = r.atoms.isEmpty := by
  unfold Code.replaceEmptyBranch
  cases r.atoms <;> simp

/-- for ALL match lists: the deletion set of the empty branch is every index of every match -/
theorem replaceEmptyDelete_eq (del : List Nat) (ms : List PlacedMatch) :
    Code.replaceEmptyDelete del (ms.map (·.idx)) = del ++ ms.flatMap (·.idx) := by
  unfold Code.replaceEmptyDelete Py.setUnion
  simp [List.flatMap, Function.comp_def]

/-- … so the model's `replaceState` of an empty replacement deletes the translated set (starting from `to_delete = set()`) -/
theorem replaceState_empty (s p r : Atoms) (ms : List PlacedMatch) (ra ig : Bool) (he : Code.replaceEmptyBranch r.atoms.length = true) :
    replaceState s p r ms ra ig = .ok { s := s, del := dedup (Code.replaceEmptyDelete [] (ms.map (·.idx))) } := by
  rw [replaceEmptyBranch_eq] at he
  unfold replaceState
  simp only [he, if_true, replaceEmptyDelete_eq, List.nil_append]

/-! ### concrete inputs -/

/-- two matches sharing atom 2; the replacement keeps atoms 0 and 2 of the search pattern -/
example : Code.replaceIndexMap false [[0, 1, 2], [2, 3, 4]] 1 [(0, 0), (2, 2)] = some [(0, 2), (2, 4)] := by decide
example : Code.replaceIndexMap true [[0, 1, 2], [2, 3, 4]] 1 [(0, 0), (2, 2)] = some [] := by decide
example : Code.replaceIndexMap false [[0, 1, 2], [2, 3, 4]] 1 [(0, 0), (2, 5)] = none := by decide
example : Code.replaceDeleteLinker [[0, 1, 2], [2, 3, 4]] 1 [(0, 2), (2, 4)] = some [3] := by decide
example : Code.replaceDeleteLinker [[0, 1, 2], [2, 3, 4]] 1 [] = some [2, 3, 4] := by decide
example : Code.replaceMergeDelete false [0, 1, 2] [2, 3, 4] = none := by decide
example : Code.replaceMergeDelete true [0, 1, 2] [2, 3, 4] = some [0, 1, 2, 2, 3, 4] := by decide
example : Code.replaceMergeDelete false [1] [3] = some [1, 3] := by decide
example : Code.replaceEmptyDelete [] [[0, 1, 2], [2, 3, 4]] = [0, 1, 2, 2, 3, 4] := by decide

end Mofun.C07Code5
