/-
  C09 (stretch) — the tuple-arity invariant and the LAMMPS save/load clause along WIDENED histories
  (Model/HistWide.lean: deletions with arbitrary integers, subsets with arbitrary integers incl. the empty selection,
  an object extended with itself).  `arity_run` / `wf_run_saves` of Props/C09Saves.lean are stated over the old `Op`;
  here they are restated over `OpW`.  Property theorems only.
-/
import MofunModel.Props.C09Saves
import MofunModel.Props.C09Wide

namespace Mofun.C09Saves

open Mofun Mofun.Hist

def ArityOpW : OpW → Prop
  | .base op => ArityOp op
  | _ => True

instance (op : OpW) : Decidable (ArityOpW op) := by cases op <;> unfold ArityOpW <;> infer_instance

theorem arity_deleteNorm (a r : Atoms) (idx : List Int) (ha : Arity a) (h : a.deleteNorm idx = .ok r) : Arity r := by
  unfold Atoms.deleteNorm at h
  split at h
  · cases h
  · exact arity_delete a r _ ha h

theorem arity_getitemI (a r : Atoms) (idx : List Int) (h : a.getitemI idx = .ok r) : Arity r := by
  unfold Atoms.getitemI at h
  split at h
  · cases h
  · cases h
    exact ⟨kindArity_empty 2, kindArity_empty 3, kindArity_empty 4, kindArity_empty 4⟩

/-- a self-extend keeps the arities for EVERY identity map (its terms are those of extending with a copy) -/
theorem arity_extendSelf (a r : Atoms) (off : Option Offsets) (map : List (Nat × Nat)) (ha : Arity a)
    (h : a.extendSelf off map = .ok r) : Arity r := by
  unfold Atoms.extendSelf at h
  cases hr : a.extend a off map with
  | error e => simp [hr, bind, Except.bind] at h
  | ok r0 =>
    simp only [hr, bind, Except.bind, pure, Except.pure] at h
    cases h
    exact arity_extend a a r0 off map ha ha hr

/-- **arity_stepW.** -/
theorem arity_stepW (s s' : State) (op : OpW) (hs : ArityState s) (hao : ArityOpW op) (h : stepW s op = .ok s') :
    ArityState s' := by
  cases op with
  | base op => exact arity_step s s' op hs hao h
  | deleteI slot idx =>
    simp only [stepW, bind, Except.bind] at h
    cases ha : getSlot s slot with
    | error e => simp [ha] at h
    | ok a =>
      simp only [ha] at h
      cases hr : a.deleteNorm idx with
      | error e => simp [hr] at h
      | ok r =>
        simp only [hr] at h
        exact arityState_put s s' slot r hs (arity_deleteNorm a r idx (hs slot a (getSlot_ok s slot a ha)) hr) h
  | getitemI src dst idx =>
    simp only [stepW, bind, Except.bind] at h
    cases ha : getSlot s src with
    | error e => simp [ha] at h
    | ok a =>
      simp only [ha] at h
      cases hr : a.getitemI idx with
      | error e => simp [hr] at h
      | ok r =>
        simp only [hr] at h
        exact arityState_put s s' dst r hs (arity_getitemI a r idx hr) h
  | extendSelf slot off map =>
    simp only [stepW, bind, Except.bind] at h
    cases ha : getSlot s slot with
    | error e => simp [ha] at h
    | ok a =>
      simp only [ha] at h
      cases hr : a.extendSelf off map with
      | error e => simp [hr] at h
      | ok r =>
        simp only [hr] at h
        exact arityState_put s s' slot r hs (arity_extendSelf a r off map (hs slot a (getSlot_ok s slot a ha)) hr) h
  | extendA dst src off map =>
    simp only [stepW, bind, Except.bind] at h
    cases ha : getSlot s dst with
    | error e => simp [ha] at h
    | ok a =>
      simp only [ha] at h
      cases hb : getSlot s src with
      | error e => simp [hb] at h
      | ok b =>
        simp only [hb] at h
        have aa := hs dst a (getSlot_ok s dst a ha)
        have ab := hs src b (getSlot_ok s src b hb)
        by_cases hds : dst = src
        · simp only [hds, if_true] at h
          cases hn : normMap a.atoms.length a.atoms.length map with
          | error e => simp [hn] at h
          | ok m =>
            simp only [hn] at h
            cases hr : a.extendSelf (off.map padOffsets) m with
            | error e => simp [hr] at h
            | ok r =>
              simp only [hr] at h
              exact arityState_put s s' src r hs (arity_extendSelf a r _ m aa hr) h
        · simp only [hds, if_false] at h
          cases hr : a.extendApi b off map with
          | error e => simp [hr] at h
          | ok r =>
            simp only [hr] at h
            unfold Atoms.extendApi at hr
            cases hn : normMap b.atoms.length a.atoms.length map with
            | error e => simp [hn] at hr
            | ok m =>
              simp only [hn] at hr
              exact arityState_put s s' dst r hs (arity_extend a b r _ m aa ab hr) h

/-- **arity_runW.** -/
theorem arity_runW (ops : List OpW) : ∀ (s s' : State), ArityState s → (∀ op ∈ ops, ArityOpW op) →
    runW s ops = .ok s' → ArityState s' := by
  induction ops with
  | nil => intro s s' hs _ h; simp only [runW] at h; cases h; exact hs
  | cons op rest ih =>
    intro s s' hs hao h
    simp only [runW] at h
    cases hstep : stepW s op with
    | error e => simp [hstep] at h
    | ok s1 =>
      simp only [hstep] at h
      exact ih s1 s' (arity_stepW s s1 op hs (hao op List.mem_cons_self) hstep)
        (fun o ho => hao o (List.mem_cons_of_mem _ ho)) h

theorem guardedRunW_take (ops : List OpW) : ∀ (s : State) (k : Nat), GuardedRunW s ops → GuardedRunW s (ops.take k) := by
  induction ops with
  | nil => intro s k h; simpa using h
  | cons op rest ih =>
    intro s k h
    cases k with
    | zero => simp [GuardedRunW]
    | succ k =>
      obtain ⟨h1, h2⟩ := h
      simp only [List.take_succ_cons, GuardedRunW]
      refine ⟨h1, ?_⟩
      cases hstep : stepW s op with
      | error e => trivial
      | ok s1 =>
        simp only [hstep] at h2 ⊢
        exact ih s1 k h2

/-- all three invariants along a guarded widened history -/
theorem run_invariantsW (ops : List OpW) (s s' : State) (hw : WFState s) (hal : AlignedState s) (har : ArityState s)
    (hg : GuardedRunW s ops) (hao : ∀ op ∈ ops, AlignedOpW op) (hro : ∀ op ∈ ops, ArityOpW op)
    (h : runW s ops = .ok s') : WFState s' ∧ AlignedState s' ∧ ArityState s' :=
  ⟨(meaning_runW ops s s' hw hal hg hao h).1, (meaning_runW ops s s' hw hal hg hao h).2, arity_runW ops s s' har hro h⟩

/-- **wf_runW_saves.**  `wf_run_saves` for the widened histories: after every prefix of a guarded history whose ops
    may delete with negative / repeated integers, take subsets with arbitrary integers (also the empty selection) and
    extend an object with itself (diagonal map), every object with at least one atom type (in particular: at least one atom) can be saved as a LAMMPS data
    file whose declared counts match its sections and which reads back to the same structure. -/
theorem wf_runW_saves (guess : List Rat → Option (List String)) (ops : List OpW) (s s' : State) (k : Nat)
    (hw : WFState s) (hal : AlignedState s) (har : ArityState s)
    (hg : GuardedRunW s ops) (hao : ∀ op ∈ ops, AlignedOpW op) (hro : ∀ op ∈ ops, ArityOpW op)
    (h : runW s (ops.take k) = .ok s')
    (i : Nat) (a : Atoms) (hi : s'[i]? = some (some a)) (hty : a.typeElems ≠ []) (hs : LmpStrings a) :
    ∃ lines, Lmp.saveLmp a .full = .ok lines ∧ Lmp.loadLmp guess lines .full = .ok (Lmp.norm guess .full a)
      ∧ HeaderMatches lines ∧ AtomTypesMatch lines := by
  obtain ⟨w, al, ar⟩ := run_invariantsW (ops.take k) s s' hw hal har (guardedRunW_take ops s k hg)
    (fun op ho => hao op (List.mem_of_mem_take ho)) (fun op ho => hro op (List.mem_of_mem_take ho)) h
  exact wf_aligned_saves guess a (w i a hi) (al i a hi) (ar i a hi) hty hs

/-- the widened example history satisfies the additional guard -/
example : (∀ op ∈ exHistoryW, ArityOpW op) ∧ (∀ op ∈ exHistoryW, AlignedOpW op) ∧ GuardedRunW State.init exHistoryW := by
  decide

end Mofun.C09Saves
