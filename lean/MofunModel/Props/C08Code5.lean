/-
  C08Code5.lean — `find_unchanged_atom_pairs` (mofun/atoms.py), the WHOLE function, re-translated from the python source text on every
  run by harness/gen_code.py (Generated/Code.lean, fifth batch: nested loops, `break`, `norm(p2 - p1) < max_delta`), equals the model's
  `unchangedPairs` (Model/Replace.lean) — the pairing the C04 / C06 / C07 / C08 theorems about retained atoms rest on.
-/
import MofunModel.Proofs.Code5Pairs
import MofunModel.Model.Replace

namespace Mofun.C08Code5
open Mofun Mofun.Generated Mofun.Code5Pairs
set_option linter.unusedSimpArgs false

/-- the test of the inner loop for atom `i` at `p1` of the first structure and atom `j` at `p2` of the second -/
def hit (es fs : List String) (d : Rat) (i : Nat) (p1 : Vec3) (j : Nat) (p2 : Vec3) : Bool :=
  Py.normLt ⟨p2.x - p1.x, p2.y - p1.y, p2.z - p1.z⟩ d && es.getD i "" == fs.getD j ""

/-- **what the function computes**, for ALL position lists, element lists of the same lengths and ALL `max_delta`: for every atom `i`
    of the first structure, in order, the FIRST atom `j` of the second one with `‖p₂ − p₁‖ < max_delta` and the same element (if any) -/
theorem findUnchangedAtomPairs_spec (ps qs : List Vec3) (es fs : List String) (d : Rat) (he : es.length = ps.length) (hf : fs.length = qs.length) :
    Code.findUnchangedAtomPairs ps es qs fs d = some ((List.range ps.length).filterMap (fun i =>
      match ps[i]? with
      | none => none
      | some p1 => ((List.range qs.length).find? (fun j =>
          match qs[j]? with
          | none => false
          | some p2 => hit es fs d i p1 j p2)).map (fun j => (i, j)))) := by
  unfold Code.findUnchangedAtomPairs
  rw [forFoldM_filterMap (h := fun p => ((Py.enumerate qs).find? (fun q => hit es fs d p.1 p.2 q.1 q.2)).map (fun q => (p.1, q.1)))]
  · simp only [bind, pure, Option.bind_eq_bind, Option.bind_some, List.nil_append, Option.some.injEq]
    have h1 := filterMap_enumerateFrom ps 0 (fun i p1 => ((Py.enumerate qs).find? (fun q => hit es fs d i p1 q.1 q.2)).map (fun q => (i, q.1)))
    simp only [Nat.sub_zero, ← List.range_eq_range'] at h1
    unfold Py.enumerate at h1 ⊢
    rw [h1]
    apply filterMap_congr'
    intro i _
    cases ps[i]? with
    | none => rfl
    | some p1 =>
      simp only []
      have h2 := find_enumerateFrom qs 0 (fun j p2 => hit es fs d i p1 j p2)
      simp only [Nat.sub_zero, ← List.range_eq_range'] at h2
      have h3 : ((Py.enumerateFrom 0 qs).find? (fun q => hit es fs d i p1 q.1 q.2)).map (fun q => (i, q.1)) =
          (((Py.enumerateFrom 0 qs).find? (fun q => hit es fs d i p1 q.1 q.2)).map (·.1)).map (fun j => (i, j)) := by
        rw [Option.map_map]; rfl
      rw [h3, h2]
      congr 2
      funext j
      cases qs[j]? <;> rfl
  · intro acc p hmem
    obtain ⟨i, p1⟩ := p
    have hi := mem_enumerateFrom ps 0 i p1 hmem
    simp only [Nat.sub_zero] at hi
    have hilt : i < es.length := by
      rw [he]; exact (List.getElem?_eq_some_iff.mp hi.2).1
    simp only [bind, pure, Option.bind_eq_bind]
    rw [forBreakM_first (c := fun q => hit es fs d i p1 q.1 q.2) (upd := fun st q => st ++ [(i, q.1)])]
    · cases (Py.enumerate qs).find? (fun q => hit es fs d i p1 q.1 q.2) <;> rfl
    · intro st q hq
      obtain ⟨j, p2⟩ := q
      have hj := mem_enumerateFrom qs 0 j p2 hq
      simp only [Nat.sub_zero] at hj
      have hjlt : j < fs.length := by
        rw [hf]; exact (List.getElem?_eq_some_iff.mp hj.2).1
      simp only [hit, List.getElem?_eq_getElem hilt, List.getElem?_eq_getElem hjlt, List.getD_eq_getElem?_getD, Option.getD_some,
        Option.bind_some, bind, pure, Option.bind_eq_bind]
      cases hn : Py.normLt ⟨p2.x - p1.x, p2.y - p1.y, p2.z - p1.z⟩ d <;> by_cases hE : es[i] = fs[j] <;>
        (have hE' : (fs[j] = es[i]) = (es[i] = fs[j]) := propext ⟨Eq.symm, Eq.symm⟩) <;> simp [hn, hE, hE']

/-! ### the model's pairing -/

/-- the position rows of a model structure (`Atoms.positions`) -/
def posOf (a : Atoms) : List Vec3 := a.atoms.map (·.pos)
/-- the per-atom element list of a model structure (`Atoms.elements`: the element of each atom's type) -/
def elemsOf (a : Atoms) : List String := (List.range a.atoms.length).map a.elemOf

theorem default_max_delta : Code.findUnchangedAtomPairs_default_max_delta = 1 / 100000 := by decide +kernel

/-- `norm(p2 − p1) < 1e-5` is the model's `‖p₂ − p₁‖² < 10⁻¹⁰` -/
theorem normLt_default (p2 p1 : Vec3) :
    Py.normLt ⟨p2.x - p1.x, p2.y - p1.y, p2.z - p1.z⟩ (1 / 100000) = decide (distSq p2 p1 < 1 / 10000000000) := by
  have h0 : decide ((0 : Rat) < 1 / 100000) = true := by decide +kernel
  have h1 : ((1 : Rat) / 100000) * (1 / 100000) = 1 / 10000000000 := by decide +kernel
  unfold Py.normLt distSq Vec3.normSq Vec3.dot Vec3.sub
  simp only [h0, h1, Bool.true_and]

theorem elemsOf_getD (a : Atoms) (i : Nat) (h : i < a.atoms.length) : (elemsOf a).getD i "" = a.elemOf i := by
  simp [elemsOf, List.getD_eq_getElem?_getD, h]

/-- **equivalence with the model**, for ALL structures: the translated `find_unchanged_atom_pairs(orig, final)` with its default
    `max_delta = 1e-5` is the model's `unchangedPairs orig final` -/
theorem findUnchangedAtomPairs_eq (orig final : Atoms) :
    Code.findUnchangedAtomPairs (posOf orig) (elemsOf orig) (posOf final) (elemsOf final) Code.findUnchangedAtomPairs_default_max_delta
      = some (unchangedPairs orig final) := by
  rw [findUnchangedAtomPairs_spec _ _ _ _ _ (by simp [posOf, elemsOf]) (by simp [posOf, elemsOf]), default_max_delta]
  unfold unchangedPairs
  simp only [posOf, List.length_map, Option.some.injEq]
  apply filterMap_congr'
  intro i hi
  have hi' : i < orig.atoms.length := List.mem_range.mp hi
  simp only [List.getElem?_map]
  cases orig.atoms[i]? with
  | none => rfl
  | some ri =>
    simp only [Option.map_some]
    congr 1
    apply find_congr'
    intro j hj
    have hj' : j < final.atoms.length := List.mem_range.mp hj
    cases final.atoms[j]? with
    | none => rfl
    | some rj =>
      simp only [Option.map_some, hit, normLt_default, elemsOf_getD orig i hi', elemsOf_getD final j hj']
      by_cases he : orig.elemOf i = final.elemOf j <;> simp [he]

/-- the retained-atom map `replace_pattern_in_structure` builds from it (`{k: v for (k, v) in find_unchanged_atom_pairs(replace_pattern,
    search_pattern)}`) is the `pairs` of `replaceCore`: keys are distinct (Proofs/ReplaceOverlap.lean), so the dict is the list itself -/
theorem replace2search_map (p r : Atoms) :
    Code.findUnchangedAtomPairs (posOf r) (elemsOf r) (posOf p) (elemsOf p) Code.findUnchangedAtomPairs_default_max_delta
      = some (unchangedPairs r p) := findUnchangedAtomPairs_eq r p

/-! ### concrete inputs -/
/-- C–N–C against C–N–C shifted in the middle atom: atoms 0 and 2 are unchanged; an atom exactly 1e-5 away is NOT unchanged (`<`);
    the first of two coincident partners wins (`break`); a different element is no partner -/
example : Code.findUnchangedAtomPairs [⟨0, 0, 0⟩, ⟨1, 0, 0⟩, ⟨2, 0, 0⟩] ["C", "N", "C"] [⟨0, 0, 0⟩, ⟨1, 1 / 2, 0⟩, ⟨2, 0, 0⟩] ["C", "N", "C"]
    (1 / 100000) = some [(0, 0), (2, 2)] := by decide +kernel
example : Code.findUnchangedAtomPairs [⟨0, 0, 0⟩] ["C"] [⟨1 / 100000, 0, 0⟩] ["C"] (1 / 100000) = some [] := by decide +kernel
example : Code.findUnchangedAtomPairs [⟨0, 0, 0⟩] ["C"] [⟨1 / 200000, 0, 0⟩, ⟨0, 0, 0⟩] ["C", "C"] (1 / 100000) = some [(0, 0)] := by decide +kernel
example : Code.findUnchangedAtomPairs [⟨0, 0, 0⟩] ["C"] [⟨0, 0, 0⟩, ⟨0, 0, 0⟩] ["N", "C"] (1 / 100000) = some [(0, 1)] := by decide +kernel

end Mofun.C08Code5
