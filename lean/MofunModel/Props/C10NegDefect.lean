/-
  C10 — the behaviour of `del a[idx]` BEFORE the fix "negative valid indices" (`Atoms.deleteRaw`, `Atoms.deleteMask` in
  Model/TopoWide.lean): `__delitem__` handed the RAW index list to `_delete_and_reindex_atom_index_array`.
  Kept to document the defect that was found by running the real code on negative valid indices (`del a[[-1]]` on a
  5-atom chain: no bond removed, every entry lowered, first bond becomes (−1, 0)), and because the seeded change
  `C10-revert-negidx` re-introduces exactly this behaviour.  These theorems are about the model of the OLD code; the
  current code is `Atoms.deleteNorm` (Props/C10Wide.lean).

  * the per-atom arrays were always shortened correctly (`deleteRaw_atoms`, `deleteMask_atoms`);
  * on non-negative lists the raw deletion is the modelled `Atoms.delete` (`deleteRaw_ofNat`);
  * a term survived iff none of its atoms EQUALLED a raw listed integer (`deleteRaw_terms_iff`), and for distinct raw
    integers an entry `x` became `x − #{listed integers < x}` (`deleteRaw_entry`) — negative integers counted;
  * `deleteRaw_single_negative`: `del a[[i]]`, `−n ≤ i < 0`, removed the right atom, kept EVERY term and lowered
    EVERY entry by one.
-/
import MofunModel.Proofs.WideLemmas
import MofunModel.Props.C10

namespace Mofun

/-- the atom positions a list of python integers denotes, with repetitions (numpy normalisation; invalid dropped) -/
def rawPositions (n : Nat) (idx : List Int) : List Nat := idx.filterMap (normIdx n)

/-! ### the code's behaviour on any integer list -/

/-- **deleteRaw_ok_iff.** `del a[idx]` succeeds exactly when every integer is in `[−n, n)` (numpy IndexError otherwise). -/
theorem deleteRaw_ok_iff (a : Atoms) (idx : List Int) :
    (∃ r, a.deleteRaw idx = .ok r) ↔ ∀ i ∈ idx, -(a.atoms.length : Int) ≤ i ∧ i < (a.atoms.length : Int) := by
  unfold Atoms.deleteRaw
  simp only
  by_cases h : idx.any (fun i => (normIdx a.atoms.length i).isNone) = true
  · simp only [h, if_true]
    constructor
    · rintro ⟨r, hr⟩; cases hr
    · intro hall
      obtain ⟨i, hi, hn⟩ := List.any_eq_true.mp h
      have := (normIdx_isSome_iff a.atoms.length i).mpr (hall i hi)
      cases hq : normIdx a.atoms.length i <;> simp [hq] at hn this
  · simp only [h]
    constructor
    · intro _ i hi
      apply (normIdx_isSome_iff a.atoms.length i).mp
      cases hq : normIdx a.atoms.length i with
      | some j => rfl
      | none => exact absurd (List.any_eq_true.mpr ⟨i, hi, by simp [hq]⟩) h
    · intro _; exact ⟨_, rfl⟩

/-- **deleteRaw_atoms.** On the whole widened domain (negative, repeated, unsorted integers) the atoms that remain
    are exactly those whose position is not denoted by a listed integer, in order, with all their data. -/
theorem deleteRaw_atoms (a : Atoms) (r : DeleteRaw) (idx : List Int) (h : a.deleteRaw idx = .ok r) :
    r.atoms = ((a.atoms.zipIdx).filter (fun p => !(rawPositions a.atoms.length idx).contains p.2)).map (·.1) := by
  unfold Atoms.deleteRaw at h
  simp only at h
  split at h
  · cases h
  · cases h
    simp [deleteIdx, deleteIdx_go_eq, rawPositions]

/-- **deleteRaw_terms_iff.** A term survives iff none of its atoms EQUALS a raw listed integer (so a negative
    integer never removes a term); survivors keep order, type and extra fields; every entry goes through the loop. -/
theorem deleteRaw_terms_iff (ts : List Term) (idx : List Int) (t' : TermI) :
    t' ∈ deleteTermsRaw ts idx ↔
      ∃ t ∈ ts, (∀ x ∈ t.atoms, Int.ofNat x ∉ idx) ∧ t'.ty = t.ty ∧ t'.extra = t.extra
        ∧ t'.atoms = t.atoms.map (fun x => reindexI (sortDescI idx) (Int.ofNat x)) := by
  unfold deleteTermsRaw
  simp only [List.mem_map, List.mem_filter]
  constructor
  · rintro ⟨t, ⟨ht, hf⟩, rfl⟩
    refine ⟨t, ht, ?_, rfl, rfl, rfl⟩
    intro x hx hin
    simp at hf
    exact hf x hx hin
  · rintro ⟨t, ht, hs, h1, h2, h3⟩
    refine ⟨t, ⟨ht, ?_⟩, ?_⟩
    · simp only [Bool.not_eq_eq_eq_not, Bool.not_true]
      apply List.any_eq_false.mpr
      intro x hx; simpa using hs x hx
    · cases t'; simp_all

/-- **deleteRaw_entry.** For DISTINCT raw integers the re-index loop lowers a surviving entry `x` by the number of
    listed integers below it — every negative integer counts, whatever atom it denotes. -/
theorem deleteRaw_entry (idx : List Int) (hnd : idx.Nodup) (x : Nat) (hx : Int.ofNat x ∉ idx) :
    reindexI (sortDescI idx) (Int.ofNat x) = Int.ofNat x - (rankBelowI idx (Int.ofNat x) : Int) :=
  reindexI_eq_rank idx hnd (Int.ofNat x) hx

theorem rawPositions_ofNat (n : Nat) (idx : List Nat) (h : ∀ i ∈ idx, i < n) : rawPositions n (idx.map Int.ofNat) = idx := by
  unfold rawPositions
  induction idx with
  | nil => rfl
  | cons i rest ih =>
    have hi := h i List.mem_cons_self
    simp only [List.map_cons, List.filterMap_cons, normIdx_ofNat, hi, if_true]
    rw [ih (fun j hj => h j (List.mem_cons_of_mem _ hj))]

theorem any_none_ofNat (n : Nat) (idx : List Nat) :
    (idx.map Int.ofNat).any (fun i => (normIdx n i).isNone) = idx.any (fun i => decide (i ≥ n)) := by
  rw [List.any_map]
  induction idx with
  | nil => rfl
  | cons i rest ih =>
    simp only [List.any_cons, ih, Function.comp, normIdx_ofNat]
    by_cases h : i < n
    · have : ¬ i ≥ n := by omega
      simp [h, this]
    · have : i ≥ n := by omega
      simp [h, this]

/-- **deleteRaw_ofNat.** On non-negative integers — repeated and unsorted ones included — the raw deletion is the
    modelled `Atoms.delete`: all theorems of Props/C10.lean are statements about this case. -/
theorem deleteRaw_ofNat (a : Atoms) (idx : List Nat) :
    a.deleteRaw (idx.map Int.ofNat) = (a.delete idx).map Atoms.toDeleteRaw := by
  unfold Atoms.deleteRaw Atoms.delete
  simp only [any_none_ofNat]
  by_cases h : idx.any (fun i => decide (i ≥ a.atoms.length)) = true
  · simp [h, Except.map]
  · have hall : ∀ i ∈ idx, i < a.atoms.length := by
      intro i hi
      have : ¬ (i ≥ a.atoms.length) := fun hge => h (List.any_eq_true.mpr ⟨i, hi, by simpa using hge⟩)
      omega
    have hn := rawPositions_ofNat a.atoms.length idx hall
    unfold rawPositions at hn
    simp only [h, Except.map, hn, deleteTermsRaw_ofNat, Atoms.toDeleteRaw, TermTable.delete]
    rfl

theorem map_toNat_ofNat (idx : List Int) (h : ∀ i ∈ idx, 0 ≤ i) : (idx.map Int.toNat).map Int.ofNat = idx := by
  induction idx with
  | nil => rfl
  | cons i rest ih =>
    simp only [List.map_cons]
    rw [ih (fun j hj => h j (List.mem_cons_of_mem _ hj))]
    congr 1
    exact Int.toNat_of_nonneg (h i List.mem_cons_self)

/-- the same for a list of integers known to be non-negative -/
theorem deleteRaw_nonneg (a : Atoms) (idx : List Int) (h : ∀ i ∈ idx, 0 ≤ i) :
    a.deleteRaw idx = (a.delete (idx.map Int.toNat)).map Atoms.toDeleteRaw := by
  have e : idx = (idx.map Int.toNat).map Int.ofNat := (map_toNat_ofNat idx h).symm
  conv => lhs; rw [e]
  exact deleteRaw_ofNat a _

/-- **deleteRaw_single_negative — the defect.** `del a[[i]]` with a NEGATIVE valid index removes the right atom
    (`n + i`), but keeps EVERY term (also those on the removed atom) and lowers EVERY entry by one (also those
    below the removed atom; an entry 0 becomes −1). -/
theorem deleteRaw_single_negative (a : Atoms) (i : Int) (h1 : -(a.atoms.length : Int) ≤ i) (h2 : i < 0) :
    a.deleteRaw [i] = .ok {
      atoms := deleteIdx a.atoms [(i + (a.atoms.length : Int)).toNat]
      bonds := a.bonds.terms.map (fun t => { atoms := t.atoms.map (fun x => Int.ofNat x - 1), ty := t.ty, extra := t.extra })
      angles := a.angles.terms.map (fun t => { atoms := t.atoms.map (fun x => Int.ofNat x - 1), ty := t.ty, extra := t.extra })
      dihedrals := a.dihedrals.terms.map (fun t => { atoms := t.atoms.map (fun x => Int.ofNat x - 1), ty := t.ty, extra := t.extra })
      impropers := a.impropers.terms.map (fun t => { atoms := t.atoms.map (fun x => Int.ofNat x - 1), ty := t.ty, extra := t.extra }) } := by
  have hterms : ∀ ts : List Term, deleteTermsRaw ts [i] =
      ts.map (fun t => ({ atoms := t.atoms.map (fun x => Int.ofNat x - 1), ty := t.ty, extra := t.extra } : TermI)) := by
    intro ts
    unfold deleteTermsRaw
    have hf : ts.filter (fun t => !(t.atoms.any (fun (x : Nat) => [i].contains (Int.ofNat x)))) = ts := by
      apply List.filter_eq_self.mpr
      intro t _
      simp only [Bool.not_eq_eq_eq_not, Bool.not_true]
      apply List.any_eq_false.mpr
      intro x _
      have : Int.ofNat x ≠ i := by have : (0 : Int) ≤ Int.ofNat x := Int.natCast_nonneg x; omega
      simpa using this
    rw [hf]
    apply List.map_congr_left
    intro t _
    have : ∀ x : Nat, reindexI (sortDescI [i]) (Int.ofNat x) = Int.ofNat x - 1 := by
      intro x
      have hx : Int.ofNat x > i := by have : (0 : Int) ≤ Int.ofNat x := Int.natCast_nonneg x; omega
      simp only [sortDescI, insertDescI, reindexI, shiftAboveI, List.foldr_cons, List.foldr_nil, List.foldl_cons,
        List.foldl_nil, hx, if_true]
    simp only [this]
  unfold Atoms.deleteRaw
  simp only [hterms, List.any_cons, List.any_nil, normIdx_neg _ i h1 h2, List.filterMap_cons, List.filterMap_nil]
  simp

/-! ### boolean masks -/

/-- **deleteMask_atoms.** With a boolean mask of the right length the atoms that remain are those where the mask is
    false (the terms are NOT treated accordingly: the term code reads the mask as the integers 1 / 0). -/
theorem deleteMask_atoms (a : Atoms) (r : DeleteRaw) (mask : List Bool) (h : a.deleteMask mask = .ok r) :
    mask.length = a.atoms.length
    ∧ r.atoms = ((a.atoms.zipIdx).filter (fun p => !(mask.getD p.2 false))).map (·.1) := by
  unfold Atoms.deleteMask at h
  split at h
  · cases h
  · rename_i hlen
    have hlen' : mask.length = a.atoms.length := by simpa using hlen
    cases h
    refine ⟨hlen', ?_⟩
    simp only [deleteIdx, deleteIdx_go_eq]
    congr 1
    apply List.filter_congr
    intro p hp
    have hlt : p.2 < mask.length := by
      have := List.mem_zipIdx hp
      omega
    simp [hlt]

/-! ### the failing inputs -/

/-- the structure of Props/C10.lean: 4 atoms, bonds (0,1) (2,3) (3,0) -/
example : ∃ r, exC10.deleteRaw [-1] = .ok r ∧ r.atoms.length = 3
    ∧ r.bonds = [⟨[-1, 0], 0, []⟩, ⟨[1, 2], 1, []⟩, ⟨[2, -1], 0, []⟩] :=
  ⟨_, rfl, by decide, by decide⟩

/-- a repeated index: atom 1 went once, bonds on it went, but the survivors were lowered twice -/
example : ∃ r, exC10.deleteRaw [1, 1] = .ok r ∧ r.atoms.length = 3
    ∧ r.bonds = [⟨[1, 1], 1, []⟩, ⟨[1, 0], 0, []⟩] :=
  ⟨_, rfl, by decide, by decide⟩

/-- the same atom listed once as 1 and once as −3: distinct raw integers, so `deleteRaw_entry` applies -/
example : ([1, -3] : List Int).Nodup ∧ ∃ r, exC10.deleteRaw [1, -3] = .ok r ∧ r.atoms.length = 3
    ∧ r.bonds = [⟨[0, 1], 1, []⟩, ⟨[1, -1], 0, []⟩] :=
  ⟨by decide, _, rfl, by decide, by decide⟩

/-- a mask: atoms 0 and 3 go; the term code saw the integers 1, 0, 0, 1 -/
example : ∃ r, exC10.deleteMask [true, false, false, true] = .ok r ∧ r.atoms.length = 2 ∧ r.bonds = [⟨[0, 0], 1, []⟩] :=
  ⟨_, rfl, by decide, by decide⟩

end Mofun
