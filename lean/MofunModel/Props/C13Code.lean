/-
  C13Code.lean — the file-type DISPATCH of `Atoms.load` / `Atoms.save` (mofun/atoms.py), re-translated from the python
  source text on every run by harness/gen_code.py (Generated/Code.lean: which reader / writer is called for which
  filetype / file object / path extension, or which `raise`), IS the model's `resolveType` + `loadsLmp` / `savesLmp`
  (Model/Lmp.lean, C13; the same dispatch serves the CIF and CML checks C15 / C16 and the CLI C20).
-/
import MofunModel.Generated.Code
import MofunModel.Model.Lmp

namespace Mofun.C13Code
open Mofun Mofun.Generated Mofun.Lmp
set_option linter.unusedSimpArgs false

/-- the model's view of the first argument: an open text file, or a path with the extension
    `os.path.splitext(path)[1][1:]` -/
def targetOf (isFile : Bool) (split : String × String) : Target :=
  if isFile then .fileObj else .path (Py.strDrop split.2 1)

/-- which reader a resolved file type selects -/
def loadSiteOf (ft : String) : Option String :=
  if ft = "lmpdat" then some "cls.load_lmpdat" else if ft = "cml" then some "cls.load_cml"
  else if ft = "cif" then some "cls.load_p1_cif" else none

/-- which writer -/
def saveSiteOf (ft : String) : Option String :=
  if ft = "lmpdat" then some "self.save_lmpdat" else if ft = "mol" then some "self.save_raspa_mol"
  else if ft = "cif" then some "self.save_p1_cif" else none

/-- for ALL arguments: translated `Atoms.load` reaches the reader of the model's resolved type (explicit filetype first,
    else the path extension; a file object without filetype raises; any other type raises) -/
theorem atomsLoadSite_eq (ft : Option String) (isFile : Bool) (split : String × String) :
    Generated.Code.atomsLoadSite ft isFile split =
      match resolveType (targetOf isFile split) ft with
      | .error _ => none
      | .ok t => loadSiteOf t := by
  unfold Generated.Code.atomsLoadSite targetOf resolveType loadSiteOf
  cases isFile <;> cases ft <;> simp <;> (repeat' split) <;> simp_all

theorem atomsSaveSite_eq (ft : Option String) (isFile : Bool) (split : String × String) :
    Generated.Code.atomsSaveSite ft isFile split =
      match resolveType (targetOf isFile split) ft with
      | .error _ => none
      | .ok t => saveSiteOf t := by
  unfold Generated.Code.atomsSaveSite targetOf resolveType saveSiteOf
  cases isFile <;> cases ft <;> simp <;> (repeat' split) <;> simp_all

/-- the model's `loadsLmp` (does the call reach `load_lmpdat`) read off the translated dispatch -/
theorem loadsLmp_eq (ft : Option String) (isFile : Bool) (split : String × String) :
    (match loadsLmp (targetOf isFile split) ft with
      | .ok b => some b
      | .error _ => none) = (Generated.Code.atomsLoadSite ft isFile split).map (· == "cls.load_lmpdat") := by
  rw [atomsLoadSite_eq]
  unfold loadsLmp loadSiteOf
  cases resolveType (targetOf isFile split) ft with
  | error e => rfl
  | ok t => simp only []; (repeat' split) <;> simp_all

theorem savesLmp_eq (ft : Option String) (isFile : Bool) (split : String × String) :
    (match savesLmp (targetOf isFile split) ft with
      | .ok b => some b
      | .error _ => none) = (Generated.Code.atomsSaveSite ft isFile split).map (· == "self.save_lmpdat") := by
  rw [atomsSaveSite_eq]
  unfold savesLmp saveSiteOf
  cases resolveType (targetOf isFile split) ft with
  | error e => rfl
  | ok t => simp only []; (repeat' split) <;> simp_all

example : Generated.Code.atomsLoadSite none false ("a/b", ".cml") = some "cls.load_cml" := by decide
example : Generated.Code.atomsSaveSite none false ("a/b", ".cml") = none := by decide
example : Generated.Code.atomsSaveSite (some "cif") true ("", "") = some "self.save_p1_cif" := by decide

end Mofun.C13Code
