/-
  C13Code.lean — the file-type DISPATCH of `Atoms.load` / `Atoms.save` (mofun/atoms.py), re-translated from the python
  source text on every run by harness/gen_code.py (Generated/Code.lean: which reader / writer is called for which
  filetype / file object / path extension, or which `raise`), IS the model's `resolveType` + `loadsLmp` / `savesLmp`
  (Model/Lmp.lean, C13; the same dispatch serves the CIF and CML checks C15 / C16 and the CLI C20).
-/
import MofunModel.Generated.Code
import MofunModel.Model.Lmp

namespace Mofun.C13Code
open Mofun Mofun.Generated Mofun.Lmp
set_option linter.unusedSimpArgs false

/-- the model's view of the first argument: an open text file, or a path with the extension
    `os.path.splitext(path)[1][1:]` -/
def targetOf (isFile : Bool) (split : String × String) : Target :=
  if isFile then .fileObj else .path (Py.strDrop split.2 1)

/-- which reader a resolved file type selects -/
def loadSiteOf (ft : String) : Option String :=
  if ft = "lmpdat" then some "cls.load_lmpdat" else if ft = "cml" then some "cls.load_cml"
  else if ft = "cif" then some "cls.load_p1_cif" else none

/-- which writer -/
def saveSiteOf (ft : String) : Option String :=
  if ft = "lmpdat" then some "self.save_lmpdat" else if ft = "mol" then some "self.save_raspa_mol"
  else if ft = "cif" then some "self.save_p1_cif" else none

/-- for ALL arguments: translated `Atoms.load` reaches the reader of the model's resolved type (explicit filetype first,
    else the path extension; a file object without filetype raises; any other type raises) -/
theorem atomsLoadSite_eq (ft : Option String) (isFile : Bool) (split : String × String) :
    Generated.Code.atomsLoadSite ft isFile split =
      match resolveType (targetOf isFile split) ft with
      | .error _ => none
      | .ok t => loadSiteOf t := by
  unfold Generated.Code.atomsLoadSite targetOf resolveType loadSiteOf
  cases isFile <;> cases ft <;> simp <;> (repeat' split) <;> simp_all

theorem atomsSaveSite_eq (ft : Option String) (isFile : Bool) (split : String × String) :
    Generated.Code.atomsSaveSite ft isFile split =
      match resolveType (targetOf isFile split) ft with
      | .error _ => none
      | .ok t => saveSiteOf t := by
  unfold Generated.Code.atomsSaveSite targetOf resolveType saveSiteOf
  cases isFile <;> cases ft <;> simp <;> (repeat' split) <;> simp_all

/-- the model's `loadsLmp` (does the call reach `load_lmpdat`) read off the translated dispatch -/
theorem loadsLmp_eq (ft : Option String) (isFile : Bool) (split : String × String) :
    (match loadsLmp (targetOf isFile split) ft with
      | .ok b => some b
      | .error _ => none) = (Generated.Code.atomsLoadSite ft isFile split).map (· == "cls.load_lmpdat") := by
  rw [atomsLoadSite_eq]
  unfold loadsLmp loadSiteOf
  cases resolveType (targetOf isFile split) ft with
  | error e => rfl
  | ok t => simp only []; (repeat' split) <;> simp_all

theorem savesLmp_eq (ft : Option String) (isFile : Bool) (split : String × String) :
    (match savesLmp (targetOf isFile split) ft with
      | .ok b => some b
      | .error _ => none) = (Generated.Code.atomsSaveSite ft isFile split).map (· == "self.save_lmpdat") := by
  rw [atomsSaveSite_eq]
  unfold savesLmp saveSiteOf
  cases resolveType (targetOf isFile split) ft with
  | error e => rfl
  | ok t => simp only []; (repeat' split) <;> simp_all

example : Generated.Code.atomsLoadSite none false ("a/b", ".cml") = some "cls.load_cml" := by decide
example : Generated.Code.atomsSaveSite none false ("a/b", ".cml") = none := by decide
example : Generated.Code.atomsSaveSite (some "cif") true ("", "") = some "self.save_p1_cif" := by decide

/-! ### lines of `load_lmpdat` (fourth batch; repairs ad79a2b, 375e8ae) -/

/-- `masses.sort(key=lambda m: m[0])`: the stable insertion by the integer type id of the model -/
theorem insertByKey_eq {β} (x : Int × β) (l : List (Int × β)) :
    Py.insertByKey (fun m : Int × β => m.1) x l = Lmp.insertById x l := by
  induction l with
  | nil => rfl
  | cons y ys ih => simp only [Py.insertByKey, Lmp.insertById, ih]

/-- for ALL Masses entries: the translated sort is the model's `sortById` (ascending type id, equal ids keep their order) -/
theorem lmpSortMasses_eq (l : List (Int × String × Option String)) :
    Generated.Code.lmpSortMasses l = Lmp.sortById l := by
  unfold Generated.Code.lmpSortMasses Py.sortByKey Lmp.sortById
  induction l with
  | nil => rfl
  | cons x xs ih => simp only [List.foldr_cons] at ih ⊢; rw [ih, insertByKey_eq]

/-- `"#" in unprocessed_line` -/
theorem lmpHasComment_eq (s : String) : Generated.Code.lmpHasComment s = Lmp.hasHash s := by
  unfold Generated.Code.lmpHasComment Lmp.hasHash
  induction s.toList with
  | nil => rfl
  | cons c cs ih =>
    simp only [List.contains_cons, List.any_cons, ih]
    rw [Bool.beq_comm]

theorem splitAtFirst_eq (l : List Char) : Py.splitAtFirst '#' l = Lmp.splitHash l := by
  induction l with
  | nil => rfl
  | cons c cs ih => simp only [Py.splitAtFirst, Lmp.splitHash, ih]

/-- `line, comment = unprocessed_line.split('#', 1)`: the data part is the text before the FIRST `#` … -/
theorem lmpLineBeforeComment_eq (s : String) :
    Generated.Code.lmpLineBeforeComment s =
      (Lmp.splitHash s.toList).2.map (fun _ => String.ofList (Lmp.splitHash s.toList).1) := by
  unfold Generated.Code.lmpLineBeforeComment Py.strSplit1?
  rw [splitAtFirst_eq]
  rcases h : Lmp.splitHash s.toList with ⟨a, _ | b⟩ <;> simp [h]

/-- … and the comment is everything after it, further `#` included (the model's `splitHash`) -/
theorem lmpCommentOf_eq (s : String) :
    Generated.Code.lmpCommentOf s = (Lmp.splitHash s.toList).2.map String.ofList := by
  unfold Generated.Code.lmpCommentOf Py.strSplit1?
  rw [splitAtFirst_eq]
  rcases h : Lmp.splitHash s.toList with ⟨a, _ | b⟩ <;> simp [h]


example : Generated.Code.lmpCommentOf "1 12.011 # C_R # aromatic" = some " C_R # aromatic" := by decide
example : Generated.Code.lmpSortMasses [(2, "1.008", none), (1, "12.011", some "C")] = [(1, "12.011", some "C"), (2, "1.008", none)] := by
  decide

end Mofun.C13Code
