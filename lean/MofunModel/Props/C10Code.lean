/-
  C10Code.lean — the GENERATED translation of `Atoms.pop` (mofun/atoms.py: `del(self[[pos % len(self)]])`,
  re-translated from the python source text on every run by harness/gen_code.py into Generated/Code.lean) hands
  `__delitem__` exactly the index the model's `Atoms.pop` (Model/Topo.lean, C10) deletes — python `%` semantics for
  negative `pos` included, ZeroDivisionError on an empty structure included.
-/
import MofunModel.Proofs.Code2Topo
import MofunModel.Proofs.Code3Topo
import MofunModel.Proofs.Code4Topo

namespace Mofun.C10Code
open Mofun Mofun.Generated Mofun.Code2Topo
set_option linter.unusedSimpArgs false

/-- the index list of `pop`, for ALL lengths and ALL (also negative) positions -/
theorem popIndex_eq (n : Nat) (pos : Int) :
    Generated.Code.popIndex n pos = if n = 0 then none else some [pos % (n : Int)] := by
  unfold Generated.Code.popIndex
  by_cases h : n = 0
  · subst h; simp [intMod?_zero]
  · simp [h, intMod?_pos pos n h]

/-- the model's `pop` is `delete` of the generated index; its error is the generated `none` -/
theorem pop_eq (a : Atoms) (pos : Int) :
    a.pop pos = match Generated.Code.popIndex a.atoms.length pos with
      | none => .error .index
      | some idx => a.delete (idx.map Int.toNat) := by
  rw [popIndex_eq]
  unfold Atoms.pop
  cases h : a.atoms with
  | nil => simp
  | cons x xs => simp

/-- the index is inside the structure -/
theorem popIndex_in_range (n : Nat) (pos : Int) (idx : List Int) (h : Generated.Code.popIndex n pos = some idx) :
    ∀ i ∈ idx, 0 ≤ i ∧ i < (n : Int) := by
  rw [popIndex_eq] at h
  by_cases hn : n = 0
  · simp [hn] at h
  · simp only [hn, if_false, Option.some.injEq] at h
    subst h
    intro i hi
    simp only [List.mem_singleton] at hi
    subst hi
    have : (0 : Int) < (n : Int) := by omega
    exact ⟨Int.emod_nonneg _ (by omega), Int.emod_lt_of_pos _ this⟩

theorem default_pos : Generated.Code.popIndex_default_pos = -1 := rfl

/-- `pop()` of a 5-atom structure deletes atom 4; `pop(-7)` deletes atom 3 -/
example : Generated.Code.popIndex 5 (-1) = some [4] := by decide
example : Generated.Code.popIndex 5 (-7) = some [3] := by decide
example : Generated.Code.popIndex 0 (-1) = none := by decide

/-! ### `_delete_and_reindex_atom_index_array` (third batch) -/

open Mofun.Code2Terms Mofun.Code3Topo

/-- for ALL index arrays and ALL lists of deleted indices: the translated helper returns (the rows without a deleted
    atom, every entry re-indexed by the model's `reindex`; the positions of the dropped rows) -/
theorem deleteAndReindex_eq (arr : List (List Nat)) (sd : List Nat) :
    Generated.Code.deleteAndReindex arr sd =
      ((arr.filter (fun t => !(t.any (fun a => sd.contains a)))).map (fun row => row.map (reindex sd)),
       ((arr.zipIdx).filter (fun p => p.1.any (fun a => sd.contains a))).map (·.2)) := by
  unfold Generated.Code.deleteAndReindex Py.npDelete Py.enumerate
  simp only [forFold_eq_foldl]
  have e : ∀ (acc : List Nat) (p : Nat × List Nat),
      (if (List.any (List.map (fun a => List.contains sd a) p.2) id) = true then acc ++ [p.1] else acc) =
        if (p.2.any (fun a => sd.contains a)) then acc ++ [p.1] else acc := by
    intro acc p; simp [List.any_map]
  have := collect_eq (fun t : List Nat => t.any (fun a => sd.contains a)) arr 0 []
  simp only [List.nil_append] at this
  have h2 := deleteIdx_collected (fun t : List Nat => t.any (fun a => sd.contains a)) arr
  try simp only [] at h2
  simp only [e, this, reindex_fold, h2]
/-- the rows `_delete_and_reindex_atom_index_array` returns for a term table are the atom tuples of the model's `deleteTerms` -/
theorem deleteTerms_atoms (ts : List Term) (idx : List Nat) :
    (Generated.Code.deleteAndReindex (ts.map (·.atoms)) (sortDesc idx)).1 = (deleteTerms ts idx).map (·.atoms) := by
  rw [deleteAndReindex_eq]
  simp only [deleteTerms, contains_sortDesc, List.filter_map, List.map_map]
  rfl

/-- deleting the returned row indices from a parallel array (types, extra fields) keeps exactly the entries of the
    surviving terms -/
theorem deleteTerms_parallel {β} (g : Term → β) (ts : List Term) (idx : List Nat) :
    Generated.Py.npDelete (ts.map g) (Generated.Code.deleteAndReindex (ts.map (·.atoms)) (sortDesc idx)).2 =
      (ts.filter (fun t => !(t.atoms.any (fun a => idx.contains a)))).map g := by
  rw [deleteAndReindex_eq]
  simp only [Generated.Py.npDelete, contains_sortDesc]
  rw [zipIdx_collect_map (fun t : Term => t.atoms) (fun r => r.any (fun a => idx.contains a)) ts, deleteIdx_map]
  have h := deleteIdx_collected (fun t : Term => t.atoms.any (fun a => idx.contains a)) ts
  rw [h]

/-- in particular the type ids and the extra columns that `__delitem__` filters with the returned row indices are those
    of the model's surviving terms -/
theorem deleteTerms_types (ts : List Term) (idx : List Nat) :
    Generated.Py.npDelete (ts.map (·.ty)) (Generated.Code.deleteAndReindex (ts.map (·.atoms)) (sortDesc idx)).2 =
      (deleteTerms ts idx).map (·.ty) := by
  rw [deleteTerms_parallel]
  simp [deleteTerms, List.map_map, Function.comp_def]

theorem deleteTerms_extra (ts : List Term) (idx : List Nat) :
    Generated.Py.npDelete (ts.map (·.extra)) (Generated.Code.deleteAndReindex (ts.map (·.atoms)) (sortDesc idx)).2 =
      (deleteTerms ts idx).map (·.extra) := by
  rw [deleteTerms_parallel]
  simp [deleteTerms, List.map_map, Function.comp_def]

example : Generated.Code.deleteAndReindex [[0, 1], [1, 2], [2, 3]] [1] = ([[1, 2]], [0, 1]) := by decide

/-! ### the index set `__delitem__` hands to the term code (fourth batch; repair ee36d79) -/

open Mofun.Code4Topo

/-- for ALL index lists numpy accepts (every entry in `[-n, n)`): the translated
    `sorted({i % num_atoms for i in indices}, reverse=True)` is the model's normalised index SET — negative indices
    read from the end, repeats collapsed — sorted downwards (as `deleteTerms` sorts it) -/
theorem delitemSortedIndices_eq (n : Nat) (idx : List Int) (h : ∀ i ∈ idx, (normIdx n i).isSome) :
    Generated.Code.delitemSortedIndices n idx =
      some ((sortDesc (dedup (idx.filterMap (normIdx n)))).map Int.ofNat) := by
  unfold Generated.Code.delitemSortedIndices
  try simp only []
  rw [mapM_normIdx n idx h]
  simp only [bind, pure, Option.bind_some, Option.bind_eq_bind, dedup_map_ofNat, sortedDesc_map_ofNat]

/-- the model's `deleteNorm` deletes exactly the index set the translated line computes -/
theorem deleteNorm_indices (a : Atoms) (idx : List Int) (h : ∀ i ∈ idx, (normIdx a.atoms.length i).isSome) :
    ∃ L, Generated.Code.delitemSortedIndices a.atoms.length idx = some ((sortDesc L).map Int.ofNat) ∧
      a.deleteNorm idx = a.delete L := by
  refine ⟨dedup (idx.filterMap (normIdx a.atoms.length)), delitemSortedIndices_eq _ _ h, ?_⟩
  unfold Atoms.deleteNorm
  have : idx.any (fun i => (normIdx a.atoms.length i).isNone) = false := by
    rw [List.any_eq_false]
    intro i hi
    have := h i hi
    cases hn : normIdx a.atoms.length i <;> simp_all
  simp [this]

/-- `del a[[-1, 4, -1]]` on five atoms hands `[4]` to the term code, `del a[[-2, 0]]` hands `[3, 0]` -/
example : Generated.Code.delitemSortedIndices 5 [-1, 4, -1] = some [4] := by decide
example : Generated.Code.delitemSortedIndices 5 [-2, 0] = some [3, 0] := by decide

end Mofun.C10Code
