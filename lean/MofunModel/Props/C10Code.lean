/-
  C10Code.lean — the GENERATED translation of `Atoms.pop` (mofun/atoms.py: `del(self[[pos % len(self)]])`,
  re-translated from the python source text on every run by harness/gen_code.py into Generated/Code.lean) hands
  `__delitem__` exactly the index the model's `Atoms.pop` (Model/Topo.lean, C10) deletes — python `%` semantics for
  negative `pos` included, ZeroDivisionError on an empty structure included.
-/
import MofunModel.Proofs.Code2Topo

namespace Mofun.C10Code
open Mofun Mofun.Generated Mofun.Code2Topo
set_option linter.unusedSimpArgs false

/-- the index list of `pop`, for ALL lengths and ALL (also negative) positions -/
theorem popIndex_eq (n : Nat) (pos : Int) :
    Generated.Code.popIndex n pos = if n = 0 then none else some [pos % (n : Int)] := by
  unfold Generated.Code.popIndex
  by_cases h : n = 0
  · subst h; simp [intMod?_zero]
  · simp [h, intMod?_pos pos n h]

/-- the model's `pop` is `delete` of the generated index; its error is the generated `none` -/
theorem pop_eq (a : Atoms) (pos : Int) :
    a.pop pos = match Generated.Code.popIndex a.atoms.length pos with
      | none => .error .index
      | some idx => a.delete (idx.map Int.toNat) := by
  rw [popIndex_eq]
  unfold Atoms.pop
  cases h : a.atoms with
  | nil => simp
  | cons x xs => simp

/-- the index is inside the structure -/
theorem popIndex_in_range (n : Nat) (pos : Int) (idx : List Int) (h : Generated.Code.popIndex n pos = some idx) :
    ∀ i ∈ idx, 0 ≤ i ∧ i < (n : Int) := by
  rw [popIndex_eq] at h
  by_cases hn : n = 0
  · simp [hn] at h
  · simp only [hn, if_false, Option.some.injEq] at h
    subst h
    intro i hi
    simp only [List.mem_singleton] at hi
    subst hi
    have : (0 : Int) < (n : Int) := by omega
    exact ⟨Int.emod_nonneg _ (by omega), Int.emod_lt_of_pos _ this⟩

theorem default_pos : Generated.Code.popIndex_default_pos = -1 := rfl

/-- `pop()` of a 5-atom structure deletes atom 4; `pop(-7)` deletes atom 3 -/
example : Generated.Code.popIndex 5 (-1) = some [4] := by decide
example : Generated.Code.popIndex 5 (-7) = some [3] := by decide
example : Generated.Code.popIndex 0 (-1) = none := by decide

end Mofun.C10Code
