/-
  C12Code6.lean — the parts of `Atoms.replicate` (mofun/atoms.py) that the first translation left out, re-translated
  from the python source text on every run by harness/gen_code6.py into Generated/Code6.lean:
  * `replicateMults`: the image multipliers IN THE ORDER OF THE LOOP, `np.array(np.meshgrid(*[range(r) for r in
    repldims])).T.reshape(-1, 3)` with `[0, 0, 0]` removed — the model's `ucMults` (Model/Topo.lean), hence (with
    Proofs/ReplicateLemmas.lean) the unit cell plus these images is a permutation of the index box;
  * `replicateShift`: the translation vector of one image, `np.matmul(transatoms.cell.T, ucmult)` — `cell.lattice i j k`;
  * `replicateOffsets`: the `offsets=(0,0,0,0,0)` of every `extend` — `Offsets.zero`;
  and the model's `Atoms.replicate` is the fold of `extend` over exactly these generated pieces (`replicate_generated`).
-/
import MofunModel.Generated.Code6
import MofunModel.Proofs.ReplicateLemmas
import MofunModel.Props.C12Code

namespace Mofun.C12Code6
open Mofun Mofun.Generated
set_option linter.unusedSimpArgs false

/-- the prelude's `meshgrid…T.reshape(-1, 3)` of three ranges is the model's grid -/
theorem meshgridT3_range (da db dc : Nat) :
    Py6.meshgridT3 (List.range da) (List.range db) (List.range dc) = grid da db dc := rfl

private theorem ne_zero3 (m : Nat × Nat × Nat) : (m.1 != 0 || m.2.1 != 0 || m.2.2 != 0) = (m != (0, 0, 0)) := by
  obtain ⟨i, j, k⟩ := m
  rw [Bool.eq_iff_iff]
  simp only [Bool.or_eq_true, bne_iff_ne, ne_eq, Prod.mk.injEq, not_and]
  omega

/-- **replicateMults_eq** — for ALL replication factors the translated multiplier list is the model's `ucMults`, in the
    same order -/
theorem replicateMults_eq (da db dc : Nat) : Code6.replicateMults (da, db, dc) = ucMults da db dc := by
  unfold Code6.replicateMults Py6.rowsAnyNonzero3
  simp only [meshgridT3_range, ucMults_eq]
  apply List.filter_congr
  intro m _
  exact ne_zero3 m

/-- the unit cell itself followed by the translated multipliers is a permutation of the index box `[0,da)×[0,db)×[0,dc)` -/
theorem replicateMults_perm (da db dc : Nat) (ha : 0 < da) (hb : 0 < db) (hc : 0 < dc) :
    ((0, 0, 0) :: Code6.replicateMults (da, db, dc)).Perm (grid da db dc) := by
  rw [replicateMults_eq]; exact ucMults_perm da db dc ha hb hc

/-- every triple of the box occurs exactly once among the unit cell and the translated images -/
theorem replicateMults_count (da db dc i j k : Nat) (hi : i < da) (hj : j < db) (hk : k < dc) :
    ((0, 0, 0) :: Code6.replicateMults (da, db, dc)).count (i, j, k) = 1 := by
  rw [(replicateMults_perm da db dc (by omega) (by omega) (by omega)).count_eq, grid_count da db dc i j k hi hj hk]

/-- **replicateShift_eq** — `np.matmul(cell.T, (i, j, k)) = i·A + j·B + k·C` (the ROWS of the cell are the lattice vectors) -/
theorem replicateShift_eq (cell : Mat3) (m : Nat × Nat × Nat) :
    Code6.replicateShift cell m = cell.lattice m.1 m.2.1 m.2.2 := by
  unfold Code6.replicateShift Mat3.lattice Vec3.add Vec3.smul
  simp [Rat.mul_comm]

theorem replicateOffsets_eq : Code6.replicateOffsets = (0, 0, 0, 0, 0) := rfl

/-- the five offsets as the model's record -/
def offsetsOf (o : Nat × Nat × Nat × Nat × Nat) : Offsets := ⟨o.1, o.2.1, o.2.2.1, o.2.2.2.1, o.2.2.2.2⟩

theorem replicateOffsets_zero : offsetsOf Code6.replicateOffsets = Offsets.zero := rfl

theorem default_repldims : Code6.replicateMults_default_repldims = (1, 1, 1) := rfl

/-- **replicate_generated** — the model's `Atoms.replicate` is: no cell → error; otherwise fold, over the TRANSLATED
    multiplier list in its order, `extend` of a copy translated by the TRANSLATED vector with the TRANSLATED offsets and
    no index map; then the TRANSLATED cell (Generated/Code.lean `replicateCell`) -/
theorem replicate_generated (a : Atoms) (da db dc : Nat) :
    a.replicate da db dc =
      match a.cell with
      | none => .error .nocell
      | some cell =>
        let step := fun (acc : Except Err Atoms) (m : Nat × Nat × Nat) =>
          match acc with
          | .error e => .error e
          | .ok r => r.extend (a.translate (Code6.replicateShift cell m)) (some (offsetsOf Code6.replicateOffsets)) []
        match (Code6.replicateMults (da, db, dc)).foldl step (.ok a) with
        | .error e => .error e
        | .ok r => .ok { r with cell := some (Code.replicateCell cell (da, db, dc)) } := by
  unfold Atoms.replicate
  cases hc : a.cell with
  | none => rfl
  | some cell =>
    simp only [replicateMults_eq, replicateShift_eq, replicateOffsets_zero, C12Code.replicateCell_eq]
    rfl

/-! ### concrete runs -/

/-- `replicate((2, 3, 2))`: z slowest, then x, then y — the order numpy produces (pinned by a python assertion in
    tools/gen_code6_selftest.py) -/
example : Code6.replicateMults (2, 3, 2) =
    [(0, 1, 0), (0, 2, 0), (1, 0, 0), (1, 1, 0), (1, 2, 0),
     (0, 0, 1), (0, 1, 1), (0, 2, 1), (1, 0, 1), (1, 1, 1), (1, 2, 1)] := by decide
example : Code6.replicateMults (1, 1, 1) = [] := by decide
example : Code6.replicateMults (2, 1, 0) = [] := by decide
example : Code6.replicateShift ⟨⟨1, 2, 3⟩, ⟨4, 5, 6⟩, ⟨7, 8, 10⟩⟩ (1, 0, 2) = ⟨15, 18, 23⟩ := by decide +kernel

end Mofun.C12Code6
