/-
  C03Code7.lean — seventh translator batch, the defaults of the hints (harness/gen_code.py, Generated/Code.lean), tied to the model:

    if axisp1_idx is None and axisp2_idx is None:   axisp1_idx, axisp2_idx = np.unravel_index(np.argmax(p_ss, axis=None), p_ss.shape)
    elif axisp1_idx is None or axisp2_idx is None:  axisp1_idx = axisp2_idx if axisp1_idx is None else axisp1_idx
                                                    axisp2_idx = np.argmax(p_ss[axisp1_idx, :])
        = `resolveAxis` (Model/Find.lean): which branch is taken and which index becomes axisp1 for each None-pattern of the hints.
  The two arg-max computations are PARAMETERS of the translation (`farthest_pair`, `farthest_from`); the model's values for them
  are `farthestPair` / `farthestFrom` (Proofs/Code7Find.lean).
-/
import MofunModel.Proofs.Code7Find

namespace Mofun.C03Code7
open Mofun Mofun.Generated Mofun.Code7Find
set_option linter.unusedSimpArgs false

/-- for ALL hints and ALL values of the two arg-max abstractions: both hints missing → the farthest pair; exactly one missing → the
    GIVEN one becomes axisp1 (whichever of the two it was) and axisp2 is the point farthest from it; both given → unchanged -/
theorem findAxisHints_cases (h1 h2 : Option Nat) (pair : Nat × Nat) (far : Option Nat → Nat) :
    Code.findAxisHints h1 h2 pair far =
      match h1, h2 with
      | none, none => (some pair.1, some pair.2)
      | some a, none => (some a, some (far (some a)))
      | none, some b => (some b, some (far (some b)))
      | some a, some b => (some a, some b) := by
  cases h1 <;> cases h2 <;> rfl

/-- **tie to the model**: with the model's arg-max values, the hints after the `if … elif …` are `resolveAxis` — never None -/
theorem findAxisHints_eq (pp : List Vec3) (h1 h2 : Option Nat) :
    Code.findAxisHints h1 h2 (farthestPair pp) (farthestFrom pp) =
      (some (resolveAxis pp h1 h2).1, some (resolveAxis pp h1 h2).2) := by
  rw [findAxisHints_cases]
  cases h1 <;> cases h2 <;> simp only [resolveAxis, farthestPair, farthestFrom, Option.getD_some] <;> split <;> rfl

example : Code.findAxisHints none (some 2) (7, 8) (fun _ => 9) = (some 2, some 9) := by decide
example : Code.findAxisHints (some 1) none (7, 8) (fun _ => 9) = (some 1, some 9) := by decide
example : Code.findAxisHints none none (7, 8) (fun _ => 9) = (some 7, some 8) := by decide
example : Code.findAxisHints (some 1) (some 2) (7, 8) (fun _ => 9) = (some 1, some 2) := by decide

end Mofun.C03Code7
