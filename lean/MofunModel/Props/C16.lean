/-
  C16 — CML molecules load faithfully.
  Property theorems only (helper lemmas: Proofs/CmlLemmas.lean).  Model: Model/Cml.lean
  (`loadCmlWith table` = `Atoms.load_cml` + the `elements=` branch of the constructor over a mass table,
   `loadCml` = the same with the generated copy of ATOMIC_MASSES).
-/
import MofunModel.Proofs.CmlLemmas

namespace Mofun
open Mofun.Cml

/-- the ids / elements of a document, in document order -/
def cmlIds (atoms : List CmlAtom) : List String := atoms.map (·.id)
def cmlElems (atoms : List CmlAtom) : List String := atoms.map (·.elem)

/-- what a successful load is made of (the `.ok` branch of the model, opened once) -/
theorem loadCmlWith_ok {table : MassTable} {atoms : List CmlAtom} {bonds : List CmlBond} {r : Atoms}
    (h : loadCmlWith table atoms bonds = .ok r) :
    atoms ≠ []
    ∧ (∀ b ∈ bonds, (lastIndexOf? (cmlIds atoms) b.ref1).isSome ∧ (lastIndexOf? (cmlIds atoms) b.ref2).isSome)
    ∧ (∀ e ∈ typesFirstOccurrence (cmlElems atoms), (lookup table e).isSome)
    ∧ r.atoms = atoms.map (fun a =>
        ({ ty := (indexOf? (typesFirstOccurrence (cmlElems atoms)) a.elem).getD 0, pos := a.pos, charge := 0,
           group := 0, extra := [] } : AtomRow))
    ∧ r.bonds.terms = bonds.map (fun b =>
        ({ atoms := [(lastIndexOf? (cmlIds atoms) b.ref1).getD 0, (lastIndexOf? (cmlIds atoms) b.ref2).getD 0],
           ty := 0, extra := [] } : Term))
    ∧ r.typeElems = typesFirstOccurrence (cmlElems atoms)
    ∧ r.typeLabels = typesFirstOccurrence (cmlElems atoms)
    ∧ r.typeMasses = (typesFirstOccurrence (cmlElems atoms)).map (fun e => (lookup table e).getD 0)
    ∧ r.angles.terms = [] ∧ r.dihedrals.terms = [] ∧ r.impropers.terms = [] ∧ r.cell = none := by
  unfold loadCmlWith at h
  split at h
  · cases h
  · rename_i hne
    simp only at h
    split at h
    · cases h
    · rename_i hb
      split at h
      · cases h
      · rename_i hm
        cases h
        refine ⟨?_, ?_, ?_, rfl, ?_, rfl, rfl, ?_, rfl, rfl, rfl, rfl⟩
        · intro he; subst he; simp at hne
        · intro b hbm
          have hb' : ¬ ((resolveBond (atoms.map (·.id)) b).1.isNone || (resolveBond (atoms.map (·.id)) b).2.isNone) = true :=
            fun hc => hb (List.any_eq_true.mpr ⟨_, List.mem_map.mpr ⟨b, hbm, rfl⟩, hc⟩)
          constructor
          · cases h1 : lastIndexOf? (cmlIds atoms) b.ref1 with
            | none => exact absurd (by simp [resolveBond, cmlIds] at h1 ⊢; simp [h1]) hb'
            | some _ => rfl
          · cases h2 : lastIndexOf? (cmlIds atoms) b.ref2 with
            | none => exact absurd (by simp [resolveBond, cmlIds] at h2 ⊢; simp [h2]) hb'
            | some _ => rfl
        · intro e he
          cases hl : lookup table e with
          | none =>
            exact absurd (List.any_eq_true.mpr ⟨_, List.mem_map.mpr ⟨e, he, rfl⟩, by simp [hl]⟩) hm
          | some _ => rfl
        · simp [resolveBond, cmlIds, List.map_map, Function.comp_def]
        · simp [cmlElems, List.map_map, Function.comp_def]

/-- **when loading succeeds**: exactly for documents with at least one atom, whose bond references all name an atom
    id and whose elements all have a mass in the table -/
theorem cml_ok_iff (table : MassTable) (atoms : List CmlAtom) (bonds : List CmlBond) :
    (∃ r, loadCmlWith table atoms bonds = .ok r) ↔
      atoms ≠ [] ∧ (∀ b ∈ bonds, b.ref1 ∈ cmlIds atoms ∧ b.ref2 ∈ cmlIds atoms)
      ∧ (∀ a ∈ atoms, (lookup table a.elem).isSome) := by
  constructor
  · rintro ⟨r, h⟩
    obtain ⟨h1, h2, h3, _⟩ := loadCmlWith_ok h
    refine ⟨h1, ?_, ?_⟩
    · intro b hb
      obtain ⟨ha, hb'⟩ := h2 b hb
      constructor
      · apply Classical.byContradiction; intro hn
        rw [(lastIndexOf?_eq_none_iff _ _).mpr hn] at ha; cases ha
      · apply Classical.byContradiction; intro hn
        rw [(lastIndexOf?_eq_none_iff _ _).mpr hn] at hb'; cases hb'
    · intro a ha
      exact h3 a.elem ((mem_dedup _ _).mpr (List.mem_map.mpr ⟨a, ha, rfl⟩))
  · rintro ⟨h1, h2, h3⟩
    unfold loadCmlWith
    have e1 : atoms.isEmpty = false := by cases atoms with
      | nil => exact absurd rfl h1
      | cons _ _ => rfl
    have e2 : (bonds.map (resolveBond (atoms.map (·.id)))).any (fun p => p.1.isNone || p.2.isNone) = false := by
      apply List.any_eq_false.mpr
      intro p hp
      obtain ⟨b, hb, rfl⟩ := List.mem_map.mp hp
      obtain ⟨ha, hb'⟩ := h2 b hb
      simp only [resolveBond, Bool.or_eq_true, not_or, Option.isNone_iff_eq_none]
      exact ⟨fun hn => (lastIndexOf?_eq_none_iff _ _).mp hn ha, fun hn => (lastIndexOf?_eq_none_iff _ _).mp hn hb'⟩
    have e3 : ((typesFirstOccurrence (atoms.map (·.elem))).map (lookup table)).any (·.isNone) = false := by
      apply List.any_eq_false.mpr
      intro m hm
      obtain ⟨e, he, rfl⟩ := List.mem_map.mp hm
      obtain ⟨a, ha, rfl⟩ := List.mem_map.mp ((mem_dedup _ _).mp he)
      have := h3 a ha
      cases hl : lookup table a.elem with
      | none => rw [hl] at this; cases this
      | some _ => simp
    simp only [e1, e2, e3]
    exact ⟨_, rfl⟩

/-- **cml_spec, atoms.** One atom per atom entry, in document order, at the stated coordinates, and the element its
    type id resolves to in the type table is the stated element (charges and groups are zero). -/
theorem cml_spec_atoms (table : MassTable) (atoms : List CmlAtom) (bonds : List CmlBond) (r : Atoms)
    (h : loadCmlWith table atoms bonds = .ok r) :
    r.atoms.length = atoms.length
    ∧ r.atoms.map (·.pos) = atoms.map (·.pos)
    ∧ r.atoms.map (fun row => r.typeElems[row.ty]?) = atoms.map (fun a => some a.elem)
    ∧ (∀ row ∈ r.atoms, row.charge = 0 ∧ row.group = 0 ∧ row.extra = []) := by
  obtain ⟨_, _, _, hat, _, hty, _⟩ := loadCmlWith_ok h
  rw [hat, hty]
  refine ⟨by simp, by simp [List.map_map, Function.comp_def], ?_, ?_⟩
  · rw [List.map_map]
    apply List.map_congr_left
    intro a ha
    simp only [Function.comp]
    have hmem : a.elem ∈ typesFirstOccurrence (cmlElems atoms) :=
      (mem_dedup _ _).mpr (List.mem_map.mpr ⟨a, ha, rfl⟩)
    obtain ⟨i, hi⟩ := indexOf?_of_mem _ _ hmem
    rw [hi]
    exact indexOf?_getElem _ _ _ hi
  · intro row hrow
    obtain ⟨a, _, rfl⟩ := List.mem_map.mp hrow
    exact ⟨rfl, rfl, rfl⟩

/-- **cml_spec, bonds.** One bond per bond entry, in document order; with unique ids, bond `k` joins the position of
    the atom whose id is its first reference with the position of the atom whose id is its second reference. -/
theorem cml_spec_bonds (table : MassTable) (atoms : List CmlAtom) (bonds : List CmlBond) (r : Atoms)
    (hnd : (cmlIds atoms).Nodup) (h : loadCmlWith table atoms bonds = .ok r) :
    r.bonds.terms.length = bonds.length
    ∧ ∀ (k : Nat) (b : CmlBond), bonds[k]? = some b →
        ∃ i j, indexOf? (cmlIds atoms) b.ref1 = some i ∧ indexOf? (cmlIds atoms) b.ref2 = some j
          ∧ (cmlIds atoms)[i]? = some b.ref1 ∧ (cmlIds atoms)[j]? = some b.ref2
          ∧ r.bonds.terms[k]? = some { atoms := [i, j], ty := 0, extra := [] } := by
  obtain ⟨_, hb, _, _, hbt, _⟩ := loadCmlWith_ok h
  rw [hbt]
  refine ⟨by simp, ?_⟩
  intro k b hk
  obtain ⟨h1, h2⟩ := hb b (List.mem_of_getElem? hk)
  rw [lastIndexOf?_eq_indexOf? _ hnd] at h1 h2
  cases hi : indexOf? (cmlIds atoms) b.ref1 with
  | none => rw [hi] at h1; cases h1
  | some i =>
    cases hj : indexOf? (cmlIds atoms) b.ref2 with
    | none => rw [hj] at h2; cases h2
    | some j =>
      refine ⟨i, j, rfl, rfl, indexOf?_getElem _ _ _ hi, indexOf?_getElem _ _ _ hj, ?_⟩
      simp [List.getElem?_map, hk, lastIndexOf?_eq_indexOf? _ hnd, hi, hj]

/-- **cml_spec, "whatever the spelling of the ids".** Renaming every id and every reference by a function that is
    injective on the ids and references of the document changes nothing in the result (no uniqueness needed). -/
theorem cml_rename_invariant (table : MassTable) (atoms : List CmlAtom) (bonds : List CmlBond)
    (f : String → String)
    (hinj : ∀ x ∈ cmlIds atoms, ∀ b ∈ bonds, (f x = f b.ref1 → x = b.ref1) ∧ (f x = f b.ref2 → x = b.ref2)) :
    loadCmlWith table (renameAtoms f atoms) (renameBonds f bonds) = loadCmlWith table atoms bonds := by
  have hids : (renameAtoms f atoms).map (·.id) = (atoms.map (·.id)).map f := by
    simp [renameAtoms, List.map_map, Function.comp_def]
  have hel : (renameAtoms f atoms).map (·.elem) = atoms.map (·.elem) := by
    simp [renameAtoms, List.map_map, Function.comp_def]
  have hres : (renameBonds f bonds).map (resolveBond ((atoms.map (·.id)).map f))
      = bonds.map (resolveBond (atoms.map (·.id))) := by
    unfold renameBonds
    rw [List.map_map]
    apply List.map_congr_left
    intro b hb
    simp only [Function.comp, resolveBond]
    have h1 := lastIndexOf?_map f (cmlIds atoms) b.ref1 (fun y hy => (hinj y hy b hb).1)
    have h2 := lastIndexOf?_map f (cmlIds atoms) b.ref2 (fun y hy => (hinj y hy b hb).2)
    simp only [cmlIds] at h1 h2
    rw [h1, h2]
  have hemp : (renameAtoms f atoms).isEmpty = atoms.isEmpty := by cases atoms <;> rfl
  have hpos : (renameAtoms f atoms).map (fun a =>
        ({ ty := (indexOf? (typesFirstOccurrence (atoms.map (·.elem))) a.elem).getD 0, pos := a.pos, charge := 0,
           group := 0, extra := [] } : AtomRow))
      = atoms.map (fun a =>
        ({ ty := (indexOf? (typesFirstOccurrence (atoms.map (·.elem))) a.elem).getD 0, pos := a.pos, charge := 0,
           group := 0, extra := [] } : AtomRow)) := by
    simp [renameAtoms, List.map_map, Function.comp_def]
  unfold loadCmlWith
  simp only [hids, hel, hres, hemp, hpos]

/-- an injective renaming in the usual sense satisfies the hypothesis above -/
theorem cml_rename_invariant_injective (table : MassTable) (atoms : List CmlAtom) (bonds : List CmlBond)
    (f : String → String) (hinj : ∀ x y, f x = f y → x = y) :
    loadCmlWith table (renameAtoms f atoms) (renameBonds f bonds) = loadCmlWith table atoms bonds :=
  cml_rename_invariant table atoms bonds f (fun x _ b _ => ⟨hinj x b.ref1, hinj x b.ref2⟩)

/-- **cml_no_bonds.** A molecule without bond entries loads (no error) with zero bonds. -/
theorem cml_no_bonds (table : MassTable) (atoms : List CmlAtom) (hne : atoms ≠ [])
    (hel : ∀ a ∈ atoms, (lookup table a.elem).isSome) :
    ∃ r, loadCmlWith table atoms [] = .ok r ∧ r.bonds.terms = [] ∧ r.atoms.length = atoms.length := by
  obtain ⟨r, hr⟩ := (cml_ok_iff table atoms []).mpr ⟨hne, by simp, hel⟩
  obtain ⟨_, _, _, hat, hbt, _⟩ := loadCmlWith_ok hr
  exact ⟨r, hr, by simpa using hbt, by simp [hat]⟩

/-- **types_first_occurrence.** The type table is the list of distinct elements in the order of their first
    occurrence (`dict.fromkeys`): no repetition, the same members, built left to right by appending an element when it
    is seen for the first time; the type id of every atom is the position of its element in that table, and looking
    the id up gives back the stated element; labels are the elements and masses are the table's. -/
theorem types_first_occurrence (table : MassTable) (atoms : List CmlAtom) (bonds : List CmlBond) (r : Atoms)
    (h : loadCmlWith table atoms bonds = .ok r) :
    r.typeElems = typesFirstOccurrence (cmlElems atoms)
    ∧ r.typeElems.Nodup
    ∧ (∀ e, e ∈ r.typeElems ↔ e ∈ cmlElems atoms)
    ∧ (∀ (i : Nat) (a : CmlAtom), atoms[i]? = some a →
        ∃ row : AtomRow, r.atoms[i]? = some row ∧ indexOf? r.typeElems a.elem = some row.ty
          ∧ r.typeElems[row.ty]? = some a.elem)
    ∧ r.typeLabels = r.typeElems
    ∧ r.typeMasses.map some = r.typeElems.map (lookup table) := by
  obtain ⟨_, _, hm, hat, _, hty, hlab, hmass, _⟩ := loadCmlWith_ok h
  rw [hty, hlab, hmass, hat]
  refine ⟨rfl, nodup_dedup _, fun e => mem_dedup _ e, ?_, rfl, ?_⟩
  · intro i a hi
    have hmem : a.elem ∈ typesFirstOccurrence (cmlElems atoms) :=
      (mem_dedup _ _).mpr (List.mem_map.mpr ⟨a, List.mem_of_getElem? hi, rfl⟩)
    obtain ⟨t, ht⟩ := indexOf?_of_mem _ _ hmem
    refine ⟨{ ty := t, pos := a.pos, charge := 0, group := 0, extra := [] },
      by simp [List.getElem?_map, hi, ht], ht, indexOf?_getElem _ _ _ ht⟩
  · rw [List.map_map]
    apply List.map_congr_left
    intro e he
    have := hm e he
    cases hl : lookup table e with
    | none => rw [hl] at this; cases this
    | some v => simp [hl]

/-- the order of the type table: `dict.fromkeys` semantics, one element at a time -/
theorem typesFirstOccurrence_snoc (elems : List String) (e : String) :
    typesFirstOccurrence (elems ++ [e])
      = if e ∈ elems then typesFirstOccurrence elems else typesFirstOccurrence elems ++ [e] :=
  dedup_snoc elems e

/-- a repeated id: the python dict keeps the LAST atom (why the uniqueness guard of `cml_spec_bonds` is needed) -/
theorem cml_repeated_id_last_wins :
    lastIndexOf? ["a1", "a2", "a1"] "a1" = some 2 ∧ indexOf? ["a1", "a2", "a1"] "a1" = some 0 := by decide

/-! ### the element layer: namespaces, foreign elements, malformed entries -/

theorem mapExcept_map_congr {α β} (f : β → Except Err α) (g : β → β) (hg : ∀ e, f (g e) = f e) (l : List β) :
    mapExcept f (l.map g) = mapExcept f l := by
  induction l with
  | nil => rfl
  | cons x xs ih => simp only [List.map_cons, mapExcept, hg, ih]

theorem mapExcept_ok_length {α β} (f : β → Except Err α) (l : List β) (ys : List α) (h : mapExcept f l = .ok ys) :
    ys.length = l.length ∧ ∀ i : Nat, (l[i]?).map f = (ys[i]?).map Except.ok := by
  induction l generalizing ys with
  | nil => unfold mapExcept at h; cases h; simp
  | cons x xs ih =>
    unfold mapExcept at h
    cases hx : f x with
    | error e => rw [hx] at h; cases h
    | ok y =>
      rw [hx] at h
      cases hr : mapExcept f xs with
      | error e => rw [hr] at h; cases h
      | ok zs =>
        rw [hr] at h
        cases h
        obtain ⟨h1, h2⟩ := ih zs hr
        refine ⟨by simp [h1], ?_⟩
        intro i
        cases i with
        | zero => simp [hx]
        | succ j => simpa using h2 j

theorem selectLocal_renamespace (loc : String) (f : CmlElem → Option String) (elems : List CmlElem) :
    selectLocal loc (renamespace f elems) = renamespace f (selectLocal loc elems) := by
  unfold selectLocal renamespace
  rw [List.filter_map]
  rfl

/-- **cml_namespace_invariant.** Moving the element names of a document into any namespaces (none, a default namespace,
    a prefix, different ones for different elements) changes nothing in what is loaded, errors included: only local
    names select the atom and bond entries. -/
theorem cml_namespace_invariant (table : MassTable) (f : CmlElem → Option String) (elems : List CmlElem) :
    loadCmlElemsWith selectLocal table (renamespace f elems) = loadCmlElemsWith selectLocal table elems := by
  have ha : ∀ l, mapExcept atomOf (renamespace f l) = mapExcept atomOf l := fun l =>
    mapExcept_map_congr atomOf (fun e => { e with name := ⟨f e, e.name.loc⟩ }) (fun _ => rfl) l
  have hb : ∀ l, mapExcept bondRawOf (renamespace f l) = mapExcept bondRawOf l := fun l =>
    mapExcept_map_congr bondRawOf (fun e => { e with name := ⟨f e, e.name.loc⟩ }) (fun _ => rfl) l
  unfold loadCmlElemsWith
  rw [selectLocal_renamespace, selectLocal_renamespace, ha, hb]

/-- elements that are neither atom nor bond entries (atomArray, bondArray, propertyList, …) play no role -/
theorem cml_ignores_other_elements (table : MassTable) (elems : List CmlElem) :
    loadCmlElemsWith selectLocal table
        (elems.filter (fun e => decide (e.name.loc = "atom") || decide (e.name.loc = "bond")))
      = loadCmlElemsWith selectLocal table elems := by
  have h1 : selectLocal "atom" (elems.filter (fun e => decide (e.name.loc = "atom") || decide (e.name.loc = "bond")))
      = selectLocal "atom" elems := by
    unfold selectLocal
    rw [List.filter_filter]
    apply List.filter_congr
    intro e _
    by_cases h : e.name.loc = "atom" <;> simp [h]
  have h2 : selectLocal "bond" (elems.filter (fun e => decide (e.name.loc = "atom") || decide (e.name.loc = "bond")))
      = selectLocal "bond" elems := by
    unfold selectLocal
    rw [List.filter_filter]
    apply List.filter_congr
    intro e _
    by_cases h : e.name.loc = "bond" <;> simp [h]
  unfold loadCmlElemsWith
  rw [h1, h2]

/-- **cml_doc_reduces.** A document whose atom elements carry all five attributes and whose bond elements carry
    `atomRefs2` with exactly two known references and an `order` loads exactly as the list of those records does —
    so `cml_spec_atoms`, `cml_spec_bonds`, `cml_rename_invariant`, `cml_no_bonds`, `types_first_occurrence` speak about
    the element layer too. -/
theorem cml_doc_reduces (table : MassTable) (elems : List CmlElem) (atoms : List CmlAtom)
    (raws : List (List String × Rat)) (bonds : List CmlBond)
    (ha : mapExcept atomOf (selectLocal "atom" elems) = .ok atoms) (hne : atoms ≠ [])
    (hr : mapExcept bondRawOf (selectLocal "bond" elems) = .ok raws)
    (hb : mapExcept (bondOf (atoms.map (·.id))) raws = .ok bonds) :
    loadCmlElemsWith selectLocal table elems = loadCmlWith table atoms bonds
    ∧ atoms.length = (selectLocal "atom" elems).length ∧ bonds.length = (selectLocal "bond" elems).length := by
  have e1 : atoms.isEmpty = false := by cases atoms with
    | nil => exact absurd rfl hne
    | cons _ _ => rfl
  refine ⟨by unfold loadCmlElemsWith; simp [ha, e1, hr, hb], (mapExcept_ok_length _ _ _ ha).1, ?_⟩
  rw [(mapExcept_ok_length _ _ _ hb).1, (mapExcept_ok_length _ _ _ hr).1]

/-- what the modelled rejections are: no atom element at all is a ValueError, an atom element lacking one of its five
    attributes a KeyError -/
theorem cml_doc_rejections (table : MassTable) (elems : List CmlElem) :
    (selectLocal "atom" elems = [] → loadCmlElemsWith selectLocal table elems = .error (.reject "value"))
    ∧ (∀ e rest, selectLocal "atom" elems = e :: rest →
        (e.id = none ∨ e.elementType = none ∨ e.x3 = none ∨ e.y3 = none ∨ e.z3 = none) →
        loadCmlElemsWith selectLocal table elems = .error (.reject "key")) := by
  constructor
  · intro h; unfold loadCmlElemsWith; rw [h]; rfl
  · intro e rest h hm
    unfold loadCmlElemsWith
    rw [h]
    have : atomOf e = .error (.reject "key") := by
      unfold atomOf
      rcases hm with h | h | h | h | h <;> (rw [h]; try (split <;> first | rfl | simp_all))
    simp only [mapExcept, this]

/-- without namespaces the lookup before the repair and the present one select the same elements -/
theorem select_agree_without_namespace (loc : String) (elems : List CmlElem) (h : ∀ e ∈ elems, e.name.ns = none) :
    selectUnqualified loc elems = selectLocal loc elems := by
  unfold selectUnqualified selectLocal
  apply List.filter_congr
  intro e he
  have hn := h e he
  cases hname : e.name with
  | mk ns l =>
    rw [hname] at hn
    simp only at hn
    subst hn
    simp

def exNs : Option String := some "http://www.xml-cml.org/schema"

/-- water as Avogadro 2 / Open Babel write it: every element name in the CML namespace -/
def exNsDoc : List CmlElem :=
  [{ name := ⟨exNs, "atomArray"⟩ },
   { name := ⟨exNs, "atom"⟩, id := some "a1", elementType := some "O", x3 := some 0, y3 := some 0, z3 := some 0 },
   { name := ⟨exNs, "atom"⟩, id := some "a2", elementType := some "H", x3 := some 1, y3 := some 0, z3 := some 0 },
   { name := ⟨exNs, "bondArray"⟩ },
   { name := ⟨exNs, "bond"⟩, atomRefs2 := some ["a2", "a1"], order := some 1 }]

def outcome (r : Except Err Atoms) : String :=
  match r with
  | .ok _ => "ok"
  | .error e => e.toString

/-- a result as a decidable value: the error kind (or "ok") and the loaded structure -/
def view (r : Except Err Atoms) : String × Option Atoms := (outcome r, r.toOption)

/-- **the historical defect** (before the namespace repair): `findall('.//atom')` matches only names in no namespace,
    so a document with the CML default namespace yields no atom entry and `zip(*[])` cannot be unpacked (ValueError);
    the present lookup loads it, and loads the same thing as the namespace-free spelling. -/
theorem cml_namespace_unrepaired_counterexample :
    outcome (loadCmlElemsWith selectUnqualified massTable exNsDoc) = "reject:value"
    ∧ outcome (loadCmlDoc exNsDoc) = "ok"
    ∧ view (loadCmlDoc exNsDoc) = view (loadCmlDoc (renamespace (fun _ => none) exNsDoc))
    ∧ (loadCmlDoc exNsDoc).toOption.map (fun r => (r.typeElems, r.bonds.terms.map (·.atoms))) =
        some (["O", "H"], [[1, 0]]) := by
  decide +kernel

/-! ### non-vacuity (the real table) -/

def exAtoms : List CmlAtom :=
  [⟨"a3", "Zr", ⟨1, 2, 3⟩⟩, ⟨"zz", "O", ⟨-1 / 2, 0, 7⟩⟩, ⟨"a1", "Zr", ⟨0, 0, 0⟩⟩, ⟨"7", "H", ⟨1, 1, 1⟩⟩]
def exBonds : List CmlBond := [⟨"a1", "zz", 1⟩, ⟨"7", "a3", 2⟩]

/-- ids whose spelling disagrees with their position; bonds resolved by id; types by first occurrence -/
example : (loadCml exAtoms exBonds).toOption.map (fun r =>
      (r.atoms.map (·.ty), r.bonds.terms.map (·.atoms), r.typeElems)) =
    some ([0, 1, 0, 2], [[2, 1], [3, 0]], ["Zr", "O", "H"]) := by decide +kernel

example : (cmlIds exAtoms).Nodup := by decide

/-- the documented single-metal molecule: one atom, no bonds -/
example : (loadCml [⟨"a1", "Zr", ⟨0, 0, 0⟩⟩] []).toOption.map (fun r => (r.atoms.length, r.bonds.terms.length))
    = some (1, 0) := by decide +kernel

/-- rejections: unknown reference, unknown element, no atom -/
example : outcome (loadCml exAtoms [⟨"a1", "a2", 1⟩]) = "reject:key"
    ∧ outcome (loadCml [⟨"a1", "Xx", ⟨0, 0, 0⟩⟩] []) = "reject:key"
    ∧ outcome (loadCml [] []) = "reject:value"
    ∧ outcome (loadCml exAtoms exBonds) = "ok" := by decide +kernel

/-- malformed entries of the element layer: a bond with three references (ValueError), a bond without order (KeyError),
    an atom without x3 (KeyError); a foreign element named like nothing is ignored -/
example :
    outcome (loadCmlDoc (exNsDoc ++ [{ name := ⟨none, "bond"⟩, atomRefs2 := some ["a1", "a2", "a1"], order := some 1 }])) = "reject:value"
    ∧ outcome (loadCmlDoc (exNsDoc ++ [{ name := ⟨none, "bond"⟩, atomRefs2 := some ["a1", "a2"] }])) = "reject:key"
    ∧ outcome (loadCmlDoc (exNsDoc ++ [{ name := ⟨exNs, "atom"⟩, id := some "a3", elementType := some "H", y3 := some 0, z3 := some 0 }])) = "reject:key"
    ∧ view (loadCmlDoc (exNsDoc ++ [{ name := ⟨some "urn:x", "propertyList"⟩ }])) = view (loadCmlDoc exNsDoc) := by decide +kernel

end Mofun
