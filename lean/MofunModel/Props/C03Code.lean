/-
  C03Code.lean — the window selection of the pattern search, re-translated from the python source text of
  `_get_positions_from_all_adjacent_unit_cells` (mofun/mofun.py) and `Atoms.cell_is_orthorhombic` (mofun/atoms.py) on
  every run by harness/gen_code.py (Generated/Code.lean), IS the model's `nearTest` (Model/Find.lean) on which the
  window-completeness theorems of C02 and the representation-independence theorems of C03 rest:

    cell_is_orthorhombic()                              = Mat3.isOrtho          (numpy expression expanded over the 3x3 cell)
    `if not …cell_is_orthorhombic() or np.any(np.diag(cell) <= 0)`  = ¬ (isOrtho ∧ diagPos)   (which branch filters)
    the box test of the orthorhombic branch             = nearOrtho             (for every rational search distance)

  The plane tests of the other branch use norms (square roots) and are not translated.
-/
import MofunModel.Proofs.Code3Find

namespace Mofun.C03Code
open Mofun Mofun.Generated Mofun.Code3Find
set_option linter.unusedSimpArgs false

/-- for ALL cells: translated `cell_is_orthorhombic` = `Mat3.isOrtho` (the six off-diagonal entries are zero) -/
theorem cellIsOrthorhombic_eq (c : Mat3) : Generated.Code.cellIsOrthorhombic c = c.isOrtho := by
  unfold Generated.Code.cellIsOrthorhombic Mat3.isOrtho
  simp [Bool.and_assoc]
  try simp only [Bool.beq_comm (a := (0 : Rat))]

/-- for ALL cells: the translated guard of the plane-test branch is the negation of the model's guard of the box branch -/
theorem nearUsesPlaneTests_eq (c : Mat3) : Generated.Code.nearUsesPlaneTests c = !(c.isOrtho && c.diagPos) := by
  unfold Generated.Code.nearUsesPlaneTests Mat3.diagPos
  rw [cellIsOrthorhombic_eq]
  cases c.isOrtho <;> simp [decide_le_zero]

/-- the model's `nearTest` dispatches on the translated guard -/
theorem nearTest_dispatch (c : Mat3) (m atol : Rat) (p : Vec3) :
    nearTest c m atol p = if Generated.Code.nearUsesPlaneTests c then nearTri c m atol p else nearOrtho c m atol p := by
  rw [nearUsesPlaneTests_eq]
  unfold nearTest
  cases (c.isOrtho && c.diagPos) <;> simp

/-- for ALL cells, positions, tolerances and every rational pattern length `d ≥ 0`: the translated box test with
    `distance = d + 2·atol` is the model's `nearOrtho` at `m = d²` (each axis bounded by ITS OWN cell length) -/
theorem nearBoxTest_eq (c : Mat3) (d atol : Rat) (hd : 0 ≤ d) (p : Vec3) :
    Generated.Code.nearBoxTest (d + 2 * atol) c p = nearOrtho c (d * d) atol p := by
  unfold Generated.Code.nearBoxTest nearOrtho
  simp only [leSqrt_sq _ d hd, ltSqrt_sq _ d hd]
  rw [Bool.eq_iff_iff]
  simp only [Bool.and_eq_true, decide_eq_true_eq, and_assoc]
  constructor <;> rintro ⟨h1, h2, h3, h4, h5, h6⟩ <;> refine ⟨?_, ?_, ?_, ?_, ?_, ?_⟩ <;> linarith

/-- a cell with two negative diagonal entries is searched with the plane tests (the case of seed C03-w1) -/
example : Generated.Code.nearUsesPlaneTests ⟨⟨-10, 0, 0⟩, ⟨0, -11, 0⟩, ⟨0, 0, 12⟩⟩ = true := by decide +kernel
example : Generated.Code.nearUsesPlaneTests ⟨⟨10, 0, 0⟩, ⟨0, 11, 0⟩, ⟨0, 0, 12⟩⟩ = false := by decide +kernel
/-- a point above b but below c in z is inside the box of a 10 x 8 x 14 cell (the case of seed C03-w2) -/
example : Generated.Code.nearBoxTest 1 ⟨⟨10, 0, 0⟩, ⟨0, 8, 0⟩, ⟨0, 0, 14⟩⟩ ⟨1, 1, 12⟩ = true := by decide +kernel

end Mofun.C03Code
