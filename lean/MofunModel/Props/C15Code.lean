/-
  C15Code.lean — `Atoms.load_p1_cif` (fourth batch; repair efb958d): the function applied to every entry of the charge
  column, extracted from the python source text on every run by harness/gen_code.py (Generated/Code.lean), is the SAME
  number reader as the one applied to the coordinates (`tofloat`, which strips a standard uncertainty) — as in the model's
  `loadParts` (Model/Cif.lean), which reads both columns through `tofloat`.  (A nominal tie: the regular expression inside
  `tofloat` is not translated.)
-/
import MofunModel.Generated.Code

namespace Mofun.C15Code
open Mofun Mofun.Generated

theorem cifChargeReader_eq_coordReader : Generated.Code.cifChargeReader = Generated.Code.cifCoordReader := by decide
theorem cifChargeReader_eq : Generated.Code.cifChargeReader = "tofloat" := by decide

end Mofun.C15Code
