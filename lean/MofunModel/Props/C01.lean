/-
  C01 — every reported match is a genuine rigid-motion image of the pattern (SOUNDNESS of the pattern search).
  Property theorems only.  Model: Model/Find.lean (`find` = `find_pattern_in_structure`, rotation per candidate =
  oracle parameter, `random.choice` = chooser parameter).  Helper lemmas: Proofs/FindSoundLemmas.lean (enumeration
  invariant, decomposition of a match), Proofs/RotLemmas.lean (`rot q` is a proper rotation for `|q|² ≠ 0`),
  Proofs/FindSoundDistinct.lean (distance test vs. periodic images, for `find_distinct`).

  All theorems: ∀ input, ∀ axis index, ∀ oracle, ∀ chooser, ∀ reported match.
-/
import MofunModel.Proofs.FindSoundLemmas
import MofunModel.Proofs.RotLemmas
import MofunModel.Proofs.FindSoundDistinct
import MofunModel.Proofs.FindSoundWrapped

namespace Mofun

/-! ### shape: pattern order, existing atoms, elements -/

/-- **find_shape.** A reported match lists exactly one structure atom per pattern atom, in pattern order; every index
    exists in the structure; the element of the `k`-th listed atom is the element of the `k`-th pattern atom.
    (Guard: the pattern has at least one atom — the code raises on an empty pattern.) -/
theorem find_shape (inp : FindInput) (ax1 : Nat) (oracle : Nat → Nat → Quat) (choose : Nat → List Nat → Nat)
    (hpp : 0 < inp.ppos.length) (m : Match) (hm : m ∈ find inp ax1 oracle choose) :
    m.idx.length = inp.ppos.length ∧ m.pos.length = inp.ppos.length ∧
    ∀ k, k < inp.ppos.length →
      m.idx.getD k 0 < inp.pos.length ∧ inp.elems.getD (m.idx.getD k 0) "" = inp.pelems.getD k "" := by
  obtain ⟨gi, i, c, ⟨hlen, hel, -⟩, -, rfl⟩ := find_witness inp ax1 oracle choose hpp m hm
  refine ⟨by simp [mkMatch, hlen], by simp [mkMatch, hlen], ?_⟩
  intro k hk
  obtain ⟨hck, helem⟩ := hel k hk
  have hx := near_getD_lt inp _ hck
  have hx' := hx
  rw [FindInput.allPos, allPositions_length] at hx'
  have hN : 0 < inp.pos.length := by
    rcases Nat.eq_zero_or_pos inp.pos.length with h | h
    · rw [h] at hx'; simp at hx'
    · exact h
  have hidx : (mkMatch inp oracle gi i (c.map (fun k => inp.near.getD k 0))).idx.getD k 0
      = inp.near.getD (c.getD k 0) 0 % inp.pos.length := by
    simp only [mkMatch, List.map_map]
    rw [getD_map_lt c _ k 0 0 (by omega)]; rfl
  rw [hidx]
  refine ⟨Nat.mod_lt _ hN, ?_⟩
  rw [← helem]
  simp only [FindInput.nearElemL]
  rw [getD_map_lt inp.near _ _ "" 0 hck]

/-- the same with list look-ups that cannot fall back on a default (well-formed input: one element per atom) -/
theorem find_shape_lookup (inp : FindInput) (ax1 : Nat) (oracle : Nat → Nat → Quat) (choose : Nat → List Nat → Nat)
    (hel : inp.elems.length = inp.pos.length) (hpel : inp.pelems.length = inp.ppos.length)
    (hpp : 0 < inp.ppos.length) (m : Match) (hm : m ∈ find inp ax1 oracle choose) :
    ∀ k, k < inp.ppos.length →
      ∃ a e, m.idx[k]? = some a ∧ a < inp.pos.length ∧ inp.elems[a]? = some e ∧ inp.pelems[k]? = some e := by
  obtain ⟨hlen, -, h⟩ := find_shape inp ax1 oracle choose hpp m hm
  intro k hk
  obtain ⟨hlt, he⟩ := h k hk
  have hk' : k < m.idx.length := by omega
  have hd : m.idx.getD k 0 = m.idx[k] := by
    rw [List.getD_eq_getElem?_getD, List.getElem?_eq_getElem hk']; rfl
  rw [hd] at hlt he
  refine ⟨m.idx[k], inp.elems[m.idx[k]]'(by omega), List.getElem?_eq_getElem hk', hlt,
    List.getElem?_eq_getElem (by omega), ?_⟩
  rw [List.getD_eq_getElem?_getD, List.getD_eq_getElem?_getD, List.getElem?_eq_getElem (by omega : m.idx[k] < inp.elems.length),
    List.getElem?_eq_getElem (by omega : k < inp.pelems.length)] at he
  simp only [Option.getD_some] at he
  rw [List.getElem?_eq_getElem (by omega : k < inp.pelems.length), he]

/-! ### positions: stored position plus a lattice vector -/

/-- **find_positions_are_images.** Every returned position is the stored position of the indexed atom plus the
    lattice vector `i·A + j·B + l·C` of one of the 27 images, `(i, j, l) ∈ {−1, 0, 1}³`. -/
theorem find_positions_are_images (inp : FindInput) (ax1 : Nat) (oracle : Nat → Nat → Quat)
    (choose : Nat → List Nat → Nat) (hpp : 0 < inp.ppos.length) (m : Match) (hm : m ∈ find inp ax1 oracle choose) :
    ∀ k, k < inp.ppos.length →
      ∃ i j l : Int, i ∈ pm1 ∧ j ∈ pm1 ∧ l ∈ pm1 ∧
        m.pos.getD k Vec3.zero = Vec3.add (inp.pos.getD (m.idx.getD k 0) Vec3.zero) (inp.cell.lattice i j l) := by
  obtain ⟨gi, i, c, ⟨hlen, hel, -⟩, -, rfl⟩ := find_witness inp ax1 oracle choose hpp m hm
  intro k hk
  obtain ⟨hck, -⟩ := hel k hk
  have hx := near_getD_lt inp _ hck
  obtain ⟨i', j', l', hi, hj, hl, -, hpos⟩ := allPositions_getD inp.cell inp.pos _ hx
  refine ⟨i', j', l', hi, hj, hl, ?_⟩
  have hidx : (mkMatch inp oracle gi i (c.map (fun k => inp.near.getD k 0))).idx.getD k 0
      = inp.near.getD (c.getD k 0) 0 % inp.pos.length := by
    simp only [mkMatch, List.map_map]
    rw [getD_map_lt c _ k 0 0 (by omega)]; rfl
  have hp : (mkMatch inp oracle gi i (c.map (fun k => inp.near.getD k 0))).pos.getD k Vec3.zero
      = inp.allPos.getD (inp.near.getD (c.getD k 0) 0) Vec3.zero := by
    simp only [mkMatch, List.map_map]
    rw [getD_map_lt c _ k Vec3.zero 0 (by omega)]; rfl
  rw [hidx, hp]; exact hpos

/-! ### the rotation re-check: what is reported passed it, with the rotation that is reported -/

/-- **find_mem_good.** Every reported match passed the final re-check `goodCheck` (the code's
    `np.allclose(atom_positions, chk_pattern.positions, atol=atol)`) with exactly the positions and the quaternion that
    are reported. -/
theorem find_mem_good (inp : FindInput) (ax1 : Nat) (oracle : Nat → Nat → Quat) (choose : Nat → List Nat → Nat)
    (m : Match) (hm : m ∈ find inp ax1 oracle choose) :
    goodCheck inp.ppos ax1 inp.atol m.q m.pos = true := by
  obtain ⟨gi, kg, i, -, -, hgood, rfl⟩ := find_mem inp ax1 oracle choose m hm
  exact hgood

/-- the reported quaternion is the identity (one-atom pattern) or one the oracle supplied -/
theorem find_quat (inp : FindInput) (ax1 : Nat) (oracle : Nat → Nat → Quat) (choose : Nat → List Nat → Nat)
    (m : Match) (hm : m ∈ find inp ax1 oracle choose) :
    m.q = Quat.identity ∨ ∃ g i, m.q = oracle g i := by
  obtain ⟨gi, kg, i, -, -, -, rfl⟩ := find_mem inp ax1 oracle choose m hm
  simp only [mkMatch, candQuat]
  split
  · exact Or.inr ⟨gi, i, rfl⟩
  · exact Or.inl rfl

/-- the pattern atom `k`, rotated by `q` about the first axis point `o = P[ax1]` and moved to `t` -/
def imageOf (inp : FindInput) (ax1 : Nat) (q : Quat) (t : Vec3) (k : Nat) : Vec3 :=
  Vec3.add (rot q (Vec3.sub (inp.ppos.getD k Vec3.zero) (inp.ppos.getD ax1 Vec3.zero))) t

/-- **find_rigid.** With `R = rot m.q`, `o = P[ax1]`, `t = m.pos[ax1]`: every returned position coincides with
    `R (P[k] − o) + t`, coordinate by coordinate, within `atol` — the requested absolute tolerance and nothing else
    (`np.allclose(…, rtol=0, atol=atol)`). "Within the tolerance" is read PER COORDINATE, as `np.allclose` does
    (an atom may be up to `√3·atol` away in Euclidean distance). No guard. -/
theorem find_rigid (inp : FindInput) (ax1 : Nat) (oracle : Nat → Nat → Quat) (choose : Nat → List Nat → Nat)
    (m : Match) (hm : m ∈ find inp ax1 oracle choose) :
    ∀ k, k < inp.ppos.length →
      let img := imageOf inp ax1 m.q (m.pos.getD ax1 Vec3.zero) k
      let p := m.pos.getD k Vec3.zero
      absRat (p.x - img.x) ≤ inp.atol ∧ absRat (p.y - img.y) ≤ inp.atol ∧ absRat (p.z - img.z) ≤ inp.atol := by
  have h := find_mem_good inp ax1 oracle choose m hm
  intro k hk
  unfold goodCheck at h
  simp only [List.all_eq_true, List.mem_range] at h
  have hk' := h k hk
  simp only [closeVec, closeCoord, Bool.and_eq_true, decide_eq_true_eq] at hk'
  exact ⟨hk'.1.1, hk'.1.2, hk'.2⟩

/-! ### the reported rotation is proper; mirror images are never reported -/

/-- a proper rotation of space: linear, orthogonal (`RᵀR = I`), determinant `+1` -/
structure ProperRotation (R : Vec3 → Vec3) : Prop where
  add : ∀ a b, R (Vec3.add a b) = Vec3.add (R a) (R b)
  smul : ∀ k a, R (Vec3.smul k a) = Vec3.smul k (R a)
  dot : ∀ a b, Vec3.dot (R a) (R b) = Vec3.dot a b
  det : ∀ a b c, triple (R a) (R b) (R c) = triple a b c

theorem rot_proper (q : Quat) (hq : q.normSq ≠ 0) : ProperRotation (rot q) :=
  ⟨rot_add q, rot_smul q, rot_orthogonal q hq, rot_det_one q hq⟩

/-- a mirror reflection is NOT a proper rotation -/
theorem mirrorX_not_proper : ¬ ProperRotation mirrorX := by
  intro h
  have := h.det ⟨1, 0, 0⟩ ⟨0, 1, 0⟩ ⟨0, 0, 1⟩
  rw [mirrorX_triple] at this
  revert this; decide +kernel

/-- **find_rotation_proper.** For oracles that supply quaternions of non-zero norm (scipy's `Rotation.from_quat`
    rejects the zero quaternion), the reported rotation is a proper rotation. -/
theorem find_rotation_proper (inp : FindInput) (ax1 : Nat) (oracle : Nat → Nat → Quat) (choose : Nat → List Nat → Nat)
    (hq : ∀ g i, (oracle g i).normSq ≠ 0) (m : Match) (hm : m ∈ find inp ax1 oracle choose) :
    m.q.normSq ≠ 0 ∧ ProperRotation (rot m.q) := by
  have hn : m.q.normSq ≠ 0 := by
    rcases find_quat inp ax1 oracle choose m hm with h | ⟨g, i, h⟩
    · rw [h, identity_normSq]; decide
    · rw [h]; exact hq g i
  exact ⟨hn, rot_proper m.q hn⟩

/-- `R`, anchored at the first axis point, carries the pattern onto the positions `cpos` within the bound of the
    re-check -/
def CarriesOnto (inp : FindInput) (ax1 : Nat) (R : Vec3 → Vec3) (cpos : List Vec3) : Prop :=
  ∀ k, k < inp.ppos.length →
    closeVec (cpos.getD k Vec3.zero)
      (Vec3.add (R (Vec3.sub (inp.ppos.getD k Vec3.zero) (inp.ppos.getD ax1 Vec3.zero))) (cpos.getD ax1 Vec3.zero))
      inp.atol = true

/-- a reported match is carried by its own (proper) rotation -/
theorem find_carried (inp : FindInput) (ax1 : Nat) (oracle : Nat → Nat → Quat) (choose : Nat → List Nat → Nat)
    (m : Match) (hm : m ∈ find inp ax1 oracle choose) : CarriesOnto inp ax1 (rot m.q) m.pos := by
  have h := find_mem_good inp ax1 oracle choose m hm
  intro k hk
  unfold goodCheck at h
  simp only [List.all_eq_true, List.mem_range] at h
  exact h k hk

/-- **find_no_improper.** If NO proper rotation (anchored at the first axis point, i.e. followed by the translation
    that superposes the first axis points) carries the pattern onto the positions `cpos` within the bound, then no
    reported match has these positions: in particular a candidate that is only an improper (mirror) image of the
    pattern is never reported, whatever the oracle proposes. -/
theorem find_no_improper (inp : FindInput) (ax1 : Nat) (oracle : Nat → Nat → Quat) (choose : Nat → List Nat → Nat)
    (hq : ∀ g i, (oracle g i).normSq ≠ 0) (cpos : List Vec3)
    (hno : ¬ ∃ R, ProperRotation R ∧ CarriesOnto inp ax1 R cpos) :
    ∀ m ∈ find inp ax1 oracle choose, m.pos ≠ cpos := by
  intro m hm he
  apply hno
  refine ⟨rot m.q, (find_rotation_proper inp ax1 oracle choose hq m hm).2, ?_⟩
  rw [← he]; exact find_carried inp ax1 oracle choose m hm

/-- the same with an arbitrary translation and an arbitrary centre: if no proper rigid motion `x ↦ R (x − o) + t`
    at all carries the pattern onto `cpos` within the bound, `cpos` is not reported -/
theorem find_no_improper_any_translation (inp : FindInput) (ax1 : Nat) (oracle : Nat → Nat → Quat)
    (choose : Nat → List Nat → Nat) (hq : ∀ g i, (oracle g i).normSq ≠ 0) (cpos : List Vec3)
    (hno : ¬ ∃ R o t, ProperRotation R ∧ ∀ k, k < inp.ppos.length →
        closeVec (cpos.getD k Vec3.zero) (Vec3.add (R (Vec3.sub (inp.ppos.getD k Vec3.zero) o)) t) inp.atol = true) :
    ∀ m ∈ find inp ax1 oracle choose, m.pos ≠ cpos := by
  apply find_no_improper inp ax1 oracle choose hq cpos
  rintro ⟨R, hR, hc⟩
  exact hno ⟨R, _, _, hR, hc⟩

/-! ### non-vacuity: concrete searches that report matches -/

/-- a C–O pair (1 Å apart along x) planted in a 4 × 5 × 6 orthorhombic cell, plus one bystander -/
def exInput1 : FindInput :=
  { elems := ["C", "O", "N"], pos := [⟨1, 1, 1⟩, ⟨2, 1, 1⟩, ⟨3, 3, 3⟩],
    cell := ⟨⟨4, 0, 0⟩, ⟨0, 5, 0⟩, ⟨0, 0, 6⟩⟩,
    pelems := ["C", "O"], ppos := [⟨0, 0, 0⟩, ⟨1, 0, 0⟩], atol := 1 / 20 }

example : find exInput1 0 (fun _ _ => Quat.identity) (fun _ _ => 0) =
    [{ idx := [0, 1], pos := [⟨1, 1, 1⟩, ⟨2, 1, 1⟩], q := Quat.identity }] := by decide +kernel

/-- the pair lies along y and straddles the cell face `y = 0`: O sits at y = 9/2 and is matched through its image
    at y = −1/2; the oracle proposes the (un-normalised) quaternion (0, 0, −1, 1) = rotation by −90° about z -/
def exInput2 : FindInput :=
  { elems := ["N", "O", "C"], pos := [⟨3, 3, 3⟩, ⟨1, 9 / 2, 1⟩, ⟨1, 1 / 2, 1⟩],
    cell := ⟨⟨4, 0, 0⟩, ⟨0, 5, 0⟩, ⟨0, 0, 6⟩⟩,
    pelems := ["C", "O"], ppos := [⟨0, 0, 0⟩, ⟨1, 0, 0⟩], atol := 1 / 20 }

def exQuat2 : Quat := ⟨0, 0, -1, 1⟩

example : find exInput2 0 (fun _ _ => exQuat2) (fun _ _ => 0) =
    [{ idx := [2, 1], pos := [⟨1, 1 / 2, 1⟩, ⟨1, -1 / 2, 1⟩], q := exQuat2 }] := by decide +kernel

/-- … and with a wrong proposal (the identity) the candidate is enumerated but fails the re-check: nothing is reported -/
example : find exInput2 0 (fun _ _ => Quat.identity) (fun _ _ => 0) = [] := by decide +kernel

/-- the guards of the theorems hold on these inputs -/
example : 0 < exInput1.ppos.length ∧ exInput1.elems.length = exInput1.pos.length ∧
    exInput1.pelems.length = exInput1.ppos.length ∧ exQuat2.normSq ≠ 0 ∧ Quat.identity.normSq ≠ 0 := by decide +kernel

/-! ### distinct atoms -/

/-- **find_distinct.** The atoms of a reported match are DISTINCT — for every cell, pattern and tolerance (the extension
    loop never takes a unit-cell atom twice, whatever its periodic image). Guard: the pattern has at least one atom. -/
theorem find_distinct (inp : FindInput) (ax1 : Nat) (oracle : Nat → Nat → Quat) (choose : Nat → List Nat → Nat)
    (hpp : 0 < inp.ppos.length) (m : Match) (hm : m ∈ find inp ax1 oracle choose) : m.idx.Nodup := by
  obtain ⟨gi, i, c, hc, -, rfl⟩ := find_witness inp ax1 oracle choose hpp m hm
  have hlen := hc.1
  unfold List.Nodup
  rw [List.pairwise_iff_getElem]
  intro j k hj hk hjk
  simp only [mkMatch, List.length_map] at hj hk
  have hne := cand_distinct inp c hc k j (by omega) hjk
  simp only [mkMatch, List.getElem_map]
  have e1 : c.getD j 0 = c[j] := by
    rw [List.getD_eq_getElem?_getD, List.getElem?_eq_getElem hj]; rfl
  have e2 : c.getD k 0 = c[k] := by
    rw [List.getD_eq_getElem?_getD, List.getElem?_eq_getElem hk]; rfl
  rw [e1, e2] at hne
  exact hne

/-- the reported atoms are distinct also where the pattern has same-element atoms closer than the tolerance: a structure
    with ONE hydrogen where the pattern has two (H–H 3/4, atol 4/5) — nothing is reported -/
def exInput3 : FindInput :=
  { elems := ["C", "O", "H"], pos := [⟨1, 1, 1⟩, ⟨1, 1, 4⟩, ⟨2, 1, 5 / 2⟩],
    cell := ⟨⟨8, 0, 0⟩, ⟨0, 8, 0⟩, ⟨0, 0, 9⟩⟩,
    pelems := ["C", "O", "H", "H"], ppos := [⟨0, 0, 0⟩, ⟨0, 0, 3⟩, ⟨1, 3 / 8, 3 / 2⟩, ⟨1, -3 / 8, 3 / 2⟩], atol := 4 / 5 }

example : find exInput3 0 (fun _ _ => Quat.identity) (fun _ _ => 0) = [] := by decide +kernel

/-- the pair-distance screen alone (what guaranteed distinctness before the explicit test): still true on the domain -/
theorem find_distinct_by_screen (inp : FindInput) (W : Rat) (hg : DistinctGuards inp W) (c : List Nat)
    (hc : CandOK inp.ppos inp.pelems inp.atol (fun k => inp.nearPosL.getD k Vec3.zero)
      (fun k => inp.nearElemL.getD k "") (fun k => inp.nearUcL.getD k 0) inp.near.length inp.ppos.length c)
    (k j : Nat) (hk : k < inp.ppos.length) (hj : j < k) :
    inp.near.getD (c.getD j 0) 0 % inp.pos.length ≠ inp.near.getD (c.getD k 0) 0 % inp.pos.length :=
  cand_distinct_by_screen inp W hg c hc k j hk hj

/-- the guards, as a Boolean test (what a caller can evaluate) -/
def distinctGuardsB (inp : FindInput) (W : Rat) : Bool :=
  decide (0 ≤ inp.atol) && decide (inp.cell.det ≠ 0) &&
  decide (W * W * Vec3.normSq (Vec3.cross inp.cell.b inp.cell.c) ≤ inp.cell.det * inp.cell.det) &&
  decide (W * W * Vec3.normSq (Vec3.cross inp.cell.c inp.cell.a) ≤ inp.cell.det * inp.cell.det) &&
  decide (W * W * Vec3.normSq (Vec3.cross inp.cell.a inp.cell.b) ≤ inp.cell.det * inp.cell.det) &&
  decide (2 * inp.atol ≤ W) &&
  (List.range inp.ppos.length).all (fun k => (List.range k).all (fun j =>
    let d := distSq (inp.ppos.getD k Vec3.zero) (inp.ppos.getD j Vec3.zero)
    decide (d < (W - 2 * inp.atol) * (W - 2 * inp.atol)) &&
    decide (d * 1000000000000000000 < 999999999 * 999999999 * (W * W)) &&
    decide (inp.atol * inp.atol < d)))

theorem distinctGuardsB_sound (inp : FindInput) (W : Rat) (h : distinctGuardsB inp W = true) :
    DistinctGuards inp W := by
  unfold distinctGuardsB at h
  simp only [Bool.and_eq_true, decide_eq_true_eq, List.all_eq_true, List.mem_range] at h
  obtain ⟨⟨⟨⟨⟨⟨h0, hdet⟩, wa⟩, wb⟩, wc⟩, h2⟩, hall⟩ := h
  exact ⟨h0, ⟨hdet, wa, wb, wc⟩, h2, fun k hk j hj => (hall k hk j hj).1.1,
    fun k hk j hj => (hall k hk j hj).1.2, fun k hk j hj => (hall k hk j hj).2⟩

/-- non-vacuity of the guards: the 4 × 5 × 6 cell is at least 4 wide, the C–O pattern is 1 long, atol = 1/20 -/
example : DistinctGuards exInput1 4 := distinctGuardsB_sound _ _ (by decide +kernel)
example : DistinctGuards exInput2 4 := distinctGuardsB_sound _ _ (by decide +kernel)

/-! ### `find_pattern_in_structure` itself: atoms may be STORED anywhere (`findW = find ∘ wrapped`)

  The search looks at every atom through its image inside the cell (an integer lattice translation). Everything above
  holds for the matches it reports, with the STORED positions / elements of the structure as reference. -/

/-- **findW_shape.** -/
theorem findW_shape (inp : FindInput) (ax1 : Nat) (oracle : Nat → Nat → Quat) (choose : Nat → List Nat → Nat)
    (hpp : 0 < inp.ppos.length) (m : Match) (hm : m ∈ findW inp ax1 oracle choose) :
    m.idx.length = inp.ppos.length ∧ m.pos.length = inp.ppos.length ∧
    ∀ k, k < inp.ppos.length →
      m.idx.getD k 0 < inp.pos.length ∧ inp.elems.getD (m.idx.getD k 0) "" = inp.pelems.getD k "" := by
  have h := find_shape inp.wrapped ax1 oracle choose hpp m hm
  rw [wrapped_length] at h
  exact h

/-- **findW_positions_are_images.** Every returned position is the STORED position of the indexed atom plus an INTEGER
    lattice vector: `(i, j, l) = (image in {−1,0,1}³) − (whole cells the stored atom is away from the home cell)`.
    No hypothesis that the atoms are inside the cell, none on the cell. -/
theorem findW_positions_are_images (inp : FindInput) (ax1 : Nat) (oracle : Nat → Nat → Quat)
    (choose : Nat → List Nat → Nat) (hpp : 0 < inp.ppos.length) (m : Match) (hm : m ∈ findW inp ax1 oracle choose) :
    ∀ k, k < inp.ppos.length →
      ∃ i j l : Int,
        m.pos.getD k Vec3.zero = Vec3.add (inp.pos.getD (m.idx.getD k 0) Vec3.zero) (inp.cell.lattice i j l) ∧
        (i + (inp.cell.cellsAway (inp.pos.getD (m.idx.getD k 0) Vec3.zero)).1 ∈ pm1) ∧
        (j + (inp.cell.cellsAway (inp.pos.getD (m.idx.getD k 0) Vec3.zero)).2.1 ∈ pm1) ∧
        (l + (inp.cell.cellsAway (inp.pos.getD (m.idx.getD k 0) Vec3.zero)).2.2 ∈ pm1) := by
  intro k hk
  obtain ⟨i, j, l, hi, hj, hl, hpos⟩ := find_positions_are_images inp.wrapped ax1 oracle choose hpp m hm k hk
  have hlt := ((findW_shape inp ax1 oracle choose hpp m hm).2.2 k hk).1
  rw [wrapped_getD inp _ hlt, intoCell_eq_add] at hpos
  set s := inp.cell.cellsAway (inp.pos.getD (m.idx.getD k 0) Vec3.zero) with hs
  refine ⟨i - s.1, j - s.2.1, l - s.2.2, ?_, by simpa using hi, by simpa using hj, by simpa using hl⟩
  rw [hpos]
  show Vec3.add (Vec3.add _ (inp.wrapped.cell.lattice _ _ _)) (inp.wrapped.cell.lattice _ _ _) = _
  have hc : inp.wrapped.cell = inp.cell := rfl
  rw [hc]
  simp only [Mat3.lattice, Vec3.add, Vec3.smul, Vec3.mk.injEq]
  push_cast
  refine ⟨by ring, by ring, by ring⟩

/-- **findW_rigid.** per coordinate within the requested `atol` of the rotated + translated pattern -/
theorem findW_rigid (inp : FindInput) (ax1 : Nat) (oracle : Nat → Nat → Quat) (choose : Nat → List Nat → Nat)
    (m : Match) (hm : m ∈ findW inp ax1 oracle choose) :
    ∀ k, k < inp.ppos.length →
      let img := imageOf inp ax1 m.q (m.pos.getD ax1 Vec3.zero) k
      let p := m.pos.getD k Vec3.zero
      absRat (p.x - img.x) ≤ inp.atol ∧ absRat (p.y - img.y) ≤ inp.atol ∧ absRat (p.z - img.z) ≤ inp.atol :=
  find_rigid inp.wrapped ax1 oracle choose m hm

/-- **findW_distinct.** -/
theorem findW_distinct (inp : FindInput) (ax1 : Nat) (oracle : Nat → Nat → Quat) (choose : Nat → List Nat → Nat)
    (hpp : 0 < inp.ppos.length) (m : Match) (hm : m ∈ findW inp ax1 oracle choose) : m.idx.Nodup :=
  find_distinct inp.wrapped ax1 oracle choose hpp m hm

/-- **findW_rotation_proper.** -/
theorem findW_rotation_proper (inp : FindInput) (ax1 : Nat) (oracle : Nat → Nat → Quat) (choose : Nat → List Nat → Nat)
    (hq : ∀ g i, (oracle g i).normSq ≠ 0) (m : Match) (hm : m ∈ findW inp ax1 oracle choose) :
    m.q.normSq ≠ 0 ∧ ProperRotation (rot m.q) :=
  find_rotation_proper inp.wrapped ax1 oracle choose hq m hm

/-- **findW_no_improper.** -/
theorem findW_no_improper (inp : FindInput) (ax1 : Nat) (oracle : Nat → Nat → Quat) (choose : Nat → List Nat → Nat)
    (hq : ∀ g i, (oracle g i).normSq ≠ 0) (cpos : List Vec3)
    (hno : ¬ ∃ R, ProperRotation R ∧ CarriesOnto inp ax1 R cpos) :
    ∀ m ∈ findW inp ax1 oracle choose, m.pos ≠ cpos :=
  find_no_improper inp.wrapped ax1 oracle choose hq cpos hno

/-- **find (wrap S) = find S** (cell of non-zero volume) -/
theorem findW_wrap_invariant (inp : FindInput) (ax1 : Nat) (oracle : Nat → Nat → Quat) (choose : Nat → List Nat → Nat)
    (hd : inp.cell.det ≠ 0) : findW inp.wrapped ax1 oracle choose = findW inp ax1 oracle choose :=
  findW_wrapped inp ax1 oracle choose hd

/-- the C–O pair of `exInput1` with the O stored one cell further along x and the C two cells down along z: the same
    match, positions of the images inside the cell -/
def exInput4 : FindInput := { exInput1 with pos := [⟨1, 1, -11⟩, ⟨6, 1, 1⟩, ⟨3, 3, 3⟩] }

example : findW exInput4 0 (fun _ _ => Quat.identity) (fun _ _ => 0) =
    [{ idx := [0, 1], pos := [⟨1, 1, 1⟩, ⟨2, 1, 1⟩], q := Quat.identity }] := by decide +kernel

example : find exInput4 0 (fun _ _ => Quat.identity) (fun _ _ => 0) = [] := by decide +kernel

example : exInput4.cell.det ≠ 0 := by decide +kernel

end Mofun
