/-
  C09 (extension) — the constructor `Atoms(**kwargs)` (`Atoms.__init__` + `assert_arrays_are_consistent_sizes`).
  Model: Model/Construct.lean (`construct`, guard `CtorOk`); helper lemmas: Proofs/ConstructLemmas.lean;
  the invariant `WF`: Proofs/HistLemmas.lean.

  What is proved (for EVERY mass lookup `massOf`, in particular for ATOMIC_MASSES of /repo):
    construct_ok_iff           construction succeeds  ⟺  `CtorOk` (the conjunction of everything the code checks), with
                               the three non-obvious conjuncts spelled out (`ctorOk_per_atom`, `ctorOk_masses`,
                               `ctorOk_extra_fields`)
    wf_iff_self_caller         `WF` = `SelfChecked` (the clauses the constructor guarantees by itself) ∧ `CallerPart`
                               (the clauses it does not look at)
    construct_selfChecked      every constructed object satisfies `SelfChecked` — no guard
    construct_wf_iff           a constructed object is `WF` EXACTLY when the arguments satisfy `CallerGuard`
    construct_wf               … in particular `CallerGuard` ⟹ `WF`
    construct_elements_wf      with `elements=` the atom-type clause of the guard is automatic
    construct_elements_roundtrip   with `elements=`: atom i resolves to elements[i]; type table = distinct elements in
                               first-occurrence order; the type id is the index of the first occurrence
    construct_defaults         charges / groups / labels / masses / extra fields defaults, and that everything passed
                               is stored as passed
-/
import MofunModel.Proofs.ConstructLemmas

namespace Mofun.Construct

open Mofun Mofun.Hist

/-! ### when construction succeeds -/

/-- **construct_ok_iff.**  `Atoms(**k)` returns an object exactly when `CtorOk` holds: the tuple and extra-field
    arguments are rectangular (numpy can build the arrays), the masses resolve and cover the element table, the
    per-atom arrays have one entry per position, each tuple list is as long as its type list, the labels cover the
    element table, and the extra fields of each of the five kinds pass `fix_extra_fields` / `check_extra_fields`. -/
theorem construct_ok_iff (massOf : String → Option Rat) (k : CtorArgs) :
    (∃ a, construct massOf k = .ok a) ↔ CtorOk massOf k := by
  constructor
  · rintro ⟨a, h⟩
    obtain ⟨h1, h2, ms, hm, hc, _⟩ := (construct_ok massOf k a).mp h
    have c := (check_none_iff _).mp hc
    refine ⟨h1, h2, ?_, c.types, c.charges, c.groups, c.bonds, c.angles, c.dihedrals, c.impropers, c.labels,
      ⟨c.xa1, c.xa2⟩, ⟨c.xb1, c.xb2⟩, ⟨c.xg1, c.xg2⟩, ⟨c.xd1, c.xd2⟩, ⟨c.xi1, c.xi2⟩⟩
    unfold MassesOk
    rw [hm]
    exact c.masses
  · rintro ⟨h1, h2, hm, ht, hc, hg, hb, ha, hd, hi, hl, xa, xb, xg, xd, xi⟩
    unfold MassesOk at hm
    cases hms : massesOf massOf k with
    | none => rw [hms] at hm; exact hm.elim
    | some ms =>
      rw [hms] at hm
      refine ⟨build (resolvedWith k ms), (construct_ok massOf k _).mpr ⟨h1, h2, ms, hms, ?_, rfl⟩⟩
      exact (check_none_iff _).mpr
        ⟨ht, hc, hg, hb, ha, hd, hi, hl, hm, xa.1, xa.2, xb.1, xb.2, xg.1, xg.2, xd.1, xd.2, xi.1, xi.2⟩

/-- the object is the one `build` makes of the resolved arguments (used by the theorems below) -/
theorem construct_eq (massOf : String → Option Rat) (k : CtorArgs) (a : Atoms) (h : construct massOf k = .ok a) :
    ∃ ms, massesOf massOf k = some ms ∧ Checked (resolvedWith k ms) ∧ a = build (resolvedWith k ms)
      ∧ tuplesRect k = true ∧ fieldsRect k = true := by
  obtain ⟨h1, h2, ms, hm, hc, ha⟩ := (construct_ok massOf k a).mp h
  exact ⟨ms, hm, (check_none_iff _).mp hc, ha, h1, h2⟩

/-- `CtorOk`, per-atom conjuncts spelled out: charges and groups may be omitted or must have one entry per position -/
theorem ctorOk_per_atom (k : CtorArgs) :
    ((chargesOf k).length = k.positions.length ↔ (k.charges = [] ∨ k.charges.length = k.positions.length))
    ∧ ((groupsOf k).length = k.positions.length ↔ (k.groups = [] ∨ k.groups.length = k.positions.length)) := by
  unfold chargesOf groupsOf
  constructor
  · cases h : k.charges with
    | nil => simp
    | cons c cs => simp
  · cases h : k.groups with
    | nil => simp
    | cons c cs => simp

/-- `CtorOk`, mass conjunct spelled out: masses that are passed must cover the element table; masses that are not
    passed are looked up, which succeeds iff every element of the table is known (no element table: nothing to do) -/
theorem ctorOk_masses (massOf : String → Option Rat) (k : CtorArgs) :
    MassesOk massOf k ↔
      ((k.typeMasses ≠ [] ∧ (elemsOf k).length ≤ k.typeMasses.length)
       ∨ (k.typeMasses = [] ∧ ∀ e ∈ elemsOf k, (massOf e).isSome = true)) := by
  unfold MassesOk massesOf
  cases hm : k.typeMasses with
  | cons m ms => simp
  | nil =>
    cases he : elemsOf k with
    | nil => simp
    | cons e es =>
      simp only [List.isEmpty_nil, List.isEmpty_cons, Bool.not_false, Bool.and_self, if_true, ne_eq,
        not_true_eq_false, false_and, true_and, false_or]
      cases ha : allSome ((e :: es).map massOf) with
      | none =>
        have := (allSome_eq_none _).mp ha
        obtain ⟨x, hx, hn⟩ := List.mem_map.mp this
        simp only [false_iff]
        intro hall
        have := hall x hx
        rw [hn] at this; cases this
      | some ms =>
        have hl := congrArg List.length (allSome_map _ _ ha)
        simp only [List.length_map] at hl
        simp only [hl, Nat.le_refl, true_iff]
        intro x hx
        have hmem : massOf x ∈ ms.map some := by rw [allSome_map _ _ ha]; exact List.mem_map_of_mem hx
        obtain ⟨v, _, hv⟩ := List.mem_map.mp hmem
        rw [← hv]; rfl

/-- `CtorOk`, extra-field conjunct spelled out (`n` = number of atoms / terms of the kind):
    no fields passed — the "." default, accepted iff the labels are distinct (the default is as wide as the label LIST,
    the check compares with the label SET);
    fields without labels — accepted when the row count is wrong (they are silently reset) or they have no column;
    fields with labels — `n` rows and one column per distinct label. -/
theorem ctorOk_extra_fields (labels : List String) (fields : List (List String)) (n : Nat) :
    XOk labels fields n ↔
      (fields = [] ∧ (dedup labels).length = labels.length)
      ∨ (fields ≠ [] ∧ labels = [] ∧ (fields.length ≠ n ∨ (fields.head?.map List.length).getD 0 = 0))
      ∨ (fields ≠ [] ∧ labels ≠ [] ∧ fields.length = n
          ∧ (dedup labels).length = (fields.head?.map List.length).getD 0) :=
  xOk_iff labels fields n

/-! ### which clauses of `WF` the constructor guarantees, and which it leaves to the caller -/

/-- the clauses of `WF` that `assert_arrays_are_consistent_sizes` enforces: every extra row (of atoms and of each term
    kind) has one entry per extra label; label and mass tables cover the element table -/
def SelfChecked (a : Atoms) : Prop :=
  (∀ r ∈ a.atoms, r.extra.length = a.xlabels.length)
  ∧ a.typeElems.length ≤ a.typeLabels.length
  ∧ a.typeElems.length ≤ a.typeMasses.length
  ∧ (∀ tm ∈ a.bonds.terms, tm.extra.length = a.bonds.xlabels.length)
  ∧ (∀ tm ∈ a.angles.terms, tm.extra.length = a.angles.xlabels.length)
  ∧ (∀ tm ∈ a.dihedrals.terms, tm.extra.length = a.dihedrals.xlabels.length)
  ∧ (∀ tm ∈ a.impropers.terms, tm.extra.length = a.impropers.xlabels.length)

/-- one term kind of `CallerPart` -/
def KindCaller (n : Nat) (t : TermTable) : Prop :=
  (∀ tm ∈ t.terms, ∀ x ∈ tm.atoms, x < n) ∧ (t.coeffs = [] ∨ ∀ tm ∈ t.terms, tm.ty < t.coeffs.length)

/-- the clauses of `WF` that the constructor never looks at: atom type ids inside the element table, a pair table
    (when present) covering the element table, term tuples referring to existing atoms, coefficient tables (when
    present) covering the term type ids -/
def CallerPart (a : Atoms) : Prop :=
  (∀ r ∈ a.atoms, r.ty < a.typeElems.length)
  ∧ (a.pairCoeffs = [] ∨ a.typeElems.length ≤ a.pairCoeffs.length)
  ∧ KindCaller a.atoms.length a.bonds ∧ KindCaller a.atoms.length a.angles
  ∧ KindCaller a.atoms.length a.dihedrals ∧ KindCaller a.atoms.length a.impropers

instance (n : Nat) (t : TermTable) : Decidable (KindCaller n t) := by unfold KindCaller; infer_instance
instance (a : Atoms) : Decidable (SelfChecked a) := by unfold SelfChecked; infer_instance
instance (a : Atoms) : Decidable (CallerPart a) := by unfold CallerPart; infer_instance

/-- **wf_iff_self_caller.**  The invariant of C09 splits exactly into the two parts. -/
theorem wf_iff_self_caller (a : Atoms) : WF a ↔ SelfChecked a ∧ CallerPart a := by
  unfold WF TermsWF SelfChecked CallerPart KindCaller
  constructor
  · rintro ⟨h1, h2, h3, h4, ⟨b1, b2⟩, ⟨g1, g2⟩, ⟨d1, d2⟩, ⟨i1, i2⟩⟩
    exact ⟨⟨fun r hr => (h1 r hr).2, h2, h3, fun t ht => (b1 t ht).2, fun t ht => (g1 t ht).2,
        fun t ht => (d1 t ht).2, fun t ht => (i1 t ht).2⟩,
      ⟨fun r hr => (h1 r hr).1, h4, ⟨fun t ht => (b1 t ht).1, b2⟩, ⟨fun t ht => (g1 t ht).1, g2⟩,
        ⟨fun t ht => (d1 t ht).1, d2⟩, ⟨fun t ht => (i1 t ht).1, i2⟩⟩⟩
  · rintro ⟨⟨s1, s2, s3, sb, sg, sd, si⟩, ⟨c1, c2, ⟨b1, b2⟩, ⟨g1, g2⟩, ⟨d1, d2⟩, ⟨i1, i2⟩⟩⟩
    exact ⟨fun r hr => ⟨c1 r hr, s1 r hr⟩, s2, s3, c2, ⟨fun t ht => ⟨b1 t ht, sb t ht⟩, b2⟩,
      ⟨fun t ht => ⟨g1 t ht, sg t ht⟩, g2⟩, ⟨fun t ht => ⟨d1 t ht, sd t ht⟩, d2⟩, ⟨fun t ht => ⟨i1 t ht, si t ht⟩, i2⟩⟩

theorem resolveKind_xwf (ka : KindArgs) (h : rect ka.xfields = true) : XWF (resolveKind ka).xt :=
  shaped_xwf _ _ _ h

theorem buildKind_extra (rk : RKind) (hx : XWF rk.xt)
    (h1 : (fixX rk.xlabels rk.xt rk.types.length).rows.length = rk.types.length)
    (h2 : rk.xlabels.length = (fixX rk.xlabels rk.xt rk.types.length).width) :
    ∀ tm ∈ (buildKind rk).terms, tm.extra.length = (buildKind rk).xlabels.length := by
  intro tm htm
  obtain ⟨i, hi, _, _, he⟩ := mem_buildKind rk tm htm
  rw [he]
  exact xrow_length _ _ _ _ hx hi h1 h2

/-- **construct_selfChecked.**  Whatever is passed, an object that the constructor returns satisfies the
    `SelfChecked` half of the invariant. -/
theorem construct_selfChecked (massOf : String → Option Rat) (k : CtorArgs) (a : Atoms)
    (h : construct massOf k = .ok a) : SelfChecked a := by
  obtain ⟨ms, _, c, rfl, _, hf⟩ := construct_eq massOf k a h
  simp only [fieldsRect, Bool.and_eq_true] at hf
  obtain ⟨⟨⟨⟨fa, fb⟩, fg⟩, fd⟩, fi⟩ := hf
  refine ⟨?_, c.labels, c.masses, ?_, ?_, ?_, ?_⟩
  · intro row hrow
    obtain ⟨i, hi, _, he⟩ := mem_buildAtoms _ row hrow
    rw [he]
    exact xrow_length _ _ _ _ (shaped_xwf _ _ _ fa) hi c.xa1 c.xa2
  · exact buildKind_extra _ (resolveKind_xwf _ fb) c.xb1 c.xb2
  · exact buildKind_extra _ (resolveKind_xwf _ fg) c.xg1 c.xg2
  · exact buildKind_extra _ (resolveKind_xwf _ fd) c.xd1 c.xd2
  · exact buildKind_extra _ (resolveKind_xwf _ fi) c.xi1 c.xi2

/-! ### the caller's part, on the arguments -/

/-- one term kind of the caller's guard: tuples refer to existing atoms; a coefficient table, when passed, covers the
    type ids -/
def KindGuard (n : Nat) (ka : KindArgs) : Prop :=
  (∀ t ∈ ka.tuples, ∀ x ∈ t, x < n) ∧ (ka.coeffs = [] ∨ ∀ ty ∈ ka.types, ty < ka.coeffs.length)

/-- **what the caller has to ensure** (the constructor checks none of it): explicit atom type ids lie inside
    `atom_type_elements` (nothing to ensure when `elements=` is used); `pair_coeffs`, when passed, covers the element
    table; per kind `KindGuard` -/
def CallerGuard (k : CtorArgs) : Prop :=
  (∀ t ∈ k.atomTypes, t < k.typeElems.length)
  ∧ (k.pairCoeffs = [] ∨ (elemsOf k).length ≤ k.pairCoeffs.length)
  ∧ KindGuard k.positions.length k.bonds ∧ KindGuard k.positions.length k.angles
  ∧ KindGuard k.positions.length k.dihedrals ∧ KindGuard k.positions.length k.impropers

instance (n : Nat) (ka : KindArgs) : Decidable (KindGuard n ka) := by unfold KindGuard; infer_instance
instance (k : CtorArgs) : Decidable (CallerGuard k) := by unfold CallerGuard; infer_instance

theorem buildAtoms_ty (r : Resolved) : (buildAtoms r).map (·.ty) = r.types := by
  simp only [buildAtoms, List.map_map, Function.comp_def]
  exact range_map_getD _ _ _ rfl

theorem buildAtoms_length (r : Resolved) : (buildAtoms r).length = r.types.length := by simp [buildAtoms]

theorem buildKind_ty (rk : RKind) : (buildKind rk).terms.map (·.ty) = rk.types := by
  simp only [buildKind, List.map_map, Function.comp_def]
  exact range_map_getD _ _ _ rfl

theorem buildKind_atoms (rk : RKind) (h : rk.tuples.length = rk.types.length) :
    (buildKind rk).terms.map (·.atoms) = rk.tuples := by
  simp only [buildKind, List.map_map, Function.comp_def]
  exact range_map_getD _ _ _ h

theorem forall_mem_of_map {α β} (l : List α) (f : α → β) (m : List β) (P : β → Prop) (h : l.map f = m) :
    (∀ x ∈ l, P (f x)) ↔ ∀ y ∈ m, P y := by
  subst h; simp

theorem kindCaller_iff (n : Nat) (ka : KindArgs) (h : ka.tuples.length = ka.types.length) :
    KindCaller n (buildKind (resolveKind ka)) ↔ KindGuard n ka := by
  unfold KindCaller KindGuard
  have e1 := forall_mem_of_map _ _ _ (fun t => ∀ x ∈ t, x < n) (buildKind_atoms (resolveKind ka) h)
  have e2 := forall_mem_of_map _ _ _ (fun ty => ty < ka.coeffs.length) (buildKind_ty (resolveKind ka))
  rw [e1]
  have hc : (buildKind (resolveKind ka)).coeffs = ka.coeffs := rfl
  rw [hc, e2]
  rfl

/-- in the `elements=` branch every generated type id lies inside the generated table -/
theorem typesOf_elements_lt (k : CtorArgs) (h : k.atomTypes = []) : ∀ t ∈ typesOf k, t < (elemsOf k).length := by
  unfold typesOf elemsOf
  simp only [h, List.isEmpty_nil, Bool.not_true, Bool.false_eq_true, if_false]
  cases he : k.elements with
  | nil => simp
  | cons e es =>
    simp only [List.isEmpty_cons, Bool.not_false, if_true]
    intro t ht
    obtain ⟨x, hx, rfl⟩ := List.mem_map.mp ht
    obtain ⟨j, hj⟩ := Cml.indexOf?_of_mem _ x ((Cml.mem_dedup _ x).mpr hx)
    rw [hj]
    exact hist_indexOf_lt _ _ _ hj

theorem atom_types_clause (k : CtorArgs) :
    (∀ t ∈ typesOf k, t < (elemsOf k).length) ↔ ∀ t ∈ k.atomTypes, t < k.typeElems.length := by
  cases h : k.atomTypes with
  | nil =>
    simp only [List.not_mem_nil, false_imp_iff, implies_true, iff_true]
    exact typesOf_elements_lt k h
  | cons t ts => simp [typesOf, elemsOf, h]

/-- **construct_wf_iff.**  An object returned by the constructor satisfies the invariant of C09 EXACTLY when the
    arguments satisfy the caller's guard: the constructor itself contributes `SelfChecked`, and neither adds to nor
    removes from what the caller passed for the rest. -/
theorem construct_wf_iff (massOf : String → Option Rat) (k : CtorArgs) (a : Atoms)
    (h : construct massOf k = .ok a) : WF a ↔ CallerGuard k := by
  rw [wf_iff_self_caller]
  have hs := construct_selfChecked massOf k a h
  obtain ⟨ms, _, c, rfl, _, _⟩ := construct_eq massOf k a h
  have hn : (build (resolvedWith k ms)).atoms.length = k.positions.length := by
    exact (buildAtoms_length _).trans c.types
  have hty := forall_mem_of_map _ _ _ (fun t => t < (elemsOf k).length) (buildAtoms_ty (resolvedWith k ms))
  unfold CallerPart CallerGuard
  rw [hn]
  constructor
  · rintro ⟨_, c1, c2, cb, cg, cd, ci⟩
    exact ⟨(atom_types_clause k).mp (hty.mp c1), c2, (kindCaller_iff _ _ c.bonds).mp cb, (kindCaller_iff _ _ c.angles).mp cg,
      (kindCaller_iff _ _ c.dihedrals).mp cd, (kindCaller_iff _ _ c.impropers).mp ci⟩
  · rintro ⟨c1, c2, cb, cg, cd, ci⟩
    exact ⟨hs, hty.mpr ((atom_types_clause k).mpr c1), c2, (kindCaller_iff _ _ c.bonds).mpr cb,
      (kindCaller_iff _ _ c.angles).mpr cg, (kindCaller_iff _ _ c.dihedrals).mpr cd, (kindCaller_iff _ _ c.impropers).mpr ci⟩

/-- **construct_wf.**  Guards: explicit type ids covered by `atom_type_elements`, term indices `<` number of atoms,
    coefficient tables (pair and per kind) absent or covering the ids.  Then the constructed object is `WF`. -/
theorem construct_wf (massOf : String → Option Rat) (k : CtorArgs) (a : Atoms)
    (h : construct massOf k = .ok a) (hg : CallerGuard k) : WF a :=
  (construct_wf_iff massOf k a h).mpr hg

/-- **construct_elements_wf.**  With per-atom `elements` (no explicit type ids) and no terms / coefficient tables the
    guard is empty: every such object the constructor returns is `WF`. -/
theorem construct_elements_wf (massOf : String → Option Rat) (k : CtorArgs) (a : Atoms)
    (h : construct massOf k = .ok a) (ht : k.atomTypes = []) (hp : k.pairCoeffs = [])
    (hb : k.bonds.tuples = []) (hg : k.angles.tuples = []) (hd : k.dihedrals.tuples = []) (hi : k.impropers.tuples = []) :
    WF a := by
  obtain ⟨_, _, c, _, _, _⟩ := construct_eq massOf k a h
  have nil_of : ∀ ka : KindArgs, ka.tuples = [] → ka.tuples.length = ka.types.length → ka.types = [] := by
    intro ka h1 h2; rw [h1] at h2; exact List.length_eq_zero_iff.mp h2.symm
  have kg : ∀ ka : KindArgs, ka.tuples = [] → ka.tuples.length = ka.types.length →
      KindGuard k.positions.length ka := by
    intro ka h1 h2
    refine ⟨(by rw [h1]; intro t ht; cases ht), Or.inr ?_⟩
    rw [nil_of ka h1 h2]; intro ty hty; cases hty
  exact construct_wf massOf k a h
    ⟨(by rw [ht]; intro t h'; cases h'), Or.inl hp, kg _ hb c.bonds, kg _ hg c.angles, kg _ hd c.dihedrals,
      kg _ hi c.impropers⟩

/-! ### `elements=`: the round trip element → type id → element -/

/-- **construct_elements_roundtrip.**  With `elements` given (and no `atom_types`): the type table is the list of
    distinct elements in the order of their first occurrence (no repetition); there is one atom per element; atom `i`
    has the type id at which its element first occurs in the table, and that id resolves back to `elements[i]`. -/
theorem construct_elements_roundtrip (massOf : String → Option Rat) (k : CtorArgs) (a : Atoms)
    (ht : k.atomTypes = []) (he : k.elements ≠ []) (h : construct massOf k = .ok a) :
    a.typeElems = dedup k.elements ∧ a.typeElems.Nodup ∧ a.atoms.length = k.elements.length
    ∧ ∀ (i : Nat) (e : String), k.elements[i]? = some e →
        ∃ row : AtomRow, a.atoms[i]? = some row ∧ a.typeElems[row.ty]? = some e ∧ indexOf? a.typeElems e = some row.ty
          ∧ ∀ j, j < row.ty → a.typeElems[j]? ≠ some e := by
  obtain ⟨ms, _, c, rfl, _, _⟩ := construct_eq massOf k a h
  have hne : k.elements.isEmpty = false := by
    cases hh : k.elements with
    | nil => exact absurd hh he
    | cons _ _ => rfl
  have hT : typesOf k = k.elements.map (fun e => (indexOf? (dedup k.elements) e).getD 0) := by
    simp [typesOf, ht, hne]
  have hE : elemsOf k = dedup k.elements := by simp [elemsOf, ht, hne]
  have hlen : (build (resolvedWith k ms)).atoms.length = k.elements.length := by
    rw [show (build (resolvedWith k ms)).atoms = buildAtoms (resolvedWith k ms) from rfl, buildAtoms_length]
    show (typesOf k).length = _
    rw [hT]; simp
  refine ⟨hE, ?_, hlen, ?_⟩
  · show (elemsOf k).Nodup
    rw [hE]; exact Cml.nodup_dedup _
  · intro i e hi
    have hil : i < k.elements.length := (List.getElem?_eq_some_iff.mp hi).1
    have hrow : ∃ row, (build (resolvedWith k ms)).atoms[i]? = some row := by
      have : i < (build (resolvedWith k ms)).atoms.length := by rw [hlen]; exact hil
      exact ⟨_, List.getElem?_eq_getElem this⟩
    obtain ⟨row, hrow⟩ := hrow
    have hty : row.ty = (indexOf? (dedup k.elements) e).getD 0 := by
      have h1 : ((build (resolvedWith k ms)).atoms.map (·.ty))[i]? = some row.ty := by
        rw [List.getElem?_map, hrow]; rfl
      rw [show (build (resolvedWith k ms)).atoms = buildAtoms (resolvedWith k ms) from rfl, buildAtoms_ty] at h1
      change (typesOf k)[i]? = some row.ty at h1
      rw [hT, List.getElem?_map, hi] at h1
      simpa using h1.symm
    have hmem : e ∈ k.elements := List.mem_of_getElem? hi
    obtain ⟨j, hj⟩ := Cml.indexOf?_of_mem _ e ((Cml.mem_dedup _ e).mpr hmem)
    rw [hj] at hty
    simp only [Option.getD_some] at hty
    refine ⟨row, hrow, ?_, ?_, ?_⟩
    · show (elemsOf k)[row.ty]? = some e
      rw [hE, hty]; exact Cml.indexOf?_getElem _ _ _ hj
    · show indexOf? (elemsOf k) e = some row.ty
      rw [hE, hty]; exact hj
    · intro j' hj'
      show (elemsOf k)[j']? ≠ some e
      rw [hE]
      exact Cml.indexOf?_first _ _ _ hj j' (by omega)

/-! ### defaults -/

/-- **construct_defaults.**  What the constructed object holds:
    positions, cell, pair and term coefficient tables, tuples and term type ids exactly as passed;
    charges / groups as passed, or all zero when omitted;
    labels as passed, or the element table when omitted;
    masses as passed, or `massOf` of each entry of the element table when omitted;
    extra rows of atoms as passed, or — when omitted — one "." per extra label. -/
theorem construct_defaults (massOf : String → Option Rat) (k : CtorArgs) (a : Atoms)
    (h : construct massOf k = .ok a) :
    a.atoms.map (·.pos) = k.positions ∧ a.cell = k.cell ∧ a.pairCoeffs = k.pairCoeffs
    ∧ (k.charges ≠ [] → a.atoms.map (·.charge) = k.charges)
    ∧ (k.charges = [] → ∀ row ∈ a.atoms, row.charge = 0)
    ∧ (k.groups ≠ [] → a.atoms.map (·.group) = k.groups)
    ∧ (k.groups = [] → ∀ row ∈ a.atoms, row.group = 0)
    ∧ (k.typeLabels ≠ [] → a.typeLabels = k.typeLabels)
    ∧ (k.typeLabels = [] → a.typeLabels = a.typeElems)
    ∧ (k.typeMasses ≠ [] → a.typeMasses = k.typeMasses)
    ∧ (k.typeMasses = [] → a.typeMasses.map some = a.typeElems.map massOf)
    ∧ (k.xfields = [] → ∀ row ∈ a.atoms, row.extra = List.replicate a.xlabels.length ".")
    ∧ (a.bonds.terms.map (·.atoms) = k.bonds.tuples ∧ a.bonds.terms.map (·.ty) = k.bonds.types
        ∧ a.bonds.coeffs = k.bonds.coeffs)
    ∧ (a.angles.terms.map (·.atoms) = k.angles.tuples ∧ a.angles.terms.map (·.ty) = k.angles.types
        ∧ a.angles.coeffs = k.angles.coeffs)
    ∧ (a.dihedrals.terms.map (·.atoms) = k.dihedrals.tuples ∧ a.dihedrals.terms.map (·.ty) = k.dihedrals.types
        ∧ a.dihedrals.coeffs = k.dihedrals.coeffs)
    ∧ (a.impropers.terms.map (·.atoms) = k.impropers.tuples ∧ a.impropers.terms.map (·.ty) = k.impropers.types
        ∧ a.impropers.coeffs = k.impropers.coeffs) := by
  obtain ⟨ms, hm, c, rfl, _, _⟩ := construct_eq massOf k a h
  have hpos : (buildAtoms (resolvedWith k ms)).map (·.pos) = k.positions := by
    simp only [buildAtoms, List.map_map, Function.comp_def]
    exact range_map_getD _ _ _ c.types.symm
  have hch : (buildAtoms (resolvedWith k ms)).map (·.charge) = chargesOf k := by
    simp only [buildAtoms, List.map_map, Function.comp_def]
    exact range_map_getD _ _ _ (c.charges.trans c.types.symm)
  have hgr : (buildAtoms (resolvedWith k ms)).map (·.group) = groupsOf k := by
    simp only [buildAtoms, List.map_map, Function.comp_def]
    exact range_map_getD _ _ _ (c.groups.trans c.types.symm)
  have zero_of : ∀ {β γ} (l : List β) (f : β → γ) (z : γ) (n : Nat), l.map f = List.replicate n z →
      ∀ x ∈ l, f x = z := by
    intro β γ l f z n hl x hx
    have : f x ∈ l.map f := List.mem_map_of_mem hx
    rw [hl] at this
    exact (List.mem_replicate.mp this).2
  refine ⟨hpos, rfl, rfl, ?_, ?_, ?_, ?_, ?_, ?_, ?_, ?_, ?_,
    ⟨buildKind_atoms _ c.bonds, buildKind_ty _, rfl⟩, ⟨buildKind_atoms _ c.angles, buildKind_ty _, rfl⟩,
    ⟨buildKind_atoms _ c.dihedrals, buildKind_ty _, rfl⟩, ⟨buildKind_atoms _ c.impropers, buildKind_ty _, rfl⟩⟩
  · intro hne
    show (buildAtoms _).map (·.charge) = _
    rw [hch]; unfold chargesOf
    cases hh : k.charges with
    | nil => exact absurd hh hne
    | cons _ _ => rfl
  · intro he
    apply zero_of _ _ _ k.positions.length
    show (buildAtoms _).map (·.charge) = _
    rw [hch]; simp [chargesOf, he]
  · intro hne
    show (buildAtoms _).map (·.group) = _
    rw [hgr]; unfold groupsOf
    cases hh : k.groups with
    | nil => exact absurd hh hne
    | cons _ _ => rfl
  · intro he
    apply zero_of _ _ _ k.positions.length
    show (buildAtoms _).map (·.group) = _
    rw [hgr]; simp [groupsOf, he]
  · intro hne
    show labelsOf k = _
    unfold labelsOf
    cases hh : k.typeLabels with
    | nil => exact absurd hh hne
    | cons _ _ => rfl
  · intro he
    show labelsOf k = elemsOf k
    simp [labelsOf, he]
  · intro hne
    show ms = _
    unfold massesOf at hm
    cases hh : k.typeMasses with
    | nil => exact absurd hh hne
    | cons x xs => rw [hh] at hm; simpa using hm.symm
  · intro he
    show ms.map some = (elemsOf k).map massOf
    unfold massesOf at hm
    rw [he] at hm
    cases hel : elemsOf k with
    | nil => rw [hel] at hm; simp at hm; subst hm; rfl
    | cons x xs =>
      rw [hel] at hm
      simp only [List.isEmpty_nil, List.isEmpty_cons, Bool.not_false, Bool.and_self, if_true] at hm
      exact allSome_map _ _ hm
  · intro he row hrow
    obtain ⟨i, hi, _, hx⟩ := mem_buildAtoms _ row hrow
    rw [hx]
    -- the default table: `n` rows of "." as wide as the label list; the width check makes that the label set
    have hw := c.xa2
    have hr := c.xa1
    change (dedup k.xlabels).length = (fixX (dedup k.xlabels) (shaped k.xfields (typesOf k).length k.xlabels.length)
      (typesOf k).length).width at hw
    change (fixX (dedup k.xlabels) (shaped k.xfields (typesOf k).length k.xlabels.length)
      (typesOf k).length).rows.length = (typesOf k).length at hr
    show ((fixX (dedup k.xlabels) (shaped k.xfields (typesOf k).length k.xlabels.length)
      (typesOf k).length).rows.getD i []) = List.replicate (dedup k.xlabels).length "."
    have hi' : i < (typesOf k).length := hi
    simp only [shaped, he, List.isEmpty_nil, if_true, fixX, List.length_replicate, bne_self_eq_false, Bool.and_false,
      Bool.false_eq_true, if_false] at hw hr ⊢
    rw [hw, List.getD_eq_getElem?_getD, List.getElem?_replicate]
    simp [hi']

/-! ### non-vacuity -/

deriving instance DecidableEq for Except

/-- **construct_tables_only.**  A structure WITHOUT atoms keeps the type tables it is given (fix 84d3f69: the
    no-atoms branch used to drop `atom_type_elements`): the element table is the passed one, labels default to it,
    masses are looked up for it — so `Atoms(atom_type_elements=[…], pair_coeffs=[…], …)` is a consistent, extendable
    starting point of a history. -/
theorem construct_tables_only (massOf : String → Option Rat) (k : CtorArgs) (a : Atoms)
    (h1 : k.atomTypes = []) (h2 : k.elements = []) (h : construct massOf k = .ok a) :
    a.atoms = [] ∧ a.typeElems = k.typeElems
    ∧ (k.typeLabels = [] → a.typeLabels = k.typeElems)
    ∧ (k.typeLabels ≠ [] → a.typeLabels = k.typeLabels)
    ∧ (k.typeMasses = [] → a.typeMasses.map some = k.typeElems.map massOf)
    ∧ (k.typeMasses ≠ [] → a.typeMasses = k.typeMasses) := by
  have hd := construct_defaults massOf k a h
  obtain ⟨ms, hm, c, rfl, _, _⟩ := construct_eq massOf k a h
  have hE : elemsOf k = k.typeElems := by simp [elemsOf, h1, h2]
  have hT : typesOf k = [] := by simp [typesOf, h1, h2]
  have hel : (build (resolvedWith k ms)).typeElems = k.typeElems := hE
  have hpos : k.positions = [] := by
    have := c.types
    simp only [resolvedWith, hT, List.length_nil] at this
    exact List.eq_nil_of_length_eq_zero (by omega)
  have hat : (build (resolvedWith k ms)).atoms = [] := by
    have := hd.1
    rw [hpos] at this
    exact List.map_eq_nil_iff.mp this
  refine ⟨hat, hel, ?_, hd.2.2.2.2.2.2.2.1, ?_, hd.2.2.2.2.2.2.2.2.2.1⟩
  · intro hl; rw [hd.2.2.2.2.2.2.2.2.1 hl, hel]
  · intro hmz; rw [hd.2.2.2.2.2.2.2.2.2.2.1 hmz, hel]

/-- a small mass table for the examples (the theorems hold for every lookup) -/
def exMass (s : String) : Option Rat :=
  if s = "C" then some 12 else if s = "H" then some 1 else if s = "O" then some 16 else none

/-- `elements=` mode: methanol-like, one bond kind with table and an extra column, default charges / masses / labels -/
def exEl : CtorArgs :=
  { positions := [⟨0, 0, 0⟩, ⟨1, 0, 0⟩, ⟨1, 1, 0⟩, ⟨2, 0, 0⟩]
    elements := ["H", "C", "H", "O"]
    groups := [0, 0, 0, 1]
    bonds := { tuples := [[0, 1], [1, 2], [1, 3]], types := [0, 0, 1], coeffs := ["k CH", "k CO"], xlabels := ["_tag"] }
    xlabels := ["_occ"], xfields := [["1"], ["1"], ["0.5"], ["1"]] }

/-- explicit types mode: labels ≠ elements, masses passed, pair table, an angle -/
def exTy : CtorArgs :=
  { atomTypes := [1, 0, 1], positions := [⟨0, 0, 0⟩, ⟨1, 0, 0⟩, ⟨2, 0, 0⟩]
    typeElems := ["C", "Qq"], typeLabels := ["C_3", "X_1"], typeMasses := [12, 5/2]
    charges := [1/2, -1, 1/2], pairCoeffs := ["pC", "pX"]
    angles := { tuples := [[0, 1, 2]], types := [0], coeffs := ["cosine 1"] } }

example : CtorOk exMass exEl ∧ CallerGuard exEl ∧ CtorOk exMass exTy ∧ CallerGuard exTy := by decide +kernel

example : ∃ a, construct exMass exEl = .ok a ∧ WF a
    ∧ a.typeElems = ["H", "C", "O"] ∧ a.atoms.map (·.ty) = [0, 1, 0, 2] ∧ a.typeMasses = [1, 12, 16]
    ∧ a.typeLabels = ["H", "C", "O"] ∧ a.atoms.map (·.charge) = [0, 0, 0, 0]
    ∧ a.bonds.terms.map (·.extra) = [["."], ["."], ["."]] := by
  refine ⟨_, rfl, by decide +kernel, by decide +kernel, by decide +kernel, by decide +kernel, by decide +kernel, by decide +kernel, by decide +kernel⟩

example : ∃ a, construct exMass exTy = .ok a ∧ WF a ∧ a.typeMasses = [12, 5/2] := by
  refine ⟨_, rfl, by decide +kernel, by decide +kernel⟩

/-- tables only: `Atoms(atom_type_elements=["C", "H"])` keeps the table, derives labels and masses, and is `WF` -/
example : ∃ a, construct exMass { typeElems := ["C", "H"] } = .ok a ∧ a.atoms = [] ∧ a.typeElems = ["C", "H"]
    ∧ a.typeLabels = ["C", "H"] ∧ a.typeMasses.length = 2 ∧ WF a := by
  refine ⟨_, rfl, by decide +kernel, by decide +kernel, by decide +kernel, by decide +kernel, by decide +kernel⟩
example : ∃ a, construct exMass { typeElems := ["C"], typeLabels := ["C1"], typeMasses := [12], pairCoeffs := ["p"] } = .ok a
    ∧ a.typeElems = ["C"] ∧ a.typeLabels = ["C1"] ∧ a.typeMasses = [12] ∧ WF a := by
  refine ⟨_, rfl, by decide +kernel, by decide +kernel, by decide +kernel, by decide +kernel⟩

/-- `Atoms()` -/
example : construct exMass {} = .ok Atoms.empty := by decide +kernel

/-- the caller's part is really the caller's: the constructor accepts a bond to a non-existing atom, a type id
    without table entry and a coefficient table that is too short — and the result is not `WF` -/
example : ∃ a, construct exMass { exEl with bonds := { tuples := [[0, 7]], types := [0] } } = .ok a ∧ ¬ WF a := by
  refine ⟨_, rfl, by decide +kernel⟩
example : ∃ a, construct exMass { exTy with atomTypes := [1, 0, 5] } = .ok a ∧ ¬ WF a := by
  refine ⟨_, rfl, by decide +kernel⟩
example : ∃ a, construct exMass { exTy with angles := { exTy.angles with types := [3] } } = .ok a ∧ ¬ WF a := by
  refine ⟨_, rfl, by decide +kernel⟩
/-- the docstring's `Atoms(atom_types=[0], positions=[[0,0,0]])`: accepted, no type table at all, not `WF` -/
example : ∃ a, construct exMass { atomTypes := [0], positions := [⟨0, 0, 0⟩] } = .ok a ∧ ¬ WF a := by
  refine ⟨_, rfl, by decide +kernel⟩

/-- rejections, each by the check the code reaches first -/
example : construct exMass { exEl with elements := ["H", "C", "H", "Xx"] } = .error eKey := by decide +kernel
example : construct exMass { exEl with charges := [1] } = .error (eLen "charges") := by decide +kernel
example : construct exMass { exEl with elements := ["H", "C", "H"] } = .error (eLen "atom_types") := by decide +kernel
example : construct exMass { exTy with typeLabels := ["only"] } = .error (eLen "labels") := by decide +kernel
example : construct exMass { exTy with typeMasses := [12] } = .error (eLen "masses") := by decide +kernel
example : construct exMass { exEl with bonds := { exEl.bonds with types := [0, 0] } } = .error (eLen "bonds") := by decide +kernel
example : construct exMass { exEl with xfields := [["1"], ["1"]] } = .error (eRows "atom") := by decide +kernel
example : construct exMass { exEl with xfields := [["1", "2"], ["1", "2"], ["1", "2"], ["1", "2"]] }
    = .error (eWidth "atom") := by decide +kernel
example : construct exMass { exEl with xfields := [["1", "2"], ["1"], ["1"], ["1"]] } = .error eShape := by decide +kernel
/-- an unknown element is no obstacle when the masses are passed -/
example : (construct exMass exTy).toOption.isSome = true := by decide +kernel
/-- a repeated extra label with the DEFAULT fields is rejected (default as wide as the list, checked against the set) -/
example : construct exMass { exEl with xlabels := ["_o", "_o"], xfields := [] } = .error (eWidth "atom") := by decide +kernel
/-- fields without labels and with the wrong number of rows are silently replaced by empty rows -/
example : ∃ a, construct exMass { exEl with xlabels := [], xfields := [["1"]] } = .ok a
    ∧ a.atoms.map (·.extra) = [[], [], [], []] := by
  refine ⟨_, rfl, by decide +kernel⟩

end Mofun.Construct
