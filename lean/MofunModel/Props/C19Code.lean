/-
  C19Code.lean — the GENERATED translation of `helpers.typekey` (re-translated from the python source text on every
  run by harness/gen_code.py into Generated/Code.lean) IS the model's `Terms.typekey`, on which the C19 theorems
  (and the term typing of C06/C18) are built.

  The generated definition is generic in the element type, like the model's.  The equivalence is stated for element
  types whose `<` is asymmetric and trichotomous (python str and int, Lean `String` and `Nat`): for those the proof
  also accepts the meaning-preserving variants (`<` instead of `<=`: when the reversed tuple equals the tuple both
  branches return the same value), and it rejects every variant that returns a different tuple.
-/
import MofunModel.Proofs.CodeLemmas
import MofunModel.Proofs.Code2Terms

namespace Mofun.C19Code
open Mofun Mofun.Generated Mofun.CodeLemmas

/-- for ALL lists over a strictly totally ordered element type: translated `typekey` = `Terms.typekey` -/
theorem typekey_eq {α} [LT α] [DecidableEq α] [DecidableLT α] [Std.Asymm (α := α) (· < ·)]
    [Std.Trichotomous (α := α) (· < ·)] (t : List α) :
    Generated.Code.typekey t = Terms.typekey t := by
  unfold Generated.Code.typekey Terms.typekey
  first
  | rfl
  | (simp only []
     split <;> split <;>
       first
       | rfl
       | (rename_i h1 h2; exact absurd (List.le_of_lt h1) h2)
       | (rename_i h1 h2; exact List.le_antisymm (List.not_lt.mp h1) h2)
       | (rename_i h1 h2; exact (List.le_antisymm h2 (List.not_lt.mp h1)).symm))

/-- tuples of UFF type labels (bond / angle / dihedral keys) -/
theorem typekey_eq_str (t : List String) : Generated.Code.typekey t = Terms.typekey t := typekey_eq t

/-- tuples of atom indices (`typekey([a2, a3])` of `assign_dihedral_types`) -/
theorem typekey_eq_nat (t : List Nat) : Generated.Code.typekey t = Terms.typekey t := typekey_eq t

example : Generated.Code.typekey ["O_3", "C_R", "C_3"] = ["C_3", "C_R", "O_3"] := by decide
example : Generated.Code.typekey [1, 5, 3] = [1, 5, 3] := by decide

/-! ### delete_if_all_in_set (second batch) -/

open Mofun.Code2Terms in
/-- the per-tuple decision `len(set(tup) - s) == 0` is the model's `allInSet` -/
theorem allInSet_decision (s t : List Nat) :
    (Generated.Py.setLen (Generated.Py.setDiff t s) = 0) ↔ Terms.allInSet s t = true := setDiff_empty s t

open Mofun.Code2Terms in
/-- for ALL term arrays and exclusion sets: the translated `delete_if_all_in_set` (index collection over
    `enumerate`, then `np.delete(arr, deletion_list, axis=0)`) = `Terms.deleteIfAllInSet` (a filter) -/
theorem deleteIfAllInSet_eq (arr : List (List Nat)) (s : List Nat) :
    Generated.Code.deleteIfAllInSet arr s = Terms.deleteIfAllInSet arr s := by
  unfold Generated.Code.deleteIfAllInSet Terms.deleteIfAllInSet Generated.Py.npDelete Generated.Py.enumerate
  simp only [forFold_eq_foldl]
  have e : ∀ (acc : List Nat) (p : Nat × List Nat),
      (if Generated.Py.setLen (Generated.Py.setDiff p.2 s) = 0 then acc ++ [p.1] else acc) =
        if Terms.allInSet s p.2 then acc ++ [p.1] else acc := by
    intro acc p
    by_cases h : Terms.allInSet s p.2 = true
    · simp [h, (setDiff_empty s p.2).mpr h]
    · have : ¬ Generated.Py.setLen (Generated.Py.setDiff p.2 s) = 0 := fun h' => h ((setDiff_empty s p.2).mp h')
      simp [h, this]
  have e' : ∀ (t : List Nat), Generated.Py.setSubset t s = Terms.allInSet s t := fun _ => rfl
  have := collect_eq (fun t => Terms.allInSet s t) arr 0 []
  simp only [List.nil_append] at this
  simp only [e, e']
  rw [this, deleteIdx_collected]

example : Generated.Code.deleteIfAllInSet [[0, 1], [1, 2], [2, 3]] [0, 1, 2] = [[2, 3]] := by decide

end Mofun.C19Code
