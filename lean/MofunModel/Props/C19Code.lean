/-
  C19Code.lean — the GENERATED translation of `helpers.typekey` (re-translated from the python source text on every
  run by harness/gen_code.py into Generated/Code.lean) IS the model's `Terms.typekey`, on which the C19 theorems
  (and the term typing of C06/C18) are built.

  The generated definition is generic in the element type, like the model's.  The equivalence is stated for element
  types whose `<` is asymmetric and trichotomous (python str and int, Lean `String` and `Nat`): for those the proof
  also accepts the meaning-preserving variants (`<` instead of `<=`: when the reversed tuple equals the tuple both
  branches return the same value), and it rejects every variant that returns a different tuple.
-/
import MofunModel.Proofs.CodeLemmas

namespace Mofun.C19Code
open Mofun Mofun.Generated Mofun.CodeLemmas

/-- for ALL lists over a strictly totally ordered element type: translated `typekey` = `Terms.typekey` -/
theorem typekey_eq {α} [LT α] [DecidableEq α] [DecidableLT α] [Std.Asymm (α := α) (· < ·)]
    [Std.Trichotomous (α := α) (· < ·)] (t : List α) :
    Generated.Code.typekey t = Terms.typekey t := by
  unfold Generated.Code.typekey Terms.typekey
  first
  | rfl
  | (simp only []
     split <;> split <;>
       first
       | rfl
       | (rename_i h1 h2; exact absurd (List.le_of_lt h1) h2)
       | (rename_i h1 h2; exact List.le_antisymm (List.not_lt.mp h1) h2)
       | (rename_i h1 h2; exact (List.le_antisymm h2 (List.not_lt.mp h1)).symm))

/-- tuples of UFF type labels (bond / angle / dihedral keys) -/
theorem typekey_eq_str (t : List String) : Generated.Code.typekey t = Terms.typekey t := typekey_eq t

/-- tuples of atom indices (`typekey([a2, a3])` of `assign_dihedral_types`) -/
theorem typekey_eq_nat (t : List Nat) : Generated.Code.typekey t = Terms.typekey t := typekey_eq t

example : Generated.Code.typekey ["O_3", "C_R", "C_3"] = ["C_3", "C_R", "O_3"] := by decide
example : Generated.Code.typekey [1, 5, 3] = [1, 5, 3] := by decide

end Mofun.C19Code
