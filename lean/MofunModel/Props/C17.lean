/-
  C17 — bond detection equals the minimum-image covalent-radius rule.
  Property theorems only (helper lemmas: Proofs/BondsLemmas.lean).  Model: Model/Bonds.lean
  (`maxBondLength` = `max_bond_length`, `detectBonds` = `detect_bonds`; tables: Generated/Radii.lean).

  Vocabulary (Proofs/BondsLemmas.lean):
    `Bonded offs (e₁,p₁) (e₂,p₂)`  := ∃ c, maxBondLength e₁ e₂ = some c ∧ ∃ o ∈ offs, ‖p₁ + o − p₂‖² < c²   (the code's test)
    `MinImage L p₁ p₂ c`           := ∃ n₁ n₂ n₃ : ℤ, ‖p₁ + n₁A + n₂B + n₃C − p₂‖² < c²                    (the rule)
    `pairLt`                        := lexicographic order on index pairs
  "the smallest distance over all periodic images is below the cutoff" is stated as "some image is below the
  cutoff" (`MinImage`); the two are the same statement whenever the minimum exists (it does for a lattice).
-/
import MofunModel.Proofs.BondsLemmas

namespace Mofun
open Bonds

/-- **cutoff_pos.** Every cutoff `max_bond_length` can return over the generated radii / non-metal tables is
    positive, so `dist < cutoff ⟺ dist² < cutoff²` (`cutoff_sqrt_free`) and the `0 < c` conjunct of the model's
    comparison never decides. Re-checked by the kernel whenever a table entry changes. -/
theorem cutoff_pos (e1 e2 : String) (c : Rat) (h : maxBondLength e1 e2 = some c) : 0 < c :=
  maxBondLength_pos e1 e2 c h

/-- the sqrt-free encoding, in any ordered field (for the reals: `d = √dist²`) -/
theorem cutoff_sqrt_free {K} [Field K] [LinearOrder K] [IsStrictOrderedRing K] (d c : K) (hd : 0 ≤ d)
    (hc : 0 < c) : d < c ↔ d * d < c * c :=
  lt_iff_mul_self_lt d c hd hc

/-- **max_bond_length_spec.** The cutoff is the sum of the two table radii, plus 9/20 exactly when at least one of
    the two elements is a non-metal; it is undefined (KeyError) exactly when an element has no radius. -/
theorem max_bond_length_spec (e1 e2 : String) :
    maxBondLength e1 e2 =
      match lookup Generated.covalentRadii e1, lookup Generated.covalentRadii e2 with
      | some r1, some r2 =>
        some (r1.toRat + r2.toRat + (if e1 ∈ Generated.nonMetals ∨ e2 ∈ Generated.nonMetals then 9 / 20 else 0))
      | _, _ => none := by
  unfold maxBondLength maxBondLengthIn nonMetalAllowance
  cases lookup Generated.covalentRadii e1 <;> cases lookup Generated.covalentRadii e2 <;> simp only []
  by_cases h1 : e1 ∈ Generated.nonMetals <;> by_cases h2 : e2 ∈ Generated.nonMetals <;> simp [h1, h2]

theorem max_bond_length_symm (e1 e2 : String) : maxBondLength e1 e2 = maxBondLength e2 e1 :=
  maxBondLength_comm e1 e2

/-- **bonds_pairs_spec.** The result lists exactly the pairs `i < j` for which some of the searched images of atom
    `i` (27 with a cell, the atom itself without) is strictly within the cutoff of atom `j`; it is strictly
    increasing in lexicographic order — hence every pair occurs once, in `(i, j)` order. -/
theorem bonds_pairs_spec (elems : List String) (pos : List Vec3) (cell : Option Mat3) (r : List (Nat × Nat))
    (h : detectBonds elems pos cell = .ok r) :
    (∀ i j, (i, j) ∈ r ↔ i < j ∧ ∃ e1 p1 e2 p2, elems[i]? = some e1 ∧ pos[i]? = some p1 ∧ elems[j]? = some e2
        ∧ pos[j]? = some p2 ∧ Bonded (bondOffsets cell) (e1, p1) (e2, p2))
    ∧ r.Pairwise pairLt ∧ r.Nodup := by
  unfold detectBonds at h
  split at h
  · cases h
  · obtain ⟨hmem, hsorted⟩ := bondPairs_ok _ _ 0 r h
    refine ⟨?_, hsorted, nodup_of_pairwise_pairLt r hsorted⟩
    intro i j
    rw [hmem]
    constructor
    · rintro ⟨k, l, ⟨e1, p1⟩, ⟨e2, p2⟩, hi, hj, hk, hl, ht⟩
      have hi' : i = k := by omega
      have hj' : j = k + 1 + l := by omega
      subst hi' hj'
      obtain ⟨h1, h2⟩ := List.getElem?_zip_eq_some.mp hk
      obtain ⟨h3, h4⟩ := List.getElem?_zip_eq_some.mp hl
      exact ⟨by omega, e1, p1, e2, p2, h1, h2, h3, h4, (bondTest_true_iff _ _ _).mp ht⟩
    · rintro ⟨hlt, e1, p1, e2, p2, h1, h2, h3, h4, hb⟩
      refine ⟨i, j - i - 1, (e1, p1), (e2, p2), by omega, by omega, List.getElem?_zip_eq_some.mpr ⟨h1, h2⟩, ?_,
        (bondTest_true_iff _ _ _).mpr hb⟩
      have : i + 1 + (j - i - 1) = j := by omega
      rw [this]
      exact List.getElem?_zip_eq_some.mpr ⟨h3, h4⟩

/-- **bonds_ok_iff.** `detect_bonds` returns (rather than raising `KeyError`) exactly when there are fewer than two
    atoms or every element has a radius; the only failure of a well-formed structure is that `KeyError`. -/
theorem bonds_ok_iff (elems : List String) (pos : List Vec3) (cell : Option Mat3) (hlen : elems.length = pos.length) :
    ((∃ r, detectBonds elems pos cell = .ok r) ↔
      (pos.length < 2 ∨ ∀ e ∈ elems, (lookup Generated.covalentRadii e).isSome))
    ∧ ∀ e, detectBonds elems pos cell = .error e → e = .reject "KeyError" := by
  have hdef : detectBonds elems pos cell = bondPairs (bondTest (bondOffsets cell)) 0 (elems.zip pos) := by
    unfold detectBonds; simp [hlen]
  have herr : ∀ e, detectBonds elems pos cell = .error e →
      e = .reject "KeyError" ∧ ∃ a ∈ elems.zip pos, ∃ b ∈ elems.zip pos, maxBondLength a.1 b.1 = none := by
    intro e he
    rw [hdef] at he
    obtain ⟨a, ha, b, hb, hab⟩ := bondPairs_error _ _ 0 e he
    obtain ⟨h1, h2⟩ := bondTest_error _ a b e hab
    exact ⟨h1, a, ha, b, hb, h2⟩
  refine ⟨⟨?_, ?_⟩, fun e he => (herr e he).1⟩
  · rintro ⟨r, hr⟩
    by_cases hn : pos.length < 2
    · exact Or.inl hn
    · right
      intro e he
      rw [hdef] at hr
      obtain ⟨m, hme⟩ := List.getElem?_of_mem he
      have hm : m < elems.length := (List.getElem?_eq_some_iff.mp hme).1
      have hget : ∀ k, k < elems.length →
          ∃ e p, elems[k]? = some e ∧ (elems.zip pos)[k]? = some (e, p) := by
        intro k hk
        have hk' : k < pos.length := by omega
        exact ⟨elems[k], pos[k], by simp, List.getElem?_zip_eq_some.mpr ⟨by simp, by simp⟩⟩
      have hsome : ∀ (a b : BAtom) (v : Bool), bondTest (bondOffsets cell) a b = .ok v →
          (lookup Generated.covalentRadii a.1).isSome ∧ (lookup Generated.covalentRadii b.1).isSome := by
        intro a b v hv
        apply (maxBondLength_isSome _ _).mp
        unfold bondTest at hv
        cases hc : maxBondLength a.1 b.1 with
        | none => rw [hc] at hv; cases hv
        | some c => rfl
      obtain ⟨e0, p0, he0, hz0⟩ := hget 0 (by omega)
      cases m with
      | zero =>
        obtain ⟨e1, p1, _, hz1⟩ := hget 1 (by omega)
        obtain ⟨v, hv⟩ := bondPairs_tested _ _ 0 r hr 0 0 _ _ hz0 hz1
        have := (hsome _ _ v hv).1
        rw [he0] at hme; cases hme
        exact this
      | succ m =>
        obtain ⟨e1, p1, he1, hz1⟩ := hget (m + 1) hm
        have hidx : 0 + 1 + m = m + 1 := by omega
        rw [← hidx] at hz1
        obtain ⟨v, hv⟩ := bondPairs_tested _ _ 0 r hr 0 m _ _ hz0 hz1
        have := (hsome _ _ v hv).2
        rw [he1] at hme; cases hme
        exact this
  · intro hcase
    cases hres : detectBonds elems pos cell with
    | ok r => exact ⟨r, rfl⟩
    | error e =>
      exfalso
      obtain ⟨_, a, ha, b, hb, hnone⟩ := herr e hres
      rcases hcase with hn | hknown
      · rw [hdef] at hres
        have hl : (elems.zip pos).length < 2 := by simp [List.length_zip, hlen]; omega
        match hz : elems.zip pos, hl with
        | [], _ => rw [hz] at hres; simp [bondPairs] at hres
        | [x], _ => rw [hz] at hres; simp [bondPairs, bondRow] at hres
      · have h1 := hknown a.1 (List.of_mem_zip ha).1
        have h2 := hknown b.1 (List.of_mem_zip hb).1
        have := (maxBondLength_isSome a.1 b.1).mpr ⟨h1, h2⟩
        rw [hnone] at this
        cases this

/-- **bonds_eq_minimage** (the key geometric theorem, full triclinic generality).  Guards (`bondGuards`, one
    executable `Bool`): `det L ≠ 0`; every atom has fractional coordinates in `[0,1)`; for every cutoff `c` in use
    and each of the three faces, `c²·‖A_i × A_j‖² ≤ det²` (perpendicular width ≥ cutoff).  Then the 27 images the code
    searches decide the minimum-image rule: `(i, j)` is reported iff `i < j` and SOME lattice translate
    `pos_i + n₁A + n₂B + n₃C`, `n ∈ ℤ³`, is strictly within the cutoff of `pos_j`. -/
theorem bonds_eq_minimage (elems : List String) (pos : List Vec3) (L : Mat3) (r : List (Nat × Nat))
    (h : detectBonds elems pos (some L) = .ok r) (hg : bondGuards elems pos L = true) :
    ∀ i j, (i, j) ∈ r ↔ i < j ∧ ∃ e1 p1 e2 p2 c, elems[i]? = some e1 ∧ pos[i]? = some p1 ∧ elems[j]? = some e2
        ∧ pos[j]? = some p2 ∧ maxBondLength e1 e2 = some c ∧ MinImage L p1 p2 c := by
  obtain ⟨hdet, hin, hw⟩ := (bondGuards_iff elems pos L).mp hg
  intro i j
  rw [(bonds_pairs_spec elems pos (some L) r h).1]
  constructor
  · rintro ⟨hlt, e1, p1, e2, p2, h1, h2, h3, h4, hb⟩
    obtain ⟨c, hc, hm⟩ := (bonded_iff_minImage L (e1, p1) (e2, p2) hdet (hin p1 (List.mem_of_getElem? h2))
      (hin p2 (List.mem_of_getElem? h4))
      (hw e1 (List.mem_of_getElem? h1) e2 (List.mem_of_getElem? h3))).mp hb
    exact ⟨hlt, e1, p1, e2, p2, c, h1, h2, h3, h4, hc, hm⟩
  · rintro ⟨hlt, e1, p1, e2, p2, c, h1, h2, h3, h4, hc, hm⟩
    exact ⟨hlt, e1, p1, e2, p2, h1, h2, h3, h4,
      (bonded_iff_minImage L (e1, p1) (e2, p2) hdet (hin p1 (List.mem_of_getElem? h2))
        (hin p2 (List.mem_of_getElem? h4))
        (hw e1 (List.mem_of_getElem? h1) e2 (List.mem_of_getElem? h3))).mpr ⟨c, hc, hm⟩⟩

/-- **bonds_nocell.** Without a cell the rule is the plain distance. -/
theorem bonds_nocell (elems : List String) (pos : List Vec3) (r : List (Nat × Nat))
    (h : detectBonds elems pos none = .ok r) :
    ∀ i j, (i, j) ∈ r ↔ i < j ∧ ∃ e1 p1 e2 p2 c, elems[i]? = some e1 ∧ pos[i]? = some p1 ∧ elems[j]? = some e2
        ∧ pos[j]? = some p2 ∧ maxBondLength e1 e2 = some c ∧ distSq p1 p2 < c * c := by
  intro i j
  rw [(bonds_pairs_spec elems pos none r h).1]
  constructor
  · rintro ⟨hlt, e1, p1, e2, p2, h1, h2, h3, h4, c, hc, o, ho, hd⟩
    simp only [bondOffsets, List.mem_singleton] at ho
    subst ho
    rw [distSq_add_zero] at hd
    exact ⟨hlt, e1, p1, e2, p2, c, h1, h2, h3, h4, hc, hd⟩
  · rintro ⟨hlt, e1, p1, e2, p2, c, h1, h2, h3, h4, hc, hd⟩
    refine ⟨hlt, e1, p1, e2, p2, h1, h2, h3, h4, c, hc, Vec3.zero, by simp [bondOffsets], ?_⟩
    rw [distSq_add_zero]; exact hd

/-- **bonds_shift_invariant** (pair level): the right-hand side of `bonds_eq_minimage` does not change when both atoms
    are shifted by the same vector and wrapped back into the cell. -/
theorem minimage_shift_invariant (L : Mat3) (p q t : Vec3) (c : Rat) (hdet : L.det ≠ 0) :
    MinImage L (L.wrap (p + t)) (L.wrap (q + t)) c ↔ MinImage L p q c :=
  minImage_shift_wrap L p q t c hdet

/-- **bonds_shift_invariant** (structure level): within the guards, shifting the whole structure by any vector and
    wrapping every atom back into the cell leaves the detected bond list unchanged (the wrapped structure again
    satisfies the guards). -/
theorem bonds_shift_invariant (elems : List String) (pos : List Vec3) (L : Mat3) (t : Vec3)
    (hg : bondGuards elems pos L = true) :
    detectBonds elems (pos.map (fun p => L.wrap (p + t))) (some L) = detectBonds elems pos (some L)
    ∧ bondGuards elems (pos.map (fun p => L.wrap (p + t))) L = true := by
  obtain ⟨hdet, hin, hw⟩ := (bondGuards_iff elems pos L).mp hg
  constructor
  · unfold detectBonds
    rw [List.length_map]
    split
    · rfl
    · have hz : elems.zip (pos.map (fun p => L.wrap (p + t)))
          = (elems.zip pos).map (fun a : BAtom => (a.1, L.wrap (a.2 + t))) := by
        rw [List.zip_map_right]; rfl
      rw [hz]
      apply bondPairs_map
      intro a ha b hb
      have hae := (List.of_mem_zip ha)
      have hbe := (List.of_mem_zip hb)
      unfold bondTest
      simp only []
      cases hc : maxBondLength a.1 b.1 with
      | none => rfl
      | some c =>
        simp only [Except.ok.injEq]
        have hcpos := maxBondLength_pos _ _ _ hc
        have hwc := hw a.1 hae.1 b.1 hbe.1 c hc
        rw [Bool.eq_iff_iff, withinCutoff_iff _ _ _ _ hcpos, withinCutoff_iff _ _ _ _ hcpos]
        simp only [bondOffsets]
        rw [images27_iff_minImage L _ _ c hdet (wrap_inside L _ hdet) (wrap_inside L _ hdet) hwc,
          images27_iff_minImage L _ _ c hdet (hin _ hae.2) (hin _ hbe.2) hwc]
        exact minImage_shift_wrap L a.2 b.2 t c hdet
  · rw [bondGuards_iff]
    refine ⟨hdet, ?_, hw⟩
    intro p hp
    obtain ⟨p0, _, rfl⟩ := List.mem_map.mp hp
    exact wrap_inside L _ hdet

/-- **bonds_perm_equivariant.** Reordering the atoms renames the bonds: if atom `k` of the second structure is atom
    `σ k` of the first (`σ` injective on the indices), then `(k, l)` is reported for the second structure iff the pair
    `{σ k, σ l}` (smaller index first) is reported for the first.  No geometric guard is needed. -/
theorem bonds_perm_equivariant (elems elems' : List String) (pos pos' : List Vec3) (cell : Option Mat3)
    (r r' : List (Nat × Nat)) (σ : Nat → Nat)
    (h : detectBonds elems pos cell = .ok r) (h' : detectBonds elems' pos' cell = .ok r')
    (hσ : ∀ k, k < pos'.length → elems'[k]? = elems[σ k]? ∧ pos'[k]? = pos[σ k]?)
    (hinj : ∀ k l, k < pos'.length → l < pos'.length → σ k = σ l → k = l) :
    ∀ k l, (k, l) ∈ r' ↔ k < l ∧ l < pos'.length ∧ ((σ k, σ l) ∈ r ∨ (σ l, σ k) ∈ r) := by
  intro k l
  rw [(bonds_pairs_spec elems' pos' cell r' h').1, (bonds_pairs_spec elems pos cell r h).1,
    (bonds_pairs_spec elems pos cell r h).1]
  constructor
  · rintro ⟨hlt, e1, p1, e2, p2, h1, h2, h3, h4, hb⟩
    have hl : l < pos'.length := (List.getElem?_eq_some_iff.mp h4).1
    have hk : k < pos'.length := by omega
    obtain ⟨hk1, hk2⟩ := hσ k hk
    obtain ⟨hl1, hl2⟩ := hσ l hl
    rw [hk1] at h1; rw [hk2] at h2; rw [hl1] at h3; rw [hl2] at h4
    refine ⟨hlt, hl, ?_⟩
    have hne : σ k ≠ σ l := fun e => by have := hinj k l hk hl e; omega
    rcases Nat.lt_or_gt_of_ne hne with hlt' | hgt
    · exact Or.inl ⟨hlt', e1, p1, e2, p2, h1, h2, h3, h4, hb⟩
    · exact Or.inr ⟨hgt, e2, p2, e1, p1, h3, h4, h1, h2, bonded_symm cell _ _ hb⟩
  · rintro ⟨hlt, hl, hcase⟩
    have hk : k < pos'.length := by omega
    obtain ⟨hk1, hk2⟩ := hσ k hk
    obtain ⟨hl1, hl2⟩ := hσ l hl
    rcases hcase with ⟨_, e1, p1, e2, p2, h1, h2, h3, h4, hb⟩ | ⟨_, e2, p2, e1, p1, h3, h4, h1, h2, hb⟩
    · exact ⟨hlt, e1, p1, e2, p2, by rw [hk1]; exact h1, by rw [hk2]; exact h2, by rw [hl1]; exact h3,
        by rw [hl2]; exact h4, hb⟩
    · exact ⟨hlt, e1, p1, e2, p2, by rw [hk1]; exact h1, by rw [hk2]; exact h2, by rw [hl1]; exact h3,
        by rw [hl2]; exact h4, bonded_symm cell _ _ hb⟩

/-! ### non-vacuity: concrete inputs meeting every guard above -/

/-- a triclinic cell (tilted, widths ≈ 5.9, 5.7, 6) -/
def exC17cell : Mat3 := ⟨⟨6, 0, 0⟩, ⟨2, 6, 0⟩, ⟨-1, 1, 6⟩⟩
def exC17elems : List String := ["C", "Cu", "O", "H"]
/-- C–Cu bonded only through the corner image, O–H bonded directly -/
def exC17pos : List Vec3 := [⟨1 / 2, 1 / 4, 1 / 4⟩, ⟨13 / 2, 27 / 4, 23 / 4⟩, ⟨3, 3, 3⟩, ⟨7 / 2, 7 / 2, 3⟩]

example : bondGuards exC17elems exC17pos exC17cell = true := by decide +kernel
example : detectBonds exC17elems exC17pos (some exC17cell) = .ok [(0, 1), (2, 3)] := by decide +kernel
example : detectBonds exC17elems exC17pos none = .ok [(2, 3)] := by decide +kernel
example : maxBondLength "C" "Cu" = some (253 / 100) ∧ maxBondLength "Cu" "Zn" = some (127 / 50)
    ∧ maxBondLength "C" "Xx" = none := by decide +kernel
/-- a renaming: the structure listed in the order 3,0,2,1 -/
example : detectBonds ["H", "C", "O", "Cu"] [⟨7 / 2, 7 / 2, 3⟩, ⟨1 / 2, 1 / 4, 1 / 4⟩, ⟨3, 3, 3⟩, ⟨13 / 2, 27 / 4, 23 / 4⟩]
    (some exC17cell) = .ok [(0, 2), (1, 3)] := by decide +kernel

end Mofun
