/-
  C20 (stretch) — the command line TEXT: parsing the canonical rendering of an option record gives the record back.
  Model: Model/CliArgs.lean (`parseArgs` = what click does with the parameters declared on `mofun_cli`; `render` = the
  canonical argument vector of a typed record); helper lemmas: Proofs/CliArgsLemmas.lean.
-/
import MofunModel.Proofs.CliArgsLemmas

namespace Mofun.Cli
open Mofun

theorem givenOf_ids (t : TypedOptions) :
    (givenOf t).map (·.id) = [.find, .replace, .fraction, .atol, .ap1, .ap2, .op, .dump, .extractUc, .charge,
      .replicate, .mic, .fw, .pp] := rfl

theorem givenOf_nodup (t : TypedOptions) : ((givenOf t).map (·.id)).Nodup := by
  rw [givenOf_ids]; decide

private theorem arity_map1 {α} (o : Option α) (f : α → String) (vs : List String)
    (h : o.map (fun v => [f v]) = some vs) : vs.length = 1 := by
  cases o with
  | none => cases h
  | some v => simp at h; subst h; rfl

private theorem wf_of (name : String) (id : OptId) (vals : Option (List String))
    (h1 : lookupLong (String.ofList (splitEq name.toList).1) = some id) (h2 : (splitEq name.toList).2 = none)
    (h3 : isOptLike name = true) (h4 : name ≠ "--") (h5 : ∀ vs, vals = some vs → vs.length = id.nargs) :
    (Given.mk name id vals).WF := ⟨h1, h2, h3, h4, h5⟩

theorem givenOf_wf (t : TypedOptions) : ∀ g ∈ givenOf t, g.WF := by
  intro g hg
  simp only [givenOf, List.mem_cons, List.not_mem_nil, or_false] at hg
  rcases hg with rfl | rfl | rfl | rfl | rfl | rfl | rfl | rfl | rfl | rfl | rfl | rfl | rfl | rfl
  · exact wf_of "--find" .find _ (by decide) (by decide) (by decide) (by decide) (fun vs h => arity_map1 t.findPath id vs h)
  · exact wf_of "--replace" .replace _ (by decide) (by decide) (by decide) (by decide) (fun vs h => arity_map1 t.replacePath id vs h)
  · exact wf_of "--replace-fraction" .fraction _ (by decide) (by decide) (by decide) (by decide) (fun vs h => arity_map1 t.replaceFraction showDec vs h)
  · exact wf_of "--atol" .atol _ (by decide) (by decide) (by decide) (by decide) (fun vs h => arity_map1 t.atol showDec vs h)
  · exact wf_of "--axisp1-idx" .ap1 _ (by decide) (by decide) (by decide) (by decide) (fun vs h => arity_map1 t.ap1 Lmp.showInt vs h)
  · exact wf_of "--axisp2-idx" .ap2 _ (by decide) (by decide) (by decide) (by decide) (fun vs h => arity_map1 t.ap2 Lmp.showInt vs h)
  · exact wf_of "--opoint-idx" .op _ (by decide) (by decide) (by decide) (by decide) (fun vs h => arity_map1 t.op Lmp.showInt vs h)
  · exact wf_of "--dumppath" .dump _ (by decide) (by decide) (by decide) (by decide) (fun vs h => arity_map1 t.dumpPath id vs h)
  · exact wf_of "--extract-uc" .extractUc _ (by decide) (by decide) (by decide) (by decide) (fun vs h => arity_map1 t.extractUc id vs h)
  · exact wf_of "--chargefile" .charge _ (by decide) (by decide) (by decide) (by decide) (fun vs h => arity_map1 t.chargefile id vs h)
  · refine wf_of "--replicate" .replicate _ (by decide) (by decide) (by decide) (by decide) (fun vs h => ?_)
    cases hr : t.replicate with
    | none => rw [hr] at h; cases h
    | some d => rw [hr] at h; simp at h; subst h; rfl
  · exact wf_of "--mic" .mic _ (by decide) (by decide) (by decide) (by decide) (fun vs h => arity_map1 t.mic showDec vs h)
  · exact wf_of "--framework-element" .fw _ (by decide) (by decide) (by decide) (by decide) (fun vs h => arity_map1 t.frameworkElement id vs h)
  · refine wf_of "--pp" .pp _ (by decide) (by decide) (by decide) (by decide) (fun vs h => ?_)
    cases hp : t.pp with
    | false => rw [hp] at h; simp at h
    | true => rw [hp] at h; simp at h; subst h; rfl

/-- what the scan records for the canonical command line -/
theorem scan_render (t : TypedOptions) (hi : isOptLike t.input = false) (ho : isOptLike t.output = false) :
    scan (render t) = .ok ⟨(givenOf t).flatMap Given.occ, [t.input, t.output]⟩ := by
  unfold scan render
  simp only [List.cons_append, List.nil_append, List.length_cons]
  rw [scan_positional _ _ _ _ hi, scan_positional _ _ _ _ ho]
  rw [scanGo_givens (givenOf t) (givenOf_wf t) _ _ (by omega)]
  simp

/-- the recorded value(s) of each option -/
theorem lastOf_render (t : TypedOptions) (g : Given) (hg : g ∈ givenOf t) :
    lastOf ((givenOf t).flatMap Given.occ) g.id = g.vals :=
  lastOf_givens (givenOf t) (givenOf_nodup t) g hg

private theorem strOf_map1 (L : List (OptId × List String)) (id : OptId) (o : Option String)
    (h : lastOf L id = o.map (fun v => [v])) : strOf L id = o := by
  unfold strOf; rw [h]; cases o <;> rfl

private theorem floatOf_dec (L : List (OptId × List String)) (id : OptId) (o : Option Dec)
    (h : lastOf L id = o.map (fun d => [showDec d])) : floatOf L id = o.map Dec.toRat := by
  unfold floatOf strOf; rw [h]
  cases o with
  | none => rfl
  | some d => simp [convFloat_showDec]

private theorem intOf_int (L : List (OptId × List String)) (id : OptId) (o : Option Int)
    (h : lastOf L id = o.map (fun i => [Lmp.showInt i])) : intOf L id = o := by
  unfold intOf strOf; rw [h]
  cases o with
  | none => rfl
  | some i => simp [convInt_showInt]

/-- **parse_render.**  For every typed option record whose two paths do not look like options (do not start with
    `-` followed by another character), parsing its canonical command line yields exactly the record the function
    body receives for it — defaults filled in, suffix classes computed from the paths. -/
theorem parse_render (t : TypedOptions) (hi : isOptLike t.input = false) (ho : isOptLike t.output = false) :
    parseArgs (render t) = .ok t.toOptions := by
  let L := (givenOf t).flatMap Given.occ
  have mem : ∀ g, g ∈ givenOf t → lastOf L g.id = g.vals := fun g hg => lastOf_render t g hg
  have m_find := mem ⟨"--find", .find, t.findPath.map (fun v => [v])⟩ (by simp [givenOf])
  have m_repl := mem ⟨"--replace", .replace, t.replacePath.map (fun v => [v])⟩ (by simp [givenOf])
  have m_frac := mem ⟨"--replace-fraction", .fraction, t.replaceFraction.map (fun d => [showDec d])⟩ (by simp [givenOf])
  have m_atol := mem ⟨"--atol", .atol, t.atol.map (fun d => [showDec d])⟩ (by simp [givenOf])
  have m_ap1 := mem ⟨"--axisp1-idx", .ap1, t.ap1.map (fun i => [Lmp.showInt i])⟩ (by simp [givenOf])
  have m_ap2 := mem ⟨"--axisp2-idx", .ap2, t.ap2.map (fun i => [Lmp.showInt i])⟩ (by simp [givenOf])
  have m_op := mem ⟨"--opoint-idx", .op, t.op.map (fun i => [Lmp.showInt i])⟩ (by simp [givenOf])
  have m_dump := mem ⟨"--dumppath", .dump, t.dumpPath.map (fun v => [v])⟩ (by simp [givenOf])
  have m_uc := mem ⟨"--extract-uc", .extractUc, t.extractUc.map (fun v => [v])⟩ (by simp [givenOf])
  have m_q := mem ⟨"--chargefile", .charge, t.chargefile.map (fun v => [v])⟩ (by simp [givenOf])
  have m_rep := mem ⟨"--replicate", .replicate,
    t.replicate.map (fun d => [Lmp.showNat d.1, Lmp.showNat d.2.1, Lmp.showNat d.2.2])⟩ (by simp [givenOf])
  have m_mic := mem ⟨"--mic", .mic, t.mic.map (fun d => [showDec d])⟩ (by simp [givenOf])
  have m_fw := mem ⟨"--framework-element", .fw, t.frameworkElement.map (fun v => [v])⟩ (by simp [givenOf])
  have m_pp := mem ⟨"--pp", .pp, if t.pp then some [] else none⟩ (by simp [givenOf])
  simp only at m_find m_repl m_frac m_atol m_ap1 m_ap2 m_op m_dump m_uc m_q m_rep m_mic m_fw m_pp
  have ids : ∀ id ∈ L.map (·.1), id ∈ (givenOf t).map (·.id) := ids_of_occ (givenOf t)
  -- no `--help`
  have hhelp : (L.map (·.1)).contains OptId.help = false := by
    cases hc : (L.map (·.1)).contains OptId.help with
    | false => rfl
    | true =>
      have := ids _ (List.contains_iff_mem.mp hc)
      rw [givenOf_ids] at this
      revert this; decide
  -- every value converts
  have hconv : ∀ id, convertible L id = true := by
    intro id
    cases id <;> unfold convertible
    · simp
    · simp
    · rw [m_frac]; cases t.replaceFraction <;> simp [convFloat_showDec]
    · rw [m_atol]; cases t.atol <;> simp [convFloat_showDec]
    · rw [m_ap1]; cases t.ap1 <;> simp [convInt_showInt]
    · rw [m_ap2]; cases t.ap2 <;> simp [convInt_showInt]
    · rw [m_op]; cases t.op <;> simp [convInt_showInt]
    · simp
    · simp
    · simp
    · rw [m_rep]; cases t.replicate <;> simp [convInt_showNat]
    · rw [m_mic]; cases t.mic <;> simp [convFloat_showDec]
    · simp
    · simp
    · simp
  have hall : (firstSeen L).all (convertible L) = true := List.all_eq_true.mpr (fun id _ => hconv id)
  -- the pp flag
  have hpp : (L.map (·.1)).contains OptId.pp = t.pp := by
    cases hp : t.pp with
    | true =>
      rw [hp] at m_pp
      simp only [if_true] at m_pp
      apply List.contains_iff_mem.mpr
      unfold lastOf at m_pp
      cases hf : L.reverse.find? (fun x => decide (x.1 = OptId.pp)) with
      | none => rw [hf] at m_pp; cases m_pp
      | some x =>
        have hx := List.mem_of_find?_eq_some hf
        have hx1 : x.1 = OptId.pp := by simpa using List.find?_some hf
        exact List.mem_map.mpr ⟨x, List.mem_reverse.mp hx, hx1⟩
    | false =>
      rw [hp] at m_pp
      simp only [Bool.false_eq_true, if_false] at m_pp
      cases hc : (L.map (·.1)).contains OptId.pp with
      | false => rfl
      | true =>
        exfalso
        obtain ⟨x, hxL, hx1⟩ := List.mem_map.mp (List.contains_iff_mem.mp hc)
        unfold lastOf at m_pp
        have : (L.reverse.find? (fun x => decide (x.1 = OptId.pp))).isSome = true :=
          List.find?_isSome.mpr ⟨x, List.mem_reverse.mpr hxL, by simpa using hx1⟩
        cases hf : L.reverse.find? (fun x => decide (x.1 = OptId.pp)) with
        | none => rw [hf] at this; cases this
        | some y => rw [hf] at m_pp; cases m_pp
  -- the replication factors
  have hdims : dimsOf L = t.replicate.map (fun d => ((d.1 : Int), (d.2.1 : Int), (d.2.2 : Int))) := by
    unfold dimsOf; rw [m_rep]
    cases t.replicate with
    | none => rfl
    | some d => simp [convInt_showNat]
  unfold parseArgs
  rw [scan_render t hi ho]
  show (if (L.map (·.1)).contains OptId.help = true then _ else _) = _
  simp only [hhelp, Bool.false_eq_true, if_false, hall, Bool.not_true]
  have hbuild : ∀ r, parseArgs.build L t.input t.output r =
      { t.toOptions with replicate := r } := by
    intro r
    unfold parseArgs.build TypedOptions.toOptions
    simp only [strOf_map1 L _ _ m_find, strOf_map1 L _ _ m_repl, floatOf_dec L _ _ m_frac, floatOf_dec L _ _ m_atol,
      intOf_int L _ _ m_ap1, intOf_int L _ _ m_ap2, intOf_int L _ _ m_op, strOf_map1 L _ _ m_dump,
      strOf_map1 L _ _ m_uc, strOf_map1 L _ _ m_q, floatOf_dec L _ _ m_mic, strOf_map1 L _ _ m_fw, hpp]
  rw [hdims]
  have hall' : (!(firstSeen (List.flatMap Given.occ (givenOf t))).all
      (convertible (List.flatMap Given.occ (givenOf t)))) = false := by
    have h := hall
    simp only [L] at h
    rw [h]; rfl
  cases hr : t.replicate with
  | none =>
    simp only [Option.map_none]
    rw [hbuild]
    simp only [TypedOptions.toOptions, hr, hall', Bool.false_eq_true, if_false]
  | some d =>
    obtain ⟨a, b, c⟩ := d
    simp only [Option.map_some]
    have : ¬ ((a : Int) < 0 ∨ (b : Int) < 0 ∨ (c : Int) < 0) := by omega
    simp only [this, if_false, Int.toNat_natCast]
    rw [hbuild]
    simp only [TypedOptions.toOptions, hr, hall', Bool.false_eq_true, if_false]

/-! ## non-vacuity and behaviour on other command lines -/

def exTyped : TypedOptions :=
  { input := "in.cif", output := "out.lmpdat", findPath := some "-odd-name.cml", replacePath := some "r.cml",
    replaceFraction := some ⟨5, 1⟩, atol := some ⟨1, 1⟩, ap1 := some 0, ap2 := some 2, op := some (-1),
    chargefile := some "q.txt", replicate := some (2, 1, 1), mic := some ⟨125, 1⟩, pp := true }

example : isOptLike exTyped.input = false ∧ isOptLike exTyped.output = false := by decide

example : render exTyped = ["in.cif", "out.lmpdat", "--find", "-odd-name.cml", "--replace", "r.cml",
    "--replace-fraction", "5e-1", "--atol", "1e-1", "--axisp1-idx", "0", "--axisp2-idx", "2", "--opoint-idx", "-1",
    "--chargefile", "q.txt", "--replicate", "2", "1", "1", "--mic", "125e-1", "--pp"] := by decide

instance decEqParse : DecidableEq (Except ArgErr Options) := fun a b =>
  match a, b with
  | .ok x, .ok y => if h : x = y then isTrue (by rw [h]) else isFalse (by intro e; cases e; exact h rfl)
  | .error x, .error y => if h : x = y then isTrue (by rw [h]) else isFalse (by intro e; cases e; exact h rfl)
  | .ok _, .error _ => isFalse (by intro e; cases e)
  | .error _, .ok _ => isFalse (by intro e; cases e)

/-- other spellings of the same command line: short names, attached values, `=`, options between the paths, a
    repeated option (the last one wins) -/
example : parseArgs ["-f-odd-name.cml", "in.cif", "-r", "r.cml", "-p", "0.25", "-p0.5", "--atol=0.1", "-ap1", "0", "-ap2=2",
    "-op", "-1", "out.lmpdat", "-qq.txt", "--replicate", "2", "1", "1", "--mic", "12.5", "--pp"] = .ok exTyped.toOptions := by
  decide +kernel

/-- numbers as python reads them: blanks around the text, `_` between two digits -/
example : parseArgs ["a.cif", "b.cif", "--atol", " 1_0.2_5 ", "-ap1", "1_0\n", "--mic", "0"] =
    .ok { input := "a.cif", inputNative := true, output := "b.cif", outputNative := true, atol := 41 / 4,
          hints := ⟨some 10, none, none⟩, mic := some 0 } := by decide +kernel
example : parseArgs ["a.cif", "b.cif", "--atol", "1__0"] = .error .badValue := by decide +kernel
example : parseArgs ["a.cif", "b.cif", "-ap1", "_1"] = .error .badValue := by decide +kernel

/-- error classes -/
example : parseArgs ["a.cif", "b.cif", "--nope"] = .error .noSuchOption := by decide +kernel
example : parseArgs ["a.cif", "b.cif", "-x"] = .error .noSuchOption := by decide +kernel
example : parseArgs ["a.cif", "b.cif", "--replicate", "2", "1"] = .error .missingValue := by decide +kernel
example : parseArgs ["a.cif", "b.cif", "--pp=1"] = .error .noValueAllowed := by decide +kernel
example : parseArgs ["a.cif", "b.cif", "--atol", "abc"] = .error .badValue := by decide +kernel
example : parseArgs ["a.cif", "b.cif", "-ap1", "1.5"] = .error .badValue := by decide +kernel
example : parseArgs ["a.cif"] = .error .missingArgument := by decide +kernel
example : parseArgs ["a.cif", "b.cif", "c.cif"] = .error .extraArgument := by decide +kernel
example : parseArgs ["a.cif", "--", "--pp"] = .ok { input := "a.cif", inputNative := true, output := "--pp", outputNative := false } := by
  decide +kernel
example : parseArgs ["--help"] = .error .help := by decide +kernel

end Mofun.Cli
