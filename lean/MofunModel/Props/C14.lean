/-
  C14 — elements inferred from masses are the nearest element within tolerance.
  Property theorems only (helper lemmas: Proofs/MassLemmas.lean).  Model: Model/Mass.lean
  (`guess` = `find_element` of helpers.guess_elements_from_masses, `guessAll` = the list comprehension,
   `loadElements` / `loadLabels` = the inference of `Atoms.load_lmpdat`).

  The general theorems hold for EVERY table, tolerance and mass; the table theorems are stated over
  `massTable` = the generated copy of ATOMIC_MASSES, so an edit to the table re-checks them.
-/
import MofunModel.Proofs.MassLemmas

namespace Mofun

/-! ### the rule, for every table -/

/-- **guess_spec.** `guess` returns `s` iff `s` is the symbol of an entry of the table whose mass is strictly
    within `tol` of `m`, no entry of the table is nearer, and it is the first such entry in table order
    (everything before it is strictly farther). -/
theorem guess_spec (table : MassTable) (tol m : Rat) (s : String) :
    guess table tol m = some s ↔
      ∃ mass pre post, table = pre ++ (s, mass) :: post
        ∧ absQ (mass - m) < tol
        ∧ (∀ e ∈ pre, absQ (mass - m) < absQ (e.2 - m))
        ∧ (∀ e ∈ post, absQ (mass - m) ≤ absQ (e.2 - m)) := by
  unfold guess
  constructor
  · intro h
    cases hn : nearest table m with
    | none => rw [hn] at h; cases h
    | some x =>
      rw [hn] at h
      simp only at h
      split at h
      · rename_i hlt
        cases h
        obtain ⟨pre, post, heq, h1, h2⟩ := (nearest_eq_some_iff table m x).mp hn
        exact ⟨x.2, pre, post, heq, hlt, h1, h2⟩
      · cases h
  · rintro ⟨mass, pre, post, heq, hlt, h1, h2⟩
    have : nearest table m = some (s, mass) :=
      (nearest_eq_some_iff table m (s, mass)).mpr ⟨pre, post, heq, h1, h2⟩
    rw [this]
    simp only [hlt, if_true]

/-- **guess_none_iff.** The call raises (no element is returned) iff no entry of the table is strictly within `tol`
    (for the empty table: always). -/
theorem guess_none_iff (table : MassTable) (tol m : Rat) :
    guess table tol m = none ↔ ∀ e ∈ table, tol ≤ absQ (e.2 - m) := by
  unfold guess
  cases hn : nearest table m with
  | none =>
    have := (nearest_eq_none_iff table m).mp hn
    subst this; simp
  | some x =>
    have hfn := (nearest_eq_some_iff table m x).mp hn
    simp only
    constructor
    · intro h e he
      have hle := hfn.le e he
      unfold massDist at hle
      split at h
      · cases h
      · grind
    · intro h
      have := h x hfn.mem
      split
      · grind
      · rfl

/-- **guess_within_tol** ("no element is invented"): whatever is returned is the symbol of a table entry whose mass
    is strictly within `tol` of the given mass, and no table entry is nearer. -/
theorem guess_within_tol (table : MassTable) (tol m : Rat) (s : String) (h : guess table tol m = some s) :
    ∃ mass, (s, mass) ∈ table ∧ absQ (mass - m) < tol ∧ ∀ e ∈ table, absQ (mass - m) ≤ absQ (e.2 - m) := by
  obtain ⟨mass, pre, post, heq, hlt, h1, h2⟩ := (guess_spec table tol m s).mp h
  have hfn : IsFirstNearest table m (s, mass) := ⟨pre, post, heq, h1, h2⟩
  exact ⟨mass, hfn.mem, hlt, fun e he => hfn.le e he⟩

/-- **guess_table_fixpoint** (general form, every table / tolerance): an entry whose mass is at least `2·tol` away
    from every other entry is returned for every mass strictly within `tol` of its own — in particular for its own
    mass, and for its own mass after the rounding of a write/read cycle. -/
theorem guess_distinguishable (table : MassTable) (tol m : Rat) (p : String × Rat) (hp : p ∈ table)
    (hsep : ∀ q ∈ table, q ≠ p → 2 * tol ≤ absQ (q.2 - p.2)) (hm : absQ (m - p.2) < tol) :
    guess table tol m = some p.1 := by
  cases hn : nearest table m with
  | none =>
    have := (nearest_eq_none_iff table m).mp hn
    subst this; cases hp
  | some x =>
    have hfn := (nearest_eq_some_iff table m x).mp hn
    have hle := hfn.le p hp
    unfold massDist at hle
    have hc := absQ_sub_comm p.2 m
    have hxp : x = p := by
      apply Classical.byContradiction
      intro hne
      have h2 := hsep x hfn.mem hne
      have h3 := absQ_tri x.2 m p.2
      grind
    unfold guess
    rw [hn, hxp]
    simp only
    split
    · rfl
    · grind

/-- an entry is returned for its own mass as soon as no other entry has exactly that mass (`tol > 0`) -/
theorem guess_own_mass (table : MassTable) (tol : Rat) (p : String × Rat) (hp : p ∈ table) (htol : 0 < tol)
    (huniq : ∀ q ∈ table, q.2 = p.2 → q = p) : guess table tol p.2 = some p.1 := by
  cases hn : nearest table p.2 with
  | none =>
    have := (nearest_eq_none_iff table p.2).mp hn
    subst this; cases hp
  | some x =>
    have hfn := (nearest_eq_some_iff table p.2 x).mp hn
    have hle := hfn.le p hp
    unfold massDist at hle
    have h0 : absQ (p.2 - p.2) = 0 := by rw [Rat.sub_self]; exact absQ_zero
    have hx0 : absQ (x.2 - p.2) = 0 := by have := absQ_nonneg (x.2 - p.2); grind
    have hxm : x.2 = p.2 := by have := (absQ_eq_zero_iff _).mp hx0; grind
    have hxp := huniq x hfn.mem hxm
    unfold guess
    rw [hn, hxp]
    simp only [h0, htol, if_true]

/-! ### the list form and the fallback of `load_lmpdat` -/

/-- `guess_elements_from_masses` returns a list iff every mass has a guess, and then it is the list of the guesses -/
theorem guessAll_spec (table : MassTable) (tol : Rat) (ms : List Rat) (ss : List String) :
    guessAll table tol ms = .ok ss ↔ ms.map (guess table tol) = ss.map some :=
  guessAll_ok_iff table tol ms ss

/-- **load_fallback.** If the guess fails for ANY type, the elements of ALL types are the type numbers "1" … "n"
    (no element is invented, not even for the types whose mass is a good one). -/
theorem load_fallback (table : MassTable) (tol : Rat) (ms : List Rat)
    (h : ∃ m ∈ ms, guess table tol m = none) :
    loadElements table tol ms = typeNumbers ms.length := by
  obtain ⟨e, he⟩ := (guessAll_error_iff table tol ms).mpr h
  unfold loadElements
  rw [he]

/-- the other branch: when every type has a guess, the elements are exactly the guesses, in type order -/
theorem load_all_guessed (table : MassTable) (tol : Rat) (ms : List Rat)
    (h : ∀ m ∈ ms, guess table tol m ≠ none) :
    (loadElements table tol ms).map some = ms.map (guess table tol) := by
  unfold loadElements
  cases hg : guessAll table tol ms with
  | error e =>
    obtain ⟨m, hm, hn⟩ := (guessAll_error_iff table tol ms).mp ⟨e, hg⟩
    exact absurd hn (h m hm)
  | ok els => exact ((guessAll_ok_iff table tol ms els).mp hg).symm

theorem typeNumbers_spec (n : Nat) :
    (typeNumbers n).length = n ∧ ∀ i, i < n → (typeNumbers n)[i]? = some (toString (i + 1)) := by
  unfold typeNumbers
  refine ⟨by simp, ?_⟩
  intro i hi
  simp [hi]

/-- labels: the comments when every Masses line has one, else the elements -/
theorem load_labels_spec (comments : List (Option String)) (elements : List String) :
    (comments.all (·.isSome) = true → (loadLabels comments elements).map some = comments)
    ∧ (comments.all (·.isSome) = false → loadLabels comments elements = elements) := by
  unfold loadLabels
  constructor
  · intro h
    simp only [h, if_true]
    clear elements
    induction comments with
    | nil => rfl
    | cons c cs ih =>
      simp only [List.all_cons, Bool.and_eq_true] at h
      cases c with
      | none => simp at h
      | some s => simp only [List.filterMap_cons, id, List.map_cons, ih h.2]
  · intro h
    simp [h]

/-! ### the Masses section: a line binds its mass and label to its type id (commit 375e8ae) -/

theorem orderLines_perm (lines : List MassLine) : (orderLines lines).Perm lines :=
  List.mergeSort_perm lines _

theorem orderLines_sorted (lines : List MassLine) : (orderLines lines).Pairwise (fun a b => a.id ≤ b.id) := by
  have h := List.pairwise_mergeSort (le := fun (a b : MassLine) => decide (a.id ≤ b.id))
    (by intro a b c; simp only [decide_eq_true_eq]; omega)
    (by intro a b; simp only [Bool.or_eq_true, decide_eq_true_eq]; omega) lines
  exact h.imp (by intro a b; simp)

/-- a section that is already in ascending id order (what mofun and LAMMPS write) is read as before the repair -/
theorem orderLines_of_sorted (lines : List MassLine) (h : lines.Pairwise (fun a b => a.id ≤ b.id)) :
    orderLines lines = lines :=
  List.mergeSort_of_pairwise (h.imp (by intro a b hab; simpa using hab))

theorem eq_of_id_eq_of_nodup (lines : List MassLine) (hnd : (lines.map (·.id)).Nodup) (a b : MassLine)
    (ha : a ∈ lines) (hb : b ∈ lines) (hid : a.id = b.id) : a = b := by
  induction lines with
  | nil => cases ha
  | cons x xs ih =>
    simp only [List.map_cons, List.nodup_cons, List.mem_map, not_exists, not_and] at hnd
    simp only [List.mem_cons] at ha hb
    rcases ha with rfl | ha <;> rcases hb with rfl | hb
    · rfl
    · exact absurd hid.symm (hnd.1 b hb)
    · exact absurd hid (hnd.1 a ha)
    · exact ih hnd.2 ha hb

/-- **masses_order_invariant.** With distinct type ids the ORDER of the Masses lines is irrelevant: any rearrangement of
    the lines gives the same ordered section, hence the same elements, labels and masses per type. -/
theorem masses_order_invariant (l1 l2 : List MassLine) (hp : l1.Perm l2) (hnd : (l1.map (·.id)).Nodup) :
    orderLines l1 = orderLines l2 := by
  have p1 := orderLines_perm l1
  have p2 := orderLines_perm l2
  apply List.Perm.eq_of_pairwise (le := fun (a b : MassLine) => a.id ≤ b.id) _ (orderLines_sorted l1) (orderLines_sorted l2)
    (p1.trans (hp.trans p2.symm))
  intro a b ha hb hab hba
  exact eq_of_id_eq_of_nodup l1 hnd a b (p1.mem_iff.mp ha) (hp.mem_iff.mpr (p2.mem_iff.mp hb)) (by omega)

theorem load_masses_order_invariant (table : MassTable) (tol : Rat) (l1 l2 : List MassLine) (hp : l1.Perm l2)
    (hnd : (l1.map (·.id)).Nodup) : loadMasses table tol l1 = loadMasses table tol l2 := by
  unfold loadMasses; rw [masses_order_invariant l1 l2 hp hnd]

/-- **masses_bound_to_id.** When the ids of the section are 1 … n in any order, the k-th type gets the line whose id is
    k: the ordered section lists the ids 1, 2, …, n. -/
theorem masses_bound_to_id (lines : List MassLine) (n : Nat) (hp : (lines.map (·.id)).Perm (List.range' 1 n)) :
    (orderLines lines).map (·.id) = List.range' 1 n := by
  apply List.Perm.eq_of_pairwise (le := fun (a b : Nat) => a ≤ b) _ _ _ (((orderLines_perm lines).map _).trans hp)
  · intro a b _ _ h1 h2; omega
  · exact List.Pairwise.map _ (fun a b h => h) (orderLines_sorted lines)
  · exact (List.pairwise_lt_range' (s := 1) (n := n)).imp (fun h => Nat.le_of_lt h)

def exShuffled : List MassLine := [⟨2, 100794 / 100000, some "H_w"⟩, ⟨1, 120107 / 10000, some "C_x"⟩]
def exInOrder : List MassLine := [⟨1, 120107 / 10000, some "C_x"⟩, ⟨2, 100794 / 100000, some "H_w"⟩]

/-- **the historical defect** (before commit 375e8ae): a section listing `2 1.00794` before `1 12.0107` gave type 1 the
    element and label of hydrogen; now type 1 is carbon, whatever the order of the lines. -/
theorem masses_by_position_unrepaired_counterexample :
    loadMassesByPosition massTable (1 / 10) exShuffled = (["H", "C"], ["H_w", "C_x"])
    ∧ loadMasses massTable (1 / 10) exShuffled = (["C", "H"], ["C_x", "H_w"]) := by
  constructor
  · decide +kernel
  · have h1 : orderLines exShuffled = orderLines exInOrder :=
      masses_order_invariant exShuffled exInOrder (List.Perm.swap _ _ _) (by decide)
    have h2 : orderLines exInOrder = exInOrder := orderLines_of_sorted exInOrder (by decide)
    unfold loadMasses
    rw [h1, h2]
    decide +kernel

/-! ### facts about the table as it is in /repo now (kernel evaluation over the generated definition) -/

/-- pairs of entries (first before second in table order) whose masses differ by less than `bound` -/
def closePairs : MassTable → Rat → List (String × String)
  | [], _ => []
  | p :: rest, bound =>
    (rest.filter (fun q => decide (absQ (q.2 - p.2) < bound))).map (fun q => (p.1, q.1)) ++ closePairs rest bound

/-- the pairs of the table that are closer than 2·tol for the tolerance 0.1 of `load_lmpdat`: exactly these -/
theorem table_close_pairs :
    closePairs massTable (2 * (1 / 10)) = [("Ar", "Ca"), ("Bi", "Po"), ("Cm", "Bk")] := by
  decide +kernel

/-- `closePairs` misses no pair -/
theorem closePairs_complete (table : MassTable) (bound : Rat) (a b c : List (String × Rat)) (p q : String × Rat)
    (h : table = a ++ p :: (b ++ q :: c)) (hd : absQ (q.2 - p.2) < bound) :
    (p.1, q.1) ∈ closePairs table bound := by
  induction a generalizing table with
  | nil =>
    subst h
    simp only [List.nil_append, closePairs, List.mem_append, List.mem_map, List.mem_filter, decide_eq_true_eq]
    exact Or.inl ⟨q, ⟨by simp, hd⟩, rfl⟩
  | cons x a ih =>
    subst h
    simp only [List.cons_append, closePairs, List.mem_append]
    exact Or.inr (ih _ rfl)

/-- two different members of a list: one of them comes first -/
theorem mass_mem_mem_decomp {α} (l : List α) (p q : α) (hp : p ∈ l) (hq : q ∈ l) (hne : q ≠ p) :
    (∃ a b c, l = a ++ p :: (b ++ q :: c)) ∨ (∃ a b c, l = a ++ q :: (b ++ p :: c)) := by
  obtain ⟨s, t, rfl⟩ := List.append_of_mem hp
  simp only [List.mem_append, List.mem_cons] at hq
  rcases hq with hq | hq | hq
  · obtain ⟨a, b, rfl⟩ := List.append_of_mem hq
    exact Or.inr ⟨a, b, t, by simp⟩
  · exact absurd hq hne
  · obtain ⟨b, c, rfl⟩ := List.append_of_mem hq
    exact Or.inl ⟨s, b, c, rfl⟩

/-- every element other than the six above is at least 2·0.1 away from every other entry of the table -/
theorem table_separated :
    ∀ p ∈ massTable, p.1 ∉ ["Ar", "Ca", "Bi", "Po", "Cm", "Bk"] →
      ∀ q ∈ massTable, q ≠ p → 2 * (1 / 10) ≤ absQ (q.2 - p.2) := by
  intro p hp hnot q hq hne
  apply Classical.byContradiction
  intro hlt
  have hlt' : absQ (q.2 - p.2) < 2 * (1 / 10) := by grind
  have hlt'' : absQ (p.2 - q.2) < 2 * (1 / 10) := by rw [absQ_sub_comm]; exact hlt'
  rcases mass_mem_mem_decomp massTable p q hp hq hne with ⟨a, b, c, h⟩ | ⟨a, b, c, h⟩
  · have := closePairs_complete massTable _ a b c p q h hlt'
    rw [table_close_pairs] at this
    simp only [List.mem_cons, Prod.mk.injEq, List.not_mem_nil, or_false] at this hnot
    grind
  · have := closePairs_complete massTable _ a b c q p h hlt''
    rw [table_close_pairs] at this
    simp only [List.mem_cons, Prod.mk.injEq, List.not_mem_nil, or_false] at this hnot
    grind

/-- **guess_stable_within_half_gap** (every table, EVERY tolerance): an entry is returned for every mass that is strictly
    within the tolerance of its own and closer to it than half the distance to any other entry.  (The tolerance-general
    form of `guess_distinguishable`: what a write/read cycle needs is only that the rounding of the written mass is small
    against the gap to the nearest other element, whatever `guess_atol` is.) -/
theorem guess_stable_within_half_gap (table : MassTable) (tol m : Rat) (p : String × Rat) (hp : p ∈ table)
    (hm : absQ (m - p.2) < tol) (hgap : ∀ q ∈ table, q ≠ p → 2 * absQ (m - p.2) < absQ (q.2 - p.2)) :
    guess table tol m = some p.1 := by
  cases hn : nearest table m with
  | none =>
    have := (nearest_eq_none_iff table m).mp hn
    subst this; cases hp
  | some x =>
    have hfn := (nearest_eq_some_iff table m x).mp hn
    have hle := hfn.le p hp
    unfold massDist at hle
    have hc := absQ_sub_comm p.2 m
    have hxp : x = p := by
      apply Classical.byContradiction
      intro hne
      have h2 := hgap x hfn.mem hne
      have h3 := absQ_tri x.2 m p.2
      grind
    unfold guess
    rw [hn, hxp]
    simp only
    split
    · rfl
    · grind

/-- the smallest gap of the table: apart from Cm/Bk (equal masses) no two entries are closer than 0.019 (Bi/Po: 0.0196) -/
theorem table_min_gap_pairs : closePairs massTable (19 / 1000) = [("Cm", "Bk")] := by
  decide +kernel

theorem table_min_gap :
    ∀ p ∈ massTable, p.1 ∉ ["Cm", "Bk"] → ∀ q ∈ massTable, q ≠ p → 19 / 1000 ≤ absQ (q.2 - p.2) := by
  intro p hp hnot q hq hne
  apply Classical.byContradiction
  intro hlt
  have hlt' : absQ (q.2 - p.2) < 19 / 1000 := by grind
  have hlt'' : absQ (p.2 - q.2) < 19 / 1000 := by rw [absQ_sub_comm]; exact hlt'
  rcases mass_mem_mem_decomp massTable p q hp hq hne with ⟨a, b, c, h⟩ | ⟨a, b, c, h⟩
  · have := closePairs_complete massTable _ a b c p q h hlt'
    rw [table_min_gap_pairs] at this
    simp only [List.mem_cons, Prod.mk.injEq, List.not_mem_nil, or_false] at this hnot
    grind
  · have := closePairs_complete massTable _ a b c q p h hlt''
    rw [table_min_gap_pairs] at this
    simp only [List.mem_cons, Prod.mk.injEq, List.not_mem_nil, or_false] at this hnot
    grind

/-- **guess_table_roundtrip_any_tol.** On the real table, for EVERY tolerance: every element except Cm and Bk — Ar, Ca, Bi
    and Po included — is returned for every mass that is within the tolerance and less than 0.0095 away from its own
    (`%10.6f` moves a mass by at most 5·10⁻⁷). -/
theorem guess_table_roundtrip_any_tol :
    ∀ p ∈ massTable, p.1 ∉ ["Cm", "Bk"] →
      ∀ tol m, absQ (m - p.2) < tol → absQ (m - p.2) < 19 / 2000 → guess massTable tol m = some p.1 := by
  intro p hp hnot tol m hm hsmall
  apply guess_stable_within_half_gap massTable tol m p hp hm
  intro q hq hne
  have := table_min_gap p hp hnot q hq hne
  grind

/-- the only two entries with equal masses are Cm and Bk -/
theorem table_equal_masses :
    ∀ p ∈ massTable, p.1 ∉ ["Cm", "Bk"] → ∀ q ∈ massTable, q.2 = p.2 → q = p := by
  decide +kernel

/-- **guess_table_fixpoint.** On the real table with tol = 0.1: every element whose mass is at least 2·tol away from
    all other table masses is returned for its own mass … -/
theorem guess_table_fixpoint :
    ∀ p ∈ massTable, (∀ q ∈ massTable, q ≠ p → 2 * (1 / 10) ≤ absQ (q.2 - p.2)) →
      guess massTable (1 / 10) p.2 = some p.1 := by
  intro p hp hsep
  apply guess_distinguishable massTable (1 / 10) p.2 p hp hsep
  rw [Rat.sub_self, absQ_zero]; decide +kernel

/-- … these are all elements except Ar, Ca, Bi, Po, Cm, Bk, and they are returned for EVERY mass strictly within 0.1
    of their own (the write/read cycle: `%10.6f` moves a mass by at most 5·10⁻⁷). -/
theorem guess_table_roundtrip :
    ∀ p ∈ massTable, p.1 ∉ ["Ar", "Ca", "Bi", "Po", "Cm", "Bk"] →
      ∀ m, absQ (m - p.2) < 1 / 10 → guess massTable (1 / 10) m = some p.1 := by
  intro p hp hnot m hm
  exact guess_distinguishable massTable (1 / 10) m p hp (table_separated p hp hnot) hm

/-- for its own exact mass every element is returned, except Bk (Cm has the same mass and comes first) -/
theorem guess_table_own_mass :
    (∀ p ∈ massTable, p.1 ∉ ["Cm", "Bk"] → guess massTable (1 / 10) p.2 = some p.1)
    ∧ guess massTable (1 / 10) 247 = some "Cm" := by
  refine ⟨?_, by decide +kernel⟩
  intro p hp hnot
  exact guess_own_mass massTable (1 / 10) p hp (by decide +kernel) (table_equal_masses p hp hnot)

/-- **the historical defect** (before commit 8dd645d): with the real table the one-sided scan
    `elmass - mass < max_delta` reads K's own mass as Ar and accepts the non-atomic mass 13.0 as N, at the old default
    tolerance 0.01 and at 0.1 alike; the repaired rule returns K and rejects 13.0. -/
theorem guessOneSided_unrepaired_counterexample :
    guessOneSided massTable (1 / 100) (390983 / 10000) = some "Ar"
    ∧ guessOneSided massTable (1 / 10) (390983 / 10000) = some "Ar"
    ∧ guessOneSided massTable (1 / 100) 13 = some "N"
    ∧ guess massTable (1 / 10) (390983 / 10000) = some "K"
    ∧ guess massTable (1 / 10) 13 = none := by
  decide +kernel

/-! ### non-vacuity -/

/-- the out-of-order neighbours are told apart; 12.0 is C at 0.1 but nothing at 0.01 -/
example : guess massTable (1 / 10) (586934 / 10000) = some "Ni"
    ∧ guess massTable (1 / 10) (58933195 / 1000000) = some "Co"
    ∧ guess massTable (1 / 10) (12690447 / 100000) = some "I"
    ∧ guess massTable (1 / 10) (1276 / 10) = some "Te"
    ∧ guess massTable (1 / 10) 12 = some "C"
    ∧ guess massTable (1 / 100) 12 = none := by decide +kernel

/-- `table_separated` / `guess_table_roundtrip` are not vacuous: K is in the table and not excluded -/
example : ("K", 390983 / 10000) ∈ massTable ∧ "K" ∉ ["Ar", "Ca", "Bi", "Po", "Cm", "Bk"] := by decide +kernel

/-- `guess_spec` with a tie: the first of two equally near entries wins -/
example : guess [("A", 1), ("B", 3)] 2 2 = some "A" ∧ guess [("A", 1), ("B", 3)] 1 2 = none := by decide +kernel

/-- `load_fallback`: one bad mass turns all elements into type numbers; without it they are the elements -/
example : loadElements massTable (1 / 10) [12, 1000, 16] = ["1", "2", "3"]
    ∧ loadElements massTable (1 / 10) [12, 1, 16] = ["C", "H", "O"] := by decide +kernel

example : loadLabels [some "C_1", some "H_a"] ["C", "H"] = ["C_1", "H_a"]
    ∧ loadLabels [some "C_1", none] ["C", "H"] = ["C", "H"] := by decide

end Mofun
