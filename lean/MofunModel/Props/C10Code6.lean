/-
  C10Code6.lean — the WHOLE of `Atoms.__delitem__` (mofun/atoms.py), re-translated from the python source text on every
  run by harness/gen_code6.py into Generated/Code6.lean (`Code6.delitem`: a mutating method over the five per-atom arrays
  and the three arrays of each of the four term kinds), computes exactly the model's `Atoms.deleteNorm`
  (Model/TopoWide.lean; on distinct indices in range: `Atoms.delete`, Model/Topo.lean) — for ALL structures and ALL lists
  of python ints: which array is shortened with which index list, the `if len(self.X) > 0` guards, the types and the
  extra fields of kind X filtered with the row list of kind X, IndexError where the model has `.error .index`.
-/
import MofunModel.Proofs.Code6Topo
import MofunModel.Props.C10Code
import MofunModel.Props.C10Wide

namespace Mofun.C10Code6
open Mofun Mofun.Generated Mofun.Code6Topo Mofun.Code4Topo
set_option linter.unusedSimpArgs false

/-- the arrays of a structure that `__delitem__` reads and assigns, in the order of the generated result: the columns of
    the atom rows, then (atom tuples, type ids, extra columns) of bonds, angles, dihedrals, impropers -/
def cols (r : Atoms) :=
  ((), r.atoms.map (·.pos), r.atoms.map (·.ty), r.atoms.map (·.charge), r.atoms.map (·.group), r.atoms.map (·.extra),
   r.bonds.terms.map (·.atoms), r.bonds.terms.map (·.ty), r.bonds.terms.map (·.extra),
   r.angles.terms.map (·.atoms), r.angles.terms.map (·.ty), r.angles.terms.map (·.extra),
   r.dihedrals.terms.map (·.atoms), r.dihedrals.terms.map (·.ty), r.dihedrals.terms.map (·.extra),
   r.impropers.terms.map (·.atoms), r.impropers.terms.map (·.ty), r.impropers.terms.map (·.extra))

/-- the generated `__delitem__` run on the arrays of a model structure -/
def delitemOf (a : Atoms) (idx : List Int) :=
  Code6.delitem (a.atoms.map (·.pos)) (a.atoms.map (·.ty)) (a.atoms.map (·.charge)) (a.atoms.map (·.group)) (a.atoms.map (·.extra))
    (a.bonds.terms.map (·.atoms)) (a.bonds.terms.map (·.ty)) (a.bonds.terms.map (·.extra))
    (a.angles.terms.map (·.atoms)) (a.angles.terms.map (·.ty)) (a.angles.terms.map (·.extra))
    (a.dihedrals.terms.map (·.atoms)) (a.dihedrals.terms.map (·.ty)) (a.dihedrals.terms.map (·.extra))
    (a.impropers.terms.map (·.atoms)) (a.impropers.terms.map (·.ty)) (a.impropers.terms.map (·.extra)) idx

theorem atomsLen_eq (ps : List Vec3) : Code6.atomsLen ps = ps.length := rfl

private theorem terms_nil_of_not_pos {β} (ts : List Term) (g : Term → β) (h : ¬ (ts.map g).length > 0) : ts = [] := by
  cases ts with
  | nil => rfl
  | cons t ts => simp at h

private theorem deleteTerms_nil (L : List Nat) : deleteTerms [] L = [] := rfl

/-- one term kind of `__delitem__`: the three arrays after the guarded block are those of the model's `deleteTerms` -/
private theorem kind_eq (ts : List Term) (L : List Nat) :
    (if (ts.map (·.atoms)).length > 0 then
        ((Code.deleteAndReindex (ts.map (·.atoms)) (sortDesc L)).1,
         Py.npDelete (ts.map (·.ty)) (Code.deleteAndReindex (ts.map (·.atoms)) (sortDesc L)).2,
         Py.npDelete (ts.map (·.extra)) (Code.deleteAndReindex (ts.map (·.atoms)) (sortDesc L)).2)
      else (ts.map (·.atoms), ts.map (·.ty), ts.map (·.extra))) =
      ((deleteTerms ts L).map (·.atoms), (deleteTerms ts L).map (·.ty), (deleteTerms ts L).map (·.extra)) := by
  split
  · rw [C10Code.deleteTerms_atoms, C10Code.deleteTerms_types, C10Code.deleteTerms_extra]
  · rename_i h
    rw [terms_nil_of_not_pos ts _ h]; rfl

/-- **delitem_eq** — for ALL structures and ALL lists of python ints the translated `__delitem__` is the model's
    `deleteNorm`: `none` (IndexError, nothing assigned) exactly where the model rejects, otherwise the arrays of the
    model's result -/
theorem delitem_eq (a : Atoms) (idx : List Int) :
    delitemOf a idx = match a.deleteNorm idx with
      | .error _ => none
      | .ok r => some (cols r) := by
  by_cases hv : ∀ i ∈ idx, (normIdx a.atoms.length i).isSome
  · -- every index is one numpy accepts
    have hany : idx.any (fun i => (normIdx a.atoms.length i).isNone) = false := by
      rw [List.any_eq_false]
      intro i hi
      have := hv i hi
      cases hn : normIdx a.atoms.length i <;> simp_all
    have hin : (dedup (idx.filterMap (normIdx a.atoms.length))).any (fun i => i ≥ a.atoms.length) = false := by
      rw [List.any_eq_false]
      intro j hj
      rw [mem_dedup, List.mem_filterMap] at hj
      obtain ⟨i, _, hi⟩ := hj
      have : j < a.atoms.length := by
        unfold normIdx at hi
        split at hi
        · cases hi; omega
        · split at hi
          · cases hi; omega
          · cases hi
      simp; omega
    have hrhs : a.deleteNorm idx = a.delete (dedup (idx.filterMap (normIdx a.atoms.length))) := by
      unfold Atoms.deleteNorm; simp [hany]
    rw [hrhs]
    unfold Atoms.delete
    simp only [hin, Bool.false_eq_true, if_false]
    generalize hL : dedup (idx.filterMap (normIdx a.atoms.length)) = L
    have kb := kind_eq a.bonds.terms L
    have ka := kind_eq a.angles.terms L
    have kd := kind_eq a.dihedrals.terms L
    have ki := kind_eq a.impropers.terms L
    unfold delitemOf Code6.delitem
    simp only [atomsLen_eq, List.length_map]
    simp only [npDeleteI?_map _ _ _ hv, mapM_normIdx _ _ hv, bind, pure, Option.bind_some, Option.bind_eq_bind, dedup_map_ofNat, sortedDesc_map_ofNat, natList?_ofNat, hL]
    rw [← deleteIdx_dedup a.atoms, hL]
    simp only [cols, TermTable.delete]
    -- the four guarded blocks
    simp only [List.length_map] at kb ka kd ki
    by_cases h1 : a.bonds.terms.length > 0 <;> by_cases h2 : a.angles.terms.length > 0 <;>
      by_cases h3 : a.dihedrals.terms.length > 0 <;> by_cases h4 : a.impropers.terms.length > 0 <;>
      simp only [h1, h2, h3, h4, if_true, if_false] at kb ka kd ki ⊢ <;>
      simp only [Prod.mk.injEq] at kb ka kd ki <;>
      simp only [kb, ka, kd, ki]
  · -- some index is outside [−n, n): np.delete raises before anything is assigned
    have hex : ∃ i ∈ idx, normIdx a.atoms.length i = none := by
      apply Classical.byContradiction
      intro hne
      apply hv
      intro i hi
      cases hn : normIdx a.atoms.length i with
      | none => exact absurd ⟨i, hi, hn⟩ hne
      | some j => rfl
    have hany : idx.any (fun i => (normIdx a.atoms.length i).isNone) = true := by
      rw [List.any_eq_true]
      obtain ⟨i, hi, hn⟩ := hex
      exact ⟨i, hi, by simp [hn]⟩
    have hrhs : a.deleteNorm idx = .error .index := by
      unfold Atoms.deleteNorm; simp [hany]
    rw [hrhs]
    unfold delitemOf Code6.delitem
    simp only [npDeleteI?_map_invalid _ _ _ hex, bind, Option.bind_none, Option.bind_eq_bind, Option.bind]

/-- on distinct non-negative indices (the domain of the C10 theorems about `Atoms.delete`): the same with `delete` -/
theorem delitem_eq_delete (a : Atoms) (idx : List Nat) (hnd : idx.Nodup) :
    delitemOf a (idx.map Int.ofNat) = match a.delete idx with
      | .error _ => none
      | .ok r => some (cols r) := by
  rw [delitem_eq, deleteNorm_ofNat a idx hnd]

/-! ### concrete runs (non-vacuity): three atoms, a bond 0–1 of type 0, a bond 1–2 of type 1 (extra column "x"/"y"), one angle -/

private def ex : Atoms :=
  { Atoms.empty with
    atoms := [⟨0, ⟨0, 0, 0⟩, 0, 0, ["p"]⟩, ⟨1, ⟨1, 0, 0⟩, 1/2, 1, ["q"]⟩, ⟨0, ⟨2, 0, 0⟩, 0, 2, ["r"]⟩]
    bonds := ⟨[⟨[0, 1], 0, ["x"]⟩, ⟨[1, 2], 1, ["y"]⟩], [], []⟩
    angles := ⟨[⟨[0, 1, 2], 0, []⟩], [], []⟩ }

/-- `del a[[0]]`: atom 0, the bond 0–1 and the angle go; the surviving bond 1–2 becomes 0–1 and keeps type 1 and "y" -/
example : delitemOf ex [0] =
    some ((), [⟨1, 0, 0⟩, ⟨2, 0, 0⟩], [1, 0], [1/2, 0], [1, 2], [["q"], ["r"]],
          [[0, 1]], [1], [["y"]], [], [], [], [], [], [], [], [], []) := by rfl
/-- `del a[[-1, 2, -1]]` (negative and repeated): the same as `del a[[2]]` -/
example : delitemOf ex [-1, 2, -1] = delitemOf ex [2] := by rfl
example : delitemOf ex [-1, 2, -1] =
    some ((), [⟨0, 0, 0⟩, ⟨1, 0, 0⟩], [0, 1], [0, 1/2], [0, 1], [["p"], ["q"]],
          [[0, 1]], [0], [["x"]], [], [], [], [], [], [], [], [], []) := by rfl
/-- an index outside `[−3, 3)`: IndexError -/
example : delitemOf ex [3] = none := by rfl
example : (ex.deleteNorm [0]).toOption.map cols = delitemOf ex [0] := by rfl

end Mofun.C10Code6
