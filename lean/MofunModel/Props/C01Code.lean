/-
  C01Code.lean — lines of `find_pattern_in_structure` / `_get_positions_from_all_adjacent_unit_cells` (mofun/mofun.py) that
  the repairs 8e95ae1, f8394e0 and 517adff introduced, re-translated from the python source text on every run by
  harness/gen_code.py (Generated/Code.lean) and tied to the model (Model/Find.lean):

    np.allclose(atom_positions, chk_pattern.positions, rtol=0, atol=atol)     = closeVec on every atom (closeCoord: |a − b| ≤ atol)
    uc_atoms_in_match = {near_indices[m] % len(structure) for m in match}       = mt.map nearUc
    `near_types[atom_idx] == pattern_elements[i] and near_indices[atom_idx] % len(structure) not in uc_atoms_in_match`
                                                                               = the filter of extendRound
    cells_away = np.floor(home_positions.dot(np.linalg.inv(cell)) + 1e-9)       = Mat3.cellsAway   (one atom; inverse = adjugate / det)
    home_positions - cells_away.dot(cell)                                       = Mat3.intoCell
-/
import MofunModel.Generated.Code
import MofunModel.Model.Find
import Mathlib.Tactic.Ring

namespace Mofun.C01Code
open Mofun Mofun.Generated
set_option linter.unusedSimpArgs false

theorem dec_1_9 : Dec.toRat ⟨1, 9⟩ = faceEps := by decide +kernel

/-- for ALL cells and positions (repair 517adff): how many whole cells an atom is away from the home cell -/
theorem nearCellsAway_eq (c : Mat3) (p : Vec3) : Generated.Code.nearCellsAway p c = c.cellsAway p := by
  unfold Generated.Code.nearCellsAway Mat3.cellsAway Mat3.frac Mat3.det Vec3.dot Vec3.cross Py.floor
  simp only [dec_1_9]
  refine Prod.ext ?_ (Prod.ext ?_ ?_) <;> simp only [] <;> congr 2 <;> ring
/-- for ALL cells and positions: the image of an atom inside the cell, a translation by INTEGER lattice vectors -/
theorem nearHomePosition_eq (c : Mat3) (p : Vec3) : Generated.Code.nearHomePosition p c = c.intoCell p := by
  have h := nearCellsAway_eq c p
  unfold Generated.Code.nearCellsAway at h
  unfold Generated.Code.nearHomePosition Mat3.intoCell
  simp only []
  rw [← h]
  simp only [Mat3.lattice, Vec3.sub, Vec3.add, Vec3.smul]

/-! final check -/
theorem close1_zero (a b atol : Rat) : Py.close1 a b 0 atol = closeCoord a b atol := by
  unfold Py.close1 closeCoord
  have : Py.abs (a - b) = absRat (a - b) := rfl
  simp [this]

/-- for ALL candidates (repair 8e95ae1): the final re-check with `rtol=0` is the model's `closeVec` on every atom — the
    requested absolute tolerance is the whole tolerance; without `rtol=0` numpy's default 1e-5 enters and this theorem fails -/
theorem findFinalCheck_eq (atol : Rat) (chk A : List Vec3) :
    Generated.Code.findFinalCheck atol chk A =
      if A.length = chk.length then some ((A.zip chk).all (fun p => closeVec p.1 p.2 atol)) else none := by
  unfold Generated.Code.findFinalCheck Py.allclose?
  by_cases h : A.length = chk.length <;> simp [h, close1_zero, closeVec]

/-! extension filter -/
/-- for ALL partial matches inside the near list (repair f8394e0): the unit-cell atoms a partial match already uses -/
theorem findUcAtomsInMatch_eq (n : Nat) (hn : n ≠ 0) (near mt : List Nat) (h : ∀ k ∈ mt, k < near.length) :
    Generated.Code.findUcAtomsInMatch n near mt = some ((mt.map (fun k => (near.map (· % n)).getD k 0)).map Int.ofNat) := by
  unfold Generated.Code.findUcAtomsInMatch
  simp only [bind, pure, Option.bind_eq_bind, Option.bind_some]
  induction mt with
  | nil => rfl
  | cons k ks ih =>
    have hk := h k (by simp)
    have ih' := ih (fun j hj => h j (by simp [hj]))
    have hm : Py.intMod? ((near[k] : Nat) : Int) (n : Int) = some (Int.ofNat (near[k] % n)) := by
      unfold Py.intMod?
      have : ¬ ((n : Int) = 0) := by omega
      simp [this, hn, Int.fmod_eq_emod_of_nonneg]
    simp only [Py.listMapM?, List.getElem?_eq_getElem hk, Option.bind_some, hm, ih', List.map_cons]
    simp [List.getD_eq_getElem?_getD, hk]
/-- for ALL candidates inside the near list: a nearby atom may extend a partial match iff it has the right element and is
    not (an image of) a unit-cell atom the match already uses -/
theorem findCandidateOk_eq (n : Nat) (hn : n ≠ 0) (types pelems : List String) (near : List Nat) (i cand : Nat) (L : List Nat)
    (h1 : cand < types.length) (h2 : cand < near.length) (h3 : i < pelems.length) :
    Generated.Code.findCandidateOk n types pelems near i cand (L.map Int.ofNat) =
      some (decide (types.getD cand "" = pelems.getD i "") && !(L.contains ((near.map (· % n)).getD cand 0))) := by
  unfold Generated.Code.findCandidateOk
  have hm : Py.intMod? ((near[cand] : Nat) : Int) (n : Int) = some (Int.ofNat (near[cand] % n)) := by
    unfold Py.intMod?
    have : ¬ ((n : Int) = 0) := by omega
    simp [this, hn, Int.fmod_eq_emod_of_nonneg]
  have hc : ∀ x : Nat, (L.map Int.ofNat).contains (Int.ofNat x) = L.contains x := by
    intro x; induction L with
    | nil => rfl
    | cons y ys ih => simp [List.contains_cons, ih]
  simp only [bind, pure, Option.bind_eq_bind, Option.bind_some, List.getElem?_eq_getElem h1, List.getElem?_eq_getElem h2,
    List.getElem?_eq_getElem h3, hm, hc]
  by_cases he : types[cand] = pelems[i] <;> simp [he, List.getD_eq_getElem?_getD, h1, h2, h3]
/-- together: the translated set and test are the filter of the model's `extendRound`
    (`nearElem cand = pelem && !(mt.map nearUc).contains (nearUc cand)`, `nearUc k = near_indices[k] % len(structure)`) -/
theorem extendRound_filter (n : Nat) (hn : n ≠ 0) (types pelems : List String) (near : List Nat) (i cand : Nat) (mt : List Nat)
    (hm : ∀ k ∈ mt, k < near.length) (h1 : cand < types.length) (h2 : cand < near.length) (h3 : i < pelems.length) :
    ∃ U, Generated.Code.findUcAtomsInMatch n near mt = some U ∧
      Generated.Code.findCandidateOk n types pelems near i cand U =
        some (decide (types.getD cand "" = pelems.getD i "") &&
              !((mt.map (fun k => (near.map (· % n)).getD k 0)).contains ((near.map (· % n)).getD cand 0))) :=
  ⟨_, findUcAtomsInMatch_eq n hn near mt hm, findCandidateOk_eq n hn types pelems near i cand _ h1 h2 h3⟩

/-- an atom one cell to the right and slightly below the bottom face: one cell away in x, inside in y (the 1e-9) -/
example : Generated.Code.nearCellsAway ⟨27 / 2, -1 / 100000000000, 3⟩ ⟨⟨10, 0, 0⟩, ⟨0, 10, 0⟩, ⟨0, 0, 10⟩⟩ = (1, 0, 0) := by
  decide +kernel
example : Generated.Code.findFinalCheck (1 / 20) [⟨100, 0, 0⟩] [⟨100 + 1 / 1000 + 1 / 20, 0, 0⟩] = some false := by decide +kernel

end Mofun.C01Code
