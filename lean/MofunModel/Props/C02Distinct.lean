/-
  C02 (continued) — the hypothesis "the atoms of an occurrence are pairwise different atoms" discharged on the domain.

  Since f8394e0 the search never takes a unit-cell atom twice into one match, so completeness speaks about occurrences made
  of DISTINCT atoms (`DistOccurrence.inj`; hypotheses `hinj` / `hdistinct` of `rigid_occurrence_meets_distance_test`,
  `find_complete_rigid_partial`, `findW_complete_rigid_partial`).  Under the decidable guard `countGuards` (every
  perpendicular width > 2·(√m + 2·atol), 2ε ≤ atol, pattern atoms pairwise farther apart than 2ε) distinctness is a THEOREM
  (`occ_atoms_distinct`, Proofs/OccCountGeom.lean), and the headline statements hold without that hypothesis.
-/
import MofunModel.Props.C02
import MofunModel.Proofs.OccCountGeom
import MofunModel.Proofs.FindCompleteWrapped

namespace Mofun

/-- under `countGuards` the atoms of every occurrence are pairwise different atoms — in the form the completeness
    theorems ask for -/
theorem occ_distinct_of_guards (inp : FindInput) (epsSq : Rat) (hG : countGuards inp epsSq = true)
    (g : Nat → Nat) (n : Nat → Int × Int × Int) (h : RigidOccurrence inp epsSq g n) :
    ∀ i j, j < i → i < inp.ppos.length → g j ≠ g i := by
  intro i j hji hi e
  have := occ_atoms_distinct inp epsSq (countGuards_spec inp epsSq hG) g n h j i (by omega) hi e
  omega

/-- the guard does not look at where the atoms are stored -/
theorem countGuards_wrapped (inp : FindInput) (epsSq : Rat) : countGuards inp.wrapped epsSq = countGuards inp epsSq := by
  unfold countGuards patSeparated widthB2 patMax FindInput.wrapped
  simp

/-- **rigid copy ⟹ distance test**, no distinctness hypothesis -/
theorem rigid_occurrence_meets_distance_test_guarded (inp : FindInput) (epsSq : Rat) (hG : countGuards inp epsSq = true)
    (g : Nat → Nat) (n : Nat → Int × Int × Int) (h : RigidOccurrence inp epsSq g n) : DistOccurrence inp g n :=
  rigid_implies_dist inp epsSq (countGuards_spec inp epsSq hG).eps g n h (occ_distinct_of_guards inp epsSq hG g n h)

/-- **find_complete_rigid_partial**, hypothesis-free form on the guarded domain (still under `OracleAligns`) -/
theorem find_complete_rigid_partial_guarded (inp : FindInput) (ax1 : Nat) (oracle : Nat → Nat → Quat)
    (choose : Nat → List Nat → Nat) (hS : searchGuards inp = true) (epsSq : Rat) (hG : countGuards inp epsSq = true)
    (key : List Nat) (hocc : Occ inp epsSq key)
    (hor : ∀ g n, RigidOccurrence inp epsSq g n → OracleAligns inp ax1 oracle (occTuple inp g n)) :
    key ∈ (find inp ax1 oracle choose).map Match.key :=
  find_complete_rigid_partial inp ax1 oracle choose hS epsSq (countGuards_spec inp epsSq hG).eps key hocc
    (occ_distinct_of_guards inp epsSq hG) hor

/-- **findW_complete_rigid_partial** (atoms stored anywhere), hypothesis-free form on the guarded domain -/
theorem findW_complete_rigid_partial_guarded (inp : FindInput) (ax1 : Nat) (oracle : Nat → Nat → Quat)
    (choose : Nat → List Nat → Nat) (hS : searchGuardsW inp = true) (epsSq : Rat) (hG : countGuards inp epsSq = true)
    (key : List Nat) (hocc : Occ inp epsSq key)
    (hor : ∀ g n, RigidOccurrence inp.wrapped epsSq g n → OracleAligns inp.wrapped ax1 oracle (occTuple inp.wrapped g n)) :
    key ∈ (findW inp ax1 oracle choose).map Match.key :=
  findW_complete_rigid_partial inp ax1 oracle choose hS epsSq (countGuards_spec inp epsSq hG).eps key hocc
    (occ_distinct_of_guards inp.wrapped epsSq (by rw [countGuards_wrapped]; exact hG)) hor

/-- non-vacuity: a roomy cell satisfies both guards -/
example : searchGuards c02Sym = true ∧ countGuards c02Sym (1/1600) = true := by decide +kernel

end Mofun
