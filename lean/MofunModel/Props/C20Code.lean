/-
  C20Code.lean — the SEQUENCING of `mofun_cli` (mofun/cli/mofun_cli.py), re-translated from the python source text on
  every run by harness/gen_code.py (Generated.Code.mofunCliTrace: which simple statement is executed under which
  option guard, in program order), IS the model's `planCalls` (Model/Cli.lean) the C20 theorems are about:
  segment by segment (load, extract-uc, dump, charges, replicate, mic, pp, find/replace, framework element, save),
  the statements decode (Proofs/Code2Cli.lean: `evTable`) to exactly the calls of that segment, with every argument
  taken from the option the model takes it from.  Re-ordering two steps, dropping an argument (atol, hints, fraction),
  or changing a guard in the python source breaks this theorem.
-/
import MofunModel.Proofs.Code2Cli

namespace Mofun.C20Code
open Mofun Mofun.Generated Mofun.Cli Mofun.Code2Cli
set_option linter.unusedSimpArgs false

/-- for ALL options, ALL cells and both answers of `cell_is_orthorhombic()` consistent with the cell: the statements
    the translated function body executes decode to `planCalls o c`.  `inputNative` / `outputNative` are the model's
    suffix classes of the two paths; the slice receives the suffixes themselves and tests them against the python
    list literals. -/
theorem mofunCli_trace_eq (o : Options) (c : Option CellInfo) (ortho : Bool)
    (hin : o.inputNative = inputIsNative o.input) (hout : o.outputNative = outputIsNative o.output)
    (hc : ∀ ci, c = some ci → ortho = ci.ortho) :
    decodeAll o c (Generated.Code.mofunCliTrace o.findPath o.replacePath o.dumpPath o.extractUc o.chargefile o.replicate
      o.mic o.frameworkElement o.pp (suffixOf o.input) (suffixOf o.output) ortho) = some (planCalls o c) := by
  unfold Generated.Code.mofunCliTrace planCalls
  simp only [List.append_assoc]
  repeat' (apply decodeAll_append)
  all_goals simp only [seg, loadSeg, cellSeg, dumpSeg, chargeSeg, replSeg, micSeg, ppSeg, findSeg, fwSeg, saveSeg, hin, hout,
    inputIsNative, outputIsNative]
  · split <;> simp_all [decodeAll, decodeEv, evTable, lookup]
  · cases h : o.extractUc <;> simp [decodeAll, decodeEv, evTable, lookup, h]
  · cases h : o.dumpPath <;> simp [decodeAll, decodeEv, evTable, lookup, h]
  · cases h : o.chargefile <;> simp [decodeAll, decodeEv, evTable, lookup, h]
  · cases h : o.replicate <;> simp [decodeAll, decodeEv, evTable, lookup, h]
  · cases h : o.mic <;> cases c <;> cases ortho <;> simp_all [decodeAll, decodeEv, evTable, lookup]
  · cases h : o.pp <;> simp [decodeAll, decodeEv, evTable, lookup, h]
  · cases h : o.findPath <;> cases h' : o.replacePath <;> simp [decodeAll, decodeEv, evTable, lookup, h, h']
  · cases h : o.frameworkElement <;> simp [decodeAll, decodeEv, evTable, lookup, h]
  · cases h : o.frameworkElement <;> split <;> simp_all [decodeAll, decodeEv, evTable, lookup]

/-- the defaults of the python signature are the defaults of the model's `Options` -/
theorem defaults_eq (i out : String) (inat onat : Bool) :
    let o : Options := { input := i, inputNative := inat, output := out, outputNative := onat }
    o.atol = Generated.Code.mofunCliTrace_default_atol ∧
      o.replaceFraction = Generated.Code.mofunCliTrace_default_replace_fraction ∧
      o.pp = Generated.Code.mofunCliTrace_default_pp := by
  refine ⟨?_, ?_, ?_⟩
  · show (1 / 20 : Rat) = _; decide +kernel
  · show (1 : Rat) = _; decide +kernel
  · rfl

/-- a concrete run: cif in, replicate, find + replace, lmpdat out -/
example :
    decodeAll { input := "a.cif", inputNative := true, output := "b.lmpdat", outputNative := true,
                findPath := some "f.cml", replacePath := some "r.cml", replicate := some (2, 1, 1) } none
      (Generated.Code.mofunCliTrace (some "f.cml") (some "r.cml") none none none (some (2, 1, 1)) none none false
        ".cif" ".lmpdat" true) =
      some [.load "a.cif", .replicate (2, 1, 1), .loadPattern "f.cml", .loadPattern "r.cml",
            .replace (1 / 20) ⟨none, none, none⟩ 1, .save "b.lmpdat"] := by
  simp [Generated.Code.mofunCliTrace, decodeAll, decodeEv, evTable, lookup]

/-- fourth batch (repair f7e45cd): the replication factors of `--mic`, translated from the python source line
    `np.maximum(1, np.array(np.ceil(2*mic / np.diag(atoms.cell)), dtype=int))` (numpy expression expanded over the diagonal
    of the cell), are the model's `micDims`: at least one copy in every direction -/
theorem mofunCliMicRepls_eq (mic : Rat) (c : Mat3) :
    Generated.Code.mofunCliMicRepls mic c = micDims mic (c.a.x, c.b.y, c.c.z) := by
  first | rfl | (unfold Generated.Code.mofunCliMicRepls micDims micDim Generated.Py.ceil; simp [Rat.mul_comm, Int.max_comm])

example : Generated.Code.mofunCliMicRepls 0 ⟨⟨10, 0, 0⟩, ⟨0, 10, 0⟩, ⟨0, 0, 10⟩⟩ = (1, 1, 1) := by decide +kernel
example : Generated.Code.mofunCliMicRepls 12 ⟨⟨10, 0, 0⟩, ⟨0, 30, 0⟩, ⟨0, 0, 24⟩⟩ = (3, 1, 1) := by decide +kernel

end Mofun.C20Code
