/-
  C12Code.lean — the cell of a replicated structure, re-translated from the python source text of `Atoms.replicate`
  (`repl_atoms.cell = self.cell * np.array(repldims).reshape(3, 1)`, numpy broadcasting expanded over the 3x3 cell) on
  every run by harness/gen_code.py (Generated/Code.lean), IS the model's `Mat3.scaleRows` (Model/Topo.lean
  `Atoms.replicate`, C12): ROW k of the cell is multiplied by replication factor k.
  (The order of the image offsets, `np.meshgrid(…).T.reshape(-1, 3)`, is not translated.)
-/
import MofunModel.Generated.Code
import MofunModel.Model.Topo

namespace Mofun.C12Code
open Mofun Mofun.Generated
set_option linter.unusedSimpArgs false

theorem replicateCell_eq (c : Mat3) (d : Nat × Nat × Nat) :
    Generated.Code.replicateCell c d = c.scaleRows d.1 d.2.1 d.2.2 := by
  unfold Generated.Code.replicateCell Mat3.scaleRows Vec3.smul
  simp [Rat.mul_comm]

/-- the cell of `a.replicate da db dc` in the model is the generated one -/
theorem replicate_cell (a r : Atoms) (da db dc : Nat) (h : a.replicate da db dc = .ok r) :
    ∃ cell, a.cell = some cell ∧ r.cell = some (Generated.Code.replicateCell cell (da, db, dc)) := by
  unfold Atoms.replicate at h
  cases hc : a.cell with
  | none => simp [hc] at h
  | some cell =>
    refine ⟨cell, rfl, ?_⟩
    simp only [hc] at h
    split at h
    · cases h
    · cases h; simp [replicateCell_eq]

theorem default_repldims : Generated.Code.replicateCell_default_repldims = (1, 1, 1) := rfl

example : Generated.Code.replicateCell ⟨⟨1, 2, 3⟩, ⟨4, 5, 6⟩, ⟨7, 8, 9⟩⟩ (2, 1, 3) = ⟨⟨2, 4, 6⟩, ⟨4, 5, 6⟩, ⟨21, 24, 27⟩⟩ := by
  decide +kernel

end Mofun.C12Code
