/-
  C17 (stretch) — the bond rule with an explicit MINIMUM over all periodic images, and the completeness of the
  27-image scan the code performs.   Helper lemmas: Proofs/BondsMin.lean.   Model: Model/Bonds.lean.

  * `minImageDist2 L p q` — the smallest of the squared distances ‖p + n·L − q‖², n ∈ ℤ³.  It exists for every
    rational cell (clear denominators, well-ordering of ℕ): `min_image_exists`, `min_image_dist2_spec`.
  * the rule of C17 in minimum form: bonded ⇔ `minImageDist2 < cutoff²` (strict, as in the code): `bond_rule_min_form`,
    `bonds_eq_minimage_dist`.
  * when do the 27 scanned images contain a nearest image?
      guard 1 (cutoff-dependent, = the property's domain): every perpendicular width ≥ cutoff.  Then the scan decides
        the rule, and whenever the minimum is below the cutoff it is attained among the 27 (`scan_complete_within_cutoff`).
      guard 2 (cutoff-independent, `Mat3.scanReduced`): Σ_j |(G⁻¹)_kj|·G_jj ≤ 2 for the Gram matrix G.  Then the 27 images
        ALWAYS contain a nearest image, so the scan equals the rule for every cutoff, also cutoffs larger than the cell
        (`scan_contains_minimiser_reduced`, `bonds_eq_minimage_reduced`); every orthorhombic cell qualifies
        (`scan_reduced_ortho`).
      outside both guards the scan can miss the nearest image and report a wrong bonding
        (`scan_incomplete_outside_guards`: cell (1,0,0),(-6,2,0),(0,0,10), nearest image at n = (-3,0,0)).
-/
import MofunModel.Proofs.BondsMin
import MofunModel.Props.C17

namespace Mofun
open Bonds

/-- **min_image_exists.** For every (rational) cell — degenerate or not — and every two positions, some lattice image
    of `p` is at least as close to `q` as every other image: the set of squared image distances has a minimum. -/
theorem min_image_exists (L : Mat3) (p q : Vec3) :
    ∃ n1 n2 n3 : Int, ∀ m1 m2 m3 : Int,
      distSq (p + L.lattice n1 n2 n3) q ≤ distSq (p + L.lattice m1 m2 m3) q :=
  exists_min_image L p q

/-- **min_image_dist2_spec.** `minImageDist2` is attained by an image, is a lower bound of all image distances, and is
    the only number with these two properties; it is symmetric in the two atoms. -/
theorem min_image_dist2_spec (L : Mat3) (p q : Vec3) :
    (∃ n1 n2 n3 : Int, minImageDist2 L p q = distSq (p + L.lattice n1 n2 n3) q)
    ∧ (∀ m1 m2 m3 : Int, minImageDist2 L p q ≤ distSq (p + L.lattice m1 m2 m3) q)
    ∧ (∀ d : Rat, (∀ m1 m2 m3 : Int, d ≤ distSq (p + L.lattice m1 m2 m3) q) →
        (∃ n1 n2 n3 : Int, d = distSq (p + L.lattice n1 n2 n3) q) → d = minImageDist2 L p q)
    ∧ 0 ≤ minImageDist2 L p q ∧ minImageDist2 L p q = minImageDist2 L q p :=
  ⟨minImageDist2_attained L p q, minImageDist2_le L p q, minImageDist2_unique L p q,
    minImageDist2_nonneg L p q, minImageDist2_symm L p q⟩

/-- **bond_rule_min_form.** "Some periodic image is strictly within the cutoff" (the form of `bonds_eq_minimage`) is
    the same as "the minimum-image distance is strictly below the cutoff". -/
theorem bond_rule_min_form (L : Mat3) (p q : Vec3) (c : Rat) :
    MinImage L p q c ↔ minImageDist2 L p q < c * c :=
  minImage_iff_dist2 L p q c

/-- **bonds_eq_minimage_dist.** `bonds_eq_minimage` with the explicit minimum: under `bondGuards` (det ≠ 0, atoms inside
    the cell, perpendicular widths ≥ the cutoffs in use) `(i, j)` is reported iff `i < j` and the smallest squared
    distance over ALL lattice images is below the squared cutoff of the two elements. -/
theorem bonds_eq_minimage_dist (elems : List String) (pos : List Vec3) (L : Mat3) (r : List (Nat × Nat))
    (h : detectBonds elems pos (some L) = .ok r) (hg : bondGuards elems pos L = true) :
    ∀ i j, (i, j) ∈ r ↔ i < j ∧ ∃ e1 p1 e2 p2 c, elems[i]? = some e1 ∧ pos[i]? = some p1 ∧ elems[j]? = some e2
        ∧ pos[j]? = some p2 ∧ maxBondLength e1 e2 = some c ∧ minImageDist2 L p1 p2 < c * c := by
  intro i j
  rw [bonds_eq_minimage elems pos L r h hg]
  simp only [minImage_iff_dist2]

/-- **scan_complete_within_cutoff** (guard 1).  For a cell with det ≠ 0, in-cell atoms and perpendicular widths ≥ `c`:
    the scan over the 27 images is below the cutoff iff the true minimum is, and whenever the true minimum is below the
    cutoff the 27 images contain a nearest image (`scanMinDist2 = minImageDist2`). -/
theorem scan_complete_within_cutoff (L : Mat3) (p q : Vec3) (c : Rat) (hdet : L.det ≠ 0)
    (hp : L.inside p) (hq : L.inside q) (hw : L.widthsGe c) :
    (scanMinDist2 L p q < c * c ↔ minImageDist2 L p q < c * c)
    ∧ (minImageDist2 L p q < c * c → scanMinDist2 L p q = minImageDist2 L p q) := by
  refine ⟨?_, scanMin_eq_of_widths L p q c hdet hp hq hw⟩
  rw [← scan_iff_scanMin, images27_iff_minImage L p q c hdet hp hq hw, minImage_iff_dist2]

/-- **scan_contains_minimiser_reduced** (guard 2, no cutoff involved).  In a `scanReduced` cell the 27 scanned images of
    an in-cell atom always contain a nearest image of any other in-cell atom; the scanned minimum is the minimum-image
    distance. -/
theorem scan_contains_minimiser_reduced (L : Mat3) (p q : Vec3) (hred : L.scanReduced)
    (hp : L.inside p) (hq : L.inside q) :
    (∃ m ∈ ucMultipliers, ∀ n1 n2 n3 : Int,
        distSq (p + L.lattice m.1 m.2.1 m.2.2) q ≤ distSq (p + L.lattice n1 n2 n3) q)
    ∧ scanMinDist2 L p q = minImageDist2 L p q :=
  ⟨scan_contains_minimiser L p q hred hp hq, scanMin_eq_of_reduced L p q hred hp hq⟩

/-- **bonds_eq_minimage_reduced.** In a `scanReduced` cell with the atoms inside it, `detect_bonds` equals the
    minimum-image rule for EVERY cutoff — no relation between cutoffs and cell widths is needed (the cell may be
    narrower than a bond). -/
theorem bonds_eq_minimage_reduced (elems : List String) (pos : List Vec3) (L : Mat3) (r : List (Nat × Nat))
    (h : detectBonds elems pos (some L) = .ok r) (hg : bondGuardsReduced pos L = true) :
    ∀ i j, (i, j) ∈ r ↔ i < j ∧ ∃ e1 p1 e2 p2 c, elems[i]? = some e1 ∧ pos[i]? = some p1 ∧ elems[j]? = some e2
        ∧ pos[j]? = some p2 ∧ maxBondLength e1 e2 = some c ∧ minImageDist2 L p1 p2 < c * c := by
  obtain ⟨hred, hin⟩ := (bondGuardsReduced_iff pos L).mp hg
  intro i j
  rw [(bonds_pairs_spec elems pos (some L) r h).1]
  constructor
  · rintro ⟨hlt, e1, p1, e2, p2, h1, h2, h3, h4, c, hc, hb⟩
    refine ⟨hlt, e1, p1, e2, p2, c, h1, h2, h3, h4, hc, ?_⟩
    rw [← minImage_iff_dist2]
    exact (images27_iff_minImage_reduced L p1 p2 c hred (hin p1 (List.mem_of_getElem? h2))
      (hin p2 (List.mem_of_getElem? h4))).mp hb
  · rintro ⟨hlt, e1, p1, e2, p2, c, h1, h2, h3, h4, hc, hm⟩
    refine ⟨hlt, e1, p1, e2, p2, h1, h2, h3, h4, c, hc, ?_⟩
    rw [← minImage_iff_dist2] at hm
    exact (images27_iff_minImage_reduced L p1 p2 c hred (hin p1 (List.mem_of_getElem? h2))
      (hin p2 (List.mem_of_getElem? h4))).mpr hm

/-- **scan_reduced_ortho.** Every orthorhombic cell with non-zero edges is `scanReduced` (whatever its size). -/
theorem scan_reduced_ortho (a b c : Rat) (ha : a ≠ 0) (hb : b ≠ 0) (hc : c ≠ 0) :
    (⟨⟨a, 0, 0⟩, ⟨0, b, 0⟩, ⟨0, 0, c⟩⟩ : Mat3).scanReduced :=
  scanReduced_of_ortho a b c ha hb hc

/-- **bonds_eq_minimage_margin.** The width guard widened to atoms ON the faces of the cell and slightly outside it.
    Guards (`bondGuardsMargin`, executable): `0 ≤ δ < 1/2`, det ≠ 0, every fractional coordinate in the closed interval
    `[-δ, 1 + δ]`, and `cutoff ≤ (1 - 2δ)·width_k` for every cutoff in use.  Then `(i, j)` is reported iff `i < j` and the
    minimum-image distance is below the cutoff.  `δ = 0`: closed cell, widths ≥ cutoff (`bondGuards` implies it —
    `bondGuards_imp_margin`). -/
theorem bonds_eq_minimage_margin (elems : List String) (pos : List Vec3) (L : Mat3) (δ : Rat) (r : List (Nat × Nat))
    (h : detectBonds elems pos (some L) = .ok r) (hg : bondGuardsMargin elems pos L δ = true) :
    ∀ i j, (i, j) ∈ r ↔ i < j ∧ ∃ e1 p1 e2 p2 c, elems[i]? = some e1 ∧ pos[i]? = some p1 ∧ elems[j]? = some e2
        ∧ pos[j]? = some p2 ∧ maxBondLength e1 e2 = some c ∧ minImageDist2 L p1 p2 < c * c := by
  obtain ⟨_, hδ1, hdet, hin, hw⟩ := (bondGuardsMargin_iff elems pos L δ).mp hg
  intro i j
  rw [(bonds_pairs_spec elems pos (some L) r h).1]
  constructor
  · rintro ⟨hlt, e1, p1, e2, p2, h1, h2, h3, h4, c, hc, hb⟩
    refine ⟨hlt, e1, p1, e2, p2, c, h1, h2, h3, h4, hc, ?_⟩
    rw [← minImage_iff_dist2]
    exact (images27_iff_minImage_margin L p1 p2 c δ hdet hδ1 (hin p1 (List.mem_of_getElem? h2))
      (hin p2 (List.mem_of_getElem? h4))
      (hw e1 (List.mem_of_getElem? h1) e2 (List.mem_of_getElem? h3) c hc)).mp hb
  · rintro ⟨hlt, e1, p1, e2, p2, c, h1, h2, h3, h4, hc, hm⟩
    refine ⟨hlt, e1, p1, e2, p2, h1, h2, h3, h4, c, hc, ?_⟩
    rw [← minImage_iff_dist2] at hm
    exact (images27_iff_minImage_margin L p1 p2 c δ hdet hδ1 (hin p1 (List.mem_of_getElem? h2))
      (hin p2 (List.mem_of_getElem? h4))
      (hw e1 (List.mem_of_getElem? h1) e2 (List.mem_of_getElem? h3) c hc)).mpr hm

/-- the original guards are the case δ = 0 of the margin guards (which in addition admit atoms on the far faces) -/
theorem bondGuards_imp_margin (elems : List String) (pos : List Vec3) (L : Mat3)
    (hg : bondGuards elems pos L = true) : bondGuardsMargin elems pos L 0 = true := by
  obtain ⟨hdet, hin, hw⟩ := (bondGuards_iff elems pos L).mp hg
  rw [bondGuardsMargin_iff]
  refine ⟨le_refl _, by norm_num, hdet, fun p hp => inside_imp_insideMargin L p (hin p hp), ?_⟩
  intro e1 h1 e2 h2 c hc
  exact (widthsGe_iff_scaled_one L c).mp (hw e1 h1 e2 h2 c hc)

/-! ### outside the guards the scan is incomplete: a concrete skewed cell -/

/-- cell rows (1,0,0), (-6,2,0), (0,0,10): perpendicular width along `a` ≈ 0.32 -/
def exSkewCell : Mat3 := ⟨⟨1, 0, 0⟩, ⟨-6, 2, 0⟩, ⟨0, 0, 10⟩⟩
/-- fractional (0,0,1/2) and (0,1/2,1/2): both inside the cell -/
def exSkewP : Vec3 := ⟨0, 0, 5⟩
def exSkewQ : Vec3 := ⟨-3, 1, 5⟩

/-- **scan_incomplete_outside_guards.** The guards cannot be dropped: for the cell above (det ≠ 0, both atoms inside the
    cell, C–C cutoff 1.97) the nearest image `p − 3a` is at distance 1 from `q`, but none of the 27 scanned images is
    within the cutoff (the best, `p − a`, is at √5 ≈ 2.24): `detect_bonds` reports no bond where the minimum-image rule
    has one.  The cell violates both guards (width 0.32 < 1.97; not `scanReduced`). -/
theorem scan_incomplete_outside_guards :
    exSkewCell.det ≠ 0 ∧ exSkewCell.inside exSkewP ∧ exSkewCell.inside exSkewQ
    ∧ maxBondLength "C" "C" = some (197 / 100)
    ∧ minImageDist2 exSkewCell exSkewP exSkewQ ≤ 1
    ∧ scanMinDist2 exSkewCell exSkewP exSkewQ = 5
    ∧ MinImage exSkewCell exSkewP exSkewQ (197 / 100)
    ∧ detectBonds ["C", "C"] [exSkewP, exSkewQ] (some exSkewCell) = .ok []
    ∧ ¬ exSkewCell.widthsGe (197 / 100) ∧ ¬ exSkewCell.scanReduced := by
  have hnear : distSq (exSkewP + exSkewCell.lattice ((-3 : Int) : Rat) ((0 : Int) : Rat) ((0 : Int) : Rat)) exSkewQ = 1 := by
    decide +kernel
  refine ⟨by decide +kernel, by decide +kernel, by decide +kernel, by decide +kernel, ?_, by decide +kernel, ?_,
    by decide +kernel, by decide +kernel, by decide +kernel⟩
  · have := minImageDist2_le exSkewCell exSkewP exSkewQ (-3) 0 0
    rw [hnear] at this; exact this
  · refine ⟨-3, 0, 0, ?_⟩
    rw [hnear]; norm_num

/-- a cell whose perpendicular widths are all ≥ 94 % of the cutoff 73/250, with two in-cell atoms -/
def exTightCell : Mat3 := ⟨⟨9 / 4, 0, 0⟩, ⟨9 / 4, 1, 0⟩, ⟨-3, -7 / 4, 1 / 2⟩⟩
def exTightP : Vec3 := exTightCell.cart ⟨13 / 16, 0, 3 / 16⟩
def exTightQ : Vec3 := exTightCell.cart ⟨1 / 8, 15 / 16, 5 / 8⟩

/-- **width_guard_nearly_sharp.** The constant in guard 1 ("every perpendicular width ≥ the cutoff") cannot be lowered
    to 94 %: in the cell above every width is ≥ 0.94·c for c = 73/250, both atoms are inside the cell, the image
    `p − a + 2b + c` is strictly within `c` of `q`, and none of the 27 scanned images is.  (A random search finds wrong
    scan decisions up to width/cutoff ≈ 0.99; with width/cutoff ≥ 1 there are none, by `bonds_eq_minimage`.) -/
theorem width_guard_nearly_sharp :
    exTightCell.det ≠ 0 ∧ exTightCell.inside exTightP ∧ exTightCell.inside exTightQ
    ∧ exTightCell.widthsGe (94 / 100 * (73 / 250))
    ∧ MinImage exTightCell exTightP exTightQ (73 / 250)
    ∧ ¬ (∃ o ∈ ucOffsets exTightCell, distSq (exTightP + o) exTightQ < 73 / 250 * (73 / 250)) := by
  refine ⟨by decide +kernel, by decide +kernel, by decide +kernel, by decide +kernel, ?_, ?_⟩
  · refine ⟨-1, 2, 1, ?_⟩
    have : distSq (exTightP + exTightCell.lattice ((-1 : Int) : Rat) ((2 : Int) : Rat) ((1 : Int) : Rat)) exTightQ
        < 73 / 250 * (73 / 250) := by decide +kernel
    exact this
  · rw [scan_iff_scanMin]
    have : ¬ scanMinDist2 exTightCell exTightP exTightQ < 73 / 250 * (73 / 250) := by decide +kernel
    exact this

/-! ### non-vacuity -/

/-- guard 1 on a concrete tilted cell (the example of Props/C17.lean): widths ≥ the C–Cu cutoff, atoms inside -/
example : exC17cell.det ≠ 0 ∧ exC17cell.inside ⟨1 / 2, 1 / 4, 1 / 4⟩ ∧ exC17cell.inside ⟨13 / 2, 27 / 4, 23 / 4⟩
    ∧ exC17cell.widthsGe (253 / 100)
    ∧ scanMinDist2 exC17cell ⟨1 / 2, 1 / 4, 1 / 4⟩ ⟨13 / 2, 27 / 4, 23 / 4⟩ = 3 / 2 := by decide +kernel
/-- guard 2: a tilted cell (tilt = half an edge) is `scanReduced`; so is a flat orthorhombic cell NARROWER than every
    bond cutoff, where guard 1 fails — there `detect_bonds` still equals the rule -/
example : (⟨⟨20, 0, 0⟩, ⟨10, 20, 0⟩, ⟨0, 0, 20⟩⟩ : Mat3).scanReduced := by decide +kernel
example : bondGuardsReduced [⟨1 / 4, 1, 1⟩, ⟨3 / 4, 29, 6⟩] ⟨⟨1, 0, 0⟩, ⟨0, 30, 0⟩, ⟨0, 0, 7⟩⟩ = true
    ∧ bondGuards ["C", "C"] [⟨1 / 4, 1, 1⟩, ⟨3 / 4, 29, 6⟩] ⟨⟨1, 0, 0⟩, ⟨0, 30, 0⟩, ⟨0, 0, 7⟩⟩ = false
    ∧ detectBonds ["C", "C"] [⟨1 / 4, 1, 1⟩, ⟨3 / 4, 29, 6⟩] (some ⟨⟨1, 0, 0⟩, ⟨0, 30, 0⟩, ⟨0, 0, 7⟩⟩) = .ok [] := by
  decide +kernel
/-- inside the property's domain (guard 1 holds) the NEAREST image may still lie outside the 27 — harmlessly, because it
    is then beyond the cutoff: the cell above scaled by 20 (width 6.3 ≥ every cutoff in the table), nearest image
    `p − 3a` at distance 20, best scanned image at 20·√5 -/
example : bondGuards ["Fr", "Fr"] [⟨0, 0, 100⟩, ⟨-60, 20, 100⟩] ⟨⟨20, 0, 0⟩, ⟨-120, 40, 0⟩, ⟨0, 0, 200⟩⟩ = true
    ∧ scanMinDist2 ⟨⟨20, 0, 0⟩, ⟨-120, 40, 0⟩, ⟨0, 0, 200⟩⟩ ⟨0, 0, 100⟩ ⟨-60, 20, 100⟩ = 2000
    ∧ distSq ((⟨0, 0, 100⟩ : Vec3) + (⟨⟨20, 0, 0⟩, ⟨-120, 40, 0⟩, ⟨0, 0, 200⟩⟩ : Mat3).lattice ((-3 : Int) : Rat) ((0 : Int) : Rat) ((0 : Int) : Rat))
        ⟨-60, 20, 100⟩ = 400 := by decide +kernel

/-- margin guards: an atom exactly ON the far faces (fractional (1,1,1)) bonded through the corner image to an atom at
    the origin corner — `bondGuards` is false there, `bondGuardsMargin … 0` holds; and atoms 1 % of a cell length
    outside the cell with δ = 1/100 -/
example : bondGuards ["C", "C"] [⟨0, 0, 0⟩, ⟨7, 7, 6⟩] exC17cell = false
    ∧ bondGuardsMargin ["C", "C"] [⟨0, 0, 0⟩, ⟨7, 7, 6⟩] exC17cell 0 = true
    ∧ detectBonds ["C", "C"] [⟨0, 0, 0⟩, ⟨7, 7, 6⟩] (some exC17cell) = .ok [(0, 1)]
    ∧ bondGuardsMargin ["C", "O"] [⟨-3 / 50, 1, 1⟩, ⟨593 / 100, 1, 1⟩] ⟨⟨6, 0, 0⟩, ⟨0, 6, 0⟩, ⟨0, 0, 6⟩⟩ (1 / 100) = true
    ∧ detectBonds ["C", "O"] [⟨-3 / 50, 1, 1⟩, ⟨593 / 100, 1, 1⟩] (some ⟨⟨6, 0, 0⟩, ⟨0, 6, 0⟩, ⟨0, 0, 6⟩⟩) = .ok [(0, 1)] := by
  decide +kernel

end Mofun
