/-
  C02Code.lean — the GENERATED translation of `helpers.group_duplicates` (the loop that fills an insertion-ordered
  dict `key(m) -> [m, …]`, re-translated from the python source text on every run by harness/gen_code.py into
  Generated/Code.lean) IS the model's `groupBy` (Model/Find.lean), the grouping step of `find_pattern_in_structure`
  on which "one match per atom group" (C02) rests — for an ARBITRARY key function and element type.
-/
import MofunModel.Proofs.Code2Find

namespace Mofun.C02Code
open Mofun Mofun.Generated Mofun.Code2Find
set_option linter.unusedSimpArgs false

/-- for ALL lists and ALL key functions: translated `group_duplicates(l, key)` = `groupBy key l`
    (keys in first-seen order, members in listing order); it never raises -/
theorem groupDuplicates_eq {α κ} [DecidableEq κ] (l : List α) (key : α → κ) :
    Generated.Code.groupDuplicates l key = some (groupBy key l) := by
  unfold Generated.Code.groupDuplicates
  rw [groupBy_eq_foldl]
  simp only [bind, pure, Option.bind_eq_bind]
  rw [forFoldM?_total l _ (groupStep key) (fun st x => by
    first
    | exact group_step key st x
    | exact group_step' key st x
    | (have := group_step key st x; simp only [] at this ⊢; first | exact this | (split at this <;> simp_all)))]
  all_goals (first | rfl | simp)

/-- the search's own key: sorted unit-cell indices -/
theorem groupDuplicates_sorted (n : Nat) (cands : List (List Nat)) :
    Generated.Code.groupDuplicates cands (fun t : List Nat => sortNat (t.map (· % n))) =
      some (groupBy (fun t : List Nat => sortNat (t.map (· % n))) cands) := groupDuplicates_eq _ _

example : Generated.Code.groupDuplicates [[1, 2], [3, 4], [2, 1]] sortNat =
    some [([1, 2], [[1, 2], [2, 1]]), ([3, 4], [[3, 4]])] := by decide

end Mofun.C02Code
