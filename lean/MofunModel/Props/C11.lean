/-
  C11 — extending a structure appends atoms and re-targets terms correctly.
  Property theorems only (helper lemmas: Proofs/ExtendLemmas.lean).  Model: Model/Topo.lean
  (`Atoms.extend` = `Atoms.extend`, `Atoms.extendTypes` = `extend_types`, `TermTable.extendWith` = one
  `if len(other.X) > 0:` block with `find_existing_topo`, `mergeLabels`/`padRow`/`matchRow` = `_extend_extra_fields`).

  Vocabulary (defined in Proofs/ExtendLemmas.lean, all executable):
    `extBase a b off`      the offsets in force: the caller's, or `a.offsets` after `extend_types` (`off = none`)
    `srcOf map i`          the key `k` of the last binding `k ↦ i` of the identity map (`none`: atom `i` is not mapped)
    `adoptRow a b offs k r` row `r` of self after adopting atom `k` of other: type `other.ty[k] + offs.atom`, extra
                           fields = other's row re-laid out under the merged labels; position/charge/group of `r`
    `appendRow a b offs br` row `br` of other as appended: type `+ offs.atom`, extras re-laid out, everything else kept
    `extConv a b map`      `structure_index_map2.get`
    `convTerm labels otherLabels off conv t`  term `t` of other re-targeted: atoms through `conv`, type `+ off`
    `padTerm w t`          old term widened with "." to the merged label list
    `superseded tuples t`  some new tuple equals `t.atoms` forwards or reversed
-/
import MofunModel.Proofs.ExtendLemmas

namespace Mofun

/-- offsets in force -/
def extOffs (a b : Atoms) (off : Option Offsets) : Offsets := (extBase a b off).2

theorem extOffs_some (a b : Atoms) (o : Offsets) : extOffs a b (some o) = o := rfl
theorem extOffs_none (a b : Atoms) : extOffs a b none = a.offsets := rfl

/-- **guards.** A successful `extend` implies the identity map is a dict (distinct keys) inside both arrays;
    the model rejects everything else (`domain` / `index`), so none of the theorems below holds vacuously
    for a malformed map. -/
theorem extend_guard (a b r : Atoms) (off : Option Offsets) (map : List (Nat × Nat))
    (h : a.extend b off map = .ok r) :
    (map.map (·.1)).Nodup ∧ ∀ kv ∈ map, kv.1 < b.atoms.length ∧ kv.2 < a.atoms.length := by
  rw [extend_eq_core] at h
  obtain ⟨h1, h2, _⟩ := extendCore_ok _ _ _ _ _ h
  refine ⟨(nodup'_iff _).mp h1, ?_⟩
  intro kv hkv
  have := h2 kv hkv
  cases off <;> exact this

/-- **extend_atoms.** Result atoms = self's atoms in place (each widened to the merged labels; a mapped one
    additionally adopts the other's type + atom offset and extra fields; position, charge, group never change)
    followed by the unmapped atoms of the other structure, in their order, with type + atom offset. -/
theorem extend_atoms (a b r : Atoms) (off : Option Offsets) (map : List (Nat × Nat))
    (h : a.extend b off map = .ok r) :
    r.atoms =
      (a.atoms.zipIdx).map (fun q => selfRow a b (extOffs a b off) map q.2
          { q.1 with extra := padRow q.1.extra (mergeLabels a.xlabels b.xlabels).length })
      ++ ((b.atoms.zipIdx).filter (fun q => !(map.map (·.1)).contains q.2)).map
          (fun q => appendRow a b (extOffs a b off) q.1) := by
  rw [extend_eq_core] at h
  obtain ⟨_, h2, _, _, _, _, hat, _⟩ := extendCore_ok _ _ _ _ _ h
  rw [hat, extAdded_eq, extUpdated_eq _ _ _ _ (fun kv hkv => (h2 kv hkv).1)]
  cases off <;> rfl

/-- position, charge and group of every atom of self are untouched, and it stays at its index -/
theorem extend_atoms_payload (a b r : Atoms) (off : Option Offsets) (map : List (Nat × Nat))
    (h : a.extend b off map = .ok r) (i : Nat) (hi : i < a.atoms.length) :
    ∃ row, r.atoms[i]? = some row ∧ row.pos = a.atoms[i].pos ∧ row.charge = a.atoms[i].charge
      ∧ row.group = a.atoms[i].group := by
  rw [extend_atoms a b r off map h]
  rw [List.getElem?_append_left (by simpa using hi)]
  simp only [List.getElem?_map, List.getElem?_zipIdx, List.getElem?_eq_getElem hi, Option.map_some, Nat.zero_add]
  refine ⟨_, rfl, ?_⟩
  unfold selfRow
  cases srcOf map i <;> simp [adoptRow]

/-- an atom of self that no binding targets only gets its extra fields widened -/
theorem extend_atoms_unmapped_self (a b r : Atoms) (off : Option Offsets) (map : List (Nat × Nat))
    (h : a.extend b off map = .ok r) (i : Nat) (hi : i < a.atoms.length) (hun : i ∉ map.map (·.2)) :
    r.atoms[i]? = some { a.atoms[i] with
      extra := padRow a.atoms[i].extra (mergeLabels a.xlabels b.xlabels).length } := by
  rw [extend_atoms a b r off map h]
  rw [List.getElem?_append_left (by simpa using hi)]
  simp only [List.getElem?_map, List.getElem?_zipIdx, List.getElem?_eq_getElem hi, Option.map_some, Nat.zero_add]
  have : srcOf map i = none := by
    apply srcOf_none
    intro kv hkv e
    exact hun (List.mem_map.mpr ⟨kv, hkv, e⟩)
  simp [selfRow, this]

/-- a mapped atom (injective map): type and extra fields of the other's atom, everything else its own -/
theorem extend_atoms_mapped (a b r : Atoms) (off : Option Offsets) (map : List (Nat × Nat))
    (h : a.extend b off map = .ok r) (hinj : (map.map (·.2)).Nodup) (k v : Nat) (hkv : (k, v) ∈ map) :
    ∃ (hk : k < b.atoms.length) (hv : v < a.atoms.length),
      r.atoms[v]? = some { a.atoms[v] with
        ty := b.atoms[k].ty + (extOffs a b off).atom
        extra := if a.atoms.length * (mergeLabels a.xlabels b.xlabels).length > 0
                 then matchRow (mergeLabels a.xlabels b.xlabels) b.xlabels b.atoms[k].extra
                 else padRow a.atoms[v].extra (mergeLabels a.xlabels b.xlabels).length } := by
  obtain ⟨_, hb⟩ := extend_guard a b r off map h
  obtain ⟨hk, hv⟩ := hb (k, v) hkv
  refine ⟨hk, hv, ?_⟩
  rw [extend_atoms a b r off map h]
  rw [List.getElem?_append_left (by simpa using hv)]
  simp only [List.getElem?_map, List.getElem?_zipIdx, List.getElem?_eq_getElem hv, Option.map_some, Nat.zero_add]
  simp only [selfRow, srcOf_of_mem map hinj k v hkv, adoptRow, extAnyFields, extLabels, extBx,
    List.getElem?_eq_getElem hk, Option.map_some, Option.getD_some, List.getD_eq_getElem?_getD, List.getElem?_map]
  simp

/-- number of atoms afterwards -/
theorem extend_atoms_length (a b r : Atoms) (off : Option Offsets) (map : List (Nat × Nat))
    (h : a.extend b off map = .ok r) :
    r.atoms.length = a.atoms.length
      + ((b.atoms.zipIdx).filter (fun q => !(map.map (·.1)).contains q.2)).length := by
  rw [extend_atoms a b r off map h]; simp

/-- **index conversion.** A mapped atom `k ↦ v` of the other structure is atom `v` of the result; an unmapped atom
    `k` is atom `n + (number of unmapped atoms before k)`, and the row found there is the other's row as appended. -/
theorem extend_conv (a b r : Atoms) (off : Option Offsets) (map : List (Nat × Nat))
    (h : a.extend b off map = .ok r) :
    (∀ k v, (k, v) ∈ map → extConv a b map k = some v)
    ∧ (∀ k, (hk : k < b.atoms.length) → k ∉ map.map (·.1) →
        extConv a b map k
          = some (((List.range k).filter (fun i => !(map.map (·.1)).contains i)).length + a.atoms.length)
        ∧ ∃ j, extConv a b map k = some j ∧ r.atoms[j]? = some (appendRow a b (extOffs a b off) b.atoms[k])) := by
  have hg := extend_guard a b r off map h
  refine ⟨fun k v hkv => extConv_mapped a b map hg.1 k v hkv, ?_⟩
  intro k hk hun
  refine ⟨extConv_unmapped_rank a b map k hk hun, ?_⟩
  obtain ⟨j, hj, hget⟩ := extConv_unmapped a b map k hk hun
  refine ⟨j + a.atoms.length, hj, ?_⟩
  have hat : r.atoms = map.foldl (extStep a b (extOffs a b off)) (extPadded a b) ++ extAdded a b (extOffs a b off) map := by
    rw [extend_eq_core] at h
    obtain ⟨_, _, _, _, _, _, hat, _⟩ := extendCore_ok _ _ _ _ _ h
    rw [hat]
    cases off <;> rfl
  rw [hat, List.getElem?_append_right (by simp [length_foldl_extStep, extPadded])]
  simp only [length_foldl_extStep, extPadded, List.length_map, Nat.add_sub_cancel]
  rw [extAdded_getElem? a b _ map j k hget]
  simp [List.getElem?_eq_getElem hk]

/-- the result of one term kind, as a function of the two tables -/
def termsSpec (mine other : TermTable) (off : Nat) (conv : Nat → Option Nat) : List Term :=
  let labels := mergeLabels mine.xlabels other.xlabels
  let new := other.terms.map (convTerm labels other.xlabels off conv)
  (mine.terms.filter (fun t => !superseded (new.map (·.atoms)) t)).map (padTerm labels.length) ++ new

/-- **extend_terms.** Per kind: result terms = [old terms not superseded, widened] ++ [every term of the other
    structure, in order, atoms through the index conversion, type + the kind's offset, extras re-laid out];
    labels merged; every converted index is a genuine one (`conv` is defined on all atoms used). -/
theorem extend_terms (a b r : Atoms) (off : Option Offsets) (map : List (Nat × Nat))
    (h : a.extend b off map = .ok r) :
    r.bonds.terms = termsSpec a.bonds b.bonds (extOffs a b off).bond (extConv a b map)
    ∧ r.angles.terms = termsSpec a.angles b.angles (extOffs a b off).angle (extConv a b map)
    ∧ r.dihedrals.terms = termsSpec a.dihedrals b.dihedrals (extOffs a b off).dihedral (extConv a b map)
    ∧ r.impropers.terms = termsSpec a.impropers b.impropers (extOffs a b off).improper (extConv a b map)
    ∧ r.bonds.xlabels = mergeLabels a.bonds.xlabels b.bonds.xlabels
    ∧ r.angles.xlabels = mergeLabels a.angles.xlabels b.angles.xlabels
    ∧ r.dihedrals.xlabels = mergeLabels a.dihedrals.xlabels b.dihedrals.xlabels
    ∧ r.impropers.xlabels = mergeLabels a.impropers.xlabels b.impropers.xlabels
    ∧ (∀ t, t ∈ b.bonds.terms ∨ t ∈ b.angles.terms ∨ t ∈ b.dihedrals.terms ∨ t ∈ b.impropers.terms →
        ∀ x ∈ t.atoms, (extConv a b map x).isSome = true) := by
  rw [extend_eq_core] at h
  obtain ⟨_, _, hb, ha, hd, hi, _⟩ := extendCore_ok _ _ _ _ _ h
  obtain ⟨b1, b2, _, b4⟩ := extendWith_spec _ _ _ _ _ hb
  obtain ⟨a1, a2, _, a4⟩ := extendWith_spec _ _ _ _ _ ha
  obtain ⟨d1, d2, _, d4⟩ := extendWith_spec _ _ _ _ _ hd
  obtain ⟨i1, i2, _, i4⟩ := extendWith_spec _ _ _ _ _ hi
  cases off
  · refine ⟨b1, a1, d1, i1, b2, a2, d2, i2, ?_⟩
    rintro t (ht | ht | ht | ht) x hx
    · exact b4 t ht x hx
    · exact a4 t ht x hx
    · exact d4 t ht x hx
    · exact i4 t ht x hx
  · refine ⟨b1, a1, d1, i1, b2, a2, d2, i2, ?_⟩
    rintro t (ht | ht | ht | ht) x hx
    · exact b4 t ht x hx
    · exact a4 t ht x hx
    · exact d4 t ht x hx
    · exact i4 t ht x hx

theorem superseded_iff (tuples : List (List Nat)) (t : Term) :
    superseded tuples t = true ↔ ∃ u ∈ tuples, t.atoms = u ∨ t.atoms = u.reverse := by
  simp only [superseded, Bool.or_eq_true, List.any_eq_true, decide_eq_true_eq]
  constructor
  · rintro (⟨u, hu, e⟩ | ⟨u, hu, e⟩)
    · exact ⟨u, hu, Or.inl e⟩
    · exact ⟨u, hu, Or.inr e⟩
  · rintro ⟨u, hu, e | e⟩
    · exact Or.inl ⟨u, hu, e⟩
    · exact Or.inr ⟨u, hu, e⟩

/-- **override.** In `termsSpec`, an old term is dropped iff some new term lists exactly its atoms, forwards or
    backwards; every other old term is kept (in order) with atoms and type unchanged; every new term is present. -/
theorem termsSpec_old_iff (mine other : TermTable) (off : Nat) (conv : Nat → Option Nat) (t : Term)
    (ht : t ∈ mine.terms) :
    (padTerm (mergeLabels mine.xlabels other.xlabels).length t
        ∈ (mine.terms.filter (fun t => !superseded
            ((other.terms.map (convTerm (mergeLabels mine.xlabels other.xlabels) other.xlabels off conv)).map (·.atoms)) t)).map
              (padTerm (mergeLabels mine.xlabels other.xlabels).length))
    ↔ ¬ ∃ u ∈ other.terms,
        t.atoms = u.atoms.map (fun x => (conv x).getD 0) ∨ t.atoms = (u.atoms.map (fun x => (conv x).getD 0)).reverse := by
  have hs := superseded_iff
    ((other.terms.map (convTerm (mergeLabels mine.xlabels other.xlabels) other.xlabels off conv)).map (·.atoms))
  have hex : ∀ t : Term, (∃ u ∈ (other.terms.map (convTerm (mergeLabels mine.xlabels other.xlabels) other.xlabels off conv)).map (·.atoms),
        t.atoms = u ∨ t.atoms = u.reverse)
      ↔ ∃ u ∈ other.terms,
        t.atoms = u.atoms.map (fun x => (conv x).getD 0) ∨ t.atoms = (u.atoms.map (fun x => (conv x).getD 0)).reverse := by
    intro t
    simp only [List.map_map, List.mem_map, Function.comp, convTerm]
    constructor
    · rintro ⟨u, ⟨w, hw, rfl⟩, e⟩; exact ⟨w, hw, e⟩
    · rintro ⟨w, hw, e⟩; exact ⟨_, ⟨w, hw, rfl⟩, e⟩
  constructor
  · intro hmem hdrop
    obtain ⟨t', ht', e⟩ := List.mem_map.mp hmem
    have hkeep := (List.mem_filter.mp ht').2
    have hat : t'.atoms = t.atoms := by
      have := congrArg Term.atoms e
      simpa [padTerm] using this
    have : superseded _ t' = true := (hs t').mpr ((hex t').mpr (by rw [hat]; exact hdrop))
    rw [this] at hkeep
    exact absurd hkeep (by decide)
  · intro hno
    refine List.mem_map.mpr ⟨t, List.mem_filter.mpr ⟨ht, ?_⟩, rfl⟩
    have : ¬ superseded _ t = true := fun hsup => hno ((hex t).mp ((hs t).mp hsup))
    simpa using this

/-! ### type tables and resolution of type ids -/

/-- the type tables after `extend`: with default offsets the other's tables are appended (`extend_types`), with
    explicit offsets nothing changes; the cell is never touched -/
theorem extend_tables (a b r : Atoms) (off : Option Offsets) (map : List (Nat × Nat))
    (h : a.extend b off map = .ok r) :
    let t := (extBase a b off).1
    r.typeElems = t.typeElems ∧ r.typeLabels = t.typeLabels ∧ r.typeMasses = t.typeMasses
    ∧ r.pairCoeffs = t.pairCoeffs ∧ r.bonds.coeffs = t.bonds.coeffs ∧ r.angles.coeffs = t.angles.coeffs
    ∧ r.dihedrals.coeffs = t.dihedrals.coeffs ∧ r.impropers.coeffs = t.impropers.coeffs
    ∧ r.cell = a.cell ∧ r.xlabels = mergeLabels a.xlabels b.xlabels := by
  rw [extend_eq_core] at h
  obtain ⟨_, _, hb, ha, hd, hi, _, hx, h1, h2, h3, h4, h5⟩ := extendCore_ok _ _ _ _ _ h
  obtain ⟨_, _, b3, _⟩ := extendWith_spec _ _ _ _ _ hb
  obtain ⟨_, _, a3, _⟩ := extendWith_spec _ _ _ _ _ ha
  obtain ⟨_, _, d3, _⟩ := extendWith_spec _ _ _ _ _ hd
  obtain ⟨_, _, i3, _⟩ := extendWith_spec _ _ _ _ _ hi
  refine ⟨h1, h2, h3, h4, b3, a3, d3, i3, ?_, ?_⟩
  · rw [h5]; cases off <;> rfl
  · rw [hx]; cases off <;> rfl

theorem extend_tables_default (a b r : Atoms) (map : List (Nat × Nat)) (h : a.extend b none map = .ok r) :
    r.typeElems = a.typeElems ++ b.typeElems ∧ r.typeLabels = a.typeLabels ++ b.typeLabels
    ∧ r.typeMasses = a.typeMasses ++ b.typeMasses ∧ r.pairCoeffs = a.pairCoeffs ++ b.pairCoeffs
    ∧ r.bonds.coeffs = a.bonds.coeffs ++ b.bonds.coeffs ∧ r.angles.coeffs = a.angles.coeffs ++ b.angles.coeffs
    ∧ r.dihedrals.coeffs = a.dihedrals.coeffs ++ b.dihedrals.coeffs
    ∧ r.impropers.coeffs = a.impropers.coeffs ++ b.impropers.coeffs := by
  obtain ⟨h1, h2, h3, h4, h5, h6, h7, h8, _⟩ := extend_tables a b r none map h
  exact ⟨h1, h2, h3, h4, h5, h6, h7, h8⟩

theorem extend_tables_explicit (a b r : Atoms) (o : Offsets) (map : List (Nat × Nat))
    (h : a.extend b (some o) map = .ok r) :
    r.typeElems = a.typeElems ∧ r.typeLabels = a.typeLabels ∧ r.typeMasses = a.typeMasses
    ∧ r.pairCoeffs = a.pairCoeffs ∧ r.bonds.coeffs = a.bonds.coeffs ∧ r.angles.coeffs = a.angles.coeffs
    ∧ r.dihedrals.coeffs = a.dihedrals.coeffs ∧ r.impropers.coeffs = a.impropers.coeffs := by
  obtain ⟨h1, h2, h3, h4, h5, h6, h7, h8, _⟩ := extend_tables a b r (some o) map h
  exact ⟨h1, h2, h3, h4, h5, h6, h7, h8⟩

/-- compatibility of one term kind: self's coefficient table covers every id self uses (so the other's entries
    land exactly at the offset), or the other structure brings no coefficients of this kind -/
def TabCompat (mine other : TermTable) : Prop :=
  numTermTypes mine = mine.coeffs.length ∨ other.coeffs = []

instance (mine other : TermTable) : Decidable (TabCompat mine other) := by unfold TabCompat; infer_instance

/-- the compatibility guard of `extend_resolves`: the per-type atom tables of self have one entry per atom type
    (the pair table may also be absent on both sides), and each term kind is `TabCompat` -/
def Compat (a b : Atoms) : Prop :=
  a.typeLabels.length = a.typeElems.length ∧ a.typeMasses.length = a.typeElems.length
  ∧ (a.pairCoeffs.length = a.typeElems.length ∨ (b.pairCoeffs = [] ∧ a.pairCoeffs.length ≤ a.typeElems.length))
  ∧ TabCompat a.bonds b.bonds ∧ TabCompat a.angles b.angles
  ∧ TabCompat a.dihedrals b.dihedrals ∧ TabCompat a.impropers b.impropers

instance (a b : Atoms) : Decidable (Compat a b) := by unfold Compat; infer_instance

theorem getElem?_append_offset {α} (l₁ l₂ : List α) (n ty : Nat) (h : l₁.length = n) :
    (l₁ ++ l₂)[ty + n]? = l₂[ty]? := by
  rw [List.getElem?_append_right (by omega)]; congr 1; omega

theorem coeffs_resolve (mine other : TermTable) (hc : TabCompat mine other) (ty : Nat) :
    (mine.coeffs ++ other.coeffs)[ty + numTermTypes mine]? = other.coeffs[ty]? := by
  rcases hc with e | e
  · exact getElem?_append_offset _ _ _ _ e.symm
  · have hge : mine.coeffs.length ≤ numTermTypes mine := by
      unfold numTermTypes; split
      · exact Nat.le_refl _
      · exact Nat.le_max_left _ _
    rw [e, List.append_nil, List.getElem?_eq_none (by omega)]; simp

/-- **extend_resolves** (default offsets, `Compat`).  A type id `ty` of the other structure, shifted by the offset
    of its kind — which is exactly the id every new term / appended atom / adopted atom carries, see
    `extend_terms`, `extend_atoms` — resolves in the merged tables to the other structure's own element, label,
    mass, pair coefficient and coefficient text. -/
theorem extend_resolves (a b r : Atoms) (map : List (Nat × Nat)) (h : a.extend b none map = .ok r)
    (hc : Compat a b) (ty : Nat) :
    r.typeElems[ty + (extOffs a b none).atom]? = b.typeElems[ty]?
    ∧ r.typeLabels[ty + (extOffs a b none).atom]? = b.typeLabels[ty]?
    ∧ r.typeMasses[ty + (extOffs a b none).atom]? = b.typeMasses[ty]?
    ∧ r.pairCoeffs[ty + (extOffs a b none).atom]? = b.pairCoeffs[ty]?
    ∧ r.bonds.coeffs[ty + (extOffs a b none).bond]? = b.bonds.coeffs[ty]?
    ∧ r.angles.coeffs[ty + (extOffs a b none).angle]? = b.angles.coeffs[ty]?
    ∧ r.dihedrals.coeffs[ty + (extOffs a b none).dihedral]? = b.dihedrals.coeffs[ty]?
    ∧ r.impropers.coeffs[ty + (extOffs a b none).improper]? = b.impropers.coeffs[ty]? := by
  obtain ⟨h1, h2, h3, h4, h5, h6, h7, h8⟩ := extend_tables_default a b r map h
  obtain ⟨c1, c2, c3, c4, c5, c6, c7⟩ := hc
  rw [h1, h2, h3, h4, h5, h6, h7, h8]
  refine ⟨getElem?_append_offset _ _ _ _ rfl, getElem?_append_offset _ _ _ _ c1,
    getElem?_append_offset _ _ _ _ c2, ?_, coeffs_resolve _ _ c4 ty, coeffs_resolve _ _ c5 ty,
    coeffs_resolve _ _ c6 ty, coeffs_resolve _ _ c7 ty⟩
  rcases c3 with e | ⟨e, hle⟩
  · exact getElem?_append_offset _ _ _ _ e
  · show (a.pairCoeffs ++ b.pairCoeffs)[ty + a.typeElems.length]? = _
    rw [e, List.append_nil, List.getElem?_eq_none (by omega)]; simp

/-- the new terms of a kind, as they appear in the result (`extend_terms`), resolve to the other's own texts -/
theorem extend_resolves_new_terms (a b r : Atoms) (map : List (Nat × Nat)) (h : a.extend b none map = .ok r)
    (hc : Compat a b) (labels xl : List String) (conv : Nat → Option Nat) :
    (b.bonds.terms.map (convTerm labels xl (extOffs a b none).bond conv)).map (fun t => r.bonds.coeffs[t.ty]?)
      = b.bonds.terms.map (fun t => b.bonds.coeffs[t.ty]?)
    ∧ (b.angles.terms.map (convTerm labels xl (extOffs a b none).angle conv)).map (fun t => r.angles.coeffs[t.ty]?)
      = b.angles.terms.map (fun t => b.angles.coeffs[t.ty]?)
    ∧ (b.dihedrals.terms.map (convTerm labels xl (extOffs a b none).dihedral conv)).map (fun t => r.dihedrals.coeffs[t.ty]?)
      = b.dihedrals.terms.map (fun t => b.dihedrals.coeffs[t.ty]?)
    ∧ (b.impropers.terms.map (convTerm labels xl (extOffs a b none).improper conv)).map (fun t => r.impropers.coeffs[t.ty]?)
      = b.impropers.terms.map (fun t => b.impropers.coeffs[t.ty]?) := by
  have hr := extend_resolves a b r map h hc
  simp only [List.map_map]
  refine ⟨?_, ?_, ?_, ?_⟩ <;> apply List.map_congr_left <;> intro t _ <;> simp only [Function.comp, convTerm]
  · exact (hr t.ty).2.2.2.2.1
  · exact (hr t.ty).2.2.2.2.2.1
  · exact (hr t.ty).2.2.2.2.2.2.1
  · exact (hr t.ty).2.2.2.2.2.2.2

/-- every appended atom resolves to the other's own element / label / mass / pair coefficient -/
theorem extend_resolves_appended (a b r : Atoms) (map : List (Nat × Nat)) (h : a.extend b none map = .ok r)
    (hc : Compat a b) (br : AtomRow) :
    let row := appendRow a b (extOffs a b none) br
    r.typeElems[row.ty]? = b.typeElems[br.ty]? ∧ r.typeLabels[row.ty]? = b.typeLabels[br.ty]?
    ∧ r.typeMasses[row.ty]? = b.typeMasses[br.ty]? ∧ r.pairCoeffs[row.ty]? = b.pairCoeffs[br.ty]?
    ∧ row.pos = br.pos ∧ row.charge = br.charge ∧ row.group = br.group := by
  have hr := extend_resolves a b r map h hc br.ty
  exact ⟨hr.1, hr.2.1, hr.2.2.1, hr.2.2.2.1, rfl, rfl, rfl⟩

/-- **explicit zero offsets** ("ids already shared"): every new term and every appended / adopted atom carries the
    other structure's type id unchanged, and no table changes -/
theorem extend_shared_ids (a b r : Atoms) (map : List (Nat × Nat))
    (h : a.extend b (some Offsets.zero) map = .ok r) :
    (∀ labels xl conv t, (convTerm labels xl (extOffs a b (some Offsets.zero)).bond conv t).ty = t.ty)
    ∧ (∀ labels xl conv t, (convTerm labels xl (extOffs a b (some Offsets.zero)).angle conv t).ty = t.ty)
    ∧ (∀ labels xl conv t, (convTerm labels xl (extOffs a b (some Offsets.zero)).dihedral conv t).ty = t.ty)
    ∧ (∀ labels xl conv t, (convTerm labels xl (extOffs a b (some Offsets.zero)).improper conv t).ty = t.ty)
    ∧ (∀ br, (appendRow a b (extOffs a b (some Offsets.zero)) br).ty = br.ty)
    ∧ (∀ k r0, k < b.atoms.length → (adoptRow a b (extOffs a b (some Offsets.zero)) k r0).ty = b.atoms[k]!.ty)
    ∧ r.typeElems = a.typeElems ∧ r.typeLabels = a.typeLabels ∧ r.typeMasses = a.typeMasses
    ∧ r.pairCoeffs = a.pairCoeffs ∧ r.bonds.coeffs = a.bonds.coeffs ∧ r.angles.coeffs = a.angles.coeffs
    ∧ r.dihedrals.coeffs = a.dihedrals.coeffs ∧ r.impropers.coeffs = a.impropers.coeffs := by
  refine ⟨fun _ _ _ _ => rfl, fun _ _ _ _ => rfl, fun _ _ _ _ => rfl, fun _ _ _ _ => rfl, fun _ => rfl, ?_,
    extend_tables_explicit a b r _ map h⟩
  intro k r0 hk
  simp [adoptRow, extOffs, extBase, Offsets.zero, getElem!_pos, hk]

/-! ### stretch: the label merge, indices stay inside, repeated extension with shared offsets -/

/-- **merge_extra_spec.** Label union in order (self's labels first, then the other's new ones in their order, no
    repeats), `"."` fill when padding, and placement of the other structure's values by label. -/
theorem merge_extra_spec (mine theirs : List String) (hnd : mine.Nodup) :
    (∀ l, l ∈ mergeLabels mine theirs ↔ l ∈ mine ∨ l ∈ theirs)
    ∧ (mergeLabels mine theirs).Nodup
    ∧ (mergeLabels mine theirs).take mine.length = mine
    ∧ ((mergeLabels mine theirs).drop mine.length).Sublist theirs
    ∧ (∀ (row : List String) (w i : Nat), row.length ≤ w → i < w → (padRow row w)[i]? = some (row.getD i "."))
    ∧ (∀ (row : List String) (w : Nat), row.length ≤ w → (padRow row w).length = w)
    ∧ (∀ labels row : List String, (matchRow labels theirs row).length = labels.length)
    ∧ (∀ (labels row : List String) (i : Nat) (l : String), theirs.Nodup → labels[i]? = some l →
        (∀ j, theirs[j]? = some l → (matchRow labels theirs row)[i]? = some (row.getD j "."))
        ∧ (l ∉ theirs → (matchRow labels theirs row)[i]? = some ".")) := by
  refine ⟨mem_mergeLabels mine theirs, mergeLabels_nodup mine theirs hnd, mergeLabels_take mine theirs,
    mergeLabels_drop_sublist mine theirs, padRow_getElem?, ?_, fun labels row => matchRow_length labels theirs row, ?_⟩
  · intro row w h; rw [padRow_length]; omega
  · intro labels row i l hnd' hl
    exact matchRow_placed labels theirs row hnd' i l hl

/-- every term index of every kind is inside the atom list (decidable) -/
def TermsInside (a : Atoms) : Prop :=
  TabInside a.bonds a.atoms.length ∧ TabInside a.angles a.atoms.length
  ∧ TabInside a.dihedrals a.atoms.length ∧ TabInside a.impropers a.atoms.length

instance (a : Atoms) : Decidable (TermsInside a) := by unfold TermsInside; infer_instance

/-- every converted index of an atom of the other structure is a valid index of the result -/
theorem extend_conv_lt (a b r : Atoms) (off : Option Offsets) (map : List (Nat × Nat))
    (h : a.extend b off map = .ok r) (x : Nat) (hx : x < b.atoms.length) :
    ∃ y, extConv a b map x = some y ∧ y < r.atoms.length := by
  obtain ⟨hc1, hc2⟩ := extend_conv a b r off map h
  by_cases hm : x ∈ map.map (·.1)
  · obtain ⟨p, hp, e⟩ := List.mem_map.mp hm
    have hp' : (x, p.2) ∈ map := by rw [← e]; exact hp
    refine ⟨p.2, hc1 x p.2 hp', ?_⟩
    have := ((extend_guard a b r off map h).2 p hp).2
    have hl := extend_atoms_length a b r off map h
    omega
  · obtain ⟨_, j, hj, hget⟩ := hc2 x hx hm
    exact ⟨j, hj, (List.getElem?_eq_some_iff.mp hget).1⟩

/-- **indices stay inside.** If all term indices of both structures are valid, so are all term indices of the
    result: every new term connects atoms that exist. -/
theorem extend_terms_inside (a b r : Atoms) (off : Option Offsets) (map : List (Nat × Nat))
    (h : a.extend b off map = .ok r) (ha : TermsInside a) (hb : TermsInside b) : TermsInside r := by
  have hconv := extend_conv_lt a b r off map h
  have hlen : a.atoms.length ≤ r.atoms.length := by
    have := extend_atoms_length a b r off map h; omega
  have h' := h
  rw [extend_eq_core] at h'
  obtain ⟨_, _, eb, ea, ed, ei, _⟩ := extendCore_ok _ _ _ _ _ h'
  obtain ⟨a1, a2, a3, a4⟩ := ha
  obtain ⟨b1, b2, b3, b4⟩ := hb
  cases off <;>
  exact ⟨extendWith_inside _ _ _ _ _ _ _ eb a1 hlen (fun t ht x hx => hconv x (b1 t ht x hx)),
         extendWith_inside _ _ _ _ _ _ _ ea a2 hlen (fun t ht x hx => hconv x (b2 t ht x hx)),
         extendWith_inside _ _ _ _ _ _ _ ed a3 hlen (fun t ht x hx => hconv x (b3 t ht x hx)),
         extendWith_inside _ _ _ _ _ _ _ ei a4 hlen (fun t ht x hx => hconv x (b4 t ht x hx))⟩

/-- one term kind after extending twice with the same fragment and the same offset: `t1` after the first, `t2` after
    the second extension.  The first copy is the tail of `t1`; `t2` = all of `t1` (atoms and types) followed by a second
    copy on the newly appended atoms (indices `+ n1`) with the same types as the first; every index of `t1` is
    `< n1`, so the copies are disjoint. -/
def TwiceKind (t1 t2 tb : TermTable) (n1 off : Nat) : Prop :=
  (∃ kept new1, t1.terms = kept ++ new1 ∧ new1.map (·.ty) = tb.terms.map (fun t => t.ty + off))
  ∧ t2.terms.map Term.core
      = t1.terms.map Term.core ++ tb.terms.map (fun t => (t.atoms.map (· + n1), t.ty + off))
  ∧ TabInside t1 n1

/-- **extend_twice.** Extending twice with the same fragment and shared offsets (the second time without identity
    map) yields two disjoint copies of the fragment's terms with identical types, and keeps everything else. -/
theorem extend_twice (a b r1 r2 : Atoms) (o : Offsets) (map : List (Nat × Nat))
    (h1 : a.extend b (some o) map = .ok r1) (h2 : r1.extend b (some o) [] = .ok r2)
    (ha : TermsInside a) (hb : TermsInside b)
    (hne : TabNonEmpty b.bonds ∧ TabNonEmpty b.angles ∧ TabNonEmpty b.dihedrals ∧ TabNonEmpty b.impropers) :
    TwiceKind r1.bonds r2.bonds b.bonds r1.atoms.length o.bond
    ∧ TwiceKind r1.angles r2.angles b.angles r1.atoms.length o.angle
    ∧ TwiceKind r1.dihedrals r2.dihedrals b.dihedrals r1.atoms.length o.dihedral
    ∧ TwiceKind r1.impropers r2.impropers b.impropers r1.atoms.length o.improper
    ∧ r2.atoms.length = r1.atoms.length + b.atoms.length := by
  obtain ⟨i1, i2, i3, i4⟩ := extend_terms_inside a b r1 _ map h1 ha hb
  obtain ⟨t1, t2, t3, t4, _⟩ := extend_terms a b r1 _ map h1
  obtain ⟨b1, b2, b3, b4⟩ := hb
  obtain ⟨n1, n2, n3, n4⟩ := hne
  have h2' := h2
  rw [extend_eq_core] at h2'
  obtain ⟨_, _, eb, ea, ed, ei, _⟩ := extendCore_ok _ _ _ _ _ h2'
  have hconv : ∀ x, x < b.atoms.length → extConv r1 b [] x = some (x + r1.atoms.length) := extConv_nomap r1 b
  have first : ∀ (mine other : TermTable) (off : Nat) (conv : Nat → Option Nat),
      ∃ kept new1, termsSpec mine other off conv = kept ++ new1
        ∧ new1.map (·.ty) = other.terms.map (fun t => t.ty + off) := by
    intro mine other off conv
    refine ⟨_, _, rfl, ?_⟩
    rw [List.map_map]; rfl
  refine ⟨⟨?_, extendWith_sep_core _ _ _ _ _ _ _ eb i1 n1 b1 hconv, i1⟩,
          ⟨?_, extendWith_sep_core _ _ _ _ _ _ _ ea i2 n2 b2 hconv, i2⟩,
          ⟨?_, extendWith_sep_core _ _ _ _ _ _ _ ed i3 n3 b3 hconv, i3⟩,
          ⟨?_, extendWith_sep_core _ _ _ _ _ _ _ ei i4 n4 b4 hconv, i4⟩, ?_⟩
  · rw [t1]; exact first _ _ _ _
  · rw [t2]; exact first _ _ _ _
  · rw [t3]; exact first _ _ _ _
  · rw [t4]; exact first _ _ _ _
  · have := extend_atoms_length r1 b r2 _ [] h2
    have hf : ((b.atoms.zipIdx).filter (fun q => !(([] : List (Nat × Nat)).map (·.1)).contains q.2)) = b.atoms.zipIdx :=
      List.filter_eq_self.mpr (fun _ _ => rfl)
    rw [hf] at this
    simpa using this

/-! ### non-vacuity: concrete structures meeting every hypothesis above -/

/-- C–H–H chain with two bonds and one angle, one extra atom column -/
def exC11a : Atoms :=
  { Atoms.empty with
    atoms := [⟨0, ⟨0, 0, 0⟩, 1, 0, ["a0"]⟩, ⟨1, ⟨1, 0, 0⟩, 2, 0, ["a1"]⟩, ⟨1, ⟨2, 0, 0⟩, 3, 1, ["a2"]⟩]
    bonds := ⟨[⟨[0, 1], 0, []⟩, ⟨[1, 2], 0, []⟩], ["kA"], []⟩
    angles := ⟨[⟨[0, 1, 2], 0, []⟩], ["thA"], []⟩
    typeElems := ["C", "H"], typeLabels := ["C", "H"], typeMasses := [12, 1], pairCoeffs := ["pC", "pH"]
    xlabels := ["_note"] }

/-- O–H–F fragment: its bond lists the atoms mapped onto self's atoms 1, 0 — the reverse of self's bond [0, 1] -/
def exC11b : Atoms :=
  { Atoms.empty with
    atoms := [⟨0, ⟨1, 0, 0⟩, 5, 2, ["o0", "n0"]⟩, ⟨1, ⟨0, 0, 0⟩, 6, 2, ["o1", "n1"]⟩,
              ⟨0, ⟨5, 5, 5⟩, 7, 2, ["o2", "n2"]⟩]
    bonds := ⟨[⟨[0, 1], 0, ["t1"]⟩, ⟨[1, 2], 1, ["t2"]⟩], ["kB0", "kB1"], ["_tag"]⟩
    typeElems := ["O", "F"], typeLabels := ["O", "F"], typeMasses := [16, 19], pairCoeffs := ["pO", "pF"]
    xlabels := ["_occ", "_note"] }

example : ∃ r, exC11a.extend exC11b none [(0, 1), (1, 0)] = .ok r
    ∧ r.atoms.length = 4
    ∧ r.atoms.map (·.ty) = [3, 2, 1, 2]
    ∧ r.atoms.map (·.extra) = [["n1", "o1"], ["n0", "o0"], ["a2", "."], ["n2", "o2"]]
    ∧ r.xlabels = ["_note", "_occ"]
    ∧ r.bonds.terms = [⟨[1, 2], 0, ["."]⟩, ⟨[1, 0], 1, ["t1"]⟩, ⟨[0, 3], 2, ["t2"]⟩]
    ∧ r.bonds.coeffs = ["kA", "kB0", "kB1"] ∧ r.typeElems = ["C", "H", "O", "F"] :=
  ⟨_, rfl, by decide, by decide, by decide, by decide, by decide, by decide, by decide⟩

example : Compat exC11a exC11b := by decide
example : ([(0, 1), (1, 0)].map (·.2) : List Nat).Nodup := by decide
example : superseded [[1, 0], [0, 3]] ⟨[0, 1], 0, []⟩ = true ∧ superseded [[1, 0], [0, 3]] ⟨[1, 2], 0, []⟩ = false := by
  decide
example : TermsInside exC11a ∧ TermsInside exC11b ∧ TabNonEmpty exC11b.bonds := by decide
example : ∃ r1 r2, exC11a.extend exC11b (some ⟨2, 1, 1, 0, 0⟩) [(0, 1)] = .ok r1 ∧ r1.extend exC11b (some ⟨2, 1, 1, 0, 0⟩) [] = .ok r2
    ∧ r2.bonds.terms.map Term.core = [([0, 1], 0), ([1, 2], 0), ([1, 3], 1), ([3, 4], 2), ([5, 6], 1), ([6, 7], 2)] :=
  ⟨_, _, rfl, rfl, by decide⟩
example : ∃ r, exC11a.extend exC11b (some Offsets.zero) [] = .ok r ∧ r.atoms.length = 6
    ∧ r.bonds.terms.map (·.ty) = [0, 0, 0, 1] ∧ r.bonds.coeffs = ["kA"] :=
  ⟨_, rfl, by decide, by decide, by decide⟩
/-- the model rejects a map with a repeated key / an index outside the arrays (no theorem holds vacuously there) -/
example : exC11a.extend exC11b none [(0, 1), (0, 2)] = .error .domain := rfl
example : exC11a.extend exC11b none [(3, 1)] = .error .index := rfl

end Mofun
