/-
  C06 (stretch 2) — the history form: two consecutive replacements (metal centre, then linker) as ONE composed
  statement about what the FIRST replacement left in the structure and what was there ORIGINALLY:

  * `replace_tables_prefix`     every defined entry of every type table is still there, at the same id;
  * `replace_bystander_atom`    an atom that no match removes or re-types keeps id, position, charge, group;
  * `replace_twice_old_terms`   an ORIGINAL term of `s` that neither replacement removes or overrides is still there
                                between the same physical atoms and still resolves to its original text;
  * `replace_twice_atoms`       an atom taken over from `r₁` that the second replacement leaves alone still carries
                                `r₁`'s label / element / mass / pair coefficient;
  * `replace_twice_history`     the three clauses (atoms of `r₁`, terms of `r₁`, original terms) under one set of
                                hypotheses.
-/
import MofunModel.Props.C06

namespace Mofun.C06
open Mofun

theorem getElem?_append_some {α} (a b : List α) (t : Nat) (v : α) (h : a[t]? = some v) : (a ++ b)[t]? = some v := by
  have hlt : t < a.length := (List.getElem?_eq_some_iff.mp h).1
  rw [List.getElem?_append_left hlt]; exact h

/-- **replace_tables_prefix.**  A replacement never moves or changes a defined entry of a type table: atom type
    elements / labels / masses / pair coefficients and the coefficient table of every term kind. -/
theorem replace_tables_prefix (s p r res : Atoms) (ms : List PlacedMatch) (ra ig : Bool) (hne : r.atoms ≠ [])
    (h : replaceCore s p r ms ra ig = .ok res) (t : Nat) :
    (∀ v, s.typeElems[t]? = some v → res.typeElems[t]? = some v)
    ∧ (∀ v, s.typeLabels[t]? = some v → res.typeLabels[t]? = some v)
    ∧ (∀ v, s.typeMasses[t]? = some v → res.typeMasses[t]? = some v)
    ∧ (∀ v, Resolves s.pairCoeffs t = some v → Resolves res.pairCoeffs t = some v)
    ∧ (∀ κ : Kind, ∀ v, Resolves (κ.get s).coeffs t = some v → Resolves (κ.get res).coeffs t = some v) := by
  obtain ⟨st, hI, hd⟩ := replace_unfold s p r res ms ra ig hne h
  obtain ⟨_, hE, hL, hM, hP, _⟩ := delete_atoms _ _ _ hd
  refine ⟨?_, ?_, ?_, ?_, ?_⟩
  · intro v hv; rw [hE, hI.elems]; exact getElem?_append_some _ _ _ _ hv
  · intro v hv; rw [hL, hI.labels]; exact getElem?_append_some _ _ _ _ hv
  · intro v hv; rw [hM, hI.masses]; exact getElem?_append_some _ _ _ _ hv
  · intro v hv; rw [hP, hI.pair]; exact getElem?_append_some _ _ _ _ hv
  · intro κ v hv
    rw [(delete_kind κ _ _ _ hd).2, hI.coeffs κ]
    exact getElem?_append_some _ _ _ _ hv

/-- **replace_bystander_atom.**  An atom of `s` that no selected match removes and that is not the target of any
    match's index map is found at its re-indexed place with the same type id, position, charge and group. -/
theorem replace_bystander_atom (s p r res : Atoms) (ms : List PlacedMatch) (ra ig : Bool) (hne : r.atoms ≠ [])
    (h : replaceCore s p r ms ra ig = .ok res) (x : Nat) (srow : AtomRow) (hx : s.atoms[x]? = some srow)
    (hdel : x ∉ delOf (unchangedPairs r p) ra ms)
    (hnot : ∀ m ∈ ms, x ∉ (matchMap (unchangedPairs r p) ra m).map (·.2)) :
    ∃ row, res.atoms[newIndex (delOf (unchangedPairs r p) ra ms) x]? = some row
      ∧ row.ty = srow.ty ∧ pcg row = pcg srow := by
  obtain ⟨st, hI, hd⟩ := replace_unfold s p r res ms ra ig hne h
  have hxlt : x < s.atoms.length := (List.getElem?_eq_some_iff.mp hx).1
  have hxst : x < st.s.atoms.length := by rw [hI.len]; omega
  have hty := hI.tyOld x hxlt hnot
  have hpc := hI.pcgOld x hxlt
  rw [List.getElem?_eq_getElem hxst, hx] at hty hpc
  refine ⟨st.s.atoms[x], ?_, by simpa using hty, by simpa using hpc⟩
  rw [delete_atom_at st.s res _ (delOf_nodup _ ra ms) hd x hdel hxst]
  exact List.getElem?_eq_getElem hxst

/-- **replace_twice_old_terms.**  An ORIGINAL term `t` of `s` (kind `κ`) through two consecutive replacements: if it
    touches no atom the first removes and no term of `r₁` overrides it, and the same holds for its image under the
    second replacement, then it is in the final result between the same physical atoms (`newIndex del₂ ∘ newIndex del₁`),
    with its type id, and the id still resolves to its original coefficient text (the structure's table covers the
    id, or none of the three defines coefficients of this kind). -/
theorem replace_twice_old_terms (κ : Kind) (s p₁ r₁ mid p₂ r₂ res : Atoms) (ms₁ ms₂ : List PlacedMatch)
    (ra₁ ig₁ ra₂ ig₂ : Bool) (hne₁ : r₁.atoms ≠ []) (hne₂ : r₂.atoms ≠ [])
    (h₁ : replaceCore s p₁ r₁ ms₁ ra₁ ig₁ = .ok mid) (h₂ : replaceCore mid p₂ r₂ ms₂ ra₂ ig₂ = .ok res)
    (t : Term) (ht : t ∈ (κ.get s).terms) :
    let del₁ := delOf (unchangedPairs r₁ p₁) ra₁ ms₁
    let del₂ := delOf (unchangedPairs r₂ p₂) ra₂ ms₂
    let a₁ := t.atoms.map (newIndex del₁)
    survives del₁ t.atoms = true → notOverridden (patternSigs κ s p₁ r₁ ra₁ ms₁) (sig t) = true →
    survives del₂ a₁ = true → notOverridden (patternSigs κ mid p₂ r₂ ra₂ ms₂) (a₁, t.ty) = true →
    (∃ t' ∈ (κ.get res).terms, t'.atoms = a₁.map (newIndex del₂) ∧ t'.ty = t.ty)
    ∧ (t.ty < (κ.get s).coeffs.length
        ∨ ((κ.get s).coeffs = [] ∧ (κ.get r₁).coeffs = [] ∧ (κ.get r₂).coeffs = []) →
       Resolves (κ.get res).coeffs t.ty = Resolves (κ.get s).coeffs t.ty) := by
  intro del₁ del₂ a₁ hs₁ hn₁ hs₂ hn₂
  obtain ⟨⟨t₁, ht₁, hta, hty⟩, _⟩ := replace_old_terms κ s p₁ r₁ mid ms₁ ra₁ ig₁ hne₁ h₁ t ht hs₁ hn₁
  have hs₂' : survives (delOf (unchangedPairs r₂ p₂) ra₂ ms₂) t₁.atoms = true := by rw [hta]; exact hs₂
  have hn₂' : notOverridden (patternSigs κ mid p₂ r₂ ra₂ ms₂) (sig t₁) = true := by
    have : sig t₁ = (a₁, t.ty) := by unfold sig; rw [hta, hty]
    rw [this]; exact hn₂
  obtain ⟨⟨t₂, ht₂, hta₂, hty₂⟩, _⟩ := replace_old_terms κ mid p₂ r₂ res ms₂ ra₂ ig₂ hne₂ h₂ t₁ ht₁ hs₂' hn₂'
  refine ⟨⟨t₂, ht₂, by rw [hta₂, hta], by rw [hty₂, hty]⟩, ?_⟩
  intro hcov
  rw [(replace_terms_eq κ mid p₂ r₂ res ms₂ ra₂ ig₂ hne₂ h₂).1, (replace_terms_eq κ s p₁ r₁ mid ms₁ ra₁ ig₁ hne₁ h₁).1]
  rcases hcov with hlt | ⟨e0, e1, e2⟩
  · rw [resolves_append_prefix _ _ _ (by rw [List.length_append]; omega), resolves_append_prefix _ _ _ hlt]
  · rw [e0, e1, e2]; rfl

/-- **replace_twice_atoms.**  An atom taken over from the FIRST replacement pattern (atom `a` of `r₁`, row `br`,
    match `m₁`), seen after a SECOND replacement that neither removes it nor re-types it: it is found at its twice
    re-indexed place, still has type id `br.ty + (number of atom types of s)`, and that id resolves in the FINAL tables
    to `r₁`'s element, label, mass (tables of `s` aligned) and pair coefficient (`s` has one per type); its position,
    charge and group are those it had after the first replacement. -/
theorem replace_twice_atoms (s p₁ r₁ mid p₂ r₂ res : Atoms) (pre post : List PlacedMatch) (m₁ : PlacedMatch)
    (ms₂ : List PlacedMatch) (ra₁ ig₁ ra₂ ig₂ : Bool) (hne₁ : r₁.atoms ≠ []) (hne₂ : r₂.atoms ≠ [])
    (h₁ : replaceCore s p₁ r₁ (pre ++ m₁ :: post) ra₁ ig₁ = .ok mid)
    (h₂ : replaceCore mid p₂ r₂ ms₂ ra₂ ig₂ = .ok res)
    (hok : MatchesOK s p₁ (pre ++ m₁ :: post)) (hinj : PairsInj (unchangedPairs r₁ p₁))
    (a : Nat) (br : AtomRow) (ha : r₁.atoms[a]? = some br) :
    let del₁ := delOf (unchangedPairs r₁ p₁) ra₁ (pre ++ m₁ :: post)
    let del₂ := delOf (unchangedPairs r₂ p₂) ra₂ ms₂
    let x₁ := newIndex del₁ (imgAt r₁ (unchangedPairs r₁ p₁) ra₁
      (s.atoms.length + pre.length * nAdd r₁ (unchangedPairs r₁ p₁) ra₁) m₁ a)
    x₁ ∉ del₂ → (∀ m ∈ ms₂, x₁ ∉ (matchMap (unchangedPairs r₂ p₂) ra₂ m).map (·.2)) →
    ∃ row₁ row, mid.atoms[x₁]? = some row₁ ∧ res.atoms[newIndex del₂ x₁]? = some row
      ∧ row.ty = br.ty + s.typeElems.length ∧ pcg row = pcg row₁
      ∧ (∀ v, r₁.typeElems[br.ty]? = some v → res.typeElems[row.ty]? = some v)
      ∧ (s.typeLabels.length = s.typeElems.length → ∀ v, r₁.typeLabels[br.ty]? = some v →
          res.typeLabels[row.ty]? = some v)
      ∧ (s.typeMasses.length = s.typeElems.length → ∀ v, r₁.typeMasses[br.ty]? = some v →
          res.typeMasses[row.ty]? = some v)
      ∧ (s.pairCoeffs.length = s.typeElems.length → ∀ v, Resolves r₁.pairCoeffs br.ty = some v →
          Resolves res.pairCoeffs row.ty = some v) := by
  intro del₁ del₂ x₁ hdel hnot
  obtain ⟨_, row₁, hrow₁, hty₁, hE, hL, hM, hP, _⟩ :=
    replace_atom_payload s p₁ r₁ mid pre post m₁ ra₁ ig₁ hne₁ h₁ hok hinj a br ha
  obtain ⟨row, hrow, hty, hpc⟩ := replace_bystander_atom mid p₂ r₂ res ms₂ ra₂ ig₂ hne₂ h₂ x₁ row₁ hrow₁ hdel hnot
  obtain ⟨tE, tL, tM, tP, _⟩ := replace_tables_prefix mid p₂ r₂ res ms₂ ra₂ ig₂ hne₂ h₂ row.ty
  rw [hty] at tE tL tM tP
  refine ⟨row₁, row, hrow₁, hrow, by rw [hty, hty₁], hpc, ?_, ?_, ?_, ?_⟩
  · intro v hv; rw [hty]; exact tE v (by rw [hE]; exact hv)
  · intro hal v hv; rw [hty]; exact tL v (by rw [hL hal]; exact hv)
  · intro hal v hv; rw [hty]; exact tM v (by rw [hM hal]; exact hv)
  · intro hal v hv; rw [hty]; exact tP v (by rw [hP hal]; exact hv)

/-- **replace_twice_history.**  Two consecutive replacements, one statement: under the guards of the one-step
    theorems for the FIRST replacement (non-overlapping valid matches, injective pairing, well-formed pairwise distinct
    pattern terms, `Compat`), and for ANY second replacement —
    (1) every atom taken over from `r₁` that the second replacement neither removes nor re-types still carries `r₁`'s
        type payload;
    (2) every term of `r₁` that the second replacement neither removes nor overrides is still there and still resolves
        to `r₁`'s own coefficient text;
    (3) every original term of `s` that neither replacement removes or overrides is still there and still resolves to
        its original text. -/
theorem replace_twice_history (κ : Kind) (s p₁ r₁ mid p₂ r₂ res : Atoms) (pre post : List PlacedMatch)
    (m₁ : PlacedMatch) (ms₂ : List PlacedMatch) (ra₁ ig₁ ra₂ ig₂ : Bool) (hne₁ : r₁.atoms ≠ []) (hne₂ : r₂.atoms ≠ [])
    (h₁ : replaceCore s p₁ r₁ (pre ++ m₁ :: post) ra₁ ig₁ = .ok mid)
    (h₂ : replaceCore mid p₂ r₂ ms₂ ra₂ ig₂ = .ok res)
    (hok : MatchesOK s p₁ (pre ++ m₁ :: post)) (hinj : PairsInj (unchangedPairs r₁ p₁))
    (hterms : TermsOK (κ.get r₁) r₁.atoms.length) (hdist : DistinctUpToRev (κ.get r₁).terms)
    (hcompat : Compat s r₁ κ) (hold : OldResolvable mid r₂ κ) :
    let del₁ := delOf (unchangedPairs r₁ p₁) ra₁ (pre ++ m₁ :: post)
    let del₂ := delOf (unchangedPairs r₂ p₂) ra₂ ms₂
    let base := s.atoms.length + pre.length * nAdd r₁ (unchangedPairs r₁ p₁) ra₁
    -- (1) atoms of r₁
    (∀ (a : Nat) (br : AtomRow), r₁.atoms[a]? = some br →
      let x₁ := newIndex del₁ (imgAt r₁ (unchangedPairs r₁ p₁) ra₁ base m₁ a)
      x₁ ∉ del₂ → (∀ m ∈ ms₂, x₁ ∉ (matchMap (unchangedPairs r₂ p₂) ra₂ m).map (·.2)) →
      ∃ row, res.atoms[newIndex del₂ x₁]? = some row ∧ row.ty = br.ty + s.typeElems.length
        ∧ (∀ v, r₁.typeElems[br.ty]? = some v → res.typeElems[row.ty]? = some v)
        ∧ (s.typeLabels.length = s.typeElems.length → ∀ v, r₁.typeLabels[br.ty]? = some v →
            res.typeLabels[row.ty]? = some v)
        ∧ (s.typeMasses.length = s.typeElems.length → ∀ v, r₁.typeMasses[br.ty]? = some v →
            res.typeMasses[row.ty]? = some v)
        ∧ (s.pairCoeffs.length = s.typeElems.length → ∀ v, Resolves r₁.pairCoeffs br.ty = some v →
            Resolves res.pairCoeffs row.ty = some v))
    -- (2) terms of r₁
    ∧ (∀ u ∈ (κ.get r₁).terms,
      let fin₁ := (u.atoms.map (imgAt r₁ (unchangedPairs r₁ p₁) ra₁ base m₁)).map (newIndex del₁)
      survives del₂ fin₁ = true →
      notOverridden (patternSigs κ mid p₂ r₂ ra₂ ms₂) (fin₁, u.ty + numTermTypes (κ.get s)) = true →
      (∃ t ∈ (κ.get res).terms, t.atoms = fin₁.map (newIndex del₂) ∧ t.ty = u.ty + numTermTypes (κ.get s))
      ∧ Resolves (κ.get res).coeffs (u.ty + numTermTypes (κ.get s)) = Resolves (κ.get r₁).coeffs u.ty)
    -- (3) original terms of s
    ∧ (∀ t ∈ (κ.get s).terms,
      let a₁ := t.atoms.map (newIndex del₁)
      survives del₁ t.atoms = true →
      notOverridden (patternSigs κ s p₁ r₁ ra₁ (pre ++ m₁ :: post)) (sig t) = true →
      survives del₂ a₁ = true → notOverridden (patternSigs κ mid p₂ r₂ ra₂ ms₂) (a₁, t.ty) = true →
      (∃ t' ∈ (κ.get res).terms, t'.atoms = a₁.map (newIndex del₂) ∧ t'.ty = t.ty)
      ∧ (t.ty < (κ.get s).coeffs.length
          ∨ ((κ.get s).coeffs = [] ∧ (κ.get r₁).coeffs = [] ∧ (κ.get r₂).coeffs = []) →
         Resolves (κ.get res).coeffs t.ty = Resolves (κ.get s).coeffs t.ty)) := by
  intro del₁ del₂ base
  refine ⟨?_, ?_, ?_⟩
  · intro a br ha x₁ hdel hnot
    obtain ⟨_, row, _, hrow, hty, _, hE, hL, hM, hP⟩ :=
      replace_twice_atoms s p₁ r₁ mid p₂ r₂ res pre post m₁ ms₂ ra₁ ig₁ ra₂ ig₂ hne₁ hne₂ h₁ h₂ hok hinj a br ha
        hdel hnot
    exact ⟨row, hrow, hty, hE, hL, hM, hP⟩
  · intro u hu fin₁ hs hn
    exact replace_twice_pattern_terms κ s p₁ r₁ mid p₂ r₂ res pre post m₁ ms₂ ra₁ ig₁ ra₂ ig₂ hne₁ hne₂ h₁ h₂ hok hinj
      hterms hdist hcompat hold u hu hs hn
  · intro t ht a₁ hs₁ hn₁ hs₂ hn₂
    exact replace_twice_old_terms κ s p₁ r₁ mid p₂ r₂ res _ ms₂ ra₁ ig₁ ra₂ ig₂ hne₁ hne₂ h₁ h₂ t ht hs₁ hn₁ hs₂ hn₂

/-! ### non-vacuity: the example of Props/C06.lean followed by a second replacement (F → Cl on the inserted atom) -/

/-- the result of the first example replacement (`exS`, `exP`, `exR`, `exM`), evaluated -/
def exMid : Atoms :=
  match replaceCore exS exP exR [exM] false false with
  | .ok res => res
  | .error _ => Atoms.empty

/-- second step: search the C–F pair that the first replacement created, keep C, put Cl in place of F, with a C–Cl bond -/
def exP₂ : Atoms :=
  { Atoms.empty with
    atoms := [⟨0, ⟨0, 0, 0⟩, 0, 0, []⟩, ⟨1, ⟨0, 1, 0⟩, 0, 0, []⟩]
    typeElems := ["C", "F"], typeLabels := ["C", "F"], typeMasses := [12, 19] }

def exR₂ : Atoms :=
  { Atoms.empty with
    atoms := [⟨0, ⟨0, 0, 0⟩, -7, 0, []⟩, ⟨1, ⟨0, 1, 0⟩, -8, 5, []⟩]
    bonds := ⟨[⟨[0, 1], 0, []⟩], ["tB0"], []⟩
    typeElems := ["C", "Cl"], typeLabels := ["C_t", "Cl_t"], typeMasses := [12, 35]
    pairCoeffs := ["tC", "tCl"] }

/-- after the first step C is atom 0 and F atom 4 -/
def exM₂ : PlacedMatch := ⟨[0, 4], [⟨0, 0, 0⟩, ⟨0, 1, 0⟩], Quat.identity⟩

/-- the hypotheses of `replace_twice_history` hold for bonds (first step as in Props/C06.lean) … -/
theorem exMid_spec : replaceCore exS exP exR ([] ++ exM :: []) false false = .ok exMid := by
  have hok : (match replaceCore exS exP exR ([] ++ exM :: []) false false with
      | .ok _ => true | .error _ => false) = true := by decide +kernel
  unfold exMid
  show replaceCore exS exP exR ([] ++ exM :: []) false false = _
  cases hc : replaceCore exS exP exR ([] ++ exM :: []) false false with
  | ok res =>
    have hc' : replaceCore exS exP exR [exM] false false = .ok res := hc
    rw [hc']
  | error e => rw [hc] at hok; cases hok

example : exR.atoms ≠ [] ∧ exR₂.atoms ≠ []
    ∧ MatchesOK exS exP ([] ++ exM :: []) ∧ PairsInj (unchangedPairs exR exP)
    ∧ TermsOK exR.bonds exR.atoms.length ∧ DistinctUpToRev exR.bonds.terms ∧ Compat exS exR .bond
    ∧ OldResolvable exMid exR₂ .bond := by decide +kernel

/-- … the O atom retained from `r₁` (atom 1 of the pattern, final index 1) is left alone by the second step, the
    pattern bond O–C of the first step (final atoms [1, 0]) survives it un-overridden, and so does the original
    bystander bond [3, 4] ↦ [2, 3] ↦ [2, 3] … -/
example : delOf (unchangedPairs exR₂ exP₂) false [exM₂] = [4]
    ∧ (matchMap (unchangedPairs exR₂ exP₂) false exM₂).map (·.2) = [0]
    ∧ newIndex (delOf (unchangedPairs exR exP) false [exM]) (imgAt exR (unchangedPairs exR exP) false 5 exM 1) = 1
    ∧ survives [4] [1, 0] = true
    ∧ notOverridden (patternSigs .bond exMid exP₂ exR₂ false [exM₂]) ([1, 0], 2) = true
    ∧ survives (delOf (unchangedPairs exR exP) false [exM]) [3, 4] = true
    ∧ notOverridden (patternSigs .bond exS exP exR false [exM]) ([3, 4], 1) = true
    ∧ survives [4] [2, 3] = true
    ∧ notOverridden (patternSigs .bond exMid exP₂ exR₂ false [exM₂]) ([2, 3], 1) = true := by decide +kernel

/-- … and the final structure is what the theorem says: original bonds [2,3] (type 1 ↦ "sB1") and [0,2] (type 0 ↦
    "sB0"), the first pattern's O–C bond [1,0] (type 2 ↦ "rB0"); its F–C bond went with the F; the new C–Cl bond
    [0,4] has type 4 ↦ "tB0"; atom 1 still has the first pattern's type 5 ↦ "O_r". -/
example : (match replaceCore exMid exP₂ exR₂ [exM₂] false false with
      | .ok res => some (res.bonds.terms.map sig, res.bonds.coeffs, res.atoms.map (·.ty), res.typeLabels)
      | .error _ => none)
    = some ([([2, 3], 1), ([0, 2], 0), ([1, 0], 2), ([0, 4], 4)], ["sB0", "sB1", "rB0", "rB1", "tB0"],
            [7, 5, 3, 3, 8], ["C", "O", "H", "S", "C_r", "O_r", "F_r", "C_t", "Cl_t"]) := by decide +kernel

end Mofun.C06
