/-
  C17Code6.lean — the WHOLE of `detect_bonds` (mofun/detect_bonds.py), re-translated from the python source text on every
  run by harness/gen_code6.py into Generated/Code6.lean (`Code6.detectBonds`: the choice of the image offsets, the double
  loop over `enumerate(positions)` / `enumerate(positions[idx1+1:])` with `idx2 = i + idx1 + 1`, the cutoff
  `max_bond_length(elements[idx1], elements[idx2])`, the comparison `np.any(cdist(atom1 + uc_offsets, [atom2]) < cutoff)`
  in its sqrt-free form, `bonds.append([idx1, idx2])`), IS the model's `detectBonds` (Model/Bonds.lean) for ALL structures
  with one element per atom: the same pairs in the same order, each pair once, `none` exactly where the model raises.
-/
import MofunModel.Proofs.Code6Bonds
import MofunModel.Props.C17Code

namespace Mofun.C17Code6
open Mofun Mofun.Generated Mofun.Code6Bonds
set_option linter.unusedSimpArgs false
set_option linter.unusedTactic false
set_option linter.unreachableTactic false

private theorem step_eq (elements : List String) (offs : List Vec3) (idx1 : Nat) (atom1 : Vec3) (bonds : List (List Nat))
    (i : Nat) (atom2 : Vec3) (j : Nat) (hj : j = i + idx1 + 1) :
    (do
      let t1 ← elements[idx1]?
      let t2 ← elements[j]?
      let t3 ← Code.maxBondLength t1 t2
      if Py6.anyDistLt (Py6.cdistSqCol (Py6.vecAddRows atom1 offs) atom2) t3 = true then
        pure (bonds ++ [[idx1, j]])
      else pure bonds : Option (List (List Nat))) =
      innerStep Mofun.maxBondLength elements offs idx1 atom1 bonds i atom2 := by
  subst hj
  unfold innerStep
  rw [C17Code.maxBondLength_eq]
  cases elements[idx1]? with
  | none => rfl
  | some t1 =>
    cases elements[i + idx1 + 1]? with
    | none => rfl
    | some t2 =>
      cases hc : Mofun.maxBondLength t1 t2 with
      | none => simp [hc, bind, Option.bind]
      | some c =>
        simp only [bind, Option.bind, hc, anyDistLt_eq, pure]
        by_cases hw : withinCutoff offs atom1 atom2 c = true <;> simp [hw]

private theorem zero_offsets : [(⟨Dec.toRat ⟨0, 0⟩, Dec.toRat ⟨0, 0⟩, Dec.toRat ⟨0, 0⟩⟩ : Vec3)] = bondOffsets none := by
  decide +kernel

/-- the translated function on the columns of a list of (element, position) atoms -/
theorem detectBonds_atoms (atoms : List BAtom) (cell : Option Mat3) :
    Code6.detectBonds (atoms.map (·.1)) (atoms.map (·.2)) cell =
      match bondPairs (bondTest (bondOffsets cell)) 0 atoms with
      | .error _ => none
      | .ok l => some (l.map pairRow) := by
  unfold Code6.detectBonds
  cases cell with
  | some c =>
    simp only [bind_pure, ← C17Code.bondOffsets_some]
    refine Eq.trans (outer_eq atoms (bondOffsets (some c)) _ ?F ?hg ?hF atoms 0 [] [] rfl rfl) ?_
    case hg => intro bonds idx1 atom1; rfl
    case hF => intro idx1 atom1 bonds i atom2; exact step_eq _ _ idx1 atom1 bonds i atom2 _ (by first | rfl | omega | (simp only [] <;> omega))
    rfl
  | none =>
    simp only [bind_pure, zero_offsets]
    refine Eq.trans (outer_eq atoms (bondOffsets none) _ ?F2 ?hg2 ?hF2 atoms 0 [] [] rfl rfl) ?_
    case hg2 => intro bonds idx1 atom1; rfl
    case hF2 => intro idx1 atom1 bonds i atom2; exact step_eq _ _ idx1 atom1 bonds i atom2 _ (by first | rfl | omega | (simp only [] <;> omega))
    rfl

/-- **detectBonds_eq** — for ALL element lists, positions (one element per atom) and cells (or none): the translated
    `detect_bonds` returns the rows `[idx1, idx2]` of the model's `detectBonds`, in the same order; `none` (KeyError)
    exactly where the model raises -/
theorem detectBonds_eq (elems : List String) (pos : List Vec3) (cell : Option Mat3) (hlen : elems.length = pos.length) :
    Code6.detectBonds elems pos cell =
      match Mofun.detectBonds elems pos cell with
      | .error _ => none
      | .ok l => some (l.map pairRow) := by
  have h := detectBonds_atoms (elems.zip pos) cell
  rw [List.map_fst_zip (by omega), List.map_snd_zip (by omega)] at h
  rw [h]
  unfold Mofun.detectBonds
  simp [hlen]

/-! ### concrete runs: H–C–H on a line, 1 apart, plus a far Cu; cutoffs H–C 1.52, H–H 1.07, C–Cu 2.53 -/

example : Code6.detectBonds ["H", "C", "H", "Cu"] [⟨0, 0, 0⟩, ⟨1, 0, 0⟩, ⟨2, 0, 0⟩, ⟨9, 0, 0⟩] none =
    some [[0, 1], [1, 2]] := by decide +kernel
/-- with a cell of edge 10 the image of the Cu at x = −1 is 1 away from the H at x = 0 (cutoff 2.08) and 2 away from the C
    (cutoff 2.53): two more bonds, found through the periodic images, in loop order -/
example : Code6.detectBonds ["H", "C", "H", "Cu"] [⟨0, 0, 0⟩, ⟨1, 0, 0⟩, ⟨2, 0, 0⟩, ⟨9, 0, 0⟩]
    (some ⟨⟨10, 0, 0⟩, ⟨0, 10, 0⟩, ⟨0, 0, 10⟩⟩) = some [[0, 1], [0, 3], [1, 2], [1, 3]] := by decide +kernel
example : Code6.detectBonds ["H", "Xx"] [⟨0, 0, 0⟩, ⟨1, 0, 0⟩] none = none := by decide +kernel
example : Code6.detectBonds ["Xx"] [⟨0, 0, 0⟩] none = some [] := by decide +kernel

end Mofun.C17Code6
