/-
  C17Code.lean — the GENERATED translation of `max_bond_length` (mofun/detect_bonds.py, re-translated from the python
  source text on every run by harness/gen_code.py into Generated/Code.lean) IS the hand-written model function the
  C17 theorems are about.  A change of the python function that changes its meaning makes this file fail to build.

  The proof is a case analysis on the two radius lookups and the two non-metal memberships, so it survives rewrites
  that keep the meaning (renamed locals, `or` operands swapped, the branches exchanged under a negated test).
-/
import MofunModel.Proofs.CodeLemmas
import MofunModel.Model.Lattice
import Mathlib.Tactic.Ring

namespace Mofun.C17Code
open Mofun Mofun.Generated Mofun.CodeLemmas
set_option linter.unusedSimpArgs false

/-- for ALL pairs of strings (table keys or not): the translated `max_bond_length` = `Mofun.maxBondLength`,
    over the generated radii / non-metal tables; `none` = KeyError on both sides -/
theorem maxBondLength_eq : Generated.Code.maxBondLength = Mofun.maxBondLength := by
  funext el1 el2
  unfold Generated.Code.maxBondLength Mofun.maxBondLength maxBondLengthIn Py.tableGet
  cases h1 : lookup Generated.covalentRadii el1 <;> cases h2 : lookup Generated.covalentRadii el2 <;>
    cases c1 : List.contains Generated.nonMetals el1 <;> cases c2 : List.contains Generated.nonMetals el2 <;>
    simp [dec_45_2, Rat.add_comm, Rat.add_assoc, Rat.add_left_comm]

/-- the translated definition computes: C–H cutoff = 0.76 + 0.31 + 0.45 -/
example : Generated.Code.maxBondLength "C" "H" = some (38 / 25) := by decide +kernel
/-- and it raises where the code raises -/
example : Generated.Code.maxBondLength "C" "Xx" = none := by decide +kernel

/-! ### uc_neighbor_offsets (fourth batch) -/

/-- for ALL cells: the translated `uc_neighbor_offsets` — `np.meshgrid([-1,0,1],[-1,0,1],[-1,0,1])` with numpy's `xy`
    indexing, `.T.reshape(-1, 1, 3)`, then `np.matmul(uc_vectors.T, mult[0])` for each multiplier, all expanded over the
    3x3 cell — is the model's `ucOffsets` (Model/Lattice.lean): the 27 lattice vectors `i·A + j·B + k·C` in the order
    z slowest, then x, then y.  The image order of the bond detector (C17) and of the pattern search (C01–C03) is this one. -/
theorem ucNeighborOffsets_eq (c : Mat3) : Generated.Code.ucNeighborOffsets c = ucOffsets c := by
  unfold Generated.Code.ucNeighborOffsets ucOffsets ucMultipliers pm1
  simp only [List.flatMap_cons, List.flatMap_nil, List.map_cons, List.map_nil, List.append_nil, List.cons_append, List.nil_append,
    Mat3.lattice, Vec3.add, Vec3.smul]
  simp only [List.cons.injEq, Vec3.mk.injEq, and_true]
  refine ⟨?_, ?_, ?_, ?_, ?_, ?_, ?_, ?_, ?_, ?_, ?_, ?_, ?_, ?_, ?_, ?_, ?_, ?_, ?_, ?_, ?_, ?_, ?_, ?_, ?_, ?_, ?_⟩ <;>
    refine ⟨?_, ?_, ?_⟩ <;> push_cast <;> ring

/-- the offsets `detect_bonds` adds to atom 1 when there is a cell are the translated ones -/
theorem bondOffsets_some (c : Mat3) : bondOffsets (some c) = Generated.Code.ucNeighborOffsets c := by
  rw [ucNeighborOffsets_eq]; rfl

end Mofun.C17Code
