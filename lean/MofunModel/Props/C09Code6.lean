/-
  C09Code6.lean — the constructor call `Atoms.__getitem__` returns (mofun/atoms.py), re-translated from the python source
  text on every run by harness/gen_code6.py into Generated/Code6.lean (`Code6.getitem`, for a given integer index array
  `idx = np.array(i, ndmin=1)`), is the model's `Atoms.getitemI` (Model/TopoWide.lean): positions, atom types, charges and
  groups are TAKEN with `idx` (numpy's reading of negative indices, repeats allowed, IndexError outside `[−n, n)`), the
  three atom type tables and the cell are passed UNCHANGED, and NOTHING else is passed — no term array, no term type, no
  coefficient table, no extra field.
-/
import MofunModel.Proofs.Code6Topo

namespace Mofun.C09Code6
open Mofun Mofun.Generated Mofun.Code6Topo
set_option linter.unusedSimpArgs false

/-- the generated `__getitem__` run on the arrays of a model structure -/
def getitemOf (a : Atoms) (idx : List Int) :=
  Code6.getitem (a.atoms.map (·.pos)) (a.atoms.map (·.ty)) (a.atoms.map (·.charge)) (a.atoms.map (·.group))
    a.typeMasses a.typeElems a.typeLabels a.cell idx

/-- the keywords `__getitem__` passes to the constructor (sorted): no `bonds`, `angles`, …, no `*_types`, no `*_coeffs`,
    no `extra_*` -/
def passedKeywords : List String :=
  ["atom_type_elements", "atom_type_labels", "atom_type_masses", "atom_types", "cell", "charges", "groups", "positions"]

/-- what the constructor call of `__getitem__` is for a model result `r` -/
def ctorOf (r : Atoms) :=
  (passedKeywords, some (r.atoms.map (·.pos)), some (r.atoms.map (·.ty)), some (r.atoms.map (·.charge)),
   some (r.atoms.map (·.group)), some r.typeMasses, some r.typeElems, some r.typeLabels, some r.cell)

private theorem take_strip {β} (g : AtomRow → β) (hg : ∀ r : AtomRow, g { r with extra := [] } = g r)
    (a : Atoms) (idx : List Int) :
    (idx.filterMap (fun i => (normIdx a.atoms.length i).bind (fun j =>
        (a.atoms[j]?).map (fun r => { r with extra := [] })))).map g =
      (idx.filterMap (fun i => (normIdx a.atoms.length i).bind (fun j => a.atoms[j]?))).map g := by
  induction idx with
  | nil => rfl
  | cons i is ih =>
    simp only [List.filterMap_cons]
    cases hn : normIdx a.atoms.length i with
    | none => simpa using ih
    | some j =>
      cases hj : a.atoms[j]? with
      | none => simpa [hj] using ih
      | some r => simp [hj, hg, ih]

/-- **getitem_eq** — for ALL structures and ALL integer index arrays: the translated constructor call is the model's
    `getitemI` (`none` = IndexError exactly where the model rejects) -/
theorem getitem_eq (a : Atoms) (idx : List Int) :
    getitemOf a idx = match a.getitemI idx with
      | .error _ => none
      | .ok r => some (ctorOf r) := by
  by_cases hv : ∀ i ∈ idx, (normIdx a.atoms.length i).isSome
  · have hany : idx.any (fun i => (normIdx a.atoms.length i).isNone) = false := by
      rw [List.any_eq_false]
      intro i hi
      have := hv i hi
      cases hn : normIdx a.atoms.length i <;> simp_all
    unfold Atoms.getitemI
    simp only [hany, Bool.false_eq_true, if_false]
    unfold getitemOf Code6.getitem
    simp only [npTakeI?_map _ _ _ hv, bind, pure, Option.bind_some, Option.bind_eq_bind, ctorOf, passedKeywords, Atoms.empty]
    rw [take_strip (·.pos) (fun _ => rfl), take_strip (·.ty) (fun _ => rfl), take_strip (·.charge) (fun _ => rfl),
      take_strip (·.group) (fun _ => rfl)]
  · have hex : ∃ i ∈ idx, normIdx a.atoms.length i = none := by
      apply Classical.byContradiction
      intro hne
      apply hv
      intro i hi
      cases hn : normIdx a.atoms.length i with
      | none => exact absurd ⟨i, hi, hn⟩ hne
      | some j => rfl
    have hany : idx.any (fun i => (normIdx a.atoms.length i).isNone) = true := by
      rw [List.any_eq_true]
      obtain ⟨i, hi, hn⟩ := hex
      exact ⟨i, hi, by simp [hn]⟩
    unfold Atoms.getitemI
    simp only [hany, if_true]
    unfold getitemOf Code6.getitem
    simp only [npTakeI?_map_invalid _ _ _ hex, bind, Option.bind_none, Option.bind_eq_bind, Option.bind]

/-- everything `__getitem__` does NOT pass is the constructor's default in the model's result: no terms of any kind, no
    coefficient tables, no extra columns (and the passed tables are the originals) -/
theorem getitemI_rest (a r : Atoms) (idx : List Int) (h : a.getitemI idx = .ok r) :
    r.bonds = TermTable.empty ∧ r.angles = TermTable.empty ∧ r.dihedrals = TermTable.empty ∧
      r.impropers = TermTable.empty ∧ r.pairCoeffs = [] ∧ r.xlabels = [] ∧ (∀ row ∈ r.atoms, row.extra = []) ∧
      r.typeMasses = a.typeMasses ∧ r.typeElems = a.typeElems ∧ r.typeLabels = a.typeLabels ∧ r.cell = a.cell := by
  unfold Atoms.getitemI at h
  split at h
  · cases h
  · cases h
    refine ⟨rfl, rfl, rfl, rfl, rfl, rfl, ?_, rfl, rfl, rfl, rfl⟩
    intro row hrow
    simp only [Atoms.empty, List.mem_filterMap] at hrow
    obtain ⟨i, _, hi⟩ := hrow
    cases hn : normIdx a.atoms.length i with
    | none => simp [hn] at hi
    | some j =>
      cases hj : a.atoms[j]? with
      | none => simp [hn, hj] at hi
      | some r0 => simp [hn, hj] at hi; rw [← hi]

/-! ### concrete runs -/

private def ex : Atoms :=
  { Atoms.empty with
    atoms := [⟨0, ⟨0, 0, 0⟩, 0, 0, ["p"]⟩, ⟨1, ⟨1, 0, 0⟩, 1/2, 1, ["q"]⟩, ⟨0, ⟨2, 0, 0⟩, 0, 2, ["r"]⟩]
    bonds := ⟨[⟨[0, 1], 0, ["x"]⟩], ["k"], []⟩
    typeElems := ["C", "H"]
    typeLabels := ["C1", "H1"]
    typeMasses := [12, 1]
    cell := some ⟨⟨5, 0, 0⟩, ⟨0, 5, 0⟩, ⟨0, 0, 5⟩⟩ }

/-- `a[[-1, 0, 0]]`: atom 2, then atom 0 twice; tables and cell unchanged -/
example : getitemOf ex [-1, 0, 0] =
    some (passedKeywords, some [⟨2, 0, 0⟩, ⟨0, 0, 0⟩, ⟨0, 0, 0⟩], some [0, 0, 0], some [0, 0, 0], some [2, 0, 0],
          some [12, 1], some ["C", "H"], some ["C1", "H1"], some (some ⟨⟨5, 0, 0⟩, ⟨0, 5, 0⟩, ⟨0, 0, 5⟩⟩)) := by rfl
example : getitemOf ex [1] = (ex.getitemI [1]).toOption.map ctorOf := by rfl
/-- the empty selection: no atoms, the tables and the cell kept -/
example : getitemOf ex [] =
    some (passedKeywords, some [], some [], some [], some [],
          some [12, 1], some ["C", "H"], some ["C1", "H1"], some (some ⟨⟨5, 0, 0⟩, ⟨0, 5, 0⟩, ⟨0, 0, 5⟩⟩)) := by rfl
example : getitemOf ex [3] = none := by rfl

end Mofun.C09Code6
