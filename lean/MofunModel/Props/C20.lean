/-
  C20 — the command line does exactly: load, (overrides), replicate, minimum-image replicate, pair parameters,
  find / replace, save.   Property theorems only (helper lemmas: Proofs/CliLemmas.lean; model: Model/Cli.lean,
  `plan` = the call sequence of `mofun/cli/mofun_cli.py : mofun_cli`).

  All theorems are stated for EVERY option record `o` and every cell `c` for which the run is not rejected
  (`plan o c = .ok cs`; `plan_ok_iff` says exactly when that is).
-/
import MofunModel.Proofs.CliLemmas

namespace Mofun.Cli

/-- every `p`-call of `cs` stands before every `q`-call of `cs` -/
def Before (cs : List Call) (p q : Call → Bool) : Prop :=
  ∀ (i j : Nat) (x y : Call), cs[i]? = some x → cs[j]? = some y → p x = true → q y = true → i < j

/-- the calls of the find / replace block -/
def Call.isSearchBlock : Call → Bool
  | .loadPattern _ | .find _ _ | .replace _ _ _ | .warnReplaceWithoutFind => true
  | _ => false

def Call.isLoadPattern : Call → Bool
  | .loadPattern _ => true
  | _ => false

def Call.isOverride : Call → Bool
  | .setCellFrom _ | .setPositionsFromDump _ | .setCharges _ => true
  | _ => false

/-- the first call: by suffix class, `Atoms.load` or the ASE reader, on the input path -/
def firstCall (o : Options) : Call := if o.inputNative then .load o.input else .loadAse o.input
/-- the last call: by suffix class, `Atoms.save` or the ASE writer, on the output path -/
def lastCall (o : Options) : Call := if o.outputNative then .save o.output else .saveAse o.output

/-- **When is a run rejected?**  Exactly when a step that needs a unit cell is requested on a structure without
    one, or the minimum-image step would divide by a non-positive cell length. -/
theorem plan_ok_iff (o : Options) (c : Option CellInfo) :
    (∃ cs, plan o c = .ok cs) ↔
      (c = none → o.replicate = none ∧ o.mic = none ∧ o.findPath = none) ∧
      (∀ ci m, c = some ci → o.mic = some m → ci.ortho = true →
        0 < (scaleDiag ci.diag o.replicate).1 ∧ 0 < (scaleDiag ci.diag o.replicate).2.1
          ∧ 0 < (scaleDiag ci.diag o.replicate).2.2) := by
  unfold plan planError
  cases c with
  | none =>
    cases hr : o.replicate <;> cases hm : o.mic <;> cases hf : o.findPath <;> simp
  | some ci =>
    cases hm : o.mic with
    | none => simp
    | some m =>
      by_cases ho : ci.ortho = true
      · by_cases hd : 0 < (scaleDiag ci.diag o.replicate).1 ∧ 0 < (scaleDiag ci.diag o.replicate).2.1
            ∧ 0 < (scaleDiag ci.diag o.replicate).2.2
        · simp [ho, hd]
        · simp only [ho, hd, not_false_eq_true, and_self, if_true]
          constructor
          · rintro ⟨cs, h⟩; cases h
          · intro h; exact absurd (h.2 ci m rfl rfl ho) hd
      · simp [ho]

/-! ## order and decision logic -/

/-- **cli_first_is_load / cli_last_is_save.**  The plan starts with the load of the input path and ends with the
    save of the output path; there is no other load of a structure and no other save. -/
theorem cli_first_last (o : Options) (c : Option CellInfo) (cs : List Call) (h : plan o c = .ok cs) :
    (∃ rest, cs = firstCall o :: rest) ∧ (∃ init, cs = init ++ [lastCall o])
    ∧ cs.filter Call.isLoad = [firstCall o] ∧ cs.filter Call.isSave = [lastCall o] := by
  obtain ⟨_, rfl⟩ := plan_ok h
  refine ⟨?_, ?_, ?_, ?_⟩
  · refine ⟨seg o c 1 ++ (seg o c 2 ++ (seg o c 3 ++ (seg o c 4 ++ (seg o c 5 ++ (seg o c 6 ++
      (seg o c 7 ++ (seg o c 8 ++ seg o c 9))))))), ?_⟩
    simp only [planCalls, seg, loadSeg, firstCall]
    split <;> rfl
  · refine ⟨seg o c 0 ++ (seg o c 1 ++ (seg o c 2 ++ (seg o c 3 ++ (seg o c 4 ++ (seg o c 5 ++ (seg o c 6 ++
      (seg o c 7 ++ seg o c 8))))))), ?_⟩
    have : seg o c 9 = [lastCall o] := by
      simp only [seg, saveSeg, lastCall]; split <;> rfl
    simp only [planCalls, this, List.append_assoc]
  · rw [filter_planCalls (k := 0) (by intro x hx; cases x <;> simp_all [Call.isLoad, stage])]
    simp only [seg, loadSeg, firstCall]; split <;> rfl
  · rw [filter_planCalls (k := 9) (by intro x hx; cases x <;> simp_all [Call.isSave, stage])]
    simp only [seg, saveSeg, lastCall]; split <;> rfl

private theorem before_of_stage {o : Options} {c : Option CellInfo} {p q : Call → Bool} (a b : Nat)
    (hp : ∀ x, p x = true → stage x = a) (hq : ∀ y, q y = true → stage y = b) (hab : a < b) :
    Before (planCalls o c) p q := by
  unfold Before
  intro i j x y hi hj hpx hqy
  exact index_lt_of_stage_lt (planCalls_sorted o c) hi hj (by rw [hp x hpx, hq y hqy]; exact hab)

/-- **cli_order.**  Overrides (cell, positions, charges) precede `--replicate`, which precedes the minimum-image
    replication, which precedes the pair-parameter assignment, which precedes the find / replace block (its pattern
    loads included), which precedes the framework-element step and the save. -/
theorem cli_order (o : Options) (c : Option CellInfo) (cs : List Call) (h : plan o c = .ok cs) :
    Before cs Call.isLoad Call.isOverride
    ∧ Before cs Call.isOverride Call.isReplicate
    ∧ Before cs Call.isOverride Call.isMic
    ∧ Before cs Call.isReplicate Call.isMic
    ∧ Before cs Call.isReplicate Call.isAssignPair
    ∧ Before cs Call.isMic Call.isAssignPair
    ∧ Before cs Call.isReplicate Call.isSearchBlock
    ∧ Before cs Call.isMic Call.isSearchBlock
    ∧ Before cs Call.isAssignPair Call.isSearchBlock
    ∧ Before cs Call.isSearchBlock Call.isSave := by
  obtain ⟨_, rfl⟩ := plan_ok h
  have hload : ∀ x, Call.isLoad x = true → stage x = 0 := by intro x hx; cases x <;> simp_all [Call.isLoad, stage]
  have hrep : ∀ x, Call.isReplicate x = true → stage x = 4 := by
    intro x hx; cases x <;> simp_all [Call.isReplicate, stage]
  have hmic : ∀ x, Call.isMic x = true → stage x = 5 := by intro x hx; cases x <;> simp_all [Call.isMic, stage]
  have hpp : ∀ x, Call.isAssignPair x = true → stage x = 6 := by
    intro x hx; cases x <;> simp_all [Call.isAssignPair, stage]
  have hsb : ∀ x, Call.isSearchBlock x = true → stage x = 7 := by
    intro x hx; cases x <;> simp_all [Call.isSearchBlock, stage]
  have hsave : ∀ x, Call.isSave x = true → stage x = 9 := by intro x hx; cases x <;> simp_all [Call.isSave, stage]
  have hov : ∀ x, Call.isOverride x = true → 1 ≤ stage x ∧ stage x ≤ 3 := by
    intro x hx; cases x <;> simp_all [Call.isOverride, stage]
  refine ⟨?_, ?_, ?_, before_of_stage 4 5 hrep hmic (by decide), before_of_stage 4 6 hrep hpp (by decide),
    before_of_stage 5 6 hmic hpp (by decide), before_of_stage 4 7 hrep hsb (by decide),
    before_of_stage 5 7 hmic hsb (by decide), before_of_stage 6 7 hpp hsb (by decide),
    before_of_stage 7 9 hsb hsave (by decide)⟩
  · unfold Before
    intro i j x y hi hj hx hy
    exact index_lt_of_stage_lt (planCalls_sorted o c) hi hj (by have := hov y hy; rw [hload x hx]; omega)
  · unfold Before
    intro i j x y hi hj hx hy
    exact index_lt_of_stage_lt (planCalls_sorted o c) hi hj (by have := hov x hx; rw [hrep y hy]; omega)
  · unfold Before
    intro i j x y hi hj hx hy
    exact index_lt_of_stage_lt (planCalls_sorted o c) hi hj (by have := hov x hx; rw [hmic y hy]; omega)

/-- the search block as a function of the two pattern options -/
theorem search_block (o : Options) (c : Option CellInfo) (cs : List Call) (h : plan o c = .ok cs) :
    cs.filter Call.isSearchBlock = findSeg o := by
  obtain ⟨_, rfl⟩ := plan_ok h
  rw [filter_planCalls (k := 7) (by intro x hx; cases x <;> simp_all [Call.isSearchBlock, stage])]
  simp only [seg]
  apply List.filter_eq_self.mpr
  intro a ha
  unfold findSeg at ha
  split at ha <;> simp at ha
  · subst ha; rfl
  · rcases ha with ha | ha | ha <;> subst ha <;> rfl
  · rcases ha with ha | ha <;> subst ha <;> rfl

/-- **cli_find_replace_iff.**  A search (find or replace) happens iff a find path is given; a replace iff both paths
    are given, and then it is the only one and carries exactly the option's tolerance, the three hints and the
    fraction; with a find path alone the only search is a `find` carrying the tolerance and the three hints. -/
theorem cli_find_replace (o : Options) (c : Option CellInfo) (cs : List Call) (h : plan o c = .ok cs) :
    ((∃ x ∈ cs, x.isFind = true ∨ x.isReplace = true) ↔ o.findPath.isSome = true)
    ∧ cs.filter Call.isReplace =
        (if o.findPath.isSome ∧ o.replacePath.isSome then [.replace o.atol o.hints o.replaceFraction] else [])
    ∧ cs.filter Call.isFind =
        (if o.findPath.isSome ∧ o.replacePath = none then [.find o.atol o.hints] else []) := by
  obtain ⟨_, rfl⟩ := plan_ok h
  refine ⟨?_, ?_, ?_⟩
  · constructor
    · rintro ⟨x, hx, hfx⟩
      have hs : stage x = 7 := by cases x <;> simp_all [Call.isFind, Call.isReplace, stage]
      have hm := mem_planCalls.mp hx
      rw [hs] at hm
      simp only [seg, findSeg] at hm
      cases hf : o.findPath with
      | some f => rfl
      | none =>
        rw [hf] at hm
        cases hr : o.replacePath <;> rw [hr] at hm <;> simp at hm
        subst hm; simp [Call.isFind, Call.isReplace] at hfx
    · intro hf
      cases hfp : o.findPath with
      | none => rw [hfp] at hf; cases hf
      | some f =>
        cases hr : o.replacePath with
        | none =>
          refine ⟨.find o.atol o.hints, mem_planCalls.mpr ?_, Or.inl rfl⟩
          simp [stage, seg, findSeg, hfp, hr]
        | some r =>
          refine ⟨.replace o.atol o.hints o.replaceFraction, mem_planCalls.mpr ?_, Or.inr rfl⟩
          simp [stage, seg, findSeg, hfp, hr]
  · rw [filter_planCalls (k := 7) (by intro x hx; cases x <;> simp_all [Call.isReplace, stage])]
    simp only [seg, findSeg]
    cases o.findPath <;> cases o.replacePath <;> simp [Call.isReplace]
  · rw [filter_planCalls (k := 7) (by intro x hx; cases x <;> simp_all [Call.isFind, stage])]
    simp only [seg, findSeg]
    cases o.findPath <;> cases o.replacePath <;> simp [Call.isFind]

/-- **cli_find_only_unmodified.**  With a find path and no replace path the plan is
    `pre ++ [find atol hints] ++ (framework-element step, if requested) ++ [save]`, where `pre` contains no search:
    nothing touches the structure between the search and the file being written, except the requested
    framework-element step. -/
theorem cli_find_only (o : Options) (c : Option CellInfo) (cs : List Call) (h : plan o c = .ok cs)
    (hf : o.findPath.isSome = true) (hr : o.replacePath = none) :
    ∃ pre, cs = pre ++ Call.find o.atol o.hints :: (fwSeg o ++ [lastCall o])
      ∧ (∀ x ∈ pre, x.isFind = false ∧ x.isReplace = false)
      ∧ (∀ y ∈ fwSeg o ++ [lastCall o], y.changesStructure = true →
            o.frameworkElement.isSome = true ∧ y = .setFrameworkElement (o.frameworkElement.getD "")) := by
  obtain ⟨_, rfl⟩ := plan_ok h
  obtain ⟨f, hfp⟩ := Option.isSome_iff_exists.mp hf
  have hseg : seg o c 7 = [.loadPattern f, .find o.atol o.hints] := by simp [seg, findSeg, hfp, hr]
  have hlast : seg o c 9 = [lastCall o] := by simp only [seg, saveSeg, lastCall]; split <;> rfl
  refine ⟨seg o c 0 ++ (seg o c 1 ++ (seg o c 2 ++ (seg o c 3 ++ (seg o c 4 ++ (seg o c 5 ++ (seg o c 6 ++
      [.loadPattern f])))))), ?_, ?_, ?_⟩
  · simp only [planCalls, hseg, hlast, List.append_assoc, List.cons_append, List.nil_append]
    rfl
  · intro x hx
    have hs : stage x ≤ 6 ∨ x = .loadPattern f := by
      simp only [List.mem_append, List.mem_singleton] at hx
      rcases hx with hx | hx | hx | hx | hx | hx | hx | hx
      all_goals first | (right; exact hx) | (left; rw [seg_stage hx]; decide)
    rcases hs with hs | hs
    · cases x <;> simp_all [Call.isFind, Call.isReplace, stage]
    · subst hs; exact ⟨rfl, rfl⟩
  · intro y hy hcs
    simp only [List.mem_append, List.mem_singleton] at hy
    rcases hy with hy | hy
    · unfold fwSeg at hy
      cases hfe : o.frameworkElement with
      | none => rw [hfe] at hy; simp at hy
      | some e => rw [hfe] at hy; simp at hy; subst hy; simp
    · subst hy; unfold lastCall at hcs; split at hcs <;> simp [Call.changesStructure] at hcs

end Mofun.Cli
