/-
  C20 — the command line does exactly: load, (overrides), replicate, minimum-image replicate, pair parameters,
  find / replace, save.   Property theorems only (helper lemmas: Proofs/CliLemmas.lean; model: Model/Cli.lean,
  `plan` = the call sequence of `mofun/cli/mofun_cli.py : mofun_cli`).

  All theorems are stated for EVERY option record `o` and every cell `c` for which the run is not rejected
  (`plan o c = .ok cs`; `plan_ok_iff` says exactly when that is).
-/
import MofunModel.Proofs.CliLemmas

namespace Mofun.Cli

/-- every `p`-call of `cs` stands before every `q`-call of `cs` -/
def Before (cs : List Call) (p q : Call → Bool) : Prop :=
  ∀ (i j : Nat) (x y : Call), cs[i]? = some x → cs[j]? = some y → p x = true → q y = true → i < j

/-- the calls of the find / replace block -/
def Call.isSearchBlock : Call → Bool
  | .loadPattern _ | .find _ _ | .replace _ _ _ | .warnReplaceWithoutFind => true
  | _ => false

def Call.isLoadPattern : Call → Bool
  | .loadPattern _ => true
  | _ => false

def Call.isOverride : Call → Bool
  | .setCellFrom _ | .setPositionsFromDump _ | .setCharges _ => true
  | _ => false

/-! ### the block each kind of call belongs to -/
theorem stage_isLoad {x : Call} (h : x.isLoad = true) : stage x = 0 := by cases x <;> simp [Call.isLoad] at h <;> rfl
theorem stage_isSetCharges {x : Call} (h : x.isSetCharges = true) : stage x = 3 := by
  cases x <;> simp [Call.isSetCharges] at h <;> rfl
theorem stage_isReplicate {x : Call} (h : x.isReplicate = true) : stage x = 4 := by
  cases x <;> simp [Call.isReplicate] at h <;> rfl
theorem stage_isMic {x : Call} (h : x.isMic = true) : stage x = 5 := by cases x <;> simp [Call.isMic] at h <;> rfl
theorem stage_isAssignPair {x : Call} (h : x.isAssignPair = true) : stage x = 6 := by
  cases x <;> simp [Call.isAssignPair] at h <;> rfl
theorem stage_isSearchBlock {x : Call} (h : x.isSearchBlock = true) : stage x = 7 := by
  cases x <;> simp [Call.isSearchBlock] at h <;> rfl
theorem stage_isLoadPattern {x : Call} (h : x.isLoadPattern = true) : stage x = 7 := by
  cases x <;> simp [Call.isLoadPattern] at h <;> rfl
theorem stage_isFind {x : Call} (h : x.isFind = true) : stage x = 7 := by cases x <;> simp [Call.isFind] at h <;> rfl
theorem stage_isReplace {x : Call} (h : x.isReplace = true) : stage x = 7 := by
  cases x <;> simp [Call.isReplace] at h <;> rfl
theorem stage_isSave {x : Call} (h : x.isSave = true) : stage x = 9 := by cases x <;> simp [Call.isSave] at h <;> rfl
theorem stage_isOverride {x : Call} (h : x.isOverride = true) : 1 ≤ stage x ∧ stage x ≤ 3 := by
  cases x <;> simp [Call.isOverride] at h <;> simp [stage]

/-- the first call: by suffix class, `Atoms.load` or the ASE reader, on the input path -/
def firstCall (o : Options) : Call := if o.inputNative then .load o.input else .loadAse o.input
/-- the last call: by suffix class, `Atoms.save` or the ASE writer, on the output path -/
def lastCall (o : Options) : Call := if o.outputNative then .save o.output else .saveAse o.output

/-- **When is a run rejected?**  Exactly when a step that needs a unit cell is requested on a structure without
    one, or the minimum-image step would divide by a non-positive cell length. -/
theorem plan_ok_iff (o : Options) (c : Option CellInfo) :
    (∃ cs, plan o c = .ok cs) ↔
      (c = none → o.replicate = none ∧ o.mic = none ∧ o.findPath = none) ∧
      (∀ ci m, c = some ci → o.mic = some m → ci.ortho = true →
        0 < (scaleDiag ci.diag o.replicate).1 ∧ 0 < (scaleDiag ci.diag o.replicate).2.1
          ∧ 0 < (scaleDiag ci.diag o.replicate).2.2) := by
  unfold plan planError
  cases c with
  | none =>
    cases hr : o.replicate <;> cases hm : o.mic <;> cases hf : o.findPath <;> simp
  | some ci =>
    cases hm : o.mic with
    | none => simp
    | some m =>
      by_cases ho : ci.ortho = true
      · by_cases hd : 0 < (scaleDiag ci.diag o.replicate).1 ∧ 0 < (scaleDiag ci.diag o.replicate).2.1
            ∧ 0 < (scaleDiag ci.diag o.replicate).2.2
        · simp [ho, hd]
        · simp only [ho, hd, not_false_eq_true, and_self, if_true]
          constructor
          · rintro ⟨cs, h⟩; cases h
          · intro h; exact absurd (h.2 ci m rfl rfl ho) hd
      · simp [ho]

/-! ## order and decision logic -/

/-- **cli_first_is_load / cli_last_is_save.**  The plan starts with the load of the input path and ends with the
    save of the output path; there is no other load of a structure and no other save. -/
theorem cli_first_last (o : Options) (c : Option CellInfo) (cs : List Call) (h : plan o c = .ok cs) :
    (∃ rest, cs = firstCall o :: rest) ∧ (∃ init, cs = init ++ [lastCall o])
    ∧ cs.filter Call.isLoad = [firstCall o] ∧ cs.filter Call.isSave = [lastCall o] := by
  obtain ⟨_, rfl⟩ := plan_ok h
  refine ⟨?_, ?_, ?_, ?_⟩
  · refine ⟨seg o c 1 ++ (seg o c 2 ++ (seg o c 3 ++ (seg o c 4 ++ (seg o c 5 ++ (seg o c 6 ++
      (seg o c 7 ++ (seg o c 8 ++ seg o c 9))))))), ?_⟩
    simp only [planCalls, seg, loadSeg, firstCall]
    split <;> rfl
  · refine ⟨seg o c 0 ++ (seg o c 1 ++ (seg o c 2 ++ (seg o c 3 ++ (seg o c 4 ++ (seg o c 5 ++ (seg o c 6 ++
      (seg o c 7 ++ seg o c 8))))))), ?_⟩
    have : seg o c 9 = [lastCall o] := by
      simp only [seg, saveSeg, lastCall]; split <;> rfl
    simp only [planCalls, this, List.append_assoc]
  · rw [filter_planCalls (k := 0) (fun _ => stage_isLoad)]
    simp only [seg, loadSeg, firstCall]; split <;> rfl
  · rw [filter_planCalls (k := 9) (fun _ => stage_isSave)]
    simp only [seg, saveSeg, lastCall]; split <;> rfl

private theorem before_of_stage {o : Options} {c : Option CellInfo} {p q : Call → Bool} (a b : Nat)
    (hp : ∀ x, p x = true → stage x = a) (hq : ∀ y, q y = true → stage y = b) (hab : a < b) :
    Before (planCalls o c) p q := by
  unfold Before
  intro i j x y hi hj hpx hqy
  exact index_lt_of_stage_lt (planCalls_sorted o c) hi hj (by rw [hp x hpx, hq y hqy]; exact hab)

/-- **cli_order.**  Overrides (cell, positions, charges) precede `--replicate`, which precedes the minimum-image
    replication, which precedes the pair-parameter assignment, which precedes the find / replace block (its pattern
    loads included), which precedes the framework-element step and the save. -/
theorem cli_order (o : Options) (c : Option CellInfo) (cs : List Call) (h : plan o c = .ok cs) :
    Before cs Call.isLoad Call.isOverride
    ∧ Before cs Call.isOverride Call.isReplicate
    ∧ Before cs Call.isOverride Call.isMic
    ∧ Before cs Call.isReplicate Call.isMic
    ∧ Before cs Call.isReplicate Call.isAssignPair
    ∧ Before cs Call.isMic Call.isAssignPair
    ∧ Before cs Call.isReplicate Call.isSearchBlock
    ∧ Before cs Call.isMic Call.isSearchBlock
    ∧ Before cs Call.isAssignPair Call.isSearchBlock
    ∧ Before cs Call.isSearchBlock Call.isSave := by
  obtain ⟨_, rfl⟩ := plan_ok h
  have hload : ∀ x, Call.isLoad x = true → stage x = 0 := fun _ => stage_isLoad
  have hrep : ∀ x, Call.isReplicate x = true → stage x = 4 := fun _ => stage_isReplicate
  have hmic : ∀ x, Call.isMic x = true → stage x = 5 := fun _ => stage_isMic
  have hpp : ∀ x, Call.isAssignPair x = true → stage x = 6 := fun _ => stage_isAssignPair
  have hsb : ∀ x, Call.isSearchBlock x = true → stage x = 7 := fun _ => stage_isSearchBlock
  have hsave : ∀ x, Call.isSave x = true → stage x = 9 := fun _ => stage_isSave
  have hov : ∀ x, Call.isOverride x = true → 1 ≤ stage x ∧ stage x ≤ 3 := fun _ => stage_isOverride
  refine ⟨?_, ?_, ?_, before_of_stage 4 5 hrep hmic (by decide), before_of_stage 4 6 hrep hpp (by decide),
    before_of_stage 5 6 hmic hpp (by decide), before_of_stage 4 7 hrep hsb (by decide),
    before_of_stage 5 7 hmic hsb (by decide), before_of_stage 6 7 hpp hsb (by decide),
    before_of_stage 7 9 hsb hsave (by decide)⟩
  · unfold Before
    intro i j x y hi hj hx hy
    exact index_lt_of_stage_lt (planCalls_sorted o c) hi hj (by have := hov y hy; rw [hload x hx]; omega)
  · unfold Before
    intro i j x y hi hj hx hy
    exact index_lt_of_stage_lt (planCalls_sorted o c) hi hj (by have := hov x hx; rw [hrep y hy]; omega)
  · unfold Before
    intro i j x y hi hj hx hy
    exact index_lt_of_stage_lt (planCalls_sorted o c) hi hj (by have := hov x hx; rw [hmic y hy]; omega)

/-- the search block as a function of the two pattern options -/
theorem search_block (o : Options) (c : Option CellInfo) (cs : List Call) (h : plan o c = .ok cs) :
    cs.filter Call.isSearchBlock = findSeg o := by
  obtain ⟨_, rfl⟩ := plan_ok h
  rw [filter_planCalls (k := 7) (fun _ => stage_isSearchBlock)]
  simp only [seg]
  apply List.filter_eq_self.mpr
  intro a ha
  unfold findSeg at ha
  split at ha <;> simp at ha
  · subst ha; rfl
  · rcases ha with ha | ha | ha <;> subst ha <;> rfl
  · rcases ha with ha | ha <;> subst ha <;> rfl

/-- **cli_find_replace_iff.**  A search (find or replace) happens iff a find path is given; a replace iff both paths
    are given, and then it is the only one and carries exactly the option's tolerance, the three hints and the
    fraction; with a find path alone the only search is a `find` carrying the tolerance and the three hints. -/
theorem cli_find_replace (o : Options) (c : Option CellInfo) (cs : List Call) (h : plan o c = .ok cs) :
    ((∃ x ∈ cs, x.isFind = true ∨ x.isReplace = true) ↔ o.findPath.isSome = true)
    ∧ cs.filter Call.isReplace =
        (if o.findPath.isSome ∧ o.replacePath.isSome then [.replace o.atol o.hints o.replaceFraction] else [])
    ∧ cs.filter Call.isFind =
        (if o.findPath.isSome ∧ o.replacePath = none then [.find o.atol o.hints] else []) := by
  obtain ⟨_, rfl⟩ := plan_ok h
  refine ⟨?_, ?_, ?_⟩
  · constructor
    · rintro ⟨x, hx, hfx⟩
      have hs : stage x = 7 := hfx.elim stage_isFind stage_isReplace
      have hm := mem_planCalls.mp hx
      rw [hs] at hm
      simp only [seg, findSeg] at hm
      cases hf : o.findPath with
      | some f => rfl
      | none =>
        rw [hf] at hm
        cases hr : o.replacePath <;> rw [hr] at hm <;> simp at hm
        subst hm; simp [Call.isFind, Call.isReplace] at hfx
    · intro hf
      cases hfp : o.findPath with
      | none => rw [hfp] at hf; cases hf
      | some f =>
        cases hr : o.replacePath with
        | none =>
          refine ⟨.find o.atol o.hints, mem_planCalls.mpr ?_, Or.inl rfl⟩
          simp [stage, seg, findSeg, hfp, hr]
        | some r =>
          refine ⟨.replace o.atol o.hints o.replaceFraction, mem_planCalls.mpr ?_, Or.inr rfl⟩
          simp [stage, seg, findSeg, hfp, hr]
  · rw [filter_planCalls (k := 7) (fun _ => stage_isReplace)]
    simp only [seg, findSeg]
    cases o.findPath <;> cases o.replacePath <;> simp [Call.isReplace]
  · rw [filter_planCalls (k := 7) (fun _ => stage_isFind)]
    simp only [seg, findSeg]
    cases o.findPath <;> cases o.replacePath <;> simp [Call.isFind]

/-- **cli_find_only_unmodified.**  With a find path and no replace path the plan is
    `pre ++ [find atol hints] ++ (framework-element step, if requested) ++ [save]`, where `pre` contains no search:
    nothing touches the structure between the search and the file being written, except the requested
    framework-element step. -/
theorem cli_find_only (o : Options) (c : Option CellInfo) (cs : List Call) (h : plan o c = .ok cs)
    (hf : o.findPath.isSome = true) (hr : o.replacePath = none) :
    ∃ pre, cs = pre ++ Call.find o.atol o.hints :: (fwSeg o ++ [lastCall o])
      ∧ (∀ x ∈ pre, x.isFind = false ∧ x.isReplace = false)
      ∧ (∀ y ∈ fwSeg o ++ [lastCall o], y.changesStructure = true →
            o.frameworkElement.isSome = true ∧ y = .setFrameworkElement (o.frameworkElement.getD "")) := by
  obtain ⟨_, rfl⟩ := plan_ok h
  obtain ⟨f, hfp⟩ := Option.isSome_iff_exists.mp hf
  have hseg : seg o c 7 = [.loadPattern f, .find o.atol o.hints] := by simp [seg, findSeg, hfp, hr]
  have hlast : seg o c 9 = [lastCall o] := by simp only [seg, saveSeg, lastCall]; split <;> rfl
  refine ⟨seg o c 0 ++ (seg o c 1 ++ (seg o c 2 ++ (seg o c 3 ++ (seg o c 4 ++ (seg o c 5 ++ (seg o c 6 ++
      [.loadPattern f])))))), ?_, ?_, ?_⟩
  · simp only [planCalls, hseg, hlast, List.append_assoc, List.cons_append, List.nil_append]
    rfl
  · intro x hx
    have hs : stage x ≤ 6 ∨ x = .loadPattern f := by
      simp only [List.mem_append, List.mem_singleton] at hx
      rcases hx with hx | hx | hx | hx | hx | hx | hx | hx
      all_goals first | (right; exact hx) | (left; rw [seg_stage hx]; decide)
    clear hx
    rcases hs with hs | hs
    · constructor
      · cases hfx : x.isFind with
        | false => rfl
        | true => have := stage_isFind hfx; omega
      · cases hfx : x.isReplace with
        | false => rfl
        | true => have := stage_isReplace hfx; omega
    · subst hs; exact ⟨rfl, rfl⟩
  · intro y hy hcs
    simp only [List.mem_append, List.mem_singleton] at hy
    rcases hy with hy | hy
    · unfold fwSeg at hy
      cases hfe : o.frameworkElement with
      | none => rw [hfe] at hy; simp at hy
      | some e => rw [hfe] at hy; simp at hy; subst hy; simp
    · subst hy; unfold lastCall at hcs; split at hcs <;> simp [Call.changesStructure] at hcs

/-! ## every documented option reaches the call it names

  Uniform shape: the sub-list of calls of the kind in question is exactly the one call carrying the option's value
  (so the value arrives, arrives once, and no other call of that kind is made), or empty when the option is absent. -/

/-- `--atol` is the `atol=` argument of the search that is performed (find or replace), whenever there is one -/
theorem opt_atol_reaches (o : Options) (c : Option CellInfo) (cs : List Call) (h : plan o c = .ok cs) :
    (∀ a hs, Call.find a hs ∈ cs → a = o.atol) ∧ (∀ a hs f, Call.replace a hs f ∈ cs → a = o.atol)
    ∧ (o.findPath.isSome = true → ∃ x ∈ cs, x = .find o.atol o.hints ∨ x = .replace o.atol o.hints o.replaceFraction) := by
  obtain ⟨hfe, hrep, hfind⟩ := cli_find_replace o c cs h
  refine ⟨?_, ?_, ?_⟩
  · intro a hs hm
    have : Call.find a hs ∈ cs.filter Call.isFind := List.mem_filter.mpr ⟨hm, rfl⟩
    rw [hfind] at this
    split at this <;> simp at this
    exact this.1
  · intro a hs f hm
    have : Call.replace a hs f ∈ cs.filter Call.isReplace := List.mem_filter.mpr ⟨hm, rfl⟩
    rw [hrep] at this
    split at this <;> simp at this
    exact this.1
  · intro hf
    cases hr : o.replacePath with
    | none =>
      have : Call.find o.atol o.hints ∈ cs.filter Call.isFind := by rw [hfind]; simp [hf, hr]
      exact ⟨_, (List.mem_filter.mp this).1, Or.inl rfl⟩
    | some r =>
      have : Call.replace o.atol o.hints o.replaceFraction ∈ cs.filter Call.isReplace := by rw [hrep]; simp [hf, hr]
      exact ⟨_, (List.mem_filter.mp this).1, Or.inr rfl⟩

/-- `-p / --replace-fraction` is the `replace_fraction=` argument of the replace -/
theorem opt_fraction_reaches (o : Options) (c : Option CellInfo) (cs : List Call) (h : plan o c = .ok cs) :
    (∀ a hs f, Call.replace a hs f ∈ cs → f = o.replaceFraction)
    ∧ (o.findPath.isSome = true → o.replacePath.isSome = true →
        cs.filter Call.isReplace = [.replace o.atol o.hints o.replaceFraction]) := by
  obtain ⟨_, hrep, _⟩ := cli_find_replace o c cs h
  refine ⟨?_, ?_⟩
  · intro a hs f hm
    have : Call.replace a hs f ∈ cs.filter Call.isReplace := List.mem_filter.mpr ⟨hm, rfl⟩
    rw [hrep] at this
    split at this <;> simp at this
    exact this.2.2
  · intro hf hr; rw [hrep]; simp [hf, hr]

/-- `-ap1 / -ap2 / -op` are the three hint arguments of the search that is performed — in find-only mode too -/
theorem opt_hints_reach (o : Options) (c : Option CellInfo) (cs : List Call) (h : plan o c = .ok cs) :
    (∀ a hs, Call.find a hs ∈ cs → hs = o.hints) ∧ (∀ a hs f, Call.replace a hs f ∈ cs → hs = o.hints)
    ∧ (o.findPath.isSome = true → o.replacePath = none → cs.filter Call.isFind = [.find o.atol o.hints]) := by
  obtain ⟨_, hrep, hfind⟩ := cli_find_replace o c cs h
  refine ⟨?_, ?_, ?_⟩
  · intro a hs hm
    have : Call.find a hs ∈ cs.filter Call.isFind := List.mem_filter.mpr ⟨hm, rfl⟩
    rw [hfind] at this
    split at this <;> simp at this
    exact this.2
  · intro a hs f hm
    have : Call.replace a hs f ∈ cs.filter Call.isReplace := List.mem_filter.mpr ⟨hm, rfl⟩
    rw [hrep] at this
    split at this <;> simp at this
    exact this.2.1
  · intro hf hr; rw [hfind]; simp [hf, hr]

/-- the find and replace paths are loaded (in this order) and nothing else is loaded as a pattern -/
theorem opt_patterns_reach (o : Options) (c : Option CellInfo) (cs : List Call) (h : plan o c = .ok cs) :
    cs.filter Call.isLoadPattern =
      (match o.findPath, o.replacePath with
       | some f, some r => [.loadPattern f, .loadPattern r]
       | some f, none => [.loadPattern f]
       | none, _ => []) := by
  obtain ⟨_, rfl⟩ := plan_ok h
  rw [filter_planCalls (k := 7) (fun _ => stage_isLoadPattern)]
  simp only [seg, findSeg]
  cases o.findPath <;> cases o.replacePath <;> simp [Call.isLoadPattern]

/-- `--replicate` is the argument of the one `replicate` call -/
theorem opt_replicate_reaches (o : Options) (c : Option CellInfo) (cs : List Call) (h : plan o c = .ok cs) :
    cs.filter Call.isReplicate = (match o.replicate with | some d => [.replicate d] | none => []) := by
  obtain ⟨_, rfl⟩ := plan_ok h
  rw [filter_planCalls (k := 4) (fun _ => stage_isReplicate)]
  simp only [seg, replSeg]
  cases o.replicate <;> simp [Call.isReplicate]

/-- `--mic` reaches the minimum-image replication: on an orthorhombic cell the one call of that kind replicates by
    `ceil(2·mic / aᵢ)` of the cell as it is after `--replicate`; on any other cell only the warning is issued. -/
theorem opt_mic_reaches (o : Options) (c : Option CellInfo) (cs : List Call) (h : plan o c = .ok cs) :
    cs.filter Call.isMic =
      (match o.mic, c with
       | some m, some ci =>
         if ci.ortho then [.micReplicate (micDims m (scaleDiag ci.diag o.replicate))] else [.micSkippedNotOrtho]
       | _, _ => []) := by
  obtain ⟨_, rfl⟩ := plan_ok h
  rw [filter_planCalls (k := 5) (fun _ => stage_isMic)]
  simp only [seg, micSeg]
  cases o.mic <;> cases c <;> simp
  split <;> simp [Call.isMic]

/-- `--pp` switches the pair-parameter assignment on -/
theorem opt_pp_reaches (o : Options) (c : Option CellInfo) (cs : List Call) (h : plan o c = .ok cs) :
    cs.filter Call.isAssignPair = (if o.pp then [.assignPair] else []) := by
  obtain ⟨_, rfl⟩ := plan_ok h
  rw [filter_planCalls (k := 6) (fun _ => stage_isAssignPair)]
  simp only [seg, ppSeg]
  cases o.pp <;> simp [Call.isAssignPair]

/-- `-q / --chargefile` is what the charges are set from, and that happens before any replication (so the file
    lists one charge per atom of the input, not of the super-cell) -/
theorem opt_charges_reach (o : Options) (c : Option CellInfo) (cs : List Call) (h : plan o c = .ok cs) :
    cs.filter Call.isSetCharges = (match o.chargefile with | some f => [.setCharges f] | none => [])
    ∧ Before cs Call.isSetCharges Call.isReplicate ∧ Before cs Call.isSetCharges Call.isMic := by
  obtain ⟨_, rfl⟩ := plan_ok h
  refine ⟨?_, before_of_stage 3 4 (fun _ => stage_isSetCharges) (fun _ => stage_isReplicate) (by decide),
    before_of_stage 3 5 (fun _ => stage_isSetCharges) (fun _ => stage_isMic) (by decide)⟩
  rw [filter_planCalls (k := 3) (fun _ => stage_isSetCharges)]
  simp only [seg, chargeSeg]
  cases o.chargefile <;> simp [Call.isSetCharges]

/-! ## the minimum-image factors -/

/-- **mic_dim_spec.**  For a positive cell length `a`, `micDim mic a` is the least integer `n ≥ 1` with `n·a ≥ 2·mic`
    (at least one copy, and enough copies for the cutoff); for a positive cutoff it is `⌈2·mic / a⌉`, for a cutoff of
    zero or below it is 1 (the structure as it is already satisfies it). -/
theorem mic_dim_spec (mic a : Rat) (ha : 0 < a) :
    1 ≤ micDim mic a
    ∧ 2 * mic ≤ (micDim mic a : Rat) * a
    ∧ (∀ n : Int, 1 ≤ n → 2 * mic ≤ (n : Rat) * a → micDim mic a ≤ n)
    ∧ (0 < mic → micDim mic a = Rat.ceil (2 * mic / a))
    ∧ (mic ≤ 0 → micDim mic a = 1) := by
  unfold micDim
  have hc : 2 * mic ≤ ((Rat.ceil (2 * mic / a) : Int) : Rat) * a := (rat_div_le_iff ha).mp Rat.le_ceil
  refine ⟨Int.le_max_left _ _, ?_, ?_, ?_, ?_⟩
  · have hle : ((Rat.ceil (2 * mic / a) : Int) : Rat) ≤ ((max 1 (Rat.ceil (2 * mic / a)) : Int) : Rat) :=
      Rat.intCast_le_intCast.mpr (Int.le_max_right _ _)
    exact Rat.le_trans hc (Rat.mul_le_mul_of_nonneg_right hle (Rat.le_of_lt ha))
  · intro n h1 hn
    have : Rat.ceil (2 * mic / a) ≤ n := Rat.ceil_le_iff.mpr ((rat_div_le_iff ha).mpr hn)
    omega
  · intro hm
    have h0 : ((0 : Int) : Rat) < 2 * mic / a := by
      rw [Rat.lt_div_iff ha]
      have : (0 : Rat) < 2 * mic := Rat.mul_pos (by decide) hm
      simpa using this
    have := Rat.lt_ceil_iff.mpr h0
    omega
  · intro hm
    have h0 : 2 * mic / a ≤ ((0 : Int) : Rat) := by
      rw [rat_div_le_iff ha]
      have h2 : 2 * mic ≤ 2 * 0 := Rat.mul_le_mul_of_nonneg_left hm (by decide)
      simpa using h2
    have := Rat.ceil_le_iff.mpr h0
    omega

/-- **mic_dims_spec.**  On a cell with positive diagonal `(a₁,a₂,a₃)` each of the three factors is the least integer
    `nᵢ ≥ 1` with `nᵢ·aᵢ ≥ 2·mic` (so the replicated cell is at least twice the cutoff wide in every direction, no
    smaller super-cell is, and no direction is replicated less than once — whatever the sign of the cutoff). -/
theorem mic_dims_spec (mic : Rat) (d : Rat × Rat × Rat) (h1 : 0 < d.1) (h2 : 0 < d.2.1) (h3 : 0 < d.2.2) :
    (1 ≤ (micDims mic d).1 ∧ 1 ≤ (micDims mic d).2.1 ∧ 1 ≤ (micDims mic d).2.2)
    ∧ (2 * mic ≤ ((micDims mic d).1 : Rat) * d.1
        ∧ (∀ n : Int, 1 ≤ n → 2 * mic ≤ (n : Rat) * d.1 → (micDims mic d).1 ≤ n))
    ∧ (2 * mic ≤ ((micDims mic d).2.1 : Rat) * d.2.1
        ∧ (∀ n : Int, 1 ≤ n → 2 * mic ≤ (n : Rat) * d.2.1 → (micDims mic d).2.1 ≤ n))
    ∧ (2 * mic ≤ ((micDims mic d).2.2 : Rat) * d.2.2
        ∧ (∀ n : Int, 1 ≤ n → 2 * mic ≤ (n : Rat) * d.2.2 → (micDims mic d).2.2 ≤ n))
    ∧ (mic ≤ 0 → micDims mic d = (1, 1, 1)) := by
  have a := mic_dim_spec mic d.1 h1
  have b := mic_dim_spec mic d.2.1 h2
  have e := mic_dim_spec mic d.2.2 h3
  refine ⟨⟨a.1, b.1, e.1⟩, ⟨a.2.1, a.2.2.1⟩, ⟨b.2.1, b.2.2.1⟩, ⟨e.2.1, e.2.2.1⟩, fun hm => ?_⟩
  show (micDim mic d.1, micDim mic d.2.1, micDim mic d.2.2) = (1, 1, 1)
  rw [a.2.2.2.2 hm, b.2.2.2.2 hm, e.2.2.2.2 hm]

/-- the factors the plan actually passes satisfy `mic_dims_spec`: an accepted run with `--mic` on an orthorhombic
    cell has a positive diagonal -/
theorem plan_mic_diag_pos (o : Options) (ci : CellInfo) (m : Rat) (cs : List Call)
    (h : plan o (some ci) = .ok cs) (hm : o.mic = some m) (ho : ci.ortho = true) :
    0 < (scaleDiag ci.diag o.replicate).1 ∧ 0 < (scaleDiag ci.diag o.replicate).2.1
      ∧ 0 < (scaleDiag ci.diag o.replicate).2.2 :=
  ((plan_ok_iff o (some ci)).mp ⟨cs, h⟩).2 ci m rfl hm ho

/-! ## the specification in one statement -/

/-- **cli_plan_spec.**  For ALL option records and cells on which the run is accepted:
    first call = load of the input, last call = save of the output, each exactly once; the order
    overrides → `--replicate` → minimum-image replication → pair parameters → find/replace → save;
    a search happens iff a find path is given, a replace iff both paths are given (with the option's tolerance, hints
    and fraction), a find-only run searches with the option's tolerance and hints and then only (optionally) the
    framework-element step precedes the save. -/
theorem cli_plan_spec (o : Options) (c : Option CellInfo) (cs : List Call) (h : plan o c = .ok cs) :
    ((∃ rest, cs = firstCall o :: rest) ∧ (∃ init, cs = init ++ [lastCall o])
      ∧ cs.filter Call.isLoad = [firstCall o] ∧ cs.filter Call.isSave = [lastCall o])
    ∧ (Before cs Call.isReplicate Call.isMic ∧ Before cs Call.isMic Call.isAssignPair
        ∧ Before cs Call.isReplicate Call.isAssignPair ∧ Before cs Call.isAssignPair Call.isSearchBlock
        ∧ Before cs Call.isReplicate Call.isSearchBlock ∧ Before cs Call.isMic Call.isSearchBlock
        ∧ Before cs Call.isSearchBlock Call.isSave)
    ∧ ((∃ x ∈ cs, x.isFind = true ∨ x.isReplace = true) ↔ o.findPath.isSome = true)
    ∧ cs.filter Call.isReplace =
        (if o.findPath.isSome ∧ o.replacePath.isSome then [.replace o.atol o.hints o.replaceFraction] else [])
    ∧ cs.filter Call.isFind =
        (if o.findPath.isSome ∧ o.replacePath = none then [.find o.atol o.hints] else [])
    ∧ (o.findPath.isSome = true → o.replacePath = none →
        ∃ pre, cs = pre ++ Call.find o.atol o.hints :: (fwSeg o ++ [lastCall o])
          ∧ (∀ x ∈ pre, x.isFind = false ∧ x.isReplace = false)
          ∧ (∀ y ∈ fwSeg o ++ [lastCall o], y.changesStructure = true →
                o.frameworkElement.isSome = true ∧ y = .setFrameworkElement (o.frameworkElement.getD ""))) := by
  obtain ⟨_, _, _, h4, h5, h6, h7, h8, h9, h10⟩ := cli_order o c cs h
  obtain ⟨f1, f2, f3⟩ := cli_find_replace o c cs h
  exact ⟨cli_first_last o c cs h, ⟨h4, h6, h5, h9, h7, h8, h10⟩, f1, f2, f3, cli_find_only o c cs h⟩

/-! ## non-vacuity: concrete option records that satisfy the guards -/

instance decEqPlanResult : DecidableEq (Except Err (List Call)) := fun a b =>
  match a, b with
  | .ok x, .ok y => if h : x = y then isTrue (by rw [h]) else isFalse (by intro e; cases e; exact h rfl)
  | .error x, .error y => if h : x = y then isTrue (by rw [h]) else isFalse (by intro e; cases e; exact h rfl)
  | .ok _, .error _ => isFalse (by intro e; cases e)
  | .error _, .ok _ => isFalse (by intro e; cases e)

/-- everything at once: charges, `--replicate 2 1 1`, `--mic 6`, `--pp`, find + replace with non-default tolerance,
    hints (index 0 included) and fraction -/
def exFull : Options :=
  { input := "in.cif", inputNative := true, output := "out.lmpdat", outputNative := true,
    findPath := some "p.cml", replacePath := some "r.cml", replaceFraction := 1 / 2, atol := 1 / 10,
    hints := ⟨some 0, some 2, some 1⟩, chargefile := some "q.txt", replicate := some (2, 1, 1), mic := some 6,
    pp := true }

def exCell : CellInfo := ⟨(5, 10, 25 / 2), true⟩

example : plan exFull (some exCell) = .ok
    [.load "in.cif", .setCharges "q.txt", .replicate (2, 1, 1), .micReplicate (2, 2, 1), .assignPair,
     .loadPattern "p.cml", .loadPattern "r.cml", .replace (1 / 10) ⟨some 0, some 2, some 1⟩ (1 / 2),
     .save "out.lmpdat"] := by decide +kernel

/-- find-only, with hints and a framework element, ASE on both ends, non-orthorhombic cell -/
def exFindOnly : Options :=
  { input := "in.xyz", inputNative := false, output := "out.xyz", outputNative := false,
    findPath := some "p.cml", atol := 1 / 10, hints := ⟨some 0, none, none⟩, extractUc := some "uc.lmpdat",
    dumpPath := some "d.dump", mic := some 6, frameworkElement := some "C" }

example : plan exFindOnly (some ⟨(5, 10, 25 / 2), false⟩) = .ok
    [.loadAse "in.xyz", .setCellFrom "uc.lmpdat", .setPositionsFromDump "d.dump", .micSkippedNotOrtho,
     .loadPattern "p.cml", .find (1 / 10) ⟨some 0, none, none⟩, .setFrameworkElement "C", .saveAse "out.xyz"] := by
  decide +kernel

-- the guards of `cli_find_only` / `opt_hints_reach` are satisfiable
example : exFindOnly.findPath.isSome = true ∧ exFindOnly.replacePath = none := by decide

/-- replace without find: only the warning, the structure is saved as loaded -/
example : plan { input := "a.lmpdat", inputNative := true, output := "b.cif", outputNative := true,
                 replacePath := some "r.cml" } none
    = .ok [.load "a.lmpdat", .warnReplaceWithoutFind, .save "b.cif"] := by decide +kernel

/-- rejected runs: replication without a cell; minimum image on a degenerate cell -/
example : plan { input := "a.cml", inputNative := true, output := "b.cif", outputNative := true,
                 replicate := some (2, 1, 1) } none = .error .nocell := by decide +kernel
example : plan { exFull with replicate := some (0, 1, 1) } (some exCell) = .error .domain := by decide +kernel

/-- minimum-image factors: `mic = 6` on lengths `(10, 10, 12.5)` gives `(2, 2, 1)`; exactly `2·mic = a` gives 1;
    the guards of `mic_dims_spec` hold for this cell -/
example : micDims 6 (10, 10, 25 / 2) = (2, 2, 1) := by decide +kernel
example : micDims 5 (10, 10, 25 / 2) = (1, 1, 1) := by decide +kernel
/-- a cutoff of zero, or below: one copy in every direction (not zero copies) -/
example : micDims 0 (10, 10, 25 / 2) = (1, 1, 1) ∧ micDims (-3) (10, 10, 25 / 2) = (1, 1, 1) := by decide +kernel
example : (0 : Rat) < (10 : Rat) ∧ (0 : Rat) < (25 / 2 : Rat) := by decide +kernel

/-- suffix dispatch as `pathlib` does it -/
example : inputIsNative "/tmp/x.y/in.cif" = true ∧ inputIsNative "/tmp/x.cif/in.xyz" = false
    ∧ outputIsNative "out.mol" = true ∧ outputIsNative "out.cml" = false ∧ inputIsNative ".cif" = false := by
  decide +kernel

end Mofun.Cli
