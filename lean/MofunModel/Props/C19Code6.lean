/-
  C19Code6.lean — `calc_angles` (mofun/rough_uff.py), re-translated from the python source text on every run by
  harness/gen_code6.py into Generated/Code6.lean (`Code6.calcAngles`: the networkx graph as an insertion-ordered edge
  list, the loop over `g.nodes`, `itertools.combinations(g.neighbors(n), 2)`, the rows `(a, n, b)`), IS the model's
  `Terms.calcAngles` (Model/Terms.lean) for ALL bond lists: the same angles in the same order.
  (`calc_dihedrals` and the three `assign_*_types` are not translated yet.)
-/
import MofunModel.Generated.Code6
import MofunModel.Model.Terms
import MofunModel.Proofs.Code2Terms

namespace Mofun.C19Code6
open Mofun Mofun.Generated Mofun.Code2Terms
set_option linter.unusedSimpArgs false

/-- the prelude's networkx graph of a bond list has the model's nodes and neighbour lists -/
theorem nxNodes_eq (bonds : List (Nat × Nat)) : Py6.nxNodes (Py6.nxAddEdges Py6.nxEmpty bonds) = Terms.nodes bonds := by
  simp [Py6.nxNodes, Py6.nxAddEdges, Py6.nxEmpty, Terms.nodes]

theorem nxNeighbors_eq (bonds : List (Nat × Nat)) (n : Nat) :
    Py6.nxNeighbors (Py6.nxAddEdges Py6.nxEmpty bonds) n = Terms.neighbours bonds n := by
  simp [Py6.nxNeighbors, Py6.nxAddEdges, Py6.nxEmpty, Terms.neighbours]
  rfl

theorem combinations2_eq {α} (xs : List α) : Py6.combinations2 xs = Terms.pairs xs := by
  induction xs with
  | nil => rfl
  | cons x xs ih => simp [Py6.combinations2, Terms.pairs, ih]

private theorem foldl_append_flatMap {α β} (f : α → List β) (xs : List α) (acc : List β) :
    xs.foldl (fun acc x => acc ++ f x) acc = acc ++ xs.flatMap f := by
  induction xs generalizing acc with
  | nil => simp
  | cons x xs ih => simp [List.foldl_cons, ih, List.flatMap_cons, List.append_assoc]

/-- **calcAngles_eq** — for ALL bond lists (repeated bonds, both directions, self-loops included) -/
theorem calcAngles_eq (bonds : List (Nat × Nat)) : Code6.calcAngles bonds = Terms.calcAngles bonds := by
  unfold Code6.calcAngles Terms.calcAngles Terms.anglesAt
  simp only [forFold_eq_foldl, nxNodes_eq, nxNeighbors_eq, combinations2_eq]
  rw [foldl_append_flatMap]
  simp

/-! ### concrete runs; the same examples are asserted against the installed networkx by tools/gen_code6_selftest.py -/

/-- bonds 2–1, 1–3, 1–0, 3–4 (listed in this order): nodes 2, 1, 3, 0, 4; neighbours of 1 are 2, 3, 0 -/
example : Py6.nxNodes (Py6.nxAddEdges Py6.nxEmpty [(2, 1), (1, 3), (1, 0), (3, 4)]) = [2, 1, 3, 0, 4] := by decide
example : Py6.nxNeighbors (Py6.nxAddEdges Py6.nxEmpty [(2, 1), (1, 3), (1, 0), (3, 4)]) 1 = [2, 3, 0] := by decide
example : Py6.nxNeighbors (Py6.nxAddEdges Py6.nxEmpty [(2, 1), (1, 2), (1, 1), (2, 1)]) 1 = [2, 1] := by decide
example : Py6.combinations2 [2, 3, 0] = [(2, 3), (2, 0), (3, 0)] := by decide
example : Code6.calcAngles [(2, 1), (1, 3), (1, 0), (3, 4)] = [[2, 1, 3], [2, 1, 0], [3, 1, 0], [1, 3, 4]] := by decide

end Mofun.C19Code6
