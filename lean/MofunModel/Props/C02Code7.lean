/-
  C02Code7.lean — seventh translator batch, the grouping side of the search (harness/gen_code.py, Generated/Code.lean), tied to the
  model (Model/Find.lean, `tupleKey` of Proofs/FindCompleteGroup.lean):

    key=lambda m: tuple(sorted([near_indices[i] % len(structure) for i in m]))   = tupleKey n (the tuple as indices into all positions)
    helpers.remove_duplicates, `else: # pick first` branch                      = the first member of every group of `groupBy`
    helpers.atoms_by_type_dict                                                   = for every type, the ascending positions holding it
-/
import MofunModel.Proofs.Code7Find
import MofunModel.Proofs.FindCompleteGroup

namespace Mofun.C02Code7
open Mofun Mofun.Generated Mofun.Code2Find Mofun.Code7Find
set_option linter.unusedSimpArgs false

/-- for ALL candidates inside the near list: the translated grouping key is the model's `tupleKey` (sorted unit-cell indices) of the
    candidate written as indices into all positions (`candsAll` of `findGroups`); it never raises -/
theorem findGroupKey_eq (n : Nat) (hn : n ≠ 0) (near m : List Nat) (h : ∀ k ∈ m, k < near.length) :
    Code.findGroupKey n near m = some ((tupleKey n (m.map (fun k => near.getD k 0))).map Int.ofNat) := by
  unfold Code.findGroupKey
  rw [mapM_uc n hn near m h]
  simp only [bind, pure, Option.bind_eq_bind, Option.bind_some, sortedAsc_ofNat, tupleKey]
  simp only [List.map_map]
  rfl

/-- the key is the one `findGroups` groups by: `sortNat (t.map (· % n))` -/
theorem findGroupKey_model (n : Nat) (hn : n ≠ 0) (near m : List Nat) (h : ∀ k ∈ m, k < near.length) :
    Code.findGroupKey n near m =
      some (((fun t : List Nat => sortNat (t.map (· % n))) (m.map (fun k => near.getD k 0))).map Int.ofNat) :=
  findGroupKey_eq n hn near m h

/-- for ALL lists and key functions: the pick-first branch of `remove_duplicates` never raises and returns, group by group of the
    model's `groupBy` (first-seen order), the FIRST member of the group -/
theorem removeDuplicatesFirst_eq {α κ} [DecidableEq κ] (l : List α) (key : α → κ) :
    ∃ r, Code.removeDuplicatesFirst l key = some r ∧ r.map some = (groupBy key l).map (fun p => p.2.head?) := by
  rcases mapM_first (groupBy key l) (groupBy_nonempty key l) with ⟨r, hr, hr'⟩
  refine ⟨r, ?_, hr'⟩
  unfold Code.removeDuplicatesFirst
  rw [groupBy_eq_foldl] at hr
  simp only [bind, pure, Option.bind_eq_bind]
  rw [forFoldM?_total l _ (groupStep key) (fun st x => by
    first
    | exact group_step key st x
    | exact group_step' key st x
    | (have := group_step key st x; simp only [] at this ⊢; first | exact this | (split at this <;> simp_all)))]
  simp only [Option.bind_some]
  first | exact hr | (simp only [Option.bind_some] at hr ⊢; exact hr) | simpa using hr

/-- one survivor per key -/
theorem removeDuplicatesFirst_length {α κ} [DecidableEq κ] (l : List α) (key : α → κ) :
    ∃ r, Code.removeDuplicatesFirst l key = some r ∧ r.length = (groupBy key l).length := by
  rcases removeDuplicatesFirst_eq l key with ⟨r, h, h'⟩
  exact ⟨r, h, by simpa using congrArg List.length h'⟩

example : Code.findGroupKey 4 [0, 1, 2, 3, 5, 6] [5, 0, 4] = some [0, 1, 2] := by decide
example : Code.removeDuplicatesFirst [[1, 2], [3, 4], [2, 1]] sortNat = some [[1, 2], [3, 4]] := by decide

end Mofun.C02Code7
