/-
  C18 — UFF parameters follow the published formulas for every type combination; symmetric under reversal.
  Property theorems only (helper lemmas: Proofs/UffLogicLemmas.lean, Proofs/UffReal.lean).
  Models: Model/UffLogic.lean (decision logic, all strings), Model/UffFormula.lean (one generic definition of each
  formula over `ElemFun α`; the theorems below are about the `ℝ` instance, the driver runs the `Float` instance).
  Table-dependent statements are over the GENERATED table `Mofun.Generated.uff4mof` / `mainGroupElements`.
-/
import MofunModel.Proofs.UffReal

namespace Mofun.Uff
open Mofun.Generated

/-! ## 1. decision logic — for ALL strings -/

/-- python `{a1, a2} == set(ts)` -/
def SetIs (a1 a2 : String) (ts : List String) : Prop := ∀ x, x ∈ ts ↔ (x = a1 ∨ x = a2)

/-- **bond_order_symm.** `guess_bond_order(a1, a2, rules) = guess_bond_order(a2, a1, rules)`. -/
theorem bond_order_symm (a1 a2 : String) (rules : List (List String × Rat)) :
    guessBondOrder a1 a2 rules = guessBondOrder a2 a1 rules := by
  unfold guessBondOrder
  rw [ruleLookup_symm a1 a2, defaultBondOrder_symm a1 a2]

/-- **bond_order_spec.** User rules first (the first rule whose type SET equals `{a1, a2}`); otherwise
    H_/F_/Cl/Br/I_/C_3/N_3/O_3 on either side → 1; an equal pair of C_2/N_2/O_2 → 2; an equal pair of
    C_R/N_R/O_R → 3/2; anything else → 1. -/
theorem bond_order_spec (a1 a2 : String) (rules : List (List String × Rat)) :
    (∀ pre post ts bo, rules = pre ++ (ts, bo) :: post → (∀ r ∈ pre, ¬ SetIs a1 a2 r.1) → SetIs a1 a2 ts →
        guessBondOrder a1 a2 rules = bo)
    ∧ ((∀ r ∈ rules, ¬ SetIs a1 a2 r.1) →
        ((a1 ∈ singleBondTypes ∨ a2 ∈ singleBondTypes) → guessBondOrder a1 a2 rules = 1)
        ∧ (¬ (a1 ∈ singleBondTypes ∨ a2 ∈ singleBondTypes) → a1 = a2 → a1 ∈ doubleBondTypes →
            guessBondOrder a1 a2 rules = 2)
        ∧ (¬ (a1 ∈ singleBondTypes ∨ a2 ∈ singleBondTypes) → a1 = a2 → a1 ∉ doubleBondTypes →
            a1 ∈ resonantBondTypes → guessBondOrder a1 a2 rules = 3 / 2)
        ∧ (¬ (a1 ∈ singleBondTypes ∨ a2 ∈ singleBondTypes) →
            ¬ (a1 = a2 ∧ (a1 ∈ doubleBondTypes ∨ a1 ∈ resonantBondTypes)) → guessBondOrder a1 a2 rules = 1)) := by
  have hset : ∀ ts, pairSetEq a1 a2 ts = true ↔ SetIs a1 a2 ts := fun ts => pairSetEq_iff a1 a2 ts
  constructor
  · intro pre post ts bo hr hpre hts
    subst hr
    unfold guessBondOrder
    rw [ruleLookup_first a1 a2 pre post ts bo
      (fun r hr => by
        have := hpre r hr
        rw [← hset] at this
        simpa using this)
      ((hset ts).mpr hts)]
  · intro hno
    have hnone : ruleLookup a1 a2 rules = none :=
      (ruleLookup_none_iff a1 a2 rules).mpr (fun r hr => by
        have := hno r hr
        rw [← hset] at this
        simpa using this)
    unfold guessBondOrder
    rw [hnone]
    simp only [defaultBondOrder, Bool.or_eq_true, List.contains_iff_mem, Bool.and_eq_true, beq_iff_eq]
    refine ⟨fun h => by simp [h], fun h he hd => ?_, fun h he hd hr => ?_, fun h hn => ?_⟩
    · subst he
      simp only [h, hd, and_true, if_false, if_true]
    · subst he
      simp only [h, hd, and_false, if_false, true_and, hr, if_true]
    · have h1 : ¬ (a1 = a2 ∧ a1 ∈ doubleBondTypes) := fun ⟨e, m⟩ => hn ⟨e, Or.inl m⟩
      have h2 : ¬ (a1 = a2 ∧ a1 ∈ resonantBondTypes) := fun ⟨e, m⟩ => hn ⟨e, Or.inr m⟩
      simp only [h, h1, h2, if_false]

example : guessBondOrder "C_R" "C_R" [] = 3 / 2 := by decide +kernel
example : guessBondOrder "N_1" "N_2" [(["N_2", "N_1", "N_2"], 2)] = 2 := by decide +kernel
example : guessBondOrder "C_R" "H_" [] = 1 := by decide +kernel

/-- **angle_style_spec.** θ0 = 180 → cosine/periodic n=1, b=1; 120 → n=3, b=−1; 90 with a 4-coordinate ("…3")
    centre → n=2, b=−1; 90 otherwise → n=4, b=1; every other angle → fourier. -/
theorem angle_style_spec (theta0 : Rat) (a2 : String) :
    (theta0 = 180 → angleStyle theta0 a2 = .cosinePeriodic 1 1)
    ∧ (theta0 = 120 → angleStyle theta0 a2 = .cosinePeriodic 3 (-1))
    ∧ (theta0 = 90 → hyb a2 = some '3' → angleStyle theta0 a2 = .cosinePeriodic 2 (-1))
    ∧ (theta0 = 90 → hyb a2 ≠ some '3' → angleStyle theta0 a2 = .cosinePeriodic 4 1)
    ∧ (theta0 ≠ 180 → theta0 ≠ 120 → theta0 ≠ 90 → angleStyle theta0 a2 = .fourier) := by
  unfold angleStyle coordIs4
  refine ⟨fun h => ?_, fun h => ?_, fun h h3 => ?_, fun h h3 => ?_, fun h1 h2 h3 => ?_⟩
  · subst h; rfl
  · subst h; rfl
  · subst h; rw [h3]; rfl
  · subst h
    have : (hyb a2 == some '3') = false := by simpa using h3
    rw [this]; rfl
  · simp [h1, h2, h3]

/-- **angle_style_symm.** the style (and n, b) chosen for (a1, a2, a3) and for (a3, a2, a1) is the same -/
theorem angle_style_symm (a1 a2 a3 : String) :
    angleStyleOf uff4mof a1 a2 a3 = angleStyleOf uff4mof a3 a2 a1 := rfl

example : angleStyleOf uff4mof "C_R" "Pt4+2" "H_" = some (.cosinePeriodic 4 1) := by decide +kernel
example : angleStyleOf uff4mof "C_R" "Zn3+2" "H_" = some .fourier := by decide +kernel

/-- **torsion_case_symm.** For ALL strings the branch of `dihedral_params` taken for (a4, a3, a2, a1) is the
    mirror image of the branch for (a1, a2, a3, a4) (only the two group-6 flags swap), hence: defined /
    `None` / unsupported, the style, `n` and `d` are identical. -/
theorem torsion_case_symm (a1 a2 a3 a4 : String) :
    torsionCase a4 a3 a2 a1 = (torsionCase a1 a2 a3 a4).reverse
    ∧ (torsionCase a4 a3 a2 a1).kind = (torsionCase a1 a2 a3 a4).kind
    ∧ (torsionCase a4 a3 a2 a1).style = (torsionCase a1 a2 a3 a4).style
    ∧ (torsionCase a4 a3 a2 a1).n = (torsionCase a1 a2 a3 a4).n
    ∧ (torsionCase a4 a3 a2 a1).d = (torsionCase a1 a2 a3 a4).d := by
  have h := torsionCase_symm a1 a2 a3 a4
  refine ⟨h, ?_, ?_, ?_, ?_⟩ <;> rw [h]
  · exact reverse_kind _
  · exact reverse_style _
  · exact reverse_n _
  · exact reverse_d _

example : torsionCase "C_R" "O_3" "S_3+6" "H_" = .sp3sp3Group6 true false := by decide +kernel
example : torsionCase "H_" "S_3+6" "O_3" "C_R" = .sp3sp3Group6 false true := by decide +kernel
example : torsionCase "C_2" "C_2" "C_3" "H_" = .mixedSp2Sp2 := by decide +kernel
example : torsionCase "H_" "C_1" "C_3" "H_" = .undefined := by decide +kernel
example : torsionCase "H_" "Cu4+2" "O_3" "H_" = .undefined := by decide +kernel
example : torsionCase "H_" "Li" "O_3" "H_" = .unsupported := by decide +kernel

/-- **torsion_factors_through_classes** (stretch). The branch depends on the four strings only through
    "is the end atom sp2" and the centre attributes (hybridisation class, oxygen column, is-oxygen, main group). -/
theorem torsion_factors_through_classes (a1 a2 a3 a4 b1 b2 b3 b4 : String)
    (h1 : endClass a1 = endClass b1) (h2 : midClass mainGroupElements a2 = midClass mainGroupElements b2)
    (h3 : midClass mainGroupElements a3 = midClass mainGroupElements b3) (h4 : endClass a4 = endClass b4) :
    torsionCase a1 a2 a3 a4 = torsionCase b1 b2 b3 b4 := by
  unfold torsionCase torsionCaseWith
  rw [h1, h2, h3, h4]

/-! ## 2. whole-table facts (re-checked by the kernel whenever the table changes) -/

/-- **table_facts.** Every row of UFF4MOF has its 11 columns, r1, x1, D1, Z1 > 0, 0 < θ0 ≤ 180, Vi, Uj ≥ 0 and
    1 ≤ Xi ≤ 15: nothing the formulas divide by, take the root or logarithm of, is zero or negative. -/
theorem table_facts (a : String) (row : List Dec) (h : lookup uff4mof a = some row) :
    row.length = 11 ∧ 0 < colQ row 0 ∧ 0 < colQ row 1 ∧ colQ row 1 ≤ 180 ∧ 0 < colQ row 2 ∧ 0 < colQ row 3
    ∧ 0 < colQ row 5 ∧ 0 ≤ colQ row 6 ∧ 0 ≤ colQ row 7 ∧ 1 ≤ colQ row 8 ∧ colQ row 8 ≤ 15 := by
  have := List.all_eq_true.mp rows_ok (a, row) (lookup_mem _ _ _ h)
  unfold rowOk at this
  simp only [Bool.and_eq_true, decide_eq_true_eq, beq_iff_eq] at this
  obtain ⟨⟨⟨⟨⟨⟨⟨⟨⟨⟨hlen, h0⟩, h1⟩, h1'⟩, h2⟩, h3⟩, h5⟩, h6⟩, h7⟩, h8⟩, h8'⟩ := this
  exact ⟨hlen, h0, h1, h1', h2, h3, h5, h6, h7, h8, h8'⟩

/-- **table_acute_centres.** `H_b` is the only type with θ0 < 90° (the only centre that needs the separate bound `angleK_pos_acute`). -/
theorem table_acute_centres :
    (uff4mof.filter (fun p => decide (colQ p.2 1 < 90))).map (·.1) = ["H_b"] := acute_centres

example : IsType "C_R" := by decide +kernel
example : IsType "Zr8f4" := by decide +kernel
example : ¬ IsType "Xx" := by decide +kernel

/-! ## 3. real-valued formulas (`ℝ` instance) -/

/-- a bond order the positivity theorems cover: 0 < BO ≤ 2 (contains the guessed values 1, 3/2, 2) -/
def Admissible (b : Rat) : Prop := 0 < b ∧ b ≤ 2

instance (b : Rat) : Decidable (Admissible b) := by unfold Admissible; infer_instance

/-- the wide range of bond orders on which bond (and obtuse-centre angle) positivity is proved: 0 < BO ≤ 32 —
    every positive bond order a user rule can sensibly give (triple bonds = 3, fractional orders below 1, …) -/
def Wide (b : Rat) : Prop := 0 < b ∧ b ≤ 32

instance (b : Rat) : Decidable (Wide b) := by unfold Wide; infer_instance

theorem Admissible.wide {b : Rat} (h : Admissible b) : Wide b := ⟨h.1, Rat.le_trans h.2 (by decide)⟩

/-- the range of the bond orders named by the property (guessed, 1, 3/2, 2): 1 ≤ BO ≤ 2 -/
def Listed (b : Rat) : Prop := 1 ≤ b ∧ b ≤ 2

instance (b : Rat) : Decidable (Listed b) := by unfold Listed; infer_instance

theorem Listed.admissible {b : Rat} (h : Listed b) : Admissible b := ⟨lt_of_lt_of_le (by decide) h.1, h.2⟩

/-- **listed_bond_orders.** the bond orders named by the property — guessed (no user rules), 1, 3/2, 2 — all lie in
    [1, 2] (hence are admissible) -/
theorem listed_bond_orders (a1 a2 : String) (bo : Option Rat)
    (h : bo = none ∨ bo = some 1 ∨ bo = some (3 / 2) ∨ bo = some 2) :
    Listed (bondOrderOf a1 a2 bo []) := by
  unfold Listed bondOrderOf
  rcases h with h | h | h | h <;> subst h
  · show 1 ≤ guessBondOrder a1 a2 [] ∧ guessBondOrder a1 a2 [] ≤ 2
    unfold guessBondOrder ruleLookup
    rcases defaultBondOrder_range a1 a2 with h | h | h <;> rw [h] <;> decide +kernel
  · show (1 : Rat) ≤ 1 ∧ (1 : Rat) ≤ 2
    decide +kernel
  · show (1 : Rat) ≤ 3 / 2 ∧ (3 / 2 : Rat) ≤ 2
    decide +kernel
  · show (1 : Rat) ≤ 2 ∧ (2 : Rat) ≤ 2
    decide +kernel

/-- **bond_symm.** `bond_params(a1, a2) = bond_params(a2, a1)` EXACTLY (values and exceptions), all strings. -/
theorem bond_symm (a1 a2 : String) (bo : Option Rat) (rules : List (List String × Rat)) :
    bondParams (α := ℝ) uff4mof a1 a2 bo rules = bondParams (α := ℝ) uff4mof a2 a1 bo rules :=
  bondParams_symm a1 a2 bo rules

/-- **bond_len_pos_wide.** For every pair of table types and EVERY bond order in (0, 32] (guessed, explicit, or from a
    user rule) the bond is defined and its length is positive.  (Analytic: rEN ≤ 0.5263 (ri + rj) from the kernel-
    checked row bounds 2 ≤ Xi ≤ 12 and (√x − √y)² ≤ 4.21; rBO ≥ −0.1332 · 5 ln 2 · (ri + rj).) -/
theorem bond_len_pos_wide (a1 a2 : String) (bo : Option Rat) (rules : List (List String × Rat))
    (h1 : IsType a1) (h2 : IsType a2) (hb : Wide (bondOrderOf a1 a2 bo rules)) :
    ∃ k r : ℝ, bondParams (α := ℝ) uff4mof a1 a2 bo rules = .ok (k, r) ∧ 0 < r := by
  obtain ⟨k, r, e, _, hr⟩ := bondParams_pos_wide a1 a2 bo rules h1 h2 hb.1 hb.2
  exact ⟨k, r, e, hr⟩

/-- **bond_k_pos_wide.** … and its force constant is positive. -/
theorem bond_k_pos_wide (a1 a2 : String) (bo : Option Rat) (rules : List (List String × Rat))
    (h1 : IsType a1) (h2 : IsType a2) (hb : Wide (bondOrderOf a1 a2 bo rules)) :
    ∃ k r : ℝ, bondParams (α := ℝ) uff4mof a1 a2 bo rules = .ok (k, r) ∧ 0 < k := by
  obtain ⟨k, r, e, hk, _⟩ := bondParams_pos_wide a1 a2 bo rules h1 h2 hb.1 hb.2
  exact ⟨k, r, e, hk⟩

example : IsType "C_1" ∧ IsType "N_1" ∧ Wide (bondOrderOf "C_1" "N_1" none [(["N_1", "C_1"], 3)])
    ∧ Wide (bondOrderOf "C_1" "N_1" (some (1 / 1000)) []) := by decide +kernel

/-- **bond_len_pos.** (corollary) the bond orders in (0, 2]. -/
theorem bond_len_pos (a1 a2 : String) (bo : Option Rat) (rules : List (List String × Rat))
    (h1 : IsType a1) (h2 : IsType a2) (hb : Admissible (bondOrderOf a1 a2 bo rules)) :
    ∃ k r : ℝ, bondParams (α := ℝ) uff4mof a1 a2 bo rules = .ok (k, r) ∧ 0 < r :=
  bond_len_pos_wide a1 a2 bo rules h1 h2 hb.wide

/-- **bond_k_pos.** (corollary) -/
theorem bond_k_pos (a1 a2 : String) (bo : Option Rat) (rules : List (List String × Rat))
    (h1 : IsType a1) (h2 : IsType a2) (hb : Admissible (bondOrderOf a1 a2 bo rules)) :
    ∃ k r : ℝ, bondParams (α := ℝ) uff4mof a1 a2 bo rules = .ok (k, r) ∧ 0 < k :=
  bond_k_pos_wide a1 a2 bo rules h1 h2 hb.wide

example : IsType "Du" ∧ IsType "Fr" ∧ Admissible (bondOrderOf "Du" "Fr" (some 2) []) := by decide +kernel

/-- **pair_coeffs_pos.** ε = D1 > 0 and σ = x1 · 2^(−1/6) > 0 for every table type. -/
theorem pair_coeffs_pos (a : String) (h : IsType a) :
    ∃ eps sigma : ℝ, pairCoeffs (α := ℝ) uff4mof a = .ok (eps, sigma) ∧ 0 < eps ∧ 0 < sigma :=
  pairCoeffs_pos a h

/-- **angle_symm** (stretch). `angle_params(a1, a2, a3, [bo1, bo2]) = angle_params(a3, a2, a1, [bo2, bo1])`
    EXACTLY, for table types. -/
theorem angle_symm (a1 a2 a3 : String) (bo1 bo2 : Option Rat) (rules : List (List String × Rat))
    (h1 : IsType a1) (h2 : IsType a2) (h3 : IsType a3) :
    angleParams (α := ℝ) uff4mof a1 a2 a3 bo1 bo2 rules = angleParams (α := ℝ) uff4mof a3 a2 a1 bo2 bo1 rules :=
  angleParams_symm a1 a2 a3 bo1 bo2 rules h1 h2 h3

/-- **dihedral_symm** (stretch). `dihedral_params(a1, a2, a3, a4, M) = dihedral_params(a4, a3, a2, a1, M)`
    EXACTLY — parameters, `None`, and every exception — for ALL strings. -/
theorem dihedral_symm (a1 a2 a3 a4 : String) (mult : Nat) (bo : Option Rat) (rules : List (List String × Rat)) :
    dihedralParams (α := ℝ) uff4mof a1 a2 a3 a4 mult bo rules =
      dihedralParams (α := ℝ) uff4mof a4 a3 a2 a1 mult bo rules :=
  dihedralParams_symm a1 a2 a3 a4 mult bo rules

/-- **angle_k_pos** (stretch). For ALL table types (every centre, including the acute centre `H_b`) and bond orders
    in [1, 2] (guessed, 1, 3/2, 2: `listed_bond_orders`) `angle_params` is defined and its force constant is positive. -/
theorem angle_k_pos (a1 a2 a3 : String) (bo1 bo2 : Option Rat) (rules : List (List String × Rat))
    (h1 : IsType a1) (h2 : IsType a2) (h3 : IsType a3)
    (hb1 : Listed (bondOrderOf a1 a2 bo1 rules)) (hb2 : Listed (bondOrderOf a2 a3 bo2 rules)) :
    ∃ res : AngleResult ℝ, angleParams (α := ℝ) uff4mof a1 a2 a3 bo1 bo2 rules = .ok res ∧ 0 < res.k :=
  angleParams_pos a1 a2 a3 bo1 bo2 rules h1 h2 h3 hb1 hb2

example : IsType "O_3" ∧ IsType "H_b" ∧ IsType "Fr" ∧ Listed (bondOrderOf "O_3" "H_b" none [])
    ∧ Listed (bondOrderOf "H_b" "Fr" (some 2) []) := by decide +kernel

/-- **angle_k_pos_obtuse_wide** (stretch). For centres with θ0 ≥ 90° the angle is defined, has the documented style and
    a positive force constant for EVERY pair of bond orders in (0, 32] (user rules below 1 or above 2 included). -/
theorem angle_k_pos_obtuse_wide (a1 a2 a3 : String) (bo1 bo2 : Option Rat) (rules : List (List String × Rat))
    (row2 : List Dec) (h1 : IsType a1) (h2 : lookup uff4mof a2 = some row2) (h3 : IsType a3)
    (hb1 : Wide (bondOrderOf a1 a2 bo1 rules)) (hb2 : Wide (bondOrderOf a2 a3 bo2 rules)) :
    ∃ res : AngleResult ℝ, angleParams (α := ℝ) uff4mof a1 a2 a3 bo1 bo2 rules = .ok res
      ∧ res.style = angleStyle (colQ row2 1) a2
      ∧ (90 ≤ colQ row2 1 → 0 < res.k) :=
  angleParams_ok_wide a1 a2 a3 bo1 bo2 rules row2 h1 h2 h3 hb1 hb2

/-- **angle_k_pos_obtuse** (stretch, corollary). the bond orders in (0, 2]. -/
theorem angle_k_pos_obtuse (a1 a2 a3 : String) (bo1 bo2 : Option Rat) (rules : List (List String × Rat))
    (row2 : List Dec) (h1 : IsType a1) (h2 : lookup uff4mof a2 = some row2) (h3 : IsType a3)
    (hb1 : Admissible (bondOrderOf a1 a2 bo1 rules)) (hb2 : Admissible (bondOrderOf a2 a3 bo2 rules)) :
    ∃ res : AngleResult ℝ, angleParams (α := ℝ) uff4mof a1 a2 a3 bo1 bo2 rules = .ok res
      ∧ res.style = angleStyle (colQ row2 1) a2
      ∧ (90 ≤ colQ row2 1 → 0 < res.k) :=
  angle_k_pos_obtuse_wide a1 a2 a3 bo1 bo2 rules row2 h1 h2 h3 hb1.wide hb2.wide

example : (lookup uff4mof "Zr8f4").map (fun r => decide (90 ≤ colQ r 1) && angleStyle (colQ r 1) "Zr8f4" == .fourier)
    = some true := by decide +kernel
example : Admissible (bondOrderOf "O_3" "Zr8f4" none [(["O_3", "Zr8f4"], 1 / 2)])
    ∧ Admissible (bondOrderOf "Zr8f4" "O_2" (some (3 / 2)) []) := by
  decide +kernel

/-- **angle_defined_style.** For table types and bond orders in (0, 32] `angle_params` is defined and returns the
    documented potential style of its centre (`angle_style_spec`). -/
theorem angle_defined_style (a1 a2 a3 : String) (bo1 bo2 : Option Rat) (rules : List (List String × Rat))
    (row2 : List Dec) (h1 : IsType a1) (h2 : lookup uff4mof a2 = some row2) (h3 : IsType a3)
    (hb1 : Wide (bondOrderOf a1 a2 bo1 rules)) (hb2 : Wide (bondOrderOf a2 a3 bo2 rules)) :
    ∃ res : AngleResult ℝ, angleParams (α := ℝ) uff4mof a1 a2 a3 bo1 bo2 rules = .ok res
      ∧ res.style = angleStyle (colQ row2 1) a2 := by
  obtain ⟨res, e, hs, _⟩ := angleParams_ok_wide a1 a2 a3 bo1 bo2 rules row2 h1 h2 h3 hb1 hb2
  exact ⟨res, e, hs⟩

/-- **dihedral_outcome.** For table centre types, multiplicity ≥ 1 and a positive bond order `dihedral_params`
    returns parameters carrying the case's `d` and `n`, or `None`, or raises "unsupported", exactly as the case
    analysis (`torsion_case_symm`) says. -/
theorem dihedral_outcome (a1 a2 a3 a4 : String) (mult : Nat) (bo : Option Rat) (rules : List (List String × Rat))
    (h2 : IsType a2) (h3 : IsType a3) (hm : 1 ≤ mult) (hb : 0 < bondOrderOf a2 a3 bo rules) :
    match (torsionCase a1 a2 a3 a4).kind with
    | .defined => ∃ (k : ℝ) (d : Int) (n : Nat),
        dihedralParams (α := ℝ) uff4mof a1 a2 a3 a4 mult bo rules = .ok (some (k, d, n))
        ∧ (torsionCase a1 a2 a3 a4).d = some d ∧ (torsionCase a1 a2 a3 a4).n = some n
    | .undefined => dihedralParams (α := ℝ) uff4mof a1 a2 a3 a4 mult bo rules = .ok none
    | .unsupported => dihedralParams (α := ℝ) uff4mof a1 a2 a3 a4 mult bo rules = .error "unsupported" :=
  dihedralParams_outcome a1 a2 a3 a4 mult bo rules h2 h3 hm hb

example : IsType "C_R" ∧ IsType "N_R" ∧ 0 < bondOrderOf "C_R" "N_R" none [] ∧ (torsionCase "H_" "C_R" "N_R" "C_3").kind = .defined := by
  decide +kernel

/-- **fourier_coeffs_finite** (stretch). Whenever the fourier form is selected for a table type, sin θ0 ≠ 0:
    the denominator `4 sin²θ0` of c2 (hence c1, c0) is positive. -/
theorem fourier_coeffs_finite (a2 : String) (row2 : List Dec) (h2 : lookup uff4mof a2 = some row2)
    (hs : angleStyle (colQ row2 1) a2 = .fourier) :
    0 < (int 4 : ℝ) * ElemFun.npow (ElemFun.sin (theta0rad (colR row2 1))) 2 := by
  have f := rowOkR_of_lookup a2 row2 h2
  have := List.all_eq_true.mp fourier_centres_lt_180 (a2, row2) (lookup_mem _ _ _ h2)
  simp only [hs, bne_self_eq_false, Bool.false_or, decide_eq_true_eq] at this
  have hlt : colR row2 1 < 180 := by unfold colR; exact_mod_cast this
  exact fourier_denominator_pos _ f.th_pos hlt

end Mofun.Uff
