/-
  C04Code5.lean — lines of `replace_pattern_in_structure` (mofun/mofun.py), re-translated from the python source text on
  every run by harness/gen_code.py (Generated/Code.lean, fifth batch) and tied to the model the C04 theorems are about
  (Model/Replace.lean, Proofs/ReplaceCount.lean):

    if replace_fraction < 1.0:                                   = the guard `f < 1` of `replaceSelected`
    k=round(replace_fraction * len(match_positions))             = `Py.round (f·M)`: a nearest integer (what `Selection` demands),
                                                                   the even one on a tie, `Cif.roundHalfEven` for f ≥ 0
-/
import MofunModel.Proofs.Code5Round
import MofunModel.Proofs.ReplaceCount

namespace Mofun.C04Code5
open Mofun Mofun.Generated Mofun.C04 Mofun.Code5Round
set_option linter.unusedSimpArgs false

theorem dec_one : Dec.toRat ⟨10, 1⟩ = 1 := by decide +kernel

/-! ### the replacement fraction -/

/-- for ALL fractions: the sample branch is taken iff `f < 1` — the guard of the model's `replaceSelected` -/
theorem replaceUsesSample_eq (f : Rat) : Code.replaceUsesSample f = decide (f < 1) := by
  unfold Code.replaceUsesSample
  simp only [dec_one, gt_iff_lt]

/-- the model's `replaceSelected` branches on the translated guard -/
theorem replaceSelected_guard (s p r : Atoms) (found : List PlacedMatch) (f : Rat) (sel : List Nat) (ra ig : Bool) :
    replaceSelected s p r found f sel ra ig =
      (replaceCore s p r (if Code.replaceUsesSample f = true then pick found sel else found) ra ig).map
        (fun res => (res, (if Code.replaceUsesSample f = true then pick found sel else found).length)) := by
  unfold replaceSelected
  simp only [replaceUsesSample_eq, decide_eq_true_eq]

/-- the default fraction 1.0 replaces every match -/
theorem default_fraction : Code.replaceSampleSize_default_replace_fraction = 1 ∧
    Code.replaceUsesSample Code.replaceUsesSample_default_replace_fraction = false := by
  constructor
  · exact dec_one
  · rw [replaceUsesSample_eq]; unfold Code.replaceUsesSample_default_replace_fraction; rw [dec_one]; decide

/-- for ALL fractions and match counts: the translated sample size is python's `round` of the product -/
theorem replaceSampleSize_eq (f : Rat) (M : Nat) : Code.replaceSampleSize f M = Py.round (f * (M : Rat)) := by
  unfold Code.replaceSampleSize
  congr 1
  try ring

/-- … hence A nearest integer to `f·M` (the clause of the model's `Selection`) -/
theorem replaceSampleSize_nearest (f : Rat) (M : Nat) :
    f * (M : Rat) - 1 / 2 ≤ (Code.replaceSampleSize f M : Rat) ∧ (Code.replaceSampleSize f M : Rat) ≤ f * (M : Rat) + 1 / 2 := by
  rw [replaceSampleSize_eq]; exact round_nearest _

/-- … the even one when `f·M` lies exactly between two integers (`round(2.5) = 2`, `round(3.5) = 4`) -/
theorem replaceSampleSize_tie_even (f : Rat) (M : Nat) (h : f * (M : Rat) - ((f * (M : Rat)).floor : Rat) = 1 / 2) :
    Code.replaceSampleSize f M % 2 = 0 := by
  rw [replaceSampleSize_eq]; exact round_tie_even _ h

/-- … and THE nearest integer otherwise -/
theorem replaceSampleSize_unique (f : Rat) (M : Nat) (k : Int) (h : f * (M : Rat) - ((f * (M : Rat)).floor : Rat) ≠ 1 / 2)
    (hlo : f * (M : Rat) - 1 / 2 ≤ (k : Rat)) (hhi : (k : Rat) ≤ f * (M : Rat) + 1 / 2) : Code.replaceSampleSize f M = k := by
  rw [replaceSampleSize_eq]; exact round_unique _ k h hlo hhi

/-- for a non-negative fraction it is the model's `roundHalfEven` (Model/Cif.lean) of the product -/
theorem replaceSampleSize_halfEven (f : Rat) (M : Nat) (hf : 0 ≤ f) :
    Code.replaceSampleSize f M = ((Cif.roundHalfEven (f * (M : Rat)) : Nat) : Int) := by
  rw [replaceSampleSize_eq]; exact round_eq_roundHalfEven _ (mul_nonneg hf (by exact_mod_cast Nat.zero_le M))

/-- for `0 ≤ f < 1` the sample size is a count `random.sample` accepts: between 0 and the number of matches -/
theorem replaceSampleSize_range (f : Rat) (M : Nat) (hf : 0 ≤ f) (h1 : f < 1) :
    0 ≤ Code.replaceSampleSize f M ∧ Code.replaceSampleSize f M ≤ (M : Int) := by
  have hM : (0 : Rat) ≤ (M : Rat) := by exact_mod_cast Nat.zero_le M
  refine ⟨by rw [replaceSampleSize_eq]; exact round_nonneg _ (mul_nonneg hf hM), ?_⟩
  have ⟨_, hi⟩ := replaceSampleSize_nearest f M
  have : f * (M : Rat) ≤ (M : Rat) := by nlinarith
  have h2 : (Code.replaceSampleSize f M : Rat) < ((M : Int) : Rat) + 1 := by push_cast; linarith
  have : Code.replaceSampleSize f M < (M : Int) + 1 := by exact_mod_cast h2
  omega

/-- **tie to the model.**  ANY list of `k = round(f·M)` distinct valid positions (what `random.sample(range(M), k)` returns)
    is a `Selection` in the sense of the C04 theorems (`replace_fraction`, `replace_reported_count`) -/
theorem replaceSampleSize_selection (M : Nat) (f : Rat) (sel : List Nat) (hnd : sel.Nodup) (hv : ∀ i ∈ sel, i < M)
    (hlen : (sel.length : Int) = Code.replaceSampleSize f M) : Selection M f sel := by
  have ⟨lo, hi⟩ := replaceSampleSize_nearest f M
  rw [← hlen] at lo hi
  exact ⟨hnd, hv, by simpa using lo, by simpa using hi⟩

/-- 5 matches, fraction 1/2: 2.5 rounds to 2 (even); 7 matches: 3.5 rounds to 4; 10 matches, fraction 3/10: 3 -/
example : Code.replaceSampleSize (1 / 2) 5 = 2 := by decide +kernel
example : Code.replaceSampleSize (1 / 2) 7 = 4 := by decide +kernel
example : Code.replaceSampleSize (3 / 10) 10 = 3 := by decide +kernel
example : Code.replaceSampleSize (2 / 3) 4 = 3 := by decide +kernel
example : Selection 5 (1 / 2) [4, 1] :=
  replaceSampleSize_selection 5 (1 / 2) [4, 1] (by decide) (by decide) (by decide +kernel)

end Mofun.C04Code5
