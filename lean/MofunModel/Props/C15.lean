/-
  C15 — P1 CIF files round-trip.
  Property theorems only (helper lemmas: Proofs/CifLemmas.lean, Proofs/CifRoundtrip.lean).  Model: Model/Cif.lean
  (`saveCif` = Atoms.save_p1_cif up to the PyCifRW block, `loadCif` = Atoms.load_p1_cif from the block PyCifRW read,
  `normCif` = what the round trip is supposed to return).  Opaque parameters (not modelled): `Env.cellpar`
  (cell_abc_alpha_beta_gamma + number printing), `Env.reprQ` (str(float)), `LoadEnv.cellOf` (cellpar_to_cell),
  `LoadEnv.massOf` (ATOMIC_MASSES).
-/
import MofunModel.Proofs.CifIdem

namespace Mofun.Cif
open Mofun

/-! ## core -/

/-- **cif_roundtrip** (block level).  For every structure that `save_p1_cif` writes, reading the written block back
    gives `normCif`: the same atoms in the same order (types renumbered by first occurrence of the element),
    the same charges, every extra atom / bond / angle / torsion column, bonds, angles and torsions (dihedrals followed
    by impropers) between the same atoms with placeholder types, the re-read cell, and coordinates equal to the
    printed 4-decimal numbers — fractional ones wrapped into [0,1) and laid out in the re-read cell.
    Guards (all decidable): element names do not end in a digit (labels would collide), no extra column uses a data
    name the reader interprets, the float printing of the charges reads back, every element has a mass, the six
    cell items read back as a cell.  That `saveCif` succeeds already contains: at least one atom, type ids in range,
    rows as wide as their label lists, 2/3/4 atoms per term with indices in range, a non-singular cell for fractional
    output, pairwise distinct data names, and NOT (impropers together with extra dihedral columns). -/
theorem cif_roundtrip (env : Env) (lenv : LoadEnv) (a : Atoms) (useFract : Bool) (b : Block)
    (hsave : saveCif env a useFract = .ok b)
    (hlab : ∀ r ∈ a.atoms, endsWithDigit (elemOf a r) = false)
    (hextra : extraLabelsOk a = true)
    (hq : ∀ r ∈ a.atoms, tofloat (env.reprQ r.charge) = some r.charge)
    (hmass : ∀ r ∈ a.atoms, (lenv.massOf (elemOf a r)).isSome = true)
    (hcell : ∀ c, a.cell = some c → (lenv.cellOf ((env.cellpar c).toList.map stripSu)).isSome = true) :
    loadCif lenv b = .ok (normCif env lenv a useFract) :=
  cif_roundtrip_aux env lenv a useFract b hsave hlab hextra hq hmass hcell

/-- what `normCif` keeps, spelled out: order, elements, charges, extra atom columns; terms between the same atoms in
    the same order (torsions = dihedrals ++ impropers) with their extra columns. -/
theorem cif_roundtrip_content (env : Env) (lenv : LoadEnv) (a : Atoms) (useFract : Bool)
    :
    let n := normCif env lenv a useFract
    n.atoms.map (fun r => n.typeElems.getD r.ty "") = elementsOf a ∧
    n.atoms.map (·.charge) = a.atoms.map (·.charge) ∧
    n.atoms.map (·.extra) = a.atoms.map (·.extra) ∧
    n.bonds.terms.map (fun t => (t.atoms, t.extra)) = a.bonds.terms.map (fun t => (t.atoms, t.extra)) ∧
    n.angles.terms.map (fun t => (t.atoms, t.extra)) = a.angles.terms.map (fun t => (t.atoms, t.extra)) ∧
    n.dihedrals.terms.map (·.atoms) = (a.dihedrals.terms ++ a.impropers.terms).map (·.atoms) ∧
    ((∀ t ∈ a.impropers.terms, t.extra = []) →
      n.dihedrals.terms.map (·.extra) = (a.dihedrals.terms ++ a.impropers.terms).map (·.extra)) := by

  have hren : ∀ (ts : List Term) (xl : List String) {β} (f : Term → β) (_ : ∀ t k, f { t with ty := k } = f t),
      (normTable ts xl).terms.map f = ts.map f := by
    intro ts xl β f hf
    have hr : (renumber ts).map f = ts.map f := by
      unfold renumber
      apply List.ext_getElem
      · simp
      · intro i h1 h2
        simp only [List.getElem_map, List.getElem_mapIdx]
        exact hf _ _
    cases ts with
    | nil => rfl
    | cons t ts => simpa [normTable] using hr
  have hdedup : ∀ r ∈ a.atoms,
      (dedup (elementsOf a)).getD ((indexOf? (dedup (elementsOf a)) (elemOf a r)).getD 0) "" = elemOf a r := by
    intro r hr
    have hm : elemOf a r ∈ dedup (elementsOf a) := (mem_dedup _ _).mpr (List.mem_map.mpr ⟨r, hr, rfl⟩)
    cases h : indexOf? (dedup (elementsOf a)) (elemOf a r) with
    | none => exact absurd hm ((indexOf?_none_iff _ _).mp h)
    | some j =>
      obtain ⟨hj, e⟩ := indexOf?_lt _ _ _ h
      simp [List.getD, List.getElem?_eq_getElem hj, e]
  refine ⟨?_, ?_, ?_, ?_, ?_, ?_, ?_⟩
  · simp only [normCif, List.map_map, elementsOf]
    apply List.map_congr_left
    intro r hr
    exact hdedup r hr
  · simp [normCif, List.map_map, Function.comp_def]
  · simp [normCif, List.map_map, Function.comp_def]
  · exact hren _ _ _ (fun _ _ => rfl)
  · exact hren _ _ _ (fun _ _ => rfl)
  · simp only [normCif]
    rw [hren _ _ _ (fun _ _ => rfl)]
    simp [List.map_append, List.map_map, Function.comp_def]
  · intro himp
    simp only [normCif]
    rw [hren _ _ _ (fun _ _ => rfl)]
    simp only [List.map_append, List.map_map, Function.comp_def]
    congr 1
    apply List.map_congr_left
    intro t ht
    exact (himp t ht).symm

/-- the coordinates after the round trip, fractional output: each re-read fractional coordinate is the printed
    number reduced modulo 1 — in [0,1), differing from the printed number by an integer, and the printed number is
    within 0.5·10⁻⁴ of the coordinate that was written. -/
theorem cif_roundtrip_coord (x : Rat) :
    0 ≤ fracPart (fix4 x) ∧ fracPart (fix4 x) < 1 ∧ (∃ k : Int, fracPart (fix4 x) - fix4 x = (k : Rat)) ∧
    fix4 x - x ≤ 1 / 20000 ∧ x - fix4 x ≤ 1 / 20000 ∧ parseFloat (fmt4 x) = some (fix4 x) := by
  refine ⟨fracPart_nonneg _, fracPart_lt_one _, ⟨_, fracPart_sub_int _⟩, (fix4_close x).1, (fix4_close x).2, ?_⟩
  simp [parseFloat, fmt4, String.toList_ofList, parse_fmt4]

/-- **charge_su.**  The charges are read through the same `tofloat` as the coordinates: when the block has a charge
    column, the charges of the structure read are the numbers of that column with every `(digits)` group removed
    (`0.5(1)` ↦ 0.5).  Entries that are not numbers (`?`, `.`) make the read fail, as for coordinates. -/
theorem charge_su (lenv : LoadEnv) (b : Block) (r : Atoms)
    (hhas : b.has chargeTag = true) (h : loadCif lenv b = .ok r) :
    ∃ cs, b.col? chargeTag = some cs ∧ allSome (cs.map tofloat) = some (r.atoms.map (·.charge)) :=
  charge_su_aux lenv b r hhas h

/-- a number followed by one standard-uncertainty group reads as the number, for coordinates and charges alike -/
theorem tofloat_strips_su (pre d : List Char) (hp : '(' ∉ pre) (hne : d ≠ []) (hd : ∀ c ∈ d, c.isDigit = true) :
    tofloat (String.ofList (pre ++ '(' :: (d ++ [')']))) = parseFloatL pre :=
  tofloat_su pre d hp hne hd

/-- **p1_reject_iff.**  `load_p1_cif` refuses a block as non-P1 exactly when the H-M item is present and its value is
    neither `P1` nor `P 1` (a looped item is refused as well: a list is never equal to a string). -/
theorem p1_reject_iff (lenv : LoadEnv) (b : Block) :
    loadCif lenv b = .error (.reject "non-P1") ↔
      ∃ v, b.get? hmTag = some v ∧ v ≠ Val.single "P1" ∧ v ≠ Val.single "P 1" := by
  unfold loadCif
  by_cases h : rejectsP1 b = true
  · simp only [h, if_true, true_iff]
    unfold rejectsP1 at h
    cases hv : b.get? hmTag with
    | none => simp [hv] at h
    | some v =>
      refine ⟨v, rfl, ?_, ?_⟩ <;> (intro e; subst e; simp [hv] at h)
  · simp only [h]
    constructor
    · intro hl
      cases hb : loadBody lenv b <;> simp [hb] at hl
    · rintro ⟨v, hv, h1, h2⟩
      exfalso; apply h
      simp [rejectsP1, hv, h1, h2]

/-- the only way `load_p1_cif` rejects (as opposed to failing on a malformed block) is the P1 check -/
theorem reject_only_p1 (lenv : LoadEnv) (b : Block) (w : String) (h : loadCif lenv b = .error (.reject w)) :
    w = "non-P1" := by
  unfold loadCif at h
  split at h
  · cases h; rfl
  · cases hb : loadBody lenv b <;> simp [hb] at h

/-- **wrap_frac_range.**  `x % 1.0`: in [0,1), and it differs from `x` by an integer. -/
theorem wrap_frac_range (x : Rat) :
    0 ≤ fracPart x ∧ fracPart x < 1 ∧ ∃ k : Int, fracPart x - x = (k : Rat) :=
  ⟨fracPart_nonneg x, fracPart_lt_one x, ⟨_, fracPart_sub_int x⟩⟩

/-- **label_unique.**  The generated labels element + running count are pairwise distinct, for any list of
    elements, provided no element name ends in a digit. -/
theorem label_unique (els : List String) (h : ∀ e ∈ els, endsWithDigit e = false) : (labels els).Nodup :=
  labels_nodup els h

/-- the guard is needed: with an element called `C1` next to eleven `C` the labels collide ("C1"+"1" = "C"+"11") -/
theorem label_collision : ¬ (labels ("C1" :: List.replicate 11 "C")).Nodup := by decide

/-- labels resolve back to the atom they were generated for (`atom_name.index(label)` = first occurrence) -/
theorem label_resolves (els : List String) (h : ∀ e ∈ els, endsWithDigit e = false) (i : Nat)
    (hi : i < (labels els).length) : indexOf? (labels els) (labels els)[i] = some i :=
  indexOf?_getElem _ (labels_nodup els h) i hi

/-! ## non-vacuity of the guards: a concrete structure (triclinic cell, atoms outside the cell and on its boundary,
     every term kind, extra atom and bond columns, charges, an s.u. in a cell item) -/

def exCell : Mat3 := ⟨⟨10, 0, 0⟩, ⟨1, 10, 0⟩, ⟨0, 2, 10⟩⟩
def exAtoms : Atoms :=
  { atoms := [⟨0, ⟨1, 2, 3⟩, 0, 0, ["1.0"]⟩, ⟨1, ⟨23 / 2, 0, -1 / 4⟩, 1 / 2, 1, ["0.5"]⟩, ⟨0, ⟨0, 0, 0⟩, -1 / 4, 0, ["x y"]⟩,
              ⟨1, ⟨5, 12, 10⟩, 0, 0, ["?"]⟩]
    bonds := ⟨[⟨[0, 1], 3, ["1.09"]⟩, ⟨[2, 3], 0, ["1.10"]⟩], ["b0", "b1", "b2", "b3"], ["_geom_bond_distance"]⟩
    angles := ⟨[⟨[0, 1, 2], 0, []⟩], [], []⟩
    dihedrals := ⟨[⟨[0, 1, 2, 3], 0, []⟩], [], []⟩
    impropers := ⟨[⟨[3, 2, 1, 0], 0, []⟩], [], []⟩
    typeElems := ["C", "H"], typeLabels := ["C_1", "H_2"], typeMasses := [12, 1], pairCoeffs := []
    xlabels := ["_atom_site_occupancy"], cell := some exCell }
def exEnv : Env :=
  { reprQ := fun q => if q = 0 then "0.0" else if q = 1 / 2 then "0.5" else "-0.25"
    cellpar := fun _ => ⟨"10.0", "10.04987562112089(3)", "10.198039027185569", "78.6901", "90.0000", "84.2894"⟩ }
def exLoad : LoadEnv := { cellOf := fun _ => some exCell, massOf := fun e => if e = "C" then some 12 else some 1 }

def isOk {α} : Except Err α → Bool
  | .ok _ => true
  | .error _ => false

/-- the guards of `cif_roundtrip` hold for the example, in both output modes -/
example : isOk (saveCif exEnv exAtoms true) = true ∧ isOk (saveCif exEnv exAtoms false) = true := by decide +kernel
example : ∀ r ∈ exAtoms.atoms, endsWithDigit (elemOf exAtoms r) = false := by decide +kernel
example : extraLabelsOk exAtoms = true := by decide +kernel
example : ∀ r ∈ exAtoms.atoms, tofloat (exEnv.reprQ r.charge) = some r.charge := by decide +kernel
example : ∀ r ∈ exAtoms.atoms, (exLoad.massOf (elemOf exAtoms r)).isSome = true := by decide +kernel
example : ∀ c, exAtoms.cell = some c → (exLoad.cellOf ((exEnv.cellpar c).toList.map stripSu)).isSome = true :=
  fun _ _ => rfl
/-- … so the theorem applies to it -/
example (b : Block) (h : saveCif exEnv exAtoms true = .ok b) :
    loadCif exLoad b = .ok (normCif exEnv exLoad exAtoms true) :=
  cif_roundtrip exEnv exLoad exAtoms true b h (by decide +kernel) (by decide +kernel) (by decide +kernel)
    (by decide +kernel) (fun _ _ => rfl)
/-- the example is not in the cell: the second atom's first fractional coordinate is printed as 1.1495 and re-read
    as 0.1495; the fourth atom sits exactly on the boundary (printed 1.0000, re-read 0) -/
example : (saveCif exEnv exAtoms true).toOption.bind (fun b => b.col? "_atom_site_fract_x")
    = some ["0.0860", "1.1495", "0.0000", "0.4000"] := by decide +kernel
example : fracPart (fix4 (2299 / 2000)) = 299 / 2000 ∧ fracPart (fix4 1) = 0 := by decide +kernel
/-- the P1 check on concrete blocks: 'F m -3 m' is refused, 'P1' and 'P 1' and a missing item are not -/
example : loadCif exLoad [.item hmTag "F m -3 m"] = .error (.reject "non-P1") := by decide +kernel
example : loadCif exLoad [.item hmTag "P1"] ≠ .error (.reject "non-P1")
    ∧ loadCif exLoad [.item hmTag "P 1"] ≠ .error (.reject "non-P1")
    ∧ loadCif exLoad [] ≠ .error (.reject "non-P1") := by decide +kernel
/-- charges with standard uncertainties are read; `?` is not a number -/
example : (loadCif { cellOf := fun _ => none, massOf := fun _ => some 12 }
    [.loop ["_atom_site_label", "_atom_site_type_symbol", "_atom_site_cartn_x", "_atom_site_cartn_y", "_atom_site_cartn_z",
            "_atom_site_charge"]
       [["C1", "C", "1", "2", "3", "0.5(1)"], ["C2", "C", "4", "5", "6", "-1.25e-1(12)"]]]).toOption.map
      (fun r => r.atoms.map (·.charge)) = some [1 / 2, -1 / 8] := by decide +kernel
example : loadCif { cellOf := fun _ => none, massOf := fun _ => some 12 }
    [.loop ["_atom_site_label", "_atom_site_type_symbol", "_atom_site_cartn_x", "_atom_site_cartn_y", "_atom_site_cartn_z",
            "_atom_site_charge"] [["C1", "C", "1", "2", "3", "?"]]] = .error .domain := by decide +kernel
/-- saving refuses impropers together with extra dihedral columns (PyCifRW: columns of different lengths) -/
example : saveCif exEnv { exAtoms with dihedrals := ⟨[⟨[0, 1, 2, 3], 0, ["55.5"]⟩], [], ["_geom_torsion"]⟩ } true
    = .error (.reject "looplength") := by decide +kernel

/-! ## stretch -/

/-- **strip_su.**  `re.sub(r"\(\d+\)", "", s)`: a complete `(digits)` group after a parenthesis-free prefix
    disappears and stripping continues behind it; strings without `(` are unchanged. -/
theorem strip_su (pre d post : List Char) (hp : '(' ∉ pre) (hne : d ≠ []) (hd : ∀ c ∈ d, c.isDigit = true) :
    stripSuL (pre ++ '(' :: (d ++ ')' :: post)) = pre ++ stripSuL post ∧
    (∀ s, '(' ∉ s → stripSuL s = s) :=
  ⟨stripSuL_group pre d post hp hne hd, stripSuL_id⟩

theorem strip_su_example : stripSu "1.234(5)" = "1.234" ∧ tofloat "0.1234(5)" = some (617 / 5000) := by decide +kernel

/-- stripping is idempotent on every string whose stripped form has no `(` left — in particular (`SuForm`) on
    strings made of parenthesis-free characters and complete groups, i.e. numbers with standard uncertainties. -/
theorem strip_su_idem (s : List Char) (h : '(' ∉ stripSuL s) : stripSuL (stripSuL s) = stripSuL s :=
  stripSuL_idem s h

theorem strip_su_idem_form (s : List Char) (h : SuForm s) : stripSuL (stripSuL s) = stripSuL s :=
  stripSuL_idem s (stripSuL_noparen_of_form s h)

/-- without the guard idempotence fails (nested parentheses): the regex semantics, not a defect -/
theorem strip_su_not_idem : stripSu "((1)2)" = "(2)" ∧ stripSu "(2)" = "" := by decide +kernel

example : SuForm "0.1234(5)".toList :=
  .char _ _ (by decide) (.char _ _ (by decide) (.char _ _ (by decide) (.char _ _ (by decide) (.char _ _ (by decide)
    (.char _ _ (by decide) (.group ['5'] [] (by decide) (by decide) .nil))))))

/-- **cartn_branch.**  When the three Cartesian tags and the label tag are present the reader uses them — whether
    or not fractional tags and a cell are present too — and the positions of the result are exactly the numbers read
    from those columns: not wrapped, not multiplied by the cell. -/
theorem cartn_branch (lenv : LoadEnv) (b : Block) (r : Atoms)
    (hall : b.hasAll (cartnTags ++ [labelTag]) = true) (h : loadCif lenv b = .ok r) :
    coordChoice b = some (false, cartnTags) ∧ ∃ raw, readCoords b = some (false, raw) ∧ r.atoms.map (·.pos) = raw :=
  cartn_branch_aux lenv b r hall h

/-- a block with BOTH tag families, a cell and a coordinate outside the cell: the Cartesian numbers come back -/
example : (loadCif exLoad
    [.item "_cell_length_a" "10", .item "_cell_length_b" "10", .item "_cell_length_c" "10",
     .item "_cell_angle_alpha" "90", .item "_cell_angle_beta" "90", .item "_cell_angle_gamma" "90",
     .loop ["_atom_site_label", "_atom_site_type_symbol", "_atom_site_fract_x", "_atom_site_fract_y", "_atom_site_fract_z",
            "_atom_site_cartn_x", "_atom_site_cartn_y", "_atom_site_cartn_z"]
       [["C1", "C", "0.5", "0.5", "0.5", "-3.25(2)", "14.5", "0.125"]]]).toOption.map (fun r => r.atoms.map (·.pos))
    = some [⟨-13 / 4, 29 / 2, 1 / 8⟩] := by decide +kernel

/-- **cif_save_idempotent** (block level): W(load(W(a))) = W(load(W(load(W(a))))), and the two re-read structures are
    equal.  `hstable` is an assumption on the functions that are not modelled (cell parameters of the re-read cell,
    printed and read back, give that cell again; it is non-singular) — see `level_text`: for triclinic cells the real
    float code violates it in the last digit of `_cell_length_b/c`. -/
theorem cif_save_idempotent (env : Env) (lenv : LoadEnv) (a a1 a2 : Atoms) (fr : Bool) (b1 b2 b3 : Block)
    (h1 : saveCif env a fr = .ok b1) (h2 : loadCif lenv b1 = .ok a1)
    (h3 : saveCif env a1 fr = .ok b2) (h4 : loadCif lenv b2 = .ok a2)
    (h5 : saveCif env a2 fr = .ok b3)
    (hlab : ∀ r ∈ a.atoms, endsWithDigit (elemOf a r) = false)
    (hextra : extraLabelsOk a = true)
    (hq : ∀ r ∈ a.atoms, tofloat (env.reprQ r.charge) = some r.charge)
    (hmass : ∀ r ∈ a.atoms, (lenv.massOf (elemOf a r)).isSome = true)
    (hcell : ∀ c, a.cell = some c → (lenv.cellOf ((env.cellpar c).toList.map stripSu)).isSome = true)
    (hstable : ∀ c c', a.cell = some c → lenv.cellOf ((env.cellpar c).toList.map stripSu) = some c' →
      lenv.cellOf ((env.cellpar c').toList.map stripSu) = some c' ∧ c'.det ≠ 0) :
    b3 = b2 ∧ a2 = a1 :=
  cif_save_idempotent_aux env lenv a a1 a2 fr b1 b2 b3 h1 h2 h3 h4 h5 hlab hextra hq hmass hcell hstable

/-- the example satisfies the stability assumption, and its second writing exists -/
example : ∀ c c', exAtoms.cell = some c → exLoad.cellOf ((exEnv.cellpar c).toList.map stripSu) = some c' →
    exLoad.cellOf ((exEnv.cellpar c').toList.map stripSu) = some c' ∧ c'.det ≠ 0 := by
  intro c c' _ h
  have : c' = exCell := by simpa [exLoad] using h.symm
  subst this
  exact ⟨rfl, by decide +kernel⟩
example : isOk (saveCif exEnv (normCif exEnv exLoad exAtoms true) true) = true := by decide +kernel

/-- printing side of idempotence: a wrapped printed coordinate prints as itself (`0.dddd`), whatever was written -/
theorem wrapped_coordinate_stable (x : Rat) :
    fix4 (fracPart (fix4 x)) = fracPart (fix4 x) ∧ fracPart (fracPart (fix4 x)) = fracPart (fix4 x) :=
  ⟨fix4_fracPart_fix4 x, fracPart_fracPart _⟩

end Mofun.Cif
