/-
  C02 (extension) — the rotation construction of the pattern search is RIGHT, over ℝ.
  Property-level theorems + non-vacuity examples only (lemmas: Proofs/QuatReal.lean, QuatRealAxis.lean,
  QuatRealAlign.lean).  Model: Model/QuatHelpers.lean — ONE generic definition of each helper over `QNum α`; the
  theorems below are about the `ℝ` instance (`Real.arccos/sqrt/sin/cos`, classical comparisons), the driver
  (`drivers/Quat.lean`) runs the `Float` instance against the real code.

  What this replaces: completeness (C02/C03) is proved under the hypothesis `OracleAligns` ("the quaternion the code
  builds passes the final np.allclose re-check").  For EXACT rigid copies and exact real arithmetic that hypothesis is
  now a theorem about the construction itself (`two_step_aligns`, `recheck_exact`): the re-check sees error 0.
-/
import MofunModel.Proofs.QuatRealAlign
import MofunModel.Proofs.QuatRealFarthest

namespace Mofun.QuatH
open Mofun.Uff Mofun.Uff.ElemFun QNum

/-! ## (a), (b): `quaternion_from_two_vectors` -/

/-- **(a)** For non-zero `p1`, `p2` outside the code's degenerate branch (`np.isclose(cross, 0, 1e-3).all() and
    angle != 0.0` is false — exactly the negation of the branch condition), the rotation of
    `quaternion_from_two_vectors(p1, p2)` carries `p1/‖p1‖` onto `p2/‖p2‖`; the quaternion has norm 1.
    The random vector `rv` plays no role. -/
theorem quat_from_two_vectors_maps (rv p1 p2 : V3 ℝ) (h1 : V3.norm p1 ≠ 0) (h2 : V3.norm p2 ≠ 0)
    (hdeg : qftvDegenerate p1 p2 = false) :
    rotR (quaternionFromTwoVectors rv p1 p2) (unitOf p1) = unitOf p2 ∧
      Q4.normSq (quaternionFromTwoVectors rv p1 p2) = 1 :=
  ⟨qftv_maps rv p1 p2 h1 h2 hdeg, qftv_unit rv p1 p2 h1 h2 hdeg⟩

/-- the exactly antiparallel case (the branch that draws `np.random.random(3)`): right as well, provided the drawn
    vector is not along `p1` -/
theorem quat_from_two_vectors_antiparallel (rv p1 p2 : V3 ℝ) (h1 : V3.norm p1 ≠ 0)
    (hanti : unitOf p2 = V3.neg (unitOf p1)) (hrv : (1 : ℝ) / 10 ^ 15 < V3.norm (V3.cross (unitOf p1) rv)) :
    rotR (quaternionFromTwoVectors rv p1 p2) (unitOf p1) = unitOf p2 ∧
      Q4.normSq (quaternionFromTwoVectors rv p1 p2) = 1 :=
  qftv_antiparallel rv p1 p2 h1 hanti hrv

theorem norm_smul_pos (t : ℝ) (p : V3 ℝ) (ht : 0 < t) : V3.norm (V3.smul t p) = t * V3.norm p := by
  rw [norm_real, norm_real]
  simp only [V3.smul]
  rw [show t * p.x * (t * p.x) + t * p.y * (t * p.y) + t * p.z * (t * p.z)
      = (t * t) * (p.x * p.x + p.y * p.y + p.z * p.z) by ring,
    Real.sqrt_mul (mul_self_nonneg t), Real.sqrt_mul_self ht.le]

/-- **(b) the parallel case.** `p2 = t·p1`, `t > 0`: the angle is 0 and after the code's arithmetic the result is the
    identity quaternion `(0, 0, 0, 1)` — whatever axis the cross product left behind. -/
theorem quat_from_two_vectors_parallel (rv p1 : V3 ℝ) (t : ℝ) (h1 : V3.norm p1 ≠ 0) (ht : 0 < t) :
    quaternionFromTwoVectors rv p1 (V3.smul t p1) = ⟨0, 0, 0, 1⟩ ∧
      ∀ v, rotR (quaternionFromTwoVectors rv p1 (V3.smul t p1)) v = v := by
  have hu : unitOf (V3.smul t p1) = unitOf p1 := by
    unfold unitOf
    rw [norm_smul_pos t p1 ht]
    obtain ⟨x, y, z⟩ := p1
    simp only [V3.smul, V3.divs, V3.mk.injEq]
    have := ht.ne'
    refine ⟨?_, ?_, ?_⟩ <;> field_simp
  have h2 : V3.norm (V3.smul t p1) ≠ 0 := by rw [norm_smul_pos t p1 ht]; exact mul_ne_zero ht.ne' h1
  have hθ : angleOf p1 (V3.smul t p1) = 0 := by
    rw [angleOf_eq p1 _ h1 h2, hu, unitOf_dot_self p1 h1, Real.arccos_one]
  have hq := qftv_angle_zero rv p1 (V3.smul t p1) hθ
  exact ⟨hq, fun v => by rw [hq, rotR_identity]⟩

/-! ## (c): `quaternion_from_two_vectors_around_axis` -/

/-- **(c)** axis longer than the 1e-15 of the normalisation guard, `p1`, `p2` off the axis: the rotation FIXES the axis
    and carries the normalised projection of `p1` orthogonal to the axis onto that of `p2`; unit quaternion.  The
    code's sign decision needs no excluded window in exact arithmetic (`cross/‖cross‖` is exactly `± axis/‖axis‖`). -/
theorem quat_around_axis_spec (p1 p2 axis : V3 ℝ) (ha : (1 : ℝ) / 10 ^ 15 < V3.norm axis)
    (h1 : V3.norm (projectOff p1 axis) ≠ 0) (h2 : V3.norm (projectOff p2 axis) ≠ 0) :
    rotR (quaternionFromTwoVectorsAroundAxis p1 p2 axis) axis = axis ∧
    rotR (quaternionFromTwoVectorsAroundAxis p1 p2 axis) (unitOf (projectOff p1 axis)) = unitOf (projectOff p2 axis) ∧
    Q4.normSq (quaternionFromTwoVectorsAroundAxis p1 p2 axis) = 1 :=
  qftvaa_spec p1 p2 axis ha h1 h2

/-! ## (d): the candidate loop on an exact rigid copy -/

/-- **(d) two_step_aligns** (more than two atoms) — see `Proofs/QuatRealAlign.lean` for the statement in words. -/
theorem match_quat_aligns (rv : V3 ℝ) (tp ap : List (V3 ℝ)) (ax1 ax2 op : Nat) (M : M3) (t : V3 ℝ)
    (hM : M.IsProper) (hcopy : ExactCopy M t tp ap) (hlen : 2 < tp.length)
    (h1 : ax1 < tp.length) (h2 : ax2 < tp.length) (h3 : op < tp.length)
    (h0 : getV tp ax1 = ⟨0, 0, 0⟩)
    (hs : (1 : ℝ) / 10 ^ 15 < V3.norm (getV tp ax2))
    (ho : V3.norm (projectOff (getV tp op) (getV tp ax2)) ≠ 0)
    (hfirst : FirstStepOk rv (getV tp ax2) (M.mulVec (getV tp ax2))) :
    Q4.normSq (matchQuat rv tp ap ax1 ax2 op) = 1 ∧
    ∀ i, i < tp.length → rotR (matchQuat rv tp ap ax1 ax2 op) (getV tp i) = V3.sub (getV ap i) (getV ap ax1) :=
  two_step_aligns rv tp ap ax1 ax2 op M t hM hcopy hlen h1 h2 h3 h0 hs ho hfirst

theorem getV_map (f : V3 ℝ → V3 ℝ) (l : List (V3 ℝ)) (i : Nat) (hi : i < l.length) :
    getV (l.map f) i = f (getV l i) := by
  unfold getV
  simp only [List.getD_eq_getElem?_getD, List.getElem?_map, List.getElem?_eq_getElem hi, Option.map_some,
    Option.getD_some]

/-- **the final re-check sees error 0**: the positions the code compares the candidate with
    (`q.apply(pattern.positions)` moved to `atom_positions[axisp1_idx]`) ARE the candidate's positions. -/
theorem recheck_exact (rv : V3 ℝ) (tp ap : List (V3 ℝ)) (ax1 ax2 op : Nat) (M : M3) (t : V3 ℝ)
    (hM : M.IsProper) (hcopy : ExactCopy M t tp ap) (hlen : 2 < tp.length)
    (h1 : ax1 < tp.length) (h2 : ax2 < tp.length) (h3 : op < tp.length)
    (h0 : getV tp ax1 = ⟨0, 0, 0⟩)
    (hs : (1 : ℝ) / 10 ^ 15 < V3.norm (getV tp ax2))
    (ho : V3.norm (projectOff (getV tp op) (getV tp ax2)) ≠ 0)
    (hfirst : FirstStepOk rv (getV tp ax2) (M.mulVec (getV tp ax2))) :
    ∀ i, i < tp.length → getV (checkPositions (matchQuat rv tp ap ax1 ax2 op) tp ap ax1) i = getV ap i := by
  intro i hi
  obtain ⟨_, hall⟩ := two_step_aligns rv tp ap ax1 ax2 op M t hM hcopy hlen h1 h2 h3 h0 hs ho hfirst
  unfold checkPositions
  rw [getV_map _ _ _ hi, applyRot_eq_rotR, hall i hi]
  generalize getV ap i = a
  generalize getV ap ax1 = b
  obtain ⟨x, y, z⟩ := a
  obtain ⟨bx, by', bz⟩ := b
  simp only [V3.add, V3.sub, V3.mk.injEq]
  refine ⟨?_, ?_, ?_⟩ <;> ring

/-- **(d), two atoms**: only step one is needed. -/
theorem match_quat_aligns_two (rv : V3 ℝ) (tp ap : List (V3 ℝ)) (ax1 ax2 op : Nat) (M : M3) (t : V3 ℝ)
    (hM : M.IsProper) (hcopy : ExactCopy M t tp ap) (hlen : tp.length = 2)
    (h1 : ax1 < 2) (h2 : ax2 < 2) (hne : ax1 ≠ ax2)
    (h0 : getV tp ax1 = ⟨0, 0, 0⟩) (hs : V3.norm (getV tp ax2) ≠ 0)
    (hfirst : FirstStepOk rv (getV tp ax2) (M.mulVec (getV tp ax2))) :
    Q4.normSq (matchQuat rv tp ap ax1 ax2 op) = 1 ∧
    ∀ i, i < tp.length → rotR (matchQuat rv tp ap ax1 ax2 op) (getV tp i) = V3.sub (getV ap i) (getV ap ax1) :=
  two_atoms_align rv tp ap ax1 ax2 op M t hM hcopy hlen h1 h2 hne h0 hs hfirst

/-- **(d), one atom**: the identity. -/
theorem match_quat_aligns_one (rv : V3 ℝ) (p a : V3 ℝ) (ax1 ax2 op : Nat) (h0 : getV [p] ax1 = ⟨0, 0, 0⟩)
    (h1 : ax1 < 1) :
    matchQuat rv [p] [a] ax1 ax2 op = ⟨0, 0, 0, 1⟩ ∧
    ∀ i, i < 1 → rotR (matchQuat rv [p] [a] ax1 ax2 op) (getV [p] i) = V3.sub (getV [a] i) (getV [a] ax1) :=
  one_atom_align rv p a ax1 ax2 op h0 h1

/-! ## (e): `position_index_farthest_from_axis` -/

/-- **(e)** the helper returns the FIRST index maximising the squared distance from the axis -/
theorem farthest_from_axis_spec (rv axis : V3 ℝ) (positions : List (V3 ℝ)) (hne : positions ≠ [])
    (ha : V3.norm axis ≠ 0) (hfirst : FirstStepOk rv axis ⟨1, 0, 0⟩) :
    positionIndexFarthestFromAxis rv axis positions < positions.length ∧
    (∀ j, j < positions.length → distSqFromAxis axis (getV positions j)
        ≤ distSqFromAxis axis (getV positions (positionIndexFarthestFromAxis rv axis positions))) ∧
    (∀ j, j < positionIndexFarthestFromAxis rv axis positions → distSqFromAxis axis (getV positions j)
        < distSqFromAxis axis (getV positions (positionIndexFarthestFromAxis rv axis positions))) :=
  farthest_spec rv axis positions hne ha hfirst

/-! ## non-vacuity: concrete inputs that satisfy every hypothesis -/

theorem norm_ex : V3.norm (⟨1, 0, 0⟩ : V3 ℝ) = 1 := by rw [norm_real]; norm_num
theorem norm_ey : V3.norm (⟨0, 1, 0⟩ : V3 ℝ) = 1 := by rw [norm_real]; norm_num
theorem norm_ez : V3.norm (⟨0, 0, 1⟩ : V3 ℝ) = 1 := by rw [norm_real]; norm_num
theorem unitOf_ex : unitOf (⟨1, 0, 0⟩ : V3 ℝ) = ⟨1, 0, 0⟩ := by unfold unitOf; rw [norm_ex]; simp [V3.divs]
theorem unitOf_ey : unitOf (⟨0, 1, 0⟩ : V3 ℝ) = ⟨0, 1, 0⟩ := by unfold unitOf; rw [norm_ey]; simp [V3.divs]

/-- `(1,0,0)` and `(0,1,0)` are outside the degenerate branch -/
theorem ex_ey_not_degenerate : qftvDegenerate (⟨1, 0, 0⟩ : V3 ℝ) ⟨0, 1, 0⟩ = false := by
  unfold qftvDegenerate degenerateBranch
  rw [unitOf_ex, unitOf_ey]
  have : V3.allClose (V3.cross (⟨1, 0, 0⟩ : V3 ℝ) ⟨0, 1, 0⟩) (⟨n0, n0, n0⟩ : V3 ℝ) = false := by
    rw [Bool.eq_false_iff, Ne, allClose_zero_real]
    simp only [V3.cross]
    norm_num
  rw [this]; rfl

/-- (a) applies to a quarter turn -/
example (rv : V3 ℝ) : rotR (quaternionFromTwoVectors rv ⟨1, 0, 0⟩ ⟨0, 1, 0⟩) ⟨1, 0, 0⟩ = ⟨0, 1, 0⟩ := by
  have h := (quat_from_two_vectors_maps rv ⟨1, 0, 0⟩ ⟨0, 1, 0⟩ (by rw [norm_ex]; norm_num) (by rw [norm_ey]; norm_num)
    ex_ey_not_degenerate).1
  rwa [unitOf_ex, unitOf_ey] at h

/-- the antiparallel case applies to `(1,0,0) ↦ (−1,0,0)` with the drawn vector `(0,1,0)` -/
example : rotR (quaternionFromTwoVectors ⟨0, 1, 0⟩ ⟨1, 0, 0⟩ ⟨-1, 0, 0⟩) (unitOf ⟨1, 0, 0⟩) = unitOf ⟨-1, 0, 0⟩ := by
  have hn : V3.norm (⟨-1, 0, 0⟩ : V3 ℝ) = 1 := by rw [norm_real]; norm_num
  refine (quat_from_two_vectors_antiparallel ⟨0, 1, 0⟩ ⟨1, 0, 0⟩ ⟨-1, 0, 0⟩ (by rw [norm_ex]; norm_num) ?_ ?_).1
  · rw [unitOf_ex]; unfold unitOf; rw [hn]; simp [V3.divs, V3.neg]
  · rw [unitOf_ex]
    have : V3.cross (⟨1, 0, 0⟩ : V3 ℝ) ⟨0, 1, 0⟩ = ⟨0, 0, 1⟩ := by simp [V3.cross]
    rw [this, norm_ez]; norm_num

/-- (b) applies -/
example (rv : V3 ℝ) : quaternionFromTwoVectors rv ⟨1, 0, 0⟩ (V3.smul 3 ⟨1, 0, 0⟩) = ⟨0, 0, 0, 1⟩ :=
  (quat_from_two_vectors_parallel rv ⟨1, 0, 0⟩ 3 (by rw [norm_ex]; norm_num) (by norm_num)).1

theorem projectOff_ex_ez : projectOff (⟨1, 0, 0⟩ : V3 ℝ) ⟨0, 0, 1⟩ = ⟨1, 0, 0⟩ := by
  simp [projectOff, V3.dot, V3.sub, V3.smul]
theorem projectOff_ey_ez : projectOff (⟨0, 1, 0⟩ : V3 ℝ) ⟨0, 0, 1⟩ = ⟨0, 1, 0⟩ := by
  simp [projectOff, V3.dot, V3.sub, V3.smul]
theorem projectOff_ey_ex : projectOff (⟨0, 1, 0⟩ : V3 ℝ) ⟨1, 0, 0⟩ = ⟨0, 1, 0⟩ := by
  simp [projectOff, V3.dot, V3.sub, V3.smul]

/-- (c) applies: a quarter turn about z -/
example : rotR (quaternionFromTwoVectorsAroundAxis ⟨1, 0, 0⟩ ⟨0, 1, 0⟩ ⟨0, 0, 1⟩) ⟨1, 0, 0⟩ = (⟨0, 1, 0⟩ : V3 ℝ) := by
  have h := (quat_around_axis_spec ⟨1, 0, 0⟩ ⟨0, 1, 0⟩ ⟨0, 0, 1⟩ (by rw [norm_ez]; norm_num)
    (by rw [projectOff_ex_ez, norm_ex]; norm_num) (by rw [projectOff_ey_ez, norm_ey]; norm_num)).2.1
  rwa [projectOff_ex_ez, projectOff_ey_ez, unitOf_ex, unitOf_ey] at h

/-- (e) applies: axis along y (turned onto x by a quarter turn) -/
example (rv : V3 ℝ) : positionIndexFarthestFromAxis rv ⟨0, 1, 0⟩ [⟨0, 0, 0⟩, ⟨0, 1, 0⟩, ⟨1, 0, 0⟩] < 3 := by
  have hd : qftvDegenerate (⟨0, 1, 0⟩ : V3 ℝ) ⟨1, 0, 0⟩ = false := by
    unfold qftvDegenerate degenerateBranch
    rw [unitOf_ex, unitOf_ey]
    have : V3.allClose (V3.cross (⟨0, 1, 0⟩ : V3 ℝ) ⟨1, 0, 0⟩) (⟨n0, n0, n0⟩ : V3 ℝ) = false := by
      rw [Bool.eq_false_iff, Ne, allClose_zero_real]
      simp only [V3.cross]
      norm_num
    rw [this]; rfl
  exact (farthest_from_axis_spec rv ⟨0, 1, 0⟩ _ (by simp) (by rw [norm_ey]; norm_num) (Or.inl hd)).1

/-- a quarter turn about z as a matrix -/
def quarterZ : M3 := ⟨0, -1, 0, 1, 0, 0, 0, 0, 1⟩

theorem quarterZ_proper : quarterZ.IsProper := by
  constructor <;> simp [quarterZ, M3.det]

def tpEx : List (V3 ℝ) := [⟨0, 0, 0⟩, ⟨1, 0, 0⟩, ⟨0, 1, 0⟩]
def apEx : List (V3 ℝ) := [⟨5, 5, 5⟩, ⟨5, 6, 5⟩, ⟨4, 5, 5⟩]

theorem exactCopy_ex : ExactCopy quarterZ ⟨5, 5, 5⟩ tpEx apEx := by
  refine ⟨rfl, fun i hi => ?_⟩
  have : i = 0 ∨ i = 1 ∨ i = 2 := by simp [tpEx] at hi; omega
  rcases this with rfl | rfl | rfl <;>
    · simp only [getV, tpEx, apEx, quarterZ, M3.mulVec, V3.add, List.getD_cons_zero, List.getD_cons_succ, V3.mk.injEq]
      norm_num

/-- (d) applies: a three-atom pattern, its copy turned by a quarter turn about z and moved to (5,5,5) -/
example (rv : V3 ℝ) : ∀ i, i < 3 →
    rotR (matchQuat rv tpEx apEx 0 1 2) (getV tpEx i) = V3.sub (getV apEx i) (getV apEx 0) := by
  have hs : getV tpEx 1 = (⟨1, 0, 0⟩ : V3 ℝ) := rfl
  have ho : getV tpEx 2 = (⟨0, 1, 0⟩ : V3 ℝ) := rfl
  have hm : quarterZ.mulVec (⟨1, 0, 0⟩ : V3 ℝ) = ⟨0, 1, 0⟩ := by simp [quarterZ, M3.mulVec]
  exact (match_quat_aligns rv tpEx apEx 0 1 2 quarterZ ⟨5, 5, 5⟩ quarterZ_proper exactCopy_ex (by simp [tpEx])
    (by simp [tpEx]) (by simp [tpEx]) (by simp [tpEx]) rfl (by rw [hs, norm_ex]; norm_num)
    (by rw [hs, ho, projectOff_ey_ex, norm_ey]; norm_num)
    (Or.inl (by rw [hs, hm]; exact ex_ey_not_degenerate))).2

end Mofun.QuatH
