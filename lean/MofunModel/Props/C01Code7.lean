/-
  C01Code7.lean — seventh translator batch, the reported tuples (harness/gen_code.py, Generated/Code.lean), tied to the model:

    match_index_tuples_in_uc = [tuple([near_indices[m] % len(structure) for m in match]) for match in good_match_index_tuples]
        = for every chosen candidate, `t.map (· % n)` of the candidate written as indices into all positions — the `idx` field of
          the model's `find` (Model/Find.lean): same atoms, same (pattern) order, nothing sorted, nothing dropped.
-/
import MofunModel.Proofs.Code7Find

namespace Mofun.C01Code7
open Mofun Mofun.Generated Mofun.Code7Find
set_option linter.unusedSimpArgs false

/-- for ALL lists of chosen candidates inside the near list: the translated folding never raises and maps every candidate, in
    order, to its unit-cell indices in PATTERN order -/
theorem findMatchTuplesInUc_eq (n : Nat) (hn : n ≠ 0) (near : List Nat) (good : List (List Nat))
    (h : ∀ t ∈ good, ∀ k ∈ t, k < near.length) :
    Code.findMatchTuplesInUc n near good =
      some (good.map (fun t => ((t.map (fun k => near.getD k 0)).map (· % n)).map Int.ofNat)) := by
  unfold Code.findMatchTuplesInUc
  simp only [bind, pure, Option.bind_eq_bind, Option.bind_some]
  induction good with
  | nil => rfl
  | cons t ts ih =>
    have ht := mapM_uc n hn near t (h t (by simp))
    simp only [bind, pure, Option.bind_eq_bind] at ht
    have ih' := ih (fun u hu => h u (by simp [hu]))
    simp only [Py.listMapM?, ht, Option.bind_some, ih', List.map_cons, List.map_map]
    rfl

/-- the `idx` field of a reported `Match` of the model's `find` is this folding of the chosen tuple `t` (indices into all positions) -/
theorem findMatchTuplesInUc_model (n : Nat) (hn : n ≠ 0) (near : List Nat) (good : List (List Nat))
    (h : ∀ t ∈ good, ∀ k ∈ t, k < near.length) :
    Code.findMatchTuplesInUc n near good =
      some ((good.map (fun t => t.map (fun k => near.getD k 0))).map (fun t => (t.map (· % n)).map Int.ofNat)) := by
  rw [findMatchTuplesInUc_eq n hn near good h, List.map_map]
  rfl

/-- the order inside a tuple is the pattern order (not sorted): near list = home cell + one image -/
example : Code.findMatchTuplesInUc 4 [0, 1, 2, 3, 5, 6] [[5, 0, 4], [1]] = some [[2, 0, 1], [1]] := by decide

end Mofun.C01Code7
