/-
  C07 — overlapping replacements are refused, never silently corrupted.
  Property theorems only (helper lemmas: Proofs/ReplaceOverlap.lean).  Model: Model/Replace.lean
  (`replaceCore` = `replace_pattern_in_structure` after the search; `toDeleteOf` = `set(match) - set(map.values())`).

  `delSet p r replaceAll m` is `D_m`: the atoms of the structure that match `m` wants removed
  (`toDeleteOf m (values of the index map of m)`; with `replace_all` the map is empty, so `D_m = set(m.idx)`).
-/
import MofunModel.Proofs.ReplaceOverlap

namespace Mofun.C07

/-- two of the matches selected for replacement would both remove the same atom of the structure:
    `∃ i < j, D_i ∩ D_j ≠ ∅` -/
def Overlapping (p r : Atoms) (replaceAll : Bool) (ms : List PlacedMatch) : Prop :=
  ∃ (i j : Nat) (hij : i < j) (hj : j < ms.length),
    ∃ x, x ∈ delSet p r replaceAll (ms[i]'(Nat.lt_trans hij hj)) ∧ x ∈ delSet p r replaceAll ms[j]

theorem not_pairwise_iff_overlapping (p r : Atoms) (ra : Bool) (ms : List PlacedMatch) :
    ¬ (ms.map (delSet p r ra)).Pairwise (fun a b => ∀ x ∈ a, x ∉ b) ↔ Overlapping p r ra ms := by
  rw [List.pairwise_map, List.pairwise_iff_getElem]
  unfold Overlapping
  constructor
  · intro h
    apply Classical.byContradiction
    intro hc
    apply h
    intro i j hi hj hij x hx hxj
    exact hc ⟨i, j, hij, hj, x, hx, hxj⟩
  · rintro ⟨i, j, hij, hj, x, hx, hxj⟩ h
    exact h i j (Nat.lt_trans hij hj) hj hij x hx hxj

/-- under the guards the whole run is decided by the running deletion set -/
theorem replaceState_cases (s p r : Atoms) (ms : List PlacedMatch) (ra ig : Bool)
    (hne : r.atoms ≠ []) (hr : TermsValid r) (hms : ValidMatches s p ms) :
    match (ms.map (delSet p r ra)).foldl (delStep ig) (some []) with
    | none => replaceState s p r ms ra ig = .error .overlap
    | some del' => ∃ st', replaceState s p r ms ra ig = .ok st' ∧ st'.del = del'
        ∧ s.atoms.length ≤ st'.s.atoms.length := by
  have he : r.atoms.isEmpty = false := by simpa using hne
  unfold replaceState
  simp only [he, Bool.false_eq_true, if_false]
  exact fold_link s p r (s.extendTypes r).2 ra ig ms hr hms { s := (s.extendTypes r).1, del := [] } (Nat.le_refl _)

/-- the deletion list handed to `delete` only names atoms of the matches, hence valid indices -/
theorem del_valid (s p r : Atoms) (ms : List PlacedMatch) (ra ig : Bool) (hms : ValidMatches s p ms)
    (del' : List Nat) (h : (ms.map (delSet p r ra)).foldl (delStep ig) (some []) = some del') :
    ∀ x ∈ del', x < s.atoms.length := by
  intro x hx
  rcases ((delFold_some ig _ _ _ h).1 x).mp hx with h0 | ⟨td, htd, hxtd⟩
  · cases h0
  · obtain ⟨m, hm, rfl⟩ := List.mem_map.mp htd
    exact (hms m hm).2 x (mem_delSet_idx p r ra m x hxtd)

/-- **replace_total.** Guards: the replacement's own terms only name its own atoms; every match has as many
    indices as the search pattern and they lie inside the structure.  Then the ONLY error the replacement can
    raise is the overlap error (no `.index` from `extend` / `delete`, no `.domain`). -/
theorem replace_total (s p r : Atoms) (ms : List PlacedMatch) (ra ig : Bool)
    (hne : r.atoms ≠ []) (hr : TermsValid r) (hms : ValidMatches s p ms) :
    (∃ res, replaceCore s p r ms ra ig = .ok res) ∨ replaceCore s p r ms ra ig = .error .overlap := by
  have hc := replaceState_cases s p r ms ra ig hne hr hms
  rw [replaceCore_eq]
  cases hd : (ms.map (delSet p r ra)).foldl (delStep ig) (some []) with
  | none => rw [hd] at hc; right; rw [hc]
  | some del' =>
    rw [hd] at hc
    obtain ⟨st', hst', hdel, hlen⟩ := hc
    left
    rw [hst']
    apply (delete_ok_iff st'.s st'.del).mpr
    intro x hx
    rw [hdel] at hx
    exact Nat.lt_of_lt_of_le (del_valid s p r ms ra ig hms del' hd x hx) hlen

/-- **replace_raises_iff** (full strength).  For a non-empty replacement, without the opt-out flag, and matches
    with valid indices: the dedicated overlap error is raised EXACTLY when two selected matches would both remove
    the same atom, `∃ i < j, D_i ∩ D_j ≠ ∅` — in particular not when matches share only atoms that both patterns
    retain.  (By `replace_total` no other error is possible under these guards.) -/
theorem replace_raises_iff (s p r : Atoms) (ms : List PlacedMatch) (ra : Bool)
    (hne : r.atoms ≠ []) (hr : TermsValid r) (hms : ValidMatches s p ms) :
    replaceCore s p r ms ra false = .error .overlap ↔ Overlapping p r ra ms := by
  have hc := replaceState_cases s p r ms ra false hne hr hms
  have hiff := delFold_none_iff (ms.map (delSet p r ra)) []
  rw [← not_pairwise_iff_overlapping]
  constructor
  · intro h
    cases hd : (ms.map (delSet p r ra)).foldl (delStep false) (some []) with
    | none =>
      rcases hiff.mp hd with ⟨_, _, _, _, h0⟩ | hnp
      · cases h0
      · exact hnp
    | some del' =>
      rw [hd] at hc
      obtain ⟨st', hst', hdel, hlen⟩ := hc
      rw [replaceCore_eq, hst'] at h
      exact absurd h (delete_ne_overlap _ _)
  · intro hnp
    have hd := hiff.mpr (Or.inr hnp)
    rw [hd] at hc
    rw [replaceCore_eq, hc]

/-- the same as a statement about success: the replacement returns a structure iff no atom would be removed twice -/
theorem replace_ok_iff (s p r : Atoms) (ms : List PlacedMatch) (ra : Bool)
    (hne : r.atoms ≠ []) (hr : TermsValid r) (hms : ValidMatches s p ms) :
    (∃ res, replaceCore s p r ms ra false = .ok res) ↔ ¬ Overlapping p r ra ms := by
  rw [← replace_raises_iff s p r ms ra hne hr hms]
  constructor
  · rintro ⟨res, h⟩ he; rw [h] at he; cases he
  · intro hn
    rcases replace_total s p r ms ra false hne hr hms with h | h
    · exact h
    · exact absurd h hn

/-- for an empty replacement `D_m` is the whole match -/
theorem delSet_empty_r (p r : Atoms) (ra : Bool) (m : PlacedMatch) (he : r.atoms = []) (x : Nat) :
    x ∈ delSet p r ra m ↔ x ∈ m.idx := by
  unfold delSet
  rw [mem_toDeleteOf, unchangedPairs_empty r p he]
  cases ra <;> simp [mapOf]

/-- **replace_no_double_delete** (no guards, either flag).  Whenever a structure is returned, it is the extended
    structure `st.s` minus ONE bulk deletion of the list `st.del`; that list has no duplicates (each structure atom
    is removed at most once), names exactly the atoms of `⋃ D_m`, the result's atoms are the atoms of `st.s` at the
    positions not listed, in order, and the atom count drops by exactly `|st.del|`. -/
theorem replace_no_double_delete (s p r : Atoms) (ms : List PlacedMatch) (ra ig : Bool) (res : Atoms)
    (h : replaceCore s p r ms ra ig = .ok res) :
    ∃ st, replaceState s p r ms ra ig = .ok st ∧ st.s.delete st.del = .ok res
      ∧ st.del.Nodup
      ∧ (∀ x, x ∈ st.del ↔ ∃ m ∈ ms, x ∈ delSet p r ra m)
      ∧ res.atoms = ((st.s.atoms.zipIdx).filter (fun q => !st.del.contains q.2)).map (·.1)
      ∧ res.atoms.length + st.del.length = st.s.atoms.length := by
  rw [replaceCore_eq] at h
  cases hst : replaceState s p r ms ra ig with
  | error e => rw [hst] at h; cases h
  | ok st =>
    rw [hst] at h
    simp only at h
    have hvalid : ∀ x ∈ st.del, x < st.s.atoms.length := (delete_ok_iff st.s st.del).mp ⟨res, h⟩
    have hnd_mem : st.del.Nodup ∧ (∀ x, x ∈ st.del ↔ ∃ m ∈ ms, x ∈ delSet p r ra m) := by
      unfold replaceState at hst
      split at hst
      · rename_i he
        have he' : r.atoms = [] := by simpa using he
        simp only [Except.ok.injEq] at hst
        subst hst
        refine ⟨nodup_dedup _, ?_⟩
        intro x
        simp only [mem_dedup, List.mem_flatMap, delSet_empty_r p r ra _ he']
      · have hd := fold_ok_del s p r _ ra ig ms _ st hst
        obtain ⟨h1, h2⟩ := delFold_some ig _ _ _ hd
        refine ⟨h2 List.nodup_nil ?_, ?_⟩
        · intro td htd
          obtain ⟨m, _, rfl⟩ := List.mem_map.mp htd
          exact nodup_delSet p r ra m
        · intro x
          rw [h1 x]
          simp only [List.not_mem_nil, false_or, List.mem_map]
          constructor
          · rintro ⟨_, ⟨m, hm, rfl⟩, hx⟩; exact ⟨m, hm, hx⟩
          · rintro ⟨m, hm, hx⟩; exact ⟨_, ⟨m, hm, rfl⟩, hx⟩
    have hatoms := (delete_atoms st.s res st.del h).1
    have hr : res.atoms = deleteIdx st.s.atoms st.del := by
      unfold Atoms.delete at h
      split at h
      · cases h
      · cases h; rfl
    refine ⟨st, rfl, h, hnd_mem.1, hnd_mem.2, hatoms, ?_⟩
    rw [hr]
    exact deleteIdx_length st.s.atoms st.del hnd_mem.1 hvalid

/-- without the flag the list handed to `delete` is literally `D_1 ++ D_2 ++ …` (nothing was filtered out) -/
theorem replace_del_is_concat (s p r : Atoms) (ms : List PlacedMatch) (ra : Bool) (st : ReplaceState)
    (hne : r.atoms ≠ []) (h : replaceState s p r ms ra false = .ok st) :
    st.del = (ms.map (delSet p r ra)).flatten := by
  have he : r.atoms.isEmpty = false := by simpa using hne
  unfold replaceState at h
  simp only [he, Bool.false_eq_true, if_false] at h
  have := delFold_some_eq _ _ _ (fold_ok_del s p r _ ra false ms _ st h)
  simpa using this

/-- **replace_ignore_never_overlap** (no guards at all).  With the opt-out flag, or with an empty replacement,
    the overlap error is never raised, whatever the input. -/
theorem replace_ignore_never_overlap (s p r : Atoms) (ms : List PlacedMatch) (ra ig : Bool)
    (h : ig = true ∨ r.atoms = []) : replaceCore s p r ms ra ig ≠ .error .overlap := by
  rw [replaceCore_eq]
  by_cases he : r.atoms = []
  · have he' : r.atoms.isEmpty = true := by simpa using he
    simp only [replaceState, he', if_true]
    exact delete_ne_overlap _ _
  · have hig : ig = true := by
      rcases h with h | h
      · exact h
      · exact absurd h he
    subst hig
    have he' : r.atoms.isEmpty = false := by simpa using he
    cases hst : replaceState s p r ms ra true with
    | error e =>
      simp only
      intro hc
      simp only [Except.error.injEq] at hc
      subst hc
      unfold replaceState at hst
      simp only [he', Bool.false_eq_true, if_false] at hst
      exact fold_ignore_ne_overlap s p r _ ra ms _ (by simp) hst
    | ok st => exact delete_ne_overlap _ _

/-- … and under the guards it then always returns a structure -/
theorem replace_ignore_ok (s p r : Atoms) (ms : List PlacedMatch) (ra : Bool)
    (hne : r.atoms ≠ []) (hr : TermsValid r) (hms : ValidMatches s p ms) :
    ∃ res, replaceCore s p r ms ra true = .ok res := by
  rcases replace_total s p r ms ra true hne hr hms with h | h
  · exact h
  · exact absurd h (replace_ignore_never_overlap s p r ms ra true (Or.inl rfl))

/-! ### non-vacuity: the chain C–O–C–O–C searched for C–O–C; consecutive matches share the end atom -/

def mkRow (ty : Nat) (x : Rat) (q : Rat) : AtomRow := ⟨ty, ⟨x, 0, 0⟩, q, 0, []⟩

def exS : Atoms :=
  { Atoms.empty with
    atoms := [mkRow 0 0 1, mkRow 1 1 2, mkRow 0 2 3, mkRow 1 3 4, mkRow 0 4 5]
    typeElems := ["C", "O"], typeLabels := ["C", "O"], typeMasses := [12, 16] }
def exP : Atoms :=
  { Atoms.empty with atoms := [mkRow 0 0 0, mkRow 1 1 0, mkRow 0 2 0]
                     typeElems := ["C", "O"], typeLabels := ["C", "O"], typeMasses := [12, 16] }
/-- C–N–C: keeps both end atoms (same element, same coordinates) -/
def exRa : Atoms :=
  { Atoms.empty with atoms := [mkRow 0 0 0, mkRow 1 1 0, mkRow 0 2 0]
                     typeElems := ["C", "N"], typeLabels := ["C", "N"], typeMasses := [12, 14] }
/-- Si–N–Si: replaces all three atoms -/
def exRb : Atoms :=
  { Atoms.empty with atoms := [mkRow 0 0 0, mkRow 1 1 0, mkRow 0 2 0]
                     typeElems := ["Si", "N"], typeLabels := ["Si", "N"], typeMasses := [28, 14] }
def exM1 : PlacedMatch := ⟨[0, 1, 2], [⟨0, 0, 0⟩, ⟨1, 0, 0⟩, ⟨2, 0, 0⟩], Quat.identity⟩
def exM2 : PlacedMatch := ⟨[2, 3, 4], [⟨2, 0, 0⟩, ⟨3, 0, 0⟩, ⟨4, 0, 0⟩], Quat.identity⟩

/-- the guards of `replace_raises_iff` hold on a concrete input, for both replacements -/
example : exRa.atoms ≠ [] ∧ TermsValid exRa ∧ exRb.atoms ≠ [] ∧ TermsValid exRb
    ∧ ValidMatches exS exP [exM1, exM2] := by decide
example : unchangedPairs exRa exP = [(0, 0), (2, 2)] ∧ unchangedPairs exRb exP = [] := by decide +kernel
example : delSet exP exRa false exM1 = [1] ∧ delSet exP exRa false exM2 = [3] := by decide +kernel
example : delSet exP exRb false exM1 = [0, 1, 2] ∧ delSet exP exRb false exM2 = [2, 3, 4] := by decide +kernel

/-- shared atom removed by both matches: the right-hand side of the iff holds, the error is raised … -/
theorem ex_overlapping : Overlapping exP exRb false [exM1, exM2] :=
  ⟨0, 1, by decide, by decide, 2, by decide +kernel, by decide +kernel⟩
example : replaceCore exS exP exRb [exM1, exM2] false false = .error .overlap :=
  (replace_raises_iff exS exP exRb [exM1, exM2] false (by decide) (by decide) (by decide)).mpr ex_overlapping
/-- … unless the caller opted out -/
example : ∃ res, replaceCore exS exP exRb [exM1, exM2] false true = .ok res :=
  replace_ignore_ok exS exP exRb [exM1, exM2] false (by decide) (by decide) (by decide)
/-- shared atom retained by both matches: the right-hand side fails, a structure is returned -/
theorem ex_not_overlapping : ¬ Overlapping exP exRa false [exM1, exM2] := fun h =>
  (not_pairwise_iff_overlapping exP exRa false [exM1, exM2]).mpr h (by decide +kernel)
example : ∃ res, replaceCore exS exP exRa [exM1, exM2] false false = .ok res :=
  (replace_ok_iff exS exP exRa [exM1, exM2] false (by decide) (by decide) (by decide)).mpr ex_not_overlapping
/-- with `replace_all` nothing is retained, so the same replacement now overlaps -/
example : Overlapping exP exRa true [exM1, exM2] :=
  ⟨0, 1, by decide, by decide, 2, by decide +kernel, by decide +kernel⟩

end Mofun.C07
