/-
  C09 (stretch) — histories on the WIDENED index domain: deletions with repeated / unsorted indices, subsets taken
  with arbitrary python integers (negative, repeated), an object extended with itself.
  Models: Model/TopoWide.lean (`getitemI`, `extendSelf`), Model/HistWide.lean (`OpW`, `stepW`, `runW`).
  Definitions and helper lemmas: Proofs/HistWideLemmas.lean.  Property theorems only.

  Moved from "outside the guards" to proved:
  * repeated deletion indices: `wf_delete_any` — NO guard left on `del a[idx]` for consistency (the survivors may be
    lowered too far — that is C10's concern, outside its "distinct" domain — but never outside the atom list);
  * negative / repeated indices in `a[idx]`: `getitemI_*`, `wf_getitemI`, `meaning_getitemI`;
  * `a.extend(a, map)`: `extendSelf_diag` (= extending with a copy for diagonal maps, incl. the empty map),
    `compat_self`, `wf_extendSelf`; a non-diagonal self-map breaks consistency in the code and in the model
    (`example` below: type id 4 with 4 atom types);
  * `wf_stepW`, `wf_runW`: the induction over histories with the widened ops.
  * `del a[idx]` with negative / repeated / unsorted integers: `wf_deleteI`, `meaning_deleteI` (op `deleteI`; the
    code normalises the indices to a set since the fix of the negative-index defect, Props/C10NegDefect.lean).
-/
import MofunModel.Proofs.HistWideLemmas
import MofunModel.Props.C09

namespace Mofun.Hist

open Mofun

/-! ### deletion: no guard -/

/-- **wf_delete_any.** `del a[idx]` keeps the object consistent for EVERY index list inside the object —
    repeated and unsorted indices included (`wf_delete` is the `Nodup` corollary). -/
theorem wf_delete_any (a r : Atoms) (idx : List Nat) (hwf : WF a) (h : a.delete idx = .ok r) : WF r :=
  wf_delete_any_aux a r idx hwf h

/-- **wf_deleteI.** `del a[idx]` with ANY list of python integers the code accepts (negative, repeated, unsorted)
    keeps the object consistent. -/
theorem wf_deleteI (a r : Atoms) (idx : List Int) (hwf : WF a) (h : a.deleteNorm idx = .ok r) : WF r :=
  wf_deleteNorm_aux a r idx hwf h

/-- **meaning_deleteI.** …and leaves every table alone; remaining atoms are input rows, remaining terms keep type id
    and extra row (what they are exactly: `Mofun.deleteNorm_spec`, Props/C10Wide.lean). -/
theorem meaning_deleteI (a r : Atoms) (idx : List Int) (h : a.deleteNorm idx = .ok r) :
    SameTables r a ∧ (∀ row ∈ r.atoms, row ∈ a.atoms)
    ∧ (∀ tm ∈ r.bonds.terms, ∃ t0 ∈ a.bonds.terms, tm.ty = t0.ty ∧ tm.extra = t0.extra)
    ∧ (∀ tm ∈ r.angles.terms, ∃ t0 ∈ a.angles.terms, tm.ty = t0.ty ∧ tm.extra = t0.extra)
    ∧ (∀ tm ∈ r.dihedrals.terms, ∃ t0 ∈ a.dihedrals.terms, tm.ty = t0.ty ∧ tm.extra = t0.extra)
    ∧ (∀ tm ∈ r.impropers.terms, ∃ t0 ∈ a.impropers.terms, tm.ty = t0.ty ∧ tm.extra = t0.extra) := by
  unfold Atoms.deleteNorm at h
  split at h
  · cases h
  · exact meaning_delete a r _ h

/-! ### subsets with arbitrary integers -/

/-- **getitemI_ok_iff.** `a[idx]` succeeds iff every integer is in `[−n, n)` — the EMPTY selection included. -/
theorem getitemI_ok_iff (a : Atoms) (idx : List Int) :
    (∃ r, a.getitemI idx = .ok r) ↔ ∀ i ∈ idx, -(a.atoms.length : Int) ≤ i ∧ i < (a.atoms.length : Int) := by
  unfold Atoms.getitemI
  by_cases h : idx.any (fun i => (normIdx a.atoms.length i).isNone) = true
  · simp only [h, if_true]
    constructor
    · rintro ⟨r, hr⟩; cases hr
    · intro hall
      obtain ⟨i, hi, hn⟩ := List.any_eq_true.mp h
      have := (normIdx_isSome_iff a.atoms.length i).mpr (hall i hi)
      cases hq : normIdx a.atoms.length i <;> simp [hq] at hn this
  · simp only [h]
    constructor
    · intro _ i hi
      apply (normIdx_isSome_iff a.atoms.length i).mp
      cases hq : normIdx a.atoms.length i with
      | some j => rfl
      | none => exact absurd (List.any_eq_true.mpr ⟨i, hi, by simp [hq]⟩) h
    · intro _; exact ⟨_, rfl⟩

/-- **getitemI_empty.** The empty selection `a[[]]` / `a[()]` is the atom-less subset: no atoms, no terms, no pair
    table, but the element / label / mass tables and the cell of `a` — a consistent object (for consistent `a`) that
    can be extended. -/
theorem getitemI_empty (a : Atoms) :
    a.getitemI [] = .ok { Atoms.empty with
      typeElems := a.typeElems, typeLabels := a.typeLabels, typeMasses := a.typeMasses, cell := a.cell } := rfl

/-- **getitemI_atoms.** The subset has one atom per listed integer, in the listed order (repeats repeat): the `p`-th
    atom is the atom of `a` at the normalised position of the `p`-th integer, without extra fields. -/
theorem getitemI_atoms (a r : Atoms) (idx : List Int) (h : a.getitemI idx = .ok r) :
    r.atoms.length = idx.length
    ∧ ∀ p (hp : p < idx.length), ∃ j row0, normIdx a.atoms.length idx[p] = some j ∧ a.atoms[j]? = some row0
        ∧ r.atoms[p]? = some { row0 with extra := [] } := by
  unfold Atoms.getitemI at h
  split at h
  · cases h
  · rename_i hany
    cases h
    have hall : ∀ i ∈ idx, ∃ j row0, normIdx a.atoms.length i = some j ∧ a.atoms[j]? = some row0 := by
      intro i hi
      cases hq : normIdx a.atoms.length i with
      | none => exact absurd (List.any_eq_true.mpr ⟨i, hi, by simp [hq]⟩) hany
      | some j =>
        have hj := normIdx_lt _ _ _ hq
        exact ⟨j, a.atoms[j], rfl, List.getElem?_eq_getElem hj⟩
    have hmap : idx.filterMap (fun i => (normIdx a.atoms.length i).bind (fun j =>
          (a.atoms[j]?).map (fun r => ({ r with extra := [] } : AtomRow))))
        = idx.map (fun i => (((normIdx a.atoms.length i).bind (fun j =>
          (a.atoms[j]?).map (fun r => ({ r with extra := [] } : AtomRow)))).getD default)) := by
      rw [hist_map_as_filterMap]
      apply filterMap_congr_of_mem
      intro i hi
      obtain ⟨j, row0, h1, h2⟩ := hall i hi
      simp [h1, h2]
    simp only [hmap]
    refine ⟨by simp, ?_⟩
    intro p hp
    obtain ⟨j, row0, h1, h2⟩ := hall idx[p] (List.getElem_mem hp)
    refine ⟨j, row0, h1, h2, ?_⟩
    simp [List.getElem?_map, List.getElem?_eq_getElem hp, h1, h2]

/-- on a non-empty list of non-negative integers this is the modelled `getitem` (all its theorems are the corollaries
    for that case; `Atoms.getitem` leaves the empty selection outside its domain, `getitemI_empty` covers it) -/
theorem getitemI_eq_getitem (a : Atoms) (idx : List Nat) (hne : idx ≠ []) :
    a.getitemI (idx.map Int.ofNat) = a.getitem idx :=
  getitemI_ofNat a idx hne

/-- **wf_getitemI.** -/
theorem wf_getitemI (a r : Atoms) (idx : List Int) (hwf : WF a) (h : a.getitemI idx = .ok r) : WF r :=
  wf_getitemI_aux a r idx hwf h

/-- **meaning_getitemI.** As `meaning_getitem`, for arbitrary integers. -/
theorem meaning_getitemI (a r : Atoms) (idx : List Int) (h : a.getitemI idx = .ok r) :
    (∀ ty, atomText r ty = atomText a ty) ∧ r.pairCoeffs = []
    ∧ (∀ row ∈ r.atoms, ∃ row0 ∈ a.atoms, row.ty = row0.ty ∧ row.charge = row0.charge ∧ row.group = row0.group
        ∧ row.pos = row0.pos)
    ∧ r.bonds.terms = [] ∧ r.angles.terms = [] ∧ r.dihedrals.terms = [] ∧ r.impropers.terms = [] := by
  unfold Atoms.getitemI at h
  split at h
  · cases h
  · cases h
    refine ⟨fun ty => rfl, rfl, ?_, rfl, rfl, rfl, rfl⟩
    intro row hr
    obtain ⟨row0, h0, rfl⟩ := getitemI_rows a idx row hr
    exact ⟨row0, h0, rfl, rfl, rfl, rfl⟩

theorem aligned_getitemI (a r : Atoms) (idx : List Int) (hal : Aligned a) (h : a.getitemI idx = .ok r) :
    Aligned r := by
  unfold Atoms.getitemI at h
  split at h
  · cases h
  · cases h; exact ⟨hal.1, hal.2.1, Or.inl rfl⟩

/-! ### an object extended with itself -/

/-- **extendSelf_diag.** `a.extend(a, offsets, map)` with a diagonal identity map (every listed atom identified with
    itself; in particular the empty map) is exactly `a.extend(copy of a, offsets, map)`: the live atom-type array
    is never read after it was written. -/
theorem extendSelf_diag (a : Atoms) (off : Option Offsets) (map : List (Nat × Nat)) (hd : DiagMap map) :
    a.extendSelf off map = a.extend a off map := extendSelf_diag_aux a off map hd

/-- **compat_self.** The compatibility clause always holds between an object and itself. -/
theorem compat_self (a : Atoms) : Compat a a := compat_self_aux a

/-- **wf_extendSelf.** -/
theorem wf_extendSelf (a r : Atoms) (off : Option Offsets) (map : List (Nat × Nat)) (hwf : WF a)
    (hd : DiagMap map) (hg : ExtendGuard a a off) (h : a.extendSelf off map = .ok r) : WF r := by
  rw [extendSelf_diag a off map hd] at h
  exact wf_extend a a r off map hwf hwf hg h

/-- with default offsets there is no guard besides the diagonal map -/
theorem wf_extendSelf_default (a r : Atoms) (map : List (Nat × Nat)) (hwf : WF a) (hd : DiagMap map)
    (h : a.extendSelf none map = .ok r) : WF r :=
  wf_extendSelf a r none map hwf hd (compat_self a) h

/-! ### histories -/

/-- **wf_stepW.** -/
theorem wf_stepW (s s' : State) (op : OpW) (hs : WFState s) (hg : GuardedOpW s op) (h : stepW s op = .ok s') :
    WFState s' := by
  cases op with
  | base op =>
    cases op with
    | delete slot idx =>
      simp only [stepW, step, bind, Except.bind] at h
      cases ha : getSlot s slot with
      | error e => simp [ha] at h
      | ok a =>
        simp only [ha] at h
        cases hr : a.delete idx with
        | error e => simp [hr] at h
        | ok r =>
          simp only [hr] at h
          exact wfState_put s s' slot r hs (wf_delete_any a r idx (hs slot a (getSlot_ok s slot a ha)) hr) h
    | construct dst a => exact wf_step s s' (.construct dst a) hs (guardedOp_of_baseGuardW s (.construct dst a) hg (fun _ _ e => by cases e)) h
    | copy src dst => exact wf_step s s' (.copy src dst) hs (guardedOp_of_baseGuardW s (.copy src dst) hg (fun _ _ e => by cases e)) h
    | pop slot i => exact wf_step s s' (.pop slot i) hs (guardedOp_of_baseGuardW s (.pop slot i) hg (fun _ _ e => by cases e)) h
    | extend dst src off map => exact wf_step s s' (.extend dst src off map) hs (guardedOp_of_baseGuardW s (.extend dst src off map) hg (fun _ _ e => by cases e)) h
    | replicate src dst da db dc => exact wf_step s s' (.replicate src dst da db dc) hs (guardedOp_of_baseGuardW s (.replicate src dst da db dc) hg (fun _ _ e => by cases e)) h
    | getitem src dst idx => exact wf_step s s' (.getitem src dst idx) hs (guardedOp_of_baseGuardW s (.getitem src dst idx) hg (fun _ _ e => by cases e)) h
  | deleteI slot idx =>
    simp only [stepW, bind, Except.bind] at h
    cases ha : getSlot s slot with
    | error e => simp [ha] at h
    | ok a =>
      simp only [ha] at h
      cases hr : a.deleteNorm idx with
      | error e => simp [hr] at h
      | ok r =>
        simp only [hr] at h
        exact wfState_put s s' slot r hs (wf_deleteI a r idx (hs slot a (getSlot_ok s slot a ha)) hr) h
  | getitemI src dst idx =>
    simp only [stepW, bind, Except.bind] at h
    cases ha : getSlot s src with
    | error e => simp [ha] at h
    | ok a =>
      simp only [ha] at h
      cases hr : a.getitemI idx with
      | error e => simp [hr] at h
      | ok r =>
        simp only [hr] at h
        exact wfState_put s s' dst r hs (wf_getitemI a r idx (hs src a (getSlot_ok s src a ha)) hr) h
  | extendSelf slot off map =>
    simp only [stepW, bind, Except.bind] at h
    cases ha : getSlot s slot with
    | error e => simp [ha] at h
    | ok a =>
      simp only [ha] at h
      cases hr : a.extendSelf off map with
      | error e => simp [hr] at h
      | ok r =>
        simp only [hr] at h
        have ea := getSlot_ok s slot a ha
        obtain ⟨hd, hg2⟩ := hg
        have hg' : ExtendGuard a a off := by simp only [slotGuard, ea] at hg2; exact hg2
        exact wfState_put s s' slot r hs (wf_extendSelf a r off map (hs slot a ea) hd hg' hr) h
  | extendA dst src off map =>
    simp only [stepW, bind, Except.bind] at h
    cases ha : getSlot s dst with
    | error e => simp [ha] at h
    | ok a =>
      simp only [ha] at h
      cases hb : getSlot s src with
      | error e => simp [hb] at h
      | ok b =>
        simp only [hb] at h
        have ea := getSlot_ok s dst a ha
        have eb := getSlot_ok s src b hb
        simp only [GuardedOpW, apiGuard, ea, eb] at hg
        by_cases hds : dst = src
        · subst hds
          have hab : a = b := by rw [ea] at eb; injection eb with e; injection e
          subst hab
          simp only [if_true] at h
          cases hn : normMap a.atoms.length a.atoms.length map with
          | error e => simp [hn] at h
          | ok m =>
            simp only [hn] at h hg
            cases hr : a.extendSelf (off.map padOffsets) m with
            | error e => simp [hr] at h
            | ok r =>
              simp only [hr] at h
              exact wfState_put s s' dst r hs (wf_extendSelf a r _ m (hs dst a ea) (hg.2 trivial) hg.1 hr) h
        · simp only [hds, if_false] at h
          cases hr : a.extendApi b off map with
          | error e => simp [hr] at h
          | ok r =>
            simp only [hr] at h
            unfold Atoms.extendApi at hr
            cases hn : normMap b.atoms.length a.atoms.length map with
            | error e => simp [hn] at hr
            | ok m =>
              simp only [hn] at hr hg
              exact wfState_put s s' dst r hs (wf_extend a b r _ m (hs dst a ea) (hs src b eb) hg.1 hr) h

/-- **wf_runW.** For every list of widened ops, by induction. -/
theorem wf_runW (ops : List OpW) : ∀ (s s' : State), WFState s → GuardedRunW s ops → runW s ops = .ok s' →
    WFState s' := by
  induction ops with
  | nil =>
    intro s s' hs _ h
    simp only [runW] at h
    cases h; exact hs
  | cons op rest ih =>
    intro s s' hs hg h
    obtain ⟨hg1, hg2⟩ := hg
    simp only [runW] at h
    cases hstep : stepW s op with
    | error e => simp [hstep] at h
    | ok s1 =>
      simp only [hstep] at h hg2
      exact ih s1 s' (wf_stepW s s1 op hs hg1 hstep) hg2 h

/-- every per-step state the driver prints for a guarded widened history is consistent -/
theorem wf_traceW (ops : List OpW) : ∀ (s : State), WFState s → GuardedRunW s ops →
    ∀ s', some (.ok s') ∈ traceW s ops → WFState s' := by
  induction ops with
  | nil => intro s _ _ s' h; simp [traceW] at h
  | cons op rest ih =>
    intro s hs hg s' h
    obtain ⟨hg1, hg2⟩ := hg
    simp only [traceW] at h
    cases hstep : stepW s op with
    | error e =>
      simp only [hstep] at h
      rcases List.mem_cons.mp h with h | h
      · cases h
      · simp at h
    | ok s1 =>
      simp only [hstep] at h hg2
      have hw1 := wf_stepW s s1 op hs hg1 hstep
      rcases List.mem_cons.mp h with h | h
      · cases h; exact hw1
      · exact ih s1 hw1 hg2 s' h

/-- **aligned_stepW.** "one table entry per atom type" is kept by every guarded widened op -/
theorem aligned_stepW (s s' : State) (op : OpW) (hw : WFState s) (hs : AlignedState s) (hg : GuardedOpW s op)
    (hao : AlignedOpW op) (h : stepW s op = .ok s') : AlignedState s' := by
  cases op with
  | base op =>
    cases op with
    | delete slot idx =>
      simp only [stepW, step, bind, Except.bind] at h
      cases ha : getSlot s slot with
      | error e => simp [ha] at h
      | ok a =>
        simp only [ha] at h
        cases hr : a.delete idx with
        | error e => simp [hr] at h
        | ok r =>
          simp only [hr] at h
          exact alignedState_put s s' slot r hs ((aligned_ops a (hs slot a (getSlot_ok s slot a ha))).1 r idx hr) h
    | construct dst a =>
      exact aligned_step s s' (.construct dst a) hw hs (guardedOp_of_baseGuardW s (.construct dst a) hg (fun _ _ e => by cases e)) hao h
    | copy src dst =>
      exact aligned_step s s' (.copy src dst) hw hs (guardedOp_of_baseGuardW s (.copy src dst) hg (fun _ _ e => by cases e)) hao h
    | pop slot i =>
      exact aligned_step s s' (.pop slot i) hw hs (guardedOp_of_baseGuardW s (.pop slot i) hg (fun _ _ e => by cases e)) hao h
    | extend dst src off map =>
      exact aligned_step s s' (.extend dst src off map) hw hs
        (guardedOp_of_baseGuardW s (.extend dst src off map) hg (fun _ _ e => by cases e)) hao h
    | replicate src dst da db dc =>
      exact aligned_step s s' (.replicate src dst da db dc) hw hs
        (guardedOp_of_baseGuardW s (.replicate src dst da db dc) hg (fun _ _ e => by cases e)) hao h
    | getitem src dst idx =>
      exact aligned_step s s' (.getitem src dst idx) hw hs
        (guardedOp_of_baseGuardW s (.getitem src dst idx) hg (fun _ _ e => by cases e)) hao h
  | deleteI slot idx =>
    simp only [stepW, bind, Except.bind] at h
    cases ha : getSlot s slot with
    | error e => simp [ha] at h
    | ok a =>
      simp only [ha] at h
      cases hr : a.deleteNorm idx with
      | error e => simp [hr] at h
      | ok r =>
        simp only [hr] at h
        exact alignedState_put s s' slot r hs
          (aligned_of_sameTables r a (meaning_deleteI a r idx hr).1 (hs slot a (getSlot_ok s slot a ha))) h
  | getitemI src dst idx =>
    simp only [stepW, bind, Except.bind] at h
    cases ha : getSlot s src with
    | error e => simp [ha] at h
    | ok a =>
      simp only [ha] at h
      cases hr : a.getitemI idx with
      | error e => simp [hr] at h
      | ok r =>
        simp only [hr] at h
        exact alignedState_put s s' dst r hs (aligned_getitemI a r idx (hs src a (getSlot_ok s src a ha)) hr) h
  | extendSelf slot off map =>
    simp only [stepW, bind, Except.bind] at h
    cases ha : getSlot s slot with
    | error e => simp [ha] at h
    | ok a =>
      simp only [ha] at h
      cases hr : a.extendSelf off map with
      | error e => simp [hr] at h
      | ok r =>
        simp only [hr] at h
        have ea := getSlot_ok s slot a ha
        rw [extendSelf_diag a off map hg.1] at hr
        have hops := aligned_ops a (hs slot a ea)
        cases off with
        | none => exact alignedState_put s s' slot r hs (hops.2.2.2.2.2 a r map (hs slot a ea) (compat_self a).1 hr) h
        | some o => exact alignedState_put s s' slot r hs (hops.2.2.2.2.1 a r o map hr) h
  | extendA dst src off map =>
    simp only [stepW, bind, Except.bind] at h
    cases ha : getSlot s dst with
    | error e => simp [ha] at h
    | ok a =>
      simp only [ha] at h
      cases hb : getSlot s src with
      | error e => simp [hb] at h
      | ok b =>
        simp only [hb] at h
        have ea := getSlot_ok s dst a ha
        have eb := getSlot_ok s src b hb
        simp only [GuardedOpW, apiGuard, ea, eb] at hg
        have hops := aligned_ops a (hs dst a ea)
        have fin : ∀ (b' : Atoms) (m : List (Nat × Nat)) (r : Atoms), Aligned b' →
            ExtendGuard a b' (off.map padOffsets) → a.extend b' (off.map padOffsets) m = .ok r → Aligned r := by
          intro b' m r hb' hgd hr
          cases off with
          | none => exact hops.2.2.2.2.2 b' r m hb' hgd.1 hr
          | some o => exact hops.2.2.2.2.1 b' r _ m hr
        by_cases hds : dst = src
        · subst hds
          have hab : a = b := by rw [ea] at eb; injection eb with e; injection e
          subst hab
          simp only [if_true] at h
          cases hn : normMap a.atoms.length a.atoms.length map with
          | error e => simp [hn] at h
          | ok m =>
            simp only [hn] at h hg
            cases hr : a.extendSelf (off.map padOffsets) m with
            | error e => simp [hr] at h
            | ok r =>
              simp only [hr] at h
              rw [extendSelf_diag a _ m (hg.2 trivial)] at hr
              exact alignedState_put s s' dst r hs (fin a m r (hs dst a ea) hg.1 hr) h
        · simp only [hds, if_false] at h
          cases hr : a.extendApi b off map with
          | error e => simp [hr] at h
          | ok r =>
            simp only [hr] at h
            unfold Atoms.extendApi at hr
            cases hn : normMap b.atoms.length a.atoms.length map with
            | error e => simp [hn] at hr
            | ok m =>
              simp only [hn] at hr hg
              exact alignedState_put s s' dst r hs (fin b m r (hs src b eb) hg.1 hr) h

/-- **meaning_runW.** Along every guarded widened history with aligned literals both invariants hold in every
    reachable state: at each op the corresponding `meaning_*` theorem applies (`meaning_getitemI` for subsets with
    arbitrary integers; `extendSelf_diag` + `meaning_extend` / `meaning_extend_offsets` for a self-extend;
    `meaning_delete` needs no guard, so repeated indices are covered). -/
theorem meaning_runW (ops : List OpW) : ∀ (s s' : State), WFState s → AlignedState s → GuardedRunW s ops →
    (∀ op ∈ ops, AlignedOpW op) → runW s ops = .ok s' → WFState s' ∧ AlignedState s' := by
  induction ops with
  | nil =>
    intro s s' hw hs _ _ h
    simp only [runW] at h
    cases h; exact ⟨hw, hs⟩
  | cons op rest ih =>
    intro s s' hw hs hg hao h
    obtain ⟨hg1, hg2⟩ := hg
    simp only [runW] at h
    cases hstep : stepW s op with
    | error e => simp [hstep] at h
    | ok s1 =>
      simp only [hstep] at h hg2
      exact ih s1 s' (wf_stepW s s1 op hw hg1 hstep)
        (aligned_stepW s s1 op hw hs hg1 (hao op List.mem_cons_self) hstep) hg2
        (fun o ho => hao o (List.mem_cons_of_mem _ ho)) h

/-- the widened run of embedded old ops is the old run -/
theorem runW_base (ops : List Op) (s : State) : runW s (ops.map OpW.base) = run s ops := by
  induction ops generalizing s with
  | nil => rfl
  | cons op rest ih =>
    simp only [List.map_cons, runW, run, stepW]
    cases step s op with
    | error e => rfl
    | ok s1 => exact ih s1

/-! ### non-vacuity -/

/-- repeated and unsorted deletion indices, a subset with negative and repeated integers, a self-extend with the
    empty map and one with a diagonal map -/
def exHistoryW : List OpW :=
  [.base (.construct 0 exA), .base (.construct 1 exB), .deleteI 0 [-1, 0, 2],
   .getitemI 1 2 [-1, 0, -1, -2], .getitemI 1 3 [], .extendSelf 1 none [], .extendSelf 1 none [(0, 0), (2, 2)],
   .base (.extend 0 1 none [(3, 0)]), .getitemI 0 3 [-5],
   .extendA 0 1 (some [0, 0, 0, 0]) [(-1, -1)], .extendA 2 2 none [(-1, -1)]]

example : GuardedRunW State.init exHistoryW ∧ ∀ op ∈ exHistoryW, AlignedOpW op := by decide

example : ∃ s', runW State.init exHistoryW = .ok s' ∧ WFState s' := by
  have hok : (match runW State.init exHistoryW with | .ok _ => true | .error _ => false) = true := by decide
  cases h : runW State.init exHistoryW with
  | error e => rw [h] at hok; cases hok
  | ok s' => exact ⟨s', rfl, wf_runW exHistoryW _ s' wfState_init (by decide) h⟩

/-- a NON-diagonal self-map (atoms 0 and 1 "identified" crosswise): the second entry reads the type the first one
    just wrote — atom 0 ends with type id 0 + 2·2 = 4 although the merged tables have 4 entries (ids 0..3).
    The real code does the same (harness stream "self-extend", malformed part). -/
example : ¬ DiagMap [(0, 1), (1, 0)] ∧ ∃ r, exA.extendSelf none [(0, 1), (1, 0)] = .ok r
    ∧ r.typeElems.length = 4 ∧ r.atoms.map (·.ty) = [4, 2, 1, 3] ∧ ¬ WF r := by
  refine ⟨by decide, _, rfl, by decide, by decide, by decide⟩

/-- …whereas extending with a copy gives ids inside the tables -/
example : ∃ r, exA.extend exA none [(0, 1), (1, 0)] = .ok r ∧ r.atoms.map (·.ty) = [3, 2, 1, 3] ∧ WF r := by
  refine ⟨_, rfl, by decide, by decide⟩

example : exA.getitemI [-1, 0] = exA.getitem [2, 0] := rfl

/-- the empty selection: no atoms, tables kept, consistent -/
example : ∃ r, exA.getitemI [] = .ok r ∧ r.atoms = [] ∧ r.typeLabels = ["C_1", "H_2"] ∧ r.pairCoeffs = [] ∧ WF r :=
  ⟨_, rfl, rfl, rfl, rfl, by decide⟩

end Mofun.Hist
