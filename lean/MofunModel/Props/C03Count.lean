/-
  C03 (continued) — the COUNT form of the supercell relation, and the Cartesian frame.

  FULL strength (spec level, every input satisfying the decidable guard `countGuards`):
    * `occ_replicate_count`     — #keys Occ(replicate S a b c) = a·b·c · #keys Occ(S)   (and both sets are finite);
    * `occ_replicate_bijection` — the underlying bijection  supercell key ↦ (folded key, image of its anchor atom);
    * `occ_group_single_realisation`, `occ_atoms_are_distinct` — the two geometric facts that make it one:
      under the guard an atom group has a single realisation (the relative periodic images are determined by the atoms)
      and the atoms of an occurrence are pairwise different atoms;
    * `occ_turn` — turning the whole crystal (cell vectors and atoms) by a rotation leaves `Occ` unchanged
      (relation `rotate-crystal` of the harness).
  The guard: `atol ≥ 0`, `2ε ≤ atol`, every perpendicular width of the cell exceeds `2·(√m + 2·atol)` (√m = pattern
  diameter; square-root-free `sumSqrtLt`), pattern non-empty with atoms pairwise farther apart than `2ε`, one element per
  atom.  `supercell_count_counterexample` / `narrow_cell_two_realisations` (Props/C03.lean) show that below the width
  guard the relation is false; `c03Narrow` fails `countGuards`.
  PARTIAL: `find_count_replicate_partial` — the same for the number of matches `find` reports, under `FindIsOcc` for
  both searches (completeness guards, C01 soundness as a hypothesis, `OracleAligns`).
-/
import MofunModel.Props.C03
import MofunModel.Proofs.OccCount
import MofunModel.Proofs.OccTurn

namespace Mofun

/-- **occ_replicate (count form).** Under `countGuards` the a×b×c supercell has exactly a·b·c times as many
    occurrence keys (atom groups) as the unit cell. -/
theorem occ_replicate_count (inp : FindInput) (a b c : Nat) (epsSq : Rat) (hG : countGuards inp epsSq = true) :
    (occKeys (inp.replicate a b c) epsSq).ncard = a * b * c * (occKeys inp epsSq).ncard :=
  occKeys_replicate_ncard inp a b c epsSq (countGuards_spec inp epsSq hG)

/-- the sets counted above are finite (so `ncard` is their number of elements) -/
theorem occ_keys_finite (inp : FindInput) (epsSq : Rat) : (occKeys inp epsSq).Finite :=
  occKeys_finite inp epsSq

/-- **occ_replicate (bijection).** `K' ↦ (K' folded with % N, image of the atom of K' that folds onto the first atom
    of the folded key)` is a bijection from the supercell's occurrence keys onto (unit-cell occurrence keys) × (images) -/
theorem occ_replicate_bijection (inp : FindInput) (a b c : Nat) (epsSq : Rat) (hG : countGuards inp epsSq = true) :
    Set.BijOn (countMap b c inp.pos.length) (occKeys (inp.replicate a b c) epsSq)
      (occKeys inp epsSq ×ˢ imgBox a b c) :=
  countMap_bijOn inp a b c epsSq (countGuards_spec inp epsSq hG)

/-- **an atom group has a single realisation**: two occurrences sharing the atom `g a = g' a'` place every other common
    atom `g b = g' b'` in the same periodic image relative to it — no second set of lattice offsets completes the
    same group -/
theorem occ_group_single_realisation (inp : FindInput) (epsSq : Rat) (hG : countGuards inp epsSq = true)
    (g g' : Nat → Nat) (n n' : Nat → Int × Int × Int)
    (h : RigidOccurrence inp epsSq g n) (h' : RigidOccurrence inp epsSq g' n')
    (a b a' b' : Nat) (ha : a < inp.ppos.length) (hb : b < inp.ppos.length) (ha' : a' < inp.ppos.length)
    (hb' : b' < inp.ppos.length) (hga : g a = g' a') (hgb : g b = g' b') :
    (n b).1 - (n a).1 = (n' b').1 - (n' a').1 ∧ (n b).2.1 - (n a).2.1 = (n' b').2.1 - (n' a').2.1 ∧
    (n b).2.2 - (n a).2.2 = (n' b').2.2 - (n' a').2.2 :=
  occ_relative_image_unique inp epsSq (countGuards_spec inp epsSq hG) g g' n n' h h' a b a' b' ha hb ha' hb' hga hgb

/-- the atoms of an occurrence are pairwise different atoms -/
theorem occ_atoms_are_distinct (inp : FindInput) (epsSq : Rat) (hG : countGuards inp epsSq = true)
    (g : Nat → Nat) (n : Nat → Int × Int × Int) (h : RigidOccurrence inp epsSq g n)
    (a b : Nat) (ha : a < inp.ppos.length) (hb : b < inp.ppos.length) (hab : g a = g b) : a = b :=
  occ_atoms_distinct inp epsSq (countGuards_spec inp epsSq hG) g n h a b ha hb hab

/-- **occ_turn.** Turning the whole crystal — every cell vector and every atom mapped by `v ↦ M v`, `M` orthogonal
    with determinant one — leaves the occurrence set unchanged. -/
theorem occ_turn (inp : FindInput) (M : Mat3) (hM : M.IsProperRotation) (hMT : M.transpose.IsProperRotation)
    (epsSq : Rat) (key : List Nat) : Occ (inp.turn M) epsSq key ↔ Occ inp epsSq key :=
  occ_turn_iff inp M hM hMT epsSq key

/-! ## the number of matches reported by `find` (partial) -/

theorem ncard_of_nodup_list (l : List (List Nat)) (S : Set (List Nat)) (hnd : l.Nodup) (h : ∀ k, k ∈ l ↔ k ∈ S) :
    S.ncard = l.length := by
  have : S = ↑l.toFinset := by
    ext k; rw [List.coe_toFinset]; exact (h k).symm
  rw [this, Set.ncard_coe_finset, List.toFinset_card_of_nodup hnd]

/-- under `FindIsOcc` the number of matches is the number of occurrence keys -/
theorem find_count_eq_occ_partial (inp : FindInput) (ax1 : Nat) (oracle : Nat → Nat → Quat)
    (choose : Nat → List Nat → Nat) (epsSq : Rat) (h : FindIsOcc inp ax1 oracle choose epsSq) :
    (find inp ax1 oracle choose).length = (occKeys inp epsSq).ncard := by
  have hnd : ((find inp ax1 oracle choose).map Match.key).Nodup := by
    rw [find_keys_eq]; exact nodup_filterMap_key _ _ _ (findGroups_keys_nodup inp ax1 oracle)
  have := ncard_of_nodup_list _ (occKeys inp epsSq) hnd (fun k => find_keys_iff_occ inp ax1 oracle choose epsSq h k)
  rw [this]; simp

/-- **find_count_replicate_partial.** Searching the a×b×c supercell reports exactly a·b·c times the unit-cell count —
    under `countGuards` and `FindIsOcc` for both searches (whatever hints, oracles and choosers they use).
    Missing for full strength: C01 soundness for the code's oracle and `OracleAligns` (float numerics). -/
theorem find_count_replicate_partial (inp : FindInput) (a b c : Nat) (epsSq : Rat) (hG : countGuards inp epsSq = true)
    (ax1 ax1' : Nat) (oracle oracle' : Nat → Nat → Quat) (choose choose' : Nat → List Nat → Nat)
    (h : FindIsOcc inp ax1 oracle choose epsSq) (h' : FindIsOcc (inp.replicate a b c) ax1' oracle' choose' epsSq) :
    (find (inp.replicate a b c) ax1' oracle' choose').length = a * b * c * (find inp ax1 oracle choose).length := by
  rw [find_count_eq_occ_partial _ _ _ _ _ h', find_count_eq_occ_partial _ _ _ _ _ h, occ_replicate_count inp a b c epsSq hG]

/-- `FindIsOcc` without its `distinct` field: on the guarded domain the atoms of an occurrence are pairwise different
    atoms by `occ_atoms_distinct`, so only the guards, soundness (C01) and `OracleAligns` remain as hypotheses -/
theorem findIsOcc_of_guards (inp : FindInput) (ax1 : Nat) (oracle : Nat → Nat → Quat) (choose : Nat → List Nat → Nat)
    (epsSq : Rat) (hS : searchGuards inp = true) (hG : countGuards inp epsSq = true)
    (sound : ∀ k ∈ (find inp ax1 oracle choose).map Match.key, Occ inp epsSq k)
    (aligned : ∀ g n, RigidOccurrence inp epsSq g n → OracleAligns inp ax1 oracle (occTuple inp g n)) :
    FindIsOcc inp ax1 oracle choose epsSq :=
  { guards := hS, eps := (countGuards_spec inp epsSq hG).eps, sound := sound,
    distinct := fun g n h i j hji hi e => by
      have := occ_atoms_distinct inp epsSq (countGuards_spec inp epsSq hG) g n h j i (by omega) hi e
      omega
    aligned := aligned }

/-! ## non-vacuity -/

/-- a roomy cell (8 Å cube, O…O pattern of 1.5 Å, atol 0.05): the guard holds for exact fits and for ε = atol/2 -/
example : countGuards c03Sym 0 = true := by decide +kernel
example : countGuards c03Sym (1/1600) = true := by decide +kernel

/-- the narrow cell of the counterexample fails the guard (width 1.5 Å < 2·(1.25 + 0.1) Å) although it satisfies
    the guards of the completeness theorem -/
example : countGuards c03Narrow 0 = false := by decide +kernel
example : searchGuards c03Narrow = true := by decide +kernel

/-- the unit cell of `c03Sym` has an occurrence (Props/C03.lean: `Occ c03Sym 0 [0, 1]`); its 2×1×1 supercell is a
    concrete `FindInput` with 4 atoms and a 16 Å edge -/
example : (c03Sym.replicate 2 1 1).pos.length = 4 ∧ (c03Sym.replicate 2 1 1).cell.a.x = 16 := by decide +kernel

/-- a half turn about z is a rotation in the sense of `occ_turn`; it maps the 8 Å cube onto diag(−8, −8, 8) -/
example : (⟨⟨-1, 0, 0⟩, ⟨0, -1, 0⟩, ⟨0, 0, 1⟩⟩ : Mat3).IsProperRotation ∧
    (⟨⟨-1, 0, 0⟩, ⟨0, -1, 0⟩, ⟨0, 0, 1⟩⟩ : Mat3).transpose.IsProperRotation ∧
    (c03Sym.turn ⟨⟨-1, 0, 0⟩, ⟨0, -1, 0⟩, ⟨0, 0, 1⟩⟩).cell = ⟨⟨-8, 0, 0⟩, ⟨0, -8, 0⟩, ⟨0, 0, 8⟩⟩ := by
  unfold Mat3.IsProperRotation Mat3.transpose; decide +kernel

end Mofun
