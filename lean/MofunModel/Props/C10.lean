/-
  C10 — deleting atoms removes exactly them and the terms that touch them.
  Property theorems only (helper lemmas: Proofs/DeleteLemmas.lean).  Model: Model/Topo.lean
  (`Atoms.delete` = `__delitem__`, `deleteTerms` = `_delete_and_reindex_atom_index_array`, `Atoms.pop`).
-/
import MofunModel.Proofs.DeleteLemmas

namespace Mofun

/-- a term survives a deletion iff none of its atoms is deleted -/
def Term.survives (idx : List Nat) (t : Term) : Prop := ∀ x ∈ t.atoms, x ∉ idx

instance (idx : List Nat) (t : Term) : Decidable (t.survives idx) := by
  unfold Term.survives; infer_instance

/-- index of a surviving atom after the deletion: its old index minus the number of deleted indices below it -/
def newIndex (idx : List Nat) (x : Nat) : Nat := x - rankBelow idx x

/-- Deletion succeeds exactly for index lists inside the array (numpy raises IndexError otherwise). -/
theorem delete_ok_iff (a : Atoms) (idx : List Nat) :
    (∃ r, a.delete idx = .ok r) ↔ ∀ i ∈ idx, i < a.atoms.length := by
  unfold Atoms.delete
  by_cases h : idx.any (fun i => decide (i ≥ a.atoms.length)) = true
  · simp only [h, if_true]
    constructor
    · rintro ⟨r, hr⟩; cases hr
    · intro hall
      obtain ⟨i, hi, hge⟩ := List.any_eq_true.mp h
      have := hall i hi; simp at hge; omega
  · simp only [h]
    constructor
    · intro _ i hi
      have : ¬ (i ≥ a.atoms.length) := fun hge => h (List.any_eq_true.mpr ⟨i, hi, by simpa using hge⟩)
      omega
    · intro _; exact ⟨_, rfl⟩

theorem deleteIdx_go_eq {α} (idx : List Nat) (l : List α) (off : Nat) :
    deleteIdx.go idx l off = ((l.zipIdx off).filter (fun p => !idx.contains p.2)).map (·.1) := by
  induction l generalizing off with
  | nil => simp [deleteIdx.go]
  | cons y ys ih =>
    by_cases h : off ∈ idx <;> simp [deleteIdx.go, List.zipIdx_cons, h, ih]

/-- **delete_atoms.** The atoms after `del a[idx]` are exactly the atoms whose position is not listed in `idx`,
    in their original order and with all their data; type tables, labels and cell are untouched. -/
theorem delete_atoms (a r : Atoms) (idx : List Nat) (h : a.delete idx = .ok r) :
    r.atoms = ((a.atoms.zipIdx).filter (fun p => !idx.contains p.2)).map (·.1)
    ∧ r.typeElems = a.typeElems ∧ r.typeLabels = a.typeLabels ∧ r.typeMasses = a.typeMasses
    ∧ r.pairCoeffs = a.pairCoeffs ∧ r.xlabels = a.xlabels ∧ r.cell = a.cell
    ∧ r.bonds.coeffs = a.bonds.coeffs ∧ r.angles.coeffs = a.angles.coeffs
    ∧ r.dihedrals.coeffs = a.dihedrals.coeffs ∧ r.impropers.coeffs = a.impropers.coeffs := by
  unfold Atoms.delete at h
  split at h
  · cases h
  · cases h
    refine ⟨?_, rfl, rfl, rfl, rfl, rfl, rfl, rfl, rfl, rfl, rfl⟩
    simp [deleteIdx, deleteIdx_go_eq]

/-- **delete_terms_iff** (one statement per kind, via the generic table).  The surviving terms are exactly the
    terms none of whose atoms is deleted, in their original order, each with its type and extra fields, and with
    every atom index re-mapped by the code's re-index loop. -/
theorem delete_terms_eq (ts : List Term) (idx : List Nat) :
    deleteTerms ts idx =
      (ts.filter (fun t => decide (t.survives idx))).map
        (fun t => { t with atoms := t.atoms.map (reindex (sortDesc idx)) }) := by
  unfold deleteTerms
  show List.map _ (List.filter _ ts) = _
  congr 1
  apply List.filter_congr
  intro t _
  have : (t.atoms.any fun a => idx.contains a) = !decide (t.survives idx) := by
    by_cases hs : t.survives idx
    · simp only [hs, decide_true, Bool.not_true]
      apply List.any_eq_false.mpr; intro x hx; simpa using hs x hx
    · simp only [hs, decide_false, Bool.not_false]
      have : ∃ x, x ∈ t.atoms ∧ x ∈ idx :=
        Classical.byContradiction (fun hc => hs (fun x hx hm => hc ⟨x, hx, hm⟩))
      obtain ⟨x, hx, hm⟩ := this
      exact List.any_eq_true.mpr ⟨x, hx, by simpa using hm⟩
  rw [this]; simp

theorem delete_terms_iff (ts : List Term) (idx : List Nat) (t' : Term) :
    t' ∈ deleteTerms ts idx ↔
      ∃ t ∈ ts, t.survives idx ∧ t'.ty = t.ty ∧ t'.extra = t.extra
        ∧ t'.atoms = t.atoms.map (reindex (sortDesc idx)) := by
  rw [delete_terms_eq]
  simp only [List.mem_map, List.mem_filter, decide_eq_true_eq]
  constructor
  · rintro ⟨t, ⟨ht, hs⟩, rfl⟩; exact ⟨t, ht, hs, rfl, rfl, rfl⟩
  · rintro ⟨t, ht, hs, h1, h2, h3⟩
    refine ⟨t, ⟨ht, hs⟩, ?_⟩
    cases t'; cases t; simp_all

/-- the four kinds of an `Atoms` object are deleted with that generic function -/
theorem delete_kinds (a r : Atoms) (idx : List Nat) (h : a.delete idx = .ok r) :
    r.bonds.terms = deleteTerms a.bonds.terms idx ∧ r.angles.terms = deleteTerms a.angles.terms idx
    ∧ r.dihedrals.terms = deleteTerms a.dihedrals.terms idx
    ∧ r.impropers.terms = deleteTerms a.impropers.terms idx
    ∧ r.bonds.xlabels = a.bonds.xlabels ∧ r.angles.xlabels = a.angles.xlabels
    ∧ r.dihedrals.xlabels = a.dihedrals.xlabels ∧ r.impropers.xlabels = a.impropers.xlabels := by
  unfold Atoms.delete at h
  split at h
  · cases h
  · cases h; simp [TermTable.delete]

/-- **reindex_eq_rank.** For distinct deleted indices, the code's loop ("for each deleted index, highest first,
    subtract one from the entries above it") maps a surviving index to its rank among the survivors. -/
theorem reindex_eq_rank (idx : List Nat) (hnd : idx.Nodup) (x : Nat) (hx : x ∉ idx) :
    reindex (sortDesc idx) x = newIndex idx x :=
  reindex_eq_rank' idx hnd x hx

/-- **delete_same_physical_atoms.** Every surviving term still connects the same physical atoms: the atom row
    found at a re-mapped index in the new atom list is the row the term pointed to before. -/
theorem delete_same_physical_atoms (a r : Atoms) (idx : List Nat) (hnd : idx.Nodup)
    (h : a.delete idx = .ok r) (t : Term) (hs : t.survives idx) (x : Nat) (hx : x ∈ t.atoms)
    (hlt : x < a.atoms.length) :
    r.atoms[reindex (sortDesc idx) x]? = a.atoms[x]? := by
  have hr : r.atoms = deleteIdx a.atoms idx := by
    unfold Atoms.delete at h
    split at h
    · cases h
    · cases h; rfl
  rw [hr, reindex_eq_rank idx hnd x (hs x hx)]
  exact deleteIdx_getElem? a.atoms idx hnd x hlt (hs x hx)

/-- **delete_perm_invariant.** The result does not depend on the order in which the indices are listed. -/
theorem delete_perm_invariant (a : Atoms) (idx idx' : List Nat) (hp : idx.Perm idx') (hnd : idx.Nodup) :
    a.delete idx = a.delete idx' := by
  have hnd' : idx'.Nodup := hp.nodup_iff.mp hnd
  have hc : ∀ x, idx.contains x = idx'.contains x := by
    intro x; simp [hp.mem_iff]
  have hany : idx.any (fun i => decide (i ≥ a.atoms.length)) = idx'.any (fun i => decide (i ≥ a.atoms.length)) := by
    rw [Bool.eq_iff_iff]; simp [List.any_eq_true, hp.mem_iff]
  have hdel : ∀ {α} (l : List α), deleteIdx l idx = deleteIdx l idx' := by
    intro α l
    simp only [deleteIdx, deleteIdx_go_eq]
    congr 1
    apply List.filter_congr
    intro p _; rw [hc]
  have hterms : ∀ ts : List Term, deleteTerms ts idx = deleteTerms ts idx' := by
    intro ts
    rw [delete_terms_eq, delete_terms_eq]
    have hsurv : ∀ t : Term, t.survives idx ↔ t.survives idx' := by
      intro t; unfold Term.survives; simp [hp.mem_iff]
    have hf : ts.filter (fun t => decide (t.survives idx)) = ts.filter (fun t => decide (t.survives idx')) := by
      apply List.filter_congr; intro t _; simp [hsurv t]
    rw [hf]
    apply List.map_congr_left
    intro t ht
    have hs' : t.survives idx' := by simpa using (List.mem_filter.mp ht).2
    have hs : t.survives idx := (hsurv t).mpr hs'
    have : t.atoms.map (reindex (sortDesc idx)) = t.atoms.map (reindex (sortDesc idx')) := by
      apply List.map_congr_left
      intro x hx
      rw [reindex_eq_rank' idx hnd x (hs x hx), reindex_eq_rank' idx' hnd' x (hs' x hx), rankBelow_perm hp]
    rw [this]
  unfold Atoms.delete
  simp only [hany, TermTable.delete, hterms]
  rw [hdel a.atoms]

/-- **pop_spec.** `pop(i)` on a non-empty structure is the deletion of the single atom `i mod n`
    (python's `%`, so `pop(-1)` – the default – removes the last atom), and that index is valid. -/
theorem pop_spec (a : Atoms) (i : Int) (hne : a.atoms ≠ []) :
    a.pop i = a.delete [(i % (a.atoms.length : Int)).toNat]
    ∧ (i % (a.atoms.length : Int)).toNat < a.atoms.length := by
  have hpos : 0 < a.atoms.length := List.length_pos_iff.mpr hne
  constructor
  · unfold Atoms.pop
    have : a.atoms.isEmpty = false := by simpa using hne
    simp [this]
  · have h1 : 0 ≤ i % (a.atoms.length : Int) := Int.emod_nonneg _ (by omega)
    have h2 : i % (a.atoms.length : Int) < a.atoms.length := Int.emod_lt_of_pos _ (by omega)
    omega

theorem pop_default_is_last (a : Atoms) (hne : a.atoms ≠ []) :
    a.pop (-1) = a.delete [a.atoms.length - 1] := by
  have hpos : 0 < a.atoms.length := List.length_pos_iff.mpr hne
  rw [(pop_spec a (-1) hne).1]
  congr 2
  have : (-1 : Int) % (a.atoms.length : Int) = (a.atoms.length : Int) - 1 := by
    have h := Int.add_mul_emod_self_left ((a.atoms.length : Int) - 1) (a.atoms.length : Int) (-1)
    have e : (a.atoms.length : Int) - 1 + (a.atoms.length : Int) * (-1) = -1 := by omega
    rw [e] at h
    rw [h]
    exact Int.emod_eq_of_lt (by omega) (by omega)
  rw [this]; omega

/-! ### non-vacuity: a concrete structure meeting every hypothesis above -/

def exC10 : Atoms :=
  { Atoms.empty with
    atoms := [⟨0, ⟨0, 0, 0⟩, 1, 0, []⟩, ⟨1, ⟨1, 0, 0⟩, 2, 0, []⟩, ⟨1, ⟨2, 0, 0⟩, 3, 0, []⟩, ⟨0, ⟨3, 0, 0⟩, 4, 0, []⟩]
    bonds := ⟨[⟨[0, 1], 0, []⟩, ⟨[2, 3], 1, []⟩, ⟨[3, 0], 0, []⟩], ["k1", "k2"], []⟩
    typeElems := ["C", "H"], typeLabels := ["C", "H"], typeMasses := [12, 1] }

example : ∃ r, exC10.delete [1] = .ok r ∧ r.atoms.length = 3
    ∧ r.bonds.terms = [⟨[1, 2], 1, []⟩, ⟨[2, 0], 0, []⟩] := ⟨_, rfl, by decide, by decide⟩
example : ([1] : List Nat).Nodup ∧ (⟨[2, 3], 1, []⟩ : Term).survives [1] := by
  constructor <;> simp [Term.survives]
example : exC10.pop (-1) = exC10.delete [3] := pop_default_is_last exC10 (by decide)

end Mofun
