/-
  C20 (stretch) — what a command-line run COMPUTES equals the API pipeline.
  Property theorems only.  Model: Model/CliRun.lean (`runCalls` interprets the call list of Model/Cli.lean over the
  models of the operations; `apiPipeline` is the same computation written against the API); helper lemmas:
  Proofs/CliRunLemmas.lean.

  All statements are for EVERY option record and EVERY environment (file contents, search results, sampled
  positions, pair-coefficient text — see `Env`).
-/
import MofunModel.Proofs.CliRunLemmas
import MofunModel.Props.C20

namespace Mofun.Cli

/-- **run_accepted_eq_api.**  When the plan accepts the options for the probed cell, executing it gives exactly
    what the API pipeline gives — the same file and matches, or the same error. -/
theorem run_accepted_eq_api (env : Env) (o : Options) (c : Option CellInfo)
    (hp : probeCell env o = .ok c) (hacc : planError o c = none) :
    runPlan env o = apiPipeline env o := by
  have hplan : plan o c = .ok (planCalls o c) := by unfold plan; rw [hacc]
  have := runCalls_eq_api env o c _ hp hplan
  unfold runPlan
  rw [hp]
  simp only [bind, Except.bind, hplan]
  exact this

/-- **run_eq_api.**  For ALL options: the run of the plan and the API pipeline are equal, or both fail (the latter
    only when the probe fails — then with the same error — or the plan refuses the options). -/
theorem run_eq_api (env : Env) (o : Options) :
    runPlan env o = apiPipeline env o ∨ (Fails (runPlan env o) ∧ Fails (apiPipeline env o)) := by
  cases hp : probeCell env o with
  | error e =>
    left
    rw [probe_error env o e hp]
    unfold runPlan; rw [hp]; rfl
  | ok c =>
    cases hacc : planError o c with
    | none => exact Or.inl (run_accepted_eq_api env o c hp hacc)
    | some e =>
      right
      have hplan : plan o c = .error e := by unfold plan; rw [hacc]
      refine ⟨⟨e, ?_⟩, rejected_fails env o c e hp hplan⟩
      unfold runPlan; rw [hp]
      simp only [bind, Except.bind, hplan]

/-- the successful results coincide, for ALL options -/
theorem run_eq_api_toOption (env : Env) (o : Options) :
    (runPlan env o).toOption = (apiPipeline env o).toOption := by
  rcases run_eq_api env o with h | ⟨⟨e1, h1⟩, ⟨e2, h2⟩⟩
  · rw [h]
  · rw [h1, h2]; rfl

/-- … in particular a run succeeds with `out` iff the pipeline does -/
theorem run_ok_iff_api_ok (env : Env) (o : Options) (out : Output) :
    runPlan env o = .ok out ↔ apiPipeline env o = .ok out := by
  rcases run_eq_api env o with h | ⟨⟨e1, h1⟩, ⟨e2, h2⟩⟩
  · rw [h]
  · rw [h1, h2]; constructor <;> intro h <;> cases h

/-- **mic_never_rejected.**  The minimum-image factors are at least 1 in every direction, whatever the cutoff (zero and
    negative cutoffs included): the replication they are handed to never refuses them — on an orthorhombic cell with
    positive lengths the minimum-image step is exactly `replicate` by those factors. -/
theorem mic_never_rejected (a : Atoms) (M : Mat3) (mic : Rat) (hc : a.cell = some M) (ho : M.isOrtho = true)
    (hpos : 0 < M.a.x ∧ 0 < M.b.y ∧ 0 < M.c.z) :
    micStep a mic = a.replicate (micDims mic (diagOf M)).1.toNat (micDims mic (diagOf M)).2.1.toNat
      (micDims mic (diagOf M)).2.2.toNat := by
  have h := mic_dims_spec mic (diagOf M) hpos.1 hpos.2.1 hpos.2.2
  unfold micStep
  simp only [hc, ho, ↓reduceIte, hpos, and_self, replicateInt, h.1]

/-! ## sequencing, on the executed plan -/

/-- **run_stages.**  A successful run went through these structures, in this order: loaded and overridden `a3`;
    `--replicate` applied to it (`a4`); the minimum-image replication computed from `a4`'s own cell (`a5`); pair
    parameters on `a5` (`a6`); the search or replacement on `a6`; and the file written holds the result of that.
    So replicate precedes the minimum image, which precedes the pair parameters, which precede find / replace,
    which precedes the save — as computations, not only as a call list. -/
theorem run_stages (env : Env) (o : Options) (out : Output) (h : runPlan env o = .ok out) :
    ∃ a0 a1 a2 a3 a4 a5 a6 a7 rep,
      apiLoad env o = .ok a0 ∧ apiExtractUc env o a0 = .ok a1 ∧ apiDump env o a1 = .ok a2
      ∧ apiCharges env o a2 = .ok a3 ∧ apiReplicate o a3 = .ok a4 ∧ apiMic o a4 = .ok a5
      ∧ apiPp env o a5 = .ok a6 ∧ apiSearch env o a6 = .ok (a7, rep) ∧ o.frameworkElement = none
      ∧ apiSave o a7 = .ok out.written ∧ out.reported = rep := by
  rw [run_ok_iff_api_ok, apiPipeline_eq_chain] at h
  unfold apiChain at h
  cases h0 : apiLoad env o with
  | error e => rw [h0] at h; cases h
  | ok a0 =>
  rw [h0] at h; simp only [andThen_ok] at h
  cases h1 : apiExtractUc env o a0 with
  | error e => rw [h1] at h; cases h
  | ok a1 =>
  rw [h1] at h; simp only [andThen_ok] at h
  cases h2 : apiDump env o a1 with
  | error e => rw [h2] at h; cases h
  | ok a2 =>
  rw [h2] at h; simp only [andThen_ok] at h
  cases h3 : apiCharges env o a2 with
  | error e => rw [h3] at h; cases h
  | ok a3 =>
  rw [h3] at h; simp only [andThen_ok] at h
  cases h4 : apiReplicate o a3 with
  | error e => rw [h4] at h; cases h
  | ok a4 =>
  rw [h4] at h; simp only [andThen_ok] at h
  cases h5 : apiMic o a4 with
  | error e => rw [h5] at h; cases h
  | ok a5 =>
  rw [h5] at h; simp only [andThen_ok] at h
  cases h6 : apiPp env o a5 with
  | error e => rw [h6] at h; cases h
  | ok a6 =>
  rw [h6] at h; simp only [andThen_ok] at h
  cases h7 : apiSearch env o a6 with
  | error e => rw [h7] at h; cases h
  | ok r =>
  rw [h7] at h; simp only [andThen_ok] at h
  obtain ⟨a7, rep⟩ := r
  cases hfw : o.frameworkElement with
  | some e => simp only [apiFramework, hfw, andThen_error] at h; cases h
  | none =>
  simp only [apiFramework, hfw, andThen_ok] at h
  cases h9 : apiSave o a7 with
  | error e => rw [h9] at h; cases h
  | ok w =>
  rw [h9] at h; simp only [andThen_ok] at h
  cases h
  exact ⟨a0, a1, a2, a3, a4, a5, a6, a7, rep, rfl, h1, h2, h3, h4, h5, h6, h7, rfl, h9, rfl⟩

/-- **run_find_only_unmodified.**  A successful find-only run reports matches and writes exactly the file the same
    run WITHOUT the find pattern writes: the search leaves the structure untouched. -/
theorem run_find_only_unmodified (env : Env) (o : Options) (f : String) (out : Output)
    (hf : o.findPath = some f) (hr : o.replacePath = none) (h : runPlan env o = .ok out) :
    ∃ out', runPlan env { o with findPath := none } = .ok out' ∧ out'.written = out.written
      ∧ out'.reported = none ∧ out.reported.isSome = true := by
  obtain ⟨a0, a1, a2, a3, a4, a5, a6, a7, rep, h0, h1, h2, h3, h4, h5, h6, h7, hfw, h9, hrep⟩ := run_stages env o out h
  have hs : a7 = a6 ∧ rep.isSome = true := by
    unfold apiSearch at h7
    rw [hf, hr] at h7
    simp only at h7
    cases hl : env.load f with
    | error e => rw [hl] at h7; cases h7
    | ok p =>
      rw [hl] at h7
      simp only at h7
      cases hfo : findOp env a6 p o.atol o.hints with
      | error e => rw [hfo] at h7; cases h7
      | ok ms => rw [hfo] at h7; cases h7; exact ⟨rfl, rfl⟩
  obtain ⟨rfl, hsome⟩ := hs
  refine ⟨⟨out.written, none⟩, ?_, rfl, rfl, by rw [hrep]; exact hsome⟩
  rw [run_ok_iff_api_ok, apiPipeline_eq_chain]
  unfold apiChain
  have e0 : apiLoad env { o with findPath := none } = .ok a0 := h0
  have e1 : apiExtractUc env { o with findPath := none } a0 = .ok a1 := h1
  have e2 : apiDump env { o with findPath := none } a1 = .ok a2 := h2
  have e3 : apiCharges env { o with findPath := none } a2 = .ok a3 := h3
  have e4 : apiReplicate { o with findPath := none } a3 = .ok a4 := h4
  have e5 : apiMic { o with findPath := none } a4 = .ok a5 := h5
  have e6 : apiPp env { o with findPath := none } a5 = .ok a7 := h6
  have e7 : apiSearch env { o with findPath := none } a7 = .ok (a7, none) := rfl
  have e8 : apiFramework { o with findPath := none } a7 = .ok a7 := by
    show apiFramework o a7 = .ok a7
    unfold apiFramework; rw [hfw]
  have e9 : apiSave { o with findPath := none } a7 = .ok out.written := h9
  simp only [e0, e1, e2, e3, e4, e5, e6, e7, e8, e9, andThen_ok]

/-! ## changing only option X changes only the argument of operation X (on the call list) -/

def Call.withAtol (x : Rat) : Call → Call
  | .find _ h => .find x h
  | .replace _ h f => .replace x h f
  | c => c

def Call.withFraction (x : Rat) : Call → Call
  | .replace a h _ => .replace a h x
  | c => c

def Call.withHints (x : Hints) : Call → Call
  | .find a _ => .find a x
  | .replace a _ f => .replace a x f
  | c => c

def Call.withOutput (p : String) : Call → Call
  | .save _ => .save p
  | .saveAse _ => .saveAse p
  | c => c

def Call.withChargefile (p : String) : Call → Call
  | .setCharges _ => .setCharges p
  | c => c

def Call.withReplicate (d : Nat × Nat × Nat) : Call → Call
  | .replicate _ => .replicate d
  | c => c

def Call.withMicDims (d : Int × Int × Int) : Call → Call
  | .micReplicate _ => .micReplicate d
  | c => c

private theorem map_id_of {f : Call → Call} {l : List Call} (h : ∀ x ∈ l, f x = x) : l.map f = l := by
  induction l with
  | nil => rfl
  | cons y ys ih =>
    simp only [List.map_cons, h y (List.mem_cons_self ..)]
    rw [ih (fun x hx => h x (List.mem_cons_of_mem _ hx))]

/-- a call transformer that only touches calls of block `k` leaves every other segment as it is -/
private theorem map_seg_other {f : Call → Call} {k : Nat} (hf : ∀ x, stage x ≠ k → f x = x)
    (o : Options) (c : Option CellInfo) (j : Nat) (hj : j ≠ k) : (seg o c j).map f = seg o c j :=
  map_id_of (fun x hx => hf x (by rw [seg_stage hx]; exact hj))

private theorem planCalls_map (f : Call → Call) (o : Options) (c : Option CellInfo) :
    (planCalls o c).map f = (seg o c 0).map f ++ ((seg o c 1).map f ++ ((seg o c 2).map f ++ ((seg o c 3).map f ++
      ((seg o c 4).map f ++ ((seg o c 5).map f ++ ((seg o c 6).map f ++ ((seg o c 7).map f ++ ((seg o c 8).map f ++
        (seg o c 9).map f)))))))) := by
  simp only [planCalls, List.map_append]

/-- `--atol` alone: only the tolerance argument of the find / replace call changes -/
theorem opt_atol_only (o : Options) (c : Option CellInfo) (x : Rat) :
    planCalls { o with atol := x } c = (planCalls o c).map (Call.withAtol x) := by
  have hf : ∀ y, stage y ≠ 7 → Call.withAtol x y = y := by intro y hy; cases y <;> first | rfl | exact absurd rfl hy
  rw [planCalls_map]
  simp only [map_seg_other hf o c _ (by decide : (0:Nat) ≠ 7), map_seg_other hf o c _ (by decide : (1:Nat) ≠ 7),
    map_seg_other hf o c _ (by decide : (2:Nat) ≠ 7), map_seg_other hf o c _ (by decide : (3:Nat) ≠ 7),
    map_seg_other hf o c _ (by decide : (4:Nat) ≠ 7), map_seg_other hf o c _ (by decide : (5:Nat) ≠ 7),
    map_seg_other hf o c _ (by decide : (6:Nat) ≠ 7), map_seg_other hf o c _ (by decide : (8:Nat) ≠ 7),
    map_seg_other hf o c _ (by decide : (9:Nat) ≠ 7)]
  have h7 : (seg o c 7).map (Call.withAtol x) = seg { o with atol := x } c 7 := by
    simp only [seg, findSeg]
    cases o.findPath <;> cases o.replacePath <;> rfl
  rw [h7]; rfl

/-- `--replace-fraction` alone: only the fraction argument of the replace call changes -/
theorem opt_fraction_only (o : Options) (c : Option CellInfo) (x : Rat) :
    planCalls { o with replaceFraction := x } c = (planCalls o c).map (Call.withFraction x) := by
  have hf : ∀ y, stage y ≠ 7 → Call.withFraction x y = y := by intro y hy; cases y <;> first | rfl | exact absurd rfl hy
  rw [planCalls_map]
  simp only [map_seg_other hf o c _ (by decide : (0:Nat) ≠ 7), map_seg_other hf o c _ (by decide : (1:Nat) ≠ 7),
    map_seg_other hf o c _ (by decide : (2:Nat) ≠ 7), map_seg_other hf o c _ (by decide : (3:Nat) ≠ 7),
    map_seg_other hf o c _ (by decide : (4:Nat) ≠ 7), map_seg_other hf o c _ (by decide : (5:Nat) ≠ 7),
    map_seg_other hf o c _ (by decide : (6:Nat) ≠ 7), map_seg_other hf o c _ (by decide : (8:Nat) ≠ 7),
    map_seg_other hf o c _ (by decide : (9:Nat) ≠ 7)]
  have h7 : (seg o c 7).map (Call.withFraction x) = seg { o with replaceFraction := x } c 7 := by
    simp only [seg, findSeg]
    cases o.findPath <;> cases o.replacePath <;> rfl
  rw [h7]; rfl

/-- `-ap1 / -ap2 / -op` alone: only the hint arguments of the find / replace call change -/
theorem opt_hints_only (o : Options) (c : Option CellInfo) (x : Hints) :
    planCalls { o with hints := x } c = (planCalls o c).map (Call.withHints x) := by
  have hf : ∀ y, stage y ≠ 7 → Call.withHints x y = y := by intro y hy; cases y <;> first | rfl | exact absurd rfl hy
  rw [planCalls_map]
  simp only [map_seg_other hf o c _ (by decide : (0:Nat) ≠ 7), map_seg_other hf o c _ (by decide : (1:Nat) ≠ 7),
    map_seg_other hf o c _ (by decide : (2:Nat) ≠ 7), map_seg_other hf o c _ (by decide : (3:Nat) ≠ 7),
    map_seg_other hf o c _ (by decide : (4:Nat) ≠ 7), map_seg_other hf o c _ (by decide : (5:Nat) ≠ 7),
    map_seg_other hf o c _ (by decide : (6:Nat) ≠ 7), map_seg_other hf o c _ (by decide : (8:Nat) ≠ 7),
    map_seg_other hf o c _ (by decide : (9:Nat) ≠ 7)]
  have h7 : (seg o c 7).map (Call.withHints x) = seg { o with hints := x } c 7 := by
    simp only [seg, findSeg]
    cases o.findPath <;> cases o.replacePath <;> rfl
  rw [h7]; rfl

/-- the output path alone: only the path argument of the save changes -/
theorem opt_output_only (o : Options) (c : Option CellInfo) (p : String) :
    planCalls { o with output := p } c = (planCalls o c).map (Call.withOutput p) := by
  have hf : ∀ y, stage y ≠ 9 → Call.withOutput p y = y := by intro y hy; cases y <;> first | rfl | exact absurd rfl hy
  rw [planCalls_map]
  simp only [map_seg_other hf o c _ (by decide : (0:Nat) ≠ 9), map_seg_other hf o c _ (by decide : (1:Nat) ≠ 9),
    map_seg_other hf o c _ (by decide : (2:Nat) ≠ 9), map_seg_other hf o c _ (by decide : (3:Nat) ≠ 9),
    map_seg_other hf o c _ (by decide : (4:Nat) ≠ 9), map_seg_other hf o c _ (by decide : (5:Nat) ≠ 9),
    map_seg_other hf o c _ (by decide : (6:Nat) ≠ 9), map_seg_other hf o c _ (by decide : (7:Nat) ≠ 9),
    map_seg_other hf o c _ (by decide : (8:Nat) ≠ 9)]
  have h9 : (seg o c 9).map (Call.withOutput p) = seg { o with output := p } c 9 := by
    simp only [seg, saveSeg]
    cases o.outputNative <;> rfl
  rw [h9]; rfl

/-- the charge file alone (given before and after): only the file argument of the charge override changes -/
theorem opt_chargefile_only (o : Options) (c : Option CellInfo) (p q : String) (h : o.chargefile = some q) :
    planCalls { o with chargefile := some p } c = (planCalls o c).map (Call.withChargefile p) := by
  have hf : ∀ y, stage y ≠ 3 → Call.withChargefile p y = y := by intro y hy; cases y <;> first | rfl | exact absurd rfl hy
  rw [planCalls_map]
  simp only [map_seg_other hf o c _ (by decide : (0:Nat) ≠ 3), map_seg_other hf o c _ (by decide : (1:Nat) ≠ 3),
    map_seg_other hf o c _ (by decide : (2:Nat) ≠ 3), map_seg_other hf o c _ (by decide : (4:Nat) ≠ 3),
    map_seg_other hf o c _ (by decide : (5:Nat) ≠ 3), map_seg_other hf o c _ (by decide : (6:Nat) ≠ 3),
    map_seg_other hf o c _ (by decide : (7:Nat) ≠ 3), map_seg_other hf o c _ (by decide : (8:Nat) ≠ 3),
    map_seg_other hf o c _ (by decide : (9:Nat) ≠ 3)]
  have h3 : (seg o c 3).map (Call.withChargefile p) = seg { o with chargefile := some p } c 3 := by
    simp only [seg, chargeSeg, h]; rfl
  rw [h3]; rfl

/-- `--mic` alone (given before and after, orthorhombic cell): only the factors of the minimum-image replication
    change, to those of the new cutoff -/
theorem opt_mic_only (o : Options) (ci : CellInfo) (m m' : Rat) (h : o.mic = some m) (ho : ci.ortho = true) :
    planCalls { o with mic := some m' } (some ci)
      = (planCalls o (some ci)).map (Call.withMicDims (micDims m' (scaleDiag ci.diag o.replicate))) := by
  generalize hd : micDims m' (scaleDiag ci.diag o.replicate) = d
  have hf : ∀ y, stage y ≠ 5 → Call.withMicDims d y = y := by intro y hy; cases y <;> first | rfl | exact absurd rfl hy
  rw [planCalls_map]
  simp only [map_seg_other hf o _ _ (by decide : (0:Nat) ≠ 5), map_seg_other hf o _ _ (by decide : (1:Nat) ≠ 5),
    map_seg_other hf o _ _ (by decide : (2:Nat) ≠ 5), map_seg_other hf o _ _ (by decide : (3:Nat) ≠ 5),
    map_seg_other hf o _ _ (by decide : (4:Nat) ≠ 5), map_seg_other hf o _ _ (by decide : (6:Nat) ≠ 5),
    map_seg_other hf o _ _ (by decide : (7:Nat) ≠ 5), map_seg_other hf o _ _ (by decide : (8:Nat) ≠ 5),
    map_seg_other hf o _ _ (by decide : (9:Nat) ≠ 5)]
  have h5 : (seg o (some ci) 5).map (Call.withMicDims d) = seg { o with mic := some m' } (some ci) 5 := by
    simp only [seg, micSeg, h, ho, ↓reduceIte, List.map_cons, List.map_nil, Call.withMicDims, hd]
  rw [h5]; rfl

/-- `--replicate` alone (given before and after, no `--mic`): only the factors of the `replicate` call change.
    (With `--mic` the minimum-image factors follow, because they are computed on the replicated cell: `opt_mic_reaches`.) -/
theorem opt_replicate_only (o : Options) (c : Option CellInfo) (d d' : Nat × Nat × Nat) (h : o.replicate = some d)
    (hm : o.mic = none) :
    planCalls { o with replicate := some d' } c = (planCalls o c).map (Call.withReplicate d') := by
  have hf : ∀ y, stage y ≠ 4 → Call.withReplicate d' y = y := by intro y hy; cases y <;> first | rfl | exact absurd rfl hy
  rw [planCalls_map]
  simp only [map_seg_other hf o c _ (by decide : (0:Nat) ≠ 4), map_seg_other hf o c _ (by decide : (1:Nat) ≠ 4),
    map_seg_other hf o c _ (by decide : (2:Nat) ≠ 4), map_seg_other hf o c _ (by decide : (3:Nat) ≠ 4),
    map_seg_other hf o c _ (by decide : (5:Nat) ≠ 4), map_seg_other hf o c _ (by decide : (6:Nat) ≠ 4),
    map_seg_other hf o c _ (by decide : (7:Nat) ≠ 4), map_seg_other hf o c _ (by decide : (8:Nat) ≠ 4),
    map_seg_other hf o c _ (by decide : (9:Nat) ≠ 4)]
  have h4 : (seg o c 4).map (Call.withReplicate d') = seg { o with replicate := some d' } c 4 := by
    simp only [seg, replSeg, h]; rfl
  rw [h4]
  simp only [planCalls, seg, micSeg, hm]
  rfl

/-! ## non-vacuity -/

/-- a tiny environment: one two-atom orthorhombic structure under every path, a search that reports one match -/
def exEnv : Env :=
  let a : Atoms := { Atoms.empty with
    atoms := [⟨0, ⟨0, 0, 0⟩, 0, 0, []⟩, ⟨1, ⟨1, 0, 0⟩, 0, 0, []⟩], typeElems := ["C", "S"], typeLabels := ["C", "S"],
    typeMasses := [12, 32], cell := some ⟨⟨5, 0, 0⟩, ⟨0, 10, 0⟩, ⟨0, 0, 25 / 2⟩⟩ }
  { loadLmpdat := fun _ => .ok a, loadCml := fun _ => .ok a, loadCif := fun _ => .ok a, aseRead := fun _ => .ok a,
    dumpPositions := fun _ => .ok [⟨0, 0, 0⟩, ⟨1, 0, 0⟩], chargeValues := fun _ => .ok [1 / 2, -1 / 2],
    search := fun _ _ _ _ => [⟨[0, 1], [⟨0, 0, 0⟩, ⟨1, 0, 0⟩], Quat.identity⟩],
    sample := fun _ _ => [0], pairText := fun k => k }

def exRun : Options :=
  { input := "in.cif", inputNative := true, output := "out.lmpdat", outputNative := true, findPath := some "p.cml",
    chargefile := some "q.txt", replicate := some (2, 1, 1), mic := some 6, pp := true }

instance decEqExcept {α} [DecidableEq α] : DecidableEq (Except Err α) := fun a b =>
  match a, b with
  | .ok x, .ok y => if h : x = y then isTrue (by rw [h]) else isFalse (by intro e; cases e; exact h rfl)
  | .error x, .error y => if h : x = y then isTrue (by rw [h]) else isFalse (by intro e; cases e; exact h rfl)
  | .ok _, .error _ => isFalse (by intro e; cases e)
  | .error _, .ok _ => isFalse (by intro e; cases e)

/-- what the examples look at: number of atoms written, type labels, reported matches -/
def Output.summary (o : Output) : Nat × List String × Option (List (List Nat)) :=
  match o.written with
  | .native _ _ a => (a.atoms.length, a.typeLabels, o.reported)
  | .ase _ els _ _ => (els.length, [], o.reported)

/-- the hypotheses of `run_accepted_eq_api` hold for it, and the run succeeds: 2 atoms × 2 (`--replicate 2 1 1`: cell
    5 × 10 × 12.5 → 10 × 10 × 12.5) × 4 (minimum image for 2·6 = 12: factors 2, 2, 1) = 16 atoms, sulfur typed `S_3+2`
    (not `Si3`), one match reported -/
example : probeCell exEnv exRun = .ok (some ⟨(5, 10, 25 / 2), true⟩) := by decide +kernel
example : planError exRun (some ⟨(5, 10, 25 / 2), true⟩) = none := by decide +kernel
example : (runPlan exEnv exRun).map Output.summary = .ok (16, ["C_3", "S_3+2"], some [[0, 1]]) := by decide +kernel
example : (apiPipeline exEnv exRun).map Output.summary = .ok (16, ["C_3", "S_3+2"], some [[0, 1]]) := by decide +kernel
/-- a rejected run: the same options on a structure without a cell -/
example : Fails (runPlan { exEnv with loadCif := fun _ => .ok Atoms.empty } exRun) := ⟨.nocell, by decide +kernel⟩
/-- guards of `run_find_only_unmodified` -/
example : exRun.findPath = some "p.cml" ∧ exRun.replacePath = none := by decide

end Mofun.Cli
