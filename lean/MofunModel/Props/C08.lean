/-
  C08 — self-replacement is a no-op; element substitutions are reversible.
  Property theorems only (helper lemmas: Proofs/SelfReplaceLemmas.lean, Proofs/WrapLemmas.lean,
  Proofs/PlaceLemmas.lean).  Model: `replaceCore`, `unchangedPairs`, `placeAtoms` (Model/Replace.lean),
  `Atoms.extend`, `Atoms.delete` (Model/Topo.lean), `Mat3.wrap` (Model/Lattice.lean).

  Vocabulary (Proofs/SelfReplaceLemmas.lean, all executable):
    `distinctAtoms p`       no earlier atom of `p` with the same element lies within 1e-5 of a later one
    `noTerms p`             `p` has no bonds / angles / dihedrals / impropers
    `typesValid s`          every type id of `s` has an entry in the element table
    `goodSelfMatch s p m`   `m.idx` has one valid index per pattern atom and the matched atoms' elements are `p`'s
    `termKeys t`            the list of (atom tuple, type id) of a term table
-/
import MofunModel.Proofs.SelfReplaceLemmas
import MofunModel.Proofs.SelfReplaceRoundtrip
import MofunModel.Proofs.SelfReplaceTerms

namespace Mofun.C08

open Mofun

/-! ### wrap -/

/-- **wrap_id_inside** (guard `det ≠ 0`): a point whose fractional coordinates are in `[0, 1)` is fixed by `wrap` -/
theorem wrap_id_inside (L : Mat3) (v : Vec3) (hd : L.det ≠ 0) (h : Mofun.C05.InCell L v) : L.wrap v = v :=
  Mofun.C05.wrap_of_inCell L v hd h

/-! ### find_unchanged_atom_pairs(P, P) -/

/-- the pairing of a pattern with itself is the identity when its atoms are pairwise distinct -/
theorem self_pairs_identity (p : Atoms) (hd : distinctAtoms p = true) :
    unchangedPairs p p = (List.range p.atoms.length).map (fun i => (i, i)) := unchangedPairs_self p hd

/-! ### self-replacement -/

/-- **self_replace_noop**.  Guards: `P`'s atoms pairwise distinct in (element, position); `P` carries no terms;
    `replace_all = false`; every match has one valid index per pattern atom and the element sequence of `P`
    (what the search guarantees; distinctness of the indices is NOT needed); type ids of `S` are valid.
    For ANY list of such matches (overlapping ones included), any rotations/positions in them, either value of
    the `ignore` flag:  the replacement succeeds, and the result has exactly the atoms of `S`, in the same order,
    each with identical position, charge and group and a type id that resolves to the same ELEMENT; the
    (atom tuple, type id) lists of bonds, angles, dihedrals and impropers are those of `S`; the cell is `S`'s. -/
theorem self_replace_noop (s p : Atoms) (ms : List PlacedMatch) (ignore : Bool)
    (hd : distinctAtoms p = true) (hnt : noTerms p = true) (htv : typesValid s = true)
    (hms : ∀ m ∈ ms, goodSelfMatch s p m = true) :
    ∃ r, replaceCore s p p ms false ignore = .ok r ∧
      r.atoms.length = s.atoms.length ∧
      (∀ i, i < s.atoms.length → ∃ a b, s.atoms[i]? = some a ∧ r.atoms[i]? = some b ∧
          b.pos = a.pos ∧ b.charge = a.charge ∧ b.group = a.group ∧ r.elemOf i = s.elemOf i) ∧
      termKeys r.bonds = termKeys s.bonds ∧ termKeys r.angles = termKeys s.angles ∧
      termKeys r.dihedrals = termKeys s.dihedrals ∧ termKeys r.impropers = termKeys s.impropers ∧
      r.cell = s.cell := by
  cases hne : p.atoms.isEmpty with
  | true =>
    -- empty pattern: every match is empty, nothing is deleted
    have hp : p.atoms = [] := List.isEmpty_iff.mp hne
    have hflat : ms.flatMap (·.idx) = [] := by
      rw [List.flatMap_eq_nil_iff]
      intro m hm
      have := hms m hm
      simp only [goodSelfMatch, Bool.and_eq_true, decide_eq_true_eq, hp, List.length_nil] at this
      exact List.eq_nil_of_length_eq_zero this.1.1
    refine ⟨s, ?_, rfl, ?_, rfl, rfl, rfl, rfl, rfl⟩
    · unfold replaceCore
      simp only [hne, if_true, hflat]
      exact delete_nil s
    · intro i hi
      exact ⟨s.atoms[i], s.atoms[i], List.getElem?_eq_getElem hi, List.getElem?_eq_getElem hi, rfl, rfl, rfl, rfl⟩
  | false =>
    obtain ⟨st, hfold, hinv⟩ := fold_inv s p ignore ms _ hd hnt hms (inv_init s p htv)
    refine ⟨st.s, ?_, hinv.len, ?_, hinv.bonds, hinv.angles, hinv.dihedrals, hinv.impropers, hinv.cell⟩
    · rw [replaceCore_self s p ms ignore hne, hfold]
      simp only [hinv.del]
      exact delete_nil st.s
    · intro i hi
      have hi' : i < st.s.atoms.length := by rw [hinv.len]; exact hi
      have hb : st.s.atoms[i]? = some st.s.atoms[i] := List.getElem?_eq_getElem hi'
      obtain ⟨r0, h0, h1, h2, h3, h4⟩ := hinv.rows i _ hb
      refine ⟨r0, st.s.atoms[i], h0, hb, h1, h2, h3, ?_⟩
      rw [← h4]
      simp [Atoms.elemOf, hb, hinv.telems]

/-- the element table after a (non-empty) self-replacement is `S`'s followed by `P`'s: retained atoms carry `P`'s
    type ids shifted behind `S`'s — new ids, same elements -/
theorem self_replace_type_table (s p : Atoms) (ms : List PlacedMatch) (ignore : Bool)
    (hd : distinctAtoms p = true) (hnt : noTerms p = true) (htv : typesValid s = true)
    (hms : ∀ m ∈ ms, goodSelfMatch s p m = true) (hne : p.atoms.isEmpty = false) :
    ∃ r, replaceCore s p p ms false ignore = .ok r ∧ r.typeElems = s.typeElems ++ p.typeElems := by
  obtain ⟨st, hfold, hinv⟩ := fold_inv s p ignore ms _ hd hnt hms (inv_init s p htv)
  refine ⟨st.s, ?_, hinv.telems⟩
  rw [replaceCore_self s p ms ignore hne, hfold]
  simp only [hinv.del]
  exact delete_nil st.s

/-! ### single-site substitution -/

/-- **single_site_exact**: when the replacement atom has the coordinates of the first search atom (site patterns
    `A`, `B` at the same place), it is inserted at exactly the wrapped matched position — for EVERY rotation the
    search may have reported — and at exactly the matched position when that lies inside the cell. -/
theorem single_site_exact (L : Mat3) (hd : L.det ≠ 0) (p0 : Vec3) (r : Atoms) (m : PlacedMatch) (k : Nat)
    (row0 row : AtomRow) (h0 : r.atoms[k]? = some row0) (hsame : row0.pos = p0)
    (h : (placeAtoms (some L) p0 r m).atoms[k]? = some row) :
    row.pos = L.wrap (m.pos.getD 0 Vec3.zero) ∧
    (Mofun.C05.InCell L (m.pos.getD 0 Vec3.zero) → row.pos = m.pos.getD 0 Vec3.zero) := by
  rw [Mofun.C05.placeAtoms_getElem?, h0] at h
  simp only [Option.map_some, Option.some.injEq] at h
  subst h
  have hv : Mofun.C05.insertFrame m.q p0 (m.pos.getD 0 Vec3.zero) row0.pos = m.pos.getD 0 Vec3.zero := by
    unfold Mofun.C05.insertFrame
    rw [hsame, Mofun.C05.sub_self, Mofun.C05.rot_zero]
    apply Mofun.C05.vec3_ext <;> simp [Vec3.add, Vec3.zero]
  constructor
  · simp only [hv]
  · intro hin
    simp only [hv]
    exact Mofun.C05.wrap_of_inCell L _ hd hin

/-! ### self-replacement with a pattern that carries terms -/

/-- **self_replace_terms** — the precise statement behind the known finding
    `C08-self-replacement-adds-the-patterns-own-terms`.  Guards as in `self_replace_noop`, but `P` MAY carry terms (on its own
    atoms: `termsValid`), `P` non-empty.  The replacement succeeds; the atoms are exactly those of `S` (order, position,
    charge, group, resolved element); and for each term kind the tuples of the result (a tuple listed backwards is the same
    tuple) are EXACTLY the tuples of `S` together with the images of `P`'s own terms under every match:
        has r u  ⟺  has S u  ∨  ∃ match m, ∃ term t of P, (t.atoms mapped through m.idx) = u (forwards or backwards).
    So nothing is lost, and what is gained is precisely the pattern's topology on the matched atoms that `S` lacked. -/
theorem self_replace_terms (s p : Atoms) (ms : List PlacedMatch) (ignore : Bool)
    (hd : distinctAtoms p = true) (hpt : termsValid p = true) (htv : typesValid s = true)
    (hms : ∀ m ∈ ms, goodSelfMatch s p m = true) (hne : p.atoms.isEmpty = false) :
    ∃ r, replaceCore s p p ms false ignore = .ok r ∧
      r.atoms.length = s.atoms.length ∧
      (∀ i, i < s.atoms.length → ∃ a b, s.atoms[i]? = some a ∧ r.atoms[i]? = some b ∧
          b.pos = a.pos ∧ b.charge = a.charge ∧ b.group = a.group ∧ r.elemOf i = s.elemOf i) ∧
      TuplesAre s.bonds r.bonds p.bonds ms ∧ TuplesAre s.angles r.angles p.angles ms ∧
      TuplesAre s.dihedrals r.dihedrals p.dihedrals ms ∧ TuplesAre s.impropers r.impropers p.impropers ms ∧
      r.cell = s.cell := by
  obtain ⟨st, hfold, hinv⟩ := fold_invT s p ignore ms _ [] hd hpt hms (inv_initT s p htv)
  rw [List.nil_append] at hinv
  refine ⟨st.s, ?_, hinv.len, ?_, hinv.bonds, hinv.angles, hinv.dihedrals, hinv.impropers, hinv.cell⟩
  · rw [replaceCore_self s p ms ignore hne, hfold]
    simp only [hinv.del]
    exact delete_nil st.s
  · intro i hi
    have hi' : i < st.s.atoms.length := by rw [hinv.len]; exact hi
    have hb : st.s.atoms[i]? = some st.s.atoms[i] := List.getElem?_eq_getElem hi'
    obtain ⟨r0, h0, h1, h2, h3, h4⟩ := hinv.rows i _ hb
    refine ⟨r0, st.s.atoms[i], h0, hb, h1, h2, h3, ?_⟩
    rw [← h4]
    simp [Atoms.elemOf, hb, hinv.telems]

/-- consequence: no tuple of the structure is lost -/
theorem self_replace_terms_nothing_lost (s p : Atoms) (ms : List PlacedMatch) (ignore : Bool)
    (hd : distinctAtoms p = true) (hpt : termsValid p = true) (htv : typesValid s = true)
    (hms : ∀ m ∈ ms, goodSelfMatch s p m = true) (hne : p.atoms.isEmpty = false) :
    ∃ r, replaceCore s p p ms false ignore = .ok r ∧ ∀ u, hasTuple s.bonds.terms u → hasTuple r.bonds.terms u := by
  obtain ⟨r, hr, _, _, hb, _⟩ := self_replace_terms s p ms ignore hd hpt htv hms hne
  exact ⟨r, hr, fun u hu => (hb u).mpr (Or.inl hu)⟩

/-! ### which structure terms a pattern term supersedes -/

/-- **supersede_only_same_tuple**: in `extend` (hence in self-replacement with a pattern that carries terms) a term of
    the structure is dropped in favour of a pattern term iff its atom tuple EQUALS a new tuple forwards or backwards.
    A term over the same SET of atoms in another order — the other angles of a 3-ring, the other torsions of a
    4-ring — is never superseded. -/
theorem supersede_only_same_tuple (old : List Term) (new : List (List Nat)) (i : Nat) :
    i ∈ existingIdx old new ↔ ∃ t, old[i]? = some t ∧ ∃ u ∈ new, t.atoms = u ∨ t.atoms = u.reverse := by
  unfold existingIdx
  simp only [List.mem_filter, List.mem_range]
  constructor
  · rintro ⟨hi, h⟩
    have hget : old[i]? = some old[i] := List.getElem?_eq_getElem hi
    rw [hget] at h
    simp only [Bool.or_eq_true, List.any_eq_true, decide_eq_true_eq] at h
    refine ⟨old[i], hget, ?_⟩
    rcases h with ⟨u, hu, e⟩ | ⟨u, hu, e⟩
    · exact ⟨u, hu, Or.inl e⟩
    · exact ⟨u, hu, Or.inr e⟩
  · rintro ⟨t, ht, u, hu, e⟩
    have hi : i < old.length := by
      rcases Nat.lt_or_ge i old.length with h | h
      · exact h
      · rw [List.getElem?_eq_none h] at ht; cases ht
    refine ⟨hi, ?_⟩
    rw [ht]
    simp only [Bool.or_eq_true, List.any_eq_true, decide_eq_true_eq]
    rcases e with e | e
    · exact Or.inl ⟨u, hu, e⟩
    · exact Or.inr ⟨u, hu, e⟩

/-- the angles (1,2,0) and (2,0,1) of a 3-ring survive a pattern angle (0,1,2); only the identical one (listed
    backwards here) is replaced -/
example : existingIdx [⟨[2, 1, 0], 0, []⟩, ⟨[1, 2, 0], 1, []⟩, ⟨[2, 0, 1], 0, []⟩] [[0, 1, 2]] = [0] := by decide

/-! ### the round trip A → B → A -/

/-- the multiset carrier of the property: (element, position) of every atom, in order -/
def pairs (a : Atoms) : List (String × Vec3) := a.atoms.map (fun r => (a.typeElems.getD r.ty "", r.pos))

/-- a match of the one-atom pattern `a` in `s` as the search reports it: one valid index, the right element, the
    atom's own (home-cell) position, which lies inside the cell -/
def goodSiteMatch (s a : Atoms) (L : Mat3) (m : PlacedMatch) : Prop :=
  m.idx = [idx0 m] ∧ idx0 m < s.atoms.length ∧ s.elemOf (idx0 m) = a.elemOf 0 ∧
  (s.atoms[idx0 m]?).map (·.pos) = some (pos0 m) ∧ Mofun.C05.InCell L (pos0 m)

instance (s a : Atoms) (L : Mat3) (m : PlacedMatch) : Decidable (goodSiteMatch s a L m) := by
  unfold goodSiteMatch; infer_instance

theorem pairs_eq (a : Atoms) : pairs a = (a.atoms.map tp).map (fun t => (a.typeElems.getD t.1 "", t.2)) := by
  simp [pairs, tp, List.map_map, Function.comp_def]

/-- **single_site_roundtrip**.  One-atom site patterns `A`, `B` at the same coordinates with different elements, both
    without terms; `S` periodic (det ≠ 0) with valid type ids; `ms1` = matches of `A` in `S` (distinct atoms, each
    inside the cell); `ms2` = what a search for `B` reports in the intermediate structure when `S` contained no `B`:
    exactly the atoms inserted by the first step (they are the last `|ms1|` atoms), at their positions.
    Then both replacements succeed and the (element, position) pairs of the final structure are a PERMUTATION of those
    of `S` — exactly, for all rotations the search may have reported and both values of the `ignore` flags. -/
theorem single_site_roundtrip (s a b : Atoms) (L : Mat3) (ra rb : AtomRow) (ig1 ig2 : Bool)
    (hd : L.det ≠ 0) (hcell : s.cell = some L) (ha : a.atoms = [ra]) (hb : b.atoms = [rb]) (hpos : rb.pos = ra.pos)
    (hdiff : b.elemOf 0 ≠ a.elemOf 0) (hnta : noTerms a = true) (hntb : noTerms b = true)
    (htv : typesValid s = true) (ms1 ms2 : List PlacedMatch)
    (h1 : ∀ m ∈ ms1, goodSiteMatch s a L m) (hnd : (ms1.map idx0).Nodup)
    (h2i : ms2.map (·.idx) = (List.range ms1.length).map (fun j => [s.atoms.length - ms1.length + j]))
    (h2p : ms2.map pos0 = ms1.map (fun m => L.wrap (pos0 m))) :
    ∃ r1 r2, replaceCore s a b ms1 false ig1 = .ok r1 ∧ replaceCore r1 b a ms2 false ig2 = .ok r2 ∧
      (pairs r2).Perm (pairs s) := by
  simp only [noTerms, Bool.and_eq_true, List.isEmpty_iff] at hnta hntb
  have hS1 : SiteHyp s a b L ra rb := ⟨hcell, ha, hb, hpos, hdiff, ⟨hntb.1.1.1, hntb.1.1.2, hntb.1.2, hntb.2⟩⟩
  have hval1 : ∀ m ∈ ms1, idx0 m < s.atoms.length := fun m hm => (h1 m hm).2.1
  obtain ⟨r1, e1, t1, c1, a1⟩ := site_replace_spec s a b L ra rb hS1 ig1 ms1 (fun m hm => (h1 m hm).1) hnd hval1
  -- sizes
  have hperm := perm_keepIdx (s.atoms.map tp) (ms1.map idx0) (0, Vec3.zero) hnd
    (by intro i hi; obtain ⟨m, hm, rfl⟩ := List.mem_map.mp hi; simpa using hval1 m hm)
  have hK : (keepIdx (s.atoms.map tp) (ms1.map idx0)).length = s.atoms.length - ms1.length := by
    have := hperm.length_eq
    simp only [List.length_map, List.length_append] at this
    omega
  have hM : ms1.length ≤ s.atoms.length := by
    have := hperm.length_eq
    simp only [List.length_map, List.length_append] at this
    omega
  -- the second step
  have hS2 : SiteHyp r1 b a L rb ra :=
    ⟨by rw [c1]; exact hcell, hb, ha, hpos.symm, fun h => hdiff h.symm, ⟨hnta.1.1.1, hnta.1.1.2, hnta.1.2, hnta.2⟩⟩
  have hidx2 : ms2.map idx0 = (List.range ms1.length).map (fun j => s.atoms.length - ms1.length + j) := by
    have := congrArg (List.map (fun l : List Nat => l.getD 0 0)) h2i
    rw [List.map_map, List.map_map] at this
    exact this
  have hms2 : ∀ m ∈ ms2, m.idx = [idx0 m] := by
    intro m hm
    have : m.idx ∈ ms2.map (·.idx) := List.mem_map_of_mem hm
    rw [h2i] at this
    obtain ⟨j, _, hj⟩ := List.mem_map.mp this
    simp [idx0, ← hj]
  have hnd2 : (ms2.map idx0).Nodup := by
    rw [hidx2, ← List.range'_eq_map_range]
    exact List.nodup_range'
  have hlen1 : r1.atoms.length = s.atoms.length := by
    have := congrArg List.length a1
    simp only [List.length_map, List.length_append, hK] at this
    omega
  have hval2 : ∀ m ∈ ms2, idx0 m < r1.atoms.length := by
    intro m hm
    have : idx0 m ∈ ms2.map idx0 := List.mem_map_of_mem hm
    rw [hidx2] at this
    obtain ⟨j, hj, hje⟩ := List.mem_map.mp this
    have := List.mem_range.mp hj
    omega
  obtain ⟨r2, e2, t2, _, a2⟩ := site_replace_spec r1 b a L rb ra hS2 ig2 ms2 hms2 hnd2 hval2
  refine ⟨r1, r2, e1, e2, ?_⟩
  -- rows of the final structure
  have hblock : keepIdx (r1.atoms.map tp) (ms2.map idx0) = keepIdx (s.atoms.map tp) (ms1.map idx0) := by
    rw [a1, hidx2]
    have := keepIdx_append_block (keepIdx (s.atoms.map tp) (ms1.map idx0))
      (ms1.map (fun m => (rb.ty + s.typeElems.length, L.wrap (pos0 m))))
    rw [hK, List.length_map] at this
    exact this
  have hins : ms2.map (fun m => (ra.ty + r1.typeElems.length, L.wrap (pos0 m)))
      = ms1.map (fun m => (ra.ty + r1.typeElems.length, pos0 m)) := by
    have : ms2.map (fun m => (ra.ty + r1.typeElems.length, L.wrap (pos0 m)))
        = (ms2.map pos0).map (fun v => (ra.ty + r1.typeElems.length, L.wrap v)) := by
      simp [List.map_map, Function.comp_def]
    rw [this, h2p, List.map_map]
    apply List.map_congr_left
    intro m hm
    have hin := (h1 m hm).2.2.2.2
    simp only [Function.comp]
    rw [Mofun.C05.wrap_of_inCell L _ hd hin, Mofun.C05.wrap_of_inCell L _ hd hin]
  rw [hblock, hins] at a2
  -- resolve elements
  have hkeepvalid : ∀ t ∈ keepIdx (s.atoms.map tp) (ms1.map idx0), t.1 < s.typeElems.length := by
    intro t ht
    have := mem_of_mem_keepIdx _ _ _ ht
    obtain ⟨row, hrow, rfl⟩ := List.mem_map.mp this
    have := List.all_eq_true.mp htv row hrow
    simpa [tp] using this
  have hp2 : pairs r2 = (keepIdx (s.atoms.map tp) (ms1.map idx0)).map (fun t => (s.typeElems.getD t.1 "", t.2))
      ++ ms1.map (fun m => (a.elemOf 0, pos0 m)) := by
    rw [pairs_eq, a2, List.map_append, List.map_map, t2, t1]
    congr 1
    · apply List.map_congr_left
      intro t ht
      have hlt := hkeepvalid t ht
      have hlt2 : t.1 < (s.typeElems ++ b.typeElems).length := by simp; omega
      rw [getD_append_left' _ _ _ hlt2, getD_append_left' _ _ _ hlt]
    · apply List.map_congr_left
      intro m _
      simp only [Function.comp]
      rw [getD_append_right']
      simp [Atoms.elemOf, ha]
  have hp1 : (pairs s).Perm ((keepIdx (s.atoms.map tp) (ms1.map idx0)).map (fun t => (s.typeElems.getD t.1 "", t.2))
      ++ ms1.map (fun m => (a.elemOf 0, pos0 m))) := by
    rw [pairs_eq]
    have := hperm.map (fun t => (s.typeElems.getD t.1 "", t.2))
    rw [List.map_append, List.map_map (l := ms1.map idx0), List.map_map (l := ms1)] at this
    refine this.trans (List.Perm.of_eq ?_)
    congr 1
    apply List.map_congr_left
    intro m hm
    obtain ⟨_, hlt, hel, hps, _⟩ := h1 m hm
    have hrow : s.atoms[idx0 m]? = some s.atoms[idx0 m] := List.getElem?_eq_getElem hlt
    rw [hrow] at hps
    simp only [Option.map_some, Option.some.injEq] at hps
    simp only [Function.comp, List.getD_eq_getElem?_getD, List.getElem?_map, hrow, Option.map_some, Option.getD_some, tp]
    rw [← hel, ← hps]
    simp [Atoms.elemOf, hrow]
  rw [hp2]
  exact hp1.symm

/-! ### nothing is left after replacing all occurrences -/

theorem mem_keepIdx_index {α} (l : List α) (idx : List Nat) (x : α) (h : x ∈ keepIdx l idx) :
    ∃ i, i ∉ idx ∧ l[i]? = some x := by
  unfold keepIdx at h
  obtain ⟨p, hp, rfl⟩ := List.mem_map.mp h
  obtain ⟨hp1, hp2⟩ := List.mem_filter.mp hp
  refine ⟨p.2, by simpa using hp2, List.mem_zipIdx_iff_getElem?.mp hp1⟩

/-
  FULL statement (stretch, not proved): for every search pattern P, after `replaceCore s P Rp (all occurrences)`,
  no tuple of atoms of the result that were not inserted is an occurrence of P.  It needs the completeness of the
  search model (C02, with its oracle hypothesis) and the bystander theorem of C04.
-/
/-- **no_match_after_replace_all_partial** — the one-atom case, where "occurrence of `A`" is "atom of `A`'s element"
    and completeness of the search is the explicit hypothesis `hall` (every atom of that element is among the
    matches).  After `A → B` no atom of the result has `A`'s element: a second search for `A` finds nothing
    (`B`'s element differs from `A`'s, so the replacement does not contain the pattern). -/
theorem no_match_after_replace_all_partial (s a b : Atoms) (L : Mat3) (ra rb : AtomRow) (ig : Bool)
    (hcell : s.cell = some L) (ha : a.atoms = [ra]) (hb : b.atoms = [rb]) (hpos : rb.pos = ra.pos)
    (hdiff : b.elemOf 0 ≠ a.elemOf 0) (hntb : noTerms b = true) (htv : typesValid s = true)
    (ms : List PlacedMatch) (hms : ∀ m ∈ ms, m.idx = [idx0 m] ∧ idx0 m < s.atoms.length)
    (hnd : (ms.map idx0).Nodup)
    (hall : ∀ i, i < s.atoms.length → s.elemOf i = a.elemOf 0 → i ∈ ms.map idx0) :
    ∃ r, replaceCore s a b ms false ig = .ok r ∧ ∀ ev ∈ pairs r, ev.1 ≠ a.elemOf 0 := by
  simp only [noTerms, Bool.and_eq_true, List.isEmpty_iff] at hntb
  have hS : SiteHyp s a b L ra rb := ⟨hcell, ha, hb, hpos, hdiff, ⟨hntb.1.1.1, hntb.1.1.2, hntb.1.2, hntb.2⟩⟩
  obtain ⟨r, e, t, _, at_⟩ := site_replace_spec s a b L ra rb hS ig ms (fun m hm => (hms m hm).1) hnd
    (fun m hm => (hms m hm).2)
  refine ⟨r, e, ?_⟩
  intro ev hev
  rw [pairs_eq, at_, List.map_append, List.mem_append] at hev
  rcases hev with hev | hev
  · -- an atom of `s` that is in no match
    obtain ⟨tt, htt, rfl⟩ := List.mem_map.mp hev
    obtain ⟨i, hi, hget⟩ := mem_keepIdx_index _ _ _ htt
    rw [List.getElem?_map] at hget
    cases hrow : s.atoms[i]? with
    | none => rw [hrow] at hget; simp at hget
    | some row =>
      rw [hrow] at hget
      simp only [Option.map_some, Option.some.injEq] at hget
      subst hget
      have hlt : i < s.atoms.length := by
        rcases Nat.lt_or_ge i s.atoms.length with h | h
        · exact h
        · rw [List.getElem?_eq_none h] at hrow; cases hrow
      have hty : row.ty < s.typeElems.length := by
        have := List.all_eq_true.mp htv row (List.mem_of_getElem? hrow)
        simpa using this
      intro heq
      apply hi
      apply hall i hlt
      rw [← heq, t]
      simp only [tp]
      rw [getD_append_left' _ _ _ hty]
      simp [Atoms.elemOf, hrow]
  · -- an inserted atom: it has `B`'s element
    obtain ⟨tt, htt, rfl⟩ := List.mem_map.mp hev
    obtain ⟨m, _, rfl⟩ := List.mem_map.mp htt
    simp only [t]
    rw [getD_append_right']
    have : b.typeElems.getD rb.ty "" = b.elemOf 0 := by simp [Atoms.elemOf, hb]
    rw [this]
    exact hdiff

/-! ### non-vacuity -/

/-- pattern C–O; structure: two copies (atoms 0,1 turned by 90° about z, and 2,3), a bystander N, one bond and one angle -/
def exP : Atoms :=
  { Atoms.empty with
    atoms := [⟨0, ⟨0, 0, 0⟩, 0, 0, []⟩, ⟨1, ⟨5/4, 0, 0⟩, 0, 0, []⟩]
    typeElems := ["C", "O"], typeLabels := ["C", "O"], typeMasses := [12, 16] }

def exS : Atoms :=
  { Atoms.empty with
    atoms := [⟨1, ⟨1, 1, 1⟩, 1/2, 1, []⟩, ⟨0, ⟨1, 9/4, 1⟩, -1/2, 1, []⟩, ⟨1, ⟨4, 4, 4⟩, 0, 2, []⟩,
              ⟨0, ⟨21/4, 4, 4⟩, 0, 2, []⟩, ⟨2, ⟨6, 1, 6⟩, 0, 3, []⟩]
    bonds := ⟨[⟨[0, 1], 0, []⟩, ⟨[1, 4], 1, []⟩], ["k1", "k2"], []⟩
    angles := ⟨[⟨[0, 1, 4], 0, []⟩], ["a1"], []⟩
    typeElems := ["O", "C", "N"], typeLabels := ["O", "C", "N"], typeMasses := [16, 12, 14]
    cell := some ⟨⟨8, 0, 0⟩, ⟨-2, 7, 0⟩, ⟨1, -3, 9⟩⟩ }

def exMs : List PlacedMatch :=
  [{ idx := [0, 1], pos := [⟨1, 1, 1⟩, ⟨1, 9/4, 1⟩], q := ⟨0, 0, 1, 1⟩ },
   { idx := [2, 3], pos := [⟨4, 4, 4⟩, ⟨21/4, 4, 4⟩], q := ⟨0, 0, 0, 1⟩ }]

example : distinctAtoms exP = true := by decide +kernel
example : noTerms exP = true := by decide +kernel
example : typesValid exS = true := by decide +kernel
example : ∀ m ∈ exMs, goodSelfMatch exS exP m = true := by decide +kernel

example : Mofun.C05.InCell ⟨⟨8, 0, 0⟩, ⟨-2, 7, 0⟩, ⟨1, -3, 9⟩⟩ ⟨1, 9/4, 1⟩ := by decide +kernel

/-- round trip N → P → N in a tilted cell: two N sites (atoms 0 and 2), a bystander C -/
def exSiteS : Atoms :=
  { Atoms.empty with
    atoms := [⟨0, ⟨1, 1, 1⟩, 1/4, 1, []⟩, ⟨1, ⟨2, 2, 2⟩, 0, 1, []⟩, ⟨0, ⟨3, 1, 2⟩, -1/4, 2, []⟩]
    typeElems := ["N", "C"], typeLabels := ["N", "C"], typeMasses := [14, 12]
    cell := some ⟨⟨8, 0, 0⟩, ⟨-2, 7, 0⟩, ⟨1, -3, 9⟩⟩ }
def exL : Mat3 := ⟨⟨8, 0, 0⟩, ⟨-2, 7, 0⟩, ⟨1, -3, 9⟩⟩
def exA : Atoms := { Atoms.empty with atoms := [⟨0, ⟨5, 5, 5⟩, 0, 0, []⟩], typeElems := ["N"], typeLabels := ["N"], typeMasses := [14] }
def exB : Atoms := { Atoms.empty with atoms := [⟨0, ⟨5, 5, 5⟩, 0, 0, []⟩], typeElems := ["P"], typeLabels := ["P"], typeMasses := [31] }
def exMs1 : List PlacedMatch := [⟨[0], [⟨1, 1, 1⟩], Quat.identity⟩, ⟨[2], [⟨3, 1, 2⟩], Quat.identity⟩]
def exMs2 : List PlacedMatch := [⟨[1], [⟨1, 1, 1⟩], Quat.identity⟩, ⟨[2], [⟨3, 1, 2⟩], Quat.identity⟩]

example : exL.det ≠ 0 := by decide +kernel
example : exB.elemOf 0 ≠ exA.elemOf 0 := by decide +kernel
example : noTerms exA = true ∧ noTerms exB = true := by decide +kernel
example : typesValid exSiteS = true := by decide +kernel
example : ∀ m ∈ exMs1, goodSiteMatch exSiteS exA exL m := by decide +kernel
example : (exMs1.map idx0).Nodup := by decide +kernel
example : exMs2.map (·.idx) = (List.range exMs1.length).map (fun j => [exSiteS.atoms.length - exMs1.length + j]) := by
  decide +kernel
example : exMs2.map pos0 = exMs1.map (fun m => exL.wrap (pos0 m)) := by decide +kernel
/-- completeness hypothesis of `no_match_after_replace_all_partial` on the example: both N atoms are matched -/
example : ∀ i, i < exSiteS.atoms.length → exSiteS.elemOf i = exA.elemOf 0 → i ∈ exMs1.map idx0 := by decide +kernel

/-- the identification case of the finding: two C–O pairs without bonds, the pattern C–O carries its bond -/
def exPbond : Atoms := { exP with bonds := ⟨[⟨[0, 1], 0, []⟩], [], []⟩ }
def exSnoTerms : Atoms := { exS with bonds := TermTable.empty, angles := TermTable.empty }
example : termsValid exPbond = true ∧ distinctAtoms exPbond = true := by decide +kernel
example : ∀ m ∈ exMs, goodSelfMatch exSnoTerms exPbond m = true := by decide +kernel
example : (replaceCore exSnoTerms exPbond exPbond exMs false false).toOption.map (fun r => r.bonds.terms.map (·.atoms))
    = some [[0, 1], [2, 3]] := by decide +kernel


end Mofun.C08
