/-
  C09 (extension) — "Such an object, if it has at least one atom, can always be written as a LAMMPS data file whose
  declared counts match its contents and which reads back to the same structure": the last sentence of C09, proved by
  composing the invariant of C09 (`WF`, `Aligned`; Props/C09.lean) with the theorems of C13 (`lmp_roundtrip`,
  `lmp_header_counts`; Props/C13.lean).  Helper definitions / lemmas: Proofs/SavesLemmas.lean.

  Guards, and where each comes from:
    WF a              the invariant of C09 (kept by every guarded operation: `wf_run`)
    a.atoms ≠ []      "if it has at least one atom" (`load_lmpdat` cannot read a file without atoms)
    LmpStrings a      TEXT and CELL: labels without `#`, line break, outer blanks; coefficient strings with at most one
                      `#` and no line break; cell absent or LAMMPS-oriented with lengths that print positive.  This is the
                      quantifier of C13; nothing in C09 constrains texts or the cell.
    LmpShape a        what `LmpOk` needs and `WF` does NOT give:
        one label per mass   `WF` only has |elements| ≤ |labels| and |elements| ≤ |masses|.  With more masses than
                             labels `save_lmpdat` raises IndexError in `label_atoms`; with more labels than masses the
                             file is written but the surplus labels have no Masses line to travel on, so the object that
                             comes back has fewer labels.  It holds for every object produced by the modelled
                             operations from constructed objects with one entry per atom type in every atom-type table:
                             that is `Aligned` (Proofs/HistMeaning.lean), kept along every guarded history
                             (`meaning_run`), and the constructor's defaults produce it (`construct_defaults`).
        tuple arities        in the model a tuple is a list; in the code `bonds` is an (n, 2) array, etc.  Kept by
                             every operation without any guard (`arity_step`, `arity_run` in Proofs/SavesLemmas.lean).
-/
import MofunModel.Props.C09
import MofunModel.Props.C13
import MofunModel.Proofs.SavesLemmas

namespace Mofun.C09Saves

open Mofun Mofun.Hist

/-- `Aligned` gives the "one label per mass" half of `LmpShape` -/
theorem lmpShape_of_aligned (a : Atoms) (hal : Aligned a) (har : Arity a) : LmpShape a :=
  ⟨hal.1.trans hal.2.1.symm, har⟩

/-- **wf_implies_lmpOk.**  The invariant of C09 supplies every index / size hypothesis of C13's guard: with the
    text / cell guard `LmpStrings` and `LmpShape` (one label per mass, tuple arities), `WF a` implies
    `LmpOk a`. -/
theorem wf_implies_lmpOk (a : Atoms) (hwf : WF a) (hs : LmpStrings a) (hsh : LmpShape a) :
    Lmp.LmpOk a = true := by
  obtain ⟨hat, hlab, _, _, hb, hg, hd, hi⟩ := hwf
  obtain ⟨s1, s2, s3⟩ := hs
  obtain ⟨hlen, a1, a2, a3, a4⟩ := hsh
  -- (since the reader accepts a file without atoms, `LmpOk` no longer asks for an atom)
  have e2 : (a.typeLabels.length == a.typeMasses.length) = true := by simp [hlen]
  have e3 : a.atoms.all (fun r => decide (r.ty < a.typeLabels.length)) = true := by
    rw [List.all_eq_true]
    intro r hr
    have := (hat r hr).1
    simp only [decide_eq_true_eq]; omega
  unfold Lmp.LmpOk
  simp only [Bool.and_eq_true]
  exact ⟨⟨⟨⟨⟨⟨e2, s1⟩, s2⟩, s3⟩, ⟨⟨⟨(arityOk_iff 2 _).mpr a1, (arityOk_iff 3 _).mpr a2⟩, (arityOk_iff 4 _).mpr a3⟩,
    (arityOk_iff 4 _).mpr a4⟩⟩, e3⟩, ⟨⟨⟨termsInRange_of _ _ hb, termsInRange_of _ _ hg⟩, termsInRange_of _ _ hd⟩,
    termsInRange_of _ _ hi⟩⟩

/-- the header of `lines` (everything before the first section name, read by C13's writer-independent `declared`)
    declares what the sections of `lines` (as the reader's loop collects them) contain: the numbers of atoms, bonds,
    angles, dihedrals, impropers are the numbers of rows of the five sections; for every coefficient section that is
    present the declared number of types of its kind is its number of rows -/
def HeaderMatches (lines : List Lmp.Line) : Prop :=
  ∃ c d, Lmp.run {} lines = .ok ⟨c, false, d⟩
    ∧ Lmp.declared ["atoms"] (Lmp.headerOf lines) = some d.atoms.length
    ∧ Lmp.declared ["bonds"] (Lmp.headerOf lines) = some d.bonds.length
    ∧ Lmp.declared ["angles"] (Lmp.headerOf lines) = some d.angles.length
    ∧ Lmp.declared ["dihedrals"] (Lmp.headerOf lines) = some d.dihedrals.length
    ∧ Lmp.declared ["impropers"] (Lmp.headerOf lines) = some d.impropers.length
    ∧ (d.bond ≠ [] → Lmp.declared ["bond", "types"] (Lmp.headerOf lines) = some d.bond.length)
    ∧ (d.angle ≠ [] → Lmp.declared ["angle", "types"] (Lmp.headerOf lines) = some d.angle.length)
    ∧ (d.dihedral ≠ [] → Lmp.declared ["dihedral", "types"] (Lmp.headerOf lines) = some d.dihedral.length)
    ∧ (d.improper ≠ [] → Lmp.declared ["improper", "types"] (Lmp.headerOf lines) = some d.improper.length)
    ∧ d.masses ≠ []

/-- …and the declared number of atom types is the number of Masses lines -/
def AtomTypesMatch (lines : List Lmp.Line) : Prop :=
  ∃ c d, Lmp.run {} lines = .ok ⟨c, false, d⟩
    ∧ Lmp.declared ["atom", "types"] (Lmp.headerOf lines) = some d.masses.length

/-- type count of a kind whose table is present and covers the ids in use -/
theorem numTermTypes_of_wf (n : Nat) (t : TermTable) (h : TermsWF n t) (hne : t.coeffs ≠ []) :
    numTermTypes t = t.coeffs.length ∧ numTermTypes t > 0 := by
  have hcov : ∀ tm ∈ t.terms, tm.ty < t.coeffs.length := by
    rcases h.2 with h2 | h2
    · exact absurd h2 hne
    · exact h2
  have e := (numTermTypes_eq_length_iff t).mpr (Or.inr hcov)
  refine ⟨e, ?_⟩
  rw [e]
  exact List.length_pos_iff.mpr hne

/-- the file that is written, what comes back, and its header -/
theorem saves_core (guess : List Rat → Option (List String)) (a : Atoms) (hwf : WF a) (hty : a.typeElems ≠ [])
    (hs : LmpStrings a) (hsh : LmpShape a) :
    Lmp.saveLmp a .full = .ok (Lmp.saveLines a .full)
    ∧ Lmp.loadLmp guess (Lmp.saveLines a .full) .full = .ok (Lmp.norm guess .full a)
    ∧ HeaderMatches (Lmp.saveLines a .full)
    ∧ (a.typeElems.length = a.typeMasses.length → AtomTypesMatch (Lmp.saveLines a .full)) := by
  have hok := wf_implies_lmpOk a hwf hs hsh
  obtain ⟨r1, r2⟩ := Lmp.roundtrip guess a .full hok
  have H := Lmp.lmp_header_counts a .full
  simp only at H
  obtain ⟨⟨c1, c2, c3, c4, c5⟩, ⟨t0, t1, t2, t3, t4⟩, _, _, hrun⟩ := H
  obtain ⟨c, d, hr, l1, l2, l3, l4, l5, l6, _, k1, k2, k3, k4⟩ := hrun
  obtain ⟨hat, _, hmass, _, hb, hg, hd, hi⟩ := hwf
  -- at least one atom type, hence at least one Masses line (an object with atoms has one: `typeElems_ne_nil`)
  have hpos : 0 < a.typeElems.length := List.length_pos_iff.mpr hty
  have kind : ∀ (t : TermTable) (kw : List String) (n : Nat) (dl : List String),
      TermsWF n t → dl.length = t.coeffs.length →
      Lmp.declared kw (Lmp.headerOf (Lmp.saveLines a .full))
        = (if numTermTypes t > 0 then some (numTermTypes t) else none) →
      dl ≠ [] → Lmp.declared kw (Lmp.headerOf (Lmp.saveLines a .full)) = some dl.length := by
    intro t kw n dl htw hlen hdecl hdl
    have hne' : t.coeffs ≠ [] := by
      intro h0
      rw [h0] at hlen
      exact hdl (List.length_eq_zero_iff.mp hlen)
    obtain ⟨e, p⟩ := numTermTypes_of_wf n t htw hne'
    rw [hdecl, if_pos p, e, hlen]
  refine ⟨r1, r2, ⟨c, d, hr, ?_, ?_, ?_, ?_, ?_, kind _ _ _ _ hb k1 t1, kind _ _ _ _ hg k2 t2, kind _ _ _ _ hd k3 t3,
    kind _ _ _ _ hi k4 t4, ?_⟩, ?_⟩
  · rw [c1, l1]
  · rw [c2, l3]
  · rw [c3, l4]
  · rw [c4, l5]
  · rw [c5, l6]
  · intro h0
    rw [h0] at l2
    simp only [List.length_nil] at l2
    omega
  · intro heq
    refine ⟨c, d, hr, ?_⟩
    have hp : numAtomTypes a > 0 := hpos
    rw [t0, l2, if_pos hp]
    show some a.typeElems.length = _
    rw [heq]

/-- an object with at least one atom has at least one atom type -/
theorem typeElems_ne_nil (a : Atoms) (hwf : WF a) (hne : a.atoms ≠ []) : a.typeElems ≠ [] := by
  intro h0
  cases h : a.atoms with
  | nil => exact hne h
  | cons r _ =>
    have := (hwf.1 r (by rw [h]; exact List.mem_cons_self)).1
    rw [h0] at this; simp at this

/-- **wf_saves.**  A consistent object with at least one atom TYPE — in particular every object with at least one atom
    (`typeElems_ne_nil`), but also an atom-less one that carries type tables (the reader accepts files without atoms) —
    (and texts / cell inside C13's quantifier, one label per
    mass, tuples of the right arity) can be written; the file reads back to `norm a` (C13: atom order, type ids, groups,
    labels, every term with its type EQUAL; numbers at the printed precision; coefficient whitespace normalised; elements
    re-derived from the masses); and the header's declared counts equal the lengths of the sections the reader finds. -/
theorem wf_saves (guess : List Rat → Option (List String)) (a : Atoms) (hwf : WF a) (hty : a.typeElems ≠ [])
    (hs : LmpStrings a) (hsh : LmpShape a) :
    ∃ lines, Lmp.saveLmp a .full = .ok lines ∧ Lmp.loadLmp guess lines .full = .ok (Lmp.norm guess .full a)
      ∧ HeaderMatches lines :=
  ⟨_, (saves_core guess a hwf hty hs hsh).1, (saves_core guess a hwf hty hs hsh).2.1,
    (saves_core guess a hwf hty hs hsh).2.2.1⟩

/-- **wf_aligned_saves.**  With one entry per atom type in every atom-type table (`Aligned`, what the constructor's
    defaults produce and every operation keeps) the "one label per mass" guard is implied, and the declared number of
    atom types is the number of Masses lines as well. -/
theorem wf_aligned_saves (guess : List Rat → Option (List String)) (a : Atoms) (hwf : WF a) (hal : Aligned a)
    (har : Arity a) (hty : a.typeElems ≠ []) (hs : LmpStrings a) :
    ∃ lines, Lmp.saveLmp a .full = .ok lines ∧ Lmp.loadLmp guess lines .full = .ok (Lmp.norm guess .full a)
      ∧ HeaderMatches lines ∧ AtomTypesMatch lines := by
  have h := saves_core guess a hwf hty hs (lmpShape_of_aligned a hal har)
  exact ⟨_, h.1, h.2.1, h.2.2.1, h.2.2.2 hal.2.1.symm⟩

/-- what comes back is again inside the guards, so it can be written again — and that file reads back to the same
    object (C13's idempotence, instantiated) -/
theorem wf_saves_again (guess : List Rat → Option (List String)) (a : Atoms) (hwf : WF a)
    (hs : LmpStrings a) (hsh : LmpShape a) :
    ∃ l1 a1 l2, Lmp.saveLmp a .full = .ok l1 ∧ Lmp.loadLmp guess l1 .full = .ok a1
      ∧ Lmp.saveLmp a1 .full = .ok l2 ∧ Lmp.loadLmp guess l2 .full = .ok a1 := by
  obtain ⟨l1, a1, l2, a2, _, h1, h2, h3, h4, _, h6, _⟩ :=
    Lmp.lmp_write_read_write guess .full a (wf_implies_lmpOk a hwf hs hsh)
  exact ⟨l1, a1, l2, h1, h2, h3, by rw [h4, h6]⟩

/-! ### histories -/

/-- all three invariants along a guarded history -/
theorem run_invariants (ops : List Op) (s s' : State) (hw : WFState s) (hal : AlignedState s) (har : ArityState s)
    (hg : GuardedRun s ops) (hao : ∀ op ∈ ops, AlignedOp op) (hro : ∀ op ∈ ops, ArityOp op)
    (h : run s ops = .ok s') : WFState s' ∧ AlignedState s' ∧ ArityState s' :=
  ⟨(meaning_run ops s s' hw hal hg hao h).1, (meaning_run ops s s' hw hal hg hao h).2, arity_run ops s s' har hro h⟩

/-- **wf_run_saves.**  For EVERY guarded history (guards of `wf_run` / `meaning_run`: constructed literals are `WF`,
    `Aligned` and have tuples of the right arity; deletion indices distinct; extends compatible) and every prefix of it:
    whatever object with at least one atom type (`typeElems_ne_nil`: in particular with at least one atom) sits in a slot of the state reached — also after a term kind was emptied and
    refilled, or all atoms were removed and new ones added — can be saved as a LAMMPS data file (texts / cell inside
    C13's quantifier) whose declared counts match its sections and which reads back to the same structure. -/
theorem wf_run_saves (guess : List Rat → Option (List String)) (ops : List Op) (s s' : State) (k : Nat)
    (hw : WFState s) (hal : AlignedState s) (har : ArityState s)
    (hg : GuardedRun s ops) (hao : ∀ op ∈ ops, AlignedOp op) (hro : ∀ op ∈ ops, ArityOp op)
    (h : run s (ops.take k) = .ok s')
    (i : Nat) (a : Atoms) (hi : s'[i]? = some (some a)) (hty : a.typeElems ≠ []) (hs : LmpStrings a) :
    ∃ lines, Lmp.saveLmp a .full = .ok lines ∧ Lmp.loadLmp guess lines .full = .ok (Lmp.norm guess .full a)
      ∧ HeaderMatches lines ∧ AtomTypesMatch lines := by
  obtain ⟨w, al, ar⟩ := run_invariants (ops.take k) s s' hw hal har (guardedRun_take ops s k hg)
    (fun op ho => hao op (List.mem_of_mem_take ho)) (fun op ho => hro op (List.mem_of_mem_take ho)) h
  exact wf_aligned_saves guess a (w i a hi) (al i a hi) (ar i a hi) hty hs

/-- the same from the empty state, where the state hypotheses are vacuous -/
theorem wf_run_saves_init (guess : List Rat → Option (List String)) (ops : List Op) (s' : State) (k : Nat)
    (hg : GuardedRun State.init ops) (hao : ∀ op ∈ ops, AlignedOp op) (hro : ∀ op ∈ ops, ArityOp op)
    (h : run State.init (ops.take k) = .ok s')
    (i : Nat) (a : Atoms) (hi : s'[i]? = some (some a)) (hty : a.typeElems ≠ []) (hs : LmpStrings a) :
    ∃ lines, Lmp.saveLmp a .full = .ok lines ∧ Lmp.loadLmp guess lines .full = .ok (Lmp.norm guess .full a)
      ∧ HeaderMatches lines ∧ AtomTypesMatch lines :=
  wf_run_saves guess ops State.init s' k wfState_init
    (fun i a h => by simp [State.init, List.getElem?_replicate] at h) arityState_init hg hao hro h i a hi hty hs

/-! ### non-vacuity -/

/-- the example history of Props/C09.lean (empties the bond kind and refills it, removes all atoms and extends again,
    replicates, takes a subset, pops) satisfies the additional guards -/
example : (∀ op ∈ exHistory, AlignedOp op) ∧ (∀ op ∈ exHistory, ArityOp op) ∧ GuardedRun State.init exHistory := by
  decide

/-- after its first four ops (bond kind emptied, then refilled by an extend) slot 0 holds three atoms and one bond of
    type 2; the object is inside all guards, so `wf_run_saves_init` applies to it -/
example : ∃ s a, run State.init (exHistory.take 4) = .ok s ∧ s[0]? = some (some a)
    ∧ a.atoms.length = 3 ∧ a.bonds.terms.map (·.ty) = [2] ∧ LmpStrings a ∧ LmpShape a ∧ WF a := by
  refine ⟨_, _, rfl, rfl, ?_, ?_, ?_, ?_, ?_⟩ <;> decide +kernel

/-- at the end of the whole history slot 2 (all atoms deleted, then extended) holds atoms again and is inside the guards -/
example : ∃ s a, run State.init exHistory = .ok s ∧ s[2]? = some (some a)
    ∧ a.atoms ≠ [] ∧ LmpStrings a ∧ LmpShape a ∧ Lmp.LmpOk a = true := by
  refine ⟨_, _, rfl, rfl, ?_, ?_, ?_, ?_⟩ <;> decide +kernel

/-- the structure of C13's example is `WF`, `LmpStrings`, `LmpShape` -/
example : WF Lmp.exC13 ∧ LmpStrings Lmp.exC13 ∧ LmpShape Lmp.exC13 ∧ Lmp.exC13.atoms ≠ [] := by decide +kernel

/-- `LmpShape` is not implied by `WF`: more labels than masses is `WF` but not `LmpOk` -/
example : WF { Lmp.exC13 with typeLabels := ["C 1", "H", "spare"] }
    ∧ Lmp.LmpOk { Lmp.exC13 with typeLabels := ["C 1", "H", "spare"] } = false := by decide +kernel

/-- … and neither is the arity: a three-atom "bond" is `WF` -/
example : WF { exA with bonds := ⟨[⟨[0, 1, 2], 0, ["b"]⟩], ["k"], ["_tag"]⟩ }
    ∧ ¬ Arity { exA with bonds := ⟨[⟨[0, 1, 2], 0, ["b"]⟩], ["k"], ["_tag"]⟩ } := by decide +kernel

end Mofun.C09Saves
