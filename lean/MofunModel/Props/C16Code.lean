/-
  C16Code.lean — the lookups of `Atoms.load_cml` (fourth batch; repair f690cb1): the ElementPath pattern strings of
  `root.findall('.//{*}atom')` / `root.findall('.//{*}bond')`, extracted from the python source text on every run by
  harness/gen_code.py (Generated/Code.lean), select by LOCAL NAME IN ANY NAMESPACE — the model's `selectLocal`
  (Model/Cml.lean), on which the namespace-independence theorems of C16 rest.
-/
import MofunModel.Proofs.Code4Cml

namespace Mofun.C16Code
open Mofun Mofun.Generated Mofun.Code4Cml

theorem cmlAtomPattern_eq : patternSelector Generated.Code.cmlAtomPattern = some (true, "atom") := by decide
theorem cmlBondPattern_eq : patternSelector Generated.Code.cmlBondPattern = some (true, "bond") := by decide

/-- hence the atom / bond lookups of the code are the model's `selectLocal "atom"` / `selectLocal "bond"` -/
theorem cml_lookups (elems : List CmlElem) :
    (patternSelector Generated.Code.cmlAtomPattern).map (fun s => selectBy s elems) = some (selectLocal "atom" elems) ∧
    (patternSelector Generated.Code.cmlBondPattern).map (fun s => selectBy s elems) = some (selectLocal "bond" elems) := by
  rw [cmlAtomPattern_eq, cmlBondPattern_eq]; exact ⟨rfl, rfl⟩

/-- the pattern before the repair reads as the unqualified lookup -/
example : patternSelector ".//atom" = some (false, "atom") := by decide

end Mofun.C16Code
