/-
  C14 (the "consequently" clause) — every element whose mass is distinguishable from all others survives a
  write/read cycle unchanged.

  COMPOSITION of two models that were verified separately:
    * Model/Lmp.lean + Props/C13.lean: `saveLmp` / `loadLmp`, where the element guess of `load_lmpdat` is a PARAMETER,
      `lmp_roundtrip` (`loadLmp guess (saveLmp a) = norm guess a`), `lmp_printed_precision` (`%.6f` moves a number by
      at most 0.5·10⁻⁶);
    * Model/Mass.lean + Props/C14.lean: `guess` / `guessAll` / `loadElements` over the generated table,
      `guess_table_roundtrip` (separation 0.2 of all elements but Ar/Ca, Bi/Po, Cm/Bk ⇒ returned for every mass within
      0.1 of their own), `load_fallback`.
  Here the parameter is instantiated with the Mass model at `load_lmpdat`'s tolerance 0.1 (`massGuess`), and the two
  chains of facts are joined.  Property theorems + non-vacuity only; new lemmas are local to `Mofun.C14Cycle`.
-/
import MofunModel.Props.C13
import MofunModel.Props.C14

namespace Mofun.C14Cycle

open Mofun Mofun.Lmp

/-! ### the instantiation -/

/-- `guess_elements_from_masses(masses, max_delta=0.1)` on the generated table, as `load_lmpdat` calls it
    (`none` = the call raised) -/
def massGuess (masses : List Rat) : Option (List String) :=
  match guessAll massTable (1 / 10) masses with
  | .ok e => some e
  | .error _ => none

/-- `load_lmpdat` with the real element guess -/
def loadLmpReal (lines : List Line) (st : Style) : Except Err Atoms := loadLmp massGuess lines st

/-- the two models describe the same inference: `elementsOf` (Lmp model, guess as parameter) instantiated with the
    Mass model is `loadElements` (Mass model) — including the fallback spelling `"1" … "n"` -/
theorem elementsOf_massGuess (masses : List Rat) :
    elementsOf massGuess masses = loadElements massTable (1 / 10) masses := by
  unfold elementsOf massGuess loadElements
  cases guessAll massTable (1 / 10) masses with
  | ok e => rfl
  | error e =>
    simp only [typeNumbers]
    apply List.map_congr_left
    intro i _
    simp [showNat, toString, Nat.repr]

/-! ### the guards -/

/-- the six elements of the three pairs that are closer than 2·0.1 (`table_close_pairs`) -/
def closeSix : List String := ["Ar", "Ca", "Bi", "Po", "Cm", "Bk"]

/-- `closeSix` is exactly what `table_close_pairs` lists -/
theorem closeSix_eq : closeSix = (closePairs massTable (2 * (1 / 10))).flatMap (fun p => [p.1, p.2]) := by
  rw [table_close_pairs]; rfl

/-- every atom type is a table element outside the three close pairs, with that element's table mass
    (what the `Atoms` constructor infers from the elements) -/
def Distinguishable (a : Atoms) : Bool :=
  a.typeElems.length == a.typeMasses.length
  && (a.typeElems.zip a.typeMasses).all (fun em => massTable.contains em && !closeSix.contains em.1)

/-- some type mass is at least `0.1 + 0.5·10⁻⁶` (tolerance plus half a printed unit) away from every table mass -/
def SomeMassFar (a : Atoms) : Bool :=
  a.typeMasses.any (fun m => massTable.all (fun p => decide (1 / 10 + 1 / 2000000 ≤ absQ (p.2 - m))))

/-! ### rounding vs. tolerance -/

/-- the printed mass is within the tolerance of the mass itself (0.5·10⁻⁶ < 0.1) -/
theorem absQ_quant_sub_lt (m : Rat) : absQ (quant m - m) < 1 / 10 := by
  obtain ⟨h1, h2⟩ := lmp_printed_precision m
  unfold absQ
  split <;> linarith

/-- rounding moves the distance to any table mass by at most half a printed unit -/
theorem absQ_quant_ge (c m : Rat) : absQ (c - m) - 1 / 2000000 ≤ absQ (c - quant m) := by
  obtain ⟨h1, h2⟩ := lmp_printed_precision m
  unfold absQ
  split <;> split <;> linarith

/-- a table element outside the close pairs is guessed back from its PRINTED mass -/
theorem guess_printed (e : String) (m : Rat) (hp : (e, m) ∈ massTable) (hnot : e ∉ closeSix) :
    guess massTable (1 / 10) (quant m) = some e :=
  guess_table_roundtrip (e, m) hp hnot (quant m) (absQ_quant_sub_lt m)

theorem guess_printed_all (es : List String) (ms : List Rat) (hlen : es.length = ms.length)
    (hall : ∀ em ∈ es.zip ms, em ∈ massTable ∧ em.1 ∉ closeSix) :
    (ms.map quant).map (guess massTable (1 / 10)) = es.map some := by
  induction es generalizing ms with
  | nil =>
    cases ms with
    | nil => rfl
    | cons _ _ => simp at hlen
  | cons e es ih =>
    cases ms with
    | nil => simp at hlen
    | cons m ms =>
      have h0 := hall (e, m) (by simp)
      simp only [List.map_cons, List.cons.injEq]
      refine ⟨guess_printed e m h0.1 h0.2, ?_⟩
      apply ih ms (by simpa using hlen)
      intro em hem
      exact hall em (by simp [hem])

theorem distinguishable_iff (a : Atoms) :
    Distinguishable a = true ↔
      a.typeElems.length = a.typeMasses.length
      ∧ ∀ em ∈ a.typeElems.zip a.typeMasses, em ∈ massTable ∧ em.1 ∉ closeSix := by
  simp [Distinguishable, List.all_eq_true]

/-! ### the composition theorems -/

/-- **write_read_elements** (either atom style).  Guards: `LmpOk a` (the guard of the C13 round trip) and
    `Distinguishable a`: every type's element is a table element other than Ar, Ca, Bi, Po, Cm, Bk and its type mass is
    that element's table mass.  Then writing the structure and reading the lines back with the REAL element guess
    (tolerance 0.1 over the generated table) succeeds and returns exactly the elements of `a`, type by type:
    the mass is printed with six decimals (error ≤ 0.5·10⁻⁶, `lmp_printed_precision`), which is within 0.1 of the table
    mass, and every other table mass is at least 0.2 away (`table_separated`), so the nearest-within-tolerance rule
    returns the same element (`guess_distinguishable`). -/
theorem write_read_elements (a : Atoms) (st : Style) (h : LmpOk a = true) (hd : Distinguishable a = true) :
    ∃ lines b, saveLmp a st = .ok lines ∧ loadLmpReal lines st = .ok b
      ∧ b.typeElems = a.typeElems
      ∧ b.typeMasses = a.typeMasses.map quant := by
  obtain ⟨hlen, hall⟩ := (distinguishable_iff a).mp hd
  obtain ⟨hs, hl⟩ := roundtrip massGuess a st h
  refine ⟨saveLines a st, norm massGuess st a, hs, hl, ?_, rfl⟩
  have hg : guessAll massTable (1 / 10) (a.typeMasses.map quant) = .ok a.typeElems :=
    (guessAll_ok_iff _ _ _ _).mpr (guess_printed_all a.typeElems a.typeMasses hlen hall)
  show elementsOf massGuess (a.typeMasses.map quant) = a.typeElems
  simp only [elementsOf, massGuess, hg]

/-- the same, element by element, in the words of the property: for every atom type `i`, the element read back is the
    element written, and it is the table entry nearest to the printed mass -/
theorem write_read_elements_pointwise (a : Atoms) (st : Style) (h : LmpOk a = true) (hd : Distinguishable a = true) :
    ∃ lines b, saveLmp a st = .ok lines ∧ loadLmpReal lines st = .ok b
      ∧ ∀ (i : Nat) (e : String), a.typeElems[i]? = some e →
          b.typeElems[i]? = some e
          ∧ ∃ m, a.typeMasses[i]? = some m ∧ (e, m) ∈ massTable
              ∧ b.typeMasses[i]? = some (quant m) ∧ guess massTable (1 / 10) (quant m) = some e := by
  obtain ⟨lines, b, hs, hl, he, hm⟩ := write_read_elements a st h hd
  obtain ⟨hlen, hall⟩ := (distinguishable_iff a).mp hd
  refine ⟨lines, b, hs, hl, ?_⟩
  intro i e hi
  have hlt : i < a.typeElems.length := (List.getElem?_eq_some_iff.mp hi).1
  have hlt' : i < a.typeMasses.length := by omega
  have hmi : a.typeMasses[i]? = some a.typeMasses[i] := List.getElem?_eq_getElem hlt'
  have hz : (a.typeElems.zip a.typeMasses)[i]? = some (e, a.typeMasses[i]) := by
    rw [List.getElem?_zip_eq_some]; exact ⟨hi, hmi⟩
  have hmem := hall _ (List.mem_of_getElem? hz)
  refine ⟨by rw [he]; exact hi, a.typeMasses[i], hmi, hmem.1, ?_, guess_printed e _ hmem.1 hmem.2⟩
  rw [hm, List.getElem?_map, hmi]; rfl

/-- **write_read_elements_fallback** (either atom style).  Guard `LmpOk a`; some type mass is at least the tolerance
    PLUS half a printed unit (`0.1 + 0.5·10⁻⁶`) away from every table mass.  Then, after the cycle, the elements of ALL
    types are the type numbers `"1" … "n"` — also of the types whose mass is a perfectly good one.
    (The half unit is necessary: see `fallback_margin_needed` below.) -/
theorem write_read_elements_fallback (a : Atoms) (st : Style) (h : LmpOk a = true) (hf : SomeMassFar a = true) :
    ∃ lines b, saveLmp a st = .ok lines ∧ loadLmpReal lines st = .ok b
      ∧ b.typeElems = typeNumbers a.typeMasses.length := by
  obtain ⟨hs, hl⟩ := roundtrip massGuess a st h
  refine ⟨saveLines a st, norm massGuess st a, hs, hl, ?_⟩
  show elementsOf massGuess (a.typeMasses.map quant) = _
  rw [elementsOf_massGuess]
  simp only [SomeMassFar, List.any_eq_true, List.all_eq_true, decide_eq_true_eq] at hf
  obtain ⟨m, hm, hfar⟩ := hf
  have := load_fallback massTable (1 / 10) (a.typeMasses.map quant)
    ⟨quant m, List.mem_map.mpr ⟨m, hm, rfl⟩, (guess_none_iff _ _ _).mpr (fun p hp => by
      have h1 := hfar p hp
      have h2 := absQ_quant_ge p.2 m
      linarith)⟩
  rw [this, List.length_map]

/-- the exact form, on the PRINTED masses (no margin): after the cycle the elements are the type numbers for all types
    iff some printed type mass has no table mass strictly within 0.1; otherwise they are the per-type guesses -/
theorem write_read_elements_cases (a : Atoms) (st : Style) (h : LmpOk a = true) :
    ∃ lines b, saveLmp a st = .ok lines ∧ loadLmpReal lines st = .ok b
      ∧ ((∃ m ∈ a.typeMasses, ∀ p ∈ massTable, 1 / 10 ≤ absQ (p.2 - quant m)) →
            b.typeElems = typeNumbers a.typeMasses.length)
      ∧ ((∀ m ∈ a.typeMasses, ∃ p ∈ massTable, absQ (p.2 - quant m) < 1 / 10) →
            b.typeElems.map some = a.typeMasses.map (fun m => guess massTable (1 / 10) (quant m))) := by
  obtain ⟨hs, hl⟩ := roundtrip massGuess a st h
  refine ⟨saveLines a st, norm massGuess st a, hs, hl, ?_, ?_⟩
  · rintro ⟨m, hm, hfar⟩
    show elementsOf massGuess (a.typeMasses.map quant) = _
    rw [elementsOf_massGuess, load_fallback massTable (1 / 10) (a.typeMasses.map quant)
      ⟨quant m, List.mem_map.mpr ⟨m, hm, rfl⟩, (guess_none_iff _ _ _).mpr hfar⟩, List.length_map]
  · intro hall
    show (elementsOf massGuess (a.typeMasses.map quant)).map some = _
    rw [elementsOf_massGuess, load_all_guessed massTable (1 / 10) (a.typeMasses.map quant), List.map_map]
    · rfl
    · intro q hq hn
      obtain ⟨m, hm, rfl⟩ := List.mem_map.mp hq
      obtain ⟨p, hp, hlt⟩ := hall m hm
      have := (guess_none_iff _ _ _).mp hn p hp
      linarith

/-! ### non-vacuity -/

/-- water-like structure on a tilted cell: O, H and (unused) K — K's mass lies BETWEEN Ar and Ca, the pair the
    historical one-sided scan confused it with; a coefficient table and a bond -/
def exCycle : Atoms :=
  { Atoms.empty with
    atoms := [⟨0, ⟨0, 0, 0⟩, -4/5, 0, []⟩, ⟨1, ⟨19/20, 0, 1/128⟩, 2/5, 0, []⟩, ⟨1, ⟨-1/4, 9/10, 0⟩, 2/5, 0, []⟩,
              ⟨2, ⟨3, 3, 3⟩, 1, 1, []⟩]
    bonds := ⟨[⟨[0, 1], 0, []⟩, ⟨[0, 2], 0, []⟩], ["harmonic 450 0.9572"], []⟩
    typeElems := ["O", "H", "K"], typeLabels := ["O_w", "H_w", "K+"]
    typeMasses := [159994/10000, 100794/100000, 390983/10000]
    pairCoeffs := ["0.15 3.15", "0 0", "0.1 3.3"]
    cell := some ⟨⟨10, 0, 0⟩, ⟨-5/2, 9, 0⟩, ⟨1/4, -3/4, 12⟩⟩ }

example : LmpOk exCycle = true ∧ Distinguishable exCycle = true := by decide +kernel

/-- the conclusion computed directly on the concrete structure (independently of the theorem) -/
example : (norm massGuess .full exCycle).typeElems = ["O", "H", "K"] := by decide +kernel

/-- a structure whose masses are NOT on the printed grid: F (18.9984032) and Na (22.98976928) have 7 and 8 decimals,
    so the file holds 18.998403 and 22.989769 — and the elements still come back -/
def exCycleFNa : Atoms :=
  { Atoms.empty with
    atoms := [⟨0, ⟨0, 0, 0⟩, -1, 0, []⟩, ⟨1, ⟨2, 0, 0⟩, 1, 0, []⟩]
    typeElems := ["F", "Na"], typeLabels := ["F", "Na"]
    typeMasses := [189984032/10000000, 2298976928/100000000] }

example : LmpOk exCycleFNa = true ∧ Distinguishable exCycleFNa = true := by decide +kernel
example : (norm massGuess .full exCycleFNa).typeMasses = [18998403/1000000, 22989769/1000000]
    ∧ (norm massGuess .full exCycleFNa).typeElems = ["F", "Na"] := by decide +kernel

/-- the guard is not redundant: Ca is in a close pair — its own mass is still read back as Ca, but the guard
    `Distinguishable` (which promises it for every mass within 0.1) rejects it; Bk comes back as Cm -/
example : Distinguishable { exCycleFNa with typeElems := ["F", "Ca"], typeMasses := [189984032/10000000, 40078/1000] } = false
    ∧ (norm massGuess .full { exCycleFNa with typeElems := ["F", "Bk"], typeLabels := ["F", "Bk"],
                                              typeMasses := [189984032/10000000, 247] }).typeElems = ["F", "Cm"] := by
  decide +kernel

/-- fallback: one pseudo-atom type of mass 1000 turns ALL elements into type numbers -/
def exCycleFar : Atoms := { exCycle with typeMasses := [159994/10000, 1000, 390983/10000] }

example : LmpOk exCycleFar = true ∧ SomeMassFar exCycleFar = true := by decide +kernel
example : (norm massGuess .full exCycleFar).typeElems = ["1", "2", "3"] := by decide +kernel

/-- **fallback_margin_needed.**  The half printed unit in `SomeMassFar` cannot be dropped: the mass 23.0897694 is
    MORE than 0.1 away from every table mass (0.10000012 above Na), so the in-memory guess rejects it; but the file
    holds 23.089769, which is 0.09999972 from Na — after the cycle the type reads "Na" and no fallback happens. -/
theorem fallback_margin_needed :
    (∀ p ∈ massTable, 1 / 10 < absQ (p.2 - 230897694 / 10000000))
    ∧ guess massTable (1 / 10) (230897694 / 10000000) = none
    ∧ quant (230897694 / 10000000) = 23089769 / 1000000
    ∧ guess massTable (1 / 10) (quant (230897694 / 10000000)) = some "Na" := by
  decide +kernel

end Mofun.C14Cycle
