/-
  C04 — replacement changes exactly the matched atoms and nothing else.
  Property theorems only (helper lemmas: Proofs/ReplaceCount.lean, Proofs/ReplaceCountElem.lean,
  Proofs/ReplaceOverlap.lean).
  Model: Model/Replace.lean (`replaceCore` = `replace_pattern_in_structure` after the search).

  Vocabulary (defined in the Proofs files):
    `delSet p r replaceAll m`   D_m, the atoms match `m` wants removed (`set(match) − set(index map values)`)
    `nShared p r replaceAll`    number of atoms the two patterns share (`|unchangedPairs r p|`; 0 with replace_all)
    `IsRetained p r ra m i`     atom `i` of the structure is, in match `m`, the image of a shared pattern atom
    `Kept row row'`             same type id, position, charge, group; extra columns only padded with "."
    `SameCore row row'`         same position, charge, group
    `i - rankBelow del i`       index of the surviving atom `i` after the bulk deletion of `del` (C10)
  "The input structure and both patterns are left unmodified" is Python aliasing: not a theorem about a functional
  model; it is observed by the harness (`inputs_unchanged`).
-/
import MofunModel.Proofs.ReplaceCountElem

namespace Mofun.C04
open Mofun.C07

/-- the characterisation of the deletion list shared by the theorems below -/
def IsDeletionList (p r : Atoms) (ra : Bool) (ms : List PlacedMatch) (del : List Nat) : Prop :=
  del.Nodup ∧ ∀ x, x ∈ del ↔ ∃ m ∈ ms, x ∈ delSet p r ra m

/-- **replace_counts** (no guards).  On success the atom count is
    `N + Σ_m (|r| − |pairs|) − |⋃ D_m|`, written without subtraction:
    `|res| + |⋃ D_m| + M·|pairs| = N + M·|r|` where `del` lists `⋃ D_m` without repetition. -/
theorem replace_counts (s p r : Atoms) (ms : List PlacedMatch) (ra ig : Bool) (res : Atoms)
    (h : replaceCore s p r ms ra ig = .ok res) :
    ∃ del, IsDeletionList p r ra ms del
      ∧ res.atoms.length + del.length + ms.length * nShared p r ra
          = s.atoms.length + ms.length * r.atoms.length := by
  obtain ⟨st, hst, _, hnd, hmem, _, hlen⟩ := replace_no_double_delete s p r ms ra ig res h
  obtain ⟨hl, _⟩ := state_rows s p r ms ra ig st hst
  exact ⟨st.del, ⟨hnd, hmem⟩, by omega⟩

/-- **replace_counts_clean.**  Guards: every match names as many DISTINCT atoms as the search pattern has; no
    search-pattern atom is the partner of two replacement atoms (`unchangedPairs` injective on values); the
    deletion sets are pairwise disjoint (non-overlapping matches).  Then replacing `M` matches changes the atom
    count by exactly `M × (|r| − |p|)`:  `|res| + M·|p| = N + M·|r|`.  Holds for either flag, with or without
    `replace_all`, and for an empty replacement. -/
theorem replace_counts_clean (s p r : Atoms) (ms : List PlacedMatch) (ra ig : Bool) (res : Atoms)
    (h : replaceCore s p r ms ra ig = .ok res)
    (hidx : ∀ m ∈ ms, m.idx.length = p.atoms.length ∧ m.idx.Nodup)
    (hinj : ((unchangedPairs r p).map (·.2)).Nodup)
    (hdis : ¬ Overlapping p r ra ms) :
    res.atoms.length + ms.length * p.atoms.length = s.atoms.length + ms.length * r.atoms.length := by
  obtain ⟨del, ⟨hnd, hmem⟩, hcount⟩ := replace_counts s p r ms ra ig res h
  have hpw : (ms.map (delSet p r ra)).Pairwise (fun a b => ∀ x ∈ a, x ∉ b) :=
    Classical.byContradiction (fun hc => hdis ((not_pairwise_iff_overlapping p r ra ms).mp hc))
  have hk : nShared p r ra ≤ p.atoms.length := by
    cases ms with
    | nil =>
      unfold nShared
      cases ra
      · have h2 := sel_length_le p.atoms.length ((unchangedPairs r p).map (·.2)) hinj (by
          intro j hj
          obtain ⟨kv, hkv, rfl⟩ := List.mem_map.mp hj
          exact (unchangedPairs_valid r p kv hkv).2)
        simpa using h2
      · simp
    | cons m _ =>
      have := delSet_length p r ra m (hidx m List.mem_cons_self).1 (hidx m List.mem_cons_self).2 hinj
      omega
  have hlen : del.length = (ms.map (delSet p r ra)).length * (p.atoms.length - nShared p r ra) := by
    apply length_of_union del _ _ hnd
    · intro x
      rw [hmem x]
      simp only [List.mem_map]
      constructor
      · rintro ⟨m, hm, hx⟩; exact ⟨_, ⟨m, hm, rfl⟩, hx⟩
      · rintro ⟨_, ⟨m, hm, rfl⟩, hx⟩; exact ⟨m, hm, hx⟩
    · intro l hl
      obtain ⟨m, _, rfl⟩ := List.mem_map.mp hl
      exact nodup_delSet p r ra m
    · intro l hl
      obtain ⟨m, hm, rfl⟩ := List.mem_map.mp hl
      have := delSet_length p r ra m (hidx m hm).1 (hidx m hm).2 hinj
      omega
    · exact hpw
  rw [List.length_map] at hlen
  have hsplit : ms.length * p.atoms.length
      = ms.length * (p.atoms.length - nShared p r ra) + ms.length * nShared p r ra := by
    rw [← Nat.mul_add, Nat.sub_add_cancel hk]
  omega

/-- **replace_bystanders.**  Guard: every match has as many indices as the search pattern (what the search
    returns).  Then every atom `i` of `s` that belongs to no replaced match is in the result, at index
    `i − #{deleted indices below i}`, with identical type id, position, charge and group, and its extra columns
    unchanged up to "." padding for columns the replacement introduced; survivors keep their relative order
    (that index map is strictly increasing on atoms that are not deleted); and the old type tables are prefixes
    of the new ones, so an unchanged type id still means the same element, label and mass. -/
theorem replace_bystanders (s p r : Atoms) (ms : List PlacedMatch) (ra ig : Bool) (res : Atoms)
    (h : replaceCore s p r ms ra ig = .ok res) (hlen : ∀ m ∈ ms, m.idx.length = p.atoms.length) :
    ∃ del, IsDeletionList p r ra ms del
      ∧ (∀ i row, s.atoms[i]? = some row → (∀ m ∈ ms, i ∉ m.idx) →
          ∃ row', res.atoms[i - rankBelow del i]? = some row' ∧ Kept row row')
      ∧ (∀ i j, i < j → i ∉ del → i - rankBelow del i < j - rankBelow del j)
      ∧ s.typeElems <+: res.typeElems ∧ s.typeLabels <+: res.typeLabels ∧ s.typeMasses <+: res.typeMasses := by
  obtain ⟨st, hst, hdel, hnd, hmem, _, _⟩ := replace_no_double_delete s p r ms ra ig res h
  obtain ⟨_, t1, t2, t3, hrows⟩ := state_rows s p r ms ra ig st hst
  obtain ⟨_, d1, d2, d3, _⟩ := delete_atoms st.s res st.del hdel
  have hr : res.atoms = deleteIdx st.s.atoms st.del := by
    unfold Atoms.delete at hdel
    split at hdel
    · cases hdel
    · cases hdel; rfl
  refine ⟨st.del, ⟨hnd, hmem⟩, ?_, ?_, ?_, ?_, ?_⟩
  · intro i row hrow hby
    obtain ⟨row', hget, _, hkept, _⟩ := hrows i row hrow
    have hni : i ∉ st.del := by
      intro hc
      obtain ⟨m, hm, hx⟩ := (hmem i).mp hc
      exact hby m hm (mem_delSet_idx p r ra m i hx)
    have hnr : ∀ m ∈ ms, ¬ IsRetained p r ra m i :=
      fun m hm hc => hby m hm (isRetained_mem_idx p r ra m (hlen m hm) i hc)
    refine ⟨row', ?_, hkept hnr⟩
    rw [hr, deleteIdx_getElem? st.s.atoms st.del hnd i (List.getElem?_eq_some_iff.mp hget).1 hni]
    exact hget
  · intro i j hij hi
    exact newIndex_strictMono st.del hnd i j hij hi
  · rw [d1, t1]; exact List.prefix_append _ _
  · rw [d2, t2]; exact List.prefix_append _ _
  · rw [d3, t3]; exact List.prefix_append _ _

/-- **replace_bystanders_exact.**  When the replacement introduces no new per-atom extra-column label
    (in particular when neither object has extra columns) a bystander atom whose extra row is as wide as the label
    list is found in the result LITERALLY unchanged: same type id, position, charge, group and extra fields. -/
theorem replace_bystanders_exact (s p r : Atoms) (ms : List PlacedMatch) (ra ig : Bool) (res : Atoms)
    (h : replaceCore s p r ms ra ig = .ok res) (hlen : ∀ m ∈ ms, m.idx.length = p.atoms.length)
    (hlab : ∀ x ∈ r.xlabels, x ∈ s.xlabels) :
    ∃ del, IsDeletionList p r ra ms del
      ∧ ∀ i row, s.atoms[i]? = some row → (∀ m ∈ ms, i ∉ m.idx) → s.xlabels.length ≤ row.extra.length →
          res.atoms[i - rankBelow del i]? = some row := by
  obtain ⟨st, hst, hdel, hnd, hmem, _, _⟩ := replace_no_double_delete s p r ms ra ig res h
  have hr : res.atoms = deleteIdx st.s.atoms st.del := by
    unfold Atoms.delete at hdel
    split at hdel
    · cases hdel
    · cases hdel; rfl
  refine ⟨st.del, ⟨hnd, hmem⟩, ?_⟩
  intro i row hrow hby hw
  have hnr : ∀ m ∈ ms, ¬ IsRetained p r ra m i :=
    fun m hm hc => hby m hm (isRetained_mem_idx p r ra m (hlen m hm) i hc)
  have hget := state_rows_exact s p r ms ra ig st hst hlab i row hrow hw hnr
  have hni : i ∉ st.del := by
    intro hc
    obtain ⟨m, hm, hx⟩ := (hmem i).mp hc
    exact hby m hm (mem_delSet_idx p r ra m i hx)
  rw [hr, deleteIdx_getElem? st.s.atoms st.del hnd i (List.getElem?_eq_some_iff.mp hget).1 hni]
  exact hget

/-- the new type tables, exactly: `extend_types` appends the replacement's tables once (not at all for an empty
    replacement) -/
theorem replace_tables (s p r : Atoms) (ms : List PlacedMatch) (ra ig : Bool) (res : Atoms)
    (h : replaceCore s p r ms ra ig = .ok res) :
    res.typeElems = s.typeElems ++ (if r.atoms.isEmpty then [] else r.typeElems)
    ∧ res.typeLabels = s.typeLabels ++ (if r.atoms.isEmpty then [] else r.typeLabels)
    ∧ res.typeMasses = s.typeMasses ++ (if r.atoms.isEmpty then [] else r.typeMasses) := by
  obtain ⟨st, hst, hdel, _⟩ := replace_no_double_delete s p r ms ra ig res h
  obtain ⟨_, t1, t2, t3, _⟩ := state_rows s p r ms ra ig st hst
  obtain ⟨_, d1, d2, d3, _⟩ := delete_atoms st.s res st.del hdel
  exact ⟨d1.trans t1, d2.trans t2, d3.trans t3⟩

/-- **replace_shared_stay.**  EVERY atom of `s` that is not deleted — in particular every atom common to both
    patterns — stays where it was: same position, charge and group.  An atom that some match retains adopts the
    type of a replacement atom it is paired with (`row'.ty = br.ty + old number of atom types`, i.e. the entry
    `br.ty` of the replacement's own element table: `res.typeElems[row'.ty]? = r.typeElems[br.ty]?`; labels and
    masses likewise whenever those tables of `s` are as long as its element table). -/
theorem replace_shared_stay (s p r : Atoms) (ms : List PlacedMatch) (ra ig : Bool) (res : Atoms)
    (h : replaceCore s p r ms ra ig = .ok res) :
    ∃ del, IsDeletionList p r ra ms del
      ∧ ∀ i row, s.atoms[i]? = some row → i ∉ del →
          ∃ row', res.atoms[i - rankBelow del i]? = some row' ∧ SameCore row row'
            ∧ ((∃ m ∈ ms, IsRetained p r ra m i) →
                ∃ m ∈ ms, ∃ kv ∈ mapOf (unchangedPairs r p) ra m, kv.2 = i ∧ ∃ br, r.atoms[kv.1]? = some br
                  ∧ row'.ty = br.ty + s.typeElems.length
                  ∧ res.typeElems[row'.ty]? = r.typeElems[br.ty]?) := by
  obtain ⟨st, hst, hdel, hnd, hmem, _, _⟩ := replace_no_double_delete s p r ms ra ig res h
  obtain ⟨_, _, _, _, hrows⟩ := state_rows s p r ms ra ig st hst
  obtain ⟨t1, _, _⟩ := replace_tables s p r ms ra ig res h
  have hr : res.atoms = deleteIdx st.s.atoms st.del := by
    unfold Atoms.delete at hdel
    split at hdel
    · cases hdel
    · cases hdel; rfl
  refine ⟨st.del, ⟨hnd, hmem⟩, ?_⟩
  intro i row hrow hni
  obtain ⟨row', hget, hsc, _, hin⟩ := hrows i row hrow
  refine ⟨row', ?_, hsc, ?_⟩
  · rw [hr, deleteIdx_getElem? st.s.atoms st.del hnd i (List.getElem?_eq_some_iff.mp hget).1 hni]
    exact hget
  · intro hex
    obtain ⟨m, hm, kv, hkv, e, br, hbr, hty⟩ := hin hex
    have hne : r.atoms.isEmpty = false := by
      cases hr' : r.atoms with
      | nil => simp [hr'] at hbr
      | cons _ _ => rfl
    refine ⟨m, hm, kv, hkv, e, br, hbr, hty, ?_⟩
    rw [t1, hty, hne]
    simp only [Bool.false_eq_true, if_false]
    rw [List.getElem?_append_right (by omega)]
    congr 1; omega

/-- **replace_fraction.**  The selection is modelled as a relation (`Selection`): `sel` lists `k` distinct positions
    of the found list and `k` is a nearest integer to `f·M`.  For a fraction below 1 exactly the `k` selected matches
    are handed to `replaceCore`, each of them is a found match, the reported count is `k`, and `|k − f·M| ≤ 1/2`. -/
theorem replace_fraction (s p r : Atoms) (found : List PlacedMatch) (f : Rat) (sel : List Nat) (ra ig : Bool)
    (hsel : Selection found.length f sel) (hf : f < 1) :
    replaceSelected s p r found f sel ra ig
        = (replaceCore s p r (pick found sel) ra ig).map (fun res => (res, sel.length))
    ∧ (pick found sel).length = sel.length
    ∧ (∀ m ∈ pick found sel, m ∈ found)
    ∧ sel.length ≤ found.length
    ∧ f * (found.length : Rat) - 1 / 2 ≤ (sel.length : Rat) ∧ (sel.length : Rat) ≤ f * (found.length : Rat) + 1 / 2 := by
  have hl := pick_length found sel hsel.valid
  refine ⟨?_, hl, ?_, sel_length_le _ _ hsel.nodup hsel.valid, hsel.nearest_lo, hsel.nearest_hi⟩
  · simp only [replaceSelected, hf, if_true, hl]
  · intro m hm
    obtain ⟨i, _, hi⟩ := pick_mem found sel m hm
    exact List.mem_of_getElem? hi

/-- the reported count is the number of matches handed to `replaceCore`, whatever the fraction; with a fraction of
    1 (or more) these are all found matches -/
theorem replace_reported_count (s p r : Atoms) (found : List PlacedMatch) (f : Rat) (sel : List Nat) (ra ig : Bool)
    (res : Atoms) (n : Nat) (h : replaceSelected s p r found f sel ra ig = .ok (res, n)) :
    ∃ used, replaceCore s p r used ra ig = .ok res ∧ n = used.length
      ∧ (used = found ∨ (f < 1 ∧ used = pick found sel)) := by
  unfold replaceSelected at h
  by_cases hf : f < 1
  · simp only [hf, if_true] at h
    cases hc : replaceCore s p r (pick found sel) ra ig with
    | error e => rw [hc] at h; cases h
    | ok res' =>
      rw [hc] at h
      simp only [Except.map, Except.ok.injEq, Prod.mk.injEq] at h
      exact ⟨pick found sel, by rw [← h.1]; exact hc, h.2.symm, Or.inr ⟨hf, rfl⟩⟩
  · simp only [hf, if_false] at h
    cases hc : replaceCore s p r found ra ig with
    | error e => rw [hc] at h; cases h
    | ok res' =>
      rw [hc] at h
      simp only [Except.map, Except.ok.injEq, Prod.mk.injEq] at h
      exact ⟨found, by rw [← h.1]; exact hc, h.2.symm, Or.inl rfl⟩

/-- **replace_counts_per_element.**  Guards: the matches list `|p|` distinct existing atoms (`ValidMatches`, `Nodup`)
    that carry the search pattern's elements in pattern order (what the search returns, C01 `find_shape`); every type
    id of `s` is inside its element table; `unchangedPairs` injective on values; deletion sets pairwise disjoint.
    Then for EVERY element `e` the number of atoms of that element changes by exactly `M ×` the difference of the two
    patterns:  `count_e(res) + M·count_e(p) = count_e(s) + M·count_e(r)`, where an atom's element is what its type
    id resolves to in its structure's own element table.  Any flags; empty replacement included. -/
theorem replace_counts_per_element (s p r : Atoms) (ms : List PlacedMatch) (ra ig : Bool) (res : Atoms)
    (h : replaceCore s p r ms ra ig = .ok res)
    (hms : ValidMatches s p ms) (hnd : ∀ m ∈ ms, m.idx.Nodup)
    (hel : ∀ m ∈ ms, ∀ j (hj : j < m.idx.length), s.elemOf m.idx[j] = p.elemOf j)
    (hs : ∀ row ∈ s.atoms, row.ty < s.typeElems.length)
    (hinj : ((unchangedPairs r p).map (·.2)).Nodup)
    (hdis : ¬ Overlapping p r ra ms) (e : String) :
    countElem res e + ms.length * countElem p e = countElem s e + ms.length * countElem r e := by
  obtain ⟨st, hst, hdel, hnd_del, hmem, _, _⟩ := replace_no_double_delete s p r ms ra ig res h
  obtain ⟨hT, hB⟩ := state_elems s p r ms ra ig st hst hms hel hs e
  have hpw : (ms.map (delSet p r ra)).Pairwise (fun a b => ∀ x ∈ a, x ∉ b) :=
    Classical.byContradiction (fun hc => hdis ((not_pairwise_iff_overlapping p r ra ms).mp hc))
  have hres_t : res.typeElems = newTable s r := by
    have := (state_rows s p r ms ra ig st hst).2.1
    rw [(delete_atoms st.s res st.del hdel).2.1, this]; rfl
  have hr : res.atoms = deleteIdx st.s.atoms st.del := by
    unfold Atoms.delete at hdel
    split at hdel
    · cases hdel
    · cases hdel; rfl
  -- A: count in the result + deleted atoms of element e = count in the extended structure
  have hA := count_deleteIdx (elemsOf (newTable s r) st.s.atoms) st.del hnd_del e
  have hres_c : countElem res e = (deleteIdx (elemsOf (newTable s r) st.s.atoms) st.del).count e := by
    unfold countElem
    rw [hres_t, hr]
    unfold elemsOf
    rw [map_deleteIdx]
  have hdelN : ∀ i ∈ st.del, i < s.atoms.length := by
    intro i hi
    obtain ⟨m, hm, hx⟩ := (hmem i).mp hi
    exact (hms m hm).2 i (mem_delSet_idx p r ra m i hx)
  have hfilt : st.del.filter (fun i => decide ((elemsOf (newTable s r) st.s.atoms)[i]? = some e))
      = st.del.filter (fun i => decide ((elemsOf s.typeElems s.atoms)[i]? = some e)) := by
    apply List.filter_congr
    intro i hi
    have hiN := hdelN i hi
    have h1 : elemsOf (newTable s r) s.atoms = elemsOf s.typeElems s.atoms := by
      unfold newTable; exact elems_newTable s _ hs
    have : (elemsOf (newTable s r) st.s.atoms)[i]? = (elemsOf s.typeElems s.atoms)[i]? := by
      rw [← h1, ← hT, List.getElem?_take_of_lt hiN]
    rw [this]
  rw [hfilt] at hA
  -- C: the deleted atoms of element e, match by match
  have hperm : st.del.Perm (ms.map (delSet p r ra)).flatten := by
    apply (List.perm_ext_iff_of_nodup hnd_del (nodup_flatten_of _ ?_ hpw)).mpr
    · intro x
      rw [hmem x, List.mem_flatten]
      simp only [List.mem_map]
      constructor
      · rintro ⟨m, hm, hx⟩; exact ⟨_, ⟨m, hm, rfl⟩, hx⟩
      · rintro ⟨_, ⟨m, hm, rfl⟩, hx⟩; exact ⟨m, hm, hx⟩
    · intro l hl
      obtain ⟨m, _, rfl⟩ := List.mem_map.mp hl
      exact nodup_delSet p r ra m
  have hD := keys_vals_count p r ra e
  have hs_c : (elemsOf (newTable s r) s.atoms).count e = countElem s e := by
    unfold countElem newTable
    rw [elems_newTable s _ hs]
  rw [hs_c] at hB
  cases ms with
  | nil =>
    have : st.del = [] := List.eq_nil_of_length_eq_zero (by simpa using hperm.length_eq)
    rw [this] at hA hres_c
    simp only [List.filter_nil, List.length_nil, Nat.add_zero, Nat.zero_mul] at hA hB ⊢
    rw [hres_c, hA, hB]
  | cons m0 rest =>
    have hc0 := delSet_elem_count s p r ra m0 e (hms m0 List.mem_cons_self).1 (hms m0 List.mem_cons_self).2
      (hnd m0 List.mem_cons_self) (hel m0 List.mem_cons_self) hinj
    have hlenC := length_flatten_const
      (((m0 :: rest).map (delSet p r ra)).map
        (List.filter (fun i => decide ((elemsOf s.typeElems s.atoms)[i]? = some e))))
      (countElem p e - ((valsOf p r ra).filter (fun j => decide ((elemsOf p.typeElems p.atoms)[j]? = some e))).length)
      (by
        intro l hl
        simp only [List.mem_map] at hl
        obtain ⟨_, ⟨m, hm, rfl⟩, rfl⟩ := hl
        have := delSet_elem_count s p r ra m e (hms m hm).1 (hms m hm).2 (hnd m hm) (hel m hm) hinj
        unfold countElem
        omega)
    rw [← List.filter_flatten] at hlenC
    have hcd := (hperm.filter (fun i => decide ((elemsOf s.typeElems s.atoms)[i]? = some e))).length_eq
    rw [hlenC] at hcd
    simp only [List.length_map] at hcd
    have hle : ((valsOf p r ra).filter (fun j => decide ((elemsOf p.typeElems p.atoms)[j]? = some e))).length
        ≤ countElem p e := by unfold countElem; omega
    have hsplit : (m0 :: rest).length * countElem p e
        = (m0 :: rest).length * (countElem p e
            - ((valsOf p r ra).filter (fun j => decide ((elemsOf p.typeElems p.atoms)[j]? = some e))).length)
          + (m0 :: rest).length
            * ((valsOf p r ra).filter (fun j => decide ((elemsOf p.typeElems p.atoms)[j]? = some e))).length := by
      rw [← Nat.mul_add, Nat.sub_add_cancel hle]
    rw [hD] at hB
    have hr_c : (elemsOf r.typeElems r.atoms).count e = countElem r e := rfl
    rw [hr_c] at hB
    rw [hres_c]
    omega


/-! ### non-vacuity (structures of Props/C07.lean: the chain C–O–C–O–C, search C–O–C, replacement C–N–C) -/

/-- the guards of `replace_counts_clean` hold for the two consecutive matches that share a RETAINED atom -/
example : (∀ m ∈ [exM1, exM2], m.idx.length = exP.atoms.length ∧ m.idx.Nodup)
    ∧ ((unchangedPairs exRa exP).map (·.2)).Nodup := by
  constructor
  · decide
  · decide +kernel
example : ∃ res, replaceCore exS exP exRa [exM1, exM2] false false = .ok res ∧ res.atoms.length = 5 := by
  obtain ⟨res, h⟩ := (replace_ok_iff exS exP exRa [exM1, exM2] false (by decide) (by decide) (by decide)).mpr
    ex_not_overlapping
  refine ⟨res, h, ?_⟩
  have := replace_counts_clean exS exP exRa [exM1, exM2] false false res h (by decide) (by decide +kernel)
    ex_not_overlapping
  simpa [exS, exP, exRa] using this
/-- the additional guards of `replace_counts_per_element`, and its conclusion for carbon (3 C stay 3 C) and
    oxygen (2 O become 0 O, 2 N appear) -/
example : ValidMatches exS exP [exM1, exM2] ∧ (∀ m ∈ [exM1, exM2], m.idx.Nodup)
    ∧ (∀ m ∈ [exM1, exM2], ∀ j (hj : j < m.idx.length), exS.elemOf m.idx[j] = exP.elemOf j)
    ∧ (∀ row ∈ exS.atoms, row.ty < exS.typeElems.length) := by decide
example (res : Atoms) (h : replaceCore exS exP exRa [exM1, exM2] false false = .ok res) :
    countElem res "C" = 3 ∧ countElem res "O" = 0 ∧ countElem res "N" = 2 := by
  have hc := fun e => replace_counts_per_element exS exP exRa [exM1, exM2] false false res h (by decide) (by decide)
    (by decide) (by decide) (by decide +kernel) ex_not_overlapping e
  have e1 : countElem exS "C" = 3 ∧ countElem exP "C" = 2 ∧ countElem exRa "C" = 2 := by decide
  have e2 : countElem exS "O" = 2 ∧ countElem exP "O" = 1 ∧ countElem exRa "O" = 0 := by decide
  have e3 : countElem exS "N" = 0 ∧ countElem exP "N" = 0 ∧ countElem exRa "N" = 1 := by decide
  have h1 := hc "C"; have h2 := hc "O"; have h3 := hc "N"
  simp only [List.length_cons, List.length_nil] at h1 h2 h3
  omega
/-- the guard of `replace_bystanders_exact` -/
example : (∀ x ∈ exRa.xlabels, x ∈ exS.xlabels) ∧ (∀ row ∈ exS.atoms, exS.xlabels.length ≤ row.extra.length) := by decide
/-- one match replaced: atoms 3 and 4 are bystanders -/
example : (∀ m ∈ [exM1], m.idx.length = exP.atoms.length) ∧ (∀ m ∈ [exM1], 3 ∉ m.idx) ∧ (∀ m ∈ [exM1], 4 ∉ m.idx) := by
  decide
/-- a selection of 1 out of 2 found matches at fraction 1/2 (and 1/4: both 0 and 1 are nearest integers to 1/2) -/
example : Selection 2 (1 / 2) [1] := ⟨by decide, by decide, by decide +kernel, by decide +kernel⟩
example : Selection 2 (1 / 4) [0] ∧ Selection 2 (1 / 4) [] :=
  ⟨⟨by decide, by decide, by decide +kernel, by decide +kernel⟩,
   ⟨by decide, by decide, by decide +kernel, by decide +kernel⟩⟩
example : pick [exM1, exM2] [1] = [exM2] := by decide +kernel

end Mofun.C04
