/-
  C03 — search results do not depend on how crystal or pattern are represented.

  FULL strength (every input, no hypothesis on the oracle):
    * `find_keys_indep_of_choose`, `find_count_indep_of_choose` — the reported atom groups (and their number) do not
      depend on `random.choice`;
    * `hints_valid` — the hint defaulting (`resolveAxis`, `resolveOpoint`; code: `axisp1_idx/axisp2_idx/opoint_idx`
      handling) returns valid, DISTINCT axis points for every pattern with two distinct points, also when the single
      supplied hint is INDEX 0 (the defect fixed in 18a6b02: `axisp1_idx or axisp2_idx`), the missing one being a
      farthest point; a valid orientation point for more than two atoms;
    * spec level (`Model/Occ.lean`): `occ_shift` (whole structure moved by any vector), `occ_wrap` (individual atoms
      moved by lattice vectors: only the image vectors change), `occ_perm` (atoms listed in another order: keys are
      mapped through the permutation) — statements about the occurrence SET the search is supposed to return.
      `occ_pattern_rigid` (pattern moved by a rotation + translation).
  PARTIAL (explicit hypotheses `FindIsOcc`: guards of C02, 2ε ≤ atol, soundness of the reports = property C01, and
  `OracleAligns`): `find_keys_eq_occ_partial` (reported key set = `Occ`) and, through the invariances of `Occ`, the
  invariance of the key set of `find` ITSELF under shift + wrap, atom permutation, rigid motion of the pattern.
  Supercells: `occ_replicate_lift` / `occ_replicate_fold` (full, no guard): every unit-cell occurrence appears in the
  supercell once for every image and every supercell occurrence folds back; `supercell_count_counterexample`: in a
  narrow cell (D < width < 2D) the COUNT relation is false (1 match in the unit cell, 4 in the 1×2×1 supercell).
  The count relation |Occ(supercell)| = a·b·c·|Occ(unit)| under the guard width > 2D is proved in Props/C03Count.lean
  (`occ_replicate_count`).  The link "search result = Occ" is what the correspondence run and the
  metamorphic oracle of harness/props/c03.py validate.
-/
import MofunModel.Proofs.FindCompleteGroup
import MofunModel.Proofs.OccHints
import MofunModel.Proofs.OccLemmas
import MofunModel.Proofs.OccPattern
import MofunModel.Proofs.OccFind
import MofunModel.Proofs.OccReplicate

namespace Mofun

/-! ## independence of the random choice -/

/-- **find_keys_indep_of_choose.** The list of keys (sorted unit-cell indices) of the reported matches is the same
    for every chooser, i.e. for every state of `random`. -/
theorem find_keys_indep_of_choose (inp : FindInput) (ax1 : Nat) (oracle : Nat → Nat → Quat)
    (choose₁ choose₂ : Nat → List Nat → Nat) :
    (find inp ax1 oracle choose₁).map Match.key = (find inp ax1 oracle choose₂).map Match.key := by
  rw [find_keys_eq, find_keys_eq]

/-- the number of matches does not depend on the chooser either -/
theorem find_count_indep_of_choose (inp : FindInput) (ax1 : Nat) (oracle : Nat → Nat → Quat)
    (choose₁ choose₂ : Nat → List Nat → Nat) :
    (find inp ax1 oracle choose₁).length = (find inp ax1 oracle choose₂).length := by
  have := congrArg List.length (find_keys_indep_of_choose inp ax1 oracle choose₁ choose₂)
  simpa using this

/-! ## hints -/

/-- **hints_valid.** `pp` a pattern with two distinct points `pp[i] ≠ pp[j]`.
    (1) no axis hint: two valid indices of distinct points at maximal distance;
    (2) ONE axis hint `a` in either slot — `a = 0` included —: the given point is the first axis point, the second is
        a valid index of a point farthest from it, hence a different point;
    (3) both given: used as they are;
    (4) orientation point: the given one, or (more than two atoms) a valid index of a point farthest from the axis;
        none for one- and two-atom patterns. -/
theorem hints_valid (pp : List Vec3) (i j : Nat) (hi : i < pp.length) (hj : j < pp.length)
    (hne : pp.getD i Vec3.zero ≠ pp.getD j Vec3.zero) :
    ((resolveAxis pp none none).1 < pp.length ∧ (resolveAxis pp none none).2 < pp.length ∧
      pp.getD (resolveAxis pp none none).1 Vec3.zero ≠ pp.getD (resolveAxis pp none none).2 Vec3.zero ∧
      ∀ a b, a < pp.length → b < pp.length →
        distSq (pp.getD a Vec3.zero) (pp.getD b Vec3.zero)
          ≤ distSq (pp.getD (resolveAxis pp none none).1 Vec3.zero) (pp.getD (resolveAxis pp none none).2 Vec3.zero)) ∧
    (∀ a, a < pp.length →
      (resolveAxis pp (some a) none).1 = a ∧ resolveAxis pp none (some a) = resolveAxis pp (some a) none ∧
      (resolveAxis pp (some a) none).2 < pp.length ∧
      pp.getD (resolveAxis pp (some a) none).2 Vec3.zero ≠ pp.getD a Vec3.zero ∧
      ∀ k, k < pp.length → distSq (pp.getD a Vec3.zero) (pp.getD k Vec3.zero)
          ≤ distSq (pp.getD a Vec3.zero) (pp.getD (resolveAxis pp (some a) none).2 Vec3.zero)) ∧
    (∀ a b, resolveAxis pp (some a) (some b) = (a, b)) ∧
    (∀ ax1 ax2 o, resolveOpoint pp ax1 ax2 (some o) = some o) ∧
    (∀ ax1 ax2, pp.length > 2 → ∃ o, resolveOpoint pp ax1 ax2 none = some o ∧ o < pp.length ∧
      ∀ k, k < pp.length →
        offAxisSq (Vec3.sub (pp.getD ax2 Vec3.zero) (pp.getD ax1 Vec3.zero)) (Vec3.sub (pp.getD k Vec3.zero) (pp.getD ax1 Vec3.zero))
          ≤ offAxisSq (Vec3.sub (pp.getD ax2 Vec3.zero) (pp.getD ax1 Vec3.zero)) (Vec3.sub (pp.getD o Vec3.zero) (pp.getD ax1 Vec3.zero))) ∧
    (∀ ax1 ax2, pp.length ≤ 2 → resolveOpoint pp ax1 ax2 none = none) :=
  ⟨resolveAxis_auto pp i j hi hj hne,
   fun a ha => resolveAxis_one pp a ha i j hi hj hne,
   resolveAxis_both pp,
   resolveOpoint_given pp,
   resolveOpoint_auto pp,
   resolveOpoint_small pp⟩

/-- the former defect, spelled out: the single hint `0` is honoured -/
theorem hint_zero_honoured (pp : List Vec3) (i j : Nat) (hi : i < pp.length) (hj : j < pp.length)
    (hne : pp.getD i Vec3.zero ≠ pp.getD j Vec3.zero) :
    (resolveAxis pp (some 0) none).1 = 0 ∧ (resolveAxis pp (some 0) none).2 < pp.length ∧
    pp.getD (resolveAxis pp (some 0) none).2 Vec3.zero ≠ pp.getD 0 Vec3.zero := by
  have h := resolveAxis_one pp 0 (by omega) i j hi hj hne
  exact ⟨h.1, h.2.2.1, h.2.2.2.1⟩

/-! ## the occurrence set is a property of the crystal, not of its listing -/

/-- **occ_shift.** Adding any vector `v` to all positions leaves `Occ` unchanged. -/
theorem occ_shift (inp : FindInput) (v : Vec3) (epsSq : Rat) (key : List Nat) :
    Occ (inp.shift v) epsSq key ↔ Occ inp epsSq key :=
  occ_shift_iff inp v epsSq key

/-- **occ_wrap.** Adding lattice vectors (integer multipliers `w i`) to individual atoms — what wrapping into the
    cell does — leaves `Occ` unchanged; only the image vectors of the occurrences change
    (`n k ↦ n k − w (g k) + w (g 0)`, see `rigid_latticeMoved`). -/
theorem occ_wrap (inp inp' : FindInput) (w : Nat → Int × Int × Int) (hm : LatticeMoved inp inp' w)
    (epsSq : Rat) (key : List Nat) : Occ inp epsSq key ↔ Occ inp' epsSq key :=
  occ_latticeMoved_iff inp inp' w hm epsSq key

/-- shift and wrap together (`occ_shift_wrap` of the design) -/
theorem occ_shift_wrap (inp inp' : FindInput) (v : Vec3) (w : Nat → Int × Int × Int)
    (hm : LatticeMoved (inp.shift v) inp' w) (epsSq : Rat) (key : List Nat) :
    Occ inp epsSq key ↔ Occ inp' epsSq key :=
  (occ_shift inp v epsSq key).symm.trans (occ_wrap (inp.shift v) inp' w hm epsSq key)

/-- **occ_perm.** If `inp'` lists the atoms of `inp` in another order (old atom `i` = new atom `σ i`), every
    occurrence key of `inp` is an occurrence key of `inp'` after renaming through `σ`. -/
theorem occ_perm (inp inp' : FindInput) (σ : Nat → Nat) (hr : Renamed inp inp' σ) (epsSq : Rat) (key : List Nat)
    (h : Occ inp epsSq key) : Occ inp' epsSq (sortNat (key.map σ)) :=
  occ_renamed inp inp' σ hr epsSq key h

/-- **occ_pattern_rigid.** Replacing the pattern `P` by `Rm·P + tm` (`Rm` orthogonal with determinant one) leaves
    `Occ` unchanged. -/
theorem occ_pattern_rigid (inp : FindInput) (Rm : Mat3) (tm : Vec3) (hRm : Rm.IsProperRotation)
    (hRmT : Rm.transpose.IsProperRotation) (epsSq : Rat) (key : List Nat) :
    Occ (inp.movePattern Rm tm) epsSq key ↔ Occ inp epsSq key :=
  occ_movePattern_iff inp Rm tm hRm hRmT epsSq key

/-! ## the search result is the occurrence set (partial) — hence invariant -/

/-- **find_keys_eq_occ_partial.** Under `FindIsOcc` — guards of the completeness theorem, `2ε ≤ atol`, soundness of
    the reports (property C01: every reported group is an ε-occurrence) and `OracleAligns` — the reported key set
    is exactly `Occ(S, P, ε)`.  Missing for full strength: C01's soundness theorem for the code's oracle and
    `OracleAligns` (float numerics). -/
theorem find_keys_eq_occ_partial (inp : FindInput) (ax1 : Nat) (oracle : Nat → Nat → Quat)
    (choose : Nat → List Nat → Nat) (epsSq : Rat) (h : FindIsOcc inp ax1 oracle choose epsSq) (k : List Nat) :
    k ∈ (find inp ax1 oracle choose).map Match.key ↔ Occ inp epsSq k :=
  find_keys_iff_occ inp ax1 oracle choose epsSq h k

/-- shift the structure by any vector and move atoms by lattice vectors (wrap): same reported groups, same count —
    whatever hints, oracle and chooser the two searches use, as long as both satisfy `FindIsOcc` -/
theorem find_invariant_shift_wrap_partial (inp inp' : FindInput) (v : Vec3) (w : Nat → Int × Int × Int)
    (hm : LatticeMoved (inp.shift v) inp' w) (ax1 ax1' : Nat) (oracle oracle' : Nat → Nat → Quat)
    (choose choose' : Nat → List Nat → Nat) (epsSq : Rat)
    (h : FindIsOcc inp ax1 oracle choose epsSq) (h' : FindIsOcc inp' ax1' oracle' choose' epsSq) :
    ((find inp ax1 oracle choose).map Match.key).Perm ((find inp' ax1' oracle' choose').map Match.key) ∧
    (find inp ax1 oracle choose).length = (find inp' ax1' oracle' choose').length :=
  find_keys_perm_of_occ_iff inp inp' ax1 ax1' oracle oracle' choose choose' epsSq h h'
    (fun k => occ_shift_wrap inp inp' v w hm epsSq k)

/-- rigid motion of the pattern: same reported groups, same count -/
theorem find_invariant_pattern_rigid_partial (inp : FindInput) (Rm : Mat3) (tm : Vec3) (hRm : Rm.IsProperRotation)
    (hRmT : Rm.transpose.IsProperRotation) (ax1 ax1' : Nat) (oracle oracle' : Nat → Nat → Quat)
    (choose choose' : Nat → List Nat → Nat) (epsSq : Rat)
    (h : FindIsOcc inp ax1 oracle choose epsSq) (h' : FindIsOcc (inp.movePattern Rm tm) ax1' oracle' choose' epsSq) :
    ((find inp ax1 oracle choose).map Match.key).Perm
      ((find (inp.movePattern Rm tm) ax1' oracle' choose').map Match.key) ∧
    (find inp ax1 oracle choose).length = (find (inp.movePattern Rm tm) ax1' oracle' choose').length :=
  find_keys_perm_of_occ_iff inp (inp.movePattern Rm tm) ax1 ax1' oracle oracle' choose choose' epsSq h h'
    (fun k => (occ_pattern_rigid inp Rm tm hRm hRmT epsSq k).symm)

/-- atoms listed in another order (old atom `i` = new atom `σ i`): every reported group of the first search,
    renamed through `σ`, is reported by the second (with the inverse renaming this gives the other inclusion) -/
theorem find_keys_perm_partial (inp inp' : FindInput) (σ : Nat → Nat) (hr : Renamed inp inp' σ) (ax1 ax1' : Nat)
    (oracle oracle' : Nat → Nat → Quat) (choose choose' : Nat → List Nat → Nat) (epsSq : Rat)
    (h : FindIsOcc inp ax1 oracle choose epsSq) (h' : FindIsOcc inp' ax1' oracle' choose' epsSq)
    (k : List Nat) (hk : k ∈ (find inp ax1 oracle choose).map Match.key) :
    sortNat (k.map σ) ∈ (find inp' ax1' oracle' choose').map Match.key :=
  (find_keys_iff_occ inp' ax1' oracle' choose' epsSq h' _).mpr
    (occ_perm inp inp' σ hr epsSq k ((find_keys_iff_occ inp ax1 oracle choose epsSq h k).mp hk))

/-! ## supercells -/

/-- **occ_replicate (lift).** Every occurrence `(g, n)` of the unit cell occurs in the a×b×c supercell with its first
    atom in ANY image `m` of the box — "once per image": the supercell atoms fold back onto `g` (`% N`) and the first
    one is atom `g 0` of image `m`.  No guard. -/
theorem occ_replicate_lift (inp : FindInput) (a b c : Nat) (hlen : inp.elems.length = inp.pos.length) (epsSq : Rat)
    (g : Nat → Nat) (n : Nat → Int × Int × Int) (h : RigidOccurrence inp epsSq g n)
    (m : Nat × Nat × Nat) (h1 : m.1 < a) (h2 : m.2.1 < b) (h3 : m.2.2 < c) :
    ∃ g' n', RigidOccurrence (inp.replicate a b c) epsSq g' n' ∧
      (∀ k, k < inp.ppos.length → g' k % inp.pos.length = g k) ∧
      g' 0 = encodeImg b c m * inp.pos.length + g 0 :=
  rigid_replicate_lift inp a b c hlen epsSq g n h m h1 h2 h3

/-- **occ_replicate (fold).** Every occurrence of the supercell is, after folding the atom indices with `% N`, an
    occurrence of the unit cell.  No guard. -/
theorem occ_replicate_fold (inp : FindInput) (a b c : Nat) (hlen : inp.elems.length = inp.pos.length) (epsSq : Rat)
    (g' : Nat → Nat) (n' : Nat → Int × Int × Int) (h : RigidOccurrence (inp.replicate a b c) epsSq g' n') :
    ∃ n, RigidOccurrence inp epsSq (fun k => g' k % inp.pos.length) n :=
  rigid_replicate_fold inp a b c hlen epsSq g' n' h

/-
  The count form  #{keys of Occ(replicate S a b c)} = a·b·c · #{keys of Occ(S)}  under the guard "every perpendicular
  width > 2·(diameter + 2·atol)" is proved in Props/C03Count.lean (`occ_replicate_count`).  Beyond lift/fold it needs that
  an atom group of the unit cell has a single realisation (image vectors determined by the atoms) and that lifts into
  different images are different atom groups — both consequences of the guard; below the guard both fail, as the next
  example shows.
-/

/-- the narrow cell of the known finding C03-supercell-two-images-one-group: 1.70 × 1.50 × 1.50 Å, a C–O pair
    (1.25 Å); the O atom and its image O + b are BOTH 1.25 Å from the C atom -/
def c03Narrow : FindInput :=
  { elems := ["C", "O"], pos := [⟨6/5, 19/20, 1/2⟩, ⟨1/5, 1/5, 1/2⟩],
    cell := ⟨⟨17/10, 0, 0⟩, ⟨0, 3/2, 0⟩, ⟨0, 0, 3/2⟩⟩,
    pelems := ["C", "O"], ppos := [⟨0, 0, 0⟩, ⟨5/4, 0, 0⟩], atol := 1/20 }

/-- exact rotations for the two directions C→O = (−1, ∓3/4, 0): quaternions (0, 0, ∓3, 1) -/
def c03NarrowOracle : Nat → Nat → Quat := fun g i => if (g + i) % 2 = 0 then ⟨0, 0, -3, 1⟩ else ⟨0, 0, 3, 1⟩

/-- the cell satisfies the property's guard (every width > diameter + 2·atol; all guards of the completeness theorem) -/
example : searchGuards c03Narrow = true := by decide +kernel

/-- **supercell_count_counterexample.** With the guard of the property (widths > D) but a width below 2·D the
    supercell relation is false: the unit cell has ONE candidate group with TWO tuples passing the re-check (the
    two images of the O atom) and reports 1 match; the 1×2×1 supercell reports 4 = 2·2, not 2·1. -/
theorem supercell_count_counterexample :
    (findGroups c03Narrow 0 c03NarrowOracle).2 = [{ key := [0, 1], tuples := [[0, 1], [0, 29]], good := [0, 1] }] ∧
    (find c03Narrow 0 c03NarrowOracle (fun _ _ => 0)).length = 1 ∧
    ((find (c03Narrow.replicate 1 2 1) 0 c03NarrowOracle (fun _ _ => 0)).map Match.key)
      = [[0, 1], [0, 3], [2, 3], [1, 2]] := by
  decide +kernel

/-- the same at spec level: ONE atom group {C, O} of the narrow cell carries TWO different occurrences (exact fits,
    ε = 0): with the O in the home image and with the O in the image (0, 1, 0) -/
theorem narrow_cell_two_realisations :
    RigidOccurrence c03Narrow 0 (fun k => k) (fun _ => (0, 0, 0)) ∧
    RigidOccurrence c03Narrow 0 (fun k => k) (fun k => if k = 1 then (0, 1, 0) else (0, 0, 0)) := by
  have two : ∀ k, k < 2 → k = 0 ∨ k = 1 := by intro k hk; omega
  constructor
  · refine { idx_lt := fun k hk => hk, home := rfl, elem := ?_, fit := ?_ }
    · intro k hk
      rcases two k hk with rfl | rfl <;> rfl
    · refine ⟨⟨⟨-4/5, 3/5, 0⟩, ⟨-3/5, -4/5, 0⟩, ⟨0, 0, 1⟩⟩, ⟨6/5, 19/20, 1/2⟩,
        by unfold Mat3.IsProperRotation; decide +kernel, ?_⟩
      intro k hk
      rcases two k hk with rfl | rfl <;> decide +kernel
  · refine { idx_lt := fun k hk => hk, home := rfl, elem := ?_, fit := ?_ }
    · intro k hk
      rcases two k hk with rfl | rfl <;> rfl
    · refine ⟨⟨⟨-4/5, -3/5, 0⟩, ⟨3/5, -4/5, 0⟩, ⟨0, 0, 1⟩⟩, ⟨6/5, 19/20, 1/2⟩,
        by unfold Mat3.IsProperRotation; decide +kernel, ?_⟩
      intro k hk
      rcases two k hk with rfl | rfl <;> decide +kernel

/-! ## non-vacuity -/

/-- pattern whose FIRST atom is an end point of the longest axis: the hint `(0, None, None)` resolves to (0, 2) -/
def c03Pattern : List Vec3 := [⟨0, 0, 0⟩, ⟨5/4, 0, 0⟩, ⟨19/8, 0, 0⟩, ⟨1, 1, 0⟩]

example : c03Pattern.getD 0 Vec3.zero ≠ c03Pattern.getD 1 Vec3.zero := by decide +kernel
example : resolveAxis c03Pattern (some 0) none = (0, 2) := by decide +kernel
example : resolveAxis c03Pattern none (some 0) = (0, 2) := by decide +kernel
example : resolveAxis c03Pattern none none = (0, 2) := by decide +kernel
example : resolveAxis c03Pattern (some 3) none = (3, 2) := by decide +kernel
example : resolveOpoint c03Pattern 0 2 none = some 3 := by decide +kernel

/-- a symmetric pair: two candidate orderings pass the check, the chooser decides which one is returned, the key
    does not change -/
def c03Sym : FindInput :=
  { elems := ["O", "O"], pos := [⟨1, 1, 1⟩, ⟨5/2, 1, 1⟩], cell := ⟨⟨8, 0, 0⟩, ⟨0, 8, 0⟩, ⟨0, 0, 8⟩⟩,
    pelems := ["O", "O"], ppos := [⟨0, 0, 0⟩, ⟨3/2, 0, 0⟩], atol := 1/20 }
def c03Oracle : Nat → Nat → Quat := fun _ i => if i = 0 then ⟨0, 0, 0, 1⟩ else ⟨0, 0, 1, 0⟩

example : (find c03Sym 0 c03Oracle (fun _ _ => 0)).map (·.idx) = [[0, 1]] := by decide +kernel
example : (find c03Sym 0 c03Oracle (fun _ _ => 1)).map (·.idx) = [[1, 0]] := by decide +kernel
example : (find c03Sym 0 c03Oracle (fun _ _ => 1)).map Match.key = [[0, 1]] := by decide +kernel

/-- a genuine occurrence for `Occ` (identity rotation, exact fit), its shifted copy and its renaming -/
example : Occ c03Sym 0 [0, 1] := by
  refine ⟨fun k => k, fun _ => (0, 0, 0), ?_, by decide +kernel⟩
  refine { idx_lt := fun k hk => hk, home := rfl, elem := ?_, fit := ?_ }
  · intro k hk
    have : k < 2 := hk
    have : k = 0 ∨ k = 1 := by omega
    rcases this with rfl | rfl <;> rfl
  · refine ⟨⟨⟨1, 0, 0⟩, ⟨0, 1, 0⟩, ⟨0, 0, 1⟩⟩, ⟨1, 1, 1⟩, by unfold Mat3.IsProperRotation; decide +kernel, ?_⟩
    intro k hk
    have : k < 2 := hk
    have : k = 0 ∨ k = 1 := by omega
    rcases this with rfl | rfl <;> decide +kernel

/-- a quarter turn about z is a proper rotation in the sense of `occ_pattern_rigid` (both guards) -/
example : (⟨⟨0, -1, 0⟩, ⟨1, 0, 0⟩, ⟨0, 0, 1⟩⟩ : Mat3).IsProperRotation ∧
    (⟨⟨0, -1, 0⟩, ⟨1, 0, 0⟩, ⟨0, 0, 1⟩⟩ : Mat3).transpose.IsProperRotation := by
  unfold Mat3.IsProperRotation Mat3.transpose; decide +kernel

end Mofun
