/-
  C13 — LAMMPS data files round-trip and mean what the structure says.
  Property theorems only (helper lemmas and the guards: Proofs/LmpLemmas.lean).  Model: Model/Lmp.lean
  (`saveLmp` = `save_lmpdat`, `loadLmp` = `load_lmpdat` as a state machine over token lines, `norm` = what one trip
  through a file does to a structure, `quant` = the printed precision).
-/
import MofunModel.Proofs.LmpLemmas
import MofunModel.Proofs.LmpPrecision

namespace Mofun.Lmp

/-- **lmp_header_counts.**  For every structure (no guard for the header part): the header of the written file — the
    lines before the first section name, read by `declared` / `declaredBox` / `declaredTilt`, which know nothing of
    the writer — declares exactly the structure's numbers of atoms, bonds, angles, dihedrals, impropers; its type
    counts are `num_*_types`, each line present iff the count is positive; the box is `0 … length` per axis and the
    tilt line is present iff the cell is not orthorhombic, in the order `xy xz yz` = `cell[1,0] cell[2,0] cell[2,1]`
    (all at the printed precision).  And the reader's loop finds in each section exactly as many rows as the header
    declares / as the structure has entries (no guard either: the reader splits a line at its first `#` only, so labels
    and coefficient strings may contain any number of `#`). -/
theorem lmp_header_counts (a : Atoms) (st : Style) :
    let hdr := headerOf (saveLines a st)
    (declared ["atoms"] hdr = some a.atoms.length
      ∧ declared ["bonds"] hdr = some a.bonds.terms.length
      ∧ declared ["angles"] hdr = some a.angles.terms.length
      ∧ declared ["dihedrals"] hdr = some a.dihedrals.terms.length
      ∧ declared ["impropers"] hdr = some a.impropers.terms.length)
    ∧ (declared ["atom", "types"] hdr = (if numAtomTypes a > 0 then some (numAtomTypes a) else none)
      ∧ declared ["bond", "types"] hdr = (if numTermTypes a.bonds > 0 then some (numTermTypes a.bonds) else none)
      ∧ declared ["angle", "types"] hdr = (if numTermTypes a.angles > 0 then some (numTermTypes a.angles) else none)
      ∧ declared ["dihedral", "types"] hdr
          = (if numTermTypes a.dihedrals > 0 then some (numTermTypes a.dihedrals) else none)
      ∧ declared ["improper", "types"] hdr
          = (if numTermTypes a.impropers > 0 then some (numTermTypes a.impropers) else none))
    ∧ (declaredBox "xlo" "xhi" hdr = a.cell.map (fun m => (0, quantMicro m.a.x))
      ∧ declaredBox "ylo" "yhi" hdr = a.cell.map (fun m => (0, quantMicro m.b.y))
      ∧ declaredBox "zlo" "zhi" hdr = a.cell.map (fun m => (0, quantMicro m.c.z)))
    ∧ declaredTilt hdr = (match a.cell with
        | some m => if m.isOrtho then none else some (quantMicro m.b.x, quantMicro m.c.x, quantMicro m.c.y)
        | none => none)
    ∧ (∃ c d, run {} (saveLines a st) = .ok ⟨c, false, d⟩
          ∧ d.atoms.length = a.atoms.length ∧ d.masses.length = a.typeMasses.length
          ∧ d.bonds.length = a.bonds.terms.length ∧ d.angles.length = a.angles.terms.length
          ∧ d.dihedrals.length = a.dihedrals.terms.length ∧ d.impropers.length = a.impropers.terms.length
          ∧ d.pair.length = a.pairCoeffs.length ∧ d.bond.length = a.bonds.coeffs.length
          ∧ d.angle.length = a.angles.coeffs.length ∧ d.dihedral.length = a.dihedrals.coeffs.length
          ∧ d.improper.length = a.impropers.coeffs.length) := by
  intro hdr
  have hh : hdr = headerLines a := headerOf_saveLines a st
  rw [hh]
  refine ⟨declared_counts a, declared_types a, declared_box a, declared_tilt a, ?_⟩
  obtain ⟨c, hr⟩ := run_saveLines a st
  refine ⟨c, finalData a st, hr, ?_⟩
  simp [fd_atoms, fd_masses, fd_bonds, fd_angles, fd_dihedrals, fd_impropers, fd_pair, fd_bond, fd_angle, fd_dihedral,
    fd_improper, numbered_length, termLines, coeffLines]

/-- **lmp_roundtrip** (full style).  For every structure in the guard `LmpOk` (any number of atoms, also none; one label
    per mass; labels without line break or outer blanks; coefficient strings without line break — `#` is allowed in both,
    any number of times; cell absent or LAMMPS-oriented with lengths that print positive; well-formed term tuples; atom
    types that have a label) and every
    element-guessing function: the writer succeeds and the reader, run on exactly the lines written, returns `norm a`. -/
theorem lmp_roundtrip (guess : List Rat → Option (List String)) (a : Atoms) (h : LmpOk a = true) :
    ∃ lines, saveLmp a .full = .ok lines ∧ loadLmp guess lines .full = .ok (norm guess .full a) :=
  ⟨saveLines a .full, (roundtrip guess a .full h).1, (roundtrip guess a .full h).2⟩

/-- **lmp_roundtrip_atomic** (stretch goal of the design, proved): the same for the atomic style; charges and groups,
    which that style does not store, come back as zero. -/
theorem lmp_roundtrip_atomic (guess : List Rat → Option (List String)) (a : Atoms) (h : LmpOk a = true) :
    ∃ lines, saveLmp a .atomic = .ok lines ∧ loadLmp guess lines .atomic = .ok (norm guess .atomic a) :=
  ⟨saveLines a .atomic, (roundtrip guess a .atomic h).1, (roundtrip guess a .atomic h).2⟩

/-- **norm_keeps.**  What `norm` (full style) keeps and what it changes: atom order with type ids and groups, labels,
    every term with its atoms and type are EQUAL; positions, charges, masses, cell entries are rounded to the printed
    precision (`quant`); coefficient strings are re-joined (`normCoeff`); elements come from the masses through `guess`,
    with the type numbers for ALL types when it fails; extra columns (not stored by the format) are dropped. -/
theorem norm_keeps (guess : List Rat → Option (List String)) (a : Atoms) :
    let b := norm guess .full a
    b.atoms.map (·.ty) = a.atoms.map (·.ty) ∧ b.atoms.map (·.group) = a.atoms.map (·.group)
    ∧ b.atoms.map (·.pos) = a.atoms.map (fun r => quantV r.pos)
    ∧ b.atoms.map (·.charge) = a.atoms.map (fun r => quant r.charge)
    ∧ b.cell = a.cell.map quantM ∧ b.typeMasses = a.typeMasses.map quant ∧ b.typeLabels = a.typeLabels
    ∧ b.bonds.terms.map (fun t => (t.atoms, t.ty)) = a.bonds.terms.map (fun t => (t.atoms, t.ty))
    ∧ b.angles.terms.map (fun t => (t.atoms, t.ty)) = a.angles.terms.map (fun t => (t.atoms, t.ty))
    ∧ b.dihedrals.terms.map (fun t => (t.atoms, t.ty)) = a.dihedrals.terms.map (fun t => (t.atoms, t.ty))
    ∧ b.impropers.terms.map (fun t => (t.atoms, t.ty)) = a.impropers.terms.map (fun t => (t.atoms, t.ty))
    ∧ b.pairCoeffs = a.pairCoeffs.map (normCoeff " ") ∧ b.bonds.coeffs = a.bonds.coeffs.map (normCoeff " ")
    ∧ b.angles.coeffs = a.angles.coeffs.map (normCoeff "  ") ∧ b.dihedrals.coeffs = a.dihedrals.coeffs.map (normCoeff " ")
    ∧ b.impropers.coeffs = a.impropers.coeffs.map (normCoeff " ")
    ∧ b.typeElems = elementsOf guess (a.typeMasses.map quant) := by
  simp [norm, normTerms, List.map_map, Function.comp_def]

/-- the documented element fallback: the guess when it succeeds, else the type numbers `1 … n` for ALL types -/
theorem elements_fallback (guess : List Rat → Option (List String)) (masses : List Rat) :
    (∀ e, guess masses = some e → elementsOf guess masses = e)
    ∧ (guess masses = none → elementsOf guess masses = (List.range masses.length).map (fun i => showNat (i + 1))) := by
  constructor
  · intro e h; simp [elementsOf, h]
  · intro h; simp [elementsOf, h]

/-- **lmp_printed_precision.**  "To the printed precision": one trip moves a position, charge, mass or cell entry by
    at most half a unit of the sixth decimal (`norm` applies `quant` to each of them, see `norm_keeps`). -/
theorem lmp_printed_precision (x : Rat) : quant x - x ≤ 1 / 2000000 ∧ x - quant x ≤ 1 / 2000000 := quant_close x

/-- **lmp_coeff_tokens.**  Every coefficient entry survives token for token (and its comment too): the reader's view
    (`tokOf`: blank-separated tokens before the `#`, stripped comment after it) of each entry of the structure that
    comes back equals that of the original entry — for all five tables, no guard. -/
theorem lmp_coeff_tokens (guess : List Rat → Option (List String)) (st : Style) (a : Atoms) :
    let b := norm guess st a
    b.pairCoeffs.map tokOf = a.pairCoeffs.map tokOf ∧ b.bonds.coeffs.map tokOf = a.bonds.coeffs.map tokOf
    ∧ b.angles.coeffs.map tokOf = a.angles.coeffs.map tokOf ∧ b.dihedrals.coeffs.map tokOf = a.dihedrals.coeffs.map tokOf
    ∧ b.impropers.coeffs.map tokOf = a.impropers.coeffs.map tokOf := by
  simp [norm, normTerms, List.map_map, Function.comp_def, tokOf_normCoeff _ isSep_one, tokOf_normCoeff _ isSep_two]

/-- **lmp_save_idempotent** (stretch goal of the design, proved): `norm` is idempotent — coefficient re-joining,
    rounding and element derivation all reach a fixed point after one pass — so the third output equals the second. -/
theorem lmp_save_idempotent (guess : List Rat → Option (List String)) (st : Style) (a : Atoms) :
    norm guess st (norm guess st a) = norm guess st a
    ∧ saveLmp (norm guess st (norm guess st a)) st = saveLmp (norm guess st a) st := by
  rw [norm_idem]; exact ⟨rfl, rfl⟩

/-- **lmp_write_read_write.**  Write – read – write – read – write, for a structure in the guard and either style:
    every step succeeds, the second read returns the same structure as the first and the third output is, line for
    line, the second ("byte-identical after at most one normalising pass", at the level of token lines). -/
theorem lmp_write_read_write (guess : List Rat → Option (List String)) (st : Style) (a : Atoms) (h : LmpOk a = true) :
    ∃ l1 a1 l2 a2 l3, saveLmp a st = .ok l1 ∧ loadLmp guess l1 st = .ok a1
      ∧ saveLmp a1 st = .ok l2 ∧ loadLmp guess l2 st = .ok a2 ∧ saveLmp a2 st = .ok l3
      ∧ a2 = a1 ∧ l3 = l2 := by
  have r1 := roundtrip guess a st h
  have h' := lmpOk_norm guess st a h
  have r2 := roundtrip guess (norm guess st a) st h'
  rw [norm_idem] at r2
  exact ⟨_, _, _, _, _, r1.1, r1.2, r2.1, r2.2, r2.1, rfl, rfl⟩

/-- **lmp_masses_by_id.**  A Masses line binds its mass and its label to ITS type id: what the reader builds from the
    accumulated lines is the same for every order in which the Masses lines came (no id twice).  Files written by
    `saveLmp` list them in ascending order, for which the sorting is the identity (`sort_masses`). -/
theorem lmp_masses_by_id (guess : List Rat → Option (List String)) (d : PData) (st : Style)
    (ms : List (Int × String × Option String)) (hp : d.masses.Perm ms)
    (hdistinct : ∀ x ∈ d.masses, ∀ y ∈ d.masses, x.1 = y.1 → x = y) :
    finish guess { d with masses := ms } st = finish guess d st :=
  finish_masses_perm guess d st ms hp hdistinct

/-- a number that is already at the printed precision is not changed by the trip -/
theorem quant_of_grid (μ : Int) : quant (ofMicro μ) = ofMicro μ := by
  unfold quant; rw [quantMicro_ofMicro]

/-- one trip is enough for the numbers: a second rounding changes nothing -/
theorem quant_idem (x : Rat) : quant (quant x) = quant x := quant_quant x

/-! ### numbers already at the printed precision: the trip changes only coefficient whitespace and elements -/

/-- `x` is a multiple of 10⁻⁶ -/
def onGrid (x : Rat) : Bool := quant x == x

def onGridV (v : Vec3) : Bool := onGrid v.x && onGrid v.y && onGrid v.z

/-- every position, charge, mass and cell entry is at the printed precision -/
def OnGrid (a : Atoms) : Bool :=
  a.atoms.all (fun r => onGridV r.pos && onGrid r.charge) && a.typeMasses.all onGrid
  && (match a.cell with
      | some m => onGridV m.a && onGridV m.b && onGridV m.c
      | none => true)

/-- `norm` without the rounding: only coefficient whitespace is normalised, elements are derived from the masses,
    the extra columns are dropped -/
def normExact (guess : List Rat → Option (List String)) (a : Atoms) : Atoms :=
  { atoms := a.atoms.map (fun r => { r with extra := [] })
    bonds := normTerms a.bonds " "
    angles := normTerms a.angles "  "
    dihedrals := normTerms a.dihedrals " "
    impropers := normTerms a.impropers " "
    typeElems := elementsOf guess a.typeMasses
    typeLabels := a.typeLabels
    typeMasses := a.typeMasses
    pairCoeffs := a.pairCoeffs.map (normCoeff " ")
    xlabels := []
    cell := a.cell }

theorem quantV_onGrid (v : Vec3) (h : onGridV v = true) : quantV v = v := by
  simp only [onGridV, onGrid, Bool.and_eq_true, beq_iff_eq] at h
  obtain ⟨⟨h1, h2⟩, h3⟩ := h
  cases v; simp_all [quantV]

theorem norm_onGrid (guess : List Rat → Option (List String)) (a : Atoms) (h : OnGrid a = true) :
    norm guess .full a = normExact guess a := by
  simp only [OnGrid, Bool.and_eq_true] at h
  obtain ⟨⟨hat, hm⟩, hc⟩ := h
  have e1 : a.typeMasses.map quant = a.typeMasses := by
    have : a.typeMasses.map quant = a.typeMasses.map id := by
      apply List.map_congr_left
      intro m hm'
      have := List.all_eq_true.mp hm m hm'
      simpa [onGrid] using this
    simpa using this
  have e2 : a.atoms.map (fun r => (⟨r.ty, quantV r.pos, quant r.charge, r.group, []⟩ : AtomRow))
      = a.atoms.map (fun r => { r with extra := [] }) := by
    apply List.map_congr_left
    intro r hr
    have := List.all_eq_true.mp hat r hr
    simp only [Bool.and_eq_true, onGrid, beq_iff_eq] at this
    rw [quantV_onGrid _ this.1, this.2]
  have e3 : a.cell.map quantM = a.cell := by
    cases hcc : a.cell with
    | none => rfl
    | some m =>
      rw [hcc] at hc
      simp only [Bool.and_eq_true] at hc
      obtain ⟨⟨ha, hb⟩, hc'⟩ := hc
      simp only [Option.map_some, quantM, quantV_onGrid _ ha, quantV_onGrid _ hb, quantV_onGrid _ hc']
  simp only [norm, normExact, e1, e2, e3]

/-- **lmp_roundtrip_exact**: the statement of the design.  Under the guard `LmpOk` and with all numbers at the printed
    precision, reading what was written gives the structure back with atom order, type ids, positions, cell, charges,
    groups, masses, labels and every term with its type EQUAL; only coefficient whitespace is normalised
    (`" "`-joined, `"  "` for angles, `"   # "` before the comment) and the elements are derived from the masses. -/
theorem lmp_roundtrip_exact (guess : List Rat → Option (List String)) (a : Atoms) (h : LmpOk a = true)
    (hg : OnGrid a = true) :
    ∃ lines, saveLmp a .full = .ok lines ∧ loadLmp guess lines .full = .ok (normExact guess a) := by
  obtain ⟨lines, h1, h2⟩ := lmp_roundtrip guess a h
  exact ⟨lines, h1, by rw [h2, norm_onGrid guess a hg]⟩

/-! ### non-vacuity: a concrete structure meeting the guards -/

/-- tilted cell with tilt factors of both signs; negative charge, coordinate and group; a coordinate that is an exact
    printf tie (1/128) and one with six decimals; a label with an inner blank; coefficient strings with irregular
    blanks, a tab, one trailing comment, an empty comment, the empty string; an unused bond type -/
def exC13 : Atoms :=
  { Atoms.empty with
    atoms := [⟨0, ⟨0, 0, 0⟩, -1/2, 0, []⟩, ⟨1, ⟨5/4, -3/8, 1/128⟩, 1/2, 1, []⟩, ⟨1, ⟨2, 0, 1234567/1000000⟩, 0, -1, []⟩]
    bonds := ⟨[⟨[0, 1], 1, []⟩, ⟨[1, 2], 0, []⟩], ["harmonic  1.5\t 2   # C-H  stretch", "harmonic 3 4", "x"], []⟩
    angles := ⟨[⟨[0, 1, 2], 0, []⟩], ["cosine 1.0 #"], []⟩
    typeElems := ["C", "H"], typeLabels := ["C 1", "H"], typeMasses := [120107/10000, 100794/100000]
    pairCoeffs := ["0.1 3.4 # C 1", ""]
    cell := some ⟨⟨10, 0, 0⟩, ⟨-5/2, 9, 0⟩, ⟨1/4, -3/4, 12⟩⟩ }

example : LmpOk exC13 = true := by decide +kernel
/-- the guard admits a `#` in labels and several `#` in a coefficient string, and a structure without atoms that keeps
    its type tables; for those too the trip gives `norm` -/
def exC13Hash : Atoms :=
  { exC13 with typeLabels := ["C#1", "#H # x"], pairCoeffs := ["0.1 3.4 # C # 1 #", "#"] }
def exC13Empty : Atoms :=
  { exC13 with atoms := [], bonds := ⟨[], exC13.bonds.coeffs, []⟩, angles := ⟨[], exC13.angles.coeffs, []⟩ }
example : LmpOk exC13Hash = true ∧ LmpOk exC13Empty = true := by decide +kernel
example : (norm (fun _ => none) .full exC13Hash).typeLabels = ["C#1", "#H # x"]
    ∧ (norm (fun _ => none) .full exC13Hash).pairCoeffs = ["0.1 3.4   # C # 1 #", "   # "] := by decide +kernel
example : (norm (fun _ => some ["C", "H"]) .full exC13Empty).atoms = []
    ∧ (norm (fun _ => some ["C", "H"]) .full exC13Empty).typeLabels = ["C 1", "H"] := by decide +kernel
example : (saveLines exC13 .full).length = 50 := by decide +kernel
/-- the tilt line: `xy xz yz` -/
example : (saveLines exC13 .full)[14]? = some ⟨["-2.500000", "0.250000", "-0.750000", "xy", "xz", "yz"], none⟩ := by
  decide +kernel
/-- 1/128 = 0.0078125 is printed as 0.007812 (ties to even), and comes back as that -/
example : (norm (fun _ => none) .full exC13).atoms.map (·.pos.z) = [0, 1953/250000, 1234567/1000000] := by decide +kernel
example : (norm (fun _ => none) .full exC13).bonds.coeffs = ["harmonic 1.5 2   # C-H  stretch", "harmonic 3 4", "x"] := by
  decide +kernel
example : (norm (fun _ => none) .full exC13).angles.coeffs = ["cosine  1.0   # "] := by decide +kernel
/-- the fallback: no element guess, so the type numbers -/
example : (norm (fun _ => none) .full exC13).typeElems = ["1", "2"] := by decide +kernel
/-- the exact version is not vacuous either: the same structure with the 1/128 replaced by a grid value -/
def exC13Grid : Atoms :=
  { exC13 with atoms := [⟨0, ⟨0, 0, 0⟩, -1/2, 0, []⟩, ⟨1, ⟨5/4, -3/8, 1/125⟩, 1/2, 1, []⟩, ⟨1, ⟨2, 0, 1234567/1000000⟩, 0, -1, []⟩] }
example : LmpOk exC13Grid = true ∧ OnGrid exC13Grid = true := by decide +kernel
example : OnGrid exC13 = false := by decide +kernel
/-- the reader's view of a coefficient entry before and after: same tokens, same comment -/
example : tokOf "harmonic  1.5\t 2   # C-H  stretch" = ⟨["harmonic", "1.5", "2"], some "C-H  stretch"⟩
    ∧ tokOf "harmonic 1.5 2   # C-H  stretch" = ⟨["harmonic", "1.5", "2"], some "C-H  stretch"⟩ := by decide +kernel

end Mofun.Lmp
