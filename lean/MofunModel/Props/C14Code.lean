/-
  C14Code.lean — the GENERATED translations of `guess_elements_from_masses` and its nested `find_element`
  (mofun/helpers.py, re-translated from the python source text on every run by harness/gen_code.py into
  Generated/Code.lean) ARE the model functions `guess` / `guessAll` (Model/Mass.lean) the C14 theorems are about,
  over the generated mass table.  `min(ATOMIC_MASSES.items(), key=…)` is translated with python's rule that the FIRST
  minimal item wins.
-/
import MofunModel.Proofs.Code2Mass

namespace Mofun.C14Code
open Mofun Mofun.Generated Mofun.Code2Mass
set_option linter.unusedSimpArgs false

/-- for ALL tolerances and masses: translated `find_element` (with `max_delta` of the enclosing call) = `guess massTable`;
    `none` = the call raises -/
theorem findElement_eq (tol m : Rat) : Generated.Code.findElement tol m = guess massTable tol m := by
  unfold Generated.Code.findElement guess
  rw [tableItems_eq, minBy?_mass m _ (fun e => by
    first
    | (simp only [massDist, abs_eq]; done)
    | (simp only [massDist, abs_eq]; exact absQ_sub_comm _ _))]
  cases nearest massTable m with
  | none => rfl
  | some e =>
    by_cases h : absQ (e.2 - m) < tol
    · first | (simp [abs_eq, h]; done) | (have h' := h; rw [absQ_sub_comm] at h'; simp [abs_eq, h, h'])
    · first | (simp [abs_eq, h]; done) | (have h' := h; rw [absQ_sub_comm] at h'; simp [abs_eq, h, h'])

/-- for ALL mass lists: translated `guess_elements_from_masses(masses, max_delta)` = `guessElements` (the first mass
    without an element raises and nothing is returned) -/
theorem guessElementsFromMasses_eq (tol : Rat) (ms : List Rat) :
    Generated.Code.guessElementsFromMasses ms tol = exceptToOption (guessElements tol ms) := by
  unfold Generated.Code.guessElementsFromMasses guessElements
  rw [listMapM?_guess tol _ (fun m => by simp [findElement_eq]) ms]
  all_goals (first | rfl | (cases exceptToOption (guessAll massTable tol ms) <;> rfl))

/-- the default tolerance of the python signature is the 1/10 the C14 table theorems are stated for -/
theorem default_max_delta : Generated.Code.guessElementsFromMasses_default_max_delta = 1 / 10 := by decide +kernel

example : Generated.Code.findElement (1 / 10) 12 = some "C" := by decide +kernel
example : Generated.Code.findElement (1 / 10) (25 / 2) = none := by decide +kernel

end Mofun.C14Code
