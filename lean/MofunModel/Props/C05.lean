/-
  C05 — inserted atoms land where the replacement pattern says, modulo the lattice.
  Property theorems only (helper lemmas: Proofs/WrapLemmas.lean, Proofs/PlaceLemmas.lean).
  Model: `placeAtoms`, `replaceCore` (Model/Replace.lean), `Mat3.frac/cart/wrap` (Model/Lattice.lean),
         `rot`, `goodCheck` (Model/Find.lean).

  Vocabulary (Proofs/*.lean):
    `InCell L v`            all three fractional coordinates of `v` in `[0, 1)`
    `wrapShift L v`         the integer triple `(−⌊f.x⌋, −⌊f.y⌋, −⌊f.z⌋)`, `f = L.frac v`
    `insertFrame q p0 t x`  `rot q (x − p0) + t`   — the motion used for insertion (`p0 = P[0]`, `t = pos[0]`)
    `checkFrame q o t x`    `rot q (x − o) + t`    — the motion verified by the search (`o = P[ax1]`, `t = pos[ax1]`)
    `CloseTo a b atol`      `|a − b| ≤ atol + 1e-5·|b|` on each coordinate (`np.allclose`)
-/
import MofunModel.Proofs.PlaceLemmas

namespace Mofun.C05

open Mofun

/-! ### the wrap is a lattice translation into the cell -/

/-- **wrap_is_lattice_shift** (guard: the cell is not degenerate).  The wrapped point is the point plus an
    INTEGER combination of the lattice vectors — namely minus the floors of its fractional coordinates — and
    its fractional coordinates lie in `[0, 1)³`.  Holds for every cell: orthorhombic, triclinic with any tilt
    signs, arbitrarily oriented. -/
theorem wrap_is_lattice_shift (L : Mat3) (v : Vec3) (hd : L.det ≠ 0) :
    (∃ i j k : Int, L.wrap v = Vec3.add v (L.lattice i j k) ∧ (i, j, k) = wrapShift L v) ∧ InCell L (L.wrap v) :=
  ⟨⟨_, _, _, wrap_eq_shift L v hd, rfl⟩, wrap_inCell L v hd⟩

/-- the wrap does not depend on which lattice image of the point is given -/
theorem wrap_image_independent (L : Mat3) (v : Vec3) (i j k : Int) (hd : L.det ≠ 0) :
    L.wrap (Vec3.add v (L.lattice i j k)) = L.wrap v := wrap_lattice_invariant L v i j k hd

/-! ### where the inserted atoms are -/

/-- the origin of the search pattern's frame, as `replaceCore` computes it: the first search atom -/
def firstPos (p : Atoms) : Vec3 :=
  match p.atoms[0]? with
  | some row => row.pos
  | none => Vec3.zero

/-- `replaceCore` places the replacement pattern with `placeAtoms … (firstPos p) …`: for one match, a non-empty
    replacement pattern and `replace_all`, the result is exactly "extend by the placed atoms, then delete the match" -/
theorem replaceCore_single (s p r : Atoms) (m : PlacedMatch) (ignore : Bool) (hr : r.atoms.isEmpty = false) :
    replaceCore s p r [m] true ignore =
      (match (s.extendTypes r).1.extend (placeAtoms s.cell (firstPos p) r m) (some (s.extendTypes r).2) [] with
       | .error e => .error e
       | .ok s' => s'.delete (dedup m.idx)) := by
  simp only [replaceCore, hr, Bool.false_eq_true, if_false, List.foldl, firstPos, if_true]
  cases (s.extendTypes r).1.extend (placeAtoms s.cell
      (match p.atoms[0]? with | some row => row.pos | none => Vec3.zero) r m) (some (s.extendTypes r).2) [] with
  | error e => rfl
  | ok s' => simp [toDeleteOf]

/-- **insert_exact_image** (all rotations `q`, all cells with `det ≠ 0`).  The `k`-th atom placed for match `m` is
    the `k`-th replacement atom — same type, charge, group, extra fields — at
    `rot q (Rp[k] − P[0]) + m.pos[0] + (i·A + j·B + k·C)` with INTEGERS `i j k`, inside the cell. -/
theorem insert_exact_image (L : Mat3) (hd : L.det ≠ 0) (p0 : Vec3) (r : Atoms) (m : PlacedMatch) (k : Nat)
    (row : AtomRow) (h : (placeAtoms (some L) p0 r m).atoms[k]? = some row) :
    ∃ row0, r.atoms[k]? = some row0 ∧
      row.ty = row0.ty ∧ row.charge = row0.charge ∧ row.group = row0.group ∧ row.extra = row0.extra ∧
      (∃ i j l : Int, row.pos = Vec3.add (insertFrame m.q p0 (m.pos.getD 0 Vec3.zero) row0.pos) (L.lattice i j l)) ∧
      InCell L row.pos := by
  rw [placeAtoms_getElem?] at h
  cases hr : r.atoms[k]? with
  | none => rw [hr] at h; simp at h
  | some row0 =>
    rw [hr] at h
    simp only [Option.map_some, Option.some.injEq] at h
    subst h
    refine ⟨row0, rfl, rfl, rfl, rfl, rfl, ?_, ?_⟩
    · exact ⟨_, _, _, wrap_eq_shift L _ hd⟩
    · exact wrap_inCell L _ hd

/-- exactly one placed atom per replacement atom, in the replacement pattern's order -/
theorem insert_count (cell : Option Mat3) (p0 : Vec3) (r : Atoms) (m : PlacedMatch) :
    (placeAtoms cell p0 r m).atoms.length = r.atoms.length := placeAtoms_length cell p0 r m

/-- the insertion frame is a PROPER rigid motion for every quaternion of non-zero norm: distances and
    orientation (triple products of difference vectors) are preserved -/
theorem insertFrame_rigid (q : Quat) (hq : q.normSq ≠ 0) (p0 t : Vec3) (a b c d : Vec3) :
    distSq (insertFrame q p0 t a) (insertFrame q p0 t b) = distSq a b ∧
    Vec3.dot (Vec3.sub (insertFrame q p0 t b) (insertFrame q p0 t a))
        (Vec3.cross (Vec3.sub (insertFrame q p0 t c) (insertFrame q p0 t a))
                    (Vec3.sub (insertFrame q p0 t d) (insertFrame q p0 t a)))
      = Vec3.dot (Vec3.sub b a) (Vec3.cross (Vec3.sub c a) (Vec3.sub d a)) := by
  refine ⟨rigid_distSq q hq p0 t a b, ?_⟩
  have h : ∀ x y : Vec3, Vec3.sub (insertFrame q p0 t x) (insertFrame q p0 t y) = rot q (Vec3.sub x y) := by
    intro x y
    unfold insertFrame
    rw [rot_sub, rot_sub, rot_sub]
    apply vec3_ext <;> simp only [Vec3.sub, Vec3.add] <;> ring
  rw [h, h, h, rot_triple q hq]

/-! ### the frame of the insertion vs. the frame the search verified -/

/-- **translation_gap** (guard: the match passed the search's final re-check `goodCheck`, pattern non-empty).
    The motion used for insertion, `x ↦ rot q (x − P[0]) + pos[0]`, and the motion the search verified,
    `x ↦ rot q (x − P[ax1]) + pos[ax1]`, have the same rotation and differ by ONE translation `δ` (the same for
    every point `x`), and `|δ| ≤ atol + 1e-5·|checkFrame(P[0])|` on each coordinate. -/
theorem translation_gap (pp : List Vec3) (ax1 : Nat) (atol : Rat) (q : Quat) (cpos : List Vec3)
    (hne : 0 < pp.length) (hgood : goodCheck pp ax1 atol q cpos = true) :
    let p0 := pp.getD 0 Vec3.zero
    let C := checkFrame q (pp.getD ax1 Vec3.zero) (cpos.getD ax1 Vec3.zero)
    let I := insertFrame q p0 (cpos.getD 0 Vec3.zero)
    (∀ x, Vec3.sub (I x) (C x) = Vec3.sub (cpos.getD 0 Vec3.zero) (C p0)) ∧
    CloseTo (cpos.getD 0 Vec3.zero) (C p0) atol := by
  intro p0 C I
  exact ⟨fun x => frame_shift q p0 _ _ _ x, goodCheck_closeTo pp ax1 atol q cpos hgood 0 hne⟩

/-- **joint_image_bound** — the property's "bound proportional to the tolerance".
    Guards: the match passed `goodCheck`; non-empty search pattern; non-degenerate cell.
    With `I = insertFrame` (a proper rigid motion by `insertFrame_rigid`) and `C = checkFrame`:
      (1) every MATCHED position is, on each coordinate, within
          `2·atol + 1e-5·(|C(P[k])| + |C(P[0])|)` of `I(P[k])`;
      (2) every INSERTED atom is exactly `I(Rp[k])` plus an integer lattice vector, and lies in the cell.
    So matched ∪ inserted atoms are one rigid image `I(P ∪ Rp)` within `2·(atol + rtol-term)`, modulo the lattice. -/
theorem joint_image_bound (L : Mat3) (hd : L.det ≠ 0) (pp : List Vec3) (ax1 : Nat) (atol : Rat) (r : Atoms)
    (m : PlacedMatch) (hne : 0 < pp.length) (hgood : goodCheck pp ax1 atol m.q m.pos = true) :
    let p0 := pp.getD 0 Vec3.zero
    let C := checkFrame m.q (pp.getD ax1 Vec3.zero) (m.pos.getD ax1 Vec3.zero)
    let I := insertFrame m.q p0 (m.pos.getD 0 Vec3.zero)
    (∀ k, k < pp.length →
      let a := m.pos.getD k Vec3.zero
      let b := I (pp.getD k Vec3.zero)
      let ck := C (pp.getD k Vec3.zero)
      let c0 := C p0
      absRat (a.x - b.x) ≤ 2 * atol + rtol * (absRat ck.x + absRat c0.x) ∧
      absRat (a.y - b.y) ≤ 2 * atol + rtol * (absRat ck.y + absRat c0.y) ∧
      absRat (a.z - b.z) ≤ 2 * atol + rtol * (absRat ck.z + absRat c0.z)) ∧
    (∀ (k : Nat) (row : AtomRow), (placeAtoms (some L) p0 r m).atoms[k]? = some row →
      ∃ row0 : AtomRow, r.atoms[k]? = some row0 ∧
        (∃ i j l : Int, row.pos = Vec3.add (I row0.pos) (L.lattice i j l)) ∧ InCell L row.pos) := by
  intro p0 C I
  constructor
  · intro k hk a b ck c0
    have hall := goodCheck_closeTo pp ax1 atol m.q m.pos hgood
    obtain ⟨hkx, hky, hkz⟩ := hall k hk
    obtain ⟨h0x, h0y, h0z⟩ := hall 0 hne
    have hs := frame_shift m.q p0 (pp.getD ax1 Vec3.zero) (m.pos.getD 0 Vec3.zero) (m.pos.getD ax1 Vec3.zero)
      (pp.getD k Vec3.zero)
    have hsx := congrArg Vec3.x hs
    have hsy := congrArg Vec3.y hs
    have hsz := congrArg Vec3.z hs
    simp only [Vec3.sub] at hsx hsy hsz
    -- a − b = (a − ck) − (pos[0] − c0)
    have key : ∀ (av bv ckv c0v t0v : Rat), bv - ckv = t0v - c0v →
        absRat (av - ckv) ≤ atol + rtol * absRat ckv → absRat (t0v - c0v) ≤ atol + rtol * absRat c0v →
        absRat (av - bv) ≤ 2 * atol + rtol * (absRat ckv + absRat c0v) := by
      intro av bv ckv c0v t0v e h1 h2
      have e2 : av - bv = (av - ckv) + (-(t0v - c0v)) := by linarith
      rw [e2]
      have hneg : absRat (-(t0v - c0v)) = absRat (t0v - c0v) := by
        unfold absRat; split <;> split <;> linarith
      have := absRat_add_le (av - ckv) (-(t0v - c0v))
      rw [hneg] at this
      linarith
    exact ⟨key _ _ _ _ _ hsx hkx h0x, key _ _ _ _ _ hsy hky h0y, key _ _ _ _ _ hsz hkz h0z⟩
  · intro k row h
    obtain ⟨row0, h0, _, _, _, _, hpos, hin⟩ := insert_exact_image L hd p0 r m k row h
    exact ⟨row0, h0, hpos, hin⟩

/-! ### joint rigid motion of both patterns -/

/-- a pattern moved by the rigid motion `x ↦ rot qm x + tm` -/
def movePattern (qm : Quat) (tm : Vec3) (a : Atoms) : Atoms :=
  { a with atoms := a.atoms.map (fun row => { row with pos := Vec3.add (rot qm row.pos) tm }) }

/-
  FULL statement (not proved — it needs the search's rotation oracle to be equivariant, a numerical fact about
  the trigonometric helpers):
    for every rigid motion (qm, tm): `replace s (move P) (move Rp) = replace s P Rp` as multisets of
    (element, position mod lattice).
-/
/-- **place_joint_rigid_partial**: moving search and replacement pattern by one rigid motion `(qm, tm)` leaves the
    placed atoms unchanged, PROVIDED the rotation found for the moved pattern composes with the motion to the
    rotation found for the original one (`rot q' ∘ rot qm = rot m.q` — the oracle is equivariant). -/
theorem place_joint_rigid_partial (cell : Option Mat3) (p0 : Vec3) (r : Atoms) (m : PlacedMatch)
    (qm q' : Quat) (tm : Vec3) (hequi : ∀ v, rot q' (rot qm v) = rot m.q v) :
    placeAtoms cell (Vec3.add (rot qm p0) tm) (movePattern qm tm r) { m with q := q' } = placeAtoms cell p0 r m := by
  have hv : ∀ x : Vec3, rot q' (Vec3.sub (Vec3.add (rot qm x) tm) (Vec3.add (rot qm p0) tm)) = rot m.q (Vec3.sub x p0) := by
    intro x
    rw [← hequi, rot_sub qm]
    congr 1
    apply vec3_ext <;> simp only [Vec3.sub, Vec3.add] <;> ring
  simp only [placeAtoms, movePattern, List.map_map]
  congr 1
  apply List.map_congr_left
  intro row _
  simp only [Function.comp, hv]

/-- the equivariance hypothesis is satisfiable: a half turn about `z` applied to the patterns is undone by the same
    half turn found by the search -/
example : ∀ v, rot ⟨0, 0, 1, 0⟩ (rot ⟨0, 0, 1, 0⟩ v) = rot Quat.identity v := by
  intro v
  apply vec3_ext <;> simp only [rot, Quat.apply0, Quat.normSq, Quat.identity, Vec3.smul] <;> ring

/-! ### non-vacuity: concrete inputs meeting the guards -/

/-- a tilted (triclinic, negative tilt) cell -/
def exCell : Mat3 := ⟨⟨8, 0, 0⟩, ⟨-2, 7, 0⟩, ⟨1, -3, 9⟩⟩

/-- search pattern C–O along x; the match is the pattern turned by 90° about z, sitting at the cell corner -/
def exPP : List Vec3 := [⟨0, 0, 0⟩, ⟨5/4, 0, 0⟩]
def exMatch : PlacedMatch := { idx := [0, 1], pos := [⟨1/64, 0, 0⟩, ⟨0, 5/4, 1/64⟩], q := ⟨0, 0, 1, 1⟩ }
/-- replacement: the two atoms plus one sticking 6 Å out (it crosses the boundary) -/
def exRp : Atoms :=
  { Atoms.empty with
    atoms := [⟨0, ⟨0, 0, 0⟩, 0, 0, []⟩, ⟨1, ⟨5/4, 0, 0⟩, 0, 0, []⟩, ⟨2, ⟨0, 6, 0⟩, 1/2, 0, []⟩]
    typeElems := ["C", "O", "F"], typeLabels := ["C", "O", "F"], typeMasses := [12, 16, 19] }

example : exCell.det ≠ 0 := by decide +kernel
example : 0 < exPP.length ∧ goodCheck exPP 0 (1/20) exMatch.q exMatch.pos = true := by decide +kernel
example : exMatch.q.normSq ≠ 0 := by decide +kernel
/-- the far atom is rotated to (−6, 0, 0) + pos[0], outside the cell, and wrapped by exactly one lattice vector A -/
example : ((placeAtoms (some exCell) (exPP.getD 0 Vec3.zero) exRp exMatch).atoms.map (·.pos))[2]? =
    some (Vec3.add (insertFrame exMatch.q ⟨0, 0, 0⟩ ⟨1/64, 0, 0⟩ ⟨0, 6, 0⟩) (exCell.lattice 1 0 0)) := by decide +kernel

end Mofun.C05
