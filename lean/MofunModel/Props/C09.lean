/-
  C09 — Atoms objects stay consistent and type ids keep their meaning, over operation histories.
  Property theorems only (definitions `WF`, `Compat`, `ExtendGuard`, `GuardedOp`, `GuardedRun` and the helper
  lemmas: Proofs/HistLemmas.lean).  Models: Model/Topo.lean (the operations), Model/Hist.lean (slots, ops, `step`,
  `run`).

  `WF a` : every atom's type id has element, label and mass (and a pair coefficient when the pair table exists),
  every term refers to existing atoms only, per kind the coefficient table is absent or covers every type id in
  use, every extra row has one entry per extra label.

  Guards (the property's quantifier, all decidable):
    delete   — the indices are distinct                     (validity: `step` fails otherwise, like the code)
    extend   — default offsets: `Compat a b`  (per kind: neither side has a coefficient table, or every side that
               has terms of the kind has a table; same for pair coefficients w.r.t. atom types);
               explicit offsets: `OffsetsOk a b o` (the shifted ids of `b` have their data in `a`'s tables)
    construct — the literal object is `WF`
-/
import MofunModel.Proofs.HistLemmas
import MofunModel.Proofs.HistMeaning

namespace Mofun.Hist

open Mofun

/-! ### each operation preserves the invariant -/

/-- **wf_delete.** `del a[idx]` with distinct indices keeps the object consistent. -/
theorem wf_delete (a r : Atoms) (idx : List Nat) (hnd : idx.Nodup) (hwf : WF a) (h : a.delete idx = .ok r) :
    WF r := wf_delete_aux a r idx hnd hwf h

/-- **wf_pop.** -/
theorem wf_pop (a r : Atoms) (i : Int) (hwf : WF a) (h : a.pop i = .ok r) : WF r := wf_pop_aux a r i hwf h

/-- **wf_getitem.** -/
theorem wf_getitem (a r : Atoms) (idx : List Nat) (hwf : WF a) (h : a.getitem idx = .ok r) : WF r :=
  wf_getitem_aux a r idx hwf h

/-- **wf_extend.** `a.extend(b, offsets, structure_index_map)` keeps `a` consistent: with default offsets under
    the compatibility clause `Compat a b`, with explicit offsets under `OffsetsOk a b o`; for every index map the
    model accepts (distinct keys inside `b`, values inside `a` — anything else makes `extend` fail). -/
theorem wf_extend (a b r : Atoms) (off : Option Offsets) (map : List (Nat × Nat))
    (hwa : WF a) (hwb : WF b) (hg : ExtendGuard a b off) (h : a.extend b off map = .ok r) : WF r :=
  wf_extend_aux a b r off map hwa hwb hg h

/-- `extend` with default offsets, the guard spelled out -/
theorem wf_extend_default (a b r : Atoms) (map : List (Nat × Nat))
    (hwa : WF a) (hwb : WF b) (hc : Compat a b) (h : a.extend b none map = .ok r) : WF r :=
  wf_extend_aux a b r none map hwa hwb hc h

/-- **wf_replicate.** (the images are appended with offsets `(0,0,0,0,0)`; the guard of those appends follows
    from `WF a`, so replication needs no guard of its own) -/
theorem wf_replicate (a r : Atoms) (da db dc : Nat) (hwf : WF a) (h : a.replicate da db dc = .ok r) : WF r :=
  wf_replicate_aux a r da db dc hwf h

/-! ### type ids keep their meaning when type tables are merged -/

/-- **type count = table length**, exactly when the kind has no terms or its table covers every id in use
    (in particular after all terms of the kind have been deleted and the table stayed). -/
theorem numTermTypes_eq_length (t : TermTable) :
    numTermTypes t = t.coeffs.length ↔ (t.terms = [] ∨ ∀ tm ∈ t.terms, tm.ty < t.coeffs.length) :=
  numTermTypes_eq_length_iff t

/-- a kind that was emptied keeps its table, and its type count is the table length (not 0) -/
theorem numTermTypes_emptied (t : TermTable) (idx : List Nat) (h : (t.delete idx).terms = []) :
    numTermTypes (t.delete idx) = t.coeffs.length := by
  have := (numTermTypes_eq_length_iff (t.delete idx)).mpr (Or.inl h)
  simpa [TermTable.delete] using this

/-- the atom type count is the table length whatever atoms are left (also none) -/
theorem numAtomTypes_delete (a r : Atoms) (idx : List Nat) (h : a.delete idx = .ok r) :
    numAtomTypes r = a.typeElems.length := by
  unfold Atoms.delete at h
  split at h
  · cases h
  · cases h; rfl

/-- **extend_types_offsets_cover.** After `extend_types`, the other's type id `t` shifted by the returned offset
    indexes the other's own entry in the merged table — for every term kind whose type count is its table length
    (`numTermTypes_eq_length`: no terms, or a table covering the ids in use), and self's ids below its table
    length keep their entry. -/
theorem extend_types_offsets_cover (ta tb : TermTable) (t : Nat)
    (h : ta.terms = [] ∨ ∀ tm ∈ ta.terms, tm.ty < ta.coeffs.length) :
    (ta.coeffs ++ tb.coeffs)[numTermTypes ta + t]? = tb.coeffs[t]?
    ∧ ∀ i, i < ta.coeffs.length → (ta.coeffs ++ tb.coeffs)[i]? = ta.coeffs[i]? := by
  rw [(numTermTypes_eq_length_iff ta).mpr h]
  refine ⟨?_, ?_⟩
  · rw [List.getElem?_append_right (Nat.le_add_right _ _)]
    congr 1; omega
  · intro i hi; exact List.getElem?_append_left hi

/-- the same for the four term kinds of `a.extendTypes b` at once, as the code computes them -/
theorem extendTypes_terms_resolve (a b : Atoms) (hwa : WF a) (hc : Compat a b) (t : Nat) :
    let r := (a.extendTypes b).1
    let o := (a.extendTypes b).2
    (a.bonds.coeffs = [] ∧ b.bonds.coeffs = [] ∨ r.bonds.coeffs[o.bond + t]? = b.bonds.coeffs[t]?)
    ∧ (a.angles.coeffs = [] ∧ b.angles.coeffs = [] ∨ r.angles.coeffs[o.angle + t]? = b.angles.coeffs[t]?)
    ∧ (a.dihedrals.coeffs = [] ∧ b.dihedrals.coeffs = []
        ∨ r.dihedrals.coeffs[o.dihedral + t]? = b.dihedrals.coeffs[t]?)
    ∧ (a.impropers.coeffs = [] ∧ b.impropers.coeffs = []
        ∨ r.impropers.coeffs[o.improper + t]? = b.impropers.coeffs[t]?) := by
  obtain ⟨_, _, _, _, hbo, han, hdi, him⟩ := hwa
  obtain ⟨_, cb, ca, cd, ci⟩ := hc
  have kind : ∀ (ta tb : TermTable) (n : Nat), TermsWF n ta → KindCompat ta tb →
      (ta.coeffs = [] ∧ tb.coeffs = []) ∨ (ta.coeffs ++ tb.coeffs)[numTermTypes ta + t]? = tb.coeffs[t]? := by
    intro ta tb n hta hk
    rcases hk with h | ⟨hA, _⟩
    · left; exact h
    · right
      apply (extend_types_offsets_cover ta tb t _).1
      rcases hA with hA | hA
      · left; exact hA
      · rcases hta.2 with h | h
        · exact absurd h hA
        · right; exact h
  exact ⟨kind _ _ _ hbo cb, kind _ _ _ han ca, kind _ _ _ hdi cd, kind _ _ _ him ci⟩

/-- atom types: the offset is the length of the element table, so the other's atom type `t` finds the other's own
    element; label, mass and pair coefficient likewise when self's tables are as long as its element table -/
theorem extendTypes_atoms_resolve (a b : Atoms) (t : Nat) :
    let r := (a.extendTypes b).1
    let o := (a.extendTypes b).2
    r.typeElems[o.atom + t]? = b.typeElems[t]?
    ∧ (a.typeLabels.length = a.typeElems.length → r.typeLabels[o.atom + t]? = b.typeLabels[t]?)
    ∧ (a.typeMasses.length = a.typeElems.length → r.typeMasses[o.atom + t]? = b.typeMasses[t]?)
    ∧ (a.pairCoeffs.length = a.typeElems.length → r.pairCoeffs[o.atom + t]? = b.pairCoeffs[t]?)
    ∧ ∀ i, (i < a.typeElems.length → r.typeElems[i]? = a.typeElems[i]?)
        ∧ (i < a.typeLabels.length → r.typeLabels[i]? = a.typeLabels[i]?)
        ∧ (i < a.typeMasses.length → r.typeMasses[i]? = a.typeMasses[i]?)
        ∧ (i < a.pairCoeffs.length → r.pairCoeffs[i]? = a.pairCoeffs[i]?) := by
  simp only [Atoms.extendTypes, Atoms.offsets, numAtomTypes]
  refine ⟨?_, ?_, ?_, ?_, ?_⟩
  · rw [List.getElem?_append_right (Nat.le_add_right _ _)]; congr 1; omega
  · intro h; rw [List.getElem?_append_right (by omega)]; congr 1; omega
  · intro h; rw [List.getElem?_append_right (by omega)]; congr 1; omega
  · intro h; rw [List.getElem?_append_right (by omega)]; congr 1; omega
  · intro i
    exact ⟨fun h => List.getElem?_append_left h, fun h => List.getElem?_append_left h,
      fun h => List.getElem?_append_left h, fun h => List.getElem?_append_left h⟩

/-! ### STRETCH — meaning: every surviving atom / term resolves to the texts it was defined with

  Identity of an atom = its charge, group (and position, except under replication), which no operation touches;
  identity of a term = its extra row.  `atomText a ty` = (element, label, mass) of type `ty` in `a`'s tables;
  `PairKept` / `CoeffKept` = "the pair / term coefficient is the same text, unless the result has no such table". -/

/-- **meaning_delete.** Deletion leaves every type table alone; each remaining atom is an atom of the input (same
    row, hence same type id and same texts), each remaining term has the type id and extra row of an input term. -/
theorem meaning_delete (a r : Atoms) (idx : List Nat) (h : a.delete idx = .ok r) :
    SameTables r a ∧ (∀ row ∈ r.atoms, row ∈ a.atoms)
    ∧ (∀ tm ∈ r.bonds.terms, ∃ t0 ∈ a.bonds.terms, tm.ty = t0.ty ∧ tm.extra = t0.extra)
    ∧ (∀ tm ∈ r.angles.terms, ∃ t0 ∈ a.angles.terms, tm.ty = t0.ty ∧ tm.extra = t0.extra)
    ∧ (∀ tm ∈ r.dihedrals.terms, ∃ t0 ∈ a.dihedrals.terms, tm.ty = t0.ty ∧ tm.extra = t0.extra)
    ∧ (∀ tm ∈ r.impropers.terms, ∃ t0 ∈ a.impropers.terms, tm.ty = t0.ty ∧ tm.extra = t0.extra) := by
  have kind : ∀ (t : TermTable), ∀ tm ∈ (t.delete idx).terms, ∃ t0 ∈ t.terms, tm.ty = t0.ty ∧ tm.extra = t0.extra := by
    intro t tm hm
    simp only [TermTable.delete, deleteTerms, List.mem_map, List.mem_filter] at hm
    obtain ⟨t0, ⟨hmem, _⟩, rfl⟩ := hm
    exact ⟨t0, hmem, rfl, rfl⟩
  unfold Atoms.delete at h
  split at h
  · cases h
  · cases h
    exact ⟨⟨rfl, rfl, rfl, rfl, rfl, rfl, rfl, rfl⟩, fun row hr => hist_mem_deleteIdx idx a.atoms row hr,
      kind _, kind _, kind _, kind _⟩

/-- **meaning_pop.** -/
theorem meaning_pop (a r : Atoms) (i : Int) (h : a.pop i = .ok r) :
    SameTables r a ∧ (∀ row ∈ r.atoms, row ∈ a.atoms)
    ∧ (∀ tm ∈ r.bonds.terms, ∃ t0 ∈ a.bonds.terms, tm.ty = t0.ty ∧ tm.extra = t0.extra)
    ∧ (∀ tm ∈ r.angles.terms, ∃ t0 ∈ a.angles.terms, tm.ty = t0.ty ∧ tm.extra = t0.extra)
    ∧ (∀ tm ∈ r.dihedrals.terms, ∃ t0 ∈ a.dihedrals.terms, tm.ty = t0.ty ∧ tm.extra = t0.extra)
    ∧ (∀ tm ∈ r.impropers.terms, ∃ t0 ∈ a.impropers.terms, tm.ty = t0.ty ∧ tm.extra = t0.extra) := by
  unfold Atoms.pop at h
  split at h
  · cases h
  · exact meaning_delete a r _ h

/-- **meaning_getitem.** A subset keeps element, label and mass tables; each of its atoms is an atom of the input
    with the same type id, charge, group and position; it has no pair table and no terms (by design). -/
theorem meaning_getitem (a r : Atoms) (idx : List Nat) (h : a.getitem idx = .ok r) :
    (∀ ty, atomText r ty = atomText a ty) ∧ r.pairCoeffs = []
    ∧ (∀ row ∈ r.atoms, ∃ row0 ∈ a.atoms, row.ty = row0.ty ∧ row.charge = row0.charge ∧ row.group = row0.group
        ∧ row.pos = row0.pos)
    ∧ r.bonds.terms = [] ∧ r.angles.terms = [] ∧ r.dihedrals.terms = [] ∧ r.impropers.terms = [] := by
  unfold Atoms.getitem at h
  split at h
  · cases h
  · split at h
    · cases h
    · cases h
      refine ⟨fun ty => rfl, rfl, ?_, rfl, rfl, rfl, rfl⟩
      intro row hr
      simp only [List.mem_filterMap] at hr
      obtain ⟨i, _, hi⟩ := hr
      cases hq : a.atoms[i]? with
      | none => simp [hq] at hi
      | some row0 =>
        simp [hq] at hi
        subst hi
        exact ⟨row0, List.mem_of_getElem? hq, rfl, rfl, rfl, rfl⟩

/-- **meaning_extend.** `a.extend(b)` with default offsets under `Compat` (and one table entry per atom type in
    `a`, `Aligned a`):
    every atom of the result is an atom of `a` (same charge, group, position) that still resolves to its texts or —
    when it is the image of an identity-map entry — to the texts of that atom of `b`; or it is an atom of `b`
    (same charge, group, position) resolving to `b`'s texts.  Every term of the result is a term of `a` (same
    atoms, widened extra row) with the coefficient it had, or a term of `b` (extra row re-laid out) with the
    coefficient it had in `b` — also when the kind had been emptied in `a`, or `a` had no atoms left. -/
theorem meaning_extend (a b r : Atoms) (map : List (Nat × Nat)) (hwa : WF a) (hal : Aligned a)
    (hc : Compat a b) (h : a.extend b none map = .ok r) :
    (∀ row ∈ r.atoms,
      (∃ row0 ∈ a.atoms, row.charge = row0.charge ∧ row.group = row0.group ∧ row.pos = row0.pos
        ∧ ((atomText r row.ty = atomText a row0.ty ∧ PairKept r a row.ty row0.ty)
           ∨ ∃ kv ∈ map, ∃ br, b.atoms[kv.1]? = some br
               ∧ atomText r row.ty = atomText b br.ty ∧ PairKept r b row.ty br.ty))
      ∨ (∃ br ∈ b.atoms, row.charge = br.charge ∧ row.group = br.group ∧ row.pos = br.pos
          ∧ atomText r row.ty = atomText b br.ty ∧ PairKept r b row.ty br.ty))
    ∧ (∀ tm ∈ r.bonds.terms, TermMeaningKept r.bonds a.bonds b.bonds tm)
    ∧ (∀ tm ∈ r.angles.terms, TermMeaningKept r.angles a.angles b.angles tm)
    ∧ (∀ tm ∈ r.dihedrals.terms, TermMeaningKept r.dihedrals a.dihedrals b.dihedrals tm)
    ∧ (∀ tm ∈ r.impropers.terms, TermMeaningKept r.impropers a.impropers b.impropers tm) := by
  rw [extend_none_eq_core] at h
  obtain ⟨ha, _, _, _, hbo, han, hdi, him⟩ := hwa
  obtain ⟨cp, cb, ca, cd, ci⟩ := hc
  obtain ⟨hrows, _, _, _, _, hst⟩ := extendCore_from _ b r _ map h
  obtain ⟨s1, s2, s3, s4, _⟩ := hst
  obtain ⟨ta, tb⟩ := extendTypes_atomText a b hal cp
  -- texts in `r` = texts in the merged tables
  have htext : ∀ ty, atomText r ty = atomText (a.extendTypes b).1 ty := by
    intro ty; simp only [atomText, s1, s2, s3]
  have hpair : ∀ (src : Atoms) ty ty0, PairKept (a.extendTypes b).1 src ty ty0 → PairKept r src ty ty0 := by
    intro src ty ty0 hk; unfold PairKept at hk ⊢; rw [s4]; exact hk
  refine ⟨?_, ?_, ?_, ?_, ?_⟩
  · intro row hrow
    rcases hrows row hrow with ⟨row0, h0, hch, hg, hp, hty⟩ | ⟨br, hbr, hch, hg, hp, hty⟩
    · refine Or.inl ⟨row0, h0, hch, hg, hp, ?_⟩
      rcases hty with hty | ⟨kv, hkv, br, hbr, hty⟩
      · left
        have hlt : row0.ty < a.typeElems.length := (ha row0 h0).1
        rw [hty, htext]
        exact ⟨(ta row0.ty hlt).1, hpair a _ _ (ta row0.ty hlt).2⟩
      · right
        refine ⟨kv, hkv, br, hbr, ?_⟩
        rw [hty, htext]
        exact ⟨(tb br.ty).1, hpair b _ _ (tb br.ty).2⟩
    · refine Or.inr ⟨br, hbr, hch, hg, hp, ?_⟩
      rw [hty, htext]
      exact ⟨(tb br.ty).1, hpair b _ _ (tb br.ty).2⟩
  all_goals
    unfold extendCore at h
    split at h
    · cases h
    · split at h
      · cases h
      · cases hB : ((a.extendTypes b).1).bonds.extendWith b.bonds (a.extendTypes b).2.bond
            (extConv (a.extendTypes b).1.atoms.length b map) with
        | error e => simp [hB, bind, Except.bind] at h
        | ok bonds =>
          cases hA : ((a.extendTypes b).1).angles.extendWith b.angles (a.extendTypes b).2.angle
              (extConv (a.extendTypes b).1.atoms.length b map) with
          | error e => simp [hB, hA, bind, Except.bind] at h
          | ok angles =>
            cases hD : ((a.extendTypes b).1).dihedrals.extendWith b.dihedrals (a.extendTypes b).2.dihedral
                (extConv (a.extendTypes b).1.atoms.length b map) with
            | error e => simp [hB, hA, hD, bind, Except.bind] at h
            | ok dihedrals =>
              cases hI : ((a.extendTypes b).1).impropers.extendWith b.impropers (a.extendTypes b).2.improper
                  (extConv (a.extendTypes b).1.atoms.length b map) with
              | error e => simp [hB, hA, hD, hI, bind, Except.bind] at h
              | ok impropers =>
                simp [hB, hA, hD, hI, bind, Except.bind, pure, Except.pure] at h
                subst h
                first
                  | exact meaning_kind a.bonds b.bonds _ _ _ hbo cb hB
                  | exact meaning_kind a.angles b.angles _ _ _ han ca hA
                  | exact meaning_kind a.dihedrals b.dihedrals _ _ _ hdi cd hD
                  | exact meaning_kind a.impropers b.impropers _ _ _ him ci hI

/-- **meaning_extend_offsets.** With explicit offsets no table changes; every atom of `a` keeps its charge, group,
    position and — unless it is the image of an identity-map entry — its type id; appended atoms and terms carry
    `b`'s type ids shifted by the given offsets (which the caller promises to denote the same entries). -/
theorem meaning_extend_offsets (a b r : Atoms) (o : Offsets) (map : List (Nat × Nat))
    (h : a.extend b (some o) map = .ok r) :
    SameTables r a ∧ (∀ row ∈ r.atoms, RowFrom a b o.atom map row)
    ∧ (∀ tm ∈ r.bonds.terms, TermFrom a.bonds b.bonds o.bond (extConv a.atoms.length b map) tm)
    ∧ (∀ tm ∈ r.angles.terms, TermFrom a.angles b.angles o.angle (extConv a.atoms.length b map) tm)
    ∧ (∀ tm ∈ r.dihedrals.terms, TermFrom a.dihedrals b.dihedrals o.dihedral (extConv a.atoms.length b map) tm)
    ∧ (∀ tm ∈ r.impropers.terms, TermFrom a.impropers b.impropers o.improper (extConv a.atoms.length b map) tm) := by
  rw [extend_some_eq_core] at h
  obtain ⟨h1, h2, h3, h4, h5, h6⟩ := extendCore_from a b r o map h
  exact ⟨h6, h1, h2, h3, h4, h5⟩

/-- **meaning_replicate.** Replication leaves every type table alone; every atom of the result has the type id,
    charge and group of an atom of the input, every term the type id of an input term of its kind. -/
theorem meaning_replicate (a r : Atoms) (da db dc : Nat) (h : a.replicate da db dc = .ok r) : FromTypes r a := by
  unfold Atoms.replicate at h
  split at h
  · cases h
  · rename_i cell _
    simp only at h
    have inv : ∀ ms : List (Nat × Nat × Nat), ∀ r0,
        ms.foldl (fun (acc : Except Err Atoms) (m : Nat × Nat × Nat) =>
          match acc with
          | .error e => .error e
          | .ok r => r.extend (a.translate (cell.lattice m.1 m.2.1 m.2.2)) (some Offsets.zero) []) (.ok a) = .ok r0
        → FromTypes r0 a := by
      intro ms
      apply hist_foldl_inv (fun acc : Except Err Atoms => ∀ r0, acc = .ok r0 → FromTypes r0 a)
      · intro r0 h0; cases h0
        exact ⟨⟨rfl, rfl, rfl, rfl, rfl, rfl, rfl, rfl⟩, fun row hr => ⟨row, hr, rfl, rfl, rfl⟩,
          fun tm ht => ⟨tm, ht, rfl⟩, fun tm ht => ⟨tm, ht, rfl⟩, fun tm ht => ⟨tm, ht, rfl⟩,
          fun tm ht => ⟨tm, ht, rfl⟩⟩
      · intro acc m hacc r1 h1
        cases acc with
        | error e => simp at h1
        | ok r0 =>
          obtain ⟨hs0, hr0, hb0, ha0, hd0, hi0⟩ := hacc r0 rfl
          simp only at h1
          obtain ⟨hs1, hr1, hb1, ha1, hd1, hi1⟩ := meaning_extend_offsets r0 _ r1 _ [] h1
          have kind : ∀ (rk r0k ak : TermTable) (conv : Nat → Option Nat),
              (∀ tm ∈ r0k.terms, ∃ t0 ∈ ak.terms, tm.ty = t0.ty) →
              (∀ tm ∈ rk.terms, TermFrom r0k ak 0 conv tm) → ∀ tm ∈ rk.terms, ∃ t0 ∈ ak.terms, tm.ty = t0.ty := by
            intro rk r0k ak conv h0 hf tm htm
            rcases hf tm htm with ⟨t0, ht0, hty, _, _⟩ | ⟨t0, ht0, hty, _, _⟩
            · obtain ⟨t1, ht1, e⟩ := h0 t0 ht0
              exact ⟨t1, ht1, hty.trans e⟩
            · exact ⟨t0, ht0, by simpa using hty⟩
          obtain ⟨s1, s2, s3, s4, s5, s6, s7, s8⟩ := hs0
          obtain ⟨e1, e2, e3, e4, e5, e6, e7, e8⟩ := hs1
          refine ⟨⟨e1.trans s1, e2.trans s2, e3.trans s3, e4.trans s4, e5.trans s5, e6.trans s6, e7.trans s7,
            e8.trans s8⟩, ?_, kind _ _ _ _ hb0 hb1, kind _ _ _ _ ha0 ha1, kind _ _ _ _ hd0 hd1,
            kind _ _ _ _ hi0 hi1⟩
          intro row hrow
          rcases hr1 row hrow with ⟨row0, h0, hch, hg, _, hty⟩ | ⟨br, hbr, hch, hg, _, hty⟩
          · rcases hty with hty | ⟨kv, hkv, _⟩
            · obtain ⟨row1, h1', e1', e2', e3'⟩ := hr0 row0 h0
              exact ⟨row1, h1', hty.trans e1', hch.trans e2', hg.trans e3'⟩
            · cases hkv
          · simp only [Atoms.translate, List.mem_map] at hbr
            obtain ⟨x, hx, rfl⟩ := hbr
            exact ⟨x, hx, by simpa [Offsets.zero] using hty, hch, hg⟩
    split at h
    · cases h
    · rename_i r0 hr0
      cases h
      exact inv _ r0 hr0

/-- `Aligned` (one entry per atom type in every atom-type table) is kept by every operation, so `meaning_extend`
    applies at every extend of a history that started from aligned objects -/
theorem aligned_ops (a : Atoms) (hal : Aligned a) :
    (∀ r idx, a.delete idx = .ok r → Aligned r) ∧ (∀ r i, a.pop i = .ok r → Aligned r)
    ∧ (∀ r idx, a.getitem idx = .ok r → Aligned r)
    ∧ (∀ r da db dc, a.replicate da db dc = .ok r → Aligned r)
    ∧ (∀ b r o map, a.extend b (some o) map = .ok r → Aligned r)
    ∧ (∀ b r map, Aligned b → PairCompat a b → a.extend b none map = .ok r → Aligned r) := by
  refine ⟨?_, ?_, ?_, ?_, ?_, ?_⟩
  · intro r idx h; exact aligned_of_sameTables r a (meaning_delete a r idx h).1 hal
  · intro r i h; exact aligned_of_sameTables r a (meaning_pop a r i h).1 hal
  · intro r idx h
    unfold Atoms.getitem at h
    split at h
    · cases h
    · split at h
      · cases h
      · cases h; exact ⟨hal.1, hal.2.1, Or.inl rfl⟩
  · intro r da db dc h; exact aligned_of_sameTables r a (meaning_replicate a r da db dc h).1 hal
  · intro b r o map h; exact aligned_of_sameTables r a (meaning_extend_offsets a b r o map h).1 hal
  · intro b r map hb hp h
    rw [extend_none_eq_core] at h
    exact aligned_of_sameTables r _ (extendCore_from _ b r _ map h).2.2.2.2.2 (aligned_extendTypes a b hal hb hp)

/-! ### histories -/

/-- **wf_step.** One guarded op takes a state of consistent objects to a state of consistent objects. -/
theorem wf_step (s s' : State) (op : Op) (hs : WFState s) (hg : GuardedOp s op) (h : step s op = .ok s') :
    WFState s' := by
  cases op with
  | construct dst a =>
    exact wfState_put s s' dst a hs hg h
  | copy src dst =>
    simp only [step, bind, Except.bind] at h
    cases ha : getSlot s src with
    | error e => simp [ha] at h
    | ok a =>
      simp only [ha] at h
      exact wfState_put s s' dst a hs (hs src a (getSlot_ok s src a ha)) h
  | delete slot idx =>
    simp only [step, bind, Except.bind] at h
    cases ha : getSlot s slot with
    | error e => simp [ha] at h
    | ok a =>
      simp only [ha] at h
      cases hr : a.delete idx with
      | error e => simp [hr] at h
      | ok r =>
        simp only [hr] at h
        exact wfState_put s s' slot r hs (wf_delete a r idx hg (hs slot a (getSlot_ok s slot a ha)) hr) h
  | pop slot i =>
    simp only [step, bind, Except.bind] at h
    cases ha : getSlot s slot with
    | error e => simp [ha] at h
    | ok a =>
      simp only [ha] at h
      cases hr : a.pop i with
      | error e => simp [hr] at h
      | ok r =>
        simp only [hr] at h
        exact wfState_put s s' slot r hs (wf_pop a r i (hs slot a (getSlot_ok s slot a ha)) hr) h
  | extend dst src off map =>
    simp only [step, bind, Except.bind] at h
    cases ha : getSlot s dst with
    | error e => simp [ha] at h
    | ok a =>
      simp only [ha] at h
      cases hb : getSlot s src with
      | error e => simp [hb] at h
      | ok b =>
        simp only [hb] at h
        cases hr : a.extend b off map with
        | error e => simp [hr] at h
        | ok r =>
          simp only [hr] at h
          have ea := getSlot_ok s dst a ha
          have eb := getSlot_ok s src b hb
          have hg' : ExtendGuard a b off := by
            simp only [GuardedOp, slotGuard, ea, eb] at hg; exact hg
          exact wfState_put s s' dst r hs (wf_extend a b r off map (hs dst a ea) (hs src b eb) hg' hr) h
  | replicate src dst da db dc =>
    simp only [step, bind, Except.bind] at h
    cases ha : getSlot s src with
    | error e => simp [ha] at h
    | ok a =>
      simp only [ha] at h
      cases hr : a.replicate da db dc with
      | error e => simp [hr] at h
      | ok r =>
        simp only [hr] at h
        exact wfState_put s s' dst r hs (wf_replicate a r da db dc (hs src a (getSlot_ok s src a ha)) hr) h
  | getitem src dst idx =>
    simp only [step, bind, Except.bind] at h
    cases ha : getSlot s src with
    | error e => simp [ha] at h
    | ok a =>
      simp only [ha] at h
      cases hr : a.getitem idx with
      | error e => simp [hr] at h
      | ok r =>
        simp only [hr] at h
        exact wfState_put s s' dst r hs (wf_getitem a r idx (hs src a (getSlot_ok s src a ha)) hr) h

/-- **wf_run.** For EVERY list of ops (induction over the list): if every op satisfies its guard in the state it
    is executed in and the history runs to the end, the final state consists of consistent objects. -/
theorem wf_run (ops : List Op) : ∀ (s s' : State), WFState s → GuardedRun s ops → run s ops = .ok s' →
    WFState s' := by
  induction ops with
  | nil =>
    intro s s' hs _ h
    simp only [run] at h
    cases h; exact hs
  | cons op rest ih =>
    intro s s' hs hg h
    obtain ⟨hg1, hg2⟩ := hg
    simp only [run] at h
    cases hstep : step s op with
    | error e => simp [hstep] at h
    | ok s1 =>
      simp only [hstep] at h hg2
      exact ih s1 s' (wf_step s s1 op hs hg1 hstep) hg2 h

/-- **wf_run_prefix.** …and so is every intermediate state: the invariant holds after every step of the history. -/
theorem wf_run_prefix (ops : List Op) (s s' : State) (k : Nat) (hs : WFState s) (hg : GuardedRun s ops)
    (h : run s (ops.take k) = .ok s') : WFState s' :=
  wf_run (ops.take k) s s' hs (guardedRun_take ops s k hg) h

/-- the empty state is consistent -/
theorem wfState_init : WFState State.init := by
  intro i a h
  simp [State.init, List.getElem?_replicate] at h

/-- every per-step result the driver prints (`trace`) is a state of consistent objects -/
theorem wf_trace (ops : List Op) : ∀ (s : State), WFState s → GuardedRun s ops →
    ∀ s', some (.ok s') ∈ trace s ops → WFState s' := by
  induction ops with
  | nil => intro s _ _ s' h; simp [trace] at h
  | cons op rest ih =>
    intro s hs hg s' h
    obtain ⟨hg1, hg2⟩ := hg
    simp only [trace] at h
    cases hstep : step s op with
    | error e =>
      simp only [hstep] at h
      rcases List.mem_cons.mp h with h | h
      · cases h
      · simp at h
    | ok s1 =>
      simp only [hstep] at h hg2
      have hw1 := wf_step s s1 op hs hg1 hstep
      rcases List.mem_cons.mp h with h | h
      · cases h; exact hw1
      · exact ih s1 hw1 hg2 s' h

/-! ### STRETCH — the hypotheses of `meaning_extend` hold at every extend of a guarded history -/

/-- **aligned_step.** -/
theorem aligned_step (s s' : State) (op : Op) (_hw : WFState s) (hs : AlignedState s) (hg : GuardedOp s op)
    (hao : AlignedOp op) (h : step s op = .ok s') : AlignedState s' := by
  cases op with
  | construct dst a => exact alignedState_put s s' dst a hs hao h
  | copy src dst =>
    simp only [step, bind, Except.bind] at h
    cases ha : getSlot s src with
    | error e => simp [ha] at h
    | ok a =>
      simp only [ha] at h
      exact alignedState_put s s' dst a hs (hs src a (getSlot_ok s src a ha)) h
  | delete slot idx =>
    simp only [step, bind, Except.bind] at h
    cases ha : getSlot s slot with
    | error e => simp [ha] at h
    | ok a =>
      simp only [ha] at h
      cases hr : a.delete idx with
      | error e => simp [hr] at h
      | ok r =>
        simp only [hr] at h
        exact alignedState_put s s' slot r hs ((aligned_ops a (hs slot a (getSlot_ok s slot a ha))).1 r idx hr) h
  | pop slot i =>
    simp only [step, bind, Except.bind] at h
    cases ha : getSlot s slot with
    | error e => simp [ha] at h
    | ok a =>
      simp only [ha] at h
      cases hr : a.pop i with
      | error e => simp [hr] at h
      | ok r =>
        simp only [hr] at h
        exact alignedState_put s s' slot r hs ((aligned_ops a (hs slot a (getSlot_ok s slot a ha))).2.1 r i hr) h
  | extend dst src off map =>
    simp only [step, bind, Except.bind] at h
    cases ha : getSlot s dst with
    | error e => simp [ha] at h
    | ok a =>
      simp only [ha] at h
      cases hb : getSlot s src with
      | error e => simp [hb] at h
      | ok b =>
        simp only [hb] at h
        cases hr : a.extend b off map with
        | error e => simp [hr] at h
        | ok r =>
          simp only [hr] at h
          have ea := getSlot_ok s dst a ha
          have eb := getSlot_ok s src b hb
          have hg' : ExtendGuard a b off := by
            simp only [GuardedOp, slotGuard, ea, eb] at hg; exact hg
          have hops := aligned_ops a (hs dst a ea)
          cases off with
          | none =>
            exact alignedState_put s s' dst r hs (hops.2.2.2.2.2 b r map (hs src b eb) hg'.1 hr) h
          | some o =>
            exact alignedState_put s s' dst r hs (hops.2.2.2.2.1 b r o map hr) h
  | replicate src dst da db dc =>
    simp only [step, bind, Except.bind] at h
    cases ha : getSlot s src with
    | error e => simp [ha] at h
    | ok a =>
      simp only [ha] at h
      cases hr : a.replicate da db dc with
      | error e => simp [hr] at h
      | ok r =>
        simp only [hr] at h
        exact alignedState_put s s' dst r hs
          ((aligned_ops a (hs src a (getSlot_ok s src a ha))).2.2.2.1 r da db dc hr) h
  | getitem src dst idx =>
    simp only [step, bind, Except.bind] at h
    cases ha : getSlot s src with
    | error e => simp [ha] at h
    | ok a =>
      simp only [ha] at h
      cases hr : a.getitem idx with
      | error e => simp [hr] at h
      | ok r =>
        simp only [hr] at h
        exact alignedState_put s s' dst r hs ((aligned_ops a (hs src a (getSlot_ok s src a ha))).2.2.1 r idx hr) h

/-- **meaning_run.** Along every guarded history whose literals are aligned, both invariants hold in every
    reachable state; hence at every `extend` with default offsets the hypotheses of `meaning_extend`
    (`WF`, `Aligned`, `Compat`) are met, and at every other op the unconditional `meaning_*` theorem applies. -/
theorem meaning_run (ops : List Op) : ∀ (s s' : State), WFState s → AlignedState s → GuardedRun s ops →
    (∀ op ∈ ops, AlignedOp op) → run s ops = .ok s' → WFState s' ∧ AlignedState s' := by
  induction ops with
  | nil =>
    intro s s' hw hs _ _ h
    simp only [run] at h
    cases h; exact ⟨hw, hs⟩
  | cons op rest ih =>
    intro s s' hw hs hg hao h
    obtain ⟨hg1, hg2⟩ := hg
    simp only [run] at h
    cases hstep : step s op with
    | error e => simp [hstep] at h
    | ok s1 =>
      simp only [hstep] at h hg2
      exact ih s1 s' (wf_step s s1 op hw hg1 hstep)
        (aligned_step s s1 op hw hs hg1 (hao op List.mem_cons_self) hstep) hg2
        (fun o ho => hao o (List.mem_cons_of_mem _ ho)) h

/-! ### non-vacuity: concrete histories that satisfy every guard, run to the end, and hit the special cases -/

/-- three atoms, two bonds of two types with a coefficient table, pair coefficients, labels ≠ elements -/
def exA : Atoms :=
  { Atoms.empty with
    atoms := [⟨0, ⟨0, 0, 0⟩, 1, 0, []⟩, ⟨1, ⟨1, 0, 0⟩, 2, 1, []⟩, ⟨1, ⟨2, 0, 0⟩, 3, 0, []⟩]
    bonds := ⟨[⟨[0, 1], 0, ["b1"]⟩, ⟨[1, 2], 1, ["b2"]⟩], ["kA0", "kA1"], ["_tag"]⟩
    typeElems := ["C", "H"], typeLabels := ["C_1", "H_2"], typeMasses := [12, 1]
    pairCoeffs := ["pC", "pH"]
    cell := some ⟨⟨10, 0, 0⟩, ⟨0, 10, 0⟩, ⟨0, 0, 10⟩⟩ }

/-- a typed fragment: two atoms, one bond with its own table -/
def exB : Atoms :=
  { Atoms.empty with
    atoms := [⟨0, ⟨5, 0, 0⟩, 4, 0, []⟩, ⟨0, ⟨6, 0, 0⟩, 5, 0, []⟩]
    bonds := ⟨[⟨[0, 1], 0, ["b3"]⟩], ["kB0"], ["_tag"]⟩
    typeElems := ["O"], typeLabels := ["O_1"], typeMasses := [16]
    pairCoeffs := ["pO"] }

/-- empty the bond kind (delete the middle atom: both bonds go, the table stays), then extend with a typed
    fragment; then delete ALL atoms and extend again; then replicate, take a subset, pop -/
def exHistory : List Op :=
  [.construct 0 exA, .construct 1 exB, .delete 0 [1], .extend 0 1 none [(0, 1)],
   .copy 0 2, .delete 2 [0, 1, 2], .extend 2 1 none [], .replicate 0 3 2 1 1, .getitem 3 3 [0, 3], .pop 0 (-1)]

example : WF exA ∧ WF exB ∧ Compat exA exB := by decide

example : GuardedRun State.init exHistory := by decide

example : ∃ s', run State.init exHistory = .ok s' ∧ WFState s' := by
  have hok : (match run State.init exHistory with | .ok _ => true | .error _ => false) = true := by decide
  cases h : run State.init exHistory with
  | error e => rw [h] at hok; cases hok
  | ok s' => exact ⟨s', rfl, wf_run exHistory _ s' wfState_init (by decide) h⟩

/-- in that history, after the bond kind was emptied the fragment's bond type 0 became 2 (offset = table length,
    not 0) and resolves to the fragment's own coefficient -/
example : ∃ s a, run State.init (exHistory.take 4) = .ok s ∧ s[0]? = some (some a)
    ∧ a.bonds.terms.map (·.ty) = [2] ∧ a.bonds.coeffs[2]? = some "kB0"
    ∧ a.atoms.map (·.ty) = [0, 2, 2] ∧ a.typeLabels[2]? = some "O_1" := by
  refine ⟨_, _, rfl, rfl, ?_, ?_, ?_, ?_⟩ <;> decide

example : Aligned exA ∧ Aligned exB ∧ ∀ op ∈ exHistory, AlignedOp op := by decide

/-- explicit offsets: appending a copy of an object to itself with offsets `(0,0,0,0,0)` is inside the guard -/
example : OffsetsOk exA exA Offsets.zero ∧ ∃ r, exA.extend exA (some Offsets.zero) [] = .ok r ∧ r.atoms.length = 6 := by
  refine ⟨by decide, _, rfl, by decide⟩

/-- an incompatible extend (self has bonds without a table, the other has a table) is outside the guard -/
example : ¬ Compat { exA with bonds := { exA.bonds with coeffs := [] } } exB := by decide

end Mofun.Hist
