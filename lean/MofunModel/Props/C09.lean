/-
  C09 — Atoms objects stay consistent and type ids keep their meaning, over operation histories.
  Property theorems only (definitions `WF`, `Compat`, `ExtendGuard`, `GuardedOp`, `GuardedRun` and the helper
  lemmas: Proofs/HistLemmas.lean).  Models: Model/Topo.lean (the operations), Model/Hist.lean (slots, ops, `step`,
  `run`).

  `WF a` : every atom's type id has element, label and mass (and a pair coefficient when the pair table exists),
  every term refers to existing atoms only, per kind the coefficient table is absent or covers every type id in
  use, every extra row has one entry per extra label.

  Guards (the property's quantifier, all decidable):
    delete   — the indices are distinct                     (validity: `step` fails otherwise, like the code)
    extend   — default offsets: `Compat a b`  (per kind: neither side has a coefficient table, or every side that
               has terms of the kind has a table; same for pair coefficients w.r.t. atom types);
               explicit offsets: `OffsetsOk a b o` (the shifted ids of `b` have their data in `a`'s tables)
    construct — the literal object is `WF`
-/
import MofunModel.Proofs.HistLemmas

namespace Mofun.Hist

open Mofun

/-! ### each operation preserves the invariant -/

/-- **wf_delete.** `del a[idx]` with distinct indices keeps the object consistent. -/
theorem wf_delete (a r : Atoms) (idx : List Nat) (hnd : idx.Nodup) (hwf : WF a) (h : a.delete idx = .ok r) :
    WF r := wf_delete_aux a r idx hnd hwf h

/-- **wf_pop.** -/
theorem wf_pop (a r : Atoms) (i : Int) (hwf : WF a) (h : a.pop i = .ok r) : WF r := wf_pop_aux a r i hwf h

/-- **wf_getitem.** -/
theorem wf_getitem (a r : Atoms) (idx : List Nat) (hwf : WF a) (h : a.getitem idx = .ok r) : WF r :=
  wf_getitem_aux a r idx hwf h

/-- **wf_extend.** `a.extend(b, offsets, structure_index_map)` keeps `a` consistent: with default offsets under
    the compatibility clause `Compat a b`, with explicit offsets under `OffsetsOk a b o`; for every index map the
    model accepts (distinct keys inside `b`, values inside `a` — anything else makes `extend` fail). -/
theorem wf_extend (a b r : Atoms) (off : Option Offsets) (map : List (Nat × Nat))
    (hwa : WF a) (hwb : WF b) (hg : ExtendGuard a b off) (h : a.extend b off map = .ok r) : WF r :=
  wf_extend_aux a b r off map hwa hwb hg h

/-- `extend` with default offsets, the guard spelled out -/
theorem wf_extend_default (a b r : Atoms) (map : List (Nat × Nat))
    (hwa : WF a) (hwb : WF b) (hc : Compat a b) (h : a.extend b none map = .ok r) : WF r :=
  wf_extend_aux a b r none map hwa hwb hc h

/-- **wf_replicate.** (the images are appended with offsets `(0,0,0,0,0)`; the guard of those appends follows
    from `WF a`, so replication needs no guard of its own) -/
theorem wf_replicate (a r : Atoms) (da db dc : Nat) (hwf : WF a) (h : a.replicate da db dc = .ok r) : WF r :=
  wf_replicate_aux a r da db dc hwf h

/-! ### type ids keep their meaning when type tables are merged -/

/-- **type count = table length**, exactly when the kind has no terms or its table covers every id in use
    (in particular after all terms of the kind have been deleted and the table stayed). -/
theorem numTermTypes_eq_length (t : TermTable) :
    numTermTypes t = t.coeffs.length ↔ (t.terms = [] ∨ ∀ tm ∈ t.terms, tm.ty < t.coeffs.length) :=
  numTermTypes_eq_length_iff t

/-- a kind that was emptied keeps its table, and its type count is the table length (not 0) -/
theorem numTermTypes_emptied (t : TermTable) (idx : List Nat) (h : (t.delete idx).terms = []) :
    numTermTypes (t.delete idx) = t.coeffs.length := by
  have := (numTermTypes_eq_length_iff (t.delete idx)).mpr (Or.inl h)
  simpa [TermTable.delete] using this

/-- the atom type count is the table length whatever atoms are left (also none) -/
theorem numAtomTypes_delete (a r : Atoms) (idx : List Nat) (h : a.delete idx = .ok r) :
    numAtomTypes r = a.typeElems.length := by
  unfold Atoms.delete at h
  split at h
  · cases h
  · cases h; rfl

/-- **extend_types_offsets_cover.** After `extend_types`, the other's type id `t` shifted by the returned offset
    indexes the other's own entry in the merged table — for every term kind whose type count is its table length
    (`numTermTypes_eq_length`: no terms, or a table covering the ids in use), and self's ids below its table
    length keep their entry. -/
theorem extend_types_offsets_cover (ta tb : TermTable) (t : Nat)
    (h : ta.terms = [] ∨ ∀ tm ∈ ta.terms, tm.ty < ta.coeffs.length) :
    (ta.coeffs ++ tb.coeffs)[numTermTypes ta + t]? = tb.coeffs[t]?
    ∧ ∀ i, i < ta.coeffs.length → (ta.coeffs ++ tb.coeffs)[i]? = ta.coeffs[i]? := by
  rw [(numTermTypes_eq_length_iff ta).mpr h]
  refine ⟨?_, ?_⟩
  · rw [List.getElem?_append_right (Nat.le_add_right _ _)]
    congr 1; omega
  · intro i hi; exact List.getElem?_append_left hi

/-- the same for the four term kinds of `a.extendTypes b` at once, as the code computes them -/
theorem extendTypes_terms_resolve (a b : Atoms) (hwa : WF a) (hc : Compat a b) (t : Nat) :
    let r := (a.extendTypes b).1
    let o := (a.extendTypes b).2
    (a.bonds.coeffs = [] ∧ b.bonds.coeffs = [] ∨ r.bonds.coeffs[o.bond + t]? = b.bonds.coeffs[t]?)
    ∧ (a.angles.coeffs = [] ∧ b.angles.coeffs = [] ∨ r.angles.coeffs[o.angle + t]? = b.angles.coeffs[t]?)
    ∧ (a.dihedrals.coeffs = [] ∧ b.dihedrals.coeffs = []
        ∨ r.dihedrals.coeffs[o.dihedral + t]? = b.dihedrals.coeffs[t]?)
    ∧ (a.impropers.coeffs = [] ∧ b.impropers.coeffs = []
        ∨ r.impropers.coeffs[o.improper + t]? = b.impropers.coeffs[t]?) := by
  obtain ⟨_, _, _, _, hbo, han, hdi, him⟩ := hwa
  obtain ⟨_, cb, ca, cd, ci⟩ := hc
  have kind : ∀ (ta tb : TermTable) (n : Nat), TermsWF n ta → KindCompat ta tb →
      (ta.coeffs = [] ∧ tb.coeffs = []) ∨ (ta.coeffs ++ tb.coeffs)[numTermTypes ta + t]? = tb.coeffs[t]? := by
    intro ta tb n hta hk
    rcases hk with h | ⟨hA, _⟩
    · left; exact h
    · right
      apply (extend_types_offsets_cover ta tb t _).1
      rcases hA with hA | hA
      · left; exact hA
      · rcases hta.2 with h | h
        · exact absurd h hA
        · right; exact h
  exact ⟨kind _ _ _ hbo cb, kind _ _ _ han ca, kind _ _ _ hdi cd, kind _ _ _ him ci⟩

/-- atom types: the offset is the length of the element table, so the other's atom type `t` finds the other's own
    element; label, mass and pair coefficient likewise when self's tables are as long as its element table -/
theorem extendTypes_atoms_resolve (a b : Atoms) (t : Nat) :
    let r := (a.extendTypes b).1
    let o := (a.extendTypes b).2
    r.typeElems[o.atom + t]? = b.typeElems[t]?
    ∧ (a.typeLabels.length = a.typeElems.length → r.typeLabels[o.atom + t]? = b.typeLabels[t]?)
    ∧ (a.typeMasses.length = a.typeElems.length → r.typeMasses[o.atom + t]? = b.typeMasses[t]?)
    ∧ (a.pairCoeffs.length = a.typeElems.length → r.pairCoeffs[o.atom + t]? = b.pairCoeffs[t]?)
    ∧ ∀ i, (i < a.typeElems.length → r.typeElems[i]? = a.typeElems[i]?)
        ∧ (i < a.typeLabels.length → r.typeLabels[i]? = a.typeLabels[i]?)
        ∧ (i < a.typeMasses.length → r.typeMasses[i]? = a.typeMasses[i]?)
        ∧ (i < a.pairCoeffs.length → r.pairCoeffs[i]? = a.pairCoeffs[i]?) := by
  simp only [Atoms.extendTypes, Atoms.offsets, numAtomTypes]
  refine ⟨?_, ?_, ?_, ?_, ?_⟩
  · rw [List.getElem?_append_right (Nat.le_add_right _ _)]; congr 1; omega
  · intro h; rw [List.getElem?_append_right (by omega)]; congr 1; omega
  · intro h; rw [List.getElem?_append_right (by omega)]; congr 1; omega
  · intro h; rw [List.getElem?_append_right (by omega)]; congr 1; omega
  · intro i
    exact ⟨fun h => List.getElem?_append_left h, fun h => List.getElem?_append_left h,
      fun h => List.getElem?_append_left h, fun h => List.getElem?_append_left h⟩

/-! ### histories -/

/-- **wf_step.** One guarded op takes a state of consistent objects to a state of consistent objects. -/
theorem wf_step (s s' : State) (op : Op) (hs : WFState s) (hg : GuardedOp s op) (h : step s op = .ok s') :
    WFState s' := by
  cases op with
  | construct dst a =>
    exact wfState_put s s' dst a hs hg h
  | copy src dst =>
    simp only [step, bind, Except.bind] at h
    cases ha : getSlot s src with
    | error e => simp [ha] at h
    | ok a =>
      simp only [ha] at h
      exact wfState_put s s' dst a hs (hs src a (getSlot_ok s src a ha)) h
  | delete slot idx =>
    simp only [step, bind, Except.bind] at h
    cases ha : getSlot s slot with
    | error e => simp [ha] at h
    | ok a =>
      simp only [ha] at h
      cases hr : a.delete idx with
      | error e => simp [hr] at h
      | ok r =>
        simp only [hr] at h
        exact wfState_put s s' slot r hs (wf_delete a r idx hg (hs slot a (getSlot_ok s slot a ha)) hr) h
  | pop slot i =>
    simp only [step, bind, Except.bind] at h
    cases ha : getSlot s slot with
    | error e => simp [ha] at h
    | ok a =>
      simp only [ha] at h
      cases hr : a.pop i with
      | error e => simp [hr] at h
      | ok r =>
        simp only [hr] at h
        exact wfState_put s s' slot r hs (wf_pop a r i (hs slot a (getSlot_ok s slot a ha)) hr) h
  | extend dst src off map =>
    simp only [step, bind, Except.bind] at h
    cases ha : getSlot s dst with
    | error e => simp [ha] at h
    | ok a =>
      simp only [ha] at h
      cases hb : getSlot s src with
      | error e => simp [hb] at h
      | ok b =>
        simp only [hb] at h
        cases hr : a.extend b off map with
        | error e => simp [hr] at h
        | ok r =>
          simp only [hr] at h
          have ea := getSlot_ok s dst a ha
          have eb := getSlot_ok s src b hb
          have hg' : ExtendGuard a b off := by
            simp only [GuardedOp, slotGuard, ea, eb] at hg; exact hg
          exact wfState_put s s' dst r hs (wf_extend a b r off map (hs dst a ea) (hs src b eb) hg' hr) h
  | replicate src dst da db dc =>
    simp only [step, bind, Except.bind] at h
    cases ha : getSlot s src with
    | error e => simp [ha] at h
    | ok a =>
      simp only [ha] at h
      cases hr : a.replicate da db dc with
      | error e => simp [hr] at h
      | ok r =>
        simp only [hr] at h
        exact wfState_put s s' dst r hs (wf_replicate a r da db dc (hs src a (getSlot_ok s src a ha)) hr) h
  | getitem src dst idx =>
    simp only [step, bind, Except.bind] at h
    cases ha : getSlot s src with
    | error e => simp [ha] at h
    | ok a =>
      simp only [ha] at h
      cases hr : a.getitem idx with
      | error e => simp [hr] at h
      | ok r =>
        simp only [hr] at h
        exact wfState_put s s' dst r hs (wf_getitem a r idx (hs src a (getSlot_ok s src a ha)) hr) h

/-- **wf_run.** For EVERY list of ops (induction over the list): if every op satisfies its guard in the state it
    is executed in and the history runs to the end, the final state consists of consistent objects. -/
theorem wf_run (ops : List Op) : ∀ (s s' : State), WFState s → GuardedRun s ops → run s ops = .ok s' →
    WFState s' := by
  induction ops with
  | nil =>
    intro s s' hs _ h
    simp only [run] at h
    cases h; exact hs
  | cons op rest ih =>
    intro s s' hs hg h
    obtain ⟨hg1, hg2⟩ := hg
    simp only [run] at h
    cases hstep : step s op with
    | error e => simp [hstep] at h
    | ok s1 =>
      simp only [hstep] at h hg2
      exact ih s1 s' (wf_step s s1 op hs hg1 hstep) hg2 h

theorem guardedRun_take (ops : List Op) : ∀ (s : State) (k : Nat), GuardedRun s ops → GuardedRun s (ops.take k) := by
  induction ops with
  | nil => intro s k h; simpa using h
  | cons op rest ih =>
    intro s k h
    cases k with
    | zero => simp [GuardedRun]
    | succ k =>
      obtain ⟨h1, h2⟩ := h
      simp only [List.take_succ_cons, GuardedRun]
      refine ⟨h1, ?_⟩
      cases hstep : step s op with
      | error e => trivial
      | ok s1 =>
        simp only [hstep] at h2 ⊢
        exact ih s1 k h2

/-- **wf_run_prefix.** …and so is every intermediate state: the invariant holds after every step of the history. -/
theorem wf_run_prefix (ops : List Op) (s s' : State) (k : Nat) (hs : WFState s) (hg : GuardedRun s ops)
    (h : run s (ops.take k) = .ok s') : WFState s' :=
  wf_run (ops.take k) s s' hs (guardedRun_take ops s k hg) h

/-- the empty state is consistent -/
theorem wfState_init : WFState State.init := by
  intro i a h
  simp [State.init, List.getElem?_replicate] at h

/-- every per-step result the driver prints (`trace`) is a state of consistent objects -/
theorem wf_trace (ops : List Op) : ∀ (s : State), WFState s → GuardedRun s ops →
    ∀ s', some (.ok s') ∈ trace s ops → WFState s' := by
  induction ops with
  | nil => intro s _ _ s' h; simp [trace] at h
  | cons op rest ih =>
    intro s hs hg s' h
    obtain ⟨hg1, hg2⟩ := hg
    simp only [trace] at h
    cases hstep : step s op with
    | error e =>
      simp only [hstep] at h
      rcases List.mem_cons.mp h with h | h
      · cases h
      · simp at h
    | ok s1 =>
      simp only [hstep] at h hg2
      have hw1 := wf_step s s1 op hs hg1 hstep
      rcases List.mem_cons.mp h with h | h
      · cases h; exact hw1
      · exact ih s1 hw1 hg2 s' h

/-! ### non-vacuity: concrete histories that satisfy every guard, run to the end, and hit the special cases -/

/-- three atoms, two bonds of two types with a coefficient table, pair coefficients, labels ≠ elements -/
def exA : Atoms :=
  { Atoms.empty with
    atoms := [⟨0, ⟨0, 0, 0⟩, 1, 0, []⟩, ⟨1, ⟨1, 0, 0⟩, 2, 1, []⟩, ⟨1, ⟨2, 0, 0⟩, 3, 0, []⟩]
    bonds := ⟨[⟨[0, 1], 0, ["b1"]⟩, ⟨[1, 2], 1, ["b2"]⟩], ["kA0", "kA1"], ["_tag"]⟩
    typeElems := ["C", "H"], typeLabels := ["C_1", "H_2"], typeMasses := [12, 1]
    pairCoeffs := ["pC", "pH"]
    cell := some ⟨⟨10, 0, 0⟩, ⟨0, 10, 0⟩, ⟨0, 0, 10⟩⟩ }

/-- a typed fragment: two atoms, one bond with its own table -/
def exB : Atoms :=
  { Atoms.empty with
    atoms := [⟨0, ⟨5, 0, 0⟩, 4, 0, []⟩, ⟨0, ⟨6, 0, 0⟩, 5, 0, []⟩]
    bonds := ⟨[⟨[0, 1], 0, ["b3"]⟩], ["kB0"], ["_tag"]⟩
    typeElems := ["O"], typeLabels := ["O_1"], typeMasses := [16]
    pairCoeffs := ["pO"] }

/-- empty the bond kind (delete the middle atom: both bonds go, the table stays), then extend with a typed
    fragment; then delete ALL atoms and extend again; then replicate, take a subset, pop -/
def exHistory : List Op :=
  [.construct 0 exA, .construct 1 exB, .delete 0 [1], .extend 0 1 none [(0, 1)],
   .copy 0 2, .delete 2 [0, 1, 2], .extend 2 1 none [], .replicate 0 3 2 1 1, .getitem 3 3 [0, 3], .pop 0 (-1)]

example : WF exA ∧ WF exB ∧ Compat exA exB := by decide

example : GuardedRun State.init exHistory := by decide

example : ∃ s', run State.init exHistory = .ok s' ∧ WFState s' := by
  have hok : (match run State.init exHistory with | .ok _ => true | .error _ => false) = true := by decide
  cases h : run State.init exHistory with
  | error e => rw [h] at hok; cases hok
  | ok s' => exact ⟨s', rfl, wf_run exHistory _ s' wfState_init (by decide) h⟩

/-- in that history, after the bond kind was emptied the fragment's bond type 0 became 2 (offset = table length,
    not 0) and resolves to the fragment's own coefficient -/
example : ∃ s a, run State.init (exHistory.take 4) = .ok s ∧ s[0]? = some (some a)
    ∧ a.bonds.terms.map (·.ty) = [2] ∧ a.bonds.coeffs[2]? = some "kB0"
    ∧ a.atoms.map (·.ty) = [0, 2, 2] ∧ a.typeLabels[2]? = some "O_1" := by
  refine ⟨_, _, rfl, rfl, ?_, ?_, ?_, ?_⟩ <;> decide

/-- an incompatible extend (self has bonds without a table, the other has a table) is outside the guard -/
example : ¬ Compat { exA with bonds := { exA.bonds with coeffs := [] } } exB := by decide

end Mofun.Hist
