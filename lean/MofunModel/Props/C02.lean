/-
  C02 — every occurrence of the pattern is found exactly once, also across periodic boundaries.

  Model: `Model/Find.lean` (`find`, `findGroups`, `candidates`, `groupBy`, …) — the search of
  mofun/mofun.py:find_pattern_in_structure with the rotation as an ORACLE and `random.choice` as a CHOOSER.
  Spec:  `Model/Occ.lean` (`DistOccurrence`, `occKey`).

  Proved at FULL strength (every input, every oracle, every chooser):
    * `groupBy_keys_distinct`, `find_keys_nodup` — each atom group is reported at most once;
    * `extend_complete`                            — the incremental enumeration misses no tuple that passes the
                                                     code's own element / window / distance tests;
    * `near_window_complete_ortho`, `near_window_complete_tri` — both branches of the near window: 27 images
                                                     suffice, box test / three plane-distance tests and the cubic
                                                     neighbourhood never drop an atom within the search length;
    * `occurrence_in_candidate_group`              — the tuple of every occurrence is a member of the candidate
                                                     group with key `sort g` — no hypothesis on the oracle;
    * `rigid_occurrence_meets_distance_test`       — an ε-rigid copy (2ε ≤ atol) meets the pairwise distance test.
  PARTIAL:
    * `find_complete_partial` — … and is reported, UNDER `OracleAligns` (the quaternion the code builds for that
      tuple with arccos/sin/cos passes the final `np.allclose`): floating-point numerics of the trig helpers,
      validated by the correspondence run, not provable about doubles.
  NOT proved (stretch, see theorems/C02.json): `OracleAligns` itself, the count corollary.
-/
import MofunModel.Proofs.FindCompleteMain
import MofunModel.Proofs.FindCompleteTri
import MofunModel.Proofs.OccRigid
import MofunModel.Proofs.OccFind

namespace Mofun

/-! ## uniqueness: each atom group at most once -/

/-- `group_duplicates`: the keys of the groups are pairwise distinct (any key function, any list) -/
theorem groupBy_keys_distinct {κ α} [DecidableEq κ] (key : α → κ) (l : List α) :
    ((groupBy key l).map (·.1)).Nodup :=
  groupBy_keys_nodup key l

/-- **find_keys_nodup.** The sorted-`idx % N` keys of the reported matches are pairwise distinct: whatever the
    rotation oracle and the random choice do, no atom group is reported twice. -/
theorem find_keys_nodup (inp : FindInput) (ax1 : Nat) (oracle : Nat → Nat → Quat) (choose : Nat → List Nat → Nat) :
    ((find inp ax1 oracle choose).map Match.key).Nodup := by
  rw [find_keys_eq]
  exact nodup_filterMap_key _ _ _ (findGroups_keys_nodup inp ax1 oracle)

/-- exactly one report for each candidate group that has a tuple passing the rotation check, none for the others -/
theorem find_reports_good_groups (inp : FindInput) (ax1 : Nat) (oracle : Nat → Nat → Quat)
    (choose : Nat → List Nat → Nat) :
    (find inp ax1 oracle choose).map Match.key
      = (findGroups inp ax1 oracle).2.filterMap (fun g => if g.good.isEmpty then none else some g.key) :=
  find_keys_eq inp ax1 oracle choose

/-! ## completeness of the enumeration -/

/-- **extend_complete.** A tuple `t` of positions in the near list is among the candidates whenever its first
    entry is a home-image atom of the first pattern element, and every later entry is a near atom of the right
    element inside the start atom's cubic window that reproduces ALL distances to the earlier entries within the
    code's `math.isclose(…, abs_tol=atol)`, and no two entries are (images of) the same unit-cell atom
    (`nearUcL` = `near_indices[·] % len(structure)`; the extension loop skips such a candidate). -/
theorem extend_complete (pp : List Vec3) (pelems : List String) (atol m : Rat) (nStruct : Nat)
    (nearPosL : List Vec3) (nearElemL : List String) (nearUcL : List Nat) (t : List Nat)
    (hpos : 0 < pp.length) (hlen : t.length = pp.length)
    (hstart : t.getD 0 0 < min nStruct nearElemL.length)
    (hel0 : nearElemL.getD (t.getD 0 0) "" = pelems.getD 0 "")
    (hin : ∀ i, 1 ≤ i → i < t.length → t.getD i 0 < nearPosL.length)
    (hcube : ∀ i, 1 ≤ i → i < t.length →
      inCube (nearPosL.getD (t.getD 0 0) Vec3.zero) (nearPosL.getD (t.getD i 0) Vec3.zero) m atol = true)
    (helem : ∀ i, 1 ≤ i → i < t.length → nearElemL.getD (t.getD i 0) "" = pelems.getD i "")
    (hdist : ∀ i j, j < i → i < t.length →
      iscloseSqrt (distSq (pp.getD i Vec3.zero) (pp.getD j Vec3.zero))
        (distSq (nearPosL.getD (t.getD j 0) Vec3.zero) (nearPosL.getD (t.getD i 0) Vec3.zero)) atol = true)
    (hdistinct : ∀ i j, j < i → i < t.length → nearUcL.getD (t.getD j 0) 0 ≠ nearUcL.getD (t.getD i 0) 0) :
    t ∈ candidates pp pelems atol m nStruct nearPosL nearElemL nearUcL :=
  candidates_complete pp pelems atol m nStruct nearPosL nearElemL nearUcL t hpos hlen hstart hel0 hin hcube helem hdist
    hdistinct

/-! ## the orthorhombic window -/

/-- **near_window_complete (orthorhombic branch).** Guards `orthoGuards` (decidable): orthorhombic cell, `atol ≥ 0`,
    atoms inside the cell, `√m + 2·atol ≤` every cell edge, `√m ≤ 10⁹·atol`.  Let `x` be a home-cell atom and `y`
    the image `n ∈ ℤ³` of atom `g`, with `‖y − x‖` accepted by the code's distance test against a pattern distance
    `p ≤ m` (hence `‖y − x‖ ≤ √m + 2·atol`).  Then (i) `n` is one of the 27 images generated, (ii) `y` passes the
    box test `−D ≤ y_c < D + a_c`, (iii) `y` lies in the cubic neighbourhood `|y_c − x_c| ≤ D` of `x`. -/
theorem near_window_complete_ortho (inp : FindInput) (hG : orthoGuards inp = true) (x : Vec3) (hx : x ∈ inp.pos)
    (g : Nat) (hg : g < inp.pos.length) (n : Int × Int × Int) (p : Rat) (hp : 0 ≤ p) (hpm : p ≤ patMax inp)
    (h : iscloseSqrt p (distSq x (imagePos inp g n)) inp.atol = true) :
    n ∈ searchMultipliers ∧
    nearOrtho inp.cell (patMax inp) inp.atol (imagePos inp g n) = true ∧
    inCube x (imagePos inp g n) (patMax inp) inp.atol = true :=
  window_complete_ortho inp (orthoGuards_spec inp hG) x ((orthoGuards_spec inp hG).inside x hx) g hg n p hp hpm h

/-- **near_window_complete (triclinic branch).** Guards `triGuards` (decidable): non-orthorhombic cell of non-zero
    volume, `atol ≥ 0`, atoms with fractional coordinates in `[0,1)` (written without division: `0 ≤ sgn(W)·(nv·x) <
    |W|` for the three normals `nv = A×B, A×C, B×C`, `W = o·nv = ±` cell volume), `‖nv‖·(√m + 2·atol) ≤ |W|` (search
    length ≤ perpendicular width), `√m ≤ 10⁹·atol`.  Same three conclusions, with the code's three plane-distance
    tests `−w_k − D ≤ s_k·(n_k·y)/‖n_k‖ ≤ D` (model: `nearTri`) in place of the box test. -/
theorem near_window_complete_tri (inp : FindInput) (hG : triGuards inp = true) (x : Vec3) (hx : x ∈ inp.pos)
    (g : Nat) (hg : g < inp.pos.length) (n : Int × Int × Int) (p : Rat) (hp : 0 ≤ p) (hpm : p ≤ patMax inp)
    (h : iscloseSqrt p (distSq x (imagePos inp g n)) inp.atol = true) :
    n ∈ searchMultipliers ∧
    nearTri inp.cell (patMax inp) inp.atol (imagePos inp g n) = true ∧
    inCube x (imagePos inp g n) (patMax inp) inp.atol = true :=
  window_complete_tri inp (triGuards_spec inp hG) x ((triGuards_spec inp hG).inside x hx) g hg n p hp hpm h

/-- the square-root-free comparison is what it claims to be: if `iscloseSqrt p d atol` holds with `p ≤ m`, every
    component `Δ` of a vector of squared length `d` satisfies `Δ ≤ √m + 2·atol` (as `leSqrt (Δ − 2·atol) m`) -/
theorem component_within_search_length (p d atol m Δ : Rat) (h : iscloseSqrt p d atol = true) (hp : 0 ≤ p)
    (hd : 0 ≤ d) (hpm : p ≤ m) (hat : 0 ≤ atol) (hguard : m ≤ atol * atol * 1000000000000000000)
    (hΔ : Δ * Δ ≤ d) : leSqrt (Δ - 2 * atol) m = true :=
  comp_bound p d atol m Δ h hp hd hpm hat hguard hΔ

/-! ## completeness of the search (orthorhombic and triclinic cells) -/

/-- for every occurrence (atoms `g k`, integer image vectors `n k`, first atom in the home image, right elements,
    all pairwise image distances accepted by the code's distance test) the tuple of its images is a member of the
    candidate group whose key is `sort g` — for every oracle (none is involved up to this point) -/
theorem occurrence_in_candidate_group (inp : FindInput) (ax1 : Nat) (oracle : Nat → Nat → Quat)
    (hG : searchGuards inp = true) (g : Nat → Nat) (n : Nat → Int × Int × Int) (hocc : DistOccurrence inp g n) :
    ∃ grp ∈ (findGroups inp ax1 oracle).2, grp.key = occKey inp.ppos.length g ∧ occTuple inp g n ∈ grp.tuples := by
  rcases occ_in_group inp (windowComplete_of_guards inp hG) g n hocc with ⟨p, hp, hpk, hpm⟩
  rcases List.getElem_of_mem hp with ⟨gi, hgi, hgp⟩
  refine ⟨mkGroup inp ax1 oracle (p, gi), ?_, hpk, hpm⟩
  rw [findGroups_eq]
  apply List.mem_map.mpr
  refine ⟨(p, gi), ?_, rfl⟩
  rw [List.mem_zipIdx_iff_getElem?]
  simp [List.getElem?_eq_getElem hgi, hgp]

/-
  FULL statement (not proved): for every RigidOccurrence inp ε² g n with 2ε ≤ atol (Model/Occ.lean) and the guards,
      occKey |P| g ∈ (find inp ax1 oracle choose).map Match.key
  for the oracle that the code implements.  Missing: (a) `OracleAligns` for the code's trigonometric construction
  (float numerics), (the triclinic window IS covered).
-/
/-- **find_complete_partial** (orthorhombic or triclinic; under `OracleAligns`). Every occurrence is reported: some reported
    match has key `sort g`. -/
theorem find_complete_partial (inp : FindInput) (ax1 : Nat) (oracle : Nat → Nat → Quat)
    (choose : Nat → List Nat → Nat) (hG : searchGuards inp = true) (g : Nat → Nat) (n : Nat → Int × Int × Int)
    (hocc : DistOccurrence inp g n) (hor : OracleAligns inp ax1 oracle (occTuple inp g n)) :
    ∃ m ∈ find inp ax1 oracle choose, m.key = occKey inp.ppos.length g := by
  have := find_complete_of_aligned inp ax1 oracle choose (windowComplete_of_guards inp hG) g n hocc hor
  rcases List.mem_map.mp this with ⟨m, hm, hk⟩
  exact ⟨m, hm, hk⟩

/-- **rigid copy ⟹ distance test.** A copy in the sense of the property — a proper rotation `R` (`RᵀR = 1`,
    `det R = 1`) and a translation carry every pattern atom to within `ε` of its structure atom image, `2ε ≤ atol`
    (squared: `4·ε² ≤ atol²`) — satisfies the pairwise distance test of the search.  Fully rational proof
    (Lagrange identity), for every cell. -/
theorem rigid_occurrence_meets_distance_test (inp : FindInput) (epsSq : Rat) (h4 : 4 * epsSq ≤ inp.atol * inp.atol)
    (g : Nat → Nat) (n : Nat → Int × Int × Int) (h : RigidOccurrence inp epsSq g n)
    (hinj : ∀ i j, j < i → i < inp.ppos.length → g j ≠ g i) : DistOccurrence inp g n :=
  rigid_implies_dist inp epsSq h4 g n h hinj

/-- **find_complete_rigid_partial** (orthorhombic or triclinic; under `OracleAligns`): every rotated + translated copy of the
    pattern with each atom within `ε ≤ atol/2`, inside the cell or straddling faces, edges or corners, is reported.
    `hdistinct`: copies consist of pairwise different atoms (on the property's domain a theorem: `occ_atoms_distinct`). -/
theorem find_complete_rigid_partial (inp : FindInput) (ax1 : Nat) (oracle : Nat → Nat → Quat)
    (choose : Nat → List Nat → Nat) (hG : searchGuards inp = true) (epsSq : Rat)
    (h4 : 4 * epsSq ≤ inp.atol * inp.atol) (key : List Nat) (hocc : Occ inp epsSq key)
    (hdistinct : ∀ g n, RigidOccurrence inp epsSq g n → ∀ i j, j < i → i < inp.ppos.length → g j ≠ g i)
    (hor : ∀ g n, RigidOccurrence inp epsSq g n → OracleAligns inp ax1 oracle (occTuple inp g n)) :
    key ∈ (find inp ax1 oracle choose).map Match.key := by
  rcases hocc with ⟨g, n, hr, hk⟩
  rw [hk]
  exact find_complete_of_aligned inp ax1 oracle choose (windowComplete_of_guards inp hG) g n
    (rigid_implies_dist inp epsSq h4 g n hr (hdistinct g n hr)) (hor g n hr)

/-- **count corollary (partial).** Let `ks` list the distinct occurrence keys of the input.  If every listed
    occurrence is reported (completeness: `find_complete_partial` under `OracleAligns`) and every reported key is a
    listed occurrence (soundness: property C01), the NUMBER of matches equals the number of distinct occurrences —
    because no key is reported twice (`find_keys_nodup`).  Both hypotheses are explicit; what is proved here is the
    bookkeeping "at most once + sound + complete ⟹ count equal". -/
theorem find_count_eq_partial (inp : FindInput) (ax1 : Nat) (oracle : Nat → Nat → Quat)
    (choose : Nat → List Nat → Nat) (ks : List (List Nat)) (hnd : ks.Nodup)
    (hcomplete : ∀ k ∈ ks, k ∈ (find inp ax1 oracle choose).map Match.key)
    (hsound : ∀ k ∈ (find inp ax1 oracle choose).map Match.key, k ∈ ks) :
    (find inp ax1 oracle choose).length = ks.length := by
  have hperm : ((find inp ax1 oracle choose).map Match.key).Perm ks :=
    (List.perm_ext_iff_of_nodup (find_keys_nodup inp ax1 oracle choose) hnd).mpr
      (fun a => ⟨hsound a, hcomplete a⟩)
  have := hperm.length_eq
  simpa using this

/-- **find_count_eq_good_groups** (unconditional form of the count statement): the number of reported matches
    equals the number of candidate groups with at least one tuple passing `goodCheck` — for every oracle and every
    chooser, no hypothesis.  (Together with `find_keys_nodup` and `occurrence_in_candidate_group`: the count can only
    deviate from the number of occurrences through the rotation re-check.) -/
theorem find_count_eq_good_groups (inp : FindInput) (ax1 : Nat) (oracle : Nat → Nat → Quat)
    (choose : Nat → List Nat → Nat) :
    (find inp ax1 oracle choose).length
      = ((findGroups inp ax1 oracle).2.filter (fun g => !g.good.isEmpty)).length :=
  find_length_eq_good_groups inp ax1 oracle choose

/-! ## non-vacuity: a concrete structure satisfying all guards, with a copy that straddles a cell face -/

/-- 10 Å cubic cell; C at x = 0.25 and O at x = 9.0 form a C–O pair (1.25 Å) ACROSS the face x = 0; a lone C -/
def c02Example : FindInput :=
  { elems := ["C", "O", "C"], pos := [⟨1/4, 5, 5⟩, ⟨9, 5, 5⟩, ⟨5, 5, 1⟩],
    cell := ⟨⟨10, 0, 0⟩, ⟨0, 10, 0⟩, ⟨0, 0, 10⟩⟩,
    pelems := ["C", "O"], ppos := [⟨0, 0, 0⟩, ⟨5/4, 0, 0⟩], atol := 1/20 }

def c02ExampleG : Nat → Nat := fun k => k
def c02ExampleN : Nat → Int × Int × Int := fun k => if k = 1 then (-1, 0, 0) else (0, 0, 0)

example : orthoGuards c02Example = true := by decide +kernel
example : searchGuards c02Example = true := by decide +kernel

example : DistOccurrence c02Example c02ExampleG c02ExampleN where
  inj := by
    intro i j hji _ h
    have : j = i := h
    omega
  idx_lt := by
    intro k hk
    have : k < 2 := hk
    show k < 3
    omega
  home := rfl
  elem := by
    intro k hk
    have hk2 : k < 2 := hk
    have : k = 0 ∨ k = 1 := by omega
    rcases this with rfl | rfl <;> rfl
  dist := by
    intro i j hji hi
    have hi2 : i < 2 := hi
    have h1 : i = 1 := by omega
    have h0 : j = 0 := by omega
    subst h1; subst h0
    decide +kernel

/-- the half turn about z carries the pattern axis +x onto the copy's axis −x: the oracle hypothesis is satisfiable
    and the copy across the face is reported (and the lone C is not) -/
example : (find c02Example 0 (fun _ _ => ⟨0, 0, 1, 0⟩) (fun _ _ => 0)).map Match.key = [[0, 1]] := by
  decide +kernel

example : occKey c02Example.ppos.length c02ExampleG = [0, 1] := by decide +kernel

/-- a TRICLINIC cell (A = (10,0,0), B = (2,9,0), C = (1,−3,8)); the O sits in the neighbouring cell image (−1,0,0) -/
def c02Tri : FindInput :=
  { elems := ["C", "O"], pos := [⟨17/10, 3, 4⟩, ⟨209/20, 3, 4⟩],
    cell := ⟨⟨10, 0, 0⟩, ⟨2, 9, 0⟩, ⟨1, -3, 8⟩⟩,
    pelems := ["C", "O"], ppos := [⟨0, 0, 0⟩, ⟨5/4, 0, 0⟩], atol := 1/20 }

example : triGuards c02Tri = true := by decide +kernel
example : searchGuards c02Tri = true := by decide +kernel

example : DistOccurrence c02Tri c02ExampleG c02ExampleN where
  inj := by
    intro i j hji _ h
    have : j = i := h
    omega
  idx_lt := fun k hk => hk
  home := rfl
  elem := by
    intro k hk
    have hk2 : k < 2 := hk
    have : k = 0 ∨ k = 1 := by omega
    rcases this with rfl | rfl <;> rfl
  dist := by
    intro i j hji hi
    have hi2 : i < 2 := hi
    have h1 : i = 1 := by omega
    have h0 : j = 0 := by omega
    subst h1; subst h0
    decide +kernel

example : (find c02Tri 0 (fun _ _ => ⟨0, 0, 1, 0⟩) (fun _ _ => 0)).map Match.key = [[0, 1]] := by decide +kernel

/-- non-vacuity of `extend_complete` / `find_keys_nodup` on a symmetric pattern: both orderings of an O…O pair are
    candidates, they fall into ONE group, one match is reported -/
def c02Sym : FindInput :=
  { elems := ["O", "O"], pos := [⟨1, 1, 1⟩, ⟨5/2, 1, 1⟩], cell := ⟨⟨8, 0, 0⟩, ⟨0, 8, 0⟩, ⟨0, 0, 8⟩⟩,
    pelems := ["O", "O"], ppos := [⟨0, 0, 0⟩, ⟨3/2, 0, 0⟩], atol := 1/20 }

example : (findGroups c02Sym 0 (fun _ i => if i = 0 then ⟨0, 0, 0, 1⟩ else ⟨0, 0, 1, 0⟩)).2
    = [{ key := [0, 1], tuples := [[0, 1], [1, 0]], good := [0, 1] }] := by decide +kernel

example : ((find c02Sym 0 (fun _ i => if i = 0 then ⟨0, 0, 0, 1⟩ else ⟨0, 0, 1, 0⟩) (fun _ _ => 1)).map Match.key)
    = [[0, 1]] := by decide +kernel

end Mofun
