/-
  C19Code8.lean — translator batch 8 (harness/gen_code6.py, Generated/Code6.lean), owner C19:

  * `calc_dihedrals` (mofun/rough_uff.py), re-translated from the python source text on every run (`Code6.calcDihedrals`:
    the loop over `g.edges`, `list(g.adj[a])`, `.remove(b)`, the two-generator comprehension `(a1, a, b, b1)`), IS the
    model's `Terms.calcDihedrals` (Model/Terms.lean) for ALL bond lists: it never raises (the `ValueError` of
    `list.remove` cannot happen: both end points of a graph edge are in each other's neighbour list) and yields the same
    dihedrals in the same order.
-/
import MofunModel.Props.C19Code6
import MofunModel.Proofs.TermsLemmas
import MofunModel.Props.C19Code

namespace Mofun.C19Code8
open Mofun Mofun.Generated Mofun.Code2Terms Mofun.C19Code6
set_option linter.unusedSimpArgs false

/-! ### `g.edges` -/

theorem nxEdgesFrom_eq (bonds : List (Nat × Nat)) (ns seen : List Nat) :
    Py6.nxEdgesFrom (Py6.nxAddEdges Py6.nxEmpty bonds) ns seen = Terms.edgesFrom (Terms.neighbours bonds) ns seen := by
  induction ns generalizing seen with
  | nil => rfl
  | cons n rest ih => simp only [Py6.nxEdgesFrom, Terms.edgesFrom, nxNeighbors_eq, ih]

/-- the prelude's `g.edges` of the graph of a bond list is the model's `graphEdges` -/
theorem nxEdges_eq (bonds : List (Nat × Nat)) : Py6.nxEdges (Py6.nxAddEdges Py6.nxEmpty bonds) = Terms.graphEdges bonds := by
  simp only [Py6.nxEdges, Terms.graphEdges, nxEdgesFrom_eq, nxNodes_eq]

/-- `xs.remove(v)` for a member `v` is the model's `List.erase` -/
theorem listRemove_of_mem {α} [DecidableEq α] (xs : List α) (v : α) (h : v ∈ xs) : Py6.listRemove? xs v = some (xs.erase v) := by
  simp [Py6.listRemove?, h]

/-- a fold whose body never raises on the members of the list is the pure fold -/
theorem forFoldM_eq_foldl {α σ} (xs : List α) (f : σ → α → Option σ) (g : σ → α → σ) (st : σ)
    (h : ∀ x ∈ xs, ∀ s, f s x = some (g s x)) : Py.forFoldM? xs st f = some (xs.foldl g st) := by
  induction xs generalizing st with
  | nil => rfl
  | cons x xs ih =>
    simp only [Py.forFoldM?, h x List.mem_cons_self st, List.foldl_cons]
    exact ih _ (fun y hy => h y (List.mem_cons_of_mem _ hy))

private theorem foldl_append_flatMap {α β} (f : α → List β) (xs : List α) (acc : List β) :
    xs.foldl (fun acc x => acc ++ f x) acc = acc ++ xs.flatMap f := by
  induction xs generalizing acc with
  | nil => simp
  | cons x xs ih => simp [List.foldl_cons, ih, List.flatMap_cons, List.append_assoc]

/-- **calcDihedrals_eq** — for ALL bond lists (repeated bonds, both directions, self-loops included): no exception, the
    same dihedrals in the same order -/
theorem calcDihedrals_eq (bonds : List (Nat × Nat)) : Code6.calcDihedrals bonds = some (Terms.calcDihedrals bonds) := by
  unfold Code6.calcDihedrals
  simp only [nxEdges_eq, nxNeighbors_eq]
  rw [forFoldM_eq_foldl (Terms.graphEdges bonds) _ (fun acc e => acc ++ Terms.dihedralsAt bonds e)]
  · rw [foldl_append_flatMap]
    simp [Terms.calcDihedrals]
  · rintro ⟨a, b⟩ he acc
    have hb : Terms.Bonded bonds a b := Terms.graphEdges_sound bonds a b he
    have h1 : b ∈ Terms.neighbours bonds a := (Terms.mem_neighbours bonds a b).mpr hb
    have h2 : a ∈ Terms.neighbours bonds b := (Terms.mem_neighbours bonds b a).mpr hb.symm
    simp [listRemove_of_mem _ _ h1, listRemove_of_mem _ _ h2, Terms.dihedralsAt, List.flatMap]

/-! ### concrete runs; the same examples are asserted against the installed networkx by tools/gen_code6_selftest.py -/

/-- bonds 2–1, 1–3, 1–0, 3–4 (listed in this order) -/
example : Py6.nxEdges (Py6.nxAddEdges Py6.nxEmpty [(2, 1), (1, 3), (1, 0), (3, 4)]) = [(2, 1), (1, 3), (1, 0), (3, 4)] := by decide
/-- a bond listed from its later-seen end is reported from the node that comes first in `g.nodes` -/
example : Py6.nxEdges (Py6.nxAddEdges Py6.nxEmpty [(0, 1), (2, 3), (3, 1), (2, 0)]) = [(0, 1), (0, 2), (1, 3), (2, 3)] := by decide
/-- a self-loop is reported once; repeated bonds once -/
example : Py6.nxEdges (Py6.nxAddEdges Py6.nxEmpty [(2, 1), (1, 2), (1, 1), (2, 1)]) = [(2, 1), (1, 1)] := by decide
example : Py6.listRemove? [2, 3, 2, 0] 2 = some [3, 2, 0] := by decide
example : Py6.listRemove? [2, 3, 0] 5 = none := by decide
example : Code6.calcDihedrals [(2, 1), (1, 3), (1, 0), (3, 4)] = some [[2, 1, 3, 4], [0, 1, 3, 4]] := by decide
example : Code6.calcDihedrals [(0, 1), (1, 2), (2, 3), (3, 0)] =
    some [[3, 0, 1, 2], [1, 0, 3, 2], [0, 1, 2, 3], [1, 2, 3, 0]] := by decide

end Mofun.C19Code8

/-! ## item 2: the type-numbering slice of `assign_bond_types` / `assign_angle_types` -/

namespace Mofun.C19Code8
open Mofun Mofun.Generated Mofun.Code2Terms

theorem listMapM_eq_map {α β} (f : α → Option β) (g : α → β) (xs : List α) (h : ∀ x ∈ xs, f x = some (g x)) :
    Py.listMapM? xs f = some (xs.map g) := by
  induction xs with
  | nil => rfl
  | cons x xs ih =>
    simp only [Py.listMapM?, h x List.mem_cons_self, ih (fun y hy => h y (List.mem_cons_of_mem _ hy)), List.map_cons]

/-- every atom of every term has a UFF type (else `uff_atom_types[a]` raises IndexError) -/
def InRange (uff : List String) (ts : List (List Nat)) : Prop := ∀ t ∈ ts, ∀ a ∈ t, a < uff.length

/-- the keys, the first-seen unique list and the positions, for a term list whose atoms all have a type -/
theorem numbering_eq (uff : List String) (ts : List (List Nat)) (h : InRange uff ts) :
    (do let t3 ← Py.listMapM? ts (fun atup => (do let t2 ← (Py.listMapM? atup (fun a => (do let t1 ← (uff[a]?); pure t1))); pure (Code.typekey t2)))
        let t5 ← Py.listMapM? t3 (fun bt => (do let t4 ← (Py6.listIndex? (Py6.fromkeysList t3) bt); pure t4))
        pure (ts, t5)) =
      some (ts, (ts.map (Terms.seqKey (Terms.uffFn uff))).map (Terms.typeIndex (dedup (ts.map (Terms.seqKey (Terms.uffFn uff)))))) := by
  have h1 : Py.listMapM? ts (fun atup => (do let t2 ← (Py.listMapM? atup (fun a => (do let t1 ← (uff[a]?); pure t1))); pure (Code.typekey t2))) =
      some (ts.map (Terms.seqKey (Terms.uffFn uff))) := by
    apply listMapM_eq_map
    intro t ht
    have h2 : Py.listMapM? t (fun a => (do let t1 ← (uff[a]?); pure t1)) = some (t.map (Terms.uffFn uff)) := by
      apply listMapM_eq_map
      intro a ha
      have := h t ht a ha
      simp [Terms.uffFn, List.getElem?_eq_getElem this]
    rw [h2]
    simp [Terms.seqKey, C19Code.typekey_eq_str]
  rw [h1]
  simp only [Option.bind_eq_bind, Option.bind_some]
  have h3 : Py.listMapM? (ts.map (Terms.seqKey (Terms.uffFn uff)))
      (fun bt => (do let t4 ← (Py6.listIndex? (Py6.fromkeysList (ts.map (Terms.seqKey (Terms.uffFn uff)))) bt); pure t4)) =
      some ((ts.map (Terms.seqKey (Terms.uffFn uff))).map (Terms.typeIndex (dedup (ts.map (Terms.seqKey (Terms.uffFn uff)))))) := by
    apply listMapM_eq_map
    intro k hk
    obtain ⟨i, hi, _⟩ := Terms.indexOf?_of_mem (dedup (ts.map (Terms.seqKey (Terms.uffFn uff)))) k ((Terms.mem_dedup _ _).mpr hk)
    simp [Py6.listIndex?, Py6.fromkeysList, Terms.typeIndex, hi]
  rw [h3]
  rfl

theorem inRange_filter (uff : List String) (ts : List (List Nat)) (p : List Nat → Bool) (h : InRange uff ts) : InRange uff (ts.filter p) :=
  fun t ht => h t (List.mem_filter.mp ht).1

/-- **assignBondTypeIds_eq** — the slice of `assign_bond_types` regenerated from the source IS the model's `assignSimple 2`
    (exclusion guard `len(exclude) >= 2`, keys, first-seen numbering) for every UFF type list, every `exclude`, every bond list whose
    atoms all have a type; the coefficient function `params` does not enter the slice -/
theorem assignBondTypeIds_eq (uff : List String) (params : List String → String) (excl : Option (List Nat)) (terms : List (List Nat))
    (h : InRange uff terms) :
    Code6.assignBondTypeIds terms uff excl =
      some ((Terms.assignSimple 2 (Terms.uffFn uff) params excl terms).terms, (Terms.assignSimple 2 (Terms.uffFn uff) params excl terms).types) := by
  unfold Code6.assignBondTypeIds Terms.assignSimple Terms.applyExclude
  cases excl with
  | none => exact numbering_eq uff terms h
  | some s =>
    simp only [Py.setLen, C19Code.deleteIfAllInSet_eq]
    split
    · exact numbering_eq uff _ (inRange_filter uff terms _ h)
    · exact numbering_eq uff terms h

/-- **assignAngleTypeIds_eq** — the same for `assign_angle_types` (guard `len(exclude) >= 3`) -/
theorem assignAngleTypeIds_eq (uff : List String) (params : List String → String) (excl : Option (List Nat)) (terms : List (List Nat))
    (h : InRange uff terms) :
    Code6.assignAngleTypeIds terms uff excl =
      some ((Terms.assignSimple 3 (Terms.uffFn uff) params excl terms).terms, (Terms.assignSimple 3 (Terms.uffFn uff) params excl terms).types) := by
  unfold Code6.assignAngleTypeIds Terms.assignSimple Terms.applyExclude
  cases excl with
  | none => exact numbering_eq uff terms h
  | some s =>
    simp only [Py.setLen, C19Code.deleteIfAllInSet_eq]
    split
    · exact numbering_eq uff _ (inRange_filter uff terms _ h)
    · exact numbering_eq uff terms h

example : InRange ["C_3", "O_3", "H_"] [[0, 1], [1, 2], [2, 1], [0, 0]] := by simp [InRange]
example : Code6.assignBondTypeIds [[0, 1], [1, 2], [2, 1], [0, 0]] ["C_3", "O_3", "H_"] (some [1, 2, 2]) = some ([[0, 1], [0, 0]], [0, 1]) := by decide
example : Code6.assignBondTypeIds [[0, 1], [1, 2], [2, 1], [0, 0]] ["C_3", "O_3", "H_"] (some [1, 1]) = some ([[0, 1], [1, 2], [2, 1], [0, 0]], [0, 1, 1, 2]) := by decide
example : Code6.assignBondTypeIds [[0, 3]] ["C_3", "O_3", "H_"] none = none := by decide
example : Py6.fromkeysList [3, 1, 3, 2, 1] = [3, 1, 2] := by decide
example : Py6.listIndex? [3, 1, 2] 2 = some 2 := by decide
example : Py6.listIndex? [3, 1, 2] 5 = none := by decide

end Mofun.C19Code8
