/-
  C19Code8.lean — translator batch 8 (harness/gen_code6.py, Generated/Code6.lean), owner C19:

  * `calc_dihedrals` (mofun/rough_uff.py), re-translated from the python source text on every run (`Code6.calcDihedrals`:
    the loop over `g.edges`, `list(g.adj[a])`, `.remove(b)`, the two-generator comprehension `(a1, a, b, b1)`), IS the
    model's `Terms.calcDihedrals` (Model/Terms.lean) for ALL bond lists: it never raises (the `ValueError` of
    `list.remove` cannot happen: both end points of a graph edge are in each other's neighbour list) and yields the same
    dihedrals in the same order.
-/
import MofunModel.Props.C19Code6
import MofunModel.Proofs.TermsLemmas

namespace Mofun.C19Code8
open Mofun Mofun.Generated Mofun.Code2Terms Mofun.C19Code6
set_option linter.unusedSimpArgs false

/-! ### `g.edges` -/

theorem nxEdgesFrom_eq (bonds : List (Nat × Nat)) (ns seen : List Nat) :
    Py6.nxEdgesFrom (Py6.nxAddEdges Py6.nxEmpty bonds) ns seen = Terms.edgesFrom (Terms.neighbours bonds) ns seen := by
  induction ns generalizing seen with
  | nil => rfl
  | cons n rest ih => simp only [Py6.nxEdgesFrom, Terms.edgesFrom, nxNeighbors_eq, ih]

/-- the prelude's `g.edges` of the graph of a bond list is the model's `graphEdges` -/
theorem nxEdges_eq (bonds : List (Nat × Nat)) : Py6.nxEdges (Py6.nxAddEdges Py6.nxEmpty bonds) = Terms.graphEdges bonds := by
  simp only [Py6.nxEdges, Terms.graphEdges, nxEdgesFrom_eq, nxNodes_eq]

/-- `xs.remove(v)` for a member `v` is the model's `List.erase` -/
theorem listRemove_of_mem {α} [DecidableEq α] (xs : List α) (v : α) (h : v ∈ xs) : Py6.listRemove? xs v = some (xs.erase v) := by
  simp [Py6.listRemove?, h]

/-- a fold whose body never raises on the members of the list is the pure fold -/
theorem forFoldM_eq_foldl {α σ} (xs : List α) (f : σ → α → Option σ) (g : σ → α → σ) (st : σ)
    (h : ∀ x ∈ xs, ∀ s, f s x = some (g s x)) : Py.forFoldM? xs st f = some (xs.foldl g st) := by
  induction xs generalizing st with
  | nil => rfl
  | cons x xs ih =>
    simp only [Py.forFoldM?, h x List.mem_cons_self st, List.foldl_cons]
    exact ih _ (fun y hy => h y (List.mem_cons_of_mem _ hy))

private theorem foldl_append_flatMap {α β} (f : α → List β) (xs : List α) (acc : List β) :
    xs.foldl (fun acc x => acc ++ f x) acc = acc ++ xs.flatMap f := by
  induction xs generalizing acc with
  | nil => simp
  | cons x xs ih => simp [List.foldl_cons, ih, List.flatMap_cons, List.append_assoc]

/-- **calcDihedrals_eq** — for ALL bond lists (repeated bonds, both directions, self-loops included): no exception, the
    same dihedrals in the same order -/
theorem calcDihedrals_eq (bonds : List (Nat × Nat)) : Code6.calcDihedrals bonds = some (Terms.calcDihedrals bonds) := by
  unfold Code6.calcDihedrals
  simp only [nxEdges_eq, nxNeighbors_eq]
  rw [forFoldM_eq_foldl (Terms.graphEdges bonds) _ (fun acc e => acc ++ Terms.dihedralsAt bonds e)]
  · rw [foldl_append_flatMap]
    simp [Terms.calcDihedrals]
  · rintro ⟨a, b⟩ he acc
    have hb : Terms.Bonded bonds a b := Terms.graphEdges_sound bonds a b he
    have h1 : b ∈ Terms.neighbours bonds a := (Terms.mem_neighbours bonds a b).mpr hb
    have h2 : a ∈ Terms.neighbours bonds b := (Terms.mem_neighbours bonds b a).mpr hb.symm
    simp [listRemove_of_mem _ _ h1, listRemove_of_mem _ _ h2, Terms.dihedralsAt, List.flatMap]

/-! ### concrete runs; the same examples are asserted against the installed networkx by tools/gen_code6_selftest.py -/

/-- bonds 2–1, 1–3, 1–0, 3–4 (listed in this order) -/
example : Py6.nxEdges (Py6.nxAddEdges Py6.nxEmpty [(2, 1), (1, 3), (1, 0), (3, 4)]) = [(2, 1), (1, 3), (1, 0), (3, 4)] := by decide
/-- a bond listed from its later-seen end is reported from the node that comes first in `g.nodes` -/
example : Py6.nxEdges (Py6.nxAddEdges Py6.nxEmpty [(0, 1), (2, 3), (3, 1), (2, 0)]) = [(0, 1), (0, 2), (1, 3), (2, 3)] := by decide
/-- a self-loop is reported once; repeated bonds once -/
example : Py6.nxEdges (Py6.nxAddEdges Py6.nxEmpty [(2, 1), (1, 2), (1, 1), (2, 1)]) = [(2, 1), (1, 1)] := by decide
example : Py6.listRemove? [2, 3, 2, 0] 2 = some [3, 2, 0] := by decide
example : Py6.listRemove? [2, 3, 0] 5 = none := by decide
example : Code6.calcDihedrals [(2, 1), (1, 3), (1, 0), (3, 4)] = some [[2, 1, 3, 4], [0, 1, 3, 4]] := by decide
example : Code6.calcDihedrals [(0, 1), (1, 2), (2, 3), (3, 0)] =
    some [[3, 0, 1, 2], [1, 0, 3, 2], [0, 1, 2, 3], [1, 2, 3, 0]] := by decide

end Mofun.C19Code8
