/-
  C19 — term enumeration is complete and term typing depends only on UFF types.
  Property theorems only (helper lemmas: Proofs/TermsLemmas.lean).  Model: Model/Terms.lean
  (`calcAngles`, `calcDihedrals`, `typekey`, `assignSimple`/`assignBonds`/`assignAngles`, `assignDihedrals`, `retype`).

  The coefficient texts are PARAMETERS (`params`, `dparams`): every theorem holds for every parameter function.
  `Bonded bonds a b` = a bond `(a,b)` or `(b,a)` is listed; `NoSelfLoops bonds` = no bond `(a,a)` (both in the lemma file).  `typed r` = the terms of a result paired with their type ids.
-/
import MofunModel.Proofs.TermsLemmas
import MofunModel.Generated.Masses

namespace Mofun.Terms

open Mofun

instance (bonds : List (Nat × Nat)) (a b : Nat) : Decidable (Bonded bonds a b) := by
  unfold Bonded; infer_instance

/-! ## typekey -/

/-- **typekey_spec.** The key is the tuple or its reverse, and two tuples have the same key exactly when they are
    equal up to reversal (UFF type strings; python compares the tuples lexicographically by code point). -/
theorem typekey_spec (t u : List String) :
    (typekey t = t ∨ typekey t = t.reverse) ∧ (typekey t = typekey u ↔ t = u ∨ t = u.reverse) :=
  ⟨typekey_cases t, typekey_eq_iff t u⟩

/-- the same for tuples of atom indices (the central bond of a dihedral) -/
theorem typekey_spec_nat (t u : List Nat) :
    (typekey t = t ∨ typekey t = t.reverse) ∧ (typekey t = typekey u ↔ t = u ∨ t = u.reverse) :=
  ⟨typekey_cases t, typekey_eq_iff t u⟩

example : typekey ["C_R", "C_3"] = ["C_3", "C_R"] ∧ typekey ["C_3", "C_R"] = ["C_3", "C_R"]
    ∧ typekey ["O_3_z", "C_R", "O_3"] = ["O_3", "C_R", "O_3_z"] ∧ typekey [7, 2] = [2, 7] := by decide

/-! ## angles -/

/-- **angles_complete.** For EVERY bond list (any order, direction, duplicates; self-loops allowed): the angle about
    `v` between `a` and `b` is enumerated, in one of its two orientations, exactly when `a ≠ b` are both bonded to `v`. -/
theorem angles_complete (bonds : List (Nat × Nat)) (a v b : Nat) :
    ([a, v, b] ∈ calcAngles bonds ∨ [b, v, a] ∈ calcAngles bonds) ↔
      (a ≠ b ∧ Bonded bonds v a ∧ Bonded bonds v b) := by
  simp only [mem_calcAngles]
  constructor
  · rintro (⟨_, hp⟩ | ⟨_, hp⟩)
    · have hm := mem_of_mem_pairs _ _ _ hp
      exact ⟨(pairs_asymm _ (nodup_neighbours bonds v) _ _ hp).1,
        (mem_neighbours _ _ _).mp hm.1, (mem_neighbours _ _ _).mp hm.2⟩
    · have hm := mem_of_mem_pairs _ _ _ hp
      exact ⟨(pairs_asymm _ (nodup_neighbours bonds v) _ _ hp).1.symm,
        (mem_neighbours _ _ _).mp hm.2, (mem_neighbours _ _ _).mp hm.1⟩
  · rintro ⟨hne, ha, hb⟩
    have hv : v ∈ nodes bonds := (mem_nodes bonds v).mpr ⟨a, ha⟩
    rcases pairs_complete (neighbours bonds v) a b ((mem_neighbours _ _ _).mpr ha)
        ((mem_neighbours _ _ _).mpr hb) hne with h | h
    · exact Or.inl ⟨hv, h⟩
    · exact Or.inr ⟨hv, h⟩

/-- nothing else is enumerated: every enumerated term is such an angle -/
theorem angles_sound (bonds : List (Nat × Nat)) (t : List Nat) (h : t ∈ calcAngles bonds) :
    ∃ a v b, t = [a, v, b] ∧ a ≠ b ∧ Bonded bonds v a ∧ Bonded bonds v b := by
  obtain ⟨a, v, b, rfl⟩ := calcAngles_shape bonds t h
  exact ⟨a, v, b, rfl, (angles_complete bonds a v b).mp (Or.inl h)⟩

/-- **angles_nodup.** No angle is listed twice, and never in both orientations. -/
theorem angles_nodup (bonds : List (Nat × Nat)) :
    (calcAngles bonds).Nodup ∧ ∀ a v b, [a, v, b] ∈ calcAngles bonds → [b, v, a] ∉ calcAngles bonds := by
  refine ⟨nodup_calcAngles bonds, ?_⟩
  intro a v b h1 h2
  exact (pairs_asymm _ (nodup_neighbours bonds v) _ _ ((mem_calcAngles _ _ _ _).mp h1).2).2
    ((mem_calcAngles _ _ _ _).mp h2).2

/-- "exactly once": the two orientations of a genuine angle occur once in total -/
theorem angles_exactly_once (bonds : List (Nat × Nat)) (a v b : Nat)
    (hne : a ≠ b) (ha : Bonded bonds v a) (hb : Bonded bonds v b) :
    (calcAngles bonds).count [a, v, b] + (calcAngles bonds).count [b, v, a] = 1 := by
  have hnd := (angles_nodup bonds).1
  rw [hnd.count, hnd.count]
  rcases (angles_complete bonds a v b).mpr ⟨hne, ha, hb⟩ with h | h
  · simp [h, (angles_nodup bonds).2 a v b h]
  · simp [h, (angles_nodup bonds).2 b v a h]

/-- independence of the listing: two bond lists with the same undirected edge set enumerate the same angles
    (as sets up to reversal) -/
theorem angles_listing_invariant (bonds bonds' : List (Nat × Nat))
    (h : ∀ a b, Bonded bonds a b ↔ Bonded bonds' a b) (a v b : Nat) :
    ([a, v, b] ∈ calcAngles bonds ∨ [b, v, a] ∈ calcAngles bonds) ↔
      ([a, v, b] ∈ calcAngles bonds' ∨ [b, v, a] ∈ calcAngles bonds') := by
  rw [angles_complete, angles_complete, h, h]

example : calcAngles [(3, 1), (1, 2), (2, 4), (1, 3), (5, 1)] = [[3, 1, 2], [3, 1, 5], [2, 1, 5], [1, 2, 4]] := by
  decide

/-! ## dihedrals -/

/-- no three-membered ring: no atom is bonded to both ends of a bond -/
def NoTriangles (bonds : List (Nat × Nat)) : Prop :=
  ∀ e ∈ bonds, ∀ c ∈ nodes bonds, ¬ (Bonded bonds e.1 c ∧ Bonded bonds c e.2)

instance (bonds : List (Nat × Nat)) : Decidable (NoSelfLoops bonds) := by unfold NoSelfLoops; infer_instance
instance (bonds : List (Nat × Nat)) : Decidable (NoTriangles bonds) := by unfold NoTriangles; infer_instance

/-- a bonded chain `i–j–k–l` around the bond `j–k` -/
def IsChain (bonds : List (Nat × Nat)) (i j k l : Nat) : Prop :=
  Bonded bonds i j ∧ Bonded bonds j k ∧ Bonded bonds k l ∧ i ≠ k ∧ j ≠ l

/-- **dihedrals_complete.** For every bond list: the chain `i–j–k–l` is enumerated, in one of its two orientations,
    exactly when it is a bonded chain with `i ≠ k`, `j ≠ l`. -/
theorem dihedrals_complete (bonds : List (Nat × Nat)) (i j k l : Nat) :
    ([i, j, k, l] ∈ calcDihedrals bonds ∨ [l, k, j, i] ∈ calcDihedrals bonds) ↔ IsChain bonds i j k l := by
  simp only [mem_calcDihedrals, IsChain]
  constructor
  · rintro (⟨he, h1, h2, h3, h4⟩ | ⟨he, h1, h2, h3, h4⟩)
    · exact ⟨h1.symm, graphEdges_sound _ _ _ he, h3, h2, h4.symm⟩
    · exact ⟨h3.symm, (graphEdges_sound _ _ _ he).symm, h1, h4, h2.symm⟩
  · rintro ⟨h1, h2, h3, h4, h5⟩
    rcases graphEdges_complete bonds j k h2 with he | he
    · exact Or.inl ⟨he, h1.symm, h4, h3, h5.symm⟩
    · exact Or.inr ⟨he, h3, h5.symm, h1.symm, h4⟩

/-- nothing else is enumerated -/
theorem dihedrals_sound (bonds : List (Nat × Nat)) (t : List Nat) (h : t ∈ calcDihedrals bonds) :
    ∃ i j k l, t = [i, j, k, l] ∧ IsChain bonds i j k l := by
  obtain ⟨i, j, k, l, rfl⟩ := calcDihedrals_shape bonds t h
  exact ⟨i, j, k, l, rfl, (dihedrals_complete bonds i j k l).mp (Or.inl h)⟩

/-- **dihedrals_nodup.** Without self-loops no dihedral is listed twice, and never in both orientations. -/
theorem dihedrals_nodup (bonds : List (Nat × Nat)) (hns : NoSelfLoops bonds) :
    (calcDihedrals bonds).Nodup ∧
      ∀ i j k l, [i, j, k, l] ∈ calcDihedrals bonds → [l, k, j, i] ∉ calcDihedrals bonds := by
  refine ⟨nodup_calcDihedrals bonds, ?_⟩
  intro i j k l h1 h2
  have e1 := ((mem_calcDihedrals _ _ _ _ _).mp h1).1
  have e2 := ((mem_calcDihedrals _ _ _ _ _).mp h2).1
  have := graphEdges_asymm bonds j k e1 e2
  subst this
  exact bonded_self_false bonds hns j (graphEdges_sound _ _ _ e1)

/-- "exactly once up to reversal" -/
theorem dihedrals_exactly_once (bonds : List (Nat × Nat)) (hns : NoSelfLoops bonds) (i j k l : Nat)
    (h : IsChain bonds i j k l) :
    (calcDihedrals bonds).count [i, j, k, l] + (calcDihedrals bonds).count [l, k, j, i] = 1 := by
  have hnd := (dihedrals_nodup bonds hns).1
  rw [hnd.count, hnd.count]
  rcases (dihedrals_complete bonds i j k l).mpr h with h | h
  · simp [h, (dihedrals_nodup bonds hns).2 i j k l h]
  · simp [h, (dihedrals_nodup bonds hns).2 l k j i h]

/-- in a graph without self-loops and three-membered rings the four atoms of an enumerated dihedral are distinct
    (in particular `i ≠ l`) -/
theorem dihedrals_distinct_atoms (bonds : List (Nat × Nat)) (hns : NoSelfLoops bonds) (hnt : NoTriangles bonds)
    (i j k l : Nat) (h : [i, j, k, l] ∈ calcDihedrals bonds) : [i, j, k, l].Nodup := by
  obtain ⟨h1, h2, h3, h4, h5⟩ := (dihedrals_complete bonds i j k l).mp (Or.inl h)
  have nij : i ≠ j := fun e => bonded_self_false bonds hns j (e ▸ h1)
  have njk : j ≠ k := fun e => bonded_self_false bonds hns k (e ▸ h2)
  have nkl : k ≠ l := fun e => bonded_self_false bonds hns l (e ▸ h3)
  have nil : i ≠ l := by
    intro e; subst e
    have hi : i ∈ nodes bonds := (mem_nodes bonds i).mpr ⟨j, h1⟩
    rcases h2 with hb | hb
    · exact hnt (j, k) hb i hi ⟨h1.symm, h3.symm⟩
    · exact hnt (k, j) hb i hi ⟨h3, h1⟩
  simp [nij, njk, nkl, nil, h4, h5]

theorem dihedrals_listing_invariant (bonds bonds' : List (Nat × Nat))
    (h : ∀ a b, Bonded bonds a b ↔ Bonded bonds' a b) (i j k l : Nat) :
    ([i, j, k, l] ∈ calcDihedrals bonds ∨ [l, k, j, i] ∈ calcDihedrals bonds) ↔
      ([i, j, k, l] ∈ calcDihedrals bonds' ∨ [l, k, j, i] ∈ calcDihedrals bonds') := by
  rw [dihedrals_complete, dihedrals_complete]; unfold IsChain; rw [h, h, h]

/-- non-vacuity: a branched five-atom skeleton and a four-ring, listed in mixed order and direction with a duplicate,
    satisfy both guards; the enumeration is the one networkx produces -/
example : NoSelfLoops [(2, 1), (1, 0), (2, 3), (1, 2), (4, 2)] ∧ NoTriangles [(2, 1), (1, 0), (2, 3), (1, 2), (4, 2)]
    ∧ calcDihedrals [(2, 1), (1, 0), (2, 3), (1, 2), (4, 2)] = [[3, 2, 1, 0], [4, 2, 1, 0]]
    ∧ NoTriangles [(0, 1), (1, 2), (2, 3), (3, 0)]
    ∧ (calcDihedrals [(0, 1), (1, 2), (2, 3), (3, 0)]).length = 4 := by decide

/-! ## typing of bonds and angles -/

/-- **assign_types_iff** (`assign_bond_types`, `assign_angle_types`; `arity` = 2, 3).  After the assignment
    * every term has a type id;
    * two terms have the same type exactly when their UFF type sequences agree up to reversal;
    * the coefficient text of a term's type is `params` of the (canonically oriented) UFF sequence of the term;
    * the type ids are exactly `0 … m−1`, `m` the length of the coefficient table, and every id is used. -/
theorem assign_types_iff (arity : Nat) (uff : Nat → String) (params : List String → String)
    (excl : Option (List Nat)) (terms : List (List Nat)) :
    let r := assignSimple arity uff params excl terms
    r.types.length = r.terms.length ∧
    (∀ t1 y1 t2 y2, (t1, y1) ∈ typed r → (t2, y2) ∈ typed r →
        (y1 = y2 ↔ t1.map uff = t2.map uff ∨ t1.map uff = (t2.map uff).reverse)) ∧
    (∀ t y, (t, y) ∈ typed r → r.coeffs[y]? = some (params (typekey (t.map uff)))) ∧
    (∀ t y, (t, y) ∈ typed r → y < r.coeffs.length) ∧
    (∀ k, k < r.coeffs.length → ∃ t, (t, k) ∈ typed r) := by
  intro r
  obtain ⟨_, hty, hco, hlen⟩ := assignSimple_normal arity uff params excl terms
  refine ⟨hlen, ?_, ?_, ?_, ?_⟩
  · intro t1 y1 t2 y2 h1 h2
    rw [show typed r = _ from hty] at h1 h2
    rw [typedBy_same_iff _ _ _ _ _ _ h1 h2]
    exact seqKey_eq_iff uff t1 t2
  · intro t y h
    rw [show typed r = _ from hty] at h
    rw [show r.coeffs = _ from hco]
    exact typedBy_coeff _ _ params t y h
  · intro t y h
    rw [show typed r = _ from hty] at h
    rw [show r.coeffs = _ from hco, List.length_map]
    exact typedBy_lt _ _ t y h
  · intro k hk
    rw [show r.coeffs = _ from hco, List.length_map] at hk
    rw [show typed r = _ from hty]
    exact typedBy_onto _ _ k hk

/-- the checked entry points succeed exactly on well-formed input (right number of atoms per term, every atom typed) -/
theorem assign_ok_iff (uff : List String) (params : List String → String) (excl : Option (List Nat))
    (terms : List (List Nat)) :
    ((∃ r, assignBonds uff params excl terms = .ok r) ↔
      (∀ t ∈ terms, t.length = 2) ∧ (∀ t ∈ terms, ∀ a ∈ t, a < uff.length)) ∧
    ((∃ r, assignAngles uff params excl terms = .ok r) ↔
      (∀ t ∈ terms, t.length = 3) ∧ (∀ t ∈ terms, ∀ a ∈ t, a < uff.length)) := by
  constructor
  · rw [← checkTerms_ok_iff]
    constructor
    · rintro ⟨r, h⟩; exact (assignBonds_eq _ _ _ _ _ h).2
    · intro h; exact ⟨_, by simp [assignBonds, h]; rfl⟩
  · rw [← checkTerms_ok_iff]
    constructor
    · rintro ⟨r, h⟩; exact (assignAngles_eq _ _ _ _ _ h).2
    · intro h; exact ⟨_, by simp [assignAngles, h]; rfl⟩

/-- `assign_bond_types` on a per-atom UFF type list -/
theorem assign_bond_types_iff (uff : List String) (params : List String → String) (excl : Option (List Nat))
    (terms : List (List Nat)) (r : Assigned) (h : assignBonds uff params excl terms = .ok r) :
    r.types.length = r.terms.length ∧
    (∀ t1 y1 t2 y2, (t1, y1) ∈ typed r → (t2, y2) ∈ typed r →
        (y1 = y2 ↔ t1.map (uffFn uff) = t2.map (uffFn uff) ∨ t1.map (uffFn uff) = (t2.map (uffFn uff)).reverse)) ∧
    (∀ t y, (t, y) ∈ typed r → r.coeffs[y]? = some (params (typekey (t.map (uffFn uff))))) ∧
    (∀ t y, (t, y) ∈ typed r → y < r.coeffs.length) ∧
    (∀ k, k < r.coeffs.length → ∃ t, (t, k) ∈ typed r) := by
  rw [(assignBonds_eq _ _ _ _ _ h).1]; exact assign_types_iff 2 _ _ _ _

/-- `assign_angle_types` on a per-atom UFF type list -/
theorem assign_angle_types_iff (uff : List String) (params : List String → String) (excl : Option (List Nat))
    (terms : List (List Nat)) (r : Assigned) (h : assignAngles uff params excl terms = .ok r) :
    r.types.length = r.terms.length ∧
    (∀ t1 y1 t2 y2, (t1, y1) ∈ typed r → (t2, y2) ∈ typed r →
        (y1 = y2 ↔ t1.map (uffFn uff) = t2.map (uffFn uff) ∨ t1.map (uffFn uff) = (t2.map (uffFn uff)).reverse)) ∧
    (∀ t y, (t, y) ∈ typed r → r.coeffs[y]? = some (params (typekey (t.map (uffFn uff))))) ∧
    (∀ t y, (t, y) ∈ typed r → y < r.coeffs.length) ∧
    (∀ k, k < r.coeffs.length → ∃ t, (t, k) ∈ typed r) := by
  rw [(assignAngles_eq _ _ _ _ _ h).1]; exact assign_types_iff 3 _ _ _ _

example : assignSimple 2 (uffFn ["H_", "C_3", "C_R", "C_3"]) (fun k => " ".intercalate k) none
      [[0, 1], [2, 1], [3, 2], [1, 2]]
    = { terms := [[0, 1], [2, 1], [3, 2], [1, 2]], types := [0, 1, 1, 1], coeffs := ["C_3 H_", "C_3 C_R"] } := by
  decide

/-- non-vacuity of the `= .ok r` hypotheses: the checked entry points succeed on well-formed input -/
example : (∃ r, assignBonds ["H_", "C_3", "C_R", "C_3"] (fun k => " ".intercalate k) (some [0, 1]) [[0, 1], [2, 1]] = .ok r)
    ∧ (∃ r, assignAngles ["H_", "C_3", "C_R", "C_3"] (fun k => " ".intercalate k) none [[0, 1, 2], [3, 2, 1]] = .ok r) :=
  ⟨⟨_, rfl⟩, ⟨_, rfl⟩⟩

/-! ## exclusion -/

/-- **exclude_spec.** A term is removed exactly when the exclusion set is given, has at least `arity` distinct
    members, and contains every atom of the term; the remaining terms keep their order. -/
theorem exclude_spec (arity : Nat) (uff : Nat → String) (params : List String → String)
    (excl : Option (List Nat)) (terms : List (List Nat)) :
    (∀ t, t ∈ (assignSimple arity uff params excl terms).terms ↔ t ∈ terms ∧ ¬ Excludes arity excl t) ∧
    (assignSimple arity uff params excl terms).terms.Sublist terms := by
  have h : (assignSimple arity uff params excl terms).terms = _ := applyExclude_eq_filter arity excl terms
  rw [h]
  refine ⟨fun t => ?_, List.filter_sublist⟩
  simp [List.mem_filter]

example : Excludes 2 (some [0, 1, 5]) [1, 0] ∧ ¬ Excludes 2 (some [0, 1, 5]) [1, 2] ∧ ¬ Excludes 3 (some [0, 1]) [1, 0]
    ∧ applyExclude 2 (some [0, 1, 5]) [[1, 0], [1, 2], [5, 0]] = [[1, 2]] := by decide

/-! ## dihedrals: typing, multiplicity, dropping, exclusion -/

/-- the two middle atoms of `u` and `t` are the same unordered pair -/
def SameCentralBond (u t : List Nat) : Prop :=
  (u.getD 1 0 = t.getD 1 0 ∧ u.getD 2 0 = t.getD 2 0) ∨ (u.getD 1 0 = t.getD 2 0 ∧ u.getD 2 0 = t.getD 1 0)

instance (u t : List Nat) : Decidable (SameCentralBond u t) := by unfold SameCentralBond; infer_instance

/-- the multiplicity in a dihedral key = number of dihedrals of the WHOLE input list about the same central bond -/
theorem torsionCount_spec (all : List (List Nat)) (t : List Nat) :
    torsionCount all t = (all.filter (fun u => decide (SameCentralBond u t))).length := by
  unfold torsionCount
  rw [List.count_eq_length_filter, List.filter_map, List.length_map]
  congr 1
  apply List.filter_congr
  intro u _
  show (centralKey u == centralKey t) = decide (SameCentralBond u t)
  rw [Bool.eq_iff_iff, beq_iff_eq, decide_eq_true_eq]
  unfold centralKey
  rw [typekey_eq_iff]
  simp [SameCentralBond]

/-- **dihedral_drop_iff** (+ exclusion).  A dihedral is kept exactly when it is not excluded and a torsion is defined
    for its key; kept dihedrals stay in order; no kept key is an unsupported combination. -/
theorem dihedral_drop_iff (uff : Nat → String) (dparams : DKey → DParam) (excl : Option (List Nat))
    (terms : List (List Nat)) (r : Assigned) (h : assignDihedralsCore uff dparams excl terms = .ok r) :
    (∀ t, t ∈ r.terms ↔
      t ∈ terms ∧ ¬ Excludes 4 excl t ∧ dparams (dihedralKey uff terms t) ≠ .undefined) ∧
    r.terms.Sublist terms := by
  obtain ⟨_, hts, _, _, _⟩ := assignDihedralsCore_ok uff dparams excl terms r h
  rw [hts, applyExclude_eq_filter]
  refine ⟨fun t => ?_, List.filter_sublist.trans List.filter_sublist⟩
  simp only [List.mem_filter, Bool.not_eq_true', decide_eq_false_iff_not, and_assoc]
  have : (dparams (dihedralKey uff terms t)).isUndefined = false ↔ dparams (dihedralKey uff terms t) ≠ .undefined := by
    cases dparams (dihedralKey uff terms t) <;> simp [DParam.isUndefined]
  rw [this]

/-- **assign_dihedral_types_iff.** Same type ⟺ same UFF sequence up to reversal AND same number of torsions about the
    central bond; the coefficient text of a kept dihedral is the text of `dparams` for its key; ids are `0 … m−1`,
    all used. -/
theorem assign_dihedral_types_iff (uff : Nat → String) (dparams : DKey → DParam) (excl : Option (List Nat))
    (terms : List (List Nat)) (r : Assigned) (h : assignDihedralsCore uff dparams excl terms = .ok r) :
    r.types.length = r.terms.length ∧
    (∀ t1 y1 t2 y2, (t1, y1) ∈ typed r → (t2, y2) ∈ typed r →
        (y1 = y2 ↔ (t1.map uff = t2.map uff ∨ t1.map uff = (t2.map uff).reverse)
                    ∧ torsionCount terms t1 = torsionCount terms t2)) ∧
    (∀ t y, (t, y) ∈ typed r →
        ∃ s, dparams (typekey (t.map uff), torsionCount terms t) = .text s ∧ r.coeffs[y]? = some s) ∧
    (∀ t y, (t, y) ∈ typed r → y < r.coeffs.length) ∧
    (∀ k, k < r.coeffs.length → ∃ t, (t, k) ∈ typed r) := by
  obtain ⟨hsup, hts, hty, hco, hlen⟩ := assignDihedralsCore_ok uff dparams excl terms r h
  have hmem : ∀ t y, (t, y) ∈ typed r → t ∈ r.terms := fun t y hm => (List.of_mem_zip hm).1
  refine ⟨?_, ?_, ?_, ?_, ?_⟩
  · exact hlen
  · intro t1 y1 t2 y2 h1 h2
    rw [show typed r = _ from hty] at h1 h2
    rw [typedBy_same_iff _ _ _ _ _ _ h1 h2]
    simp only [dihedralKey, Prod.mk.injEq]
    rw [seqKey_eq_iff]
  · intro t y hm
    have ht := hmem t y hm
    rw [show typed r = _ from hty] at hm
    rw [hts] at ht
    obtain ⟨ht1, ht2⟩ := List.mem_filter.mp ht
    have hns := hsup t ht1
    have hco' := typedBy_coeff _ _ (fun k => (dparams k).toText) t y hm
    rw [← hco] at hco'
    cases hd : dparams (dihedralKey uff terms t) with
    | text s => exact ⟨s, hd, by rw [hco', hd]; rfl⟩
    | undefined => rw [hd] at ht2; simp [DParam.isUndefined] at ht2
    | unsupported => exact absurd hd hns
  · intro t y hm
    rw [show typed r = _ from hty] at hm
    rw [hco, List.length_map]
    exact typedBy_lt _ _ t y hm
  · intro k hk
    rw [hco, List.length_map] at hk
    rw [show typed r = _ from hty]
    exact typedBy_onto _ _ k hk

/-- the checked entry point `assignDihedrals` (per-atom UFF type LIST) is the core function on well-formed input:
    every theorem about `assignDihedralsCore` applies to it with `uff := uffFn uffList` -/
theorem assign_dihedrals_wf (uff : List String) (dparams : DKey → DParam) (excl : Option (List Nat))
    (terms : List (List Nat)) (r : Assigned) (h : assignDihedrals uff dparams excl terms = .ok r) :
    assignDihedralsCore (uffFn uff) dparams excl terms = .ok r ∧
    (∀ t ∈ terms, t.length = 4) ∧ (∀ t ∈ terms, ∀ a ∈ t, a < uff.length) := by
  obtain ⟨h1, h2⟩ := assignDihedrals_eq uff dparams excl terms r h
  exact ⟨h1, (checkTerms_ok_iff 4 uff terms).mp h2⟩

/-- non-vacuity: butane-like chain H–C–C–C with a triple-bonded end: the torsion about an `N_1` centre is undefined and
    dropped, the other one is kept with multiplicity 1 -/
example : assignDihedrals ["H_", "C_3", "C_3", "N_1", "C_3"]
      (fun k => if k.1.any (· == "N_1") && k.1 ≠ ["H_", "C_3", "C_3", "N_1"] then .undefined
                else .text (" ".intercalate k.1 ++ " M=" ++ toString k.2)) none
      [[0, 1, 2, 3], [1, 2, 3, 4]]
    = .ok { terms := [[0, 1, 2, 3]], types := [0], coeffs := ["H_ C_3 C_3 N_1 M=1"] } := by
  rfl

/-! ## invariance under atom renaming and term-list permutation -/

/-- **assign_rename_invariant** (bonds, angles).  Rename the atoms by an injective `σ` (UFF types and exclusion set
    renamed along) and list the terms in any order: the kept terms are the renamed kept terms, and every term has the
    same coefficient text in both runs. -/
theorem assign_rename_invariant (arity : Nat) (uff uff' : Nat → String) (params : List String → String)
    (excl : Option (List Nat)) (terms terms' : List (List Nat)) (σ : Nat → Nat)
    (hσ : ∀ a b, σ a = σ b → a = b) (huff : ∀ a, uff' (σ a) = uff a)
    (hperm : terms'.Perm (terms.map (·.map σ))) :
    let r := assignSimple arity uff params excl terms
    let r' := assignSimple arity uff' params (excl.map (·.map σ)) terms'
    r'.terms.Perm (r.terms.map (·.map σ)) ∧
    (∀ t y y', (t, y) ∈ typed r → (t.map σ, y') ∈ typed r' → r'.coeffs[y']? = r.coeffs[y]?) ∧
    (∀ t y, (t, y) ∈ typed r → ∃ y', (t.map σ, y') ∈ typed r') := by
  intro r r'
  have hp : r'.terms.Perm (r.terms.map (·.map σ)) := applyExclude_rename_perm σ hσ arity excl terms terms' hperm
  refine ⟨hp, ?_, ?_⟩
  · intro t y y' h h'
    rw [(assign_types_iff arity uff params excl terms).2.2.1 t y h,
      (assign_types_iff arity uff' params _ terms').2.2.1 _ y' h']
    have := seqKey_rename σ uff uff' huff t
    unfold seqKey at this
    rw [this]
  · intro t y h
    have ht : t ∈ r.terms := (List.of_mem_zip h).1
    have ht' : t.map σ ∈ r'.terms := hp.mem_iff.mpr (List.mem_map.mpr ⟨t, ht, rfl⟩)
    have hty := (assignSimple_normal arity uff' params (excl.map (·.map σ)) terms').2.1
    obtain ⟨y', hy'⟩ := mem_typed_of_mem (seqKey uff') r'.terms _ ht'
    exact ⟨y', by rw [show typed r' = _ from hty]; exact hy'⟩

/-- **assign_rename_invariant** for dihedrals (all terms have four atoms): the second run succeeds as well, keeps the
    renamed kept dihedrals, and gives every dihedral the same coefficient text (multiplicity included). -/
theorem assign_dihedrals_rename_invariant (uff uff' : Nat → String) (dparams : DKey → DParam)
    (excl : Option (List Nat)) (terms terms' : List (List Nat)) (σ : Nat → Nat)
    (hσ : ∀ a b, σ a = σ b → a = b) (huff : ∀ a, uff' (σ a) = uff a)
    (hperm : terms'.Perm (terms.map (·.map σ))) (har : ∀ t ∈ terms, t.length = 4)
    (r : Assigned) (h : assignDihedralsCore uff dparams excl terms = .ok r) :
    ∃ r', assignDihedralsCore uff' dparams (excl.map (·.map σ)) terms' = .ok r' ∧
      r'.terms.Perm (r.terms.map (·.map σ)) ∧
      (∀ t y y', (t, y) ∈ typed r → (t.map σ, y') ∈ typed r' → r'.coeffs[y']? = r.coeffs[y]?) ∧
      (∀ t y, (t, y) ∈ typed r → ∃ y', (t.map σ, y') ∈ typed r') := by
  have hkey : ∀ t ∈ terms, dihedralKey uff' terms' (t.map σ) = dihedralKey uff terms t := by
    intro t ht
    unfold dihedralKey
    rw [seqKey_rename σ uff uff' huff t, torsionCount_rename σ hσ terms terms' hperm har t (har t ht)]
  obtain ⟨hsup, hts, hty, hco, _⟩ := assignDihedralsCore_ok uff dparams excl terms r h
  have hsub : ∀ t ∈ applyExclude 4 excl terms, t ∈ terms := by
    intro t ht; rw [applyExclude_eq_filter] at ht; exact (List.mem_filter.mp ht).1
  have hpx := applyExclude_rename_perm σ hσ 4 excl terms terms' hperm
  cases h' : assignDihedralsCore uff' dparams (excl.map (·.map σ)) terms' with
  | error e =>
    exfalso
    unfold assignDihedralsCore at h'
    simp only at h'
    split at h'
    · rename_i hany
      obtain ⟨k, hk, hu⟩ := List.any_eq_true.mp hany
      obtain ⟨t', ht', rfl⟩ := List.mem_map.mp ((mem_dedup _ _).mp hk)
      obtain ⟨t, ht, rfl⟩ := List.mem_map.mp (hpx.mem_iff.mp ht')
      rw [hkey t (hsub t ht)] at hu
      exact hsup t ht (by simpa using hu)
    · cases h'
  | ok r' =>
    obtain ⟨_, hts', hty', hco', _⟩ := assignDihedralsCore_ok uff' dparams _ terms' r' h'
    have hp : r'.terms.Perm (r.terms.map (·.map σ)) := by
      rw [hts', hts]
      refine (hpx.filter _).trans ?_
      rw [List.filter_map]
      refine List.Perm.of_eq ?_
      congr 1
      apply List.filter_congr
      intro t ht
      simp only [Function.comp]
      rw [hkey t (hsub t ht)]
    refine ⟨r', rfl, hp, ?_, ?_⟩
    · intro t y y' hm hm'
      have ht : t ∈ terms := by
        have := (List.of_mem_zip hm).1
        rw [hts] at this
        exact hsub t (List.mem_filter.mp this).1
      rw [show typed r = _ from hty] at hm
      rw [show typed r' = _ from hty'] at hm'
      have h1 := typedBy_coeff _ _ (fun k => (dparams k).toText) t y hm
      have h2 := typedBy_coeff _ _ (fun k => (dparams k).toText) _ y' hm'
      rw [← hco] at h1
      rw [← hco'] at h2
      rw [h1, h2, hkey t ht]
    · intro t y hm
      have ht : t ∈ r.terms := (List.of_mem_zip hm).1
      have ht' : t.map σ ∈ r'.terms := hp.mem_iff.mpr (List.mem_map.mpr ⟨t, ht, rfl⟩)
      obtain ⟨y', hy'⟩ := mem_typed_of_mem (dihedralKey uff' terms') r'.terms _ ht'
      exact ⟨y', by rw [show typed r' = _ from hty']; exact hy'⟩

/-- non-vacuity of the guards of the two renaming theorems: shift the atom numbers by 10, list the two dihedrals of a
    five-atom chain in the other order -/
example :
    let σ : Nat → Nat := fun a => a + 10
    let uff := uffFn ["H_", "C_3", "C_3", "C_R", "H_"]
    let uff' : Nat → String := fun a => uff (a - 10)
    let terms := [[0, 1, 2, 3], [1, 2, 3, 4]]
    let terms' := [[11, 12, 13, 14], [10, 11, 12, 13]]
    let dparams : DKey → DParam := fun k => .text (" ".intercalate k.1)
    (∀ a b, σ a = σ b → a = b) ∧ (∀ a, uff' (σ a) = uff a) ∧ terms'.Perm (terms.map (·.map σ))
      ∧ (∀ t ∈ terms, t.length = 4) ∧ ∃ r, assignDihedralsCore uff dparams (some [0, 1, 2, 3]) terms = .ok r := by
  refine ⟨fun a b h => by simp only at h; omega, fun a => by simp, ?_, by decide, ⟨_, rfl⟩⟩
  exact List.Perm.swap _ _ _

/-! ## retype -/

/-- periodic-table position used as the second sort key -/
def ptableKey (tbl : List (String × Dec)) (s : String) : Nat := (ptableIndex tbl (elementOf s)).getD 0

/-- **retype_spec** (for every mass table `tbl` and pair-coefficient function).  When retyping succeeds:
    the labels are the distinct per-atom UFF types (each once); `labels[atom_types[i]] = new_types[i]` for every atom;
    the element column is the element of the label, the mass column is the table mass of that element, the pair
    coefficient column is the pair text of the label; and the labels are in periodic-table order. -/
theorem retype_spec (tbl : List (String × Dec)) (pairText : String → String) (nt : List String) (r : Retyped)
    (h : retype tbl pairText nt = .ok r) :
    r.labels.Perm (dedup nt) ∧ r.labels.Nodup ∧ (∀ s, s ∈ r.labels ↔ s ∈ nt) ∧
    r.atomTypes.length = nt.length ∧
    (∀ (i : Nat) (s : String), nt[i]? = some s → ∃ y, r.atomTypes[i]? = some y ∧ r.labels[y]? = some s) ∧
    r.elements = r.labels.map elementOf ∧
    (∀ (k : Nat) (s : String), r.labels[k]? = some s →
        ∃ d, lookup tbl (elementOf s) = some d ∧ r.elements[k]? = some (elementOf s) ∧ r.masses[k]? = some d.toRat) ∧
    r.pairCoeffs = r.labels.map pairText ∧
    r.labels.Pairwise (fun a b => ptableKey tbl a ≤ ptableKey tbl b) := by
  obtain ⟨hdom, hlab, hel, hma, hat, hpc⟩ := retype_ok tbl pairText nt r h
  have hperm : r.labels.Perm (dedup nt) := hlab ▸ sortedTypes_perm tbl nt
  have hmem : ∀ s, s ∈ r.labels ↔ s ∈ nt := fun s => hperm.mem_iff.trans (mem_dedup nt s)
  refine ⟨hperm, hperm.nodup_iff.mpr (nodup_dedup nt), hmem, by rw [hat, List.length_map], ?_, hel, ?_, hpc, ?_⟩
  · intro i s hi
    refine ⟨typeIndex r.labels s, ?_, ?_⟩
    · rw [hat, List.getElem?_map, hi]; rfl
    · exact typeIndex_get _ _ ((hmem s).mpr (List.mem_of_getElem? hi))
  · intro k s hk
    have hs : s ∈ nt := (hmem s).mp (List.mem_of_getElem? hk)
    obtain ⟨d, hd⟩ := lookup_of_index tbl _ (hdom s hs)
    refine ⟨d, hd, ?_, ?_⟩
    · rw [hel, List.getElem?_map, hk]; rfl
    · rw [hma, hel, List.map_map, List.getElem?_map, hk]
      simp [Function.comp, hd]
  · rw [hlab]
    unfold sortedTypes
    have := List.pairwise_mergeSort (le := fun a b => decide (ptableKey tbl a ≤ ptableKey tbl b))
      (fun a b c hab hbc => by simp only [decide_eq_true_eq] at *; omega)
      (fun a b => by simp only [Bool.or_eq_true, decide_eq_true_eq]; omega)
      ((dedup nt).mergeSort (fun a b => decide (a ≤ b)))
    exact this.imp (fun h => by simpa using h)

/-- non-vacuity on the generated table of `/repo`: retyping succeeds on a mixed organic/metal type list
    (the resulting tables are compared with the real code by the correspondence run) -/
example : ∃ r, retype Mofun.Generated.atomicMasses (fun s => "# " ++ s) ["C_R", "H_", "Zr3+4", "C_3", "H_"] = .ok r := by
  unfold retype
  rw [if_neg (by decide +kernel)]
  exact ⟨_, rfl⟩

/-- a type whose element is not in the mass table is rejected (`Du`, `Lw6+3` of the UFF4MOF table) -/
example : retype Mofun.Generated.atomicMasses (fun s => s) ["C_R", "Lw6+3"] = .error (.reject "element") := by
  unfold retype
  rw [if_pos (by decide +kernel)]

end Mofun.Terms
