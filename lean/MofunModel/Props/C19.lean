/-
  C19 — term enumeration is complete and term typing depends only on UFF types.
  Property theorems only (helper lemmas: Proofs/TermsLemmas.lean).  Model: Model/Terms.lean
  (`calcAngles`, `calcDihedrals`, `typekey`, `assignSimple`/`assignBonds`/`assignAngles`, `assignDihedrals`, `retype`).

  The coefficient texts are PARAMETERS (`params`, `dparams`): every theorem holds for every parameter function.
  `Bonded bonds a b` = a bond `(a,b)` or `(b,a)` is listed; `NoSelfLoops bonds` = no bond `(a,a)` (both in the lemma file).  `typed r` = the terms of a result paired with their type ids.
-/
import MofunModel.Proofs.TermsLemmas
import MofunModel.Generated.Masses

namespace Mofun.Terms

open Mofun

instance (bonds : List (Nat × Nat)) (a b : Nat) : Decidable (Bonded bonds a b) := by
  unfold Bonded; infer_instance

/-! ## typekey -/

/-- **typekey_spec.** The key is the tuple or its reverse, and two tuples have the same key exactly when they are
    equal up to reversal (UFF type strings; python compares the tuples lexicographically by code point). -/
theorem typekey_spec (t u : List String) :
    (typekey t = t ∨ typekey t = t.reverse) ∧ (typekey t = typekey u ↔ t = u ∨ t = u.reverse) :=
  ⟨typekey_cases t, typekey_eq_iff t u⟩

/-- the same for tuples of atom indices (the central bond of a dihedral) -/
theorem typekey_spec_nat (t u : List Nat) :
    (typekey t = t ∨ typekey t = t.reverse) ∧ (typekey t = typekey u ↔ t = u ∨ t = u.reverse) :=
  ⟨typekey_cases t, typekey_eq_iff t u⟩

example : typekey ["C_R", "C_3"] = ["C_3", "C_R"] ∧ typekey ["C_3", "C_R"] = ["C_3", "C_R"]
    ∧ typekey ["O_3_z", "C_R", "O_3"] = ["O_3", "C_R", "O_3_z"] ∧ typekey [7, 2] = [2, 7] := by decide

/-! ## angles -/

/-- **angles_complete.** For EVERY bond list (any order, direction, duplicates; self-loops allowed): the angle about
    `v` between `a` and `b` is enumerated, in one of its two orientations, exactly when `a ≠ b` are both bonded to `v`. -/
theorem angles_complete (bonds : List (Nat × Nat)) (a v b : Nat) :
    ([a, v, b] ∈ calcAngles bonds ∨ [b, v, a] ∈ calcAngles bonds) ↔
      (a ≠ b ∧ Bonded bonds v a ∧ Bonded bonds v b) := by
  simp only [mem_calcAngles]
  constructor
  · rintro (⟨_, hp⟩ | ⟨_, hp⟩)
    · have hm := mem_of_mem_pairs _ _ _ hp
      exact ⟨(pairs_asymm _ (nodup_neighbours bonds v) _ _ hp).1,
        (mem_neighbours _ _ _).mp hm.1, (mem_neighbours _ _ _).mp hm.2⟩
    · have hm := mem_of_mem_pairs _ _ _ hp
      exact ⟨(pairs_asymm _ (nodup_neighbours bonds v) _ _ hp).1.symm,
        (mem_neighbours _ _ _).mp hm.2, (mem_neighbours _ _ _).mp hm.1⟩
  · rintro ⟨hne, ha, hb⟩
    have hv : v ∈ nodes bonds := (mem_nodes bonds v).mpr ⟨a, ha⟩
    rcases pairs_complete (neighbours bonds v) a b ((mem_neighbours _ _ _).mpr ha)
        ((mem_neighbours _ _ _).mpr hb) hne with h | h
    · exact Or.inl ⟨hv, h⟩
    · exact Or.inr ⟨hv, h⟩

/-- nothing else is enumerated: every enumerated term is such an angle -/
theorem angles_sound (bonds : List (Nat × Nat)) (t : List Nat) (h : t ∈ calcAngles bonds) :
    ∃ a v b, t = [a, v, b] ∧ a ≠ b ∧ Bonded bonds v a ∧ Bonded bonds v b := by
  obtain ⟨a, v, b, rfl⟩ := calcAngles_shape bonds t h
  exact ⟨a, v, b, rfl, (angles_complete bonds a v b).mp (Or.inl h)⟩

/-- **angles_nodup.** No angle is listed twice, and never in both orientations. -/
theorem angles_nodup (bonds : List (Nat × Nat)) :
    (calcAngles bonds).Nodup ∧ ∀ a v b, [a, v, b] ∈ calcAngles bonds → [b, v, a] ∉ calcAngles bonds := by
  refine ⟨nodup_calcAngles bonds, ?_⟩
  intro a v b h1 h2
  exact (pairs_asymm _ (nodup_neighbours bonds v) _ _ ((mem_calcAngles _ _ _ _).mp h1).2).2
    ((mem_calcAngles _ _ _ _).mp h2).2

/-- "exactly once": the two orientations of a genuine angle occur once in total -/
theorem angles_exactly_once (bonds : List (Nat × Nat)) (a v b : Nat)
    (hne : a ≠ b) (ha : Bonded bonds v a) (hb : Bonded bonds v b) :
    (calcAngles bonds).count [a, v, b] + (calcAngles bonds).count [b, v, a] = 1 := by
  have hnd := (angles_nodup bonds).1
  rw [hnd.count, hnd.count]
  rcases (angles_complete bonds a v b).mpr ⟨hne, ha, hb⟩ with h | h
  · simp [h, (angles_nodup bonds).2 a v b h]
  · simp [h, (angles_nodup bonds).2 b v a h]

/-- independence of the listing: two bond lists with the same undirected edge set enumerate the same angles
    (as sets up to reversal) -/
theorem angles_listing_invariant (bonds bonds' : List (Nat × Nat))
    (h : ∀ a b, Bonded bonds a b ↔ Bonded bonds' a b) (a v b : Nat) :
    ([a, v, b] ∈ calcAngles bonds ∨ [b, v, a] ∈ calcAngles bonds) ↔
      ([a, v, b] ∈ calcAngles bonds' ∨ [b, v, a] ∈ calcAngles bonds') := by
  rw [angles_complete, angles_complete, h, h]

example : calcAngles [(3, 1), (1, 2), (2, 4), (1, 3), (5, 1)] = [[3, 1, 2], [3, 1, 5], [2, 1, 5], [1, 2, 4]] := by
  decide

/-! ## dihedrals -/

/-- no three-membered ring: no atom is bonded to both ends of a bond -/
def NoTriangles (bonds : List (Nat × Nat)) : Prop :=
  ∀ e ∈ bonds, ∀ c ∈ nodes bonds, ¬ (Bonded bonds e.1 c ∧ Bonded bonds c e.2)

instance (bonds : List (Nat × Nat)) : Decidable (NoSelfLoops bonds) := by unfold NoSelfLoops; infer_instance
instance (bonds : List (Nat × Nat)) : Decidable (NoTriangles bonds) := by unfold NoTriangles; infer_instance

/-- a bonded chain `i–j–k–l` around the bond `j–k` -/
def IsChain (bonds : List (Nat × Nat)) (i j k l : Nat) : Prop :=
  Bonded bonds i j ∧ Bonded bonds j k ∧ Bonded bonds k l ∧ i ≠ k ∧ j ≠ l

/-- **dihedrals_complete.** For every bond list: the chain `i–j–k–l` is enumerated, in one of its two orientations,
    exactly when it is a bonded chain with `i ≠ k`, `j ≠ l`. -/
theorem dihedrals_complete (bonds : List (Nat × Nat)) (i j k l : Nat) :
    ([i, j, k, l] ∈ calcDihedrals bonds ∨ [l, k, j, i] ∈ calcDihedrals bonds) ↔ IsChain bonds i j k l := by
  simp only [mem_calcDihedrals, IsChain]
  constructor
  · rintro (⟨he, h1, h2, h3, h4⟩ | ⟨he, h1, h2, h3, h4⟩)
    · exact ⟨h1.symm, graphEdges_sound _ _ _ he, h3, h2, h4.symm⟩
    · exact ⟨h3.symm, (graphEdges_sound _ _ _ he).symm, h1, h4, h2.symm⟩
  · rintro ⟨h1, h2, h3, h4, h5⟩
    rcases graphEdges_complete bonds j k h2 with he | he
    · exact Or.inl ⟨he, h1.symm, h4, h3, h5.symm⟩
    · exact Or.inr ⟨he, h3, h5.symm, h1.symm, h4⟩

/-- nothing else is enumerated -/
theorem dihedrals_sound (bonds : List (Nat × Nat)) (t : List Nat) (h : t ∈ calcDihedrals bonds) :
    ∃ i j k l, t = [i, j, k, l] ∧ IsChain bonds i j k l := by
  obtain ⟨i, j, k, l, rfl⟩ := calcDihedrals_shape bonds t h
  exact ⟨i, j, k, l, rfl, (dihedrals_complete bonds i j k l).mp (Or.inl h)⟩

/-- **dihedrals_nodup.** Without self-loops no dihedral is listed twice, and never in both orientations. -/
theorem dihedrals_nodup (bonds : List (Nat × Nat)) (hns : NoSelfLoops bonds) :
    (calcDihedrals bonds).Nodup ∧
      ∀ i j k l, [i, j, k, l] ∈ calcDihedrals bonds → [l, k, j, i] ∉ calcDihedrals bonds := by
  refine ⟨nodup_calcDihedrals bonds, ?_⟩
  intro i j k l h1 h2
  have e1 := ((mem_calcDihedrals _ _ _ _ _).mp h1).1
  have e2 := ((mem_calcDihedrals _ _ _ _ _).mp h2).1
  have := graphEdges_asymm bonds j k e1 e2
  subst this
  exact bonded_self_false bonds hns j (graphEdges_sound _ _ _ e1)

/-- "exactly once up to reversal" -/
theorem dihedrals_exactly_once (bonds : List (Nat × Nat)) (hns : NoSelfLoops bonds) (i j k l : Nat)
    (h : IsChain bonds i j k l) :
    (calcDihedrals bonds).count [i, j, k, l] + (calcDihedrals bonds).count [l, k, j, i] = 1 := by
  have hnd := (dihedrals_nodup bonds hns).1
  rw [hnd.count, hnd.count]
  rcases (dihedrals_complete bonds i j k l).mpr h with h | h
  · simp [h, (dihedrals_nodup bonds hns).2 i j k l h]
  · simp [h, (dihedrals_nodup bonds hns).2 l k j i h]

/-- in a graph without self-loops and three-membered rings the four atoms of an enumerated dihedral are distinct
    (in particular `i ≠ l`) -/
theorem dihedrals_distinct_atoms (bonds : List (Nat × Nat)) (hns : NoSelfLoops bonds) (hnt : NoTriangles bonds)
    (i j k l : Nat) (h : [i, j, k, l] ∈ calcDihedrals bonds) : [i, j, k, l].Nodup := by
  obtain ⟨h1, h2, h3, h4, h5⟩ := (dihedrals_complete bonds i j k l).mp (Or.inl h)
  have nij : i ≠ j := fun e => bonded_self_false bonds hns j (e ▸ h1)
  have njk : j ≠ k := fun e => bonded_self_false bonds hns k (e ▸ h2)
  have nkl : k ≠ l := fun e => bonded_self_false bonds hns l (e ▸ h3)
  have nil : i ≠ l := by
    intro e; subst e
    have hi : i ∈ nodes bonds := (mem_nodes bonds i).mpr ⟨j, h1⟩
    rcases h2 with hb | hb
    · exact hnt (j, k) hb i hi ⟨h1.symm, h3.symm⟩
    · exact hnt (k, j) hb i hi ⟨h3, h1⟩
  simp [nij, njk, nkl, nil, h4, h5]

theorem dihedrals_listing_invariant (bonds bonds' : List (Nat × Nat))
    (h : ∀ a b, Bonded bonds a b ↔ Bonded bonds' a b) (i j k l : Nat) :
    ([i, j, k, l] ∈ calcDihedrals bonds ∨ [l, k, j, i] ∈ calcDihedrals bonds) ↔
      ([i, j, k, l] ∈ calcDihedrals bonds' ∨ [l, k, j, i] ∈ calcDihedrals bonds') := by
  rw [dihedrals_complete, dihedrals_complete]; unfold IsChain; rw [h, h, h]

/-- non-vacuity: a branched five-atom skeleton and a four-ring, listed in mixed order and direction with a duplicate,
    satisfy both guards; the enumeration is the one networkx produces -/
example : NoSelfLoops [(2, 1), (1, 0), (2, 3), (1, 2), (4, 2)] ∧ NoTriangles [(2, 1), (1, 0), (2, 3), (1, 2), (4, 2)]
    ∧ calcDihedrals [(2, 1), (1, 0), (2, 3), (1, 2), (4, 2)] = [[3, 2, 1, 0], [4, 2, 1, 0]]
    ∧ NoTriangles [(0, 1), (1, 2), (2, 3), (3, 0)]
    ∧ (calcDihedrals [(0, 1), (1, 2), (2, 3), (3, 0)]).length = 4 := by decide

/-! ## exactness for arbitrary bond lists (multigraph input: duplicate bonds, both directions, self-bonds) -/

/-- `t` is an angle of the bond graph: `[a, v, b]` with `a ≠ b` both bonded to `v` -/
def IsAngle (bonds : List (Nat × Nat)) (t : List Nat) : Prop :=
  ∃ a v b, t = [a, v, b] ∧ a ≠ b ∧ Bonded bonds v a ∧ Bonded bonds v b

/-- `t` is a bonded chain `[i, j, k, l]` with `i ≠ k`, `j ≠ l` -/
def IsDihedral (bonds : List (Nat × Nat)) (t : List Nat) : Prop :=
  ∃ i j k l, t = [i, j, k, l] ∧ IsChain bonds i j k l

/-- **angles_exact.** For EVERY bond list and EVERY list `t` whatsoever: `t` and its reverse occur in the enumeration
    exactly once in total when `t` is an angle of the graph, and not at all otherwise.  No guard: duplicate listings,
    both directions and self-bonds included (a self-bond `(v,v)` makes `v` its own neighbour, so `[v, v, b]` is then an
    "angle" in the sense of `IsAngle`; that is what networkx and the code do). -/
theorem angles_exact (bonds : List (Nat × Nat)) (t : List Nat) :
    (IsAngle bonds t → (calcAngles bonds).count t + (calcAngles bonds).count t.reverse = 1) ∧
    (¬ IsAngle bonds t → (calcAngles bonds).count t + (calcAngles bonds).count t.reverse = 0) := by
  constructor
  · rintro ⟨a, v, b, rfl, hne, ha, hb⟩
    exact angles_exactly_once bonds a v b hne ha hb
  · intro hn
    have h1 : t ∉ calcAngles bonds := by
      intro hm
      obtain ⟨a, v, b, e, h⟩ := angles_sound bonds t hm
      exact hn ⟨a, v, b, e, h⟩
    have h2 : t.reverse ∉ calcAngles bonds := by
      intro hm
      obtain ⟨a, v, b, e, hne, ha, hb⟩ := angles_sound bonds _ hm
      exact hn ⟨b, v, a, by rw [List.reverse_eq_iff.mp e]; rfl, hne.symm, hb, ha⟩
    rw [List.count_eq_zero.mpr h1, List.count_eq_zero.mpr h2]

/-- **dihedrals_exact.** For EVERY bond list and EVERY list `t`: when `t = [i,j,k,l]` is a bonded chain, `t` and its
    reverse occur once in total if `j ≠ k`, and TWICE in total if `j = k` (a chain through a self-bond `(j,j)`: the code
    lists it from both ends — or, when also `i = l`, it is its own reverse and counted on both sides); when `t` is not a
    bonded chain neither occurs.  Without self-bonds this is "every chain exactly once up to reversal, nothing else". -/
theorem dihedrals_exact (bonds : List (Nat × Nat)) (t : List Nat) :
    (∀ i j k l, t = [i, j, k, l] → IsChain bonds i j k l →
        (calcDihedrals bonds).count t + (calcDihedrals bonds).count t.reverse = if j = k then 2 else 1) ∧
    (¬ IsDihedral bonds t → (calcDihedrals bonds).count t + (calcDihedrals bonds).count t.reverse = 0) := by
  have hnd := nodup_calcDihedrals bonds
  constructor
  · rintro i j k l rfl hc
    have hrev : [i, j, k, l].reverse = [l, k, j, i] := rfl
    rw [hrev, hnd.count, hnd.count]
    by_cases hjk : j = k
    · subst hjk
      obtain ⟨h1, h2, h3, h4, h5⟩ := hc
      have he : (j, j) ∈ graphEdges bonds := by
        rcases graphEdges_complete bonds j j h2 with h | h <;> exact h
      have m1 : [i, j, j, l] ∈ calcDihedrals bonds :=
        (mem_calcDihedrals _ _ _ _ _).mpr ⟨he, h1.symm, h4, h3, h5.symm⟩
      have m2 : [l, j, j, i] ∈ calcDihedrals bonds :=
        (mem_calcDihedrals _ _ _ _ _).mpr ⟨he, h3, h5.symm, h1.symm, h4⟩
      simp [m1, m2]
    · simp only [hjk, if_false]
      rcases (dihedrals_complete bonds i j k l).mpr hc with h | h
      · have : [l, k, j, i] ∉ calcDihedrals bonds := by
          intro h'
          exact hjk (graphEdges_asymm bonds j k ((mem_calcDihedrals _ _ _ _ _).mp h).1
            ((mem_calcDihedrals _ _ _ _ _).mp h').1)
        simp [h, this]
      · have : [i, j, k, l] ∉ calcDihedrals bonds := by
          intro h'
          exact hjk (graphEdges_asymm bonds j k ((mem_calcDihedrals _ _ _ _ _).mp h').1
            ((mem_calcDihedrals _ _ _ _ _).mp h).1)
        simp [h, this]
  · intro hn
    have h1 : t ∉ calcDihedrals bonds := by
      intro hm
      obtain ⟨i, j, k, l, e, h⟩ := dihedrals_sound bonds t hm
      exact hn ⟨i, j, k, l, e, h⟩
    have h2 : t.reverse ∉ calcDihedrals bonds := by
      intro hm
      obtain ⟨i, j, k, l, e, h1', h2', h3', h4', h5'⟩ := dihedrals_sound bonds _ hm
      exact hn ⟨l, k, j, i, by rw [List.reverse_eq_iff.mp e]; rfl, h3'.symm, h2'.symm, h1'.symm, h5'.symm, h4'.symm⟩
    rw [List.count_eq_zero.mpr h1, List.count_eq_zero.mpr h2]

/-- the edge inputs, as the real code treats them (compared by the correspondence run): a bond listed three times and in
    both directions counts once; a self-bond makes the atom its own neighbour — degenerate terms appear and the chain
    through the self-bond is listed from both ends -/
example : calcAngles [(0, 1), (1, 0), (1, 2), (2, 1), (0, 1)] = [[0, 1, 2]]
    ∧ calcDihedrals [(0, 1), (1, 0), (1, 2), (2, 1), (0, 1)] = []
    ∧ calcAngles [(0, 1), (1, 1), (1, 2)] = [[0, 1, 1], [0, 1, 2], [1, 1, 2]]
    ∧ calcDihedrals [(0, 1), (1, 1), (1, 2)] = [[0, 1, 1, 0], [0, 1, 1, 2], [2, 1, 1, 0], [2, 1, 1, 2]] := by decide

/-! ## typing of bonds and angles -/

/-- **assign_types_iff** (`assign_bond_types`, `assign_angle_types`; `arity` = 2, 3).  After the assignment
    * every term has a type id;
    * two terms have the same type exactly when their UFF type sequences agree up to reversal;
    * the coefficient text of a term's type is `params` of the (canonically oriented) UFF sequence of the term;
    * the type ids are exactly `0 … m−1`, `m` the length of the coefficient table, and every id is used. -/
theorem assign_types_iff (arity : Nat) (uff : Nat → String) (params : List String → String)
    (excl : Option (List Nat)) (terms : List (List Nat)) :
    let r := assignSimple arity uff params excl terms
    r.types.length = r.terms.length ∧
    (∀ t1 y1 t2 y2, (t1, y1) ∈ typed r → (t2, y2) ∈ typed r →
        (y1 = y2 ↔ t1.map uff = t2.map uff ∨ t1.map uff = (t2.map uff).reverse)) ∧
    (∀ t y, (t, y) ∈ typed r → r.coeffs[y]? = some (params (typekey (t.map uff)))) ∧
    (∀ t y, (t, y) ∈ typed r → y < r.coeffs.length) ∧
    (∀ k, k < r.coeffs.length → ∃ t, (t, k) ∈ typed r) := by
  intro r
  obtain ⟨_, hty, hco, hlen⟩ := assignSimple_normal arity uff params excl terms
  refine ⟨hlen, ?_, ?_, ?_, ?_⟩
  · intro t1 y1 t2 y2 h1 h2
    rw [show typed r = _ from hty] at h1 h2
    rw [typedBy_same_iff _ _ _ _ _ _ h1 h2]
    exact seqKey_eq_iff uff t1 t2
  · intro t y h
    rw [show typed r = _ from hty] at h
    rw [show r.coeffs = _ from hco]
    exact typedBy_coeff _ _ params t y h
  · intro t y h
    rw [show typed r = _ from hty] at h
    rw [show r.coeffs = _ from hco, List.length_map]
    exact typedBy_lt _ _ t y h
  · intro k hk
    rw [show r.coeffs = _ from hco, List.length_map] at hk
    rw [show typed r = _ from hty]
    exact typedBy_onto _ _ k hk

/-- the checked entry points succeed exactly on well-formed input (right number of atoms per term, every atom typed) -/
theorem assign_ok_iff (uff : List String) (params : List String → String) (excl : Option (List Nat))
    (terms : List (List Nat)) :
    ((∃ r, assignBonds uff params excl terms = .ok r) ↔
      (∀ t ∈ terms, t.length = 2) ∧ (∀ t ∈ terms, ∀ a ∈ t, a < uff.length)) ∧
    ((∃ r, assignAngles uff params excl terms = .ok r) ↔
      (∀ t ∈ terms, t.length = 3) ∧ (∀ t ∈ terms, ∀ a ∈ t, a < uff.length)) := by
  constructor
  · rw [← checkTerms_ok_iff]
    constructor
    · rintro ⟨r, h⟩; exact (assignBonds_eq _ _ _ _ _ h).2
    · intro h; exact ⟨_, by simp [assignBonds, h]; rfl⟩
  · rw [← checkTerms_ok_iff]
    constructor
    · rintro ⟨r, h⟩; exact (assignAngles_eq _ _ _ _ _ h).2
    · intro h; exact ⟨_, by simp [assignAngles, h]; rfl⟩

/-- `assign_bond_types` on a per-atom UFF type list -/
theorem assign_bond_types_iff (uff : List String) (params : List String → String) (excl : Option (List Nat))
    (terms : List (List Nat)) (r : Assigned) (h : assignBonds uff params excl terms = .ok r) :
    r.types.length = r.terms.length ∧
    (∀ t1 y1 t2 y2, (t1, y1) ∈ typed r → (t2, y2) ∈ typed r →
        (y1 = y2 ↔ t1.map (uffFn uff) = t2.map (uffFn uff) ∨ t1.map (uffFn uff) = (t2.map (uffFn uff)).reverse)) ∧
    (∀ t y, (t, y) ∈ typed r → r.coeffs[y]? = some (params (typekey (t.map (uffFn uff))))) ∧
    (∀ t y, (t, y) ∈ typed r → y < r.coeffs.length) ∧
    (∀ k, k < r.coeffs.length → ∃ t, (t, k) ∈ typed r) := by
  rw [(assignBonds_eq _ _ _ _ _ h).1]; exact assign_types_iff 2 _ _ _ _

/-- `assign_angle_types` on a per-atom UFF type list -/
theorem assign_angle_types_iff (uff : List String) (params : List String → String) (excl : Option (List Nat))
    (terms : List (List Nat)) (r : Assigned) (h : assignAngles uff params excl terms = .ok r) :
    r.types.length = r.terms.length ∧
    (∀ t1 y1 t2 y2, (t1, y1) ∈ typed r → (t2, y2) ∈ typed r →
        (y1 = y2 ↔ t1.map (uffFn uff) = t2.map (uffFn uff) ∨ t1.map (uffFn uff) = (t2.map (uffFn uff)).reverse)) ∧
    (∀ t y, (t, y) ∈ typed r → r.coeffs[y]? = some (params (typekey (t.map (uffFn uff))))) ∧
    (∀ t y, (t, y) ∈ typed r → y < r.coeffs.length) ∧
    (∀ k, k < r.coeffs.length → ∃ t, (t, k) ∈ typed r) := by
  rw [(assignAngles_eq _ _ _ _ _ h).1]; exact assign_types_iff 3 _ _ _ _

example : assignSimple 2 (uffFn ["H_", "C_3", "C_R", "C_3"]) (fun k => " ".intercalate k) none
      [[0, 1], [2, 1], [3, 2], [1, 2]]
    = { terms := [[0, 1], [2, 1], [3, 2], [1, 2]], types := [0, 1, 1, 1], coeffs := ["C_3 H_", "C_3 C_R"] } := by
  decide

/-- non-vacuity of the `= .ok r` hypotheses: the checked entry points succeed on well-formed input -/
example : (∃ r, assignBonds ["H_", "C_3", "C_R", "C_3"] (fun k => " ".intercalate k) (some [0, 1]) [[0, 1], [2, 1]] = .ok r)
    ∧ (∃ r, assignAngles ["H_", "C_3", "C_R", "C_3"] (fun k => " ".intercalate k) none [[0, 1, 2], [3, 2, 1]] = .ok r) :=
  ⟨⟨_, rfl⟩, ⟨_, rfl⟩⟩

/-! ## exclusion -/

/-- **exclude_spec.** A term is removed exactly when the exclusion set is given, has at least `arity` distinct
    members, and contains every atom of the term; the remaining terms keep their order. -/
theorem exclude_spec (arity : Nat) (uff : Nat → String) (params : List String → String)
    (excl : Option (List Nat)) (terms : List (List Nat)) :
    (∀ t, t ∈ (assignSimple arity uff params excl terms).terms ↔ t ∈ terms ∧ ¬ Excludes arity excl t) ∧
    (assignSimple arity uff params excl terms).terms.Sublist terms := by
  have h : (assignSimple arity uff params excl terms).terms = _ := applyExclude_eq_filter arity excl terms
  rw [h]
  refine ⟨fun t => ?_, List.filter_sublist⟩
  simp [List.mem_filter]

example : Excludes 2 (some [0, 1, 5]) [1, 0] ∧ ¬ Excludes 2 (some [0, 1, 5]) [1, 2] ∧ ¬ Excludes 3 (some [0, 1]) [1, 0]
    ∧ applyExclude 2 (some [0, 1, 5]) [[1, 0], [1, 2], [5, 0]] = [[1, 2]] := by decide

/-! ## dihedrals: typing, multiplicity, dropping, exclusion -/

/-- the two middle atoms of `u` and `t` are the same unordered pair -/
def SameCentralBond (u t : List Nat) : Prop :=
  (u.getD 1 0 = t.getD 1 0 ∧ u.getD 2 0 = t.getD 2 0) ∨ (u.getD 1 0 = t.getD 2 0 ∧ u.getD 2 0 = t.getD 1 0)

instance (u t : List Nat) : Decidable (SameCentralBond u t) := by unfold SameCentralBond; infer_instance

/-- the multiplicity in a dihedral key = number of dihedrals of the WHOLE input list about the same central bond -/
theorem torsionCount_spec (all : List (List Nat)) (t : List Nat) :
    torsionCount all t = (all.filter (fun u => decide (SameCentralBond u t))).length := by
  unfold torsionCount
  rw [List.count_eq_length_filter, List.filter_map, List.length_map]
  congr 1
  apply List.filter_congr
  intro u _
  show (centralKey u == centralKey t) = decide (SameCentralBond u t)
  rw [Bool.eq_iff_iff, beq_iff_eq, decide_eq_true_eq]
  unfold centralKey
  rw [typekey_eq_iff]
  simp [SameCentralBond]

/-- **dihedral_drop_iff** (+ exclusion).  A dihedral is kept exactly when it is not excluded and a torsion is defined
    for its key; kept dihedrals stay in order; no kept key is an unsupported combination. -/
theorem dihedral_drop_iff (uff : Nat → String) (dparams : DKey → DParam) (excl : Option (List Nat))
    (terms : List (List Nat)) (r : Assigned) (h : assignDihedralsCore uff dparams excl terms = .ok r) :
    (∀ t, t ∈ r.terms ↔
      t ∈ terms ∧ ¬ Excludes 4 excl t ∧ dparams (dihedralKey uff terms t) ≠ .undefined) ∧
    r.terms.Sublist terms := by
  obtain ⟨_, hts, _, _, _⟩ := assignDihedralsCore_ok uff dparams excl terms r h
  rw [hts, applyExclude_eq_filter]
  refine ⟨fun t => ?_, List.filter_sublist.trans List.filter_sublist⟩
  simp only [List.mem_filter, Bool.not_eq_true', decide_eq_false_iff_not, and_assoc]
  have : (dparams (dihedralKey uff terms t)).isUndefined = false ↔ dparams (dihedralKey uff terms t) ≠ .undefined := by
    cases dparams (dihedralKey uff terms t) <;> simp [DParam.isUndefined]
  rw [this]

/-- **assign_dihedral_types_iff.** Same type ⟺ same UFF sequence up to reversal AND same number of torsions about the
    central bond; the coefficient text of a kept dihedral is the text of `dparams` for its key; ids are `0 … m−1`,
    all used. -/
theorem assign_dihedral_types_iff (uff : Nat → String) (dparams : DKey → DParam) (excl : Option (List Nat))
    (terms : List (List Nat)) (r : Assigned) (h : assignDihedralsCore uff dparams excl terms = .ok r) :
    r.types.length = r.terms.length ∧
    (∀ t1 y1 t2 y2, (t1, y1) ∈ typed r → (t2, y2) ∈ typed r →
        (y1 = y2 ↔ (t1.map uff = t2.map uff ∨ t1.map uff = (t2.map uff).reverse)
                    ∧ torsionCount terms t1 = torsionCount terms t2)) ∧
    (∀ t y, (t, y) ∈ typed r →
        ∃ s, dparams (typekey (t.map uff), torsionCount terms t) = .text s ∧ r.coeffs[y]? = some s) ∧
    (∀ t y, (t, y) ∈ typed r → y < r.coeffs.length) ∧
    (∀ k, k < r.coeffs.length → ∃ t, (t, k) ∈ typed r) := by
  obtain ⟨hsup, hts, hty, hco, hlen⟩ := assignDihedralsCore_ok uff dparams excl terms r h
  have hmem : ∀ t y, (t, y) ∈ typed r → t ∈ r.terms := fun t y hm => (List.of_mem_zip hm).1
  refine ⟨?_, ?_, ?_, ?_, ?_⟩
  · exact hlen
  · intro t1 y1 t2 y2 h1 h2
    rw [show typed r = _ from hty] at h1 h2
    rw [typedBy_same_iff _ _ _ _ _ _ h1 h2]
    simp only [dihedralKey, Prod.mk.injEq]
    rw [seqKey_eq_iff]
  · intro t y hm
    have ht := hmem t y hm
    rw [show typed r = _ from hty] at hm
    rw [hts] at ht
    obtain ⟨ht1, ht2⟩ := List.mem_filter.mp ht
    have hns := hsup t ht1
    have hco' := typedBy_coeff _ _ (fun k => (dparams k).toText) t y hm
    rw [← hco] at hco'
    cases hd : dparams (dihedralKey uff terms t) with
    | text s => exact ⟨s, hd, by rw [hco', hd]; rfl⟩
    | undefined => rw [hd] at ht2; simp [DParam.isUndefined] at ht2
    | unsupported => exact absurd hd hns
  · intro t y hm
    rw [show typed r = _ from hty] at hm
    rw [hco, List.length_map]
    exact typedBy_lt _ _ t y hm
  · intro k hk
    rw [hco, List.length_map] at hk
    rw [show typed r = _ from hty]
    exact typedBy_onto _ _ k hk

/-- the checked entry point `assignDihedrals` (per-atom UFF type LIST) is the core function on well-formed input:
    every theorem about `assignDihedralsCore` applies to it with `uff := uffFn uffList` -/
theorem assign_dihedrals_wf (uff : List String) (dparams : DKey → DParam) (excl : Option (List Nat))
    (terms : List (List Nat)) (r : Assigned) (h : assignDihedrals uff dparams excl terms = .ok r) :
    assignDihedralsCore (uffFn uff) dparams excl terms = .ok r ∧
    (∀ t ∈ terms, t.length = 4) ∧ (∀ t ∈ terms, ∀ a ∈ t, a < uff.length) := by
  obtain ⟨h1, h2⟩ := assignDihedrals_eq uff dparams excl terms r h
  exact ⟨h1, (checkTerms_ok_iff 4 uff terms).mp h2⟩

/-- non-vacuity: butane-like chain H–C–C–C with a triple-bonded end: the torsion about an `N_1` centre is undefined and
    dropped, the other one is kept with multiplicity 1 -/
example : assignDihedrals ["H_", "C_3", "C_3", "N_1", "C_3"]
      (fun k => if k.1.any (· == "N_1") && k.1 ≠ ["H_", "C_3", "C_3", "N_1"] then .undefined
                else .text (" ".intercalate k.1 ++ " M=" ++ toString k.2)) none
      [[0, 1, 2, 3], [1, 2, 3, 4]]
    = .ok { terms := [[0, 1, 2, 3]], types := [0], coeffs := ["H_ C_3 C_3 N_1 M=1"] } := by
  rfl

/-! ## invariance under atom renaming and term-list permutation -/

/-- **assign_rename_invariant** (bonds, angles).  Rename the atoms by an injective `σ` (UFF types and exclusion set
    renamed along) and list the terms in any order: the kept terms are the renamed kept terms, and every term has the
    same coefficient text in both runs. -/
theorem assign_rename_invariant (arity : Nat) (uff uff' : Nat → String) (params : List String → String)
    (excl : Option (List Nat)) (terms terms' : List (List Nat)) (σ : Nat → Nat)
    (hσ : ∀ a b, σ a = σ b → a = b) (huff : ∀ a, uff' (σ a) = uff a)
    (hperm : terms'.Perm (terms.map (·.map σ))) :
    let r := assignSimple arity uff params excl terms
    let r' := assignSimple arity uff' params (excl.map (·.map σ)) terms'
    r'.terms.Perm (r.terms.map (·.map σ)) ∧
    (∀ t y y', (t, y) ∈ typed r → (t.map σ, y') ∈ typed r' → r'.coeffs[y']? = r.coeffs[y]?) ∧
    (∀ t y, (t, y) ∈ typed r → ∃ y', (t.map σ, y') ∈ typed r') := by
  intro r r'
  have hp : r'.terms.Perm (r.terms.map (·.map σ)) := applyExclude_rename_perm σ hσ arity excl terms terms' hperm
  refine ⟨hp, ?_, ?_⟩
  · intro t y y' h h'
    rw [(assign_types_iff arity uff params excl terms).2.2.1 t y h,
      (assign_types_iff arity uff' params _ terms').2.2.1 _ y' h']
    have := seqKey_rename σ uff uff' huff t
    unfold seqKey at this
    rw [this]
  · intro t y h
    have ht : t ∈ r.terms := (List.of_mem_zip h).1
    have ht' : t.map σ ∈ r'.terms := hp.mem_iff.mpr (List.mem_map.mpr ⟨t, ht, rfl⟩)
    have hty := (assignSimple_normal arity uff' params (excl.map (·.map σ)) terms').2.1
    obtain ⟨y', hy'⟩ := mem_typed_of_mem (seqKey uff') r'.terms _ ht'
    exact ⟨y', by rw [show typed r' = _ from hty]; exact hy'⟩

/-- **assign_rename_invariant** for dihedrals (all terms have four atoms): the second run succeeds as well, keeps the
    renamed kept dihedrals, and gives every dihedral the same coefficient text (multiplicity included). -/
theorem assign_dihedrals_rename_invariant (uff uff' : Nat → String) (dparams : DKey → DParam)
    (excl : Option (List Nat)) (terms terms' : List (List Nat)) (σ : Nat → Nat)
    (hσ : ∀ a b, σ a = σ b → a = b) (huff : ∀ a, uff' (σ a) = uff a)
    (hperm : terms'.Perm (terms.map (·.map σ))) (har : ∀ t ∈ terms, t.length = 4)
    (r : Assigned) (h : assignDihedralsCore uff dparams excl terms = .ok r) :
    ∃ r', assignDihedralsCore uff' dparams (excl.map (·.map σ)) terms' = .ok r' ∧
      r'.terms.Perm (r.terms.map (·.map σ)) ∧
      (∀ t y y', (t, y) ∈ typed r → (t.map σ, y') ∈ typed r' → r'.coeffs[y']? = r.coeffs[y]?) ∧
      (∀ t y, (t, y) ∈ typed r → ∃ y', (t.map σ, y') ∈ typed r') := by
  have hkey : ∀ t ∈ terms, dihedralKey uff' terms' (t.map σ) = dihedralKey uff terms t := by
    intro t ht
    unfold dihedralKey
    rw [seqKey_rename σ uff uff' huff t, torsionCount_rename σ hσ terms terms' hperm har t (har t ht)]
  obtain ⟨hsup, hts, hty, hco, _⟩ := assignDihedralsCore_ok uff dparams excl terms r h
  have hsub : ∀ t ∈ applyExclude 4 excl terms, t ∈ terms := by
    intro t ht; rw [applyExclude_eq_filter] at ht; exact (List.mem_filter.mp ht).1
  have hpx := applyExclude_rename_perm σ hσ 4 excl terms terms' hperm
  cases h' : assignDihedralsCore uff' dparams (excl.map (·.map σ)) terms' with
  | error e =>
    exfalso
    unfold assignDihedralsCore at h'
    simp only at h'
    split at h'
    · rename_i hany
      obtain ⟨k, hk, hu⟩ := List.any_eq_true.mp hany
      obtain ⟨t', ht', rfl⟩ := List.mem_map.mp ((mem_dedup _ _).mp hk)
      obtain ⟨t, ht, rfl⟩ := List.mem_map.mp (hpx.mem_iff.mp ht')
      rw [hkey t (hsub t ht)] at hu
      exact hsup t ht (by simpa using hu)
    · cases h'
  | ok r' =>
    obtain ⟨_, hts', hty', hco', _⟩ := assignDihedralsCore_ok uff' dparams _ terms' r' h'
    have hp : r'.terms.Perm (r.terms.map (·.map σ)) := by
      rw [hts', hts]
      refine (hpx.filter _).trans ?_
      rw [List.filter_map]
      refine List.Perm.of_eq ?_
      congr 1
      apply List.filter_congr
      intro t ht
      simp only [Function.comp]
      rw [hkey t (hsub t ht)]
    refine ⟨r', rfl, hp, ?_, ?_⟩
    · intro t y y' hm hm'
      have ht : t ∈ terms := by
        have := (List.of_mem_zip hm).1
        rw [hts] at this
        exact hsub t (List.mem_filter.mp this).1
      rw [show typed r = _ from hty] at hm
      rw [show typed r' = _ from hty'] at hm'
      have h1 := typedBy_coeff _ _ (fun k => (dparams k).toText) t y hm
      have h2 := typedBy_coeff _ _ (fun k => (dparams k).toText) _ y' hm'
      rw [← hco] at h1
      rw [← hco'] at h2
      rw [h1, h2, hkey t ht]
    · intro t y hm
      have ht : t ∈ r.terms := (List.of_mem_zip hm).1
      have ht' : t.map σ ∈ r'.terms := hp.mem_iff.mpr (List.mem_map.mpr ⟨t, ht, rfl⟩)
      obtain ⟨y', hy'⟩ := mem_typed_of_mem (dihedralKey uff' terms') r'.terms _ ht'
      exact ⟨y', by rw [show typed r' = _ from hty']; exact hy'⟩

/-- non-vacuity of the guards of the two renaming theorems: shift the atom numbers by 10, list the two dihedrals of a
    five-atom chain in the other order -/
example :
    let σ : Nat → Nat := fun a => a + 10
    let uff := uffFn ["H_", "C_3", "C_3", "C_R", "H_"]
    let uff' : Nat → String := fun a => uff (a - 10)
    let terms := [[0, 1, 2, 3], [1, 2, 3, 4]]
    let terms' := [[11, 12, 13, 14], [10, 11, 12, 13]]
    let dparams : DKey → DParam := fun k => .text (" ".intercalate k.1)
    (∀ a b, σ a = σ b → a = b) ∧ (∀ a, uff' (σ a) = uff a) ∧ terms'.Perm (terms.map (·.map σ))
      ∧ (∀ t ∈ terms, t.length = 4) ∧ ∃ r, assignDihedralsCore uff dparams (some [0, 1, 2, 3]) terms = .ok r := by
  refine ⟨fun a b h => by simp only at h; omega, fun a => by simp, ?_, by decide, ⟨_, rfl⟩⟩
  exact List.Perm.swap _ _ _

/-! ## one theorem: invariance of the three assign functions under atom renaming + term-list permutation -/

inductive TermKind where
  | bond | angle | dihedral
deriving DecidableEq, Repr

/-- `assign_bond_types` / `assign_angle_types` / `assign_dihedral_types` on a per-atom UFF type LIST (checked entry points) -/
def assignKind (k : TermKind) (uff : List String) (params : List String → String) (dparams : DKey → DParam)
    (excl : Option (List Nat)) (terms : List (List Nat)) : Except Err Assigned :=
  match k with
  | .bond => assignBonds uff params excl terms
  | .angle => assignAngles uff params excl terms
  | .dihedral => assignDihedrals uff dparams excl terms

/-- two results describe the same typing up to the renaming `σ`: the kept terms of the second are the renamed kept terms
    of the first (in any order), every term of the first is found (renamed) in the second, and it has the same
    coefficient text there -/
def Corresponds (σ : Nat → Nat) (r r' : Assigned) : Prop :=
  r'.terms.Perm (r.terms.map (·.map σ)) ∧
  (∀ t y y', (t, y) ∈ typed r → (t.map σ, y') ∈ typed r' → r'.coeffs[y']? = r.coeffs[y]?) ∧
  (∀ t y, (t, y) ∈ typed r → ∃ y', (t.map σ, y') ∈ typed r')

/-- the outcomes of two runs correspond: both succeed with corresponding results, or both fail with the same error -/
def OutcomeCorresponds (σ : Nat → Nat) : Except Err Assigned → Except Err Assigned → Prop
  | .ok r, .ok r' => Corresponds σ r r'
  | .error e, .error e' => e = e'
  | _, _ => False

/-- **assign_invariant.** ONE statement for bonds, angles and dihedrals, at the level of the entry points that take the
    per-atom UFF type list.  Rename the atoms by ANY injective `σ` — the per-atom types move along
    (`uff'[σ a] = uff[a]`, which also says `σ` maps atoms to atoms and non-atoms to non-atoms), the exclusion set is renamed —
    and list the terms in ANY order.  Then the second run has the corresponding outcome: it fails iff the first fails,
    with the same error (wrong arity, untyped atom, unsupported torsion), and otherwise keeps exactly the renamed kept
    terms and gives every term the same coefficient text (for dihedrals: multiplicity about the central bond included). -/
theorem assign_invariant (k : TermKind) (uff uff' : List String) (params : List String → String)
    (dparams : DKey → DParam) (excl : Option (List Nat)) (terms terms' : List (List Nat)) (σ : Nat → Nat)
    (hσ : ∀ a b, σ a = σ b → a = b) (huff : ∀ a, uff'[σ a]? = uff[a]?)
    (hperm : terms'.Perm (terms.map (·.map σ))) :
    OutcomeCorresponds σ (assignKind k uff params dparams excl terms)
      (assignKind k uff' params dparams (excl.map (·.map σ)) terms') := by
  have hfn := uffFn_rename σ uff uff' huff
  cases k with
  | bond =>
    have hc := checkTerms_rename 2 σ uff uff' huff terms terms' hperm
    simp only [assignKind, assignBonds, hc]
    cases checkTerms 2 uff terms with
    | error e => exact rfl
    | ok u => exact assign_rename_invariant 2 _ _ params excl terms terms' σ hσ hfn hperm
  | angle =>
    have hc := checkTerms_rename 3 σ uff uff' huff terms terms' hperm
    simp only [assignKind, assignAngles, hc]
    cases checkTerms 3 uff terms with
    | error e => exact rfl
    | ok u => exact assign_rename_invariant 3 _ _ params excl terms terms' σ hσ hfn hperm
  | dihedral =>
    have hc := checkTerms_rename 4 σ uff uff' huff terms terms' hperm
    simp only [assignKind, assignDihedrals, hc]
    cases hck : checkTerms 4 uff terms with
    | error e => exact rfl
    | ok u =>
      cases u
      have har : ∀ t ∈ terms, t.length = 4 := ((checkTerms_ok_iff 4 uff terms).mp hck).1
      show OutcomeCorresponds σ (assignDihedralsCore (uffFn uff) dparams excl terms)
        (assignDihedralsCore (uffFn uff') dparams (excl.map (·.map σ)) terms')
      rcases assignDihedralsCore_cases (uffFn uff) dparams excl terms with ⟨⟨r, hr⟩, _⟩ | ⟨herr, t, ht, hu⟩
      · obtain ⟨r', hr', hcorr⟩ := assign_dihedrals_rename_invariant (uffFn uff) (uffFn uff') dparams excl terms terms'
          σ hσ hfn hperm har r hr
        rw [hr, hr']; exact hcorr
      · rw [herr]
        have htm : t ∈ terms := by rw [applyExclude_eq_filter] at ht; exact (List.mem_filter.mp ht).1
        have ht' : t.map σ ∈ applyExclude 4 (excl.map (·.map σ)) terms' :=
          (applyExclude_rename_perm σ hσ 4 excl terms terms' hperm).mem_iff.mpr (List.mem_map.mpr ⟨t, ht, rfl⟩)
        have hk := dihedralKey_rename σ hσ (uffFn uff) (uffFn uff') hfn terms terms' hperm har t htm
        rcases assignDihedralsCore_cases (uffFn uff') dparams (excl.map (·.map σ)) terms' with ⟨_, hall⟩ | ⟨herr', _⟩
        · exact absurd (hk ▸ hu) (hall _ ht')
        · rw [herr']; exact rfl

/-- non-vacuity: a five-atom chain H–C–C(ar)–C(ar)–H renumbered by the cyclic shift `a ↦ a+1 mod 5` (extended by the
    identity), its dihedrals listed in the other order: the hypotheses hold, and both runs succeed -/
example :
    let σ : Nat → Nat := fun a => if a < 4 then a + 1 else if a = 4 then 0 else a
    let uff := ["H_", "C_3", "C_R", "C_R", "H_"]
    let uff' := ["H_", "H_", "C_3", "C_R", "C_R"]
    let terms := [[0, 1, 2, 3], [1, 2, 3, 4]]
    let terms' := [[2, 3, 4, 0], [1, 2, 3, 4]]
    (∀ a b, σ a = σ b → a = b) ∧ (∀ a, uff'[σ a]? = uff[a]?) ∧ terms'.Perm (terms.map (·.map σ))
      ∧ (∃ r, assignKind .dihedral uff (fun _ => "") (fun k => .text (" ".intercalate k.1)) (some [0, 1, 2, 3]) terms = .ok r) := by
  refine ⟨fun a b h => ?_, fun a => ?_, List.Perm.swap _ _ _, ⟨_, rfl⟩⟩
  · simp only at h; split at h <;> split at h <;> (try split at h) <;> (try split at h) <;> omega
  · by_cases h4 : a < 4
    · have : a = 0 ∨ a = 1 ∨ a = 2 ∨ a = 3 := by omega
      rcases this with rfl | rfl | rfl | rfl <;> rfl
    · by_cases h5 : a = 4
      · subst h5; rfl
      · have h6 : 5 ≤ a := by omega
        simp only [h4, h5, if_false]
        rw [List.getElem?_eq_none_iff.mpr (by simpa using h6), List.getElem?_eq_none_iff.mpr (by simpa using h6)]

/-! ## retype -/

/-- periodic-table position used as the second sort key -/
def ptableKey (tbl : List (String × Dec)) (s : String) : Nat := (ptableIndex tbl (elementOf s)).getD 0

/-- **retype_spec** (for every mass table `tbl` and pair-coefficient function).  When retyping succeeds:
    the labels are the distinct per-atom UFF types (each once); `labels[atom_types[i]] = new_types[i]` for every atom;
    the element column is the element of the label, the mass column is the table mass of that element, the pair
    coefficient column is the pair text of the label; and the labels are in periodic-table order. -/
theorem retype_spec (tbl : List (String × Dec)) (pairText : String → String) (nt : List String) (r : Retyped)
    (h : retype tbl pairText nt = .ok r) :
    r.labels.Perm (dedup nt) ∧ r.labels.Nodup ∧ (∀ s, s ∈ r.labels ↔ s ∈ nt) ∧
    r.atomTypes.length = nt.length ∧
    (∀ (i : Nat) (s : String), nt[i]? = some s → ∃ y, r.atomTypes[i]? = some y ∧ r.labels[y]? = some s) ∧
    r.elements = r.labels.map elementOf ∧
    (∀ (k : Nat) (s : String), r.labels[k]? = some s →
        ∃ d, lookup tbl (elementOf s) = some d ∧ r.elements[k]? = some (elementOf s) ∧ r.masses[k]? = some d.toRat) ∧
    r.pairCoeffs = r.labels.map pairText ∧
    r.labels.Pairwise (fun a b => ptableKey tbl a ≤ ptableKey tbl b) := by
  obtain ⟨hdom, hlab, hel, hma, hat, hpc⟩ := retype_ok tbl pairText nt r h
  have hperm : r.labels.Perm (dedup nt) := hlab ▸ sortedTypes_perm tbl nt
  have hmem : ∀ s, s ∈ r.labels ↔ s ∈ nt := fun s => hperm.mem_iff.trans (mem_dedup nt s)
  refine ⟨hperm, hperm.nodup_iff.mpr (nodup_dedup nt), hmem, by rw [hat, List.length_map], ?_, hel, ?_, hpc, ?_⟩
  · intro i s hi
    refine ⟨typeIndex r.labels s, ?_, ?_⟩
    · rw [hat, List.getElem?_map, hi]; rfl
    · exact typeIndex_get _ _ ((hmem s).mpr (List.mem_of_getElem? hi))
  · intro k s hk
    have hs : s ∈ nt := (hmem s).mp (List.mem_of_getElem? hk)
    obtain ⟨d, hd⟩ := lookup_of_index tbl _ (hdom s hs)
    refine ⟨d, hd, ?_, ?_⟩
    · rw [hel, List.getElem?_map, hk]; rfl
    · rw [hma, hel, List.map_map, List.getElem?_map, hk]
      simp [Function.comp, hd]
  · rw [hlab]
    refine (sortedTypes_ordered tbl nt).imp ?_
    intro a b h
    show ptableKeyOf tbl a ≤ ptableKeyOf tbl b
    rcases h with h | h
    · exact Nat.le_of_lt h
    · exact Nat.le_of_eq h.1

/-- **stable_sort_spec.** The sort used by the model of retype (`sortBy`, structural insertion sort) is a STABLE sort,
    like python's `list.sort`: the result is a permutation of the input, and whenever every earlier element of the input
    is `R`-related to every later one (any relation `R`: e.g. "comes before", or the order left by a previous sort), the
    result is ordered by key, and among equal keys by `R`.  `le` must be a total preorder. -/
theorem stable_sort_spec {α} (le : α → α → Bool) (R : α → α → Prop)
    (htrans : ∀ a b c, le a b = true → le b c = true → le a c = true)
    (htotal : ∀ a b, le a b = true ∨ le b a = true) (l : List α) (hl : l.Pairwise R) :
    (sortBy le l).Perm l ∧ (sortBy le l).Pairwise (StableOrder le R) :=
  ⟨sortBy_perm le l, sortBy_stable le R htrans htotal l hl⟩

example : sortBy (fun a b : Nat × String => decide (a.1 ≤ b.1)) [(2, "x"), (1, "b"), (2, "a"), (1, "a")]
    = [(1, "b"), (1, "a"), (2, "x"), (2, "a")] := by decide

/-- **retype_order.** The full order of the retype tables: the labels are STRICTLY increasing in the lexicographic order
    (periodic-table position of the element, then the type string) — primary key, secondary string order, and the
    stability of the second sort that carries the string order into groups of equal element. -/
theorem retype_order (tbl : List (String × Dec)) (pairText : String → String) (nt : List String) (r : Retyped)
    (h : retype tbl pairText nt = .ok r) : r.labels.Pairwise (LabelOrder tbl) := by
  obtain ⟨_, hlab, _⟩ := retype_ok tbl pairText nt r h
  rw [hlab]; exact sortedTypes_ordered tbl nt

theorem labelOrder_asymm (tbl : List (String × Dec)) (a b : String) (h : LabelOrder tbl a b) : ¬ LabelOrder tbl b a := by
  rintro (h2 | ⟨h2, h3⟩)
  · rcases h with h | ⟨h, _⟩ <;> omega
  · rcases h with h | ⟨_, h4⟩
    · omega
    · exact String.lt_asymm h4 h3

/-- **retype_labels_unique** (= `sorted(set(new_types), key=lambda s: (ptable_order(s), s))`).  The label table is
    DETERMINED by the per-atom types: any listing of the distinct types that is increasing in (periodic-table position,
    string) is the label table. -/
theorem retype_labels_unique (tbl : List (String × Dec)) (pairText : String → String) (nt : List String) (r : Retyped)
    (h : retype tbl pairText nt = .ok r) (l : List String) (hp : l.Perm (dedup nt)) (hs : l.Pairwise (LabelOrder tbl)) :
    l = r.labels := by
  have h1 := (retype_spec tbl pairText nt r h).1
  exact sorted_perm_unique (LabelOrder tbl) (labelOrder_asymm tbl) l r.labels (hp.trans h1.symm) hs
    (retype_order tbl pairText nt r h)

/-- consequence: retype does not depend on the order of the atoms, only on the SET of their types -/
theorem retype_labels_perm_invariant (tbl : List (String × Dec)) (pairText : String → String) (nt nt' : List String)
    (r r' : Retyped) (h : retype tbl pairText nt = .ok r) (h' : retype tbl pairText nt' = .ok r')
    (hset : ∀ s, s ∈ nt ↔ s ∈ nt') : r.labels = r'.labels ∧ r.elements = r'.elements ∧ r.masses = r'.masses
      ∧ r.pairCoeffs = r'.pairCoeffs := by
  have hl : r.labels = r'.labels := by
    refine sorted_perm_unique (LabelOrder tbl) (labelOrder_asymm tbl) _ _ ?_ (retype_order tbl pairText nt r h)
      (retype_order tbl pairText nt' r' h')
    have s1 := retype_spec tbl pairText nt r h
    have s2 := retype_spec tbl pairText nt' r' h'
    refine (List.perm_ext_iff_of_nodup s1.2.1 s2.2.1).mpr ?_
    intro s; rw [s1.2.2.1, s2.2.2.1]; exact hset s
  obtain ⟨_, _, he, hm, _, hpc⟩ := retype_ok tbl pairText nt r h
  obtain ⟨_, _, he', hm', _, hpc'⟩ := retype_ok tbl pairText nt' r' h'
  refine ⟨hl, ?_, ?_, ?_⟩
  · rw [he, he', hl]
  · rw [hm, hm', he, he', hl]
  · rw [hpc, hpc', hl]

/-- the model's sort on the generated table: hydrogen, the carbon types in string order, oxygen, zirconium -/
example : sortedTypes Mofun.Generated.atomicMasses ["C_R", "O_3", "H_", "Zr3+4", "C_3", "C_2", "H_", "O_2"]
    = ["H_", "C_2", "C_3", "C_R", "O_2", "O_3", "Zr3+4"] := by decide +kernel

/-- non-vacuity on the generated table of `/repo`: retyping succeeds on a mixed organic/metal type list
    (the resulting tables are compared with the real code by the correspondence run) -/
example : ∃ r, retype Mofun.Generated.atomicMasses (fun s => "# " ++ s) ["C_R", "H_", "Zr3+4", "C_3", "H_"] = .ok r := by
  unfold retype
  rw [if_neg (by decide +kernel)]
  exact ⟨_, rfl⟩

/-- a type whose element is not in the mass table is rejected (`Du`, `Lw6+3` of the UFF4MOF table) -/
example : retype Mofun.Generated.atomicMasses (fun s => s) ["C_R", "Lw6+3"] = .error (.reject "element") := by
  unfold retype
  rw [if_pos (by decide +kernel)]

end Mofun.Terms
