/-
  C06 — force-field terms and coefficients of the replacement arrive intact.
  Property theorems only (helper lemmas: Proofs/ReplaceTerms*.lean).  Model: Model/Replace.lean (`replaceCore`),
  Model/Topo.lean (`Atoms.extendTypes`, `numTermTypes`, `TermTable.extendWith`, `Atoms.extend`, `Atoms.delete`).

  Vocabulary (defined in the lemma files, namespace `Mofun.C06`):
  * `Kind`, `κ.get a` — one of bonds / angles / dihedrals / impropers and its table in `a`;
  * `sig t = (t.atoms, t.ty)` — what the property constrains of a term;
  * `imgAt r pairs ra base m a` — index, before the final delete, of atom `a` of the replacement pattern for the match
    `m` that was processed when the structure had `base` atoms: the matched atom it is identified with through the
    index map (`pairs ↦ m.idx`), or its place in append order;  `base = |s| + k·nAdd` for the `k`-th replaced match,
    expressed below as `ms = pre ++ m :: post`, `k = pre.length`;
  * `delOf pairs ra ms` — the atoms removed by the final delete; `newIndex del x` — index of a surviving atom afterwards
    (C10: rank among the survivors);
  * `nsFrom …` — per replaced match, the signatures its `extend` appends; `specSigs` — the fold of `extend` on signatures.
-/
import MofunModel.Proofs.ReplaceTermsGuards

namespace Mofun.C06
open Mofun

/-! ### compatibility (the property's clause) -/

/-- the table defines a coefficient for every type id in use -/
def Covers (t : TermTable) : Prop := t.coeffs ≠ [] ∧ ∀ u ∈ t.terms, u.ty < t.coeffs.length

instance (t : TermTable) : Decidable (Covers t) := by unfold Covers; infer_instance

/-- **the property's compatibility clause** for one kind of term: both define coefficient tables covering all their
    type ids, or neither defines coefficients, or at least one of the two has no terms of that kind -/
def Compat (s r : Atoms) (κ : Kind) : Prop :=
  (Covers (κ.get s) ∧ Covers (κ.get r)) ∨ ((κ.get s).coeffs = [] ∧ (κ.get r).coeffs = [])
    ∨ (κ.get s).terms = [] ∨ (κ.get r).terms = []

instance (s r : Atoms) (κ : Kind) : Decidable (Compat s r κ) := by unfold Compat; infer_instance

/-- what the ORIGINAL terms need in order to keep their text: the structure's table covers their ids, or neither
    side defines coefficients.  It follows from `Compat` + internal consistency of `s`, except in one corner that the
    property's clause admits: `s` has terms but no table, `r` has a table but no terms (see `orphan_table_corner`). -/
def OldResolvable (s r : Atoms) (κ : Kind) : Prop :=
  (∀ u ∈ (κ.get s).terms, u.ty < (κ.get s).coeffs.length) ∨ ((κ.get s).coeffs = [] ∧ (κ.get r).coeffs = [])

instance (s r : Atoms) (κ : Kind) : Decidable (OldResolvable s r κ) := by unfold OldResolvable; infer_instance

/-- internal consistency of one table: no coefficients at all, or every id in use has one -/
def Consistent (t : TermTable) : Prop := t.coeffs = [] ∨ ∀ u ∈ t.terms, u.ty < t.coeffs.length

instance (t : TermTable) : Decidable (Consistent t) := by unfold Consistent; infer_instance

theorem oldResolvable_of_compat (s r : Atoms) (κ : Kind) (hc : Compat s r κ) (hs : Consistent (κ.get s))
    (hcorner : ¬ ((κ.get s).terms ≠ [] ∧ (κ.get s).coeffs = [] ∧ (κ.get r).coeffs ≠ [])) :
    OldResolvable s r κ := by
  unfold OldResolvable
  rcases hc with ⟨h1, _⟩ | h | h | _
  · exact Or.inl h1.2
  · exact Or.inr h
  · left; intro u hu; rw [h] at hu; simp at hu
  · rcases hs with h0 | h0
    · by_cases ht : (κ.get s).terms = []
      · left; intro u hu; rw [ht] at hu; simp at hu
      · by_cases hr : (κ.get r).coeffs = []
        · exact Or.inr ⟨h0, hr⟩
        · exact absurd ⟨ht, h0, hr⟩ hcorner
    · exact Or.inl h0

/-- the offset given to the pattern's type ids is the length of the structure's table -/
theorem offset_is_table_length (s r : Atoms) (κ : Kind) (hc : Compat s r κ) (hr : (κ.get r).terms ≠ []) :
    numTermTypes (κ.get s) = (κ.get s).coeffs.length ∨ ((κ.get s).coeffs = [] ∧ (κ.get r).coeffs = []) := by
  rcases hc with ⟨h1, _⟩ | h | h | h
  · exact Or.inl (numTermTypes_covered _ h1.2)
  · exact Or.inr h
  · exact Or.inl (numTermTypes_noterms _ h)
  · exact absurd h hr

/-! ### the replacement, unfolded -/

/-- a successful replacement with a non-empty pattern = the loop over the matches (invariant `FoldInv`) followed by
    one delete of the accumulated removal list -/
theorem replace_unfold (s p r res : Atoms) (ms : List PlacedMatch) (ra ig : Bool) (hne : r.atoms ≠ [])
    (h : replaceCore s p r ms ra ig = .ok res) :
    ∃ st, FoldInv s r (p0Of p) (unchangedPairs r p) ra ms st
      ∧ st.s.delete (delOf (unchangedPairs r p) ra ms) = .ok res := by
  have hne' : r.atoms.isEmpty = false := by simpa using hne
  rw [replaceCore_nonempty s p r ms ra ig hne'] at h
  cases hf : ms.foldl (stepR s r (p0Of p) (unchangedPairs r p) (s.extendTypes r).2 ra ig)
      (.ok { s := (s.extendTypes r).1, del := [] }) with
  | error e => rw [hf] at h; cases h
  | ok st =>
    rw [hf] at h
    have hI := foldInv_all s p r ms ra ig st hf
    refine ⟨st, hI, ?_⟩
    rw [← hI.del]; exact h

/-- the signatures the replaced matches append, kind `κ` -/
abbrev patternSigs (κ : Kind) (s p r : Atoms) (ra : Bool) (ms : List PlacedMatch) : List (List Sig) :=
  nsFrom κ r (unchangedPairs r p) ra (numTermTypes (κ.get s)) s.atoms.length ms

/-- no replaced match puts a pattern term on the atoms of `x` (forwards or reversed) -/
def notOverridden (Ns : List (List Sig)) (x : Sig) : Bool := Ns.all (fun N => !sup (N.map (·.1)) x.1)

/-- the result's terms as one expression: the fold of `extend` over the matches, then the delete -/
theorem replace_terms_spec (κ : Kind) (s p r res : Atoms) (ms : List PlacedMatch) (ra ig : Bool) (hne : r.atoms ≠ [])
    (h : replaceCore s p r ms ra ig = .ok res) :
    (κ.get res).coeffs = (κ.get s).coeffs ++ (κ.get r).coeffs
    ∧ (κ.get res).terms.map sig =
        ((specSigs ((κ.get s).terms.map sig) (patternSigs κ s p r ra ms)).filter (fun x =>
            survives (delOf (unchangedPairs r p) ra ms) x.1)).map (reSig (delOf (unchangedPairs r p) ra ms)) := by
  obtain ⟨st, hI, hd⟩ := replace_unfold s p r res ms ra ig hne h
  obtain ⟨ht, hc⟩ := delete_kind κ _ _ _ hd
  refine ⟨by rw [hc, hI.coeffs κ], ?_⟩
  rw [ht, deleteTerms_sigs, hI.sigs κ]

/-- **replace_terms_eq** (no guard at all).  The terms of kind `κ` after a replacement are, in this order:
    the terms of `s` that touch no removed atom and that no pattern term overrides (order, type ids kept), then what
    remains of the pattern terms appended match after match; atom indices through the final re-index; the coefficient
    table is `s`'s table followed by `r`'s. -/
theorem replace_terms_eq (κ : Kind) (s p r res : Atoms) (ms : List PlacedMatch) (ra ig : Bool) (hne : r.atoms ≠ [])
    (h : replaceCore s p r ms ra ig = .ok res) :
    (κ.get res).coeffs = (κ.get s).coeffs ++ (κ.get r).coeffs
    ∧ (κ.get res).terms.map sig =
        (((κ.get s).terms.map sig).filter (fun x =>
            survives (delOf (unchangedPairs r p) ra ms) x.1 && notOverridden (patternSigs κ s p r ra ms) x)).map
          (reSig (delOf (unchangedPairs r p) ra ms))
        ++ ((specSigs [] (patternSigs κ s p r ra ms)).filter (fun x =>
            survives (delOf (unchangedPairs r p) ra ms) x.1)).map (reSig (delOf (unchangedPairs r p) ra ms)) := by
  obtain ⟨hco, hsp⟩ := replace_terms_spec κ s p r res ms ra ig hne h
  refine ⟨hco, ?_⟩
  rw [hsp, specSigs_old_new, List.filter_append, List.map_append, List.filter_filter]
  rfl

/-! ### original terms -/

/-- **replace_old_terms.**  A term of `s` that touches no removed atom and that no pattern term (of any replaced
    match) overrides is in the result, between the same physical atoms (`newIndex`), with its type id, and — when the
    structure's table covers its ids or neither side defines coefficients — the id still resolves to its original
    text (the old table is a prefix of the new one).  The converse ("iff") is `replace_terms_eq` +
    `replace_no_other_terms`: the result's terms are exactly these followed by pattern terms. -/
theorem replace_old_terms (κ : Kind) (s p r res : Atoms) (ms : List PlacedMatch) (ra ig : Bool) (hne : r.atoms ≠ [])
    (h : replaceCore s p r ms ra ig = .ok res) (t : Term) (ht : t ∈ (κ.get s).terms)
    (hsurv : survives (delOf (unchangedPairs r p) ra ms) t.atoms = true)
    (hnot : notOverridden (patternSigs κ s p r ra ms) (sig t) = true) :
    (∃ t' ∈ (κ.get res).terms, t'.atoms = t.atoms.map (newIndex (delOf (unchangedPairs r p) ra ms)) ∧ t'.ty = t.ty)
    ∧ (OldResolvable s r κ → Resolves (κ.get res).coeffs t.ty = Resolves (κ.get s).coeffs t.ty) := by
  obtain ⟨hco, hsig⟩ := replace_terms_eq κ s p r res ms ra ig hne h
  constructor
  · have hmem : reSig (delOf (unchangedPairs r p) ra ms) (sig t) ∈ (κ.get res).terms.map sig := by
      rw [hsig]
      apply List.mem_append_left
      refine List.mem_map.mpr ⟨sig t, List.mem_filter.mpr ⟨List.mem_map.mpr ⟨t, ht, rfl⟩, ?_⟩, rfl⟩
      simp only [Bool.and_eq_true]
      exact ⟨hsurv, hnot⟩
    rw [reSig_newIndex _ (delOf_nodup _ ra ms) (sig t) hsurv] at hmem
    obtain ⟨t', ht', e⟩ := List.mem_map.mp hmem
    exact ⟨t', ht', congrArg Prod.fst e, congrArg Prod.snd e⟩
  · intro hold
    rw [hco]
    rcases hold with hcov | ⟨h1, h2⟩
    · exact resolves_append_prefix _ _ _ (hcov t ht)
    · rw [h1, h2]; rfl

/-- what "overridden" means: some replaced match has a pattern term whose image is the term's atom tuple,
    forwards or reversed -/
theorem notOverridden_false_iff (κ : Kind) (s p r : Atoms) (ms : List PlacedMatch) (ra : Bool) (x : Sig) :
    notOverridden (patternSigs κ s p r ra ms) x = false ↔
      ∃ pre m post, ms = pre ++ m :: post ∧ ∃ u ∈ (κ.get r).terms,
        let img := u.atoms.map (imgAt r (unchangedPairs r p) ra
          (s.atoms.length + pre.length * nAdd r (unchangedPairs r p) ra) m)
        x.1 = img ∨ x.1 = img.reverse := by
  unfold notOverridden
  rw [List.all_eq_false]
  constructor
  · rintro ⟨N, hN, hs⟩
    have hs' : sup (N.map (·.1)) x.1 = true := by simpa using hs
    obtain ⟨preN, postN, e⟩ := List.append_of_mem hN
    obtain ⟨pre, m, post, e1, _, e3, _⟩ := nsFrom_split κ r _ ra _ _ ms preN postN N e
    obtain ⟨a, ha, hx⟩ := (sup_iff _ _).mp hs'
    rw [e3] at ha
    simp only [newSigs, List.map_map] at ha
    obtain ⟨u, hu, rfl⟩ := List.mem_map.mp ha
    exact ⟨pre, m, post, e1, u, hu, hx⟩
  · rintro ⟨pre, m, post, e, u, hu, hx⟩
    refine ⟨newSigs κ r (unchangedPairs r p) ra (numTermTypes (κ.get s))
      (s.atoms.length + pre.length * nAdd r (unchangedPairs r p) ra) m, ?_, ?_⟩
    · unfold patternSigs
      rw [e, nsFrom_append]
      apply List.mem_append_right
      simp [nsFrom]
    · have : sup ((newSigs κ r (unchangedPairs r p) ra (numTermTypes (κ.get s))
          (s.atoms.length + pre.length * nAdd r (unchangedPairs r p) ra) m).map (·.1)) x.1 = true := by
        rw [sup_iff]
        refine ⟨_, ?_, hx⟩
        simp only [newSigs, List.map_map]
        exact List.mem_map.mpr ⟨u, hu, rfl⟩
      simp [this]

/-! ### nothing else -/

/-- **replace_no_other_terms.**  Every term of the result is an original term that touches no removed atom and is
    not overridden, or the image of a term of the replacement pattern for one replaced match. -/
theorem replace_no_other_terms (κ : Kind) (s p r res : Atoms) (ms : List PlacedMatch) (ra ig : Bool)
    (hne : r.atoms ≠ []) (h : replaceCore s p r ms ra ig = .ok res) (t' : Term) (ht' : t' ∈ (κ.get res).terms) :
    (∃ t ∈ (κ.get s).terms, survives (delOf (unchangedPairs r p) ra ms) t.atoms = true
        ∧ notOverridden (patternSigs κ s p r ra ms) (sig t) = true
        ∧ t'.atoms = t.atoms.map (newIndex (delOf (unchangedPairs r p) ra ms)) ∧ t'.ty = t.ty)
    ∨ (∃ pre m post, ms = pre ++ m :: post ∧ ∃ u ∈ (κ.get r).terms,
        t'.atoms = (u.atoms.map (imgAt r (unchangedPairs r p) ra
            (s.atoms.length + pre.length * nAdd r (unchangedPairs r p) ra) m)).map
              (newIndex (delOf (unchangedPairs r p) ra ms))
        ∧ t'.ty = u.ty + numTermTypes (κ.get s)) := by
  obtain ⟨_, hsig⟩ := replace_terms_eq κ s p r res ms ra ig hne h
  have hmem : sig t' ∈ (κ.get res).terms.map sig := List.mem_map.mpr ⟨t', ht', rfl⟩
  rw [hsig, List.mem_append] at hmem
  have hnd := delOf_nodup (unchangedPairs r p) ra ms
  rcases hmem with hm | hm
  · left
    obtain ⟨x, hx, e⟩ := List.mem_map.mp hm
    obtain ⟨hxs, hk⟩ := List.mem_filter.mp hx
    simp only [Bool.and_eq_true] at hk
    obtain ⟨t, ht, rfl⟩ := List.mem_map.mp hxs
    rw [reSig_newIndex _ hnd _ hk.1] at e
    exact ⟨t, ht, hk.1, hk.2, (congrArg Prod.fst e).symm, (congrArg Prod.snd e).symm⟩
  · right
    obtain ⟨x, hx, e⟩ := List.mem_map.mp hm
    obtain ⟨hxs, hk⟩ := List.mem_filter.mp hx
    obtain ⟨preN, N, postN, eN, hxN, _⟩ := (mem_specSigs_nil _ x).mp hxs
    obtain ⟨pre, m, post, e1, _, e3, _⟩ := nsFrom_split κ r _ ra _ _ ms preN postN N eN
    rw [e3] at hxN
    obtain ⟨u, hu, rfl⟩ := List.mem_map.mp hxN
    rw [reSig_newIndex _ hnd _ hk] at e
    exact ⟨pre, m, post, e1, u, hu, (congrArg Prod.fst e).symm, (congrArg Prod.snd e).symm⟩

/-! ### the pattern's terms -/

/-- **replace_pattern_terms_once.**  For every replaced match `m` (`ms = pre ++ m :: post`) and every term `u` of the
    replacement pattern (kind `κ`): the images of `u`'s atoms (retained atoms through the index map, inserted atoms in
    append order) are not removed; the result contains a term joining their final indices whose type id is `u`'s id
    plus the offset, and that id resolves in the result's table to `r`'s own coefficient text of `u` (under `Compat`);
    and — matches non-overlapping, `r`'s terms pairwise distinct up to reversal — it is the ONLY term of the result
    on those atoms, forwards or reversed. -/
theorem replace_pattern_terms_once (κ : Kind) (s p r res : Atoms) (pre post : List PlacedMatch) (m : PlacedMatch)
    (ra ig : Bool) (hne : r.atoms ≠ [])
    (h : replaceCore s p r (pre ++ m :: post) ra ig = .ok res)
    (hok : MatchesOK s p (pre ++ m :: post)) (hinj : PairsInj (unchangedPairs r p))
    (hterms : TermsOK (κ.get r) r.atoms.length) (hdist : DistinctUpToRev (κ.get r).terms)
    (hcompat : Compat s r κ) (u : Term) (hu : u ∈ (κ.get r).terms) :
    let del := delOf (unchangedPairs r p) ra (pre ++ m :: post)
    let img := u.atoms.map (imgAt r (unchangedPairs r p) ra
      (s.atoms.length + pre.length * nAdd r (unchangedPairs r p) ra) m)
    let fin := img.map (newIndex del)
    survives del img = true
    ∧ (∃ t ∈ (κ.get res).terms, t.atoms = fin ∧ t.ty = u.ty + numTermTypes (κ.get s))
    ∧ Resolves (κ.get res).coeffs (u.ty + numTermTypes (κ.get s)) = Resolves (κ.get r).coeffs u.ty
    ∧ ((κ.get res).terms.map sig).countP (onAtoms fin) = 1 := by
  intro del img fin
  obtain ⟨hco, hsig⟩ := replace_terms_eq κ s p r res _ ra ig hne h
  have hnd : del.Nodup := delOf_nodup _ ra _
  have hbase : s.atoms.length ≤ s.atoms.length + pre.length * nAdd r (unchangedPairs r p) ra := Nat.le_add_right _ _
  have hult : ∀ a ∈ u.atoms, a < r.atoms.length := (hterms u hu).2
  have hune : u.atoms ≠ [] := (hterms u hu).1
  -- (1) the image survives
  have hsurv : survives del img = true := by
    rw [survives_iff]
    intro x hx
    obtain ⟨a, ha, rfl⟩ := List.mem_map.mp hx
    exact image_survives s p r ra pre post m hok _ hbase a (hult a ha)
  -- the fragments: before, this match, after
  have hNs : patternSigs κ s p r ra (pre ++ m :: post)
      = nsFrom κ r (unchangedPairs r p) ra (numTermTypes (κ.get s)) s.atoms.length pre
        ++ newSigs κ r (unchangedPairs r p) ra (numTermTypes (κ.get s))
            (s.atoms.length + pre.length * nAdd r (unchangedPairs r p) ra) m
          :: nsFrom κ r (unchangedPairs r p) ra (numTermTypes (κ.get s))
            (s.atoms.length + pre.length * nAdd r (unchangedPairs r p) ra + nAdd r (unchangedPairs r p) ra) post := by
    unfold patternSigs
    rw [nsFrom_append]; rfl
  -- later matches share no atom with the image
  have hlater : ∀ N' ∈ nsFrom κ r (unchangedPairs r p) ra (numTermTypes (κ.get s))
      (s.atoms.length + pre.length * nAdd r (unchangedPairs r p) ra + nAdd r (unchangedPairs r p) ra) post,
      ∀ x ∈ N', ∀ y ∈ img, y ∉ x.1 := by
    intro N' hN' x hx y hy
    obtain ⟨a, ha, rfl⟩ := List.mem_map.mp hy
    exact later_images_disjoint κ s p r ra _ pre post m hok hterms _ _ hbase (Nat.le_refl _) N' hN' x hx a (hult a ha)
  have himgne : img ≠ [] := by
    intro e; exact hune (List.map_eq_nil_iff.mp e)
  obtain ⟨y0, hy0⟩ := List.exists_mem_of_ne_nil img himgne
  have hnoton : ∀ N' ∈ nsFrom κ r (unchangedPairs r p) ra (numTermTypes (κ.get s))
      (s.atoms.length + pre.length * nAdd r (unchangedPairs r p) ra + nAdd r (unchangedPairs r p) ra) post,
      N'.any (onAtoms img) = false := by
    intro N' hN'
    rw [List.any_eq_false]
    intro x hx hon
    have := hlater N' hN' x hx y0 hy0
    rcases (onAtoms_iff img x).mp hon with e | e
    · exact this (e ▸ hy0)
    · exact this (by rw [e]; simpa using hy0)
  have hnotsup : ∀ N' ∈ nsFrom κ r (unchangedPairs r p) ra (numTermTypes (κ.get s))
      (s.atoms.length + pre.length * nAdd r (unchangedPairs r p) ra + nAdd r (unchangedPairs r p) ra) post,
      sup (N'.map (·.1)) img = false := by
    intro N' hN'
    cases hs : sup (N'.map (·.1)) img with
    | false => rfl
    | true =>
      exfalso
      obtain ⟨a, ha, hx⟩ := (sup_iff _ _).mp hs
      obtain ⟨x, hx', rfl⟩ := List.mem_map.mp ha
      have := hlater N' hN' x hx' y0 hy0
      rcases hx with e | e
      · exact this (e ▸ hy0)
      · apply this
        have : y0 ∈ x.1.reverse := e ▸ hy0
        simpa using this
  -- the pattern's term is among what this match appends
  have hmine : (img, u.ty + numTermTypes (κ.get s)) ∈ newSigs κ r (unchangedPairs r p) ra (numTermTypes (κ.get s))
      (s.atoms.length + pre.length * nAdd r (unchangedPairs r p) ra) m :=
    List.mem_map.mpr ⟨u, hu, rfl⟩
  refine ⟨hsurv, ?_, ?_, ?_⟩
  · -- (2) present
    have hmem : reSig del (img, u.ty + numTermTypes (κ.get s)) ∈ (κ.get res).terms.map sig := by
      rw [hsig]
      apply List.mem_append_right
      refine List.mem_map.mpr ⟨_, List.mem_filter.mpr ⟨?_, hsurv⟩, rfl⟩
      rw [mem_specSigs_nil]
      exact ⟨_, _, _, hNs, hmine, hnotsup⟩
    rw [reSig_newIndex del hnd _ hsurv] at hmem
    obtain ⟨t, ht, e⟩ := List.mem_map.mp hmem
    exact ⟨t, ht, congrArg Prod.fst e, congrArg Prod.snd e⟩
  · -- (3) resolves to the pattern's own text
    rw [hco]
    have hrne : (κ.get r).terms ≠ [] := List.ne_nil_of_mem hu
    rcases offset_is_table_length s r κ hcompat hrne with e | ⟨e1, e2⟩
    · rw [e, Nat.add_comm]; exact resolves_append_offset _ _ _
    · rw [e1, e2]; simp [Resolves]
  · -- (4) exactly once
    have hinv := (replace_terms_spec κ s p r res _ ra ig hne h).2
    rw [hinv, countP_delete del hnd _ img hsurv, hNs]
    apply countP_specSigs_one img _ _ _ _ _ hnoton
    -- among the terms this match appends, exactly one sits on `img`
    apply countP_eq_one_of_pairwise _ _ _ _ hmine (by simp [onAtoms])
    unfold newSigs
    rw [List.pairwise_map]
    refine List.Pairwise.imp_of_mem ?_ hdist
    intro u1 u2 hu1 hu2 hne12 hboth
    have hmm : m ∈ pre ++ m :: post := by simp
    have hinjimg : ∀ l : List Nat, (∀ a ∈ l, a < r.atoms.length) → ∀ l' : List Nat,
        (∀ a ∈ l', a < r.atoms.length) →
        l.map (imgAt r (unchangedPairs r p) ra (s.atoms.length + pre.length * nAdd r (unchangedPairs r p) ra) m)
          = l'.map (imgAt r (unchangedPairs r p) ra (s.atoms.length + pre.length * nAdd r (unchangedPairs r p) ra) m)
        → l = l' := by
      intro l hl l' hl' e
      refine map_inj_on _ (fun a => a < r.atoms.length) ?_ l l' hl hl' e
      intro a b ha hb eab
      exact imgAt_inj r _ ra _ s.atoms.length m
        (matchMap_vals_nodup _ ra m (matchesOK_idx_nodup s p _ hok m hmm) hinj (matchesOK_pairs_lt s p r _ hok m hmm))
        (matchesOK_vals_lt s p r ra _ hok m hmm) hbase a b ha hb eab
    have h1lt := (hterms u1 hu1).2
    have h2lt := (hterms u2 hu2).2
    have h2rev : ∀ a ∈ u2.atoms.reverse, a < r.atoms.length := fun a ha => h2lt a (by simpa using ha)
    obtain ⟨ho1, ho2⟩ := hboth
    rw [onAtoms_iff] at ho1 ho2
    simp only at ho1 ho2
    rcases ho1 with e1 | e1 <;> rcases ho2 with e2 | e2
    · exact hne12.1 (hinjimg _ h1lt _ h2lt (e1.trans e2.symm))
    · apply hne12.2
      apply hinjimg _ h1lt _ h2rev
      rw [List.map_reverse, e2, List.reverse_reverse, e1]
    · apply hne12.2
      apply hinjimg _ h1lt _ h2rev
      rw [List.map_reverse, e2, e1]
    · exact hne12.1 (hinjimg _ h1lt _ h2lt (e1.trans e2.symm))

/-- the generic statement as a proposition about one kind -/
def PatternTermsOnce (κ : Kind) : Prop :=
  ∀ (s p r res : Atoms) (pre post : List PlacedMatch) (m : PlacedMatch) (ra ig : Bool), r.atoms ≠ [] →
    replaceCore s p r (pre ++ m :: post) ra ig = .ok res →
    MatchesOK s p (pre ++ m :: post) → PairsInj (unchangedPairs r p) →
    TermsOK (κ.get r) r.atoms.length → DistinctUpToRev (κ.get r).terms → Compat s r κ →
    ∀ u ∈ (κ.get r).terms,
      let del := delOf (unchangedPairs r p) ra (pre ++ m :: post)
      let img := u.atoms.map (imgAt r (unchangedPairs r p) ra
        (s.atoms.length + pre.length * nAdd r (unchangedPairs r p) ra) m)
      let fin := img.map (newIndex del)
      survives del img = true
      ∧ (∃ t ∈ (κ.get res).terms, t.atoms = fin ∧ t.ty = u.ty + numTermTypes (κ.get s))
      ∧ Resolves (κ.get res).coeffs (u.ty + numTermTypes (κ.get s)) = Resolves (κ.get r).coeffs u.ty
      ∧ ((κ.get res).terms.map sig).countP (onAtoms fin) = 1

/-- the four instances (bonds, angles, dihedrals, impropers) of the generic statement -/
theorem replace_pattern_bonds_once : PatternTermsOnce .bond :=
  fun s p r res pre post m ra ig h1 h2 h3 h4 h5 h6 h7 u hu =>
    replace_pattern_terms_once .bond s p r res pre post m ra ig h1 h2 h3 h4 h5 h6 h7 u hu
theorem replace_pattern_angles_once : PatternTermsOnce .angle :=
  fun s p r res pre post m ra ig h1 h2 h3 h4 h5 h6 h7 u hu =>
    replace_pattern_terms_once .angle s p r res pre post m ra ig h1 h2 h3 h4 h5 h6 h7 u hu
theorem replace_pattern_dihedrals_once : PatternTermsOnce .dihedral :=
  fun s p r res pre post m ra ig h1 h2 h3 h4 h5 h6 h7 u hu =>
    replace_pattern_terms_once .dihedral s p r res pre post m ra ig h1 h2 h3 h4 h5 h6 h7 u hu
theorem replace_pattern_impropers_once : PatternTermsOnce .improper :=
  fun s p r res pre post m ra ig h1 h2 h3 h4 h5 h6 h7 u hu =>
    replace_pattern_terms_once .improper s p r res pre post m ra ig h1 h2 h3 h4 h5 h6 h7 u hu

/-! ### atoms taken over from the pattern -/

/-- **replace_atom_payload.**  For every replaced match `m` and every atom `a` of the replacement pattern (row `br`):
    its image is not removed and the atom found there in the result has type id `br.ty + (number of atom types of s)`,
    which resolves in the result's tables to `r`'s element (always), label and mass (tables of `s` aligned with its
    element table) and pair coefficient (when `s` has a pair coefficient for each of its types — "both have pair
    tables" — or neither side has any).  A RETAINED atom (identified with matched atom `v` through the index map)
    keeps `v`'s position, charge and group; an INSERTED atom carries `r`'s charge and group and the placed position. -/
theorem replace_atom_payload (s p r res : Atoms) (pre post : List PlacedMatch) (m : PlacedMatch) (ra ig : Bool)
    (hne : r.atoms ≠ []) (h : replaceCore s p r (pre ++ m :: post) ra ig = .ok res)
    (hok : MatchesOK s p (pre ++ m :: post)) (hinj : PairsInj (unchangedPairs r p))
    (a : Nat) (br : AtomRow) (ha : r.atoms[a]? = some br) :
    let del := delOf (unchangedPairs r p) ra (pre ++ m :: post)
    let x := imgAt r (unchangedPairs r p) ra (s.atoms.length + pre.length * nAdd r (unchangedPairs r p) ra) m a
    x ∉ del ∧ ∃ row, res.atoms[newIndex del x]? = some row
      ∧ row.ty = br.ty + s.typeElems.length
      ∧ res.typeElems[row.ty]? = r.typeElems[br.ty]?
      ∧ (s.typeLabels.length = s.typeElems.length → res.typeLabels[row.ty]? = r.typeLabels[br.ty]?)
      ∧ (s.typeMasses.length = s.typeElems.length → res.typeMasses[row.ty]? = r.typeMasses[br.ty]?)
      ∧ (s.pairCoeffs.length = s.typeElems.length → Resolves res.pairCoeffs row.ty = Resolves r.pairCoeffs br.ty)
      ∧ (s.pairCoeffs = [] → r.pairCoeffs = [] → Resolves res.pairCoeffs row.ty = Resolves r.pairCoeffs br.ty)
      ∧ (∀ v, (a, v) ∈ matchMap (unchangedPairs r p) ra m → x = v ∧ (s.atoms[v]?).map pcg = some (pcg row))
      ∧ (a ∉ mapKeys (unchangedPairs r p) ra → row.charge = br.charge ∧ row.group = br.group
          ∧ ((placeAtoms s.cell (p0Of p) r m).atoms[a]?).map (·.pos) = some row.pos) := by
  intro del x
  obtain ⟨st, hI, hd⟩ := replace_unfold s p r res _ ra ig hne h
  have hnd : del.Nodup := delOf_nodup _ ra _
  have halt : a < r.atoms.length := (List.getElem?_eq_some_iff.mp ha).1
  have hbase : s.atoms.length ≤ s.atoms.length + pre.length * nAdd r (unchangedPairs r p) ra := Nat.le_add_right _ _
  have hxdel : x ∉ del := image_survives s p r ra pre post m hok _ hbase a halt
  have hmm : m ∈ pre ++ m :: post := by simp
  have hvals : ∀ m' ∈ pre ++ m :: post, ∀ kv ∈ matchMap (unchangedPairs r p) ra m', kv.2 < s.atoms.length :=
    fun m' hm' => matchesOK_vals_lt s p r ra _ hok m' hm'
  have hlenst : st.s.atoms.length = s.atoms.length + (pre.length + post.length + 1) * nAdd r (unchangedPairs r p) ra := by
    rw [hI.len]; simp only [List.length_append, List.length_cons]; congr 2
  -- the tables of the result
  obtain ⟨_, hE, hL, hM, hP, _⟩ := delete_atoms _ _ _ hd
  -- the row before the delete
  have hrow : ∃ row, st.s.atoms[x]? = some row ∧ row.ty = br.ty + s.typeElems.length
      ∧ (∀ v, (a, v) ∈ matchMap (unchangedPairs r p) ra m → x = v ∧ (s.atoms[v]?).map pcg = some (pcg row))
      ∧ (a ∉ mapKeys (unchangedPairs r p) ra → row.charge = br.charge ∧ row.group = br.group
          ∧ ((placeAtoms s.cell (p0Of p) r m).atoms[a]?).map (·.pos) = some row.pos) := by
    rcases imgAt_cases r (unchangedPairs r p) ra (s.atoms.length + pre.length * nAdd r (unchangedPairs r p) ra) m a halt
      with ⟨v, hv, e⟩ | ⟨hnk, j, hj, e⟩
    · -- retained
      have hvlt : v < s.atoms.length := hvals m hmm _ hv
      have hty := hI.tyRetained (matchesOK_vals_nodup s p r ra _ hok hinj) m hmm a v hv hvlt
      have hpc := hI.pcgOld v hvlt
      have hvst : v < st.s.atoms.length := by rw [hI.len]; omega
      have hxv : x = v := e
      refine ⟨st.s.atoms[v], by rw [hxv]; exact List.getElem?_eq_getElem hvst, ?_, ?_, ?_⟩
      · rw [List.getElem?_eq_getElem hvst, ha] at hty
        simpa using hty
      · intro v' hv'
        have hk := matchMap_vals_nodup (unchangedPairs r p) ra m (matchesOK_idx_nodup s p _ hok m hmm) hinj
          (matchesOK_pairs_lt s p r _ hok m hmm)
        have hkeys : ((matchMap (unchangedPairs r p) ra m).map (·.1)).Nodup := by
          rw [matchMap_keys]
          exact hI.keysNodup (by simp)
        have e1 := lookupLast_of_mem _ hkeys a v hv
        have e2 := lookupLast_of_mem _ hkeys a v' hv'
        rw [e1] at e2
        have evv : v = v' := Option.some.inj e2
        subst evv
        refine ⟨hxv, ?_⟩
        rw [List.getElem?_eq_getElem hvst] at hpc
        rw [← hpc]; rfl
      · intro hnk
        exfalso; apply hnk
        rw [← matchMap_keys (unchangedPairs r p) ra m]
        exact List.mem_map.mpr ⟨(a, v), hv, rfl⟩
    · -- inserted
      have hget : (pre ++ m :: post)[pre.length]? = some m := by simp
      have hins := hI.inserted hvals pre.length m hget j a hj
      have hxj : x = s.atoms.length + pre.length * nAdd r (unchangedPairs r p) ra + j := e
      have hpl := placeAtoms_getElem? s.cell (p0Of p) r m a
      rw [ha] at hpl
      cases hp : (placeAtoms s.cell (p0Of p) r m).atoms[a]? with
      | none => rw [hp] at hpl; simp at hpl
      | some pr =>
        rw [hp] at hpl hins
        simp only [Option.map_some, Option.some.injEq, Prod.mk.injEq] at hpl
        cases hs : st.s.atoms[s.atoms.length + pre.length * nAdd r (unchangedPairs r p) ra + j]? with
        | none => rw [hs] at hins; simp at hins
        | some row =>
          rw [hs] at hins
          simp only [Option.map_some, Option.some.injEq, Prod.mk.injEq, pcg] at hins
          refine ⟨row, by rw [hxj]; exact hs, by rw [hins.1, hpl.1], ?_, ?_⟩
          · intro v hv
            exfalso; apply hnk
            rw [← matchMap_keys (unchangedPairs r p) ra m]
            exact List.mem_map.mpr ⟨(a, v), hv, rfl⟩
          · intro _
            refine ⟨by rw [hins.2.2.1, hpl.2.1], by rw [hins.2.2.2, hpl.2.2], ?_⟩
            simp [hins.2.1]
  obtain ⟨row, hrow1, hty, hret, hins⟩ := hrow
  have hxlt : x < st.s.atoms.length := (List.getElem?_eq_some_iff.mp hrow1).1
  refine ⟨hxdel, row, ?_, hty, ?_, ?_, ?_, ?_, ?_, hret, hins⟩
  · rw [delete_atom_at st.s res del hnd hd x hxdel hxlt]; exact hrow1
  · rw [hE, hI.elems, hty, Nat.add_comm]; exact getElem?_append_offset _ _ _
  · intro hal; rw [hL, hI.labels, hty, Nat.add_comm, ← hal]; exact getElem?_append_offset _ _ _
  · intro hal; rw [hM, hI.masses, hty, Nat.add_comm, ← hal]; exact getElem?_append_offset _ _ _
  · intro hal; rw [hP, hI.pair, hty, Nat.add_comm, ← hal]; exact resolves_append_offset _ _ _
  · intro h1 h2; rw [hP, hI.pair, h1, h2]; rfl

/-! ### two consecutive replacements (history form) -/

/-- **replace_twice_pattern_terms.**  A term that the FIRST replacement put in (term `u` of `r₁`, match `m₁`) is,
    for the SECOND replacement, an original term of its input: if it touches no atom the second replacement removes
    and no term of `r₂` overrides it, it is still there afterwards, between the same physical atoms, and its type id
    still resolves to `r₁`'s own coefficient text of `u`. -/
theorem replace_twice_pattern_terms (κ : Kind) (s p₁ r₁ mid p₂ r₂ res : Atoms)
    (pre post : List PlacedMatch) (m₁ : PlacedMatch) (ms₂ : List PlacedMatch) (ra₁ ig₁ ra₂ ig₂ : Bool)
    (hne₁ : r₁.atoms ≠ []) (hne₂ : r₂.atoms ≠ [])
    (h₁ : replaceCore s p₁ r₁ (pre ++ m₁ :: post) ra₁ ig₁ = .ok mid)
    (h₂ : replaceCore mid p₂ r₂ ms₂ ra₂ ig₂ = .ok res)
    (hok : MatchesOK s p₁ (pre ++ m₁ :: post)) (hinj : PairsInj (unchangedPairs r₁ p₁))
    (hterms : TermsOK (κ.get r₁) r₁.atoms.length) (hdist : DistinctUpToRev (κ.get r₁).terms)
    (hcompat : Compat s r₁ κ) (hold : OldResolvable mid r₂ κ) (u : Term) (hu : u ∈ (κ.get r₁).terms) :
    let del₁ := delOf (unchangedPairs r₁ p₁) ra₁ (pre ++ m₁ :: post)
    let fin₁ := (u.atoms.map (imgAt r₁ (unchangedPairs r₁ p₁) ra₁
      (s.atoms.length + pre.length * nAdd r₁ (unchangedPairs r₁ p₁) ra₁) m₁)).map (newIndex del₁)
    let del₂ := delOf (unchangedPairs r₂ p₂) ra₂ ms₂
    survives del₂ fin₁ = true →
    notOverridden (patternSigs κ mid p₂ r₂ ra₂ ms₂) (fin₁, u.ty + numTermTypes (κ.get s)) = true →
    (∃ t ∈ (κ.get res).terms, t.atoms = fin₁.map (newIndex del₂) ∧ t.ty = u.ty + numTermTypes (κ.get s))
    ∧ Resolves (κ.get res).coeffs (u.ty + numTermTypes (κ.get s)) = Resolves (κ.get r₁).coeffs u.ty := by
  intro del₁ fin₁ del₂ hsurv hnot
  obtain ⟨_, ⟨t, ht, hta, hty⟩, hres, _⟩ :=
    replace_pattern_terms_once κ s p₁ r₁ mid pre post m₁ ra₁ ig₁ hne₁ h₁ hok hinj hterms hdist hcompat u hu
  have hsurv' : survives (delOf (unchangedPairs r₂ p₂) ra₂ ms₂) t.atoms = true := by rw [hta]; exact hsurv
  have hnot' : notOverridden (patternSigs κ mid p₂ r₂ ra₂ ms₂) (sig t) = true := by
    have : sig t = (fin₁, u.ty + numTermTypes (κ.get s)) := by
      unfold sig; rw [hta, hty]
    rw [this]; exact hnot
  obtain ⟨⟨t', ht', hta', hty'⟩, hr⟩ := replace_old_terms κ mid p₂ r₂ res ms₂ ra₂ ig₂ hne₂ h₂ t ht hsurv' hnot'
  refine ⟨⟨t', ht', by rw [hta', hta], by rw [hty', hty]⟩, ?_⟩
  have := hr hold
  rw [hty] at this
  rw [this, hres]

/-! ### the two places where the property's clause is not enough (recorded findings, proved by evaluation) -/

/-- **known finding C06-pair-coeffs-structure-without-table.**  A structure with atom types but NO pair-coefficient
    table (e.g. loaded from CIF) extended by the types of a pattern that has pair coefficients: the pattern's
    coefficient ends up at id 0, so the pattern's own type (id 2 here) resolves to nothing and the structure's type 0
    picks up the pattern's coefficient.  `replace_atom_payload` therefore needs its pair-table hypotheses. -/
theorem pair_coeffs_structure_without_table :
    let s : Atoms := { Atoms.empty with typeElems := ["Zr", "O"], typeLabels := ["Zr", "O"], typeMasses := [91, 16] }
    let r : Atoms := { Atoms.empty with typeElems := ["C"], typeLabels := ["C_R"], typeMasses := [12],
                                        pairCoeffs := ["0.105 3.43"] }
    let s1 := (s.extendTypes r).1
    let off := (s.extendTypes r).2.atom
    Resolves s1.pairCoeffs (0 + off) = none ∧ Resolves r.pairCoeffs 0 = some "0.105 3.43"
    ∧ Resolves s1.pairCoeffs 0 = some "0.105 3.43" ∧ s1.typeLabels[0]? = some "Zr" := by decide

/-- **the corner the compatibility clause admits**: the structure has bonds but no bond-coefficient table, the pattern
    has a bond-coefficient table but no bonds ("one of the two has no terms of that kind" holds): the structure's
    bond type 0, which had no coefficient, now resolves to the pattern's unused entry.  `replace_old_terms` therefore
    states its resolution clause under `OldResolvable`. -/
theorem orphan_table_corner :
    let s : Atoms := { Atoms.empty with bonds := ⟨[⟨[0, 1], 0, []⟩], [], []⟩ }
    let r : Atoms := { Atoms.empty with bonds := ⟨[], ["unused 1.0"], []⟩ }
    Compat s r .bond ∧ ¬ OldResolvable s r .bond
    ∧ Resolves s.bonds.coeffs 0 = none ∧ Resolves (s.extendTypes r).1.bonds.coeffs 0 = some "unused 1.0" := by decide

/-! ### non-vacuity: a concrete replacement meeting every guard above -/

/-- C–O–H matched at atoms 0,1,2; bystanders 3,4.  Bonds: (0,1) sits on the atoms of a pattern bond REVERSED,
    (1,2) touches the removed H, (3,4) is outside, (0,3) goes across. -/
def exS : Atoms :=
  { Atoms.empty with
    atoms := [⟨0, ⟨0, 0, 0⟩, 1, 0, []⟩, ⟨1, ⟨1, 0, 0⟩, 2, 0, []⟩, ⟨2, ⟨2, 0, 0⟩, 3, 0, []⟩, ⟨3, ⟨5, 5, 5⟩, 4, 0, []⟩,
              ⟨3, ⟨6, 6, 6⟩, 5, 0, []⟩]
    bonds := ⟨[⟨[0, 1], 0, []⟩, ⟨[1, 2], 1, []⟩, ⟨[3, 4], 1, []⟩, ⟨[0, 3], 0, []⟩], ["sB0", "sB1"], []⟩
    typeElems := ["C", "O", "H", "S"], typeLabels := ["C", "O", "H", "S"], typeMasses := [12, 16, 1, 32]
    pairCoeffs := ["sC", "sO", "sH", "sS"]
    cell := some ⟨⟨10, 0, 0⟩, ⟨0, 10, 0⟩, ⟨0, 0, 10⟩⟩ }

def exP : Atoms :=
  { Atoms.empty with
    atoms := [⟨0, ⟨0, 0, 0⟩, 0, 0, []⟩, ⟨1, ⟨1, 0, 0⟩, 0, 0, []⟩, ⟨2, ⟨2, 0, 0⟩, 0, 0, []⟩]
    typeElems := ["C", "O", "H"], typeLabels := ["C", "O", "H"], typeMasses := [12, 16, 1] }

/-- keeps C and O (same place, same element), drops H, adds F; bonds O–C (type 0) and F–C (type 1) -/
def exR : Atoms :=
  { Atoms.empty with
    atoms := [⟨0, ⟨0, 0, 0⟩, -1, 1, []⟩, ⟨1, ⟨1, 0, 0⟩, -2, 2, []⟩, ⟨2, ⟨0, 1, 0⟩, -3, 3, []⟩]
    bonds := ⟨[⟨[1, 0], 0, []⟩, ⟨[2, 0], 1, []⟩], ["rB0", "rB1"], []⟩
    typeElems := ["C", "O", "F"], typeLabels := ["C_r", "O_r", "F_r"], typeMasses := [12, 16, 19]
    pairCoeffs := ["rC", "rO", "rF"] }

def exM : PlacedMatch := ⟨[0, 1, 2], [⟨0, 0, 0⟩, ⟨1, 0, 0⟩, ⟨2, 0, 0⟩], Quat.identity⟩

/-- every guard of `replace_pattern_terms_once` / `replace_atom_payload` / `replace_old_terms` holds here -/
example : exR.atoms ≠ [] ∧ MatchesOK exS exP ([] ++ exM :: []) ∧ PairsInj (unchangedPairs exR exP)
    ∧ TermsOK exR.bonds exR.atoms.length ∧ DistinctUpToRev exR.bonds.terms ∧ Compat exS exR .bond
    ∧ OldResolvable exS exR .bond ∧ exS.pairCoeffs.length = exS.typeElems.length := by decide +kernel

/-- and the replacement does what the theorems say: the reversed original bond is overridden, the bond on the removed
    atom is gone, the outside / across bonds survive re-indexed, the pattern's bonds arrive with ids 2, 3 that resolve
    to "rB0", "rB1" -/
example : (match replaceCore exS exP exR [exM] false false with
      | .ok res => some (res.bonds.terms.map sig, res.bonds.coeffs, res.atoms.map (·.ty), res.pairCoeffs)
      | .error _ => none)
    = some ([([2, 3], 1), ([0, 2], 0), ([1, 0], 2), ([4, 0], 3)], ["sB0", "sB1", "rB0", "rB1"], [4, 5, 3, 3, 6],
            ["sC", "sO", "sH", "sS", "rC", "rO", "rF"]) := by decide +kernel

example : unchangedPairs exR exP = [(0, 0), (1, 1)] ∧ delOf (unchangedPairs exR exP) false [exM] = [2]
    ∧ imgAt exR (unchangedPairs exR exP) false 5 exM 2 = 5 ∧ newIndex [2] 5 = 4 := by decide +kernel

end Mofun.C06
