/-
  C09Code.lean — the GENERATED translations of the five `num_*_types` properties of `Atoms` (mofun/atoms.py,
  re-translated from the python source text on every run by harness/gen_code.py into Generated/Code.lean) ARE the
  model's `numAtomTypes` / `numTermTypes` (Model/Topo.lean), the offsets every `extend_types` / `extend` /
  `replace` theorem of C06, C09, C11 adds.  The python class has FOUR textual copies of the term-kind property; each
  copy is translated and tied separately.

  A generated property is a function of the attributes it reads (`self.bond_types`, `self.bond_type_coeffs`);
  `none` stands for the ValueError of `max([])`.  The theorems also say that this exception is never raised.
-/
import MofunModel.Proofs.CodeLemmas

namespace Mofun.C09Code
open Mofun Mofun.Generated Mofun.CodeLemmas
set_option linter.unusedSimpArgs false

theorem numAtomTypes_eq (a : Atoms) : Generated.Code.numAtomTypes a.typeElems = Mofun.numAtomTypes a := by
  unfold Generated.Code.numAtomTypes Mofun.numAtomTypes
  first | rfl | simp

theorem numBondTypes_eq (t : TermTable) :
    Generated.Code.numBondTypes (t.terms.map (·.ty)) t.coeffs = some (numTermTypes t) := by
  unfold Generated.Code.numBondTypes numTermTypes
  cases h : t.terms with
  | nil => simp
  | cons x xs => simp [listMax?_cons, maxNat, Nat.max_comm]

theorem numAngleTypes_eq (t : TermTable) :
    Generated.Code.numAngleTypes (t.terms.map (·.ty)) t.coeffs = some (numTermTypes t) := by
  unfold Generated.Code.numAngleTypes numTermTypes
  cases h : t.terms with
  | nil => simp
  | cons x xs => simp [listMax?_cons, maxNat, Nat.max_comm]

theorem numDihedralTypes_eq (t : TermTable) :
    Generated.Code.numDihedralTypes (t.terms.map (·.ty)) t.coeffs = some (numTermTypes t) := by
  unfold Generated.Code.numDihedralTypes numTermTypes
  cases h : t.terms with
  | nil => simp
  | cons x xs => simp [listMax?_cons, maxNat, Nat.max_comm]

theorem numImproperTypes_eq (t : TermTable) :
    Generated.Code.numImproperTypes (t.terms.map (·.ty)) t.coeffs = some (numTermTypes t) := by
  unfold Generated.Code.numImproperTypes numTermTypes
  cases h : t.terms with
  | nil => simp
  | cons x xs => simp [listMax?_cons, maxNat, Nat.max_comm]

/-- the offsets `extend_types` computes (`Atoms.offsets`), read off the generated properties -/
theorem offsets_eq (a : Atoms) :
    (do
      let b ← Generated.Code.numBondTypes (a.bonds.terms.map (·.ty)) a.bonds.coeffs
      let g ← Generated.Code.numAngleTypes (a.angles.terms.map (·.ty)) a.angles.coeffs
      let d ← Generated.Code.numDihedralTypes (a.dihedrals.terms.map (·.ty)) a.dihedrals.coeffs
      let i ← Generated.Code.numImproperTypes (a.impropers.terms.map (·.ty)) a.impropers.coeffs
      pure (⟨Generated.Code.numAtomTypes a.typeElems, b, g, d, i⟩ : Offsets)) = some a.offsets := by
  rw [numBondTypes_eq, numAngleTypes_eq, numDihedralTypes_eq, numImproperTypes_eq, numAtomTypes_eq]
  rfl

/-- ids in use count without a table; table rows count when unused -/
example : Generated.Code.numBondTypes [0, 4, 1] ["a", "b"] = some 5 := by decide
example : Generated.Code.numBondTypes [] ["a", "b"] = some 2 := by decide

end Mofun.C09Code
