/-
  C02Code5.lean — `atoms_of_type` (mofun/helpers.py), re-translated from the python source text on every run by harness/gen_code.py
  (Generated/Code.lean, fifth batch: a filtered comprehension over `enumerate`), is the index filter the model's search starts
  from (`starts` of `candidates`, Model/Find.lean).
-/
import MofunModel.Proofs.Code5Pairs
import MofunModel.Model.Find

namespace Mofun.C02Code5
open Mofun Mofun.Generated Mofun.Code5Pairs
set_option linter.unusedSimpArgs false

theorem filterMap_if_eq_filter (l : List Nat) (p : Nat → Bool) (f : Nat → Option Nat)
    (h : ∀ i ∈ l, f i = if p i then some i else none) : l.filterMap f = l.filter p := by
  induction l with
  | nil => rfl
  | cons x t ih =>
    have hx := h x (by simp)
    have ih' := ih (fun i hi => h i (by simp [hi]))
    by_cases hp : p x = true
    · simp [List.filterMap_cons, List.filter_cons, hx, hp, ih']
    · have hp' : p x = false := by simpa using hp
      simp [List.filterMap_cons, List.filter_cons, hx, hp', ih']

/-- for ALL type lists and elements: `atoms_of_type(types, element)` is the ascending list of the positions holding `element` -/
theorem atomsOfType_eq (types : List String) (el : String) :
    Code.atomsOfType types el = (List.range types.length).filter (fun a => decide (types.getD a "" = el)) := by
  unfold Code.atomsOfType Py.enumerate
  have h := filterMap_enumerateFrom types 0 (fun i t => if (t == el) = true then some i else none)
  have h' := filterMap_enumerateFrom types 0 (fun i t => if (el == t) = true then some i else none)
  simp only [Nat.sub_zero, ← List.range_eq_range'] at h h'
  first | rw [h] | rw [h']
  apply filterMap_if_eq_filter
  intro i hi
  have hi' : i < types.length := List.mem_range.mp hi
  simp only [List.getElem?_eq_getElem hi', List.getD_eq_getElem?_getD, Option.getD_some]
  by_cases he : types[i] = el <;> (have he' : (el = types[i]) = (types[i] = el) := propext ⟨Eq.symm, Eq.symm⟩) <;> simp [he, he']

/-- **tie to the model**: `atoms_of_type(near_types[0: len(structure)], pattern.elements[0])` (the slice `[0:n]` is `List.take`, not
    translated) is the list of start atoms of the model's `candidates`: the home-cell atoms carrying the first pattern element -/
theorem startingAtoms_eq (nearElemL : List String) (nStruct : Nat) (pe0 : String) :
    Code.atomsOfType (nearElemL.take nStruct) pe0 =
      (List.range (min nStruct nearElemL.length)).filter (fun a => decide (nearElemL.getD a "" = pe0)) := by
  rw [atomsOfType_eq, List.length_take]
  apply List.filter_congr
  intro a ha
  have : a < min nStruct nearElemL.length := List.mem_range.mp ha
  simp [List.getD_eq_getElem?_getD, List.getElem?_take, (by omega : a < nStruct)]

example : Code.atomsOfType ["C", "N", "C", "H"] "C" = [0, 2] := by decide
example : Code.atomsOfType ["C", "N", "C", "H"] "O" = [] := by decide

end Mofun.C02Code5
