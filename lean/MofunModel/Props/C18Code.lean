/-
  C18Code.lean — the GENERATED translations of the decision logic of mofun/rough_uff.py (re-translated from the python
  source text on every run by harness/gen_code.py into Generated/Code.lean) ARE the hand-written model functions of
  Model/UffLogic.lean the C18 theorems are about:

    guess_bond_order                      = Uff.guessBondOrder            (full function, all strings, all rule lists)
    angle_params   (decision slice)       = Uff.angleStyleOf              (which style, b, n; over the generated table)
    dihedral_params (decision slice)      = Uff.torsionCase               (which `return` / `raise` is reached, d, n)

  The float formulas of angle_params / dihedral_params are not translated (they stay tied by the correspondence run).
-/
import MofunModel.Proofs.CodeLemmas

namespace Mofun.C18Code
open Mofun Mofun.Generated Mofun.CodeLemmas Mofun.Uff
set_option linter.unusedSimpArgs false

/-! ### guess_bond_order -/

/-- `rules=None`: the built-in table -/
theorem guessBondOrder_default (a1 a2 : String) :
    Generated.Code.guessBondOrder a1 a2 none = Uff.defaultBondOrder a1 a2 := by
  unfold Generated.Code.guessBondOrder Uff.defaultBondOrder
  simp only [setLen_inter_pair, setLen_pair_inter, setLen_pair, setSubset_pair, dec_15_1,
    Uff.singleBondTypes, Uff.doubleBondTypes, Uff.resonantBondTypes]
  by_cases h : a1 = a2
  · subst h; (try simp) <;> (repeat' split) <;> simp_all
  · (try simp [h]) <;> (repeat' split) <;> simp_all

/-- for ALL type strings and ALL rule lists: translated `guess_bond_order(a1, a2, rules)` = `Uff.guessBondOrder` -/
theorem guessBondOrder_eq (a1 a2 : String) (rules : List (List String × Rat)) :
    Generated.Code.guessBondOrder a1 a2 (some rules) = Uff.guessBondOrder a1 a2 rules := by
  have hd := guessBondOrder_default a1 a2
  unfold Generated.Code.guessBondOrder at hd ⊢
  unfold Uff.guessBondOrder
  simp only [] at hd ⊢
  rw [forFirst_rules a1 a2 _ (fun r bo => by simp only [setEq_pair, setEq_pair']) rules]
  cases Uff.ruleLookup a1 a2 rules with
  | some bo => rfl
  | none => exact hd

/-- `rules=None` is the model's empty rule list -/
theorem guessBondOrder_none (a1 a2 : String) :
    Generated.Code.guessBondOrder a1 a2 none = Uff.guessBondOrder a1 a2 [] := by
  rw [guessBondOrder_default]; rfl

example : Generated.Code.guessBondOrder "C_R" "C_R" none = 3 / 2 := by decide +kernel
example : Generated.Code.guessBondOrder "C_R" "O_3" (some [(["O_3", "C_R"], 2)]) = 2 := by decide +kernel

/-! ### angle_params: which potential style, `b`, `n` -/

/-- for ALL centre types: the `return` reached by the translated decision slice and its `(style, b, n)` are the
    model's `angleStyleOf` over the generated UFF table (`none` = KeyError on both sides); in particular the
    UnboundLocalError path of the inner `if/elif` chain (no `else`) is unreachable -/
theorem angleParamsDecision_eq (a1 a2 a3 : String) :
    Generated.Code.angleParamsDecision a2 = (Uff.angleStyleOf Generated.uff4mof a1 a2 a3).map encodeAngle := by
  unfold Generated.Code.angleParamsDecision Uff.angleStyleOf Uff.angleStyle
  rw [tableCol_eq, coordIs4_eq]
  cases Uff.col Generated.uff4mof a2 1 with
  | none => rfl
  | some t =>
    simp only [dec_180_0, dec_120_0, dec_90_0, Option.bind_eq_bind, Option.bind_some, Option.map_some, bind, pure]
    by_cases h1 : t = 180
    · subst h1; simp [encodeAngle]
    · by_cases h2 : t = 120
      · subst h2; simp [encodeAngle]
      · by_cases h3 : t = 90
        · subst h3; cases Uff.coordIs4 a2 <;> simp [encodeAngle]
        · simp [h1, h2, h3, encodeAngle]

/-! ### dihedral_params: which branch -/

/-- for ALL four type strings: the `return` / `raise` reached by the translated branch structure of `dihedral_params`,
    with its `d` and `n`, is the one of the model's `torsionCase` (over the generated MAIN_GROUP_ELEMENTS) -/
theorem dihedralParamsBranch_eq (a1 a2 a3 a4 : String) :
    Generated.Code.dihedralParamsBranch a1 a2 a3 a4 =
      encodeTorsion (torsionCase a1 a2 a3 a4)
        (condSp (midClass Generated.mainGroupElements a2) (midClass Generated.mainGroupElements a3)) := by
  unfold Generated.Code.dihedralParamsBranch
  simp only [hval_eq, strip_slice_el]
  simp only [torsionCase, torsionCaseWith, torsionOfClasses, midClass, endClass, condSp3Sp3, condBothOxygenGroup,
    condSp2Sp2, condMixed, condSp2Neighbour, condSp3Oxygen, condSp, condNotMainGroup, oxygenGroup]
  simp only [Option.bind_eq_bind, Option.bind_some, bind, pure,
    setSubset_pair, List.contains_cons, List.contains_nil, Bool.or_false, v3, v2, vR, v1, v3', v2', vR', v1']
  refine hyb_cases (hyb a2) _ ?_ ?_ ?_ ?_ ?_ <;> intro h <;>
    refine hyb_cases (hyb a3) _ ?_ ?_ ?_ ?_ ?_ <;> intro k <;> simp [h, k, encodeTorsion] <;>
    (repeat' split) <;> simp_all

/-- the `(style, d, n)` reported for a case are the model's `TorsionCase.style / d / n`; `some none` = `return None` -/
theorem encodeTorsion_payload (c : TorsionCase) (sp : Bool) :
    (encodeTorsion c sp).map (·.2) =
      match c.kind with
      | .unsupported => none
      | .undefined => some none
      | .defined => some (c.style.bind fun s => c.d.bind fun d => c.n.map fun n => (s, [d, (n : Int)])) := by
  cases c <;> rfl

/-- the encoding loses nothing but the two float-constant flags: the reported return site and `n` determine the
    model case -/
theorem encodeTorsion_separates (c c' : TorsionCase) (sp sp' : Bool)
    (h : encodeTorsion c sp = encodeTorsion c' sp') : forgetFlags c = forgetFlags c' := by
  cases c <;> cases c' <;> simp_all [encodeTorsion, forgetFlags]

end Mofun.C18Code
