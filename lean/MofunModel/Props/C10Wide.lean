/-
  C10 (stretch) — `del a[idx]` and `pop` on the WIDENED index domain: any list of python integers in `[−n, n)` —
  negative, repeated, in any order.  Model: `Atoms.deleteNorm` (Model/TopoWide.lean) = what `__delitem__` does since
  the fix "negative valid indices": `np.delete` on the per-atom arrays, the term code on the normalised SET
  `{i % n}`.  (The behaviour before the fix, and the defect it had: Props/C10NegDefect.lean.)

  * `deleteNorm_ok_iff` — succeeds iff every integer is in `[−n, n)`; otherwise IndexError and nothing is changed;
  * `deleteNorm_spec` — THE PROPERTY ON THE WIDENED DOMAIN, no guard left: exactly the denoted atoms go (order and
    data of the others kept), a term survives iff none of its atoms is denoted, every survivor keeps type and extra
    fields and connects the same physical atoms;
  * `deleteNorm_set_invariant` — the result depends only on the SET of denoted positions: listing order, repetitions
    and the spelling `k` / `k − n` of an index do not matter;
  * `deleteNorm_ofNat` — on distinct non-negative indices it is the modelled `Atoms.delete`: the theorems of
    Props/C10.lean are the corollaries for that case;
  * `pop_any_pos`, `pop_empty` — `pop(pos)` is total on non-empty structures (positions are folded `pos mod n`).
  Outside the domain (observed, not modelled): boolean masks (the term code reads them as the integers 1/0), `del a[2]`
  and `del a[slice]` (TypeError raised after the per-atom arrays were shortened).
-/
import MofunModel.Props.C10NegDefect
import MofunModel.Proofs.ExtendLemmas

namespace Mofun

/-- the SET of atom positions a list of python integers denotes (numpy normalisation, repetitions collapsed) -/
def normSet (n : Nat) (idx : List Int) : List Nat := dedup (idx.filterMap (normIdx n))

theorem normSet_nodup (n : Nat) (idx : List Int) : (normSet n idx).Nodup := dedup_nodup _

theorem mem_normSet (n : Nat) (idx : List Int) (j : Nat) :
    j ∈ normSet n idx ↔ ∃ i ∈ idx, normIdx n i = some j := by
  unfold normSet
  rw [mem_dedup_iff, List.mem_filterMap]

theorem normSet_lt (n : Nat) (idx : List Int) (j : Nat) (h : j ∈ normSet n idx) : j < n := by
  obtain ⟨i, _, hi⟩ := (mem_normSet n idx j).mp h
  exact normIdx_lt n i j hi

/-- **deleteNorm_ok_iff.** -/
theorem deleteNorm_ok_iff (a : Atoms) (idx : List Int) :
    (∃ r, a.deleteNorm idx = .ok r) ↔ ∀ i ∈ idx, -(a.atoms.length : Int) ≤ i ∧ i < (a.atoms.length : Int) := by
  unfold Atoms.deleteNorm
  by_cases h : idx.any (fun i => (normIdx a.atoms.length i).isNone) = true
  · simp only [h, if_true]
    constructor
    · rintro ⟨r, hr⟩; cases hr
    · intro hall
      obtain ⟨i, hi, hn⟩ := List.any_eq_true.mp h
      have := (normIdx_isSome_iff a.atoms.length i).mpr (hall i hi)
      cases hq : normIdx a.atoms.length i <;> simp [hq] at hn this
  · simp only [h]
    constructor
    · intro _ i hi
      apply (normIdx_isSome_iff a.atoms.length i).mp
      cases hq : normIdx a.atoms.length i with
      | some j => rfl
      | none => exact absurd (List.any_eq_true.mpr ⟨i, hi, by simp [hq]⟩) h
    · intro _
      apply (delete_ok_iff a _).mpr
      intro j hj
      exact normSet_lt a.atoms.length idx j hj

/-- `deleteNorm` is the modelled deletion of the normalised set -/
theorem deleteNorm_eq_delete (a r : Atoms) (idx : List Int) (h : a.deleteNorm idx = .ok r) :
    a.delete (normSet a.atoms.length idx) = .ok r := by
  unfold Atoms.deleteNorm at h
  split at h
  · cases h
  · exact h

/-- **deleteNorm_spec.** The property of C10 on the whole widened domain (negative, repeated, unsorted integers):
    exactly the denoted atoms go, the others keep order and data; tables, labels, cell untouched; a term survives
    iff none of its atoms is denoted, keeps type and extra fields, and its atoms are re-numbered by rank — so that it
    still connects the same physical atoms. -/
theorem deleteNorm_spec (a r : Atoms) (idx : List Int) (h : a.deleteNorm idx = .ok r) :
    r.atoms = ((a.atoms.zipIdx).filter (fun p => !(normSet a.atoms.length idx).contains p.2)).map (·.1)
    ∧ r.typeElems = a.typeElems ∧ r.typeLabels = a.typeLabels ∧ r.typeMasses = a.typeMasses
    ∧ r.pairCoeffs = a.pairCoeffs ∧ r.xlabels = a.xlabels ∧ r.cell = a.cell
    ∧ r.bonds.terms = deleteTerms a.bonds.terms (normSet a.atoms.length idx)
    ∧ r.angles.terms = deleteTerms a.angles.terms (normSet a.atoms.length idx)
    ∧ r.dihedrals.terms = deleteTerms a.dihedrals.terms (normSet a.atoms.length idx)
    ∧ r.impropers.terms = deleteTerms a.impropers.terms (normSet a.atoms.length idx)
    ∧ (∀ ts : List Term, ∀ t', t' ∈ deleteTerms ts (normSet a.atoms.length idx) ↔
        ∃ t ∈ ts, t.survives (normSet a.atoms.length idx) ∧ t'.ty = t.ty ∧ t'.extra = t.extra
          ∧ t'.atoms = t.atoms.map (newIndex (normSet a.atoms.length idx)))
    ∧ (∀ t : Term, t.survives (normSet a.atoms.length idx) → ∀ x ∈ t.atoms, x < a.atoms.length →
        r.atoms[newIndex (normSet a.atoms.length idx) x]? = a.atoms[x]?) := by
  have hnd := normSet_nodup a.atoms.length idx
  have h' := deleteNorm_eq_delete a r idx h
  have hk := delete_kinds a r _ h'
  have ha := delete_atoms a r _ h'
  refine ⟨ha.1, ha.2.1, ha.2.2.1, ha.2.2.2.1, ha.2.2.2.2.1, ha.2.2.2.2.2.1, ha.2.2.2.2.2.2.1,
    hk.1, hk.2.1, hk.2.2.1, hk.2.2.2.1, ?_, ?_⟩
  · intro ts t'
    rw [delete_terms_iff]
    constructor
    · rintro ⟨t, ht, hs, h1, h2, h3⟩
      refine ⟨t, ht, hs, h1, h2, ?_⟩
      rw [h3]
      apply List.map_congr_left
      intro x hx
      exact reindex_eq_rank _ hnd x (hs x hx)
    · rintro ⟨t, ht, hs, h1, h2, h3⟩
      refine ⟨t, ht, hs, h1, h2, ?_⟩
      rw [h3]
      apply List.map_congr_left
      intro x hx
      exact (reindex_eq_rank _ hnd x (hs x hx)).symm
  · intro t hs x hx hlt
    rw [← reindex_eq_rank _ hnd x (hs x hx)]
    exact delete_same_physical_atoms a r _ hnd h' t hs x hx hlt

/-- **deleteNorm_set_invariant.** Only the SET of denoted positions matters: two lists that denote the same
    positions (other order, repetitions, `k` written as `k − n`) give the same result. -/
theorem deleteNorm_set_invariant (a : Atoms) (idx idx' : List Int)
    (hr : ∀ i ∈ idx', -(a.atoms.length : Int) ≤ i ∧ i < (a.atoms.length : Int))
    (hr' : ∀ i ∈ idx, -(a.atoms.length : Int) ≤ i ∧ i < (a.atoms.length : Int))
    (hset : ∀ j, j ∈ normSet a.atoms.length idx ↔ j ∈ normSet a.atoms.length idx') :
    a.deleteNorm idx = a.deleteNorm idx' := by
  have hn : ∀ l : List Int, (∀ i ∈ l, -(a.atoms.length : Int) ≤ i ∧ i < (a.atoms.length : Int)) →
      l.any (fun i => (normIdx a.atoms.length i).isNone) = false := by
    intro l hl
    apply List.any_eq_false.mpr
    intro i hi
    have := (normIdx_isSome_iff a.atoms.length i).mpr (hl i hi)
    cases hq : normIdx a.atoms.length i <;> simp [hq] at this ⊢
  unfold Atoms.deleteNorm
  rw [hn idx hr', hn idx' hr]
  simp only [Bool.false_eq_true, if_false]
  have hp : (normSet a.atoms.length idx).Perm (normSet a.atoms.length idx') :=
    (List.perm_ext_iff_of_nodup (normSet_nodup _ _) (normSet_nodup _ _)).mpr hset
  exact delete_perm_invariant a _ _ hp (normSet_nodup _ _)

theorem dedup_of_nodup {α} [DecidableEq α] (l : List α) (h : l.Nodup) : dedup l = l := by
  induction l with
  | nil => rfl
  | cons x xs ih =>
    have hx := List.nodup_cons.mp h
    simp only [dedup, ih hx.2]
    congr 1
    apply List.filter_eq_self.mpr
    intro y hy
    have : y ≠ x := fun e => hx.1 (e ▸ hy)
    simpa using this

/-- **deleteNorm_ofNat.** On distinct non-negative indices this is the modelled `Atoms.delete` (all theorems of
    Props/C10.lean are about this case). -/
theorem deleteNorm_ofNat (a : Atoms) (idx : List Nat) (hnd : idx.Nodup) :
    a.deleteNorm (idx.map Int.ofNat) = a.delete idx := by
  unfold Atoms.deleteNorm
  rw [any_none_ofNat]
  by_cases hb : idx.any (fun i => decide (i ≥ a.atoms.length)) = true
  · simp only [hb, if_true]
    unfold Atoms.delete
    simp [hb]
  · have hall : ∀ i ∈ idx, i < a.atoms.length := by
      intro i hi
      have : ¬ (i ≥ a.atoms.length) := fun hge => hb (List.any_eq_true.mpr ⟨i, hi, by simpa using hge⟩)
      omega
    have hn := rawPositions_ofNat a.atoms.length idx hall
    unfold rawPositions at hn
    simp only [hb, hn, dedup_of_nodup idx hnd]
    simp

/-- **pop_any_pos.** `pop(pos)` is total on non-empty structures: every integer position — inside `[−n, n)` or
    not — removes the atom `pos mod n` (python `%`), i.e. positions are folded, never rejected. -/
theorem pop_any_pos (a : Atoms) (pos : Int) (hne : a.atoms ≠ []) :
    a.pop pos = a.delete [(pos % (a.atoms.length : Int)).toNat]
    ∧ (pos % (a.atoms.length : Int)).toNat < a.atoms.length
    ∧ ∃ r, a.pop pos = .ok r :=
  ⟨(pop_spec a pos hne).1, (pop_spec a pos hne).2, by
    rw [(pop_spec a pos hne).1]
    exact (delete_ok_iff a _).mpr (fun i hi => by
      have : i = (pos % (a.atoms.length : Int)).toNat := by simpa using hi
      rw [this]; exact (pop_spec a pos hne).2)⟩

/-- `pop` on an empty structure raises (ZeroDivisionError in the code) -/
theorem pop_empty (a : Atoms) (pos : Int) (h : a.atoms = []) : a.pop pos = .error .index := by
  unfold Atoms.pop; simp [h]

/-! ### non-vacuity -/

/-- the structure of Props/C10.lean: 4 atoms, bonds (0,1) (2,3) (3,0); the last atom as −1 -/
example : ∃ r, exC10.deleteNorm [-1] = .ok r ∧ r.atoms.length = 3 ∧ r.bonds.terms = [⟨[0, 1], 0, []⟩] :=
  ⟨_, rfl, by decide, by decide⟩

/-- repeated, unsorted, the same atom as 1 and as −3 -/
example : normSet 4 [1, -3, 1, -1] = [1, 3] ∧ ∃ r, exC10.deleteNorm [1, -3, 1, -1] = .ok r ∧ r.atoms.length = 2
    ∧ r.bonds.terms = [] := ⟨by decide, _, rfl, by decide, by decide⟩

example : exC10.deleteNorm [-1, 0] = exC10.deleteNorm [0, 3, 3, -4] := by
  apply deleteNorm_set_invariant exC10 _ _ (by decide) (by decide)
  have e1 : normSet exC10.atoms.length [-1, 0] = [3, 0] := by decide
  have e2 : normSet exC10.atoms.length [0, 3, 3, -4] = [0, 3] := by decide
  intro j
  rw [e1, e2]
  simp [or_comm]

example : exC10.deleteNorm [4] = .error .index ∧ exC10.deleteNorm [0, -5] = .error .index := ⟨rfl, rfl⟩

example : exC10.pop 7 = exC10.delete [3] ∧ exC10.pop (-6) = exC10.delete [2] := by
  constructor <;> rfl

end Mofun
