/-
  C12 — replication describes the same crystal in a larger cell.
  Property theorems only (helper lemmas: Proofs/ReplicateLemmas.lean, Proofs/ExtendLemmas.lean).
  Model: Model/Topo.lean (`Atoms.replicate`: fold of `extend … (some Offsets.zero) []` over `ucMults`, then the
  cell rows are scaled; `Atoms.translate`; `ucMults` = numpy's meshgrid order without (0,0,0)).

  Guard `RepWF a` (decidable, Proofs/ReplicateLemmas.lean): label lists without repeats, every extra row as wide as
  its label list, no empty term, every term index `< |a|` — what `Atoms.__init__` enforces.  Without it `extend`
  could find "existing" terms or pad rows, and the statements below would be false.
-/
import MofunModel.Proofs.ReplicateLemmas

namespace Mofun

/-- the atoms of the image with multiplier `m = (i, j, k)`: every row of `a`, moved by `i·A + j·B + k·C`,
    type / charge / group / extra fields unchanged -/
def imageAtoms (a : Atoms) (cell : Mat3) (m : Nat × Nat × Nat) : List AtomRow :=
  a.atoms.map (fun r => { r with pos := Vec3.add r.pos (cell.lattice m.1 m.2.1 m.2.2) })

/-- the images in the order the code builds them: the unit cell itself, then `ucMults` -/
def images (da db dc : Nat) : List (Nat × Nat × Nat) := (0, 0, 0) :: ucMults da db dc

theorem lattice_zero (cell : Mat3) (p : Vec3) :
    Vec3.add p (cell.lattice ((0 : Nat) : Rat) ((0 : Nat) : Rat) ((0 : Nat) : Rat)) = p := by
  cases p
  simp [Mat3.lattice, Vec3.smul, Vec3.add, Rat.zero_mul, Rat.add_zero]

theorem imageAtoms_zero (a : Atoms) (cell : Mat3) : imageAtoms a cell (0, 0, 0) = a.atoms := by
  unfold imageAtoms
  conv => rhs; rw [← List.map_id a.atoms]
  apply List.map_congr_left
  intro r _
  simp only [lattice_zero]; rfl

/-- the result of `replicate`, in closed form (master statement; the property theorems below are its projections) -/
theorem replicate_eq (a : Atoms) (cell : Mat3) (hc : a.cell = some cell) (hw : RepWF a) (da db dc : Nat) :
    ∃ r, a.replicate da db dc = .ok r
      ∧ r.atoms = (images da db dc).flatMap (imageAtoms a cell)
      ∧ r.bonds.terms = imageTerms a.bonds.terms a.atoms.length 0 (images da db dc).length
      ∧ r.angles.terms = imageTerms a.angles.terms a.atoms.length 0 (images da db dc).length
      ∧ r.dihedrals.terms = imageTerms a.dihedrals.terms a.atoms.length 0 (images da db dc).length
      ∧ r.impropers.terms = imageTerms a.impropers.terms a.atoms.length 0 (images da db dc).length
      ∧ r.cell = some (cell.scaleRows da db dc)
      ∧ (r.typeElems = a.typeElems ∧ r.typeLabels = a.typeLabels ∧ r.typeMasses = a.typeMasses
        ∧ r.pairCoeffs = a.pairCoeffs ∧ r.xlabels = a.xlabels
        ∧ r.bonds.coeffs = a.bonds.coeffs ∧ r.angles.coeffs = a.angles.coeffs
        ∧ r.dihedrals.coeffs = a.dihedrals.coeffs ∧ r.impropers.coeffs = a.impropers.coeffs
        ∧ r.bonds.xlabels = a.bonds.xlabels ∧ r.angles.xlabels = a.angles.xlabels
        ∧ r.dihedrals.xlabels = a.dihedrals.xlabels ∧ r.impropers.xlabels = a.impropers.xlabels) := by
  obtain ⟨hfold, _⟩ := replicate_fold a cell hw (ucMults da db dc) a (repInv_self a hw)
  have hmap : (ucMults da db dc).foldl (fun acc m => stack0 acc (a.translate (cell.lattice m.1 m.2.1 m.2.2))) a
      = ((ucMults da db dc).map (fun m => cell.lattice m.1 m.2.1 m.2.2)).foldl
          (fun acc d => stack0 acc (a.translate d)) a := by
    rw [List.foldl_map]
  refine ⟨{ ((ucMults da db dc).map (fun m => cell.lattice m.1 m.2.1 m.2.2)).foldl
              (fun acc d => stack0 acc (a.translate d)) a with cell := some (cell.scaleRows da db dc) }, ?_, ?_⟩
  · unfold Atoms.replicate
    simp only [hc]
    rw [hmap] at hfold
    first
      | (simp only [hfold]; done)
      | (erw [hfold]; done)
  · obtain ⟨t1, t2, t3, t4⟩ := stackFold_terms a ((ucMults da db dc).map (fun m => cell.lattice m.1 m.2.1 m.2.2)) a
    obtain ⟨e1, e2, e3, e4, e5, _, e7, e8, e9, e10, e11, e12, e13, e14⟩ :=
      stackFold_rest a ((ucMults da db dc).map (fun m => cell.lattice m.1 m.2.1 m.2.2)) a
    have hit : ∀ ts : List Term, ts ++ imageTerms ts a.atoms.length a.atoms.length (ucMults da db dc).length
        = imageTerms ts a.atoms.length 0 (images da db dc).length := by
      intro ts
      simp only [images, List.length_cons, imageTerms_succ, Nat.zero_add]
      congr 1
      conv => lhs; rw [← List.map_id ts]
      apply List.map_congr_left
      intro t _; exact (shiftAtoms_zero t).symm
    simp only [List.length_map] at t1 t2 t3 t4
    refine ⟨?_, ?_, ?_, ?_, ?_, rfl, e1, e2, e3, e4, e5, e7, e8, e9, e10, e11, e12, e13, e14⟩
    · show (List.foldl _ a _).atoms = _
      rw [stackFold_atoms, images, List.flatMap_cons, imageAtoms_zero, List.flatMap_map]
      rfl
    · show (List.foldl _ a _).bonds.terms = _
      rw [t1, hit]
    · show (List.foldl _ a _).angles.terms = _
      rw [t2, hit]
    · show (List.foldl _ a _).dihedrals.terms = _
      rw [t3, hit]
    · show (List.foldl _ a _).impropers.terms = _
      rw [t4, hit]

/-- **replicate_images.** For a well-formed structure with a cell, `replicate` succeeds and its atoms are, image by
    image (the unit cell first, then the multipliers in numpy's order), every atom of `a` moved by `i·A + j·B + k·C`
    with its type, charge, group and extra fields. -/
theorem replicate_images (a : Atoms) (cell : Mat3) (hc : a.cell = some cell) (hw : RepWF a) (da db dc : Nat) :
    ∃ r, a.replicate da db dc = .ok r ∧ r.atoms = (images da db dc).flatMap (imageAtoms a cell) := by
  obtain ⟨r, h, hat, _⟩ := replicate_eq a cell hc hw da db dc
  exact ⟨r, h, hat⟩

/-- … and the images are exactly the multipliers `(i, j, k) < (da, db, dc)`, each exactly once: as a multiset the
    atoms of the result are the atoms of all images of the box (image order is not constrained by the property). -/
theorem replicate_images_perm (a r : Atoms) (cell : Mat3) (hc : a.cell = some cell) (hw : RepWF a) (da db dc : Nat)
    (ha : 0 < da) (hb : 0 < db) (hd : 0 < dc) (h : a.replicate da db dc = .ok r) :
    r.atoms.Perm ((grid da db dc).flatMap (imageAtoms a cell))
    ∧ (∀ i j k, (i, j, k) ∈ grid da db dc ↔ i < da ∧ j < db ∧ k < dc)
    ∧ (∀ i j k, i < da → j < db → k < dc → (grid da db dc).count (i, j, k) = 1) := by
  obtain ⟨r', h', hat, _⟩ := replicate_eq a cell hc hw da db dc
  have : r = r' := by rw [h] at h'; cases h'; rfl
  subst this
  refine ⟨?_, mem_grid da db dc, grid_count da db dc⟩
  rw [hat]
  exact List.Perm.flatMap_right _ (ucMults_perm da db dc ha hb hd)

/-- every image is a full copy: the `x`-th atom of the `p`-th image sits at index `p·N + x` -/
theorem flatMap_getElem?_const {α β} (l : List α) (f : α → List β) (c : Nat) (hlen : ∀ y ∈ l, (f y).length = c)
    (p x : Nat) (hx : x < c) :
    (l.flatMap f)[p * c + x]? = (l[p]?).bind (fun y => (f y)[x]?) := by
  induction l generalizing p with
  | nil => simp
  | cons y ys ih =>
    have hy := hlen y (by simp)
    rw [List.flatMap_cons]
    cases p with
    | zero =>
      rw [Nat.zero_mul, Nat.zero_add, List.getElem?_append_left (by omega)]
      simp
    | succ p =>
      rw [List.getElem?_append_right (by rw [hy, Nat.succ_mul]; omega)]
      have : (p + 1) * c + x - (f y).length = p * c + x := by rw [hy, Nat.succ_mul]; omega
      rw [this, ih (fun z hz => hlen z (by simp [hz]))]
      simp

theorem replicate_atom_at (a r : Atoms) (cell : Mat3) (hc : a.cell = some cell) (hw : RepWF a) (da db dc : Nat)
    (h : a.replicate da db dc = .ok r) (p x : Nat) (hp : p < (images da db dc).length) (hx : x < a.atoms.length) :
    r.atoms[p * a.atoms.length + x]?
      = some { a.atoms[x] with
          pos := Vec3.add a.atoms[x].pos (cell.lattice ((images da db dc)[p]).1 ((images da db dc)[p]).2.1 ((images da db dc)[p]).2.2) } := by
  obtain ⟨r', h', hat, _⟩ := replicate_eq a cell hc hw da db dc
  have : r = r' := by rw [h] at h'; cases h'; rfl
  subst this
  rw [hat, flatMap_getElem?_const _ _ a.atoms.length (fun y _ => by simp [imageAtoms]) p x hx,
    List.getElem?_eq_getElem hp]
  simp [imageAtoms, List.getElem?_eq_getElem hx]

/-- **replicate_count.** `a × b × c` replication of `N` atoms has `a·b·c·N` atoms. -/
theorem replicate_count (a r : Atoms) (cell : Mat3) (hc : a.cell = some cell) (hw : RepWF a) (da db dc : Nat)
    (ha : 0 < da) (hb : 0 < db) (hd : 0 < dc) (h : a.replicate da db dc = .ok r) :
    r.atoms.length = da * db * dc * a.atoms.length := by
  obtain ⟨r', h', hat, _⟩ := replicate_eq a cell hc hw da db dc
  have : r = r' := by rw [h] at h'; cases h'; rfl
  subst this
  rw [hat, length_flatMap_const _ _ a.atoms.length (fun y _ => by simp [imageAtoms])]
  simp only [images, List.length_cons, ucMults_length da db dc ha hb hd]

/-- **replicate_cell.** The new cell vectors are `a·A`, `b·B`, `c·C` (rows scaled) — for any cell shape; needs no
    well-formedness: it holds whenever `replicate` returns. -/
theorem replicate_cell (a r : Atoms) (da db dc : Nat) (h : a.replicate da db dc = .ok r) :
    ∃ cell, a.cell = some cell ∧ r.cell = some ⟨Vec3.smul da cell.a, Vec3.smul db cell.b, Vec3.smul dc cell.c⟩ := by
  unfold Atoms.replicate at h
  cases hcell : a.cell with
  | none => simp [hcell] at h
  | some cell =>
    refine ⟨cell, rfl, ?_⟩
    simp only [hcell] at h
    split at h
    · cases h
    · cases h; rfl

/-- **replicate_terms.** Every bond / angle / dihedral / improper is copied once per image, inside that image
    (indices shifted by `image number × N`, cf. `replicate_atom_at`), with its type and extra fields;
    type tables, coefficient tables and label lists are unchanged. -/
theorem replicate_terms (a r : Atoms) (cell : Mat3) (hc : a.cell = some cell) (hw : RepWF a) (da db dc : Nat)
    (h : a.replicate da db dc = .ok r) :
    r.bonds.terms = (List.range (images da db dc).length).flatMap
        (fun p => a.bonds.terms.map (shiftAtoms (p * a.atoms.length)))
    ∧ r.angles.terms = (List.range (images da db dc).length).flatMap
        (fun p => a.angles.terms.map (shiftAtoms (p * a.atoms.length)))
    ∧ r.dihedrals.terms = (List.range (images da db dc).length).flatMap
        (fun p => a.dihedrals.terms.map (shiftAtoms (p * a.atoms.length)))
    ∧ r.impropers.terms = (List.range (images da db dc).length).flatMap
        (fun p => a.impropers.terms.map (shiftAtoms (p * a.atoms.length)))
    ∧ (r.typeElems = a.typeElems ∧ r.typeLabels = a.typeLabels ∧ r.typeMasses = a.typeMasses
        ∧ r.pairCoeffs = a.pairCoeffs ∧ r.xlabels = a.xlabels
        ∧ r.bonds.coeffs = a.bonds.coeffs ∧ r.angles.coeffs = a.angles.coeffs
        ∧ r.dihedrals.coeffs = a.dihedrals.coeffs ∧ r.impropers.coeffs = a.impropers.coeffs
        ∧ r.bonds.xlabels = a.bonds.xlabels ∧ r.angles.xlabels = a.angles.xlabels
        ∧ r.dihedrals.xlabels = a.dihedrals.xlabels ∧ r.impropers.xlabels = a.impropers.xlabels) := by
  obtain ⟨r', h', _, t1, t2, t3, t4, _, rest⟩ := replicate_eq a cell hc hw da db dc
  have : r = r' := by rw [h] at h'; cases h'; rfl
  subst this
  have hit : ∀ ts : List Term, ∀ c, imageTerms ts a.atoms.length 0 c
      = (List.range c).flatMap (fun p => ts.map (shiftAtoms (p * a.atoms.length))) := by
    intro ts c; simp [imageTerms]
  rw [hit] at t1 t2 t3 t4
  exact ⟨t1, t2, t3, t4, rest⟩

/-- number of images = `a·b·c` (so `replicate_terms` makes `a·b·c` copies of every term) -/
theorem images_length (da db dc : Nat) (ha : 0 < da) (hb : 0 < db) (hd : 0 < dc) :
    (images da db dc).length = da * db * dc := by
  simp only [images, List.length_cons, ucMults_length da db dc ha hb hd]

/-- **replicate_111_id.** `1 × 1 × 1` replication is the identity (for every structure with a cell). -/
theorem replicate_111_id (a : Atoms) (cell : Mat3) (hc : a.cell = some cell) : a.replicate 1 1 1 = .ok a := by
  unfold Atoms.replicate
  have hu : ucMults 1 1 1 = [] := by decide
  simp only [hc, hu, List.foldl_nil]
  have : cell.scaleRows ((1 : Nat) : Rat) ((1 : Nat) : Rat) ((1 : Nat) : Rat) = cell := by
    cases cell with
    | mk a b c =>
      cases a; cases b; cases c
      simp [Mat3.scaleRows, Vec3.smul, Rat.one_mul]
  rw [this, ← hc]

/-- without a cell the model (like the code) refuses -/
theorem replicate_nocell (a : Atoms) (hc : a.cell = none) (da db dc : Nat) : a.replicate da db dc = .error .nocell := by
  unfold Atoms.replicate; simp [hc]

/-- **replicate_same_crystal** (stretch). The infinite crystal is unchanged: every lattice translate (by integer
    multiples of `A, B, C`) of every original atom is a lattice translate (by integer multiples of `a·A, b·B, c·C`) of
    an atom of the replicated structure with the same type, charge, group and extra fields — Euclidean division of
    each lattice index — and conversely; the new cell is the one with rows `a·A, b·B, c·C`. -/
theorem replicate_same_crystal (a r : Atoms) (cell : Mat3) (hc : a.cell = some cell) (hw : RepWF a) (da db dc : Nat)
    (ha : 0 < da) (hb : 0 < db) (hd : 0 < dc) (h : a.replicate da db dc = .ok r) :
    r.cell = some (cell.scaleRows da db dc)
    ∧ (∀ x ∈ a.atoms, ∀ u v w : Int, ∃ y ∈ r.atoms, ∃ u' v' w' : Int,
        y.ty = x.ty ∧ y.charge = x.charge ∧ y.group = x.group ∧ y.extra = x.extra
        ∧ Vec3.add x.pos (cell.lattice u v w) = Vec3.add y.pos ((cell.scaleRows da db dc).lattice u' v' w'))
    ∧ (∀ y ∈ r.atoms, ∀ u' v' w' : Int, ∃ x ∈ a.atoms, ∃ u v w : Int,
        x.ty = y.ty ∧ x.charge = y.charge ∧ x.group = y.group ∧ x.extra = y.extra
        ∧ Vec3.add y.pos ((cell.scaleRows da db dc).lattice u' v' w') = Vec3.add x.pos (cell.lattice u v w)) := by
  obtain ⟨hperm, hgrid, _⟩ := replicate_images_perm a r cell hc hw da db dc ha hb hd h
  have hmem : ∀ y, y ∈ r.atoms ↔ ∃ i j k, i < da ∧ j < db ∧ k < dc ∧ ∃ x ∈ a.atoms,
      y = { x with pos := Vec3.add x.pos (cell.lattice i j k) } := by
    intro y
    rw [hperm.mem_iff, List.mem_flatMap]
    constructor
    · rintro ⟨⟨i, j, k⟩, hm, hy⟩
      obtain ⟨hi, hj, hk⟩ := (hgrid i j k).mp hm
      simp only [imageAtoms, List.mem_map] at hy
      obtain ⟨x, hx, rfl⟩ := hy
      exact ⟨i, j, k, hi, hj, hk, x, hx, rfl⟩
    · rintro ⟨i, j, k, hi, hj, hk, x, hx, rfl⟩
      exact ⟨(i, j, k), (hgrid i j k).mpr ⟨hi, hj, hk⟩, List.mem_map.mpr ⟨x, hx, rfl⟩⟩
  obtain ⟨r', h', _, _, _, _, _, hcell, _⟩ := replicate_eq a cell hc hw da db dc
  have : r = r' := by rw [h] at h'; cases h'; rfl
  subst this
  refine ⟨hcell, ?_, ?_⟩
  · intro x hx u v w
    obtain ⟨i, j, k, hi, hj, hk, u', v', w', hsplit⟩ := lattice_split cell da db dc ha hb hd u v w
    exact ⟨_, (hmem _).mpr ⟨i, j, k, hi, hj, hk, x, hx, rfl⟩, u', v', w', rfl, rfl, rfl, rfl, hsplit x.pos⟩
  · intro y hy u' v' w'
    obtain ⟨i, j, k, _, _, _, x, hx, rfl⟩ := (hmem y).mp hy
    obtain ⟨u, v, w, hmerge⟩ := lattice_merge cell da db dc i j k u' v' w'
    exact ⟨x, hx, u, v, w, rfl, rfl, rfl, rfl, hmerge x.pos⟩

/-! ### non-vacuity -/

/-- four atoms in a tilted cell with a bond, an angle and an improper, one extra column on atoms and on bonds -/
def exC12 : Atoms :=
  { Atoms.empty with
    atoms := [⟨0, ⟨0, 0, 0⟩, 1, 0, ["x0"]⟩, ⟨1, ⟨1, 0, 0⟩, 2, 0, ["x1"]⟩, ⟨1, ⟨0, 1, 0⟩, 3, 1, ["x2"]⟩,
              ⟨1, ⟨0, 0, 1⟩, 4, 1, ["x3"]⟩]
    bonds := ⟨[⟨[0, 1], 0, ["b0"]⟩, ⟨[0, 2], 1, ["b1"]⟩], ["k0", "k1"], ["_tag"]⟩
    angles := ⟨[⟨[1, 0, 2], 0, []⟩], ["th"], []⟩
    impropers := ⟨[⟨[0, 1, 2, 3], 0, []⟩], ["imp"], []⟩
    typeElems := ["C", "H"], typeLabels := ["C", "H"], typeMasses := [12, 1]
    xlabels := ["_note"]
    cell := some ⟨⟨10, 0, 0⟩, ⟨3, 9, 0⟩, ⟨1, 2, 8⟩⟩ }

example : RepWF exC12 := by decide
example : ∃ r, exC12.replicate 2 1 3 = .ok r ∧ r.atoms.length = 24
    ∧ r.impropers.terms.map (·.atoms) = [[0, 1, 2, 3], [4, 5, 6, 7], [8, 9, 10, 11], [12, 13, 14, 15],
        [16, 17, 18, 19], [20, 21, 22, 23]]
    ∧ r.bonds.terms.length = 12 ∧ r.bonds.coeffs = ["k0", "k1"] :=
  ⟨_, rfl, by decide, by decide, by decide, by decide⟩
example : images 2 1 3 = [(0, 0, 0), (1, 0, 0), (0, 0, 1), (1, 0, 1), (0, 0, 2), (1, 0, 2)] := by decide
example : exC12.replicate 1 1 1 = .ok exC12 := replicate_111_id exC12 _ rfl
example : ∃ r, exC12.replicate 2 1 3 = .ok r ∧ r.cell = some ⟨Vec3.smul 2 ⟨10, 0, 0⟩, Vec3.smul 1 ⟨3, 9, 0⟩, Vec3.smul 3 ⟨1, 2, 8⟩⟩ :=
  ⟨_, rfl, rfl⟩

end Mofun
