/-
  C06 (stretch 1) — the pattern's terms for OVERLAPPING matches: matches that share RETAINED atoms (the documented
  workflow: 24 linker matches of UiO-66 share their Zr atoms).  `replace_pattern_terms_once` (Props/C06.lean) asks for
  pairwise disjoint matches; here the hypotheses are only about the match `m` and the term `u` in question:

  * `m` itself is a valid match (`MatchOK`), every selected match lies inside the structure (`hrange`);
  * no selected match REMOVES an atom of `u` that `m` retains (`hkeep`);
  * no LATER match puts a term of the same kind on the same atoms, forwards or reversed (`hlater`).

  `replace_pattern_terms_last_wins` drops the last hypothesis altogether: on the atoms of a pattern term there is always
  exactly one term, the one of the LAST match that sits there.
-/
import MofunModel.Props.C06
import MofunModel.Proofs.ReplaceTermsOverlap

namespace Mofun.C06
open Mofun

/-- one match is a duplicate-free index tuple of the search pattern's length inside the structure -/
def MatchOK (s p : Atoms) (m : PlacedMatch) : Prop :=
  m.idx.Nodup ∧ m.idx.length = p.atoms.length ∧ ∀ i ∈ m.idx, i < s.atoms.length

instance (s p : Atoms) (m : PlacedMatch) : Decidable (MatchOK s p m) := by unfold MatchOK; infer_instance

theorem matchOK_pairs_lt (s p r : Atoms) (m : PlacedMatch) (h : MatchOK s p m) :
    ∀ kv ∈ unchangedPairs r p, kv.2 < m.idx.length := by
  intro kv hkv
  rw [h.2.1]
  exact unchangedPairs_snd_lt r p kv hkv

theorem matchOK_vals_nodup (s p r : Atoms) (ra : Bool) (m : PlacedMatch) (h : MatchOK s p m)
    (hinj : PairsInj (unchangedPairs r p)) : ((matchMap (unchangedPairs r p) ra m).map (·.2)).Nodup :=
  matchMap_vals_nodup _ ra m h.1 hinj (matchOK_pairs_lt s p r m h)

theorem matchOK_vals_lt (s p r : Atoms) (ra : Bool) (m : PlacedMatch) (h : MatchOK s p m) :
    ∀ kv ∈ matchMap (unchangedPairs r p) ra m, kv.2 < s.atoms.length := by
  intro kv hkv
  exact h.2.2 _ (matchMap_vals_sub _ ra m (matchOK_pairs_lt s p r m h) _ (List.mem_map.mpr ⟨kv, hkv, rfl⟩))

theorem onAtoms_reverse (img : List Nat) (x : Sig) : onAtoms img.reverse x = onAtoms img x := by
  rw [Bool.eq_iff_iff, onAtoms_iff, onAtoms_iff, List.reverse_reverse]
  exact Or.comm

theorem survives_reverse (del img : List Nat) : survives del img.reverse = survives del img := by
  rw [Bool.eq_iff_iff, survives_iff, survives_iff]
  constructor
  · intro h a ha; exact h a (by simpa using ha)
  · intro h a ha; exact h a (by simpa using ha)

/-- the later fragments have no term on `img` (decidable form of "no later match puts a term on the same atoms") -/
def laterClear (κ : Kind) (r : Atoms) (pairs : List (Nat × Nat)) (ra : Bool) (off base : Nat)
    (post : List PlacedMatch) (img : List Nat) : Bool :=
  (nsFrom κ r pairs ra off base post).all (fun N' => !(N'.any (onAtoms img)))

/-- **core**: everything `replace_pattern_terms_once` concludes, from exactly what its proof uses —
    the image survives, the later fragments are clear of it, the index map of `m` is injective into the structure. -/
theorem pattern_term_once_core (κ : Kind) (s p r res : Atoms) (pre post : List PlacedMatch) (m : PlacedMatch)
    (ra ig : Bool) (hne : r.atoms ≠ [])
    (h : replaceCore s p r (pre ++ m :: post) ra ig = .ok res)
    (hvn : ((matchMap (unchangedPairs r p) ra m).map (·.2)).Nodup)
    (hvlt : ∀ kv ∈ matchMap (unchangedPairs r p) ra m, kv.2 < s.atoms.length)
    (hterms : TermsOK (κ.get r) r.atoms.length) (hdist : DistinctUpToRev (κ.get r).terms)
    (hcompat : Compat s r κ) (u : Term) (hu : u ∈ (κ.get r).terms)
    (hsurv : survives (delOf (unchangedPairs r p) ra (pre ++ m :: post))
      (u.atoms.map (imgAt r (unchangedPairs r p) ra
        (s.atoms.length + pre.length * nAdd r (unchangedPairs r p) ra) m)) = true)
    (hclear : laterClear κ r (unchangedPairs r p) ra (numTermTypes (κ.get s))
      (s.atoms.length + pre.length * nAdd r (unchangedPairs r p) ra + nAdd r (unchangedPairs r p) ra) post
      (u.atoms.map (imgAt r (unchangedPairs r p) ra
        (s.atoms.length + pre.length * nAdd r (unchangedPairs r p) ra) m)) = true) :
    let del := delOf (unchangedPairs r p) ra (pre ++ m :: post)
    let img := u.atoms.map (imgAt r (unchangedPairs r p) ra
      (s.atoms.length + pre.length * nAdd r (unchangedPairs r p) ra) m)
    let fin := img.map (newIndex del)
    (∃ t ∈ (κ.get res).terms, t.atoms = fin ∧ t.ty = u.ty + numTermTypes (κ.get s))
    ∧ Resolves (κ.get res).coeffs (u.ty + numTermTypes (κ.get s)) = Resolves (κ.get r).coeffs u.ty
    ∧ ((κ.get res).terms.map sig).countP (onAtoms fin) = 1 := by
  intro del img fin
  obtain ⟨hco, hsig⟩ := replace_terms_eq κ s p r res _ ra ig hne h
  have hnd : del.Nodup := delOf_nodup _ ra _
  have hbase : s.atoms.length ≤ s.atoms.length + pre.length * nAdd r (unchangedPairs r p) ra := Nat.le_add_right _ _
  have hNs : patternSigs κ s p r ra (pre ++ m :: post)
      = nsFrom κ r (unchangedPairs r p) ra (numTermTypes (κ.get s)) s.atoms.length pre
        ++ newSigs κ r (unchangedPairs r p) ra (numTermTypes (κ.get s))
            (s.atoms.length + pre.length * nAdd r (unchangedPairs r p) ra) m
          :: nsFrom κ r (unchangedPairs r p) ra (numTermTypes (κ.get s))
            (s.atoms.length + pre.length * nAdd r (unchangedPairs r p) ra + nAdd r (unchangedPairs r p) ra) post := by
    unfold patternSigs
    rw [nsFrom_append]; rfl
  have hnoton : ∀ N' ∈ nsFrom κ r (unchangedPairs r p) ra (numTermTypes (κ.get s))
      (s.atoms.length + pre.length * nAdd r (unchangedPairs r p) ra + nAdd r (unchangedPairs r p) ra) post,
      N'.any (onAtoms img) = false := by
    intro N' hN'
    have := List.all_eq_true.mp hclear N' hN'
    simpa using this
  have hnotsup : ∀ N' ∈ nsFrom κ r (unchangedPairs r p) ra (numTermTypes (κ.get s))
      (s.atoms.length + pre.length * nAdd r (unchangedPairs r p) ra + nAdd r (unchangedPairs r p) ra) post,
      sup (N'.map (·.1)) img = false := by
    intro N' hN'
    cases hs : sup (N'.map (·.1)) img with
    | false => rfl
    | true =>
      exfalso
      obtain ⟨a, ha, hx⟩ := (sup_iff _ _).mp hs
      obtain ⟨x, hx', rfl⟩ := List.mem_map.mp ha
      have hf := List.any_eq_false.mp (hnoton N' hN') x hx'
      apply hf
      rw [onAtoms_iff]
      rcases hx with e | e
      · exact Or.inl e.symm
      · right; rw [e, List.reverse_reverse]
  have hmine : (img, u.ty + numTermTypes (κ.get s)) ∈ newSigs κ r (unchangedPairs r p) ra (numTermTypes (κ.get s))
      (s.atoms.length + pre.length * nAdd r (unchangedPairs r p) ra) m :=
    List.mem_map.mpr ⟨u, hu, rfl⟩
  refine ⟨?_, ?_, ?_⟩
  · have hmem : reSig del (img, u.ty + numTermTypes (κ.get s)) ∈ (κ.get res).terms.map sig := by
      rw [hsig]
      apply List.mem_append_right
      refine List.mem_map.mpr ⟨_, List.mem_filter.mpr ⟨?_, hsurv⟩, rfl⟩
      rw [mem_specSigs_nil]
      exact ⟨_, _, _, hNs, hmine, hnotsup⟩
    rw [reSig_newIndex del hnd _ hsurv] at hmem
    obtain ⟨t, ht, e⟩ := List.mem_map.mp hmem
    exact ⟨t, ht, congrArg Prod.fst e, congrArg Prod.snd e⟩
  · rw [hco]
    have hrne : (κ.get r).terms ≠ [] := List.ne_nil_of_mem hu
    rcases offset_is_table_length s r κ hcompat hrne with e | ⟨e1, e2⟩
    · rw [e, Nat.add_comm]; exact resolves_append_offset _ _ _
    · rw [e1, e2]; simp [Resolves]
  · have hinv := (replace_terms_spec κ s p r res _ ra ig hne h).2
    rw [hinv, countP_delete del hnd _ img hsurv, hNs]
    apply countP_specSigs_one img _ _ _ _ _ hnoton
    apply countP_eq_one_of_pairwise _ _ _ _ hmine (by simp [onAtoms])
    unfold newSigs
    rw [List.pairwise_map]
    refine List.Pairwise.imp_of_mem ?_ hdist
    intro u1 u2 hu1 hu2 hne12 hboth
    have hinjimg : ∀ l : List Nat, (∀ a ∈ l, a < r.atoms.length) → ∀ l' : List Nat,
        (∀ a ∈ l', a < r.atoms.length) →
        l.map (imgAt r (unchangedPairs r p) ra (s.atoms.length + pre.length * nAdd r (unchangedPairs r p) ra) m)
          = l'.map (imgAt r (unchangedPairs r p) ra (s.atoms.length + pre.length * nAdd r (unchangedPairs r p) ra) m)
        → l = l' := by
      intro l hl l' hl' e
      refine map_inj_on _ (fun a => a < r.atoms.length) ?_ l l' hl hl' e
      intro a b ha hb eab
      exact imgAt_inj r _ ra _ s.atoms.length m hvn hvlt hbase a b ha hb eab
    have h1lt := (hterms u1 hu1).2
    have h2lt := (hterms u2 hu2).2
    have h2rev : ∀ a ∈ u2.atoms.reverse, a < r.atoms.length := fun a ha => h2lt a (by simpa using ha)
    obtain ⟨ho1, ho2⟩ := hboth
    rw [onAtoms_iff] at ho1 ho2
    simp only at ho1 ho2
    rcases ho1 with e1 | e1 <;> rcases ho2 with e2 | e2
    · exact hne12.1 (hinjimg _ h1lt _ h2lt (e1.trans e2.symm))
    · apply hne12.2
      apply hinjimg _ h1lt _ h2rev
      rw [List.map_reverse, e2, List.reverse_reverse, e1]
    · apply hne12.2
      apply hinjimg _ h1lt _ h2rev
      rw [List.map_reverse, e2, e1]
    · exact hne12.1 (hinjimg _ h1lt _ h2lt (e1.trans e2.symm))

/-- an atom of the pattern term's image is not removed when no selected match removes a retained atom of the term:
    retained atoms — by hypothesis; appended atoms — they are new -/
theorem image_survives_overlap (s p r : Atoms) (ra : Bool) (ms : List PlacedMatch) (m : PlacedMatch)
    (hrange : ∀ m' ∈ ms, ∀ i ∈ m'.idx, i < s.atoms.length) (base : Nat) (hbase : s.atoms.length ≤ base)
    (a : Nat) (ha : a < r.atoms.length)
    (hkeep : ∀ v, (a, v) ∈ matchMap (unchangedPairs r p) ra m → ∀ m' ∈ ms, v ∈ m'.idx →
      v ∈ (matchMap (unchangedPairs r p) ra m').map (·.2)) :
    imgAt r (unchangedPairs r p) ra base m a ∉ delOf (unchangedPairs r p) ra ms := by
  intro hdel
  obtain ⟨m', hm', hin, hnot⟩ := (delOf_mem _ ra _ _).mp hdel
  have hlt' := hrange m' hm' _ hin
  rcases imgAt_cases r _ ra base m a ha with ⟨v, hv, e⟩ | ⟨_, j, hj, e⟩
  · rw [e] at hin hnot
    exact hnot (hkeep v hv m' hm' hin)
  · omega

/-- **replace_pattern_terms_once_overlap.**  Matches may share retained atoms.  For the match `m`
    (`ms = pre ++ m :: post`) and the term `u` of the replacement pattern: if `m` is a valid match, every selected match
    lies inside the structure, no selected match removes an atom of `u` that `m` retains, and no later match puts a
    term of kind `κ` on the same atoms (forwards or reversed), then the image of `u` survives, the result has a term
    between the final indices with id `u.ty + offset`, the id resolves to `r`'s own coefficient text of `u`, and it is
    the ONLY term of the result on those atoms (either direction). -/
theorem replace_pattern_terms_once_overlap (κ : Kind) (s p r res : Atoms) (pre post : List PlacedMatch)
    (m : PlacedMatch) (ra ig : Bool) (hne : r.atoms ≠ [])
    (h : replaceCore s p r (pre ++ m :: post) ra ig = .ok res)
    (hm : MatchOK s p m) (hrange : ∀ m' ∈ pre ++ m :: post, ∀ i ∈ m'.idx, i < s.atoms.length)
    (hinj : PairsInj (unchangedPairs r p))
    (hterms : TermsOK (κ.get r) r.atoms.length) (hdist : DistinctUpToRev (κ.get r).terms)
    (hcompat : Compat s r κ) (u : Term) (hu : u ∈ (κ.get r).terms)
    (hkeep : ∀ a ∈ u.atoms, ∀ v, (a, v) ∈ matchMap (unchangedPairs r p) ra m → ∀ m' ∈ pre ++ m :: post,
      v ∈ m'.idx → v ∈ (matchMap (unchangedPairs r p) ra m').map (·.2))
    (hlater : ∀ pre₂ m' post₂, post = pre₂ ++ m' :: post₂ → ∀ u' ∈ (κ.get r).terms,
      let img := u.atoms.map (imgAt r (unchangedPairs r p) ra
        (s.atoms.length + pre.length * nAdd r (unchangedPairs r p) ra) m)
      let img' := u'.atoms.map (imgAt r (unchangedPairs r p) ra
        (s.atoms.length + (pre.length + 1 + pre₂.length) * nAdd r (unchangedPairs r p) ra) m')
      img' ≠ img ∧ img' ≠ img.reverse) :
    let del := delOf (unchangedPairs r p) ra (pre ++ m :: post)
    let img := u.atoms.map (imgAt r (unchangedPairs r p) ra
      (s.atoms.length + pre.length * nAdd r (unchangedPairs r p) ra) m)
    let fin := img.map (newIndex del)
    survives del img = true
    ∧ (∃ t ∈ (κ.get res).terms, t.atoms = fin ∧ t.ty = u.ty + numTermTypes (κ.get s))
    ∧ Resolves (κ.get res).coeffs (u.ty + numTermTypes (κ.get s)) = Resolves (κ.get r).coeffs u.ty
    ∧ ((κ.get res).terms.map sig).countP (onAtoms fin) = 1 := by
  intro del img fin
  have hbase : s.atoms.length ≤ s.atoms.length + pre.length * nAdd r (unchangedPairs r p) ra := Nat.le_add_right _ _
  have hult : ∀ a ∈ u.atoms, a < r.atoms.length := (hterms u hu).2
  have hsurv : survives del img = true := by
    rw [survives_iff]
    intro x hx
    obtain ⟨a, ha, rfl⟩ := List.mem_map.mp hx
    exact image_survives_overlap s p r ra _ m hrange _ hbase a (hult a ha) (hkeep a ha)
  have hclear : laterClear κ r (unchangedPairs r p) ra (numTermTypes (κ.get s))
      (s.atoms.length + pre.length * nAdd r (unchangedPairs r p) ra + nAdd r (unchangedPairs r p) ra) post img
      = true := by
    unfold laterClear
    rw [List.all_eq_true]
    intro N' hN'
    obtain ⟨preN, postN, e⟩ := List.append_of_mem hN'
    obtain ⟨pre₂, m', post₂, e1, _, e3, _⟩ := nsFrom_split κ r _ ra _ _ post preN postN N' e
    have hb : s.atoms.length + pre.length * nAdd r (unchangedPairs r p) ra + nAdd r (unchangedPairs r p) ra
        + pre₂.length * nAdd r (unchangedPairs r p) ra
        = s.atoms.length + (pre.length + 1 + pre₂.length) * nAdd r (unchangedPairs r p) ra := by
      rw [Nat.add_mul, Nat.add_mul, Nat.one_mul]; omega
    rw [hb] at e3
    simp only [Bool.not_eq_true']
    rw [List.any_eq_false]
    intro x hx hon
    rw [e3] at hx
    obtain ⟨u', hu', rfl⟩ := List.mem_map.mp hx
    have := hlater pre₂ m' post₂ e1 u' hu'
    rcases (onAtoms_iff img _).mp hon with e' | e'
    · exact this.1 e'
    · exact this.2 e'
  exact ⟨hsurv, pattern_term_once_core κ s p r res pre post m ra ig hne h
    (matchOK_vals_nodup s p r ra m hm hinj) (matchOK_vals_lt s p r ra m hm) hterms hdist hcompat u hu hsurv hclear⟩

/-- **replace_pattern_terms_last_wins.**  No hypothesis about later matches at all: every selected match valid; the
    image of `u` under `m` survives the delete.  Then the result has EXACTLY ONE term on those atoms (either
    direction), and it is the pattern term `u'` of the LAST match `m'` (at or after `m`) that sits there: id
    `u'.ty + offset`, resolving to `r`'s coefficient text of `u'`.  (When `u' = u` — the usual case of a term on shared
    atoms that every neighbouring match defines alike — this is the property's clause for `m` as well.) -/
theorem replace_pattern_terms_last_wins (κ : Kind) (s p r res : Atoms) (ms : List PlacedMatch) (ra ig : Bool)
    (hne : r.atoms ≠ []) (h : replaceCore s p r ms ra ig = .ok res)
    (hall : ∀ m' ∈ ms, MatchOK s p m') (hinj : PairsInj (unchangedPairs r p))
    (hterms : TermsOK (κ.get r) r.atoms.length) (hdist : DistinctUpToRev (κ.get r).terms)
    (hcompat : Compat s r κ)
    (pre post : List PlacedMatch) (m : PlacedMatch) (hms : ms = pre ++ m :: post)
    (u : Term) (hu : u ∈ (κ.get r).terms)
    (hsurv : survives (delOf (unchangedPairs r p) ra ms) (u.atoms.map (imgAt r (unchangedPairs r p) ra
        (s.atoms.length + pre.length * nAdd r (unchangedPairs r p) ra) m)) = true) :
    let del := delOf (unchangedPairs r p) ra ms
    let img := u.atoms.map (imgAt r (unchangedPairs r p) ra
      (s.atoms.length + pre.length * nAdd r (unchangedPairs r p) ra) m)
    ((κ.get res).terms.map sig).countP (onAtoms (img.map (newIndex del))) = 1
    ∧ ∃ pre' m' post' u', ms = pre' ++ m' :: post' ∧ pre.length ≤ pre'.length ∧ u' ∈ (κ.get r).terms
        ∧ (let img' := u'.atoms.map (imgAt r (unchangedPairs r p) ra
              (s.atoms.length + pre'.length * nAdd r (unchangedPairs r p) ra) m')
           (img' = img ∨ img' = img.reverse)
           ∧ (∃ t ∈ (κ.get res).terms, t.atoms = img'.map (newIndex del) ∧ t.ty = u'.ty + numTermTypes (κ.get s)))
        ∧ Resolves (κ.get res).coeffs (u'.ty + numTermTypes (κ.get s)) = Resolves (κ.get r).coeffs u'.ty := by
  intro del img
  -- induction on the number of matches after `m`
  have key : ∀ k : Nat, ∀ (pre post : List PlacedMatch) (m : PlacedMatch) (u : Term), post.length ≤ k →
      ms = pre ++ m :: post → u ∈ (κ.get r).terms →
      survives del (u.atoms.map (imgAt r (unchangedPairs r p) ra
        (s.atoms.length + pre.length * nAdd r (unchangedPairs r p) ra) m)) = true →
      ((κ.get res).terms.map sig).countP (onAtoms ((u.atoms.map (imgAt r (unchangedPairs r p) ra
        (s.atoms.length + pre.length * nAdd r (unchangedPairs r p) ra) m)).map (newIndex del))) = 1
      ∧ ∃ pre' m' post' u', ms = pre' ++ m' :: post' ∧ pre.length ≤ pre'.length ∧ u' ∈ (κ.get r).terms
        ∧ ((u'.atoms.map (imgAt r (unchangedPairs r p) ra
              (s.atoms.length + pre'.length * nAdd r (unchangedPairs r p) ra) m')
              = u.atoms.map (imgAt r (unchangedPairs r p) ra
                (s.atoms.length + pre.length * nAdd r (unchangedPairs r p) ra) m)
            ∨ u'.atoms.map (imgAt r (unchangedPairs r p) ra
              (s.atoms.length + pre'.length * nAdd r (unchangedPairs r p) ra) m')
              = (u.atoms.map (imgAt r (unchangedPairs r p) ra
                (s.atoms.length + pre.length * nAdd r (unchangedPairs r p) ra) m)).reverse)
           ∧ (∃ t ∈ (κ.get res).terms, t.atoms = (u'.atoms.map (imgAt r (unchangedPairs r p) ra
              (s.atoms.length + pre'.length * nAdd r (unchangedPairs r p) ra) m')).map (newIndex del)
              ∧ t.ty = u'.ty + numTermTypes (κ.get s)))
        ∧ Resolves (κ.get res).coeffs (u'.ty + numTermTypes (κ.get s)) = Resolves (κ.get r).coeffs u'.ty := by
    intro k
    induction k with
    | zero =>
      intro pre post m u hk hms hu hsurv
      have hpost : post = [] := List.eq_nil_of_length_eq_zero (Nat.le_zero.mp hk)
      subst hpost
      subst hms
      have hmm : m ∈ pre ++ [m] := by simp
      have hclear : laterClear κ r (unchangedPairs r p) ra (numTermTypes (κ.get s))
          (s.atoms.length + pre.length * nAdd r (unchangedPairs r p) ra + nAdd r (unchangedPairs r p) ra) []
          (u.atoms.map (imgAt r (unchangedPairs r p) ra
            (s.atoms.length + pre.length * nAdd r (unchangedPairs r p) ra) m)) = true := rfl
      obtain ⟨h2, h3, h4⟩ := pattern_term_once_core κ s p r res pre [] m ra ig hne h
        (matchOK_vals_nodup s p r ra m (hall m hmm) hinj) (matchOK_vals_lt s p r ra m (hall m hmm))
        hterms hdist hcompat u hu hsurv hclear
      exact ⟨h4, pre, m, [], u, rfl, Nat.le_refl _, hu, ⟨Or.inl rfl, h2⟩, h3⟩
    | succ k ih =>
      intro pre post m u hk hms hu hsurv
      by_cases hex : ∃ pre₂ m' post₂ u', post = pre₂ ++ m' :: post₂ ∧ u' ∈ (κ.get r).terms
          ∧ (u'.atoms.map (imgAt r (unchangedPairs r p) ra
              (s.atoms.length + (pre.length + 1 + pre₂.length) * nAdd r (unchangedPairs r p) ra) m')
              = u.atoms.map (imgAt r (unchangedPairs r p) ra
                (s.atoms.length + pre.length * nAdd r (unchangedPairs r p) ra) m)
            ∨ u'.atoms.map (imgAt r (unchangedPairs r p) ra
              (s.atoms.length + (pre.length + 1 + pre₂.length) * nAdd r (unchangedPairs r p) ra) m')
              = (u.atoms.map (imgAt r (unchangedPairs r p) ra
                (s.atoms.length + pre.length * nAdd r (unchangedPairs r p) ra) m)).reverse)
      · -- a later match sits on the same atoms: it decides (recursively)
        obtain ⟨pre₂, m', post₂, u', epost, hu', himg⟩ := hex
        have hlen : (pre ++ m :: pre₂).length = pre.length + 1 + pre₂.length := by
          simp only [List.length_append, List.length_cons]; omega
        have hms' : ms = (pre ++ m :: pre₂) ++ m' :: post₂ := by
          rw [hms, epost]; simp [List.append_assoc]
        have hk' : post₂.length ≤ k := by
          rw [epost] at hk
          simp only [List.length_append, List.length_cons] at hk
          omega
        have hsurv' : survives del (u'.atoms.map (imgAt r (unchangedPairs r p) ra
            (s.atoms.length + (pre ++ m :: pre₂).length * nAdd r (unchangedPairs r p) ra) m')) = true := by
          rw [hlen]
          rcases himg with e | e
          · rw [e]; exact hsurv
          · rw [e, survives_reverse]; exact hsurv
        obtain ⟨hc, pre', m'', post', u'', e1, e2, e3, ⟨e4, e5⟩, e6⟩ := ih (pre ++ m :: pre₂) post₂ m' u' hk' hms' hu' hsurv'
        rw [hlen] at hc e2 e4
        refine ⟨?_, pre', m'', post', u'', e1, by omega, e3, ⟨?_, e5⟩, e6⟩
        · rcases himg with e | e
          · rw [e] at hc; exact hc
          · rw [e, List.map_reverse] at hc
            have : ∀ l : List Nat, ((κ.get res).terms.map sig).countP (onAtoms l.reverse)
                = ((κ.get res).terms.map sig).countP (onAtoms l) := by
              intro l
              apply List.countP_congr
              intro x _
              rw [onAtoms_reverse]
            rw [this] at hc
            exact hc
        · rcases himg with e | e <;> rcases e4 with f | f
          · exact Or.inl (f.trans e)
          · exact Or.inr (by rw [f, e])
          · exact Or.inr (f.trans e)
          · exact Or.inl (by rw [f, e, List.reverse_reverse])
      · -- no later match sits there: this match's term is the one
        subst hms
        have hmm : m ∈ pre ++ m :: post := by simp
        have hclear : laterClear κ r (unchangedPairs r p) ra (numTermTypes (κ.get s))
            (s.atoms.length + pre.length * nAdd r (unchangedPairs r p) ra + nAdd r (unchangedPairs r p) ra) post
            (u.atoms.map (imgAt r (unchangedPairs r p) ra
              (s.atoms.length + pre.length * nAdd r (unchangedPairs r p) ra) m)) = true := by
          unfold laterClear
          rw [List.all_eq_true]
          intro N' hN'
          obtain ⟨preN, postN, e⟩ := List.append_of_mem hN'
          obtain ⟨pre₂, m', post₂, e1, _, e3, _⟩ := nsFrom_split κ r _ ra _ _ post preN postN N' e
          have hb : s.atoms.length + pre.length * nAdd r (unchangedPairs r p) ra + nAdd r (unchangedPairs r p) ra
              + pre₂.length * nAdd r (unchangedPairs r p) ra
              = s.atoms.length + (pre.length + 1 + pre₂.length) * nAdd r (unchangedPairs r p) ra := by
            rw [Nat.add_mul, Nat.add_mul, Nat.one_mul]; omega
          rw [hb] at e3
          simp only [Bool.not_eq_true']
          rw [List.any_eq_false]
          intro x hx hon
          rw [e3] at hx
          obtain ⟨u', hu', rfl⟩ := List.mem_map.mp hx
          exact hex ⟨pre₂, m', post₂, u', e1, hu', (onAtoms_iff _ _).mp hon⟩
        obtain ⟨h2, h3, h4⟩ := pattern_term_once_core κ s p r res pre post m ra ig hne h
          (matchOK_vals_nodup s p r ra m (hall m hmm) hinj) (matchOK_vals_lt s p r ra m (hall m hmm))
          hterms hdist hcompat u hu hsurv hclear
        exact ⟨h4, pre, m, post, u, rfl, Nat.le_refl _, hu, ⟨Or.inl rfl, h2⟩, h3⟩
  exact key post.length pre post m u (Nat.le_refl _) hms hu hsurv

/-! ### atoms taken over from the pattern, overlapping matches -/

/-- `replace_unfold` with the retained-type invariant for matches that may share retained atoms -/
theorem replace_unfold_overlap (s p r res : Atoms) (ms : List PlacedMatch) (ra ig : Bool) (hne : r.atoms ≠ [])
    (h : replaceCore s p r ms ra ig = .ok res) :
    ∃ st, FoldInvRet s r (p0Of p) (unchangedPairs r p) ra ms st
      ∧ st.s.delete (delOf (unchangedPairs r p) ra ms) = .ok res := by
  have hne' : r.atoms.isEmpty = false := by simpa using hne
  rw [replaceCore_nonempty s p r ms ra ig hne'] at h
  cases hf : ms.foldl (stepR s r (p0Of p) (unchangedPairs r p) (s.extendTypes r).2 ra ig)
      (.ok { s := (s.extendTypes r).1, del := [] }) with
  | error e => rw [hf] at h; cases h
  | ok st =>
    rw [hf] at h
    have hI := foldInvRet_all s p r ms ra ig st hf
    refine ⟨st, hI, ?_⟩
    rw [← hI.1.del]; exact h

/-- **replace_atom_payload_overlap.**  `replace_atom_payload` for matches that may SHARE retained atoms (every
    selected match valid, pairing injective).  For the match `m` and the atom `a` of the pattern (row `br`): if no
    selected match removes the matched atom `a` is identified with (`hkeep`) and every selected match that retains that
    atom identifies it with a pattern atom of the same type id (`hsame`; e.g. the shared Zr of neighbouring linkers),
    the conclusion of `replace_atom_payload` holds verbatim. -/
theorem replace_atom_payload_overlap (s p r res : Atoms) (pre post : List PlacedMatch) (m : PlacedMatch)
    (ra ig : Bool) (hne : r.atoms ≠ []) (h : replaceCore s p r (pre ++ m :: post) ra ig = .ok res)
    (hall : ∀ m' ∈ pre ++ m :: post, MatchOK s p m') (hinj : PairsInj (unchangedPairs r p))
    (a : Nat) (br : AtomRow) (ha : r.atoms[a]? = some br)
    (hkeep : ∀ v, (a, v) ∈ matchMap (unchangedPairs r p) ra m → ∀ m' ∈ pre ++ m :: post, v ∈ m'.idx →
      v ∈ (matchMap (unchangedPairs r p) ra m').map (·.2))
    (hsame : ∀ v, (a, v) ∈ matchMap (unchangedPairs r p) ra m → ∀ m' ∈ pre ++ m :: post, ∀ k' : Nat,
      (k', v) ∈ matchMap (unchangedPairs r p) ra m' → (r.atoms[k']?).map (·.ty) = some br.ty) :
    let del := delOf (unchangedPairs r p) ra (pre ++ m :: post)
    let x := imgAt r (unchangedPairs r p) ra (s.atoms.length + pre.length * nAdd r (unchangedPairs r p) ra) m a
    x ∉ del ∧ ∃ row, res.atoms[newIndex del x]? = some row
      ∧ row.ty = br.ty + s.typeElems.length
      ∧ res.typeElems[row.ty]? = r.typeElems[br.ty]?
      ∧ (s.typeLabels.length = s.typeElems.length → res.typeLabels[row.ty]? = r.typeLabels[br.ty]?)
      ∧ (s.typeMasses.length = s.typeElems.length → res.typeMasses[row.ty]? = r.typeMasses[br.ty]?)
      ∧ (s.pairCoeffs.length = s.typeElems.length → Resolves res.pairCoeffs row.ty = Resolves r.pairCoeffs br.ty)
      ∧ (s.pairCoeffs = [] → r.pairCoeffs = [] → Resolves res.pairCoeffs row.ty = Resolves r.pairCoeffs br.ty)
      ∧ (∀ v, (a, v) ∈ matchMap (unchangedPairs r p) ra m → x = v ∧ (s.atoms[v]?).map pcg = some (pcg row))
      ∧ (a ∉ mapKeys (unchangedPairs r p) ra → row.charge = br.charge ∧ row.group = br.group
          ∧ ((placeAtoms s.cell (p0Of p) r m).atoms[a]?).map (·.pos) = some row.pos) := by
  intro del x
  obtain ⟨st, ⟨hI, hRet⟩, hd⟩ := replace_unfold_overlap s p r res _ ra ig hne h
  have hnd : del.Nodup := delOf_nodup _ ra _
  have halt : a < r.atoms.length := (List.getElem?_eq_some_iff.mp ha).1
  have hbase : s.atoms.length ≤ s.atoms.length + pre.length * nAdd r (unchangedPairs r p) ra := Nat.le_add_right _ _
  have hrange : ∀ m' ∈ pre ++ m :: post, ∀ i ∈ m'.idx, i < s.atoms.length := fun m' hm' => (hall m' hm').2.2
  have hxdel : x ∉ del := image_survives_overlap s p r ra _ m hrange _ hbase a halt hkeep
  have hmm : m ∈ pre ++ m :: post := by simp
  have hvals : ∀ m' ∈ pre ++ m :: post, ∀ kv ∈ matchMap (unchangedPairs r p) ra m', kv.2 < s.atoms.length :=
    fun m' hm' => matchOK_vals_lt s p r ra m' (hall m' hm')
  have hvnd : ∀ m' ∈ pre ++ m :: post, ((matchMap (unchangedPairs r p) ra m').map (·.2)).Nodup :=
    fun m' hm' => matchOK_vals_nodup s p r ra m' (hall m' hm') hinj
  obtain ⟨_, hE, hL, hM, hP, _⟩ := delete_atoms _ _ _ hd
  have hrow : ∃ row, st.s.atoms[x]? = some row ∧ row.ty = br.ty + s.typeElems.length
      ∧ (∀ v, (a, v) ∈ matchMap (unchangedPairs r p) ra m → x = v ∧ (s.atoms[v]?).map pcg = some (pcg row))
      ∧ (a ∉ mapKeys (unchangedPairs r p) ra → row.charge = br.charge ∧ row.group = br.group
          ∧ ((placeAtoms s.cell (p0Of p) r m).atoms[a]?).map (·.pos) = some row.pos) := by
    rcases imgAt_cases r (unchangedPairs r p) ra (s.atoms.length + pre.length * nAdd r (unchangedPairs r p) ra) m a halt
      with ⟨v, hv, e⟩ | ⟨hnk, j, hj, e⟩
    · -- retained, possibly by several matches: all of them write the same type id
      have hvlt : v < s.atoms.length := hvals m hmm _ hv
      have hty := hRet hvnd v (br.ty + s.typeElems.length) hvlt
        (by
          intro m' hm' k' hk'
          have := hsame v hv m' hm' k' hk'
          cases hr : r.atoms[k']? with
          | none => rw [hr] at this; simp at this
          | some br' =>
            rw [hr] at this
            have e' : br'.ty = br.ty := by simpa using this
            simp [e'])
        ⟨m, hmm, List.mem_map.mpr ⟨(a, v), hv, rfl⟩⟩
      have hpc := hI.pcgOld v hvlt
      have hvst : v < st.s.atoms.length := by rw [hI.len]; omega
      have hxv : x = v := e
      refine ⟨st.s.atoms[v], by rw [hxv]; exact List.getElem?_eq_getElem hvst, ?_, ?_, ?_⟩
      · rw [List.getElem?_eq_getElem hvst] at hty
        simpa using hty
      · intro v' hv'
        have hkeys : ((matchMap (unchangedPairs r p) ra m).map (·.1)).Nodup := by
          rw [matchMap_keys]
          exact hI.keysNodup (by simp)
        have e1 := lookupLast_of_mem _ hkeys a v hv
        have e2 := lookupLast_of_mem _ hkeys a v' hv'
        rw [e1] at e2
        have evv : v = v' := Option.some.inj e2
        subst evv
        refine ⟨hxv, ?_⟩
        rw [List.getElem?_eq_getElem hvst] at hpc
        rw [← hpc]; rfl
      · intro hnk
        exfalso; apply hnk
        rw [← matchMap_keys (unchangedPairs r p) ra m]
        exact List.mem_map.mpr ⟨(a, v), hv, rfl⟩
    · -- inserted
      have hget : (pre ++ m :: post)[pre.length]? = some m := by simp
      have hins := hI.inserted hvals pre.length m hget j a hj
      have hxj : x = s.atoms.length + pre.length * nAdd r (unchangedPairs r p) ra + j := e
      have hpl := placeAtoms_getElem? s.cell (p0Of p) r m a
      rw [ha] at hpl
      cases hp : (placeAtoms s.cell (p0Of p) r m).atoms[a]? with
      | none => rw [hp] at hpl; simp at hpl
      | some pr =>
        rw [hp] at hpl hins
        simp only [Option.map_some, Option.some.injEq, Prod.mk.injEq] at hpl
        cases hs : st.s.atoms[s.atoms.length + pre.length * nAdd r (unchangedPairs r p) ra + j]? with
        | none => rw [hs] at hins; simp at hins
        | some row =>
          rw [hs] at hins
          simp only [Option.map_some, Option.some.injEq, Prod.mk.injEq, pcg] at hins
          refine ⟨row, by rw [hxj]; exact hs, by rw [hins.1, hpl.1], ?_, ?_⟩
          · intro v hv
            exfalso; apply hnk
            rw [← matchMap_keys (unchangedPairs r p) ra m]
            exact List.mem_map.mpr ⟨(a, v), hv, rfl⟩
          · intro _
            refine ⟨by rw [hins.2.2.1, hpl.2.1], by rw [hins.2.2.2, hpl.2.2], ?_⟩
            simp [hins.2.1]
  obtain ⟨row, hrow1, hty, hret, hins⟩ := hrow
  have hxlt : x < st.s.atoms.length := (List.getElem?_eq_some_iff.mp hrow1).1
  refine ⟨hxdel, row, ?_, hty, ?_, ?_, ?_, ?_, ?_, hret, hins⟩
  · rw [delete_atom_at st.s res del hnd hd x hxdel hxlt]; exact hrow1
  · rw [hE, hI.elems, hty, Nat.add_comm]; exact getElem?_append_offset _ _ _
  · intro hal; rw [hL, hI.labels, hty, Nat.add_comm, ← hal]; exact getElem?_append_offset _ _ _
  · intro hal; rw [hM, hI.masses, hty, Nat.add_comm, ← hal]; exact getElem?_append_offset _ _ _
  · intro hal; rw [hP, hI.pair, hty, Nat.add_comm, ← hal]; exact resolves_append_offset _ _ _
  · intro h1 h2; rw [hP, hI.pair, h1, h2]; rfl

/-! ### non-vacuity: two matches sharing a retained atom -/

/-- Zr at the origin with an O on either side: the pattern Zr–O occurs twice, both occurrences share the Zr -/
def exS2 : Atoms :=
  { Atoms.empty with
    atoms := [⟨0, ⟨0, 0, 0⟩, 1, 0, []⟩, ⟨1, ⟨1, 0, 0⟩, 2, 0, []⟩, ⟨1, ⟨-1, 0, 0⟩, 3, 0, []⟩]
    typeElems := ["Zr", "O"], typeLabels := ["Zr", "O"], typeMasses := [91, 16]
    pairCoeffs := ["sZr", "sO"]
    cell := some ⟨⟨10, 0, 0⟩, ⟨0, 10, 0⟩, ⟨0, 0, 10⟩⟩ }

def exP2 : Atoms :=
  { Atoms.empty with
    atoms := [⟨0, ⟨0, 0, 0⟩, 0, 0, []⟩, ⟨1, ⟨1, 0, 0⟩, 0, 0, []⟩]
    typeElems := ["Zr", "O"], typeLabels := ["Zr", "O"], typeMasses := [91, 16] }

/-- the parameterised pattern: same atoms (both retained), one bond -/
def exR2 : Atoms :=
  { Atoms.empty with
    atoms := [⟨0, ⟨0, 0, 0⟩, -1, 0, []⟩, ⟨1, ⟨1, 0, 0⟩, -2, 0, []⟩]
    bonds := ⟨[⟨[0, 1], 0, []⟩], ["rB0"], []⟩
    typeElems := ["Zr", "O"], typeLabels := ["Zr8", "O_2"], typeMasses := [91, 16]
    pairCoeffs := ["rZr", "rO"] }

def exM2a : PlacedMatch := ⟨[0, 1], [⟨0, 0, 0⟩, ⟨1, 0, 0⟩], Quat.identity⟩
/-- the second occurrence: rotated by 180° about z -/
def exM2b : PlacedMatch := ⟨[0, 2], [⟨0, 0, 0⟩, ⟨-1, 0, 0⟩], ⟨0, 0, 1, 0⟩⟩

/-- the two matches overlap (they share atom 0), so `MatchesOK` of `replace_pattern_terms_once` FAILS … -/
example : ¬ MatchesOK exS2 exP2 [exM2a, exM2b] := by decide +kernel

/-- … but every hypothesis of the overlap theorems holds (decidable forms; `m` = first match, `u` = the bond) -/
example : exR2.atoms ≠ [] ∧ MatchOK exS2 exP2 exM2a ∧ MatchOK exS2 exP2 exM2b
    ∧ PairsInj (unchangedPairs exR2 exP2) ∧ TermsOK exR2.bonds exR2.atoms.length ∧ DistinctUpToRev exR2.bonds.terms
    ∧ Compat exS2 exR2 .bond
    ∧ delOf (unchangedPairs exR2 exP2) false [exM2a, exM2b] = []
    ∧ [0, 1].map (imgAt exR2 (unchangedPairs exR2 exP2) false 3 exM2a) = [0, 1]
    ∧ [0, 1].map (imgAt exR2 (unchangedPairs exR2 exP2) false 3 exM2b) = [0, 2]
    ∧ laterClear .bond exR2 (unchangedPairs exR2 exP2) false 0 3 [exM2b] [0, 1] = true := by decide +kernel

/-- and the result has each pattern bond exactly once: Zr–O(1) and Zr–O(2), both of type 0 ↦ "rB0" -/
example : (match replaceCore exS2 exP2 exR2 [exM2a, exM2b] false false with
      | .ok res => some (res.bonds.terms.map sig, res.bonds.coeffs, res.atoms.map (·.ty))
      | .error _ => none)
    = some ([([0, 1], 0), ([0, 2], 0)], ["rB0"], [2, 3, 3]) := by decide +kernel

/-- the quantified hypotheses of `replace_pattern_terms_once_overlap` are met by this input: the theorem applies -/
example (res : Atoms) (h : replaceCore exS2 exP2 exR2 ([] ++ exM2a :: [exM2b]) false false = .ok res) :
    (res.bonds.terms.map sig).countP (onAtoms [0, 1]) = 1 := by
  have hvals : ∀ m' ∈ [] ++ exM2a :: [exM2b],
      (matchMap (unchangedPairs exR2 exP2) false m').map (·.2) = m'.idx := by decide +kernel
  have := replace_pattern_terms_once_overlap .bond exS2 exP2 exR2 res [] [exM2b] exM2a false false (by decide) h
    (by decide +kernel) (by decide +kernel) (by decide +kernel) (by decide +kernel) (by decide +kernel)
    (by decide +kernel) ⟨[0, 1], 0, []⟩ (by decide)
    (by intro a _ v _ m' hm' hin; rw [hvals m' hm']; exact hin)
    (by
      intro pre₂ m' post₂ e u' hu'
      cases pre₂ with
      | nil =>
        have e' : exM2b = m' ∧ [] = post₂ := by simpa using e
        obtain ⟨rfl, rfl⟩ := e'
        have hu'' : u' = ⟨[0, 1], 0, []⟩ := by simpa [Kind.get, exR2] using hu'
        subst hu''
        decide +kernel
      | cons q qs =>
        have : ([] : List PlacedMatch) = qs ++ m' :: post₂ := by simpa using (List.cons.inj e).2
        cases qs <;> simp at this)
  have e : (([0, 1] : List Nat).map (imgAt exR2 (unchangedPairs exR2 exP2) false
      (exS2.atoms.length + ([] : List PlacedMatch).length * nAdd exR2 (unchangedPairs exR2 exP2) false) exM2a)).map
        (newIndex (delOf (unchangedPairs exR2 exP2) false ([] ++ exM2a :: [exM2b]))) = [0, 1] := by decide +kernel
  have h4 := this.2.2.2
  simp only [Kind.get] at h4
  rw [e] at h4
  exact h4

/-- the hypotheses of `replace_atom_payload_overlap` for the SHARED atom (pattern atom 0 = Zr, structure atom 0,
    retained by both matches with the same pattern type) hold, and the theorem applies -/
example (res : Atoms) (h : replaceCore exS2 exP2 exR2 ([] ++ exM2a :: [exM2b]) false false = .ok res) :
    ∃ row, res.atoms[0]? = some row ∧ row.ty = 2 ∧ res.typeLabels[row.ty]? = some "Zr8" := by
  have hvals : ∀ m' ∈ [] ++ exM2a :: [exM2b],
      (matchMap (unchangedPairs exR2 exP2) false m').map (·.2) = m'.idx
      ∧ ∀ kv ∈ matchMap (unchangedPairs exR2 exP2) false m', kv.2 = 0 → kv.1 = 0 := by decide +kernel
  obtain ⟨_, row, hrow, hty, _, hL, _⟩ := replace_atom_payload_overlap exS2 exP2 exR2 res [] [exM2b] exM2a false false
    (by decide) h (by decide +kernel) (by decide +kernel) 0 ⟨0, ⟨0, 0, 0⟩, -1, 0, []⟩ (by decide +kernel)
    (by intro v _ m' hm' hin; rw [(hvals m' hm').1]; exact hin)
    (by
      intro v hv m' hm' k' hk'
      have hv0 : v = 0 := by
        have : (0, v) ∈ [(0, 0), (1, 1)] := by
          have e : matchMap (unchangedPairs exR2 exP2) false exM2a = [(0, 0), (1, 1)] := by decide +kernel
          rw [← e]; exact hv
        simpa using this
      subst hv0
      have := (hvals m' hm').2 (k', 0) hk' rfl
      simp only at this
      subst this
      decide +kernel)
  have e : newIndex (delOf (unchangedPairs exR2 exP2) false ([] ++ exM2a :: [exM2b]))
      (imgAt exR2 (unchangedPairs exR2 exP2) false
        (exS2.atoms.length + ([] : List PlacedMatch).length * nAdd exR2 (unchangedPairs exR2 exP2) false) exM2a 0) = 0 := by
    decide +kernel
  rw [e] at hrow
  refine ⟨row, hrow, by rw [hty]; decide, ?_⟩
  rw [hL (by decide)]
  decide

/-! ### the hypothesis `hkeep` is necessary (known finding C06-retained-atom-removed-by-another-match) -/

/-- chain C–C–C; the pattern C–C occurs at (0,1) and at (1,2) -/
def exS3 : Atoms :=
  { Atoms.empty with
    atoms := [⟨0, ⟨2, 5, 5⟩, 1, 0, []⟩, ⟨0, ⟨7/2, 5, 5⟩, 2, 0, []⟩, ⟨0, ⟨5, 5, 5⟩, 3, 0, []⟩]
    typeElems := ["C"], typeLabels := ["C_s"], typeMasses := [12]
    cell := some ⟨⟨20, 0, 0⟩, ⟨0, 20, 0⟩, ⟨0, 0, 20⟩⟩ }

def exP3 : Atoms :=
  { Atoms.empty with
    atoms := [⟨0, ⟨0, 0, 0⟩, 0, 0, []⟩, ⟨0, ⟨3/2, 0, 0⟩, 0, 0, []⟩]
    typeElems := ["C"], typeLabels := ["C"], typeMasses := [12] }

/-- keeps the first carbon, turns the second into N, one C–N bond -/
def exR3 : Atoms :=
  { Atoms.empty with
    atoms := [⟨0, ⟨0, 0, 0⟩, -1, 0, []⟩, ⟨1, ⟨3/2, 0, 0⟩, -2, 0, []⟩]
    bonds := ⟨[⟨[0, 1], 0, []⟩], ["450.0 1.35"], []⟩
    typeElems := ["C", "N"], typeLabels := ["C_r", "N_r"], typeMasses := [12, 14] }

def exM3a : PlacedMatch := ⟨[0, 1], [⟨2, 5, 5⟩, ⟨7/2, 5, 5⟩], Quat.identity⟩
def exM3b : PlacedMatch := ⟨[1, 2], [⟨7/2, 5, 5⟩, ⟨5, 5, 5⟩], Quat.identity⟩

/-- **retained_atom_removed_by_another_match** (evaluated witness).  For the SECOND match and the pattern's bond every
    hypothesis of `replace_pattern_terms_once_overlap` holds (valid matches inside the structure, injective pairing,
    well-formed distinct pattern terms, `Compat`, no later match at all) EXCEPT `hkeep`: the atom it retains (pattern
    atom 0 ↦ structure atom 1) is listed and not retained by the first match, i.e. removed by it.  The replacement
    succeeds without an error — no atom is removed twice, which C07 requires to be accepted — and the result has ONE
    C–N bond for TWO replaced matches: the second match's bond is gone and its N (last atom) is left without a term.
    So `hkeep` cannot be dropped, and no code can satisfy C06 and C07 on this input. -/
theorem retained_atom_removed_by_another_match :
    MatchOK exS3 exP3 exM3a ∧ MatchOK exS3 exP3 exM3b ∧ PairsInj (unchangedPairs exR3 exP3)
    ∧ TermsOK exR3.bonds exR3.atoms.length ∧ DistinctUpToRev exR3.bonds.terms ∧ Compat exS3 exR3 .bond
    ∧ (0, 1) ∈ matchMap (unchangedPairs exR3 exP3) false exM3b
    ∧ 1 ∈ exM3a.idx ∧ 1 ∉ (matchMap (unchangedPairs exR3 exP3) false exM3a).map (·.2)
    ∧ delOf (unchangedPairs exR3 exP3) false [exM3a, exM3b] = [1, 2]
    ∧ (match replaceCore exS3 exP3 exR3 [exM3a, exM3b] false false with
        | .ok res => some (res.bonds.terms.map sig, res.atoms.map (·.ty), res.atoms.map (·.charge))
        | .error _ => none) = some ([([0, 1], 0)], [1, 2, 2], [1, -2, -2]) := by decide +kernel

end Mofun.C06
