/-
  C05 for SEVERAL matches at once — the placement statement of C05 holds in the FINAL structure returned by
  `replaceCore`, for every replaced match, not only in the intermediate `placeAtoms` result.

  COMPOSITION of two groups of theorems that were proved separately:
    * C05 (`insert_exact_image`, `replaceCore_single`, `wrap_is_lattice_shift`; Props/C05.lean): one match — the atoms
      `placeAtoms` produces are `rot q (Rp[k] − P[0]) + pos[0]` plus an integer lattice vector, inside the cell;
    * C04/C07 (`replace_bystanders`, `replace_no_double_delete`; Props/C04.lean, Props/C07.lean): the fold over all
      matches followed by ONE bulk deletion; survivors sit at `i − rankBelow del i` (C10).
  Property theorems + non-vacuity only (helper lemmas: Proofs/PlaceMultiLemmas.lean).

  Vocabulary (Proofs/PlaceMultiLemmas.lean):
    `insList p r ra`          replacement-pattern indices that are INSERTED for a match (not paired with a matched atom
                              through the index map; all of them with `replace_all`), in insertion order — the same for
                              every match; `A = |insList| = |r| − nShared`
    `placedPos cell p0 m x`   `wrap (rot m.q (x − p0) + m.pos[0])` (no wrap without a cell)
  Layout of the final structure (`N = |s|`, `M = |ms|`, `del = ⋃ D_m` as in C04):
    survivors of `s` in order  (index `i − rankBelow del i`, C04 `replace_bystanders` / `replace_shared_stay`),
    then for match 0 the atoms `insList[0], insList[1], …`, then for match 1 …:
    the atom inserted for match number `j` from `r[insList[t]]` has index `N + j·A + t − rankBelow del (N + j·A + t)`,
    and `rankBelow del (…) = |del|` because every deleted index is below `N`.

  The only guard is `ValidMatches s p ms` (every match has `|p|` indices, all inside `s` — what the search returns,
  C01).  Distinctness of the indices and disjointness of the deletion sets are NOT needed for the placement (with
  `ignore = false` disjointness is implied by success, C07); they are used only for the closed form of `|del|`
  (`inserted_index_clean`).  Both values of `replaceAll` and of `ignore`.
-/
import MofunModel.Proofs.PlaceMultiLemmas

namespace Mofun.C05Multi

open Mofun Mofun.C07 Mofun.C04

/-- **insert_exact_image_multi** (full strength: any list of matches, either `replaceAll`, either `ignore`, cell
    present or absent).  Guard: `ValidMatches s p ms`.  On `replaceCore s p r ms ra ig = ok res`, with `del` the
    duplicate-free list of `⋃ D_m` (C04's `IsDeletionList`): for every match number `j` (`ms[j] = m`), every position
    `t` of the insertion list (`insList[t] = k`) and the replacement atom `r[k] = row0`, the FINAL structure has at
    index `x − rankBelow del x`, `x = N + j·A + t`, an atom `row` with
      * `rankBelow del x = |del|` (all deleted atoms precede it);
      * type id `row0.ty + (number of atom types of s)`, which resolves in `res`'s element table to `r`'s element of
        `row0.ty`; `row0`'s charge and group; extra columns = `row0`'s re-laid out under the merged labels, padded;
      * position exactly `placedPos s.cell P[0] m row0.pos = wrap (rot q_m (row0.pos − P[0]) + pos_m[0])`;
      * hence, for a cell `L` with `det L ≠ 0`: position `= rot q_m (row0.pos − P[0]) + pos_m[0] + (a·A + b·B + c·C)`
        with INTEGERS `a b c`, and fractional coordinates in `[0,1)³` (`InCell`); without a cell the position is
        `rot q_m (row0.pos − P[0]) + pos_m[0]` itself. -/
theorem insert_exact_image_multi (s p r : Atoms) (ms : List PlacedMatch) (ra ig : Bool) (res : Atoms)
    (h : replaceCore s p r ms ra ig = .ok res) (hms : ValidMatches s p ms) :
    ∃ del, IsDeletionList p r ra ms del ∧
      ∀ (j : Nat) (m : PlacedMatch), ms[j]? = some m →
      ∀ (t k : Nat), (insList p r ra)[t]? = some k →
      ∀ row0 : AtomRow, r.atoms[k]? = some row0 →
        let x := s.atoms.length + j * (insList p r ra).length + t
        let I := C05.insertFrame m.q (C05.firstPos p) (m.pos.getD 0 Vec3.zero)
        rankBelow del x = del.length ∧
        ∃ row, res.atoms[x - rankBelow del x]? = some row
          ∧ row.ty = row0.ty + s.typeElems.length
          ∧ res.typeElems[row.ty]? = r.typeElems[row0.ty]?
          ∧ row.charge = row0.charge ∧ row.group = row0.group
          ∧ (∃ labels n, row.extra = matchRow labels r.xlabels row0.extra ++ List.replicate n ".")
          ∧ row.pos = placedPos s.cell (C05.firstPos p) m row0.pos
          ∧ (∀ L, s.cell = some L → L.det ≠ 0 →
              (∃ a b c : Int, row.pos = Vec3.add (I row0.pos) (L.lattice a b c)) ∧ C05.InCell L row.pos)
          ∧ (s.cell = none → row.pos = I row0.pos) := by
  obtain ⟨st, hst, hdel, hnd, hmem, _, _⟩ := replace_no_double_delete s p r ms ra ig res h
  obtain ⟨t1, _, _⟩ := C04.replace_tables s p r ms ra ig res h
  have hr : res.atoms = deleteIdx st.s.atoms st.del := by
    unfold Atoms.delete at hdel
    split at hdel
    · cases hdel
    · cases hdel; rfl
  have hlt := del_lt s p r ra ms hms st.del hmem
  refine ⟨st.del, ⟨hnd, hmem⟩, ?_⟩
  intro j m hj t k ht row0 hk x I
  obtain ⟨row, hget, hty, hpos, hch, hgr, hex⟩ := state_inserted s p r ms ra ig st hst hms j m hj t k ht row0 hk
  have hxN : s.atoms.length ≤ x := by show s.atoms.length ≤ s.atoms.length + _ + t; omega
  have hx : x ∉ st.del := fun hc => by have := hlt x hc; omega
  have hrank : rankBelow st.del x = st.del.length :=
    rankBelow_all st.del x (fun d hd => by have := hlt d hd; omega)
  have hne : r.atoms.isEmpty = false := by
    cases hr' : r.atoms with
    | nil => simp [hr'] at hk
    | cons _ _ => rfl
  refine ⟨hrank, row, ?_, hty, ?_, hch, hgr, hex, hpos, ?_, ?_⟩
  · rw [hr, deleteIdx_getElem? st.s.atoms st.del hnd x (List.getElem?_eq_some_iff.mp hget).1 hx]
    exact hget
  · rw [t1, hty, hne]
    simp only [Bool.false_eq_true, if_false]
    rw [List.getElem?_append_right (by omega)]
    congr 1; omega
  · intro L hL hd
    have hp : row.pos = L.wrap (I row0.pos) := by rw [hpos, hL]; rfl
    rw [hp]
    exact ⟨⟨_, _, _, C05.wrap_eq_shift L _ hd⟩, C05.wrap_inCell L _ hd⟩
  · intro hnone
    rw [hpos, hnone]; rfl

/-- **final_layout.**  Guard `ValidMatches`.  The final structure has `N − |del| + M·A` atoms (`|del| ≤ N`), and EVERY
    atom at an index `y ≥ N − |del|` is one of the inserted atoms of `insert_exact_image_multi`: `y = N + j·A + t − |del|`
    for a match number `j < M` and a position `t < A` of the insertion list.  Together with C04's `replace_bystanders` /
    `replace_shared_stay` (indices below `N − |del|` are the survivors of `s`, in order) this accounts for every atom
    of the result. -/
theorem final_layout (s p r : Atoms) (ms : List PlacedMatch) (ra ig : Bool) (res : Atoms)
    (h : replaceCore s p r ms ra ig = .ok res) (hms : ValidMatches s p ms) :
    ∃ del, IsDeletionList p r ra ms del ∧ del.length ≤ s.atoms.length
      ∧ res.atoms.length + del.length = s.atoms.length + ms.length * (insList p r ra).length
      ∧ ∀ y, s.atoms.length - del.length ≤ y → y < res.atoms.length →
          ∃ j t, j < ms.length ∧ t < (insList p r ra).length
            ∧ y = s.atoms.length + j * (insList p r ra).length + t - del.length := by
  obtain ⟨st, hst, _, hnd, hmem, _, hlen⟩ := replace_no_double_delete s p r ms ra ig res h
  obtain ⟨hl, _⟩ := state_rows s p r ms ra ig st hst
  have hA := insList_length p r ra
  have hdl : st.del.length ≤ s.atoms.length :=
    sel_length_le _ _ hnd (del_lt s p r ra ms hms st.del hmem)
  have hmul : ms.length * r.atoms.length
      = ms.length * (insList p r ra).length + ms.length * nShared p r ra := by
    rw [← Nat.mul_add, hA]
  have hcount : res.atoms.length + st.del.length = s.atoms.length + ms.length * (insList p r ra).length := by omega
  refine ⟨st.del, ⟨hnd, hmem⟩, hdl, hcount, ?_⟩
  intro y hy1 hy2
  have hz : y + st.del.length - s.atoms.length < ms.length * (insList p r ra).length := by omega
  have hApos : 0 < (insList p r ra).length := by
    apply Nat.pos_of_ne_zero
    intro h0; rw [h0] at hz; simp at hz
  refine ⟨(y + st.del.length - s.atoms.length) / (insList p r ra).length,
    (y + st.del.length - s.atoms.length) % (insList p r ra).length, ?_, Nat.mod_lt _ hApos, ?_⟩
  · exact Nat.div_lt_of_lt_mul (by rw [Nat.mul_comm]; exact hz)
  · have := Nat.div_add_mod (y + st.del.length - s.atoms.length) (insList p r ra).length
    rw [Nat.mul_comm] at this
    omega

/-- **inserted_index_clean.**  Under the guards of C04's clean count (every match lists `|p|` DISTINCT atoms,
    `unchangedPairs` injective on values, deletion sets pairwise disjoint) the deletion list has exactly
    `M·(|p| − nShared)` entries, so the atom inserted for match `j` from `r[insList[t]]` has final index
    `N + j·A + t − M·(|p| − nShared)`. -/
theorem inserted_index_clean (s p r : Atoms) (ms : List PlacedMatch) (ra ig : Bool) (res : Atoms)
    (h : replaceCore s p r ms ra ig = .ok res) (hms : ValidMatches s p ms)
    (hnd : ∀ m ∈ ms, m.idx.Nodup) (hinj : ((unchangedPairs r p).map (·.2)).Nodup)
    (hdis : ¬ Overlapping p r ra ms) :
    ∀ del, IsDeletionList p r ra ms del →
      del.length + ms.length * nShared p r ra = ms.length * p.atoms.length
      ∧ ∀ j t, s.atoms.length + j * (insList p r ra).length + t
                 - rankBelow del (s.atoms.length + j * (insList p r ra).length + t)
              = s.atoms.length + j * (insList p r ra).length + t - ms.length * (p.atoms.length - nShared p r ra) := by
  intro del ⟨hdn, hdm⟩
  have hpw : (ms.map (delSet p r ra)).Pairwise (fun a b => ∀ x ∈ a, x ∉ b) :=
    Classical.byContradiction (fun hc => hdis ((not_pairwise_iff_overlapping p r ra ms).mp hc))
  have hlen : del.length = (ms.map (delSet p r ra)).length * (p.atoms.length - nShared p r ra) := by
    apply length_of_union del _ _ hdn
    · intro x
      rw [hdm x]
      simp only [List.mem_map]
      constructor
      · rintro ⟨m, hm, hx⟩; exact ⟨_, ⟨m, hm, rfl⟩, hx⟩
      · rintro ⟨_, ⟨m, hm, rfl⟩, hx⟩; exact ⟨m, hm, hx⟩
    · intro l hl
      obtain ⟨m, _, rfl⟩ := List.mem_map.mp hl
      exact nodup_delSet p r ra m
    · intro l hl
      obtain ⟨m, hm, rfl⟩ := List.mem_map.mp hl
      have := delSet_length p r ra m (hms m hm).1 (hnd m hm) hinj
      omega
    · exact hpw
  rw [List.length_map] at hlen
  have hlt := del_lt s p r ra ms hms del hdm
  constructor
  · cases ms with
    | nil => simp at hlen ⊢; exact hlen
    | cons m0 rest =>
      have hk := delSet_length p r ra m0 (hms m0 List.mem_cons_self).1 (hnd m0 List.mem_cons_self) hinj
      have hk' : nShared p r ra ≤ p.atoms.length := by omega
      rw [hlen, ← Nat.mul_add, Nat.sub_add_cancel hk']
  · intro j t
    rw [rankBelow_all del _ (fun d hd => by have := hlt d hd; omega), hlen]

/-! ### non-vacuity: two matches on a tilted cell, one of them turned by 90°, an inserted atom crossing the boundary -/

/-- a tilted (triclinic, negative tilt) cell — the cell of Props/C05.lean -/
def exCell : Mat3 := ⟨⟨8, 0, 0⟩, ⟨-2, 7, 0⟩, ⟨1, -3, 9⟩⟩

def row (ty : Nat) (x y z q : Rat) : AtomRow := ⟨ty, ⟨x, y, z⟩, q, 0, []⟩

/-- structure: C–O turned by 90° about z at the cell corner (atoms 0, 1), a bystander He (2), C–O along x (3, 4) -/
def exS : Atoms :=
  { Atoms.empty with
    atoms := [row 0 (1/64) 0 0 0, row 1 (1/64) (5/4) 0 0, row 2 3 3 3 0, row 0 4 3 5 0, row 1 (21/4) 3 5 0]
    typeElems := ["C", "O", "He"], typeLabels := ["C", "O", "He"], typeMasses := [12, 16, 4]
    cell := some exCell }
/-- search pattern C–O along x -/
def exP : Atoms :=
  { Atoms.empty with atoms := [row 0 0 0 0 0, row 1 (5/4) 0 0 0]
                     typeElems := ["C", "O"], typeLabels := ["C", "O"], typeMasses := [12, 16] }
/-- replacement: the same two atoms plus an F sticking 6 Å out in +y (charge 1/2) -/
def exR : Atoms :=
  { Atoms.empty with atoms := [row 0 0 0 0 0, row 1 (5/4) 0 0 0, ⟨2, ⟨0, 6, 0⟩, 1/2, 7, []⟩]
                     typeElems := ["C", "O", "F"], typeLabels := ["C", "O", "F"], typeMasses := [12, 16, 19] }
def exM0 : PlacedMatch := ⟨[0, 1], [⟨1/64, 0, 0⟩, ⟨1/64, 5/4, 0⟩], ⟨0, 0, 1, 1⟩⟩
def exM1 : PlacedMatch := ⟨[3, 4], [⟨4, 3, 5⟩, ⟨21/4, 3, 5⟩], Quat.identity⟩

/-- the guards: valid matches, non-degenerate cell; for the clean index also distinct indices, injective pairing,
    no overlap -/
example : ValidMatches exS exP [exM0, exM1] ∧ exCell.det ≠ 0 ∧ (∀ m ∈ [exM0, exM1], m.idx.Nodup) := by decide +kernel
example : unchangedPairs exR exP = [(0, 0), (1, 1)] ∧ ((unchangedPairs exR exP).map (·.2)).Nodup := by decide +kernel
example : ¬ Overlapping exP exR false [exM0, exM1] ∧ ¬ Overlapping exP exR true [exM0, exM1] := by
  constructor <;> exact fun h => (not_pairwise_iff_overlapping _ _ _ _).mpr h (by decide +kernel)
/-- retained pairing: only F is inserted (A = 1); `replace_all`: all three (A = 3) -/
example : insList exP exR false = [2] ∧ insList exP exR true = [0, 1, 2] := by decide +kernel

/-- the run succeeds; with the pairing nothing is deleted, and the two F atoms are appended at 5 and 6:
    match 0 (turned by 90°): `rot (0,6,0) = (−6,0,0)`, `+ (1/64,0,0)` leaves the cell and is wrapped by `+A`;
    match 1 (identity): `(0,6,0) + (4,3,5) = (4,9,5)` is wrapped by `−B` to `(6,2,5)` -/
example : (replaceCore exS exP exR [exM0, exM1] false false).toOption.map
      (fun res => (res.atoms.length, res.atoms[5]?, res.atoms[6]?))
    = some (7, some ⟨5, Vec3.add ⟨-6 + 1/64, 0, 0⟩ (exCell.lattice 1 0 0), 1/2, 7, []⟩,
               some ⟨5, Vec3.add ⟨4, 9, 5⟩ (exCell.lattice 0 (-1) 0), 1/2, 7, []⟩) := by
  decide +kernel

/-- `replace_all`: atoms 0, 1, 3, 4 are deleted (`|del| = 4 = M·|p|`), the bystander moves to index 0 and the
    `2·3` inserted atoms follow at `N + j·3 + t − 4`; the F of match 1 (j = 1, t = 2) is at `5 + 3 + 2 − 4 = 6` -/
example : (replaceCore exS exP exR [exM0, exM1] true false).toOption.map
      (fun res => (res.atoms.length, res.atoms.map (·.ty), res.atoms[3]?, res.atoms[6]?))
    = some (7, [2, 3, 4, 5, 3, 4, 5],
            some ⟨5, Vec3.add ⟨-6 + 1/64, 0, 0⟩ (exCell.lattice 1 0 0), 1/2, 7, []⟩,
            some ⟨5, ⟨6, 2, 5⟩, 1/2, 7, []⟩) := by
  decide +kernel

/-- the theorem applied to the concrete run: its conclusion for match 1, `t = 2` pins down index 6 and the position -/
example (res : Atoms) (h : replaceCore exS exP exR [exM0, exM1] true false = .ok res) :
    ∃ row, res.atoms[6]? = some row ∧ row.ty = 5 ∧ row.charge = 1/2 ∧ row.group = 7
      ∧ row.pos = exCell.wrap ⟨4, 9, 5⟩ ∧ C05.InCell exCell row.pos := by
  obtain ⟨del, hdl, hall⟩ := insert_exact_image_multi exS exP exR [exM0, exM1] true false res h (by decide +kernel)
  have hc := (inserted_index_clean exS exP exR [exM0, exM1] true false res h (by decide +kernel) (by decide +kernel)
    (by decide +kernel) (fun hc => (not_pairwise_iff_overlapping _ _ _ _).mpr hc (by decide +kernel)) del hdl).2 1 2
  obtain ⟨_, row, hget, hty, _, hch, hgr, _, hpos, hcell, _⟩ :=
    hall 1 exM1 rfl 2 2 (by decide +kernel) ⟨2, ⟨0, 6, 0⟩, 1/2, 7, []⟩ rfl
  rw [hc] at hget
  refine ⟨row, ?_, hty, hch, hgr, ?_, (hcell exCell rfl (by decide +kernel)).2⟩
  · have e : exS.atoms.length + 1 * (insList exP exR true).length + 2
        - [exM0, exM1].length * (exP.atoms.length - nShared exP exR true) = 6 := by decide +kernel
    rw [e] at hget; exact hget
  · rw [hpos]; decide +kernel

end Mofun.C05Multi
