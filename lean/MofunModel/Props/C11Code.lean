/-
  C11Code.lean — the GENERATED translation of `Atoms.extend_types` (mofun/atoms.py, re-translated from the python
  source text on every run by harness/gen_code.py into Generated/Code.lean) IS the model's `Atoms.extendTypes`
  (Model/Topo.lean), the step on which the extend / replace theorems of C06, C09, C11 (and the write/read cycle of C14)
  rest: the returned offsets are self's five type counts BEFORE the tables grow, and every table is self's entries
  followed by other's (the ORDER of the two arguments of each `np.append`).
-/
import MofunModel.Proofs.CodeLemmas
import MofunModel.Props.C09Code
import MofunModel.Proofs.Code4Extend

namespace Mofun.C11Code
open Mofun Mofun.Generated Mofun.CodeLemmas
set_option linter.unusedSimpArgs false

/-- the generated `extend_types` applied to what it reads from `self = a` and `other = b` -/
def genExtendTypes (a b : Atoms) :=
  Generated.Code.extendTypes a.typeElems a.typeMasses a.typeLabels a.pairCoeffs
    (a.bonds.terms.map (·.ty)) a.bonds.coeffs (a.angles.terms.map (·.ty)) a.angles.coeffs
    (a.dihedrals.terms.map (·.ty)) a.dihedrals.coeffs (a.impropers.terms.map (·.ty)) a.impropers.coeffs
    b.typeElems b.typeMasses b.typeLabels b.pairCoeffs b.bonds.coeffs b.angles.coeffs b.dihedrals.coeffs b.impropers.coeffs

/-- for ALL pairs of structures: the translated `extend_types` returns the model's offsets and leaves every type-level
    table of self as in the model (elements, masses, labels, pair coefficients, the four coefficient tables); it
    never raises -/
theorem extendTypes_eq (a b : Atoms) :
    genExtendTypes a b =
      some (((a.extendTypes b).2.atom, (a.extendTypes b).2.bond, (a.extendTypes b).2.angle, (a.extendTypes b).2.dihedral,
             (a.extendTypes b).2.improper),
        (a.extendTypes b).1.typeElems, (a.extendTypes b).1.typeMasses, (a.extendTypes b).1.typeLabels,
        (a.extendTypes b).1.pairCoeffs, (a.extendTypes b).1.bonds.coeffs, (a.extendTypes b).1.angles.coeffs,
        (a.extendTypes b).1.dihedrals.coeffs, (a.extendTypes b).1.impropers.coeffs) := by
  unfold genExtendTypes Generated.Code.extendTypes
  rw [C09Code.numBondTypes_eq, C09Code.numAngleTypes_eq, C09Code.numDihedralTypes_eq, C09Code.numImproperTypes_eq]
  simp [Atoms.extendTypes, Atoms.offsets, Generated.Code.numAtomTypes, Mofun.numAtomTypes]

/-- the masses stay aligned with the elements: entry `i` of both tables comes from the same structure -/
theorem extendTypes_masses_aligned (a b : Atoms) (h : a.typeElems.length = a.typeMasses.length) :
    ∀ r, genExtendTypes a b = some r →
      r.2.1 = a.typeElems ++ b.typeElems ∧ r.2.2.1 = a.typeMasses ++ b.typeMasses ∧
      (r.2.1.take a.typeElems.length = a.typeElems ∧ r.2.2.1.take a.typeElems.length = a.typeMasses) := by
  intro r hr
  rw [extendTypes_eq] at hr
  cases hr
  simp [Atoms.extendTypes, h]

/-! ### the prologue of `Atoms.extend` (fourth batch; repairs 5777e16, c5d98a8) -/

open Mofun.Code4Extend

/-- for ALL integers: the translated nested `plain_index(i, n)` is numpy's reading of an index, the model's `plainIdx`
    (`none` = IndexError) -/
theorem plainIndex_eq (i : Int) (n : Nat) : Generated.Code.plainIndex i n = (plainIdx n i).map Int.ofNat := by
  unfold Generated.Code.plainIndex plainIdx Py.intMod?
  by_cases h1 : -(n : Int) ≤ i
  · by_cases h2 : i < (n : Int)
    · have hn : ¬ ((n : Int) = 0) := by omega
      have hn' : ¬ n = 0 := by omega
      have hm : 0 ≤ i % (n : Int) := Int.emod_nonneg _ hn
      simp [h1, h2, hn, hn', Int.fmod_eq_emod_of_nonneg, Int.toNat_of_nonneg hm]
    · simp [h1, h2]
  · simp [h1]

/-- for ALL maps over integers: the translated dict comprehension that normalises `structure_index_map` (keys read in
    `other`, values in `self`, a repeated normalised key keeps its first position and takes the last value) is the
    model's `normMap`; an index out of bounds raises before anything is changed -/
theorem extendIndexMap_eq (nSelf nOther : Nat) (map : List (Int × Int)) :
    Generated.Code.extendIndexMap nSelf nOther map = liftMap (normMap nOther nSelf map) := by
  unfold Generated.Code.extendIndexMap Py.dictCompM? normMap
  simp only [bind, pure, Option.bind_eq_bind, Option.bind_some]
  refine fold_lift nSelf nOther _ ?_ map (.ok [])
  intro acc p
  obtain ⟨k, v⟩ := p
  cases acc with
  | error e => simp [liftMap, normStep]
  | ok m =>
    simp only [liftMap, normStep, plainIndex_eq]
    cases plainIdx nOther k <;> cases plainIdx nSelf v <;> simp [liftMap] <;> exact dictInsert_lift _ _ _
/-- for ALL offsets sequences: the translated padding `tuple(offsets) + (0,) * (5 - len(offsets))` leaves the given
    entries and reads every missing one as 0 (also when more than five are given) -/
theorem extendPadOffsets_getD (l : List Nat) (k : Nat) : (Generated.Code.extendPadOffsets l).getD k 0 = l.getD k 0 := by
  unfold Generated.Code.extendPadOffsets
  by_cases h : k < l.length
  · simp [List.getD_eq_getElem?_getD, List.getElem?_append_left h]
  · have h' : l.length ≤ k := by omega
    rw [List.getD_eq_getElem?_getD, List.getElem?_append_right h', ← List.getD_eq_getElem?_getD, listRepeat_zero]
    simp [List.getD_eq_getElem?_getD, List.getElem?_eq_none h']

theorem padOffsets_pad (l : List Nat) : padOffsets (Generated.Code.extendPadOffsets l) = padOffsets l := by
  simp only [padOffsets, extendPadOffsets_getD]

/-- … and the padded tuple has (at least) five entries, so `offsets[0] … offsets[4]` never raise -/
theorem extendPadOffsets_length (l : List Nat) : (Generated.Code.extendPadOffsets l).length = max 5 l.length := by
  unfold Generated.Code.extendPadOffsets Generated.Py.listRepeat
  have e : ∀ c : Nat, ((List.replicate c [0]).flatten : List Nat).length = c := by
    intro c; induction c with
    | zero => rfl
    | succ c ih => simp [List.replicate_succ]
  rw [List.length_append, e]
  omega

example : Generated.Code.extendPadOffsets [3, 1, 4, 1] = [3, 1, 4, 1, 0] := by decide
example : Generated.Code.extendIndexMap 4 3 [(-1, 0), (2, -4)] = some [(2, 0)] := by decide
example : Generated.Code.extendIndexMap 4 3 [(3, 0)] = none := by decide

end Mofun.C11Code
