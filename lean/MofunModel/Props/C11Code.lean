/-
  C11Code.lean — the GENERATED translation of `Atoms.extend_types` (mofun/atoms.py, re-translated from the python
  source text on every run by harness/gen_code.py into Generated/Code.lean) IS the model's `Atoms.extendTypes`
  (Model/Topo.lean), the step on which the extend / replace theorems of C06, C09, C11 (and the write/read cycle of C14)
  rest: the returned offsets are self's five type counts BEFORE the tables grow, and every table is self's entries
  followed by other's (the ORDER of the two arguments of each `np.append`).
-/
import MofunModel.Proofs.CodeLemmas
import MofunModel.Props.C09Code

namespace Mofun.C11Code
open Mofun Mofun.Generated Mofun.CodeLemmas
set_option linter.unusedSimpArgs false

/-- the generated `extend_types` applied to what it reads from `self = a` and `other = b` -/
def genExtendTypes (a b : Atoms) :=
  Generated.Code.extendTypes a.typeElems a.typeMasses a.typeLabels a.pairCoeffs
    (a.bonds.terms.map (·.ty)) a.bonds.coeffs (a.angles.terms.map (·.ty)) a.angles.coeffs
    (a.dihedrals.terms.map (·.ty)) a.dihedrals.coeffs (a.impropers.terms.map (·.ty)) a.impropers.coeffs
    b.typeElems b.typeMasses b.typeLabels b.pairCoeffs b.bonds.coeffs b.angles.coeffs b.dihedrals.coeffs b.impropers.coeffs

/-- for ALL pairs of structures: the translated `extend_types` returns the model's offsets and leaves every type-level
    table of self as in the model (elements, masses, labels, pair coefficients, the four coefficient tables); it
    never raises -/
theorem extendTypes_eq (a b : Atoms) :
    genExtendTypes a b =
      some (((a.extendTypes b).2.atom, (a.extendTypes b).2.bond, (a.extendTypes b).2.angle, (a.extendTypes b).2.dihedral,
             (a.extendTypes b).2.improper),
        (a.extendTypes b).1.typeElems, (a.extendTypes b).1.typeMasses, (a.extendTypes b).1.typeLabels,
        (a.extendTypes b).1.pairCoeffs, (a.extendTypes b).1.bonds.coeffs, (a.extendTypes b).1.angles.coeffs,
        (a.extendTypes b).1.dihedrals.coeffs, (a.extendTypes b).1.impropers.coeffs) := by
  unfold genExtendTypes Generated.Code.extendTypes
  rw [C09Code.numBondTypes_eq, C09Code.numAngleTypes_eq, C09Code.numDihedralTypes_eq, C09Code.numImproperTypes_eq]
  simp [Atoms.extendTypes, Atoms.offsets, Generated.Code.numAtomTypes, Mofun.numAtomTypes]

/-- the masses stay aligned with the elements: entry `i` of both tables comes from the same structure -/
theorem extendTypes_masses_aligned (a b : Atoms) (h : a.typeElems.length = a.typeMasses.length) :
    ∀ r, genExtendTypes a b = some r →
      r.2.1 = a.typeElems ++ b.typeElems ∧ r.2.2.1 = a.typeMasses ++ b.typeMasses ∧
      (r.2.1.take a.typeElems.length = a.typeElems ∧ r.2.2.1.take a.typeElems.length = a.typeMasses) := by
  intro r hr
  rw [extendTypes_eq] at hr
  cases hr
  simp [Atoms.extendTypes, h]

end Mofun.C11Code
