/-
  C11 (public spellings) — `Atoms.extendApi` (Model/ExtendApi.lean): offsets of any length (the documented four-entry
  tuple), identity maps over integers with numpy's negative indices.  The theorems reduce every accepted spelling to the
  core `Atoms.extend` of Model/Topo.lean, about which Props/C11.lean speaks, and state exactly what is rejected.
-/
import MofunModel.Model.ExtendApi

namespace Mofun

/-! ### offsets -/

/-- a four-entry offsets tuple is read with improper offset 0; five entries are read as they are -/
theorem padOffsets_four (o0 o1 o2 o3 : Nat) : padOffsets [o0, o1, o2, o3] = ⟨o0, o1, o2, o3, 0⟩ := rfl

theorem padOffsets_five (o : Offsets) : padOffsets [o.atom, o.bond, o.angle, o.dihedral, o.improper] = o := rfl

/-- **offsets of length 4** (the documented `(0,0,0,0)`): the same extension as with a fifth entry 0 -/
theorem extendApi_offsets4 (a b : Atoms) (o0 o1 o2 o3 : Nat) (map : List (Int × Int)) :
    a.extendApi b (some [o0, o1, o2, o3]) map = a.extendApi b (some [o0, o1, o2, o3, 0]) map := rfl

/-! ### indices -/

/-- numpy's reading of an index: accepted exactly in `[-n, n)`, and then it is `i mod n` -/
theorem plainIdx_spec (n : Nat) (i : Int) (j : Nat) :
    plainIdx n i = some j ↔ (-(n : Int) ≤ i ∧ i < (n : Int) ∧ (j : Int) = i % (n : Int)) := by
  unfold plainIdx
  by_cases h : -(n : Int) ≤ i ∧ i < (n : Int)
  · have hn : (0 : Int) < (n : Int) := by omega
    have h0 : 0 ≤ i % (n : Int) := Int.emod_nonneg _ (by omega)
    simp only [h, and_self, if_true, Option.some.injEq, true_and]
    constructor
    · intro e; rw [← e]; omega
    · intro e; omega
  · simp only [h, if_false]
    constructor
    · intro e; cases e
    · rintro ⟨h1, h2, _⟩; exact absurd ⟨h1, h2⟩ h

/-- a plain index is itself; the same atom counted from the end (`k - n`) is read as `k` -/
theorem plainIdx_nonneg (n k : Nat) (h : k < n) : plainIdx n (k : Int) = some k := by
  rw [plainIdx_spec]
  refine ⟨by omega, by omega, ?_⟩
  rw [Int.emod_eq_of_lt (by omega) (by omega)]

theorem plainIdx_from_end (n k : Nat) (h : k < n) : plainIdx n ((k : Int) - (n : Int)) = some k := by
  rw [plainIdx_spec]
  refine ⟨by omega, by omega, ?_⟩
  have : ((k : Int) - (n : Int)) % (n : Int) = (k : Int) % (n : Int) := by
    rw [Int.sub_emod, Int.emod_self, Int.sub_zero, Int.emod_emod_of_dvd _ (Int.dvd_refl _)]
  rw [this, Int.emod_eq_of_lt (by omega) (by omega)]

theorem plainIdx_none (n : Nat) (i : Int) (h : i < -(n : Int) ∨ (n : Int) ≤ i) : plainIdx n i = none := by
  unfold plainIdx
  have : ¬ (-(n : Int) ≤ i ∧ i < (n : Int)) := by omega
  simp [this]

/-! ### the normalised map -/

theorem normMap_foldl_error (nb na : Nat) (l : List (Int × Int)) (e : Err) :
    l.foldl (normStep nb na) (.error e) = .error e := by
  induction l with
  | nil => rfl
  | cons kv l ih => simpa [List.foldl_cons, normStep] using ih

/-- what the normalisation depends on: only the numpy reading of every key and value -/
theorem normMap_congr (nb na : Nat) (m1 m2 : List (Int × Int))
    (h : m1.map (fun kv => (plainIdx nb kv.1, plainIdx na kv.2)) = m2.map (fun kv => (plainIdx nb kv.1, plainIdx na kv.2))) :
    normMap nb na m1 = normMap nb na m2 := by
  unfold normMap
  generalize (Except.ok [] : Except Err (List (Nat × Nat))) = acc
  induction m1 generalizing m2 acc with
  | nil =>
    cases m2 with
    | nil => rfl
    | cons _ _ => simp at h
  | cons kv l ih =>
    cases m2 with
    | nil => simp at h
    | cons kv' l' =>
      simp only [List.map_cons, List.cons.injEq, Prod.mk.injEq] at h
      obtain ⟨⟨h1, h2⟩, h3⟩ := h
      have hs : normStep nb na acc kv = normStep nb na acc kv' := by
        unfold normStep; rw [h1, h2]
      simp only [List.foldl_cons, hs]
      exact ih l' h3 _

/-- **rejection.** An identity map with a key outside `[-|other|, |other|)` or a value outside `[-|self|, |self|)` is
    refused with an index error (and, the model being functional, nothing is modified). -/
theorem normMap_reject (nb na : Nat) (map : List (Int × Int))
    (h : ∃ kv ∈ map, plainIdx nb kv.1 = none ∨ plainIdx na kv.2 = none) : normMap nb na map = .error .index := by
  unfold normMap
  generalize ([] : List (Nat × Nat)) = acc
  induction map generalizing acc with
  | nil => obtain ⟨kv, hkv, _⟩ := h; simp at hkv
  | cons kv l ih =>
    rw [List.foldl_cons]
    by_cases hb : plainIdx nb kv.1 = none ∨ plainIdx na kv.2 = none
    · have : normStep nb na (.ok acc) kv = Except.error Err.index := by
        unfold normStep
        rcases hb with hb | hb
        · rw [hb]
        · rw [hb]; cases plainIdx nb kv.1 <;> rfl
      rw [this]
      exact normMap_foldl_error nb na l .index
    · have hk : ∃ k, plainIdx nb kv.1 = some k := by
        cases hx : plainIdx nb kv.1 with
        | none => exact absurd (Or.inl hx) hb
        | some k => exact ⟨k, rfl⟩
      have hv : ∃ v, plainIdx na kv.2 = some v := by
        cases hx : plainIdx na kv.2 with
        | none => exact absurd (Or.inr hx) hb
        | some v => exact ⟨v, rfl⟩
      obtain ⟨k, hk⟩ := hk
      obtain ⟨v, hv⟩ := hv
      have : normStep nb na (.ok acc) kv = .ok (dictInsert acc k v) := by
        unfold normStep; rw [hk, hv]
      rw [this]
      apply ih
      obtain ⟨kv', hmem, hbad⟩ := h
      rcases List.mem_cons.mp hmem with e | e
      · subst e; exact absurd hbad hb
      · exact ⟨kv', e, hbad⟩

theorem extendApi_reject (a b : Atoms) (off : Option (List Nat)) (map : List (Int × Int))
    (h : ∃ kv ∈ map, (kv.1 < -(b.atoms.length : Int) ∨ (b.atoms.length : Int) ≤ kv.1)
                    ∨ (kv.2 < -(a.atoms.length : Int) ∨ (a.atoms.length : Int) ≤ kv.2)) :
    a.extendApi b off map = .error .index := by
  unfold Atoms.extendApi
  rw [normMap_reject]
  obtain ⟨kv, hkv, hbad⟩ := h
  refine ⟨kv, hkv, ?_⟩
  rcases hbad with hbad | hbad
  · exact Or.inl (plainIdx_none _ _ hbad)
  · exact Or.inr (plainIdx_none _ _ hbad)

theorem dictInsert_fresh (m : List (Nat × Nat)) (k v : Nat) (h : k ∉ m.map (·.1)) :
    dictInsert m k v = m ++ [(k, v)] := by
  induction m with
  | nil => rfl
  | cons kv rest ih =>
    obtain ⟨k', v'⟩ := kv
    have hne : ¬ k' = k := fun e => h (by simp [e])
    have hr : k ∉ rest.map (·.1) := fun hm => h (by simp [hm])
    simp [dictInsert, hne, ih hr]

/-- a map that is already a dict over plain indices is left as it is -/
theorem normMap_plain (nb na : Nat) (m : List (Nat × Nat)) (hnd : (m.map (·.1)).Nodup)
    (hr : ∀ kv ∈ m, kv.1 < nb ∧ kv.2 < na) :
    normMap nb na (m.map (fun kv => ((kv.1 : Int), (kv.2 : Int)))) = .ok m := by
  unfold normMap
  have key : ∀ (pre l : List (Nat × Nat)), ((pre ++ l).map (·.1)).Nodup → (∀ kv ∈ l, kv.1 < nb ∧ kv.2 < na) →
      (l.map (fun kv => ((kv.1 : Int), (kv.2 : Int)))).foldl (normStep nb na) (.ok pre) = .ok (pre ++ l) := by
    intro pre l
    induction l generalizing pre with
    | nil => intro _ _; simp
    | cons kv l ih =>
      intro hnd hr
      obtain ⟨hk, hv⟩ := hr kv (by simp)
      have hfresh : kv.1 ∉ pre.map (·.1) := by
        intro hm
        rw [List.map_append, List.map_cons] at hnd
        have := (List.nodup_append.mp hnd).2.2 kv.1 hm kv.1 (by simp)
        exact this rfl
      have hstep : normStep nb na (.ok pre) ((kv.1 : Int), (kv.2 : Int)) = .ok (pre ++ [(kv.1, kv.2)]) := by
        unfold normStep
        simp only [plainIdx_nonneg nb kv.1 hk, plainIdx_nonneg na kv.2 hv, dictInsert_fresh pre kv.1 kv.2 hfresh]
      simp only [List.map_cons, List.foldl_cons, hstep]
      have := ih (pre ++ [(kv.1, kv.2)]) (by simpa [List.append_assoc] using hnd)
        (fun kv' h' => hr kv' (by simp [h']))
      simpa [List.append_assoc] using this
  simpa using key [] m (by simpa using hnd) hr

/-- **the core is the special case.** On a dict over plain indices inside both structures and five offsets, the
    public entry point is `Atoms.extend`: every theorem of Props/C11.lean speaks about it. -/
theorem extendApi_plain (a b : Atoms) (o : Option Offsets) (m : List (Nat × Nat)) (hnd : (m.map (·.1)).Nodup)
    (hr : ∀ kv ∈ m, kv.1 < b.atoms.length ∧ kv.2 < a.atoms.length) :
    a.extendApi b (o.map (fun o => [o.atom, o.bond, o.angle, o.dihedral, o.improper]))
        (m.map (fun kv => ((kv.1 : Int), (kv.2 : Int))))
      = a.extend b o m := by
  unfold Atoms.extendApi
  rw [normMap_plain _ _ m hnd hr]
  cases o <;> rfl

/-- **negative indices.** Whatever is accepted is an extension by the core algorithm with the normalised map; and a
    map in which atoms are counted from the end (`k - |other|`, `v - |self|`) gives the same result as the plain one. -/
theorem extendApi_ok (a b r : Atoms) (off : Option (List Nat)) (map : List (Int × Int))
    (h : a.extendApi b off map = .ok r) :
    ∃ m, normMap b.atoms.length a.atoms.length map = .ok m ∧ a.extend b (off.map padOffsets) m = .ok r := by
  unfold Atoms.extendApi at h
  cases hm : normMap b.atoms.length a.atoms.length map with
  | error e => simp [hm] at h
  | ok m => exact ⟨m, rfl, by simpa [hm] using h⟩

theorem extendApi_spelling (a b : Atoms) (off : Option (List Nat)) (map1 map2 : List (Int × Int))
    (h : map1.map (fun kv => (plainIdx b.atoms.length kv.1, plainIdx a.atoms.length kv.2))
       = map2.map (fun kv => (plainIdx b.atoms.length kv.1, plainIdx a.atoms.length kv.2))) :
    a.extendApi b off map1 = a.extendApi b off map2 := by
  unfold Atoms.extendApi
  rw [normMap_congr _ _ map1 map2 h]

/-! ### non-vacuity -/

example : plainIdx 3 (-1) = some 2 ∧ plainIdx 3 2 = some 2 ∧ plainIdx 3 3 = none ∧ plainIdx 3 (-4) = none
    ∧ plainIdx 0 0 = none := by decide
example : normMap 3 4 [(-1, 2), (0, -1), (2, 0)] = .ok [(2, 0), (0, 3)] := rfl
example : normMap 3 4 [(0, 4)] = .error .index := rfl

end Mofun
